(** C12 — proofs over the reference-graph model (OwnModel.v): removing a socket erases every reference to what it frees. *)
From Coq Require Import ZArith List Bool Lia.
From Nice Require Import Agent.OwnModel.
Import ListNotations.
Local Open Scope Z_scope.

(** ---- lists *)
Lemma remove1_incl x l y : In y (remove1 x l) -> In y l.
Proof. induction l as [|a l IH]; cbn; [tauto|]. destruct (a =? x); cbn; intuition. Qed.
Lemma remove1_nodup x l : NoDup l -> NoDup (remove1 x l).
Proof.
  induction 1 as [|a l Ha Hl IH]; cbn; [constructor|]. destruct (a =? x); [exact Hl|]. constructor; [|exact IH].
  intro H. apply Ha. eapply remove1_incl; exact H.
Qed.
Lemma remove1_notin x l : NoDup l -> ~ In x (remove1 x l).
Proof.
  induction 1 as [|a l Ha Hl IH]; cbn; [tauto|]. destruct (a =? x) eqn:E; [apply Z.eqb_eq in E; subst; exact Ha|].
  cbn. intros [->|H]; [rewrite Z.eqb_refl in E; discriminate|exact (IH H)].
Qed.
Lemma remove1_keep x l y : In y l -> y <> x -> In y (remove1 x l).
Proof.
  induction l as [|a l IH]; cbn; [tauto|]. intros [->|H] Hne.
  - destruct (y =? x) eqn:E; [apply Z.eqb_eq in E; contradiction|left; reflexivity].
  - destruct (a =? x); [exact H|right; apply IH; assumption].
Qed.
Lemma remove1_id x l : ~ In x l -> remove1 x l = l.
Proof. induction l as [|a l IH]; cbn; [reflexivity|]. intros H. destruct (a =? x) eqn:E; [apply Z.eqb_eq in E; subst; tauto|]. f_equal. apply IH. tauto. Qed.
Lemma memb_In x l : memb x l = true <-> In x l.
Proof.
  unfold memb. rewrite existsb_exists. split; [intros (y & Hy & E); apply Z.eqb_eq in E; subst; exact Hy|].
  intros H. exists x. split; [exact H|apply Z.eqb_refl].
Qed.
Lemma nodup_map_filter {A} (f : A -> Z) (g : A -> bool) l : NoDup (map f l) -> NoDup (map f (filter g l)).
Proof.
  induction l as [|a l IH]; cbn; [auto|]. intros H. inversion H as [|? ? Ha Hl]; subst. destruct (g a); cbn; [|apply IH; exact Hl].
  constructor; [|apply IH; exact Hl]. intro Hin. apply Ha. apply in_map_iff in Hin. destruct Hin as (b & Hb & Hin). apply filter_In in Hin.
  apply in_map_iff. exists b. tauto.
Qed.
Lemma in_map_filter {A} (f : A -> Z) (g : A -> bool) l y : In y (map f (filter g l)) -> In y (map f l).
Proof. rewrite !in_map_iff. intros (b & Hb & Hin). apply filter_In in Hin. exists b. tauto. Qed.

(** find on a heap whose ids are distinct *)
Lemma find_some_in {A} (f : A -> Z) (h : list A) i x : find (fun y => f y =? i) h = Some x -> In x h /\ f x = i.
Proof. intros H. apply find_some in H. destruct H as [H1 H2]. apply Z.eqb_eq in H2. tauto. Qed.
Lemma find_in_nodup {A} (f : A -> Z) (h : list A) x : NoDup (map f h) -> In x h -> find (fun y => f y =? f x) h = Some x.
Proof.
  induction h as [|a h IH]; cbn; [tauto|]. intros Hn [->|Hin]; [rewrite Z.eqb_refl; reflexivity|].
  inversion Hn as [|? ? Ha Hh]; subst. destruct (f a =? f x) eqn:E; [|apply IH; assumption].
  apply Z.eqb_eq in E. exfalso. apply Ha. rewrite E. apply in_map. exact Hin.
Qed.
Lemma find_none_notin {A} (f : A -> Z) (h : list A) i : find (fun y => f y =? i) h = None -> ~ In i (map f h).
Proof.
  intros H Hin. apply in_map_iff in Hin. destruct Hin as (x & Hx & Hin). apply (find_none _ _ H) in Hin. cbn in Hin. rewrite Hx, Z.eqb_refl in Hin. discriminate.
Qed.
Lemma find_live {A} (f : A -> Z) (h : list A) i : In i (map f h) -> exists x, find (fun y => f y =? i) h = Some x.
Proof. intros H. destruct (find (fun y => f y =? i) h) eqn:E; [eauto|]. exfalso. exact (find_none_notin _ _ _ E H). Qed.

(** ---- well-formedness: every reference points to a live object *)
Definition live_sock (s : state) (k : Z) : Prop := In k (map sk_id (socks s)).
Definition live_cand (s : state) (c : Z) : Prop := In c (map c_id (cands s)).
Definition live_pair (s : state) (p : Z) : Prop := In p (map p_id (pairs s)).
Definition live_refr (s : state) (r : Z) : Prop := In r (map r_id (refrs s)).

(** [ex] exempts one candidate (the one being freed) from the sockptr clause; WF = nothing exempted *)
Record WFx (ex : option Z) (s : state) : Prop := {
  wf_nd_socks : NoDup (map sk_id (socks s));
  wf_nd_cands : NoDup (map c_id (cands s));
  wf_nd_pairs : NoDup (map p_id (pairs s));
  wf_nd_refrs : NoDup (map r_id (refrs s));
  wf_nd_lcands : NoDup (lcands s);
  wf_nd_rcands : NoDup (rcands s);
  wf_nd_sources : NoDup (sources s);
  wf_nd_clist : NoDup (clist s);
  wf_nd_trig : NoDup (trig s);
  wf_nd_rlist : NoDup (rlist s);
  wf_nd_pruning : NoDup (pruning s);
  wf_base : forall k b, In k (socks s) -> sk_base k = Some b -> live_sock s b;                 (* UdpTurnPriv.base_socket *)
  wf_cand_sock : forall c k, In c (cands s) -> c_sock c = Some k -> ex <> Some (c_id c) -> live_sock s k;            (* NiceCandidateImpl.sockptr *)
  wf_pair_refs : forall p, In p (pairs s) -> live_cand s (p_local p) /\ live_cand s (p_remote p) /\ live_sock s (p_sock p);
  wf_refr_refs : forall r, In r (refrs s) -> live_sock s (r_sock r) /\ live_cand s (r_cand r);
  wf_lcands : forall c, In c (lcands s) -> live_cand s c;
  wf_rcands : forall c, In c (rcands s) -> live_cand s c;
  wf_sources : forall k, In k (sources s) -> live_sock s k;                                   (* SocketSource.socket *)
  wf_ichecks : forall i, In i (ichecks s) -> live_sock s (i_sock i);                          (* IncomingCheck.local_socket *)
  wf_sel_l : forall c, sel_l s = Some c -> live_cand s c;
  wf_sel_r : forall c, sel_r s = Some c -> live_cand s c;
  wf_turn : forall c, turn_cand s = Some c -> live_cand s c;
  wf_clist : forall p, In p (clist s) -> live_pair s p;
  wf_trig : forall p, In p (trig s) -> live_pair s p;
  wf_discs : forall d, In d (discs s) -> live_sock s (d_sock d);                              (* CandidateDiscovery.nicesock *)
  wf_rlist : forall r, In r (rlist s) -> live_refr s r;
  wf_pruning : forall r, In r (pruning s) -> live_refr s r
}.

Notation WF := (WFx None).
Arguments wf_nd_socks {ex}.
Arguments wf_nd_cands {ex}.
Arguments wf_nd_pairs {ex}.
Arguments wf_nd_refrs {ex}.
Arguments wf_nd_lcands {ex}.
Arguments wf_nd_rcands {ex}.
Arguments wf_nd_sources {ex}.
Arguments wf_nd_clist {ex}.
Arguments wf_nd_trig {ex}.
Arguments wf_nd_rlist {ex}.
Arguments wf_nd_pruning {ex}.
Arguments wf_base {ex}.
Arguments wf_cand_sock {ex}.
Arguments wf_pair_refs {ex}.
Arguments wf_refr_refs {ex}.
Arguments wf_lcands {ex}.
Arguments wf_rcands {ex}.
Arguments wf_sources {ex}.
Arguments wf_ichecks {ex}.
Arguments wf_sel_l {ex}.
Arguments wf_sel_r {ex}.
Arguments wf_turn {ex}.
Arguments wf_clist {ex}.
Arguments wf_trig {ex}.
Arguments wf_discs {ex}.
Arguments wf_rlist {ex}.
Arguments wf_pruning {ex}.

(** ---- frames: which fields an operation may change *)
Definition updP (s : state) ps tr cl cs fl := set_fault (set_cstate (set_clist (set_trig (set_pairs s ps) tr) cl) cs) fl.
Definition frameP (s s' : state) : Prop := s' = updP s (pairs s') (trig s') (clist s') (cstate s') (fault s').
Lemma frameP_refl s : frameP s s. Proof. destruct s; reflexivity. Qed.
Lemma frameP_trans a b c : frameP a b -> frameP b c -> frameP a c.
Proof. unfold frameP, updP. destruct a, b, c; cbn. intros H1 H2. injection H1; injection H2; intros; subst; reflexivity. Qed.
Lemma frameP_fields s s' : frameP s s' ->
  socks s' = socks s /\ cands s' = cands s /\ refrs s' = refrs s /\ lcands s' = lcands s /\ rcands s' = rcands s /\ sources s' = sources s /\
  ichecks s' = ichecks s /\ sel_l s' = sel_l s /\ sel_r s' = sel_r s /\ sel_prio s' = sel_prio s /\ turn_cand s' = turn_cand s /\
  discs s' = discs s /\ rlist s' = rlist s /\ pruning s' = pruning s /\ cid s' = cid s.
Proof. intros H. rewrite H. cbn. repeat split. Qed.

Lemma flt_frameP s k : frameP s (flt s k).
Proof. unfold flt. destruct (fault s =? 0); [destruct s; reflexivity|apply frameP_refl]. Qed.
Lemma free_pair_frameP s p : frameP s (free_pair s p).
Proof. unfold free_pair. destruct (find_pair (pairs s) p); [destruct s; reflexivity|apply flt_frameP]. Qed.
Lemma pair_free_frameP s p : frameP s (pair_free s p).
Proof. unfold pair_free. eapply frameP_trans; [|apply free_pair_frameP]. destruct s; reflexivity. Qed.
Lemma signal_frameP s n : frameP s (signal_state s n).
Proof. unfold signal_state. destruct (cstate s =? n); [apply frameP_refl|]. destruct (transition_ok _ _); [destruct s; reflexivity|apply flt_frameP]. Qed.

Lemma pair_free_live s p pr : find_pair (pairs s) p = Some pr ->
  pairs (pair_free s p) = filter (fun x => negb (p_id x =? p)) (pairs s) /\ trig (pair_free s p) = remove1 p (trig s) /\
  fault (pair_free s p) = fault s /\ clist (pair_free s p) = clist s /\ cstate (pair_free s p) = cstate s.
Proof. intros H. unfold pair_free, free_pair. cbn [pairs set_trig]. rewrite H. cbn. repeat split. Qed.

Lemma nodup_id_unique {A} (f : A -> Z) (h : list A) x y : NoDup (map f h) -> In x h -> In y h -> f x = f y -> x = y.
Proof.
  induction h as [|a h IH]; cbn; [tauto|]. intros Hn Hx Hy E. inversion Hn as [|? ? Ha Hh]; subst.
  destruct Hx as [->|Hx], Hy as [->|Hy]; [reflexivity| | |apply IH; assumption].
  - exfalso. apply Ha. rewrite E. apply in_map. exact Hy.
  - exfalso. apply Ha. rewrite <- E. apply in_map. exact Hx.
Qed.
Lemma nodup_snoc (l : list Z) x : NoDup l -> ~ In x l -> NoDup (l ++ [x]).
Proof.
  induction 1 as [|a l Ha Hl IH]; cbn; intros Hx; [constructor; [tauto|constructor]|]. constructor; [|apply IH; tauto].
  intro H. apply in_app_or in H. destruct H as [H|[<-|[]]]; tauto.
Qed.
Lemma set_trig_frameP s v : frameP s (set_trig s v). Proof. destruct s; reflexivity. Qed.
Lemma set_clist_frameP s v : frameP s (set_clist s v). Proof. destruct s; reflexivity. Qed.

(** ---- the generic loop over the check list *)
Definition loop_body {A} (step : state -> pair -> A -> action * A) (acc : state * list Z * A) (p : Z) : state * list Z * A :=
  let '(st, kept, a) := acc in
  match find_pair (pairs st) p with
  | None => (flt st 1, kept ++ [p], a)
  | Some pr =>
      let '(act, a') := step st pr a in
      match act with
      | AFree => (pair_free st p, kept, a')
      | AKeep => (st, kept ++ [p], a')
      | AUntrig => (set_trig st (remove1 p (trig st)), kept ++ [p], a')
      | AFault => (flt st 1, kept ++ [p], a')
      end
  end.
Lemma pair_loop_eq {A} (step : state -> pair -> A -> action * A) l s a0 : pair_loop step l s a0 = fold_left (loop_body step) l (s, [], a0).
Proof. reflexivity. Qed.

Lemma pair_loop_inv {A} (step : state -> pair -> A -> action * A) (Q R : pair -> Prop) (s0 : state) :
  (forall st pr a, cands st = cands s0 -> cid st = cid s0 -> In pr (pairs s0) ->
     fst (step st pr a) <> AFault /\ (fst (step st pr a) <> AFree -> Q pr) /\ (R pr -> fst (step st pr a) <> AFree)) ->
  forall l st kept a,
    frameP s0 st -> (forall x, In x (pairs st) -> In x (pairs s0)) ->
    NoDup l -> (forall i, In i l -> live_pair st i) -> NoDup (map p_id (pairs st)) -> NoDup (trig st) -> fault st = 0 ->
    NoDup kept -> (forall i, In i kept -> ~ In i l) ->
    forall s' kept' a', fold_left (loop_body step) l (st, kept, a) = (s', kept', a') ->
      frameP s0 s' /\ fault s' = 0 /\ clist s' = clist st /\ cstate s' = cstate st /\
      (forall x, In x (pairs s') -> In x (pairs st)) /\
      (forall x, In x (pairs st) -> ~ In (p_id x) l -> In x (pairs s')) /\
      NoDup (map p_id (pairs s')) /\ NoDup (trig s') /\
      (forall i, In i (trig s') -> In i (trig st)) /\
      (forall i, In i (trig s') -> live_pair st i -> live_pair s' i) /\
      NoDup kept' /\
      (forall i, In i kept' -> In i kept \/ In i l) /\
      (forall i, In i kept -> In i kept') /\
      (forall i, In i l -> In i kept' \/ ~ live_pair s' i) /\
      (forall i, In i l -> In i kept' -> live_pair s' i) /\
      (forall x, In x (pairs s') -> In (p_id x) l -> Q x) /\
      (forall x, In x (pairs st) -> R x -> In x (pairs s')).
Proof.
  intros Hstep. induction l as [|p l IH]; intros st kept a Hfr Hsub Hnl Hlive Hnp Hnt Hf Hnk Hdis s' kept' a' Hfold.
  - cbn in Hfold. injection Hfold as <- <- <-. repeat split; auto; try tauto. intros x _ [].
  - cbn [fold_left] in Hfold. inversion Hnl as [|? ? Hpl Hnl']; subst.
    assert (Hlp : live_pair st p) by (apply Hlive; left; reflexivity).
    destruct (find_live p_id (pairs st) p Hlp) as [pr Hfind].
    destruct (find_some_in p_id _ _ _ Hfind) as [Hpr Hid].
    destruct (frameP_fields _ _ Hfr) as (_ & Hca & _ & _ & _ & _ & _ & _ & _ & _ & _ & _ & _ & _ & Hci).
    specialize (Hstep st pr a Hca Hci (Hsub _ Hpr)).
    unfold loop_body at 2 in Hfold. change (find_pair (pairs st) p) with (find (fun x => p_id x =? p) (pairs st)) in Hfold. rewrite Hfind in Hfold.
    destruct (step st pr a) as [act a1]. cbn [fst] in Hstep. destruct Hstep as (Hnf & HQ & HR).
    assert (Hpk : ~ In p kept) by (intro H; apply (Hdis _ H); left; reflexivity).
    assert (Hnk1 : NoDup (kept ++ [p])) by (apply nodup_snoc; assumption).
    assert (Hdis1 : forall i, In i (kept ++ [p]) -> ~ In i l).
    { intros i H. apply in_app_or in H. destruct H as [H|[<-|[]]]; [|exact Hpl]. intro H2. apply (Hdis _ H). right; exact H2. }
    destruct act.
    + (* AFree *)
      destruct (pair_free_live st p pr Hfind) as (Ep & Et & Ef & Ec & Es).
      assert (Hdead : ~ live_pair (pair_free st p) p).
      { unfold live_pair. rewrite Ep. intro H. apply in_map_iff in H. destruct H as (x & Hx & Hin). apply filter_In in Hin. destruct Hin as [_ Hin].
        rewrite Hx, Z.eqb_refl in Hin. discriminate. }
      specialize (IH (pair_free st p) kept a1).
      destruct (IH (frameP_trans _ _ _ Hfr (pair_free_frameP st p))) with (s' := s') (kept' := kept') (a' := a')
        as (I1 & I2 & I3 & I4 & I5 & I6 & I7 & I8 & I9 & I10 & I11 & I12 & I13 & I14 & I15 & I16 & I17); auto.
      * intros x Hx. rewrite Ep in Hx. apply filter_In in Hx. apply Hsub. tauto.
      * intros i Hi. assert (Hip : i <> p) by (intros ->; exact (Hpl Hi)).
        unfold live_pair. rewrite Ep. specialize (Hlive i (or_intror Hi)). unfold live_pair in Hlive. apply in_map_iff in Hlive.
        destruct Hlive as (x & Hx & Hin). apply in_map_iff. exists x. split; [exact Hx|]. apply filter_In. split; [exact Hin|].
        rewrite Hx. destruct (i =? p) eqn:E; [apply Z.eqb_eq in E; contradiction|reflexivity].
      * rewrite Ep. apply nodup_map_filter. exact Hnp.
      * rewrite Et. apply remove1_nodup. exact Hnt.
      * congruence.
      * intros i Hi H. apply (Hdis _ Hi). right; exact H.
      * assert (Hs5 : forall x, In x (pairs s') -> In x (pairs st)).
        { intros x Hx. specialize (I5 x Hx). rewrite Ep in I5. apply filter_In in I5. tauto. }
        repeat split; auto; try congruence.
        -- intros x Hx Hn. apply I6; [|intro H; apply Hn; right; exact H]. rewrite Ep. apply filter_In. split; [exact Hx|].
           destruct (p_id x =? p) eqn:E; [apply Z.eqb_eq in E; exfalso; apply Hn; left; symmetry; exact E|reflexivity].
        -- intros i Hi. specialize (I9 i Hi). rewrite Et in I9. eapply remove1_incl; exact I9.
        -- intros i Hi Hl. apply I10; [exact Hi|]. specialize (I9 i Hi). rewrite Et in I9.
           assert (i <> p) by (intros ->; exact (remove1_notin p _ Hnt I9)).
           unfold live_pair in *. rewrite Ep. apply in_map_iff in Hl. destruct Hl as (x & Hx & Hin). apply in_map_iff. exists x. split; [exact Hx|].
           apply filter_In. split; [exact Hin|]. rewrite Hx. destruct (i =? p) eqn:E; [apply Z.eqb_eq in E; contradiction|reflexivity].
        -- intros i Hi. destruct (I12 i Hi); [left; assumption|right; right; assumption].
        -- intros i [<-|Hi]; [|apply I14; exact Hi]. right. intro H. apply Hdead. unfold live_pair in *. apply in_map_iff in H. destruct H as (x & Hx & Hin).
           apply in_map_iff. exists x. split; [exact Hx|apply I5; exact Hin].
        -- intros i [<-|Hi] Hk; [|apply I15; assumption]. exfalso. destruct (I12 _ Hk); [contradiction|contradiction].
        -- intros x Hx [E|Hi]; [|apply I16; assumption]. exfalso. specialize (I5 x Hx). rewrite Ep in I5. apply filter_In in I5. destruct I5 as [_ I5].
           rewrite <- E, Z.eqb_refl in I5. discriminate.
        -- intros x Hx HRx. apply I17; [|exact HRx]. rewrite Ep. apply filter_In. split; [exact Hx|].
           destruct (p_id x =? p) eqn:E; [|reflexivity]. apply Z.eqb_eq in E. exfalso.
           assert (x = pr) by (apply (nodup_id_unique p_id (pairs st)); [exact Hnp|exact Hx|exact Hpr|congruence]). subst x. apply (HR HRx). reflexivity.
    + (* AKeep *)
      specialize (IH st (kept ++ [p]) a1).
      destruct (IH Hfr) with (s' := s') (kept' := kept') (a' := a')
        as (I1 & I2 & I3 & I4 & I5 & I6 & I7 & I8 & I9 & I10 & I11 & I12 & I13 & I14 & I15 & I16 & I17); auto.
      * intros i Hi. apply Hlive. right; exact Hi.
      * assert (Hprs : In pr (pairs s')) by (apply I6; [exact Hpr|rewrite Hid; exact Hpl]).
        repeat split; auto.
        -- intros x Hx Hn. apply I6; [exact Hx|intro H; apply Hn; right; exact H].
        -- intros i Hi. destruct (I12 i Hi) as [H|H]; [|right; right; exact H]. apply in_app_or in H. destruct H as [H|[<-|[]]]; [left; exact H|right; left; reflexivity].
        -- intros i Hi. apply I13. apply in_or_app. left; exact Hi.
        -- intros i [<-|Hi]; [left; apply I13; apply in_or_app; right; left; reflexivity|apply I14; exact Hi].
        -- intros i [<-|Hi] Hk; [|apply I15; assumption]. unfold live_pair. rewrite <- Hid. apply in_map. exact Hprs.
        -- intros x Hx [E|Hi]; [|apply I16; assumption]. assert (x = pr); [|subst x; apply HQ; discriminate].
           apply (nodup_id_unique p_id (pairs st)); [exact Hnp|apply I5; exact Hx|exact Hpr|congruence].
    + (* AUntrig *)
      specialize (IH (set_trig st (remove1 p (trig st))) (kept ++ [p]) a1).
      destruct (IH (frameP_trans _ _ _ Hfr (set_trig_frameP st _))) with (s' := s') (kept' := kept') (a' := a')
        as (I1 & I2 & I3 & I4 & I5 & I6 & I7 & I8 & I9 & I10 & I11 & I12 & I13 & I14 & I15 & I16 & I17); auto.
      * intros i Hi. apply Hlive. right; exact Hi.
      * cbn. apply remove1_nodup. exact Hnt.
      * cbn [pairs set_trig] in *. assert (Hprs : In pr (pairs s')) by (apply I6; [exact Hpr|rewrite Hid; exact Hpl]).
        repeat split; auto.
        -- intros x Hx Hn. apply I6; [exact Hx|intro H; apply Hn; right; exact H].
        -- intros i Hi. specialize (I9 i Hi). cbn in I9. eapply remove1_incl; exact I9.
        -- intros i Hi. destruct (I12 i Hi) as [H|H]; [|right; right; exact H]. apply in_app_or in H. destruct H as [H|[<-|[]]]; [left; exact H|right; left; reflexivity].
        -- intros i Hi. apply I13. apply in_or_app. left; exact Hi.
        -- intros i [<-|Hi]; [left; apply I13; apply in_or_app; right; left; reflexivity|apply I14; exact Hi].
        -- intros i [<-|Hi] Hk; [|apply I15; assumption]. unfold live_pair. rewrite <- Hid. apply in_map. exact Hprs.
        -- intros x Hx [E|Hi]; [|apply I16; assumption]. assert (x = pr); [|subst x; apply HQ; discriminate].
           apply (nodup_id_unique p_id (pairs st)); [exact Hnp|apply I5; exact Hx|exact Hpr|congruence].
    + exfalso. apply Hnf. reflexivity.
Qed.

(** an operation inside the pair frame keeps WF when what it leaves of pairs / check list / triggered queue is consistent *)
Lemma WF_frameP {ex} s s' : frameP s s' -> WFx ex s ->
  NoDup (map p_id (pairs s')) -> NoDup (clist s') -> NoDup (trig s') -> (forall x, In x (pairs s') -> In x (pairs s)) ->
  (forall p, In p (clist s') -> live_pair s' p) -> (forall p, In p (trig s') -> live_pair s' p) -> WFx ex s'.
Proof.
  intros Hfr W N1 N2 N3 Hsub Hc Ht.
  destruct (frameP_fields _ _ Hfr) as (E1 & E2 & E3 & E4 & E5 & E6 & E7 & E8 & E9 & E10 & E11 & E12 & E13 & E14 & E15).
  destruct W. constructor; unfold live_sock, live_cand, live_refr in *; rewrite ?E1, ?E2, ?E3, ?E4, ?E5, ?E6, ?E7, ?E8, ?E9, ?E11, ?E12, ?E13, ?E14; auto.
Qed.

Definition cstate_ok (s : state) : Prop := 0 <= cstate s <= 5.
Lemma signal_spec s n : frameP s (signal_state s n) /\ pairs (signal_state s n) = pairs s /\ trig (signal_state s n) = trig s /\ clist (signal_state s n) = clist s.
Proof.
  split; [apply signal_frameP|]. unfold signal_state, flt. destruct (cstate s =? n); [auto|]. destruct (transition_ok _ _); [cbn; auto|].
  destruct (fault s =? 0); cbn; auto.
Qed.
Lemma signal_WF s n : WF s -> WF (signal_state s n).
Proof.
  intros W. destruct (signal_spec s n) as (F & E1 & E2 & E3). apply (WF_frameP s); auto; unfold live_pair; rewrite ?E1, ?E2, ?E3; try apply W.
  intros x Hx; exact Hx.
Qed.
Lemma signal_ok s n : fault s = 0 -> (cstate s = n \/ transition_ok (cstate s) n = true) -> fault (signal_state s n) = 0 /\ cstate (signal_state s n) = n.
Proof.
  intros Hf H. unfold signal_state. destruct (cstate s =? n) eqn:E; [apply Z.eqb_eq in E; tauto|]. destruct H as [H|H]; [apply Z.eqb_neq in E; contradiction|].
  rewrite H. cbn. tauto.
Qed.
Lemma cstate_cases s : cstate_ok s -> cstate s = 0 \/ cstate s = 1 \/ cstate s = 2 \/ cstate s = 3 \/ cstate s = 4 \/ cstate s = 5.
Proof. unfold cstate_ok. lia. Qed.
(** the three kinds of state changes made by conn_check_prune_socket and conn_check_update_check_list_state_for_ready never trip the
    whitelist assertion of agent_signal_component_state_change *)
Definition demote (s : state) : state := if cstate s =? 4 then signal_state s 5 else if cstate s =? 3 then signal_state s 2 else s.
Definition promote (s : state) : state :=
  let s3 := if (cstate s <? 2) || (cstate s =? 5) then signal_state s 2 else s in
  let s4 := if cstate s3 <? 3 then signal_state s3 3 else s3 in signal_state s4 4.
Lemma demote_ok s : fault s = 0 -> cstate_ok s -> fault (demote s) = 0 /\ cstate_ok (demote s).
Proof.
  intros Hf Hc. unfold demote, cstate_ok. destruct (cstate_cases s Hc) as [E|[E|[E|[E|[E|E]]]]]; rewrite E; cbn; try (rewrite E; split; [exact Hf|lia]).
  - destruct (signal_ok s 2 Hf) as [H1 H2]; [right; rewrite E; reflexivity|]. rewrite H2. split; [exact H1|lia].
  - destruct (signal_ok s 5 Hf) as [H1 H2]; [right; rewrite E; reflexivity|]. rewrite H2. split; [exact H1|lia].
Qed.
Lemma promote_ok s : fault s = 0 -> cstate_ok s -> fault (promote s) = 0 /\ cstate_ok (promote s).
Proof.
  intros Hf Hc. unfold promote, cstate_ok.
  assert (K : forall s1, fault s1 = 0 -> cstate s1 = 2 \/ cstate s1 = 3 \/ cstate s1 = 4 ->
              fault (signal_state (if cstate s1 <? 3 then signal_state s1 3 else s1) 4) = 0 /\ cstate (signal_state (if cstate s1 <? 3 then signal_state s1 3 else s1) 4) = 4).
  { intros s1 Hf1 [E|[E|E]]; rewrite E; cbn.
    - destruct (signal_ok s1 3 Hf1) as [H1 H2]; [right; rewrite E; reflexivity|]. apply signal_ok; [exact H1|right; rewrite H2; reflexivity].
    - apply signal_ok; [exact Hf1|right; rewrite E; reflexivity].
    - apply signal_ok; [exact Hf1|left; exact E]. }
  destruct (cstate_cases s Hc) as [E|[E|[E|[E|[E|E]]]]]; rewrite E; cbn.
  1,2,6: destruct (signal_ok s 2 Hf) as [H1 H2]; [right; rewrite E; reflexivity|]; destruct (K _ H1 (or_introl H2)) as [K1 K2]; rewrite K2; split; [exact K1|lia].
  all: destruct (K s Hf) as [K1 K2]; [tauto|]; rewrite K2; split; [exact K1|lia].
Qed.
Lemma demote_spec s : WF s -> WF (demote s) /\ frameP s (demote s) /\ pairs (demote s) = pairs s /\ trig (demote s) = trig s /\ clist (demote s) = clist s.
Proof.
  intros W. unfold demote. destruct (cstate s =? 4); [|destruct (cstate s =? 3)].
  1,2: split; [apply signal_WF; exact W|apply signal_spec].
  split; [exact W|]. split; [apply frameP_refl|auto].
Qed.
Lemma promote_spec s : WF s -> WF (promote s) /\ frameP s (promote s) /\ pairs (promote s) = pairs s /\ trig (promote s) = trig s /\ clist (promote s) = clist s.
Proof.
  intros W. unfold promote.
  set (s3 := if (cstate s <? 2) || (cstate s =? 5) then signal_state s 2 else s).
  assert (H3 : WF s3 /\ frameP s s3 /\ pairs s3 = pairs s /\ trig s3 = trig s /\ clist s3 = clist s).
  { unfold s3. destruct ((cstate s <? 2) || (cstate s =? 5)); [split; [apply signal_WF; exact W|apply signal_spec]|]. split; [exact W|]. split; [apply frameP_refl|auto]. }
  destruct H3 as (W3 & F3 & A3 & B3 & C3).
  set (s4 := if cstate s3 <? 3 then signal_state s3 3 else s3).
  assert (H4 : WF s4 /\ frameP s3 s4 /\ pairs s4 = pairs s3 /\ trig s4 = trig s3 /\ clist s4 = clist s3).
  { unfold s4. destruct (cstate s3 <? 3); [split; [apply signal_WF; exact W3|apply signal_spec]|]. split; [exact W3|]. split; [apply frameP_refl|auto]. }
  destruct H4 as (W4 & F4 & A4 & B4 & C4). destruct (signal_spec s4 4) as (F5 & A5 & B5 & C5).
  split; [apply signal_WF; exact W4|]. split; [eapply frameP_trans; [exact F3|eapply frameP_trans; [exact F4|exact F5]]|]. repeat split; congruence.
Qed.

Lemma loop_stage {A} (step : state -> pair -> A -> action * A) (Q R : pair -> Prop) s a0 st kept a :
  (forall st pr a, cands st = cands s -> cid st = cid s -> In pr (pairs s) ->
     fst (step st pr a) <> AFault /\ (fst (step st pr a) <> AFree -> Q pr) /\ (R pr -> fst (step st pr a) <> AFree)) ->
  WF s -> fault s = 0 -> pair_loop step (clist s) s a0 = (st, kept, a) ->
  WF (set_clist st kept) /\ fault (set_clist st kept) = 0 /\ cstate (set_clist st kept) = cstate s /\ frameP s (set_clist st kept) /\
  (forall x, In x (pairs (set_clist st kept)) -> In x (pairs s)) /\
  (forall x, In x (pairs s) -> ~ In (p_id x) (clist s) -> In x (pairs (set_clist st kept))) /\
  (forall i, In i (clist (set_clist st kept)) -> In i (clist s)) /\
  (forall x, In x (pairs (set_clist st kept)) -> In (p_id x) (clist s) -> In (p_id x) (clist (set_clist st kept)) /\ Q x) /\
  (forall i, In i (clist s) -> In i (clist (set_clist st kept)) \/ ~ live_pair (set_clist st kept) i) /\
  (forall x, In x (pairs s) -> R x -> In x (pairs (set_clist st kept)) /\ (In (p_id x) (clist s) -> In (p_id x) (clist (set_clist st kept)))).
Proof.
  intros Hstep W Hf Hl. rewrite pair_loop_eq in Hl.
  destruct (pair_loop_inv step Q R s Hstep (clist s) s [] a0 (frameP_refl s) (fun x H => H) (wf_nd_clist s W) (wf_clist s W) (wf_nd_pairs s W) (wf_nd_trig s W) Hf
              (NoDup_nil Z) (fun i (H : In i []) => match H with end) st kept a Hl)
    as (I1 & I2 & I3 & I4 & I5 & I6 & I7 & I8 & I9 & I10 & I11 & I12 & I13 & I14 & I15 & I16 & I17).
  assert (Hfr : frameP s (set_clist st kept)) by (eapply frameP_trans; [exact I1|apply set_clist_frameP]).
  cbn [pairs clist fault cstate set_clist]. unfold live_pair. cbn [pairs set_clist].
  split; [|repeat split; auto].
  - apply (WF_frameP s); auto.
    + cbn. intros p Hp. destruct (I12 p Hp) as [[]|H]. apply I15; assumption.
    + cbn. intros p Hp. apply I10; [exact Hp|]. apply (wf_trig s W). apply I9. exact Hp.
  - intros i Hi. destruct (I12 i Hi) as [[]|H]. exact H.
  - destruct (I14 _ H0) as [H1|H1]; [exact H1|]. exfalso. apply H1. apply in_map. exact H.
  - intros Hc. destruct (I14 _ Hc) as [H2|H2]; [exact H2|]. exfalso. apply H2. apply in_map. apply I17; assumption.
Qed.

(** ---- conn_check_prune_socket *)
Definition no_nominated (s : state) : Prop := forall pr, In pr (pairs s) -> p_comp pr = cid s -> p_valid pr = true -> p_nominated pr = true -> False.
Definition touches_none (s : state) (sk : Z) : Prop :=
  forall pr, In pr (pairs s) -> In (p_id pr) (clist s) -> p_comp pr = cid s -> pair_touches s pr sk = Some false.

Lemma count_nominated_spec s : WF s -> fst (count_nominated s) = s /\ (no_nominated s -> snd (count_nominated s) = 0).
Proof.
  intros W. unfold count_nominated.
  assert (K : forall l n, (forall i, In i l -> live_pair s i) ->
     fst (fold_left (fun (acc : state * Z) p => let '(st, n) := acc in
       match find_pair (pairs st) p with None => (flt st 1, n) | Some pr => if (p_comp pr =? cid st) && p_valid pr && p_nominated pr then (st, n + 1) else (st, n) end) l (s, n)) = s /\
     (no_nominated s -> snd (fold_left (fun (acc : state * Z) p => let '(st, n) := acc in
       match find_pair (pairs st) p with None => (flt st 1, n) | Some pr => if (p_comp pr =? cid st) && p_valid pr && p_nominated pr then (st, n + 1) else (st, n) end) l (s, n)) = n)).
  { induction l as [|p l IH]; intros n Hl; [cbn; auto|]. cbn [fold_left].
    destruct (find_live p_id (pairs s) p (Hl p (or_introl eq_refl))) as [pr Hfind]. cbv beta iota. unfold find_pair. rewrite Hfind.
    destruct (find_some_in p_id _ _ _ Hfind) as [Hpr Hid].
    destruct ((p_comp pr =? cid s) && p_valid pr && p_nominated pr) eqn:E.
    - destruct (IH (n + 1) (fun i H => Hl i (or_intror H))) as [H1 H2]. split; [exact H1|]. intros Hn. exfalso.
      apply andb_prop in E. destruct E as [E E3]. apply andb_prop in E. destruct E as [E1 E2]. apply Z.eqb_eq in E1. exact (Hn pr Hpr E1 E2 E3).
    - apply IH. intros i H. apply Hl. right; exact H. }
  apply K. apply (wf_clist s W).
Qed.

Lemma pair_touches_frame s st pr sk : cands st = cands s -> pair_touches st pr sk = pair_touches s pr sk.
Proof. intros E. unfold pair_touches. rewrite E. reflexivity. Qed.
Lemma pair_touches_some s pr sk : WF s -> In pr (pairs s) -> pair_touches s pr sk <> None.
Proof.
  intros W Hpr. destruct (wf_pair_refs s W pr Hpr) as (H1 & H2 & _). unfold pair_touches.
  destruct (find_live c_id (cands s) _ H1) as [lc E1]. destruct (find_live c_id (cands s) _ H2) as [rc E2]. unfold find_cand. rewrite E1, E2.
  destruct (opt_is (c_sock lc) sk); discriminate.
Qed.

(** what one call of conn_check_prune_socket guarantees *)
Definition ccps_post (s s' : state) (sk : Z) : Prop :=
  WF s' /\ fault s' = 0 /\ cstate_ok s' /\ frameP s s' /\
  (forall x, In x (pairs s') -> In x (pairs s)) /\
  (forall i, In i (clist s') -> In i (clist s)) /\
  (forall x, In x (pairs s') -> In (p_id x) (clist s) -> In (p_id x) (clist s')) /\
  (forall x, In x (pairs s) -> ~ In (p_id x) (clist s) -> In x (pairs s')) /\
  (forall x, In x (pairs s) -> p_comp x <> cid s -> In x (pairs s') /\ (In (p_id x) (clist s) -> In (p_id x) (clist s'))) /\
  touches_none s' sk.

Lemma prune_socket_step_ok s sk : WF s -> forall st pr a, cands st = cands s -> cid st = cid s -> In pr (pairs s) ->
  fst (prune_socket_act sk st pr a) <> AFault /\
  (fst (prune_socket_act sk st pr a) <> AFree -> (p_comp pr = cid s -> pair_touches s pr sk = Some false)) /\
  (p_comp pr <> cid s -> fst (prune_socket_act sk st pr a) <> AFree).
Proof.
  intros W st pr [[f c] n] Hca Hci Hpr. unfold prune_socket_act. rewrite Hci. destruct (p_comp pr =? cid s) eqn:E; cbn [negb].
  - apply Z.eqb_eq in E. rewrite (pair_touches_frame s st pr sk Hca). pose proof (pair_touches_some s pr sk W Hpr) as Hs.
    destruct (pair_touches s pr sk) as [[|]|]; cbn; repeat split; try discriminate; try tauto; congruence.
  - apply Z.eqb_neq in E. cbn. repeat split; try discriminate; tauto.
Qed.
Lemma prune_pending_step_ok s prio : forall st pr a, cands st = cands s -> cid st = cid s -> In pr (pairs s) ->
  fst (prune_pending_act prio st pr a) <> AFault /\ (fst (prune_pending_act prio st pr a) <> AFree -> True) /\
  (p_comp pr <> cid s -> fst (prune_pending_act prio st pr a) <> AFree).
Proof.
  intros st pr a Hca Hci Hpr. unfold prune_pending_act. rewrite Hci. destruct (p_comp pr =? cid s) eqn:E; cbn [negb].
  - apply Z.eqb_eq in E. repeat split; [|tauto].
    destruct (memb (p_id pr) (trig st) && negb (p_state pr =? 2)); [destruct (p_prio pr <? prio); cbn; discriminate|].
    destruct ((p_state pr =? 5) || (p_state pr =? 1)); [cbn; discriminate|]. destruct (p_state pr =? 2); [destruct (p_prio pr <? prio)|]; cbn; discriminate.
  - apply Z.eqb_neq in E. cbn. repeat split; try discriminate; tauto.
Qed.

Lemma transition_to_failed o : transition_ok o 5 = true. Proof. reflexivity. Qed.

Lemma touches_none_sub s s' sk : cands s' = cands s -> cid s' = cid s -> (forall x, In x (pairs s') -> In x (pairs s)) -> (forall i, In i (clist s') -> In i (clist s)) ->
  touches_none s sk -> touches_none s' sk.
Proof. intros E1 E2 H1 H2 T pr Hp Hc Hcomp. rewrite (pair_touches_frame s s' pr sk E1). apply T; auto. congruence. Qed.
Lemma no_nominated_sub s s' : cid s' = cid s -> (forall x, In x (pairs s') -> In x (pairs s)) -> no_nominated s -> no_nominated s'.
Proof. intros E H N pr Hp Hc. apply (N pr); auto. congruence. Qed.

Lemma keep_all s : WF s -> fault s = 0 -> cstate_ok s ->
  WF s /\ fault s = 0 /\ cstate_ok s /\ frameP s s /\ pairs s = pairs s /\ trig s = trig s /\ clist s = clist s.
Proof. intros W Hf Hc. split; [exact W|]. split; [exact Hf|]. split; [exact Hc|]. split; [apply frameP_refl|auto]. Qed.
Lemma demote_all s : WF s -> fault s = 0 -> cstate_ok s ->
  WF (demote s) /\ fault (demote s) = 0 /\ cstate_ok (demote s) /\ frameP s (demote s) /\ pairs (demote s) = pairs s /\ trig (demote s) = trig s /\ clist (demote s) = clist s.
Proof.
  intros W Hf Hc. destruct (demote_spec s W) as (A1 & A2 & A3 & A4 & A5). destruct (demote_ok s Hf Hc) as [B1 B2].
  split; [exact A1|]. split; [exact B1|]. split; [exact B2|]. split; [exact A2|auto].
Qed.
Ltac post_split := unfold ccps_post; split; [|split; [|split; [|split; [|split; [|split; [|split; [|split; [|split]]]]]]]].

Lemma ccps_spec s sk : WF s -> fault s = 0 -> cstate_ok s -> (no_nominated s \/ sel_prio s > 0) -> ccps_post s (conn_check_prune_socket s sk) sk.
Proof.
  intros W Hf Hc Has. unfold conn_check_prune_socket.
  set (s0 := match sel_l s with None => s | Some l => match find_cand (cands s) l with None => flt s 1 | Some lc => if opt_is (c_sock lc) sk then
        (if cstate s =? 4 then signal_state s 5 else if cstate s =? 3 then signal_state s 2 else s) else s end end).
  assert (H0 : WF s0 /\ fault s0 = 0 /\ cstate_ok s0 /\ frameP s s0 /\ pairs s0 = pairs s /\ trig s0 = trig s /\ clist s0 = clist s).
  { unfold s0. destruct (sel_l s) as [l|] eqn:El; [|apply keep_all; assumption].
    destruct (find_live c_id (cands s) l (wf_sel_l s W l El)) as [lc Elc]. unfold find_cand. rewrite Elc.
    destruct (opt_is (c_sock lc) sk); [|apply keep_all; assumption].
    change (if cstate s =? 4 then signal_state s 5 else if cstate s =? 3 then signal_state s 2 else s) with (demote s).
    apply demote_all; assumption. }
  destruct H0 as (W0 & Hf0 & Hc0 & F0 & Ep0 & Et0 & Ec0). clearbody s0.
  destruct (frameP_fields _ _ F0) as (_ & Eca0 & _ & _ & _ & _ & _ & _ & _ & Epr0 & _ & _ & _ & _ & Eci0).
  destruct (pair_loop (prune_socket_act sk) (clist s0) s0 (false, 0, 0)) as [[st kept] [[failed cnt] nom]] eqn:EL.
  destruct (loop_stage (prune_socket_act sk) (fun pr => p_comp pr = cid s0 -> pair_touches s0 pr sk = Some false) (fun pr => p_comp pr <> cid s0)
              s0 (false, 0, 0) st kept (failed, cnt, nom) (prune_socket_step_ok s0 sk W0) W0 Hf0 EL)
    as (W1 & Hf1 & Ecs1 & F1 & S1 & K1 & C1 & O1 & D1 & R1).
  set (s1 := set_clist st kept) in *. clearbody s1.
  destruct (frameP_fields _ _ F1) as (_ & Eca1 & _ & _ & _ & _ & _ & _ & _ & Epr1 & _ & _ & _ & _ & Eci1).
  assert (T1 : touches_none s1 sk).
  { intros pr Hp Hcl Hcomp. rewrite (pair_touches_frame s0 s1 pr sk Eca1). apply (O1 pr Hp); [apply C1; exact Hcl|congruence]. }
  assert (Hc1 : cstate_ok s1) by (unfold cstate_ok in *; rewrite Ecs1; exact Hc0).
  assert (P1 : ccps_post s s1 sk).
  { post_split.
    - exact W1.
    - exact Hf1.
    - exact Hc1.
    - eapply frameP_trans; eassumption.
    - intros x Hx. rewrite <- Ep0. apply S1. exact Hx.
    - intros i Hi. rewrite <- Ec0. apply C1. exact Hi.
    - intros x Hx Hi. apply (O1 x Hx). rewrite Ec0. exact Hi.
    - intros x Hx Hi. apply K1; [rewrite Ep0; exact Hx|rewrite Ec0; exact Hi].
    - intros x Hx Hn. rewrite <- Ep0 in Hx. rewrite <- Eci0 in Hn. destruct (R1 x Hx Hn) as [R1a R1b]. split; [exact R1a|]. intros Hi. apply R1b. rewrite Ec0. exact Hi.
    - exact T1. }
  destruct failed; [|exact P1].
  (* state changes after failed pairs, then conn_check_update_check_list_state_for_ready *)
  set (s2 := if cnt =? 0 then signal_state s1 5 else if nom =? 0 then (if cstate s1 =? 4 then signal_state s1 5 else if cstate s1 =? 3 then signal_state s1 2 else s1) else s1).
  assert (H2 : WF s2 /\ fault s2 = 0 /\ cstate_ok s2 /\ frameP s1 s2 /\ pairs s2 = pairs s1 /\ trig s2 = trig s1 /\ clist s2 = clist s1).
  { unfold s2. destruct (cnt =? 0).
    - destruct (signal_spec s1 5) as (A1 & A2 & A3 & A4). destruct (signal_ok s1 5 Hf1 (or_intror (transition_to_failed _))) as [B1 B2].
      split; [apply signal_WF; exact W1|]. split; [exact B1|]. split; [unfold cstate_ok; rewrite B2; lia|]. split; [exact A1|auto].
    - destruct (nom =? 0); [|apply keep_all; assumption].
      change (if cstate s1 =? 4 then signal_state s1 5 else if cstate s1 =? 3 then signal_state s1 2 else s1) with (demote s1).
      apply demote_all; assumption. }
  destruct H2 as (W2 & Hf2 & Hc2 & F2 & Ep2 & Et2 & Ec2). clearbody s2.
  destruct (frameP_fields _ _ F2) as (_ & Eca2 & _ & _ & _ & _ & _ & _ & _ & Epr2 & _ & _ & _ & _ & Eci2).
  assert (P2 : ccps_post s s2 sk).
  { destruct P1 as (_ & _ & _ & Q4 & Q5 & Q6 & Q7 & Q8 & Q9 & Q10). unfold ccps_post. rewrite Ep2, Ec2. post_split; auto.
    - eapply frameP_trans; eassumption.
    - apply (touches_none_sub s1 s2 sk); auto; [rewrite Ep2; auto|rewrite Ec2; auto]. }
  unfold update_check_list_state_for_ready. destruct (count_nominated_spec s2 W2) as [N1 N2].
  destruct (count_nominated s2) as [s2' nominated]. cbn [fst snd] in N1, N2. subst s2'.
  destruct (nominated >? 0) eqn:En; [|exact P2].
  assert (Hprio : sel_prio s2 > 0).
  { destruct Has as [Hn|Hp]; [|congruence]. exfalso. rewrite N2 in En; [discriminate|].
    apply (no_nominated_sub s); [congruence| |exact Hn]. intros x Hx. rewrite <- Ep0. apply S1. rewrite <- Ep2. exact Hx. }
  unfold prune_pending_checks. assert (Eg : sel_prio s2 >? 0 = true) by (apply Z.gtb_lt; lia). rewrite Eg.
  destruct (pair_loop (prune_pending_act (sel_prio s2)) (clist s2) s2 0) as [[st3 kept3] n3] eqn:EL3.
  destruct (loop_stage (prune_pending_act (sel_prio s2)) (fun _ => True) (fun pr => p_comp pr <> cid s2) s2 0 st3 kept3 n3 (prune_pending_step_ok s2 (sel_prio s2)) W2 Hf2 EL3)
    as (W3 & Hf3 & Ecs3 & F3 & S3 & K3 & C3 & O3 & D3 & R3).
  set (s3 := set_clist st3 kept3) in *. clearbody s3.
  destruct (frameP_fields _ _ F3) as (_ & Eca3 & _ & _ & _ & _ & _ & _ & _ & Epr3 & _ & _ & _ & _ & Eci3).
  assert (Hc3 : cstate_ok s3) by (unfold cstate_ok in *; rewrite Ecs3; exact Hc2).
  assert (P3 : ccps_post s s3 sk).
  { destruct P2 as (_ & _ & _ & Q4 & Q5 & Q6 & Q7 & Q8 & Q9 & Q10). post_split.
    - exact W3.
    - exact Hf3.
    - exact Hc3.
    - eapply frameP_trans; eassumption.
    - intros x Hx. apply Q5. apply S3. exact Hx.
    - intros i Hi. apply Q6. apply C3. exact Hi.
    - intros x Hx Hi. apply (O3 x Hx). apply Q7; [apply S3; exact Hx|exact Hi].
    - intros x Hx Hi. apply K3; [apply Q8; assumption|]. intro H. apply Hi. apply Q6. exact H.
    - intros x Hx Hn. destruct (Q9 x Hx Hn) as [Q9a Q9b]. split; [|intros Hi]; apply R3; auto; congruence.
    - apply (touches_none_sub s2 s3 sk); auto. }
  destruct (n3 =? 0); [|exact P3].
  change (signal_state (if cstate (if (cstate s3 <? 2) || (cstate s3 =? 5) then signal_state s3 2 else s3) <? 3
             then signal_state (if (cstate s3 <? 2) || (cstate s3 =? 5) then signal_state s3 2 else s3) 3
             else if (cstate s3 <? 2) || (cstate s3 =? 5) then signal_state s3 2 else s3) 4) with (promote s3).
  destruct (promote_spec s3 W3) as (A1 & A2 & A3 & A4 & A5). destruct (promote_ok s3 Hf3 Hc3) as [B1 B2].
  destruct (frameP_fields _ _ A2) as (_ & Eca4 & _ & _ & _ & _ & _ & _ & _ & _ & _ & _ & _ & _ & Eci4).
  destruct P3 as (_ & _ & _ & Q4 & Q5 & Q6 & Q7 & Q8 & Q9 & Q10). unfold ccps_post. rewrite A3, A5. post_split; auto.
  - eapply frameP_trans; eassumption.
  - apply (touches_none_sub s3 (promote s3) sk); auto; [rewrite A3; auto|rewrite A5; auto].
Qed.

(** ---- refreshes *)
Definition updR (s : state) rf rl pr fl := set_fault (set_pruning (set_rlist (set_refrs s rf) rl) pr) fl.
Definition frameR (s s' : state) : Prop := s' = updR s (refrs s') (rlist s') (pruning s') (fault s').
Lemma frameR_refl s : frameR s s. Proof. destruct s; reflexivity. Qed.
Lemma frameR_trans a b c : frameR a b -> frameR b c -> frameR a c.
Proof. unfold frameR, updR. destruct a, b, c; cbn. intros H1 H2. injection H1; injection H2; intros; subst; reflexivity. Qed.
Lemma frameR_fields s s' : frameR s s' ->
  socks s' = socks s /\ cands s' = cands s /\ pairs s' = pairs s /\ lcands s' = lcands s /\ rcands s' = rcands s /\ sources s' = sources s /\
  ichecks s' = ichecks s /\ sel_l s' = sel_l s /\ sel_r s' = sel_r s /\ sel_prio s' = sel_prio s /\ turn_cand s' = turn_cand s /\
  discs s' = discs s /\ clist s' = clist s /\ trig s' = trig s /\ cid s' = cid s /\ cstate s' = cstate s.
Proof. intros H. rewrite H. cbn. repeat split. Qed.
Lemma WF_frameR {ex} s s' : frameR s s' -> WFx ex s ->
  NoDup (map r_id (refrs s')) -> NoDup (rlist s') -> NoDup (pruning s') -> (forall x, In x (refrs s') -> In x (refrs s)) ->
  (forall r, In r (rlist s') -> live_refr s' r) -> (forall r, In r (pruning s') -> live_refr s' r) -> WFx ex s'.
Proof.
  intros Hfr W N1 N2 N3 Hsub Hc Ht.
  destruct (frameR_fields _ _ Hfr) as (E1 & E2 & E3 & E4 & E5 & E6 & E7 & E8 & E9 & E10 & E11 & E12 & E13 & E14 & E15 & E16).
  destruct W. constructor; unfold live_sock, live_cand, live_pair in *; rewrite ?E1, ?E2, ?E3, ?E4, ?E5, ?E6, ?E7, ?E8, ?E9, ?E11, ?E12, ?E13, ?E14; auto.
Qed.
Lemma refresh_free_live s r rf : find_refr (refrs s) r = Some rf ->
  refrs (refresh_free s r) = filter (fun x => negb (r_id x =? r)) (refrs s) /\ rlist (refresh_free s r) = remove1 r (rlist s) /\
  pruning (refresh_free s r) = remove1 r (pruning s) /\ fault (refresh_free s r) = fault s /\ frameR s (refresh_free s r).
Proof.
  intros H. unfold refresh_free, free_refr. cbn [refrs set_pruning set_rlist]. rewrite H. cbn. repeat split; try (destruct s; reflexivity).
Qed.

Definition refresh_step (test : refr -> bool) (st : state) (r : Z) : state :=
  match find_refr (refrs st) r with None => flt st 1 | Some rf => if test rf then refresh_free st r else st end.
Lemma refresh_pass_eq test l s : refresh_pass test l s = fold_left (refresh_step test) l s. Proof. reflexivity. Qed.

Lemma refresh_pass_inv test : forall l st,
  NoDup l -> (forall i, In i l -> live_refr st i) -> NoDup (map r_id (refrs st)) -> NoDup (rlist st) -> NoDup (pruning st) -> fault st = 0 ->
  let s' := fold_left (refresh_step test) l st in
  frameR st s' /\ fault s' = 0 /\
  (forall x, In x (refrs s') -> In x (refrs st)) /\
  (forall x, In x (refrs st) -> ~ (In (r_id x) l /\ test x = true) -> In x (refrs s')) /\
  (forall x, In x (refrs s') -> In (r_id x) l -> test x = false) /\
  NoDup (map r_id (refrs s')) /\ NoDup (rlist s') /\ NoDup (pruning s') /\
  (forall i, In i (rlist s') -> In i (rlist st)) /\ (forall i, In i (pruning s') -> In i (pruning st)) /\
  (forall i, In i (rlist s') -> live_refr st i -> live_refr s' i) /\ (forall i, In i (pruning s') -> live_refr st i -> live_refr s' i) /\
  (forall i, In i (rlist st) -> live_refr s' i -> In i (rlist s')) /\ (forall i, In i (pruning st) -> live_refr s' i -> In i (pruning s')).
Proof.
  induction l as [|r l IH]; intros st Hnl Hlive Hnr Hn1 Hn2 Hf; cbn [fold_left].
  - repeat split; auto; try tauto; try apply frameR_refl. intros x _ [].
  - inversion Hnl as [|? ? Hrl Hnl']; subst.
    destruct (find_live r_id (refrs st) r (Hlive r (or_introl eq_refl))) as [rf Hfind]. destruct (find_some_in r_id _ _ _ Hfind) as [Hrf Hid].
    assert (Estep : refresh_step test st r = if test rf then refresh_free st r else st) by (unfold refresh_step, find_refr; rewrite Hfind; reflexivity).
    rewrite Estep. destruct (test rf) eqn:Et.
    + destruct (refresh_free_live st r rf Hfind) as (E1 & E2 & E3 & E4 & F).
      assert (Hkeep : forall i, i <> r -> live_refr st i -> live_refr (refresh_free st r) i).
      { intros i Hi Hl. unfold live_refr in *. rewrite E1. apply in_map_iff in Hl. destruct Hl as (x & Hx & Hin). apply in_map_iff. exists x. split; [exact Hx|].
        apply filter_In. split; [exact Hin|]. rewrite Hx. destruct (i =? r) eqn:E; [apply Z.eqb_eq in E; contradiction|reflexivity]. }
      destruct (IH (refresh_free st r)) as (I1 & I2 & I3 & I4 & I5 & I6 & I7 & I8 & I9 & I10 & I11 & I12 & I13 & I14); auto.
      * intros i Hi. apply Hkeep; [intros ->; contradiction|apply Hlive; right; exact Hi].
      * rewrite E1. apply nodup_map_filter. exact Hnr.
      * rewrite E2. apply remove1_nodup. exact Hn1.
      * rewrite E3. apply remove1_nodup. exact Hn2.
      * congruence.
      * assert (Hs : forall x, In x (refrs (fold_left (refresh_step test) l (refresh_free st r))) -> In x (refrs st) /\ r_id x <> r).
        { intros x Hx. specialize (I3 x Hx). rewrite E1 in I3. apply filter_In in I3. destruct I3 as [I3 I3']. split; [exact I3|].
          intros E. rewrite E, Z.eqb_refl in I3'. discriminate. }
        split; [eapply frameR_trans; eassumption|]. split; [exact I2|]. repeat split; auto.
        -- intros x Hx. destruct (Hs x Hx) as [H _]. exact H.
        -- intros x Hx Hn. apply I4.
           ++ rewrite E1. apply filter_In. split; [exact Hx|]. destruct (r_id x =? r) eqn:E; [|reflexivity]. apply Z.eqb_eq in E. exfalso. apply Hn.
              assert (x = rf) by (apply (nodup_id_unique r_id (refrs st)); [exact Hnr|exact Hx|exact Hrf|congruence]). subst x. split; [left; congruence|exact Et].
           ++ intros [H1 H2]. apply Hn. split; [right; exact H1|exact H2].
        -- intros x Hx [E|Hi]; [exfalso; destruct (Hs x Hx) as [_ H]; apply H; congruence|apply I5; assumption].
        -- intros i Hi. specialize (I9 i Hi). rewrite E2 in I9. eapply remove1_incl; exact I9.
        -- intros i Hi. specialize (I10 i Hi). rewrite E3 in I10. eapply remove1_incl; exact I10.
        -- intros i Hi Hl. apply I11; [exact Hi|]. apply Hkeep; [|exact Hl]. intros ->. specialize (I9 r Hi). rewrite E2 in I9. exact (remove1_notin r _ Hn1 I9).
        -- intros i Hi Hl. apply I12; [exact Hi|]. apply Hkeep; [|exact Hl]. intros ->. specialize (I10 r Hi). rewrite E3 in I10. exact (remove1_notin r _ Hn2 I10).
        -- intros i Hi Hl. apply I13; [|exact Hl]. rewrite E2. apply remove1_keep; [exact Hi|]. intros ->. unfold live_refr in Hl. apply in_map_iff in Hl.
           destruct Hl as (x & Hx & Hin). destruct (Hs x Hin) as [_ H]. contradiction.
        -- intros i Hi Hl. apply I14; [|exact Hl]. rewrite E3. apply remove1_keep; [exact Hi|]. intros ->. unfold live_refr in Hl. apply in_map_iff in Hl.
           destruct Hl as (x & Hx & Hin). destruct (Hs x Hin) as [_ H]. contradiction.
    + destruct (IH st) as (I1 & I2 & I3 & I4 & I5 & I6 & I7 & I8 & I9 & I10 & I11 & I12 & I13 & I14); auto.
      * intros i Hi. apply Hlive. right; exact Hi.
      * split; [exact I1|]. split; [exact I2|]. repeat split; auto.
        -- intros x Hx Hn. apply I4; [exact Hx|]. intros [H1 H2]. apply Hn. split; [right; exact H1|exact H2].
        -- intros x Hx [E|Hi]; [|apply I5; assumption]. assert (x = rf); [|subst x; exact Et].
           apply (nodup_id_unique r_id (refrs st)); [exact Hnr|apply I3; exact Hx|exact Hrf|congruence].
Qed.

(** ---- small operations *)
Lemma WFx_weaken ex s : WF s -> WFx ex s.
Proof. intros W. destruct W. constructor; auto. intros c k Hc Hk _. eapply wf_cand_sock0; eauto. discriminate. Qed.
Lemma clear_selected_WF {ex} s : WFx ex s -> WFx ex (clear_selected_pair s).
Proof. intros W. destruct W. constructor; cbn; auto; intros; discriminate. Qed.
Lemma discovery_prune_WF {ex} s k : WFx ex s -> WFx ex (discovery_prune_socket s k).
Proof. intros W. destruct W. constructor; cbn; auto. intros d Hd. apply filter_In in Hd. apply wf_discs0. tauto. Qed.

Definition sock_base (s : state) (k : Z) : option Z := match find_sock (socks s) k with Some sk => sk_base sk | None => None end.
Definition on_ns (s : state) (ns k : Z) : Prop := k = ns \/ sock_base s k = Some ns.

Lemma based_on_depth1 h a b k : find_sock h a = Some k ->
  (forall base, sk_base k = Some base -> exists kb, find_sock h base = Some kb /\ sk_base kb = None) ->
  based_on (length h) h a b = Some ((a =? b) || opt_is (sk_base k) b).
Proof.
  intros Hf Hd. destruct h as [|x h]; [discriminate|]. cbn [length]. cbn [based_on]. rewrite Hf. destruct (sk_base k) as [base|] eqn:Eb.
  - destruct (a =? b); [reflexivity|]. cbn [orb opt_is]. destruct (Hd base eq_refl) as (kb & Hkb & Hp).
    destruct (length h); cbn [based_on]; rewrite Hkb, Hp; reflexivity.
  - cbn. rewrite orb_false_r. reflexivity.
Qed.

(** ---- nice_component_detach_socket: safe once only the candidate [c] (about to be freed) still points to the socket *)
Lemma detach_spec s k c : WF s -> fault s = 0 -> In k (sources s) ->
  (forall x, In x (socks s) -> sk_base x <> Some k) -> (forall x, In x (cands s) -> c_sock x = Some k -> c_id x = c) ->
  (forall p, In p (pairs s) -> p_sock p <> k) -> (forall r, In r (refrs s) -> r_sock r <> k) -> (forall d, In d (discs s) -> d_sock d <> k) ->
  WFx (Some c) (detach_socket s k) /\ fault (detach_socket s k) = 0 /\
  detach_socket s k = set_socks (set_sources (set_ichecks s (filter (fun i => negb (i_sock i =? k)) (ichecks s))) (remove1 k (sources s))) (filter (fun x => negb (sk_id x =? k)) (socks s)).
Proof.
  intros W Hf Hk Hb Hc Hp Hr Hd. unfold detach_socket. cbn [sources set_ichecks]. destruct (memb k (sources s)) eqn:Em; [|apply memb_In in Hk; congruence].
  unfold free_sock. cbn [socks set_sources set_ichecks]. destruct (find_live sk_id (socks s) k (wf_sources s W k Hk)) as [sk Hsk]. unfold find_sock. rewrite Hsk.
  split; [|split; [exact Hf|reflexivity]].
  assert (Hlive : forall j, j <> k -> live_sock s j -> In j (map sk_id (filter (fun x => negb (sk_id x =? k)) (socks s)))).
  { intros j Hj Hl. unfold live_sock in Hl. apply in_map_iff in Hl. destruct Hl as (x & Hx & Hin). apply in_map_iff. exists x. split; [exact Hx|].
    apply filter_In. split; [exact Hin|]. rewrite Hx. destruct (j =? k) eqn:E; [apply Z.eqb_eq in E; contradiction|reflexivity]. }
  destruct W. constructor; cbn; unfold live_sock in *; cbn; auto.
  - apply nodup_map_filter. assumption.
  - apply remove1_nodup. assumption.
  - intros x b Hx Hbx. apply filter_In in Hx. destruct Hx as [Hx _]. apply Hlive; [intros ->; exact (Hb x Hx Hbx)|eapply wf_base0; eassumption].
  - intros x j Hx Hj Hex. apply Hlive; [|eapply wf_cand_sock0; try eassumption; discriminate]. intros ->. apply Hex. f_equal. symmetry. apply Hc; assumption.
  - intros p Hpp. destruct (wf_pair_refs0 p Hpp) as (A & B & C). repeat split; auto.
  - intros r Hrr. destruct (wf_refr_refs0 r Hrr) as (A & B). split; auto.
  - intros j Hj. apply Hlive; [intros ->; exact (remove1_notin k _ wf_nd_sources0 Hj)|apply wf_sources0; eapply remove1_incl; exact Hj].
  - intros i Hi. apply filter_In in Hi. destruct Hi as [Hi Hn]. apply Hlive; [|apply wf_ichecks0; exact Hi]. intros E. rewrite E, Z.eqb_refl in Hn. discriminate.
Qed.

(** freeing candidate [c] and unlinking it from its list, once nothing else refers to it *)
Definition drop_cand (s : state) (c : Z) (loc : bool) : state :=
  if loc then set_lcands (free_cand s c) (remove1 c (lcands (free_cand s c))) else set_rcands (free_cand s c) (remove1 c (rcands (free_cand s c))).
Lemma drop_spec s c loc : WFx (Some c) s -> fault s = 0 -> live_cand s c ->
  (loc = true -> ~ In c (rcands s)) -> (loc = false -> ~ In c (lcands s)) ->
  (forall p, In p (pairs s) -> p_local p <> c /\ p_remote p <> c) -> (forall r, In r (refrs s) -> r_cand r <> c) ->
  sel_l s <> Some c -> sel_r s <> Some c -> turn_cand s <> Some c ->
  WF (drop_cand s c loc) /\ fault (drop_cand s c loc) = 0 /\
  drop_cand s c loc = (if loc then set_lcands (set_cands s (filter (fun x => negb (c_id x =? c)) (cands s))) (remove1 c (lcands s))
                       else set_rcands (set_cands s (filter (fun x => negb (c_id x =? c)) (cands s))) (remove1 c (rcands s))).
Proof.
  intros W Hf Hl Ho1 Ho2 Hp Hr H1 H2 H3.
  assert (E : free_cand s c = set_cands s (filter (fun x => negb (c_id x =? c)) (cands s))).
  { unfold free_cand. destruct (find_live c_id (cands s) c Hl) as [cd Hcd]. unfold find_cand. rewrite Hcd. reflexivity. }
  unfold drop_cand. rewrite E.
  assert (Hlive : forall j, j <> c -> live_cand s j -> In j (map c_id (filter (fun x => negb (c_id x =? c)) (cands s)))).
  { intros j Hj Hlj. unfold live_cand in Hlj. apply in_map_iff in Hlj. destruct Hlj as (x & Hx & Hin). apply in_map_iff. exists x. split; [exact Hx|].
    apply filter_In. split; [exact Hin|]. rewrite Hx. destruct (j =? c) eqn:E'; [apply Z.eqb_eq in E'; contradiction|reflexivity]. }
  split; [|split; [destruct loc; exact Hf|destruct loc; reflexivity]].
  destruct W. destruct loc; constructor; cbn; unfold live_cand in *; cbn; auto.
  all: try (apply nodup_map_filter; assumption).
  all: try (apply remove1_nodup; assumption).
  all: try (intros x j Hx Hj _; apply filter_In in Hx; destruct Hx as [Hx Hn]; eapply wf_cand_sock0; try eassumption;
            intros E'; injection E' as E'; rewrite <- E', Z.eqb_refl in Hn; discriminate).
  all: try (intros p Hpp; destruct (wf_pair_refs0 p Hpp) as (A & B & C); destruct (Hp p Hpp) as [D1 D2]; repeat split; auto).
  all: try (intros r Hrr; destruct (wf_refr_refs0 r Hrr) as (A & B); split; [exact A|apply Hlive; [apply Hr; exact Hrr|exact B]]).
  all: try (intros j Hj; apply Hlive; [intros ->; eapply remove1_notin; [|exact Hj]; assumption|first [apply wf_lcands0; eapply remove1_incl; exact Hj|apply wf_rcands0; eapply remove1_incl; exact Hj]]).
  all: try (intros j Hj; apply Hlive; [intros ->; first [apply (Ho1 eq_refl); exact Hj|apply (Ho2 eq_refl); exact Hj]|first [apply wf_lcands0; exact Hj|apply wf_rcands0; exact Hj]]).
  all: try (intros j Hj; apply Hlive; [intros ->; congruence|first [apply wf_sel_l0; exact Hj|apply wf_sel_r0; exact Hj|apply wf_turn0; exact Hj]]).
Qed.

(** ---- the hypotheses under which nice_component_remove_socket is proved sound (each one is violated by a `_refuted` state below or is
    an ownership fact of the agent: a TURN socket layered on [ns] belongs to exactly one local candidate of this component, ...) *)
Record Pre (s : state) (ns : Z) : Prop := {
  pre_depth : forall k kb, In k (socks s) -> In kb (socks s) -> sk_base k = Some (sk_id kb) -> sk_base kb = None;
  pre_home : forall c k, In c (cands s) -> c_sock c = Some k -> on_ns s ns k -> In (c_id c) (lcands s) \/ (k = ns /\ In (c_id c) (rcands s));
  pre_unique : forall c1 c2 k, In c1 (cands s) -> In c2 (cands s) -> c_sock c1 = Some k -> c_sock c2 = Some k -> sock_base s k = Some ns -> c1 = c2;
  pre_wrap : forall k, In k (socks s) -> sk_base k = Some ns -> In (sk_id k) (sources s) /\ exists c, In c (cands s) /\ c_sock c = Some (sk_id k);
  pre_refr_sock : forall r, In r (refrs s) -> sock_base s (r_sock r) <> Some ns;
  pre_refr_cand : forall r, In r (refrs s) -> ~ In (r_cand r) (rcands s);
  pre_refr_owned : forall r, In r (refrs s) -> In (r_id r) (rlist s);
  pre_pair_owned : forall p, In p (pairs s) -> In (p_id p) (clist s);
  pre_foreign : forall p, In p (pairs s) -> p_comp p <> cid s ->
     ~ In (p_local p) (lcands s) /\ ~ In (p_local p) (rcands s) /\ ~ In (p_remote p) (lcands s) /\ ~ In (p_remote p) (rcands s) /\ ~ In (p_sock p) (sources s);
  pre_disjoint : forall c, In c (lcands s) -> ~ In c (rcands s);
  pre_sel_l : forall c, sel_l s = Some c -> ~ In c (rcands s);
  pre_sel_r : forall c, sel_r s = Some c -> ~ In c (lcands s);
  pre_turn : forall c, turn_cand s = Some c -> ~ In c (lcands s) /\ ~ In c (rcands s);
  pre_lsock : forall c, In c (cands s) -> In (c_id c) (lcands s) -> c_sock c <> None;
  pre_cstate : cstate_ok s;
  pre_fault : fault s = 0
}.

Lemma sock_base_sub s s' k b : NoDup (map sk_id (socks s)) -> (forall x, In x (socks s') -> In x (socks s)) -> sock_base s' k = Some b -> sock_base s k = Some b.
Proof.
  intros Hn Hs. unfold sock_base. destruct (find_sock (socks s') k) as [x|] eqn:E; [|discriminate]. destruct (find_some_in sk_id _ _ _ E) as [Hx Hid].
  unfold find_sock. rewrite <- Hid. rewrite (find_in_nodup sk_id (socks s) x Hn (Hs x Hx)). tauto.
Qed.
Lemma on_ns_sub s s' ns k : NoDup (map sk_id (socks s)) -> (forall x, In x (socks s') -> In x (socks s)) -> on_ns s' ns k -> on_ns s ns k.
Proof. intros Hn Hs [H|H]; [left; exact H|right; eapply sock_base_sub; eassumption]. Qed.
Lemma sock_base_in s k : NoDup (map sk_id (socks s)) -> In k (socks s) -> sock_base s (sk_id k) = sk_base k.
Proof. intros Hn Hk. unfold sock_base, find_sock. rewrite (find_in_nodup sk_id (socks s) k Hn Hk). reflexivity. Qed.

Lemma Pre_shrink s s' ns : Pre s ns -> NoDup (map sk_id (socks s)) ->
  (forall x, In x (socks s') -> In x (socks s)) -> (forall x, In x (cands s') -> In x (cands s)) -> (forall x, In x (pairs s') -> In x (pairs s)) ->
  (forall x, In x (refrs s') -> In x (refrs s)) -> (forall x, In x (lcands s') -> In x (lcands s)) -> (forall x, In x (rcands s') -> In x (rcands s)) ->
  (forall x, In x (sources s') -> In x (sources s)) -> (sel_l s' = sel_l s \/ sel_l s' = None) -> (sel_r s' = sel_r s \/ sel_r s' = None) ->
  turn_cand s' = turn_cand s -> cid s' = cid s ->
  (forall x, In x (cands s') -> In (c_id x) (lcands s) -> In (c_id x) (lcands s')) -> (forall x, In x (cands s') -> In (c_id x) (rcands s) -> In (c_id x) (rcands s')) ->
  (forall k, In k (socks s') -> In (sk_id k) (sources s) -> In (sk_id k) (sources s')) ->
  (forall x k, In x (cands s) -> In k (socks s') -> sk_base k = Some ns -> c_sock x = Some (sk_id k) -> In x (cands s')) ->
  (forall r, In r (refrs s') -> In (r_id r) (rlist s) -> In (r_id r) (rlist s')) -> (forall p, In p (pairs s') -> In (p_id p) (clist s) -> In (p_id p) (clist s')) ->
  cstate_ok s' -> fault s' = 0 -> Pre s' ns.
Proof.
  intros P Hn S1 S2 S3 S4 S5 S6 S7 S8 S9 S10 S11 X2 X2' X3a X3b X4a X4b X5 X6. destruct P. constructor.
  - intros k kb Hk Hkb Hb. apply (pre_depth0 k kb); auto.
  - intros c k Hc Hk Ho. destruct (pre_home0 c k (S2 c Hc) Hk (on_ns_sub s s' ns k Hn S1 Ho)) as [H|[H1 H2]]; [left; apply X2; assumption|right; split; [exact H1|apply X2'; assumption]].
  - intros c1 c2 k H1 H2 H3 H4 H5. apply (pre_unique0 c1 c2 k); auto. eapply sock_base_sub; eassumption.
  - intros k Hk Hb. destruct (pre_wrap0 k (S1 k Hk) Hb) as [H1 (c & Hc & Hs)]. split; [apply X3a; assumption|]. exists c. split; [eapply X3b; eassumption|exact Hs].
  - intros r Hr E. apply (pre_refr_sock0 r (S4 r Hr)). eapply sock_base_sub; eassumption.
  - intros r Hr E. apply (pre_refr_cand0 r (S4 r Hr)). apply S6. exact E.
  - intros r Hr. apply X4a; [exact Hr|]. apply pre_refr_owned0. apply S4. exact Hr.
  - intros p Hp. apply X4b; [exact Hp|]. apply pre_pair_owned0. apply S3. exact Hp.
  - intros p Hp Hc. rewrite S11 in Hc. destruct (pre_foreign0 p (S3 p Hp) Hc) as (A & B & C & D & E). repeat split; intro H; [apply A|apply B|apply C|apply D|apply E]; auto.
  - intros c Hc E. apply (pre_disjoint0 c (S5 c Hc)). apply S6. exact E.
  - intros c Hc E. destruct S8 as [S8|S8]; rewrite S8 in Hc; [|discriminate]. apply (pre_sel_l0 c Hc). apply S6. exact E.
  - intros c Hc E. destruct S9 as [S9|S9]; rewrite S9 in Hc; [|discriminate]. apply (pre_sel_r0 c Hc). apply S5. exact E.
  - intros c Hc. rewrite S10 in Hc. destruct (pre_turn0 c Hc) as [A B]. split; intro H; [apply A|apply B]; auto.
  - intros c Hc Hl. apply (pre_lsock0 c (S2 c Hc)). apply S5. exact Hl.
  - exact X5.
  - exact X6.
Qed.

(** ---- tear-down: whatever the state, every container of the component is empty afterwards *)
Lemma flt_frameR s k : frameR s (flt s k).
Proof. unfold flt. destruct (fault s =? 0); [destruct s; reflexivity|apply frameR_refl]. Qed.
Lemma refresh_step_frameR test s r : frameR s (refresh_step test s r).
Proof.
  unfold refresh_step. destruct (find_refr (refrs s) r) as [rf|]; [|apply flt_frameR]. destruct (test rf); [|apply frameR_refl].
  unfold refresh_free, free_refr. cbn [refrs set_pruning set_rlist]. destruct (find_refr (refrs s) r); [destruct s; reflexivity|].
  eapply frameR_trans; [|apply flt_frameR]. destruct s; reflexivity.
Qed.
Lemma refresh_pass_frameR test l : forall s, frameR s (refresh_pass test l s).
Proof.
  intros s. rewrite refresh_pass_eq. revert s. induction l as [|r l IH]; intros s; [apply frameR_refl|]. cbn [fold_left].
  eapply frameR_trans; [apply refresh_step_frameR|apply IH].
Qed.
Lemma refresh_prune_socket_frameR s k : frameR s (refresh_prune_socket s k).
Proof. unfold refresh_prune_socket. eapply frameR_trans; apply refresh_pass_frameR. Qed.
Lemma fold_refresh_prune_frameR l : forall s, frameR s (fold_left refresh_prune_socket l s).
Proof. induction l as [|k l IH]; intros s; [apply frameR_refl|]. cbn [fold_left]. eapply frameR_trans; [apply refresh_prune_socket_frameR|apply IH]. Qed.

Definition frameS (s s' : state) : Prop := s' = set_fault (set_socks s (socks s')) (fault s').
Lemma frameS_refl s : frameS s s. Proof. destruct s; reflexivity. Qed.
Lemma frameS_trans a b c : frameS a b -> frameS b c -> frameS a c.
Proof. unfold frameS. destruct a, b, c; cbn. intros H1 H2. injection H1; injection H2; intros; subst; reflexivity. Qed.
Lemma free_sock_frameS s k : frameS s (free_sock s k).
Proof. unfold free_sock, flt. destruct (find_sock (socks s) k); [destruct s; reflexivity|]. destruct (fault s =? 0); destruct s; reflexivity. Qed.
Lemma fold_free_sock_frameS l : forall s, frameS s (fold_left free_sock l s).
Proof. induction l as [|k l IH]; intros s; [apply frameS_refl|]. cbn [fold_left]. eapply frameS_trans; [apply free_sock_frameS|apply IH]. Qed.

Theorem teardown_empties s :
  let s' := teardown s in
  lcands s' = [] /\ rcands s' = [] /\ sources s' = [] /\ ichecks s' = [] /\ clist s' = [] /\ discs s' = [] /\
  sel_l s' = None /\ sel_r s' = None /\ turn_cand s' = None.
Proof.
  cbv zeta. unfold teardown, component_close.
  set (s0 := discovery_prune_stream (conn_check_prune_stream s)).
  assert (E0 : clist s0 = [] /\ discs s0 = []) by (unfold s0; cbn; auto). clearbody s0. destruct E0 as [Ec Ed].
  set (s1 := match turn_cand s0 with Some c => set_turn_cand (free_cand s0 c) None | None => s0 end).
  assert (E1 : turn_cand s1 = None /\ clist s1 = [] /\ discs s1 = []).
  { unfold s1. destruct (turn_cand s0) eqn:E; [|auto]. cbn. unfold free_cand, flt. destruct (find_cand (cands s0) z); [cbn; auto|]. destruct (fault s0 =? 0); cbn; auto. }
  clearbody s1. destruct E1 as (Et & Ec1 & Ed1).
  assert (Hfc : forall l t, turn_cand (fold_left free_cand l t) = turn_cand t /\ clist (fold_left free_cand l t) = clist t /\ discs (fold_left free_cand l t) = discs t /\
                            lcands (fold_left free_cand l t) = lcands t /\ rcands (fold_left free_cand l t) = rcands t).
  { induction l as [|c l IH]; intros t; [auto|]. cbn [fold_left]. destruct (IH (free_cand t c)) as (A & B & C & D & E). rewrite A, B, C, D, E.
    unfold free_cand, flt. destruct (find_cand (cands t) c); [cbn; auto|]. destruct (fault t =? 0); cbn; auto. }
  set (s2 := set_lcands (fold_left free_cand (lcands s1) s1) []).
  assert (E2 : turn_cand s2 = None /\ clist s2 = [] /\ discs s2 = [] /\ lcands s2 = []).
  { unfold s2. cbn. destruct (Hfc (lcands s1) s1) as (A & B & C & _). rewrite A, B, C. auto. }
  clearbody s2. destruct E2 as (Et2 & Ec2 & Ed2 & El2).
  set (s3 := set_rcands (fold_left free_cand (rcands s2) s2) []).
  assert (E3 : turn_cand s3 = None /\ clist s3 = [] /\ discs s3 = [] /\ lcands s3 = [] /\ rcands s3 = []).
  { unfold s3. cbn. destruct (Hfc (rcands s2) s2) as (A & B & C & D & _). rewrite A, B, C, D. auto. }
  clearbody s3. destruct E3 as (Et3 & Ec3 & Ed3 & El3 & Er3).
  set (s4 := fold_left refresh_prune_socket (sources s3) s3).
  destruct (frameR_fields _ _ (fold_refresh_prune_frameR (sources s3) s3)) as (_ & _ & _ & A4 & B4 & _ & _ & _ & _ & _ & C4 & D4 & E4 & _).
  fold s4 in A4, B4, C4, D4, E4. clearbody s4.
  unfold free_socket_sources. cbn.
  pose proof (fold_free_sock_frameS (sources s4) s4) as F5. set (s5 := fold_left free_sock (sources s4) s4) in *. clearbody s5. rewrite F5. cbn.
  rewrite A4, B4, C4, D4, E4. auto 10.
Qed.

(** ---- states outside the hypotheses: genuine defects of libnice (each reproduced on the real code by harness/own_h.c under ASan) *)
Definition mk_sock i b := {| sk_id := i; sk_base := b |}.
Definition mk_cand i k r := {| c_id := i; c_sock := k; c_relay := r |}.
Definition mk_pair i l r k st n v pr := {| p_id := i; p_comp := 1; p_local := l; p_remote := r; p_sock := k; p_state := st; p_nominated := n; p_valid := v; p_prio := pr |}.
Definition base_state : state :=
  {| socks := []; cands := []; pairs := []; refrs := []; lcands := []; rcands := []; sources := []; ichecks := []; sel_l := None; sel_r := None; sel_prio := 0;
     turn_cand := None; clist := []; trig := []; discs := []; rlist := []; pruning := []; cstate := 0; cid := 1; fault := 0 |}.

(** w1: a relayed candidate (11) and a local peer-reflexive candidate (12, discovered through the relay) share TURN socket 1, layered on
    socket 0.  Removing socket 0 frees socket 1 with candidate 11, then calls nice_socket_is_based_on on the freed socket for 12. *)
Definition w1 : state :=
  set_lcands (set_sources (set_cands (set_socks base_state [mk_sock 0 None; mk_sock 1 (Some 0)])
    [mk_cand 10 (Some 0) false; mk_cand 11 (Some 1) true; mk_cand 12 (Some 1) false]) [0; 1]) [10; 11; 12].
Theorem remove_socket_shared_turn_socket_refuted : fault w1 = 0 /\ fault (remove_socket w1 0) = 1.
Proof. vm_compute. auto. Qed.

(** w2: a remote peer-reflexive candidate (20) learnt on TURN socket 1 keeps its sockptr after socket 0 (and with it socket 1) is gone *)
Definition w2 : state :=
  set_rcands (set_lcands (set_sources (set_cands (set_socks base_state [mk_sock 0 None; mk_sock 1 (Some 0)])
    [mk_cand 10 (Some 0) false; mk_cand 11 (Some 1) true; mk_cand 20 (Some 1) false]) [0; 1]) [10; 11]) [20].
Theorem remove_socket_prflx_on_turn_socket_refuted :
  let s' := remove_socket w2 0 in
  fault s' = 0 /\ exists c, In c (cands s') /\ In (c_id c) (rcands s') /\ c_sock c = Some 1 /\ ~ live_sock s' 1.
Proof. cbv zeta. split; [vm_compute; reflexivity|]. exists (mk_cand 20 (Some 1) false). vm_compute. intuition discriminate. Qed.

(** w3: the relay candidate parked in cmp->turn_candidate (9, TURN socket 2 on socket 0) is not on local_candidates: removing socket 0
    leaves socket 2 attached with a freed base socket under it (and the selected pair still sends through it) *)
Definition w3 : state :=
  set_sel_prio (set_sel_r (set_sel_l (set_turn_cand (set_rcands (set_lcands (set_sources (set_cands (set_socks base_state
    [mk_sock 0 None; mk_sock 1 None; mk_sock 2 (Some 0)])
    [mk_cand 10 (Some 0) false; mk_cand 11 (Some 1) false; mk_cand 20 None false; mk_cand 9 (Some 2) true]) [0; 1; 2]) [10; 11]) [20]) (Some 9)) (Some 9)) (Some 20)) 50.
Theorem remove_socket_turn_candidate_refuted :
  let s' := remove_socket w3 0 in
  fault s' = 0 /\ turn_cand s' = Some 9 /\ sel_l s' = Some 9 /\ In (mk_cand 9 (Some 2) true) (cands s') /\ In (mk_sock 2 (Some 0)) (socks s') /\ In 2 (sources s') /\ ~ live_sock s' 0.
Proof. cbv zeta. vm_compute. intuition discriminate. Qed.

(** w4: the selected pair (12,20) runs over a relayed candidate on TURN socket 2 (on socket 0); another nominated valid pair (11,21) lives on
    socket 1.  Removing socket 0 clears the selected pair (priority 0), then prunes socket 2: a pair failed and a nominated pair is left, so
    priv_prune_pending_checks runs and its g_assert (priority > 0) aborts the process. *)
Definition w4 : state :=
  set_cstate (set_sel_prio (set_sel_r (set_sel_l (set_clist (set_pairs (set_rcands (set_lcands (set_sources (set_cands (set_socks base_state
    [mk_sock 0 None; mk_sock 1 None; mk_sock 2 (Some 0)])
    [mk_cand 10 (Some 0) false; mk_cand 11 (Some 1) false; mk_cand 12 (Some 2) true; mk_cand 20 None false; mk_cand 21 None false]) [0; 1; 2]) [10; 11; 12]) [20; 21])
    [mk_pair 30 12 20 2 3 true true 100; mk_pair 31 11 21 1 3 true true 90]) [30; 31]) (Some 12)) (Some 20)) 100) 4.
Theorem remove_socket_assert_refuted : fault w4 = 0 /\ fault (remove_socket w4 0) = 2.
Proof. vm_compute. auto. Qed.

(** a concrete state inside the hypotheses (two plain sockets, a TURN socket on socket 0 with its relayed candidate, a peer-reflexive remote
    learnt on socket 0, pairs on every socket, the selected pair on the socket that goes): socket 0 goes, with everything on it *)
Definition ex_state : state :=
  set_cstate (set_sel_prio (set_sel_r (set_sel_l (set_rlist (set_refrs (set_discs (set_ichecks (set_trig (set_clist (set_pairs (set_rcands (set_lcands (set_sources (set_cands (set_socks base_state
    [mk_sock 0 None; mk_sock 1 None; mk_sock 2 (Some 0)])
    [mk_cand 10 (Some 0) false; mk_cand 11 (Some 1) false; mk_cand 12 (Some 2) true; mk_cand 20 None false; mk_cand 21 (Some 0) false]) [0; 1; 2]) [10; 11; 12]) [20; 21])
    [mk_pair 30 10 20 0 3 true true 100; mk_pair 31 11 20 1 3 false true 90; mk_pair 32 12 20 2 1 false false 50; mk_pair 33 11 21 1 5 false false 40]) [30; 31; 32; 33]) [32])
    [{| i_id := 40; i_sock := 0 |}; {| i_id := 41; i_sock := 1 |}; {| i_id := 42; i_sock := 2 |}]) [{| d_id := 50; d_sock := 0 |}; {| d_id := 51; d_sock := 2 |}; {| d_id := 52; d_sock := 1 |}])
    [{| r_id := 60; r_sock := 0; r_cand := 12 |}]) [60]) (Some 10)) (Some 20)) 100) 4.
Example remove_socket_example :
  let s' := remove_socket ex_state 0 in
  fault s' = 0 /\ map sk_id (socks s') = [1] /\ map c_id (cands s') = [11; 20] /\ lcands s' = [11] /\ rcands s' = [20] /\ sources s' = [1] /\
  clist s' = [31] /\ map p_id (pairs s') = [31] /\ trig s' = [] /\ map i_id (ichecks s') = [41] /\ map d_id (discs s') = [52] /\ refrs s' = [] /\ rlist s' = [] /\
  sel_l s' = None /\ sel_r s' = None /\ cstate s' = 5 /\ verdict s' = 0.
Proof. vm_compute. repeat split. Qed.

(** ---- one turn of the loop over the local candidates *)
Lemma find_cand_filter h c j : j <> c -> find_cand (filter (fun x => negb (c_id x =? c)) h) j = find_cand h j.
Proof.
  intros Hj. unfold find_cand. induction h as [|a h IH]; [reflexivity|]. cbn. destruct (c_id a =? c) eqn:E; cbn.
  - apply Z.eqb_eq in E. destruct (c_id a =? j) eqn:E2; [apply Z.eqb_eq in E2; congruence|exact IH].
  - destruct (c_id a =? j); [reflexivity|exact IH].
Qed.
Lemma opt_is_some k : opt_is (Some k) k = true. Proof. cbn. apply Z.eqb_refl. Qed.
Lemma opt_is_true o k : opt_is o k = true -> o = Some k.
Proof. destruct o; cbn; [|discriminate]. intros H. apply Z.eqb_eq in H. congruence. Qed.
Lemma touches_false_facts s p sk : pair_touches s p sk = Some false ->
  (forall lc, find_cand (cands s) (p_local p) = Some lc -> c_sock lc <> Some sk) /\
  (forall rc, find_cand (cands s) (p_remote p) = Some rc -> c_sock rc <> Some sk) /\ p_sock p <> sk.
Proof.
  unfold pair_touches. destruct (find_cand (cands s) (p_local p)) as [lc|]; [|discriminate]. destruct (opt_is (c_sock lc) sk) eqn:E1; [discriminate|].
  destruct (find_cand (cands s) (p_remote p)) as [rc|]; [|discriminate]. intros H. injection H as H. apply orb_false_elim in H. destruct H as [E2 E3].
  repeat split.
  - intros x Hx. injection Hx as <-. intros E. rewrite E, opt_is_some in E1. discriminate.
  - intros x Hx. injection Hx as <-. intros E. rewrite E, opt_is_some in E2. discriminate.
  - apply Z.eqb_neq. exact E3.
Qed.

Definition AS_loop (s : state) (ns : Z) : Prop :=
  no_nominated s \/
  (sel_prio s > 0 /\ forall c cd k, sel_l s = Some c -> In cd (cands s) -> c_id cd = c -> c_sock cd = Some k -> ~ on_ns s ns k) \/
  (forall k, In k (socks s) -> sk_base k <> Some ns).
Definition Inv (s : state) (ns : Z) : Prop :=
  WF s /\ Pre s ns /\ touches_none s ns /\ AS_loop s ns /\ (forall r, In r (refrs s) -> r_sock r <> ns) /\ (forall d, In d (discs s) -> d_sock d <> ns).

(** no pair refers to a candidate whose socket no pair touches *)
Lemma untouched_cand s ns sk cd : WF s -> Pre s ns -> touches_none s sk -> In cd (cands s) -> c_sock cd = Some sk -> In (c_id cd) (lcands s) \/ In (c_id cd) (rcands s) ->
  forall p, In p (pairs s) -> p_local p <> c_id cd /\ p_remote p <> c_id cd.
Proof.
  intros W P T Hcd Hk Hl p Hp.
  assert (Hf : find_cand (cands s) (c_id cd) = Some cd) by (apply (find_in_nodup c_id (cands s) cd (wf_nd_cands s W) Hcd)).
  destruct (Z.eq_dec (p_comp p) (cid s)) as [Ec|Ec].
  - destruct (touches_false_facts s p sk (T p Hp (pre_pair_owned s ns P p Hp) Ec)) as (A & B & _).
    split; intros E; [apply (A cd)|apply (B cd)]; try assumption; rewrite E; exact Hf.
  - destruct (pre_foreign s ns P p Hp Ec) as (A & B & C & D & _). split; intros E; rewrite E in *; tauto.
Qed.

(** ---- refresh_prune_candidate: every refresh of the candidate that is on agent->refresh_list goes, the others stay, WF is kept *)
Lemma refresh_prune_candidate_spec s c : WF s -> fault s = 0 ->
  WF (refresh_prune_candidate s c) /\ fault (refresh_prune_candidate s c) = 0 /\ frameR s (refresh_prune_candidate s c) /\
  (forall x, In x (refrs (refresh_prune_candidate s c)) -> In x (refrs s) /\ (In (r_id x) (rlist s) -> r_cand x <> c)) /\
  (forall x, In x (refrs s) -> r_cand x <> c -> In x (refrs (refresh_prune_candidate s c))) /\
  (forall i, In i (rlist s) -> live_refr (refresh_prune_candidate s c) i -> In i (rlist (refresh_prune_candidate s c))).
Proof.
  intros W Hf. unfold refresh_prune_candidate. rewrite refresh_pass_eq.
  destruct (refresh_pass_inv (fun rf => r_cand rf =? c) (rlist s) s (wf_nd_rlist s W) (wf_rlist s W) (wf_nd_refrs s W) (wf_nd_rlist s W) (wf_nd_pruning s W) Hf)
    as (I1 & I2 & I3 & I4 & I5 & I6 & I7 & I8 & I9 & I10 & I11 & I12 & I13 & I14).
  split; [|split; [exact I2|split; [exact I1|split; [|split; [|exact I13]]]]].
  - apply (WF_frameR s); auto.
    + intros r Hr. apply I11; [exact Hr|]. apply (wf_rlist s W). apply I9. exact Hr.
    + intros r Hr. apply I12; [exact Hr|]. apply (wf_pruning s W). apply I10. exact Hr.
  - intros x Hx. split; [apply I3; exact Hx|]. intros Hl E. specialize (I5 x Hx Hl). cbn in I5. rewrite E, Z.eqb_refl in I5. discriminate.
  - intros x Hx Hn. apply I4; [exact Hx|]. intros [_ E]. cbn in E. apply Z.eqb_eq in E. contradiction.
Qed.

(** whatever the state: after nice_component_remove_socket no incoming check received on the socket is left *)
Lemma remove_socket_ichecks s ns i : In i (ichecks (remove_socket s ns)) -> i_sock i <> ns.
Proof.
  unfold remove_socket. set (s5 := fold_left (remove_socket_remote ns) _ _). clearbody s5. unfold detach_socket. cbn [sources set_ichecks].
  assert (K : In i (filter (fun j => negb (i_sock j =? ns)) (ichecks s5)) -> i_sock i <> ns).
  { intros H. apply filter_In in H. destruct H as [_ H]. intros E. rewrite E, Z.eqb_refl in H. discriminate. }
  destruct (memb ns (sources s5)); [|exact K]. unfold free_sock, flt. cbn [socks set_sources set_ichecks].
  destruct (find_sock (socks s5) ns); [exact K|]. cbn [fault set_sources set_ichecks]. destruct (fault s5 =? 0); exact K.
Qed.
