(** Proofs about Agent.DiscoveryModel (C20): structure of the tick, completion exactly once, candidates only from matching
    success answers and at most one per item, done items never touched again, and termination within an explicit time bound
    for EVERY adversary (re-authentications bounded by NICE_DISCOVERY_MAX_AUTH_RETRIES, redirections by NICE_DISCOVERY_MAX_REDIRECTS;
    without the latter - the code before /repo 1878027 - no bound exists: gathering_time_grows_with_redirect_limit). *)
From Coq Require Import ZArith List Bool Lia ZifyBool.
From Nice Require Import Timer.TimerModel Timer.TimerProofs Agent.DiscoveryModel.
Import ListNotations.
Local Open Scope Z_scope.
Ltac Zify.zify_post_hook ::= Z.div_mod_to_equations.

(* ------------------------------------------------------------------ the eight outcomes of the tick on one item *)
Definition TR (it : item) (nd : Z) (p st se : bool) : tres := {| r_item := it; r_nd := nd; r_paced := p; r_started := st; r_sent := se |}.

Lemma tick_item_cases c now ok tid it :
  let res := tick_item c now ok tid it in
  (d_pending it = false /\ ok = true /\ res = TR (it_start c now tid it) 1 true true true) \/
  (d_pending it = false /\ ok = false /\ res = TR (it_fail it) 0 false true false) \/
  (d_pending it = true /\ d_done it = true /\ res = TR it 0 false false false) \/
  (d_pending it = true /\ d_done it = false /\ d_buf it = false /\ res = TR (it_cancel it) 0 false false false) \/
  (d_pending it = true /\ d_done it = false /\ d_buf it = true /\ mono now < d_next it /\ res = TR it 1 false false false) \/
  (d_pending it = true /\ d_done it = false /\ d_buf it = true /\ d_next it <= mono now /\ snd (refresh (d_timer it) now) = TIMEOUT /\
     res = TR (it_timeout it) 0 false false false) \/
  (d_pending it = true /\ d_done it = false /\ d_buf it = true /\ d_next it <= mono now /\ snd (refresh (d_timer it) now) = RETRANSMIT /\
     res = TR (it_rearm it (fst (refresh (d_timer it) now)) (mono now + w32 (remainder (fst (refresh (d_timer it) now)) now * 1000))) 1 true false true) \/
  (d_pending it = true /\ d_done it = false /\ d_buf it = true /\ d_next it <= mono now /\ snd (refresh (d_timer it) now) = SUCCESS /\
     res = TR (it_rearm it (fst (refresh (d_timer it) now)) (mono now + w32 (remainder (fst (refresh (d_timer it) now)) now * 1000))) 1 false false false).
Proof.
  cbn zeta. unfold tick_item, TR.
  destruct (d_pending it) eqn:Ep; cbn [negb].
  2:{ destruct ok; [left|right; left]; repeat split; reflexivity. }
  destruct (d_done it) eqn:Ed.
  { right; right; left. repeat split; reflexivity. }
  destruct (d_buf it) eqn:Eb; cbn [negb].
  2:{ right; right; right; left. repeat split; reflexivity. }
  destruct (mono now >=? d_next it) eqn:En.
  2:{ right; right; right; right; left. repeat split; try reflexivity. lia. }
  destruct (refresh (d_timer it) now) as [t' r] eqn:Er. cbn [fst snd].
  destruct r.
  - do 7 right. repeat split; try reflexivity. lia.
  - do 6 right; left. repeat split; try reflexivity. lia.
  - do 5 right; left. repeat split; try reflexivity. lia.
Qed.

(* ------------------------------------------------------------------ structural invariant of an item (no time involved) *)
(** a done item is pending with no request buffer; an item waiting to be (re)started cannot have an answer accepted
    (its request buffer is gone, or the StunAgent has consumed the transaction id) *)
Definition sok (it : item) : Prop :=
  (d_done it = true -> d_pending it = true /\ d_buf it = false) /\
  (d_pending it = false -> d_buf it && d_live it = false).

Lemma sok_fresh ty g s : sok (fresh_item ty g s).
Proof. split; cbn; intros; [discriminate|reflexivity]. Qed.

Lemma accepts_active it t : sok it -> accepts it t = true -> d_done it = false /\ d_pending it = true /\ d_buf it = true /\ d_live it = true /\ d_tid it = t.
Proof.
  intros [H1 H2] Ha. unfold accepts in Ha. apply andb_prop in Ha. destruct Ha as [Ha Ht]. apply andb_prop in Ha. destruct Ha as [Hb Hl].
  repeat split; auto; try lia.
  - destruct (d_done it); [|reflexivity]. destruct (H1 eq_refl) as [_ H]. congruence.
  - destruct (d_pending it); [reflexivity|]. rewrite Hb, Hl in H2. specialize (H2 eq_refl). discriminate.
Qed.

Lemma tick_item_sok c now ok tid it : sok it -> sok (r_item (tick_item c now ok tid it)).
Proof.
  intros [H1 H2].
  destruct (tick_item_cases c now ok tid it) as [(A&B&->)|[(A&B&->)|[(A&B&->)|[(A&B&C&->)|[(A&B&C&D&->)|[(A&B&C&D&E&->)|[(A&B&C&D&E&->)|(A&B&C&D&E&->)]]]]]]];
    cbn [r_item TR]; split; cbn; intros; auto; try congruence; try (split; congruence).
  - destruct (d_done it) eqn:E; [|discriminate]. destruct (H1 eq_refl); congruence.
Qed.

(** a done item is left exactly as it is by the tick: nothing sent, nothing counted *)
Lemma tick_item_done c now ok tid it : sok it -> d_done it = true -> tick_item c now ok tid it = TR it 0 false false false.
Proof.
  intros [H1 _] Hd. destruct (H1 Hd) as [Hp Hb].
  destruct (tick_item_cases c now ok tid it) as [(A&B&E)|[(A&B&E)|[(A&B&E)|[(A&B&C&E)|[(A&B&C&D&E)|[(A&B&C&D&F&E)|[(A&B&C&D&F&E)|(A&B&C&D&F&E)]]]]]]]; try congruence.
Qed.

Lemma tick_item_nd c now ok tid it :
  let res := tick_item c now ok tid it in
  0 <= r_nd res <= 1 /\ (r_paced res = true -> r_nd res = 1) /\ (r_nd res = 0 -> d_done (r_item res) = true) /\
  (d_done it = true -> d_done (r_item res) = true).
Proof.
  cbn zeta.
  destruct (tick_item_cases c now ok tid it) as [(A&B&->)|[(A&B&->)|[(A&B&->)|[(A&B&C&->)|[(A&B&C&D&->)|[(A&B&C&D&E&->)|[(A&B&C&D&E&->)|(A&B&C&D&E&->)]]]]]]];
    cbn [r_item r_nd r_paced TR]; repeat split; intros; try lia; try discriminate; cbn; auto.
Qed.

(* ------------------------------------------------------------------ the loop *)
Definition all_done (l : list item) : Prop := Forall (fun it => d_done it = true) l.

Lemma tick_loop_struct c now fails : forall l idx nid l' nd st o,
  Forall sok l -> tick_loop c now fails idx nid l = (l', nd, st, o) ->
  Forall sok l' /\ length l' = length l /\ 0 <= nd /\ (nd = 0 -> all_done l') /\
  (forall j it, nth_error l j = Some it -> d_done it = true -> nth_error l' j = Some it) /\
  (forall e, In e o -> exists j it, e = EvSend (idx + j) /\ nth_error l j = Some it /\ d_done it = false).
Proof.
  induction l as [|it r IH]; intros idx nid l' nd st o Hs H; cbn [tick_loop] in H.
  - injection H as <- <- <- <-. repeat split; auto; try lia; try constructor. intros e [].
  - inversion Hs as [|? ? Hit Hr]; subst.
    set (res := tick_item c now (negb (existsb (Nat.eqb idx) fails)) (nid + Z.of_nat idx) it) in *.
    pose proof (tick_item_nd c now (negb (existsb (Nat.eqb idx) fails)) (nid + Z.of_nat idx) it) as (N1 & N2 & N3 & N4). fold res in N1, N2, N3, N4.
    pose proof (tick_item_sok c now (negb (existsb (Nat.eqb idx) fails)) (nid + Z.of_nat idx) it Hit) as Hs'. fold res in Hs'.
    assert (Hsent : forall e, In e (if r_sent res then [EvSend idx] else []) -> e = EvSend (idx + 0) /\ d_done it = false).
    { intros e He. destruct (d_done it) eqn:Ed.
      - unfold res in He. rewrite (tick_item_done _ _ _ _ _ Hit Ed) in He. cbn in He. destruct He.
      - destruct (r_sent res); [|destruct He]. destruct He as [<-|[]]. rewrite Nat.add_0_r. auto. }
    assert (Hkeep : d_done it = true -> r_item res = it).
    { intros Ed. unfold res. rewrite (tick_item_done _ _ _ _ _ Hit Ed). reflexivity. }
    destruct (r_paced res) eqn:Ep.
    + injection H as <- <- <- <-. specialize (N2 eq_refl).
      refine (conj _ (conj _ (conj _ (conj _ (conj _ _))))).
      * constructor; assumption.
      * reflexivity.
      * lia.
      * intros; lia.
      * intros j x Hj Hd. destruct j as [|j]; cbn [nth_error] in *; [|exact Hj]. injection Hj as <-. rewrite (Hkeep Hd). reflexivity.
      * intros e He. destruct (Hsent e He) as [-> Hd]. exists 0%nat, it. auto.
    + destruct (tick_loop c now fails (S idx) nid r) as [[[r' nd'] st'] o'] eqn:El.
      injection H as <- <- <- <-.
      destruct (IH (S idx) nid r' nd' st' o' Hr El) as (I1 & I2 & I3 & I4 & I5 & I6).
      refine (conj _ (conj _ (conj _ (conj _ (conj _ _))))).
      * constructor; assumption.
      * cbn [length]. lia.
      * lia.
      * intros H0. constructor; [apply N3; lia|apply I4; lia].
      * intros j x Hj Hd. destruct j as [|j]; cbn [nth_error] in *; [|eapply I5; eauto]. injection Hj as <-. rewrite (Hkeep Hd). reflexivity.
      * intros e He. apply in_app_or in He. destruct He as [He|He].
        -- destruct (Hsent e He) as [-> Hd]. exists 0%nat, it. auto.
        -- destruct (I6 e He) as (j & x & -> & Hj & Hd). exists (S j), x. repeat split; auto. f_equal. lia.
Qed.

(* ------------------------------------------------------------------ answers, structurally *)
Lemma upd_nth_length {A} (f : A -> A) : forall l i, length (upd_nth i f l) = length l.
Proof. induction l as [|x r IH]; intros [|i]; cbn; auto. Qed.

Lemma upd_nth_same {A} (f : A -> A) : forall l i x, nth_error l i = Some x -> nth_error (upd_nth i f l) i = Some (f x).
Proof. induction l as [|y r IH]; intros [|i] x H; cbn in *; try discriminate; [injection H as <-; reflexivity|apply IH; exact H]. Qed.

Lemma upd_nth_other {A} (f : A -> A) : forall l i j, i <> j -> nth_error (upd_nth i f l) j = nth_error l j.
Proof. induction l as [|y r IH]; intros [|i] [|j] H; cbn; auto; try congruence. Qed.

Lemma upd_nth_Forall {A} (P : A -> Prop) (f : A -> A) : forall l i, Forall P l -> (forall x, nth_error l i = Some x -> P (f x)) -> Forall P (upd_nth i f l).
Proof.
  induction l as [|y r IH]; intros [|i] Hl Hf; cbn; auto; inversion Hl; subst; constructor; auto.
Qed.

Definition items_of (p : dstate * list out) := ds_items (fst p).

(** what an answer can do, item by item; [o] is [EvCand i] exactly for an accepted success answer *)
Lemma answer_struct c i t k s : Forall sok (ds_items s) ->
  let s' := fst (answer c i t k s) in let o := snd (answer c i t k s) in
  Forall sok (ds_items s') /\ length (ds_items s') = length (ds_items s) /\
  ds_timer s' = ds_timer s /\ ds_gathering s' = ds_gathering s /\
  (forall j x, nth_error (ds_items s) j = Some x -> d_done x = true -> nth_error (ds_items s') j = Some x) /\
  (o = [] \/ (o = [EvCand i] /\ k = KSuccess /\ exists it, nth_error (ds_items s) i = Some it /\ accepts it t = true /\ d_done it = false /\
                 nth_error (ds_items s') i = Some (it_finish it))).
Proof.
  intros Hs. cbn zeta. unfold answer.
  destruct (nth_error (ds_items s) i) as [it|] eqn:En; cbn [fst snd]; [|repeat split; auto].
  destruct (accepts it t) eqn:Ea; cbn [fst snd]; [|repeat split; auto].
  assert (Hit : sok it). { rewrite Forall_forall in Hs. apply Hs. eapply nth_error_In; eauto. }
  destruct (accepts_active it t Hit Ea) as (Hd & Hp & Hb & Hl & Ht).
  assert (Hfin : sok (it_finish it)) by (split; cbn; intros; [auto|congruence]).
  assert (Hcon : sok (it_consume it)). { destruct Hit as [H1 H2]. split; cbn; intros; [auto|]. rewrite andb_false_r. reflexivity. }
  assert (Hupd : forall f, sok (f it) -> d_done (f it) = d_done (f it) ->
            Forall sok (upd_nth i f (ds_items s)) /\ length (upd_nth i f (ds_items s)) = length (ds_items s) /\
            (forall j x, nth_error (ds_items s) j = Some x -> d_done x = true -> nth_error (upd_nth i f (ds_items s)) j = Some x)).
  { intros f Hf _. split; [|split].
    - apply upd_nth_Forall; auto. intros x Hx. rewrite En in Hx. injection Hx as <-. exact Hf.
    - apply upd_nth_length.
    - intros j x Hj Hdx. destruct (Nat.eq_dec i j) as [<-|Hne]; [congruence|]. rewrite upd_nth_other; auto. }
  destruct k as [|code realm|alt|].
  - (* success *) cbn [fst snd ds_items ds_timer ds_gathering]. destruct (Hupd it_finish Hfin eq_refl) as (U1 & U2 & U3).
    repeat split; auto. right. repeat split; auto. exists it. repeat split; auto. apply upd_nth_same; exact En.
  - (* error *)
    destruct (d_type it).
    + cbn [fst snd ds_items ds_timer ds_gathering]. destruct (Hupd it_finish Hfin eq_refl) as (U1 & U2 & U3). repeat split; auto.
    + destruct (negb (realm =? 0)).
      * destruct (auth_retry c it code realm); cbn [fst snd ds_items ds_timer ds_gathering].
        -- assert (Hre : sok (it_retry realm it)). { split; cbn; intros; [congruence|]. rewrite andb_false_r. reflexivity. }
           destruct (Hupd (it_retry realm) Hre eq_refl) as (U1 & U2 & U3). repeat split; auto.
        -- destruct (Hupd it_finish Hfin eq_refl) as (U1 & U2 & U3). repeat split; auto.
      * rewrite Hp. cbn [fst snd ds_items ds_timer ds_gathering]. destruct (Hupd it_finish Hfin eq_refl) as (U1 & U2 & U3). repeat split; auto.
  - (* alternate server *)
    destruct (d_redir it <? c_maxredir c).
    2:{ cbn [fst snd ds_items ds_timer ds_gathering]. destruct (Hupd it_finish Hfin eq_refl) as (U1 & U2 & U3). repeat split; auto. }
    destruct (d_type it); cbn [fst snd ds_items ds_timer ds_gathering].
    + assert (Hre : sok (it_redirect alt it)). { split; cbn; intros; [congruence|]. rewrite andb_false_r. reflexivity. }
      destruct (Hupd (it_redirect alt) Hre eq_refl) as (U1 & U2 & U3). repeat split; auto.
    + assert (Hcr : sok (it_count_redirect it)). { destruct Hit as [H1 H2]. split; cbn; intros; [auto|]. rewrite andb_false_r. reflexivity. }
      destruct (Hupd it_count_redirect Hcr eq_refl) as (U1 & U2 & U3).
      refine (conj _ (conj _ (conj _ (conj _ (conj _ _))))); auto.
      * rewrite Forall_forall in *. intros y Hy. apply in_map_iff in Hy. destruct Hy as (x & <- & Hx).
        destruct (reset_hit it x) eqn:Eh; [|apply U1; exact Hx].
        unfold reset_hit in Eh. apply andb_prop in Eh. destruct Eh as [Eh _]. apply andb_prop in Eh. destruct Eh as [Eh _]. apply andb_prop in Eh. destruct Eh as [Eh _].
        split; cbn; intros; [|reflexivity]. destruct (d_done x); discriminate.
      * rewrite map_length. exact U2.
      * intros j x Hj Hdx. rewrite nth_error_map, (U3 j x Hj Hdx). cbn [option_map]. unfold reset_hit. rewrite Hdx. reflexivity.
  - (* invalid *) cbn [fst snd ds_items ds_timer ds_gathering]. destruct (Hupd it_consume Hcon eq_refl) as (U1 & U2 & U3). repeat split; auto.
Qed.

(* ------------------------------------------------------------------ one step, structurally *)
Definition is_gd (e : out) : bool := match e with EvGatheringDone => true | _ => false end.
Definition is_cand (i : nat) (e : out) : bool := match e with EvCand j => Nat.eqb i j | _ => false end.
Definition is_send (i : nat) (e : out) : bool := match e with EvSend j => Nat.eqb i j | _ => false end.
Definition count (f : out -> bool) (o : list out) : Z := Z.of_nat (length (filter f o)).
Definition n_gd := count is_gd.
Definition n_cand i := count (is_cand i).
Definition n_send i := count (is_send i).

Lemma count_app f a b : count f (a ++ b) = count f a + count f b.
Proof. unfold count. rewrite filter_app, app_length. lia. Qed.
Lemma count_nonneg f o : 0 <= count f o.
Proof. unfold count. lia. Qed.
Lemma count_zero f o : (forall e, In e o -> f e = false) -> count f o = 0.
Proof. intros H. unfold count. induction o as [|e r IH]; [reflexivity|]. cbn [filter]. rewrite (H e (or_introl eq_refl)). apply IH. intros x Hx. apply H. right. exact Hx. Qed.

Definition b2z (b : bool) : Z := if b then 1 else 0.

Lemma do_tick_unfold c now fails s :
  exists l' nd st o, tick_loop c now fails 0 (ds_nid s) (ds_items s) = (l', nd, st, o) /\
    do_tick c now fails s =
      if nd =? 0 then
        ({| ds_items := []; ds_unsched := 0; ds_nid := ds_nid s + Z.of_nat (length (ds_items s)); ds_gathering := false; ds_timer := false |},
         o ++ (if ds_gathering s then [EvGatheringDone] else []), false)
      else
        ({| ds_items := l'; ds_unsched := Z.max 0 (ds_unsched s - st); ds_nid := ds_nid s + Z.of_nat (length (ds_items s));
            ds_gathering := ds_gathering s; ds_timer := ds_timer s |}, o, true).
Proof.
  unfold do_tick. destruct (tick_loop c now fails 0 (ds_nid s) (ds_items s)) as [[[l' nd] st] o] eqn:E.
  exists l', nd, st, o. split; reflexivity.
Qed.

(** candidates still obtainable from item [i]: one while it is not done, none afterwards or when there is no such item *)
Definition cb (s : dstate) (i : nat) : Z :=
  match nth_error (ds_items s) i with Some it => if d_done it then 0 else 1 | None => 0 end.

Record step_facts (c : dcfg) (s : dstate) (e : event) (s' : dstate) (o : list out) : Prop := {
  sf_sok : Forall sok (ds_items s');
  sf_len : ds_items s' = [] \/ length (ds_items s') = length (ds_items s);
  sf_done : forall j x, nth_error (ds_items s) j = Some x -> d_done x = true ->
              (nth_error (ds_items s') j = Some x \/ ds_items s' = []) /\ ~ In (EvSend j) o /\ ~ In (EvCand j) o;
  sf_send : forall j, In (EvSend j) o -> exists x, nth_error (ds_items s) j = Some x /\ d_done x = false;
  sf_gd : n_gd o = b2z (ds_gathering s) - b2z (ds_gathering s');
  sf_gd_when : In EvGatheringDone o ->
     ds_gathering s = true /\ ds_gathering s' = false /\ ds_timer s' = false /\
     ((exists now fails, e = EStart now fails /\ ds_unsched s <= 0 /\ ds_timer s = false) \/
      (exists now fails l' st o', (e = EStart now fails \/ e = ETick now fails) /\
         tick_loop c now fails 0 (ds_nid s) (ds_items s) = (l', 0, st, o') /\ all_done l' /\ ds_items s' = []));
  sf_cand : forall i, In (EvCand i) o -> o = [EvCand i] /\
     exists t it, e = EAnswer i t KSuccess /\ nth_error (ds_items s) i = Some it /\ accepts it t = true /\ d_done it = false /\
                  nth_error (ds_items s') i = Some (it_finish it)
}.

Lemma n_gd_sends o : (forall e, In e o -> exists j, e = EvSend j) -> n_gd o = 0.
Proof. intros H. apply count_zero. intros e He. destruct (H e He) as (j & ->). reflexivity. Qed.

Lemma in_gd_tail (b : bool) e : In e (if b then [EvGatheringDone] else []) -> e = EvGatheringDone /\ b = true.
Proof. destruct b; cbn; intros H; [destruct H as [<-|[]]; auto|destruct H]. Qed.

Lemma tick_facts c now fails s (e : event) : Forall sok (ds_items s) -> (e = EStart now fails \/ e = ETick now fails) ->
  let r := do_tick c now fails s in
  step_facts c s e (set_timer (fst (fst r)) (snd r && (ds_timer s || match e with EStart _ _ => true | _ => false end))) (snd (fst r)).
Proof.
  intros Hs He. cbn zeta.
  destruct (do_tick_unfold c now fails s) as (l' & nd & st & o & El & ->).
  destruct (tick_loop_struct c now fails _ _ _ _ _ _ _ Hs El) as (T1 & T2 & T3 & T4 & T5 & T6).
  assert (Hsend : forall e0, In e0 o -> exists j, e0 = EvSend j).
  { intros e0 H0. destruct (T6 e0 H0) as (j & x & -> & _). eauto. }
  assert (Hnd : forall j x, nth_error (ds_items s) j = Some x -> d_done x = true -> ~ In (EvSend j) o /\ ~ In (EvCand j) o).
  { intros j x Hj Hd. split; intros Hin; destruct (T6 _ Hin) as (j' & y & Heq & Hy & Hdy); [|discriminate].
    injection Heq as ->. cbn in Hy. rewrite Hj in Hy. injection Hy as <-. congruence. }
  destruct (nd =? 0) eqn:End; cbn [fst snd set_timer ds_items ds_unsched ds_nid ds_gathering ds_timer andb].
  - assert (nd = 0) by lia. subst nd. constructor; cbn [set_timer ds_items ds_gathering ds_timer].
    + constructor.
    + left; reflexivity.
    + intros j x Hj Hd. destruct (Hnd j x Hj Hd) as [A B]. split; [right; reflexivity|]. split; intros Hin; apply in_app_or in Hin; destruct Hin as [Hin|Hin]; auto;
        apply in_gd_tail in Hin; destruct Hin; discriminate.
    + intros j Hin. apply in_app_or in Hin. destruct Hin as [Hin|Hin]; [|apply in_gd_tail in Hin; destruct Hin; discriminate].
      destruct (T6 _ Hin) as (j' & y & Heq & Hy & Hdy). injection Heq as ->. exists y. auto.
    + unfold n_gd. rewrite count_app. fold n_gd. rewrite (n_gd_sends o Hsend). destruct (ds_gathering s); reflexivity.
    + intros Hin. apply in_app_or in Hin. destruct Hin as [Hin|Hin]; [destruct (Hsend _ Hin); discriminate|].
      apply in_gd_tail in Hin. destruct Hin as [_ Eg]. repeat split; auto. right. exists now, fails, l', st, o. repeat split; auto.
    + intros i Hin. apply in_app_or in Hin. destruct Hin as [Hin|Hin]; [destruct (Hsend _ Hin); discriminate|].
      apply in_gd_tail in Hin. destruct Hin; discriminate.
  - constructor; cbn [set_timer ds_items ds_gathering ds_timer].
    + exact T1.
    + right; exact T2.
    + intros j x Hj Hd. destruct (Hnd j x Hj Hd) as [A B]. split; [left; apply T5; auto|]. auto.
    + intros j Hin. destruct (T6 _ Hin) as (j' & y & Heq & Hy & Hdy). injection Heq as ->. exists y. auto.
    + rewrite (n_gd_sends o Hsend). lia.
    + intros Hin. destruct (Hsend _ Hin); discriminate.
    + intros i Hin. destruct (Hsend _ Hin); discriminate.
Qed.

Lemma facts_id c s e : Forall sok (ds_items s) -> step_facts c s e s [].
Proof.
  intros Hs. constructor; auto.
  - intros j [].
  - unfold n_gd, count. cbn. lia.
  - intros [].
  - intros i [].
Qed.

Lemma do_tick_timer c now fails s : snd (do_tick c now fails s) = true -> ds_timer (fst (fst (do_tick c now fails s))) = ds_timer s.
Proof.
  destruct (do_tick_unfold c now fails s) as (l' & nd & st & o & El & ->). destruct (nd =? 0); cbn [fst snd ds_timer]; [discriminate|reflexivity].
Qed.

Lemma set_timer_same s : set_timer s (ds_timer s) = s.
Proof. destruct s; reflexivity. Qed.

Theorem step_struct c s e : Forall sok (ds_items s) -> step_facts c s e (fst (step c s e)) (snd (step c s e)).
Proof.
  intros Hs. destruct e as [now fails|now fails|i t k]; cbn [step].
  - destruct (0 <? ds_unsched s) eqn:Eu.
    + destruct (ds_timer s) eqn:Et; cbn [negb fst snd]; [apply facts_id; exact Hs|].
      pose proof (tick_facts c now fails s (EStart now fails) Hs (or_introl eq_refl)) as F. cbn zeta in F.
      destruct (do_tick c now fails s) as [[s' o] res]. cbn [fst snd] in *. rewrite orb_true_r, andb_true_r in F. exact F.
    + destruct (ds_timer s) eqn:Et; cbn [negb fst snd]; [apply facts_id; exact Hs|].
      constructor; cbn [ds_items ds_gathering ds_timer]; auto.
      * intros j x Hj Hd. split; [left; exact Hj|]. split; intros Hin; apply in_gd_tail in Hin; destruct Hin; discriminate.
      * intros j Hin. apply in_gd_tail in Hin; destruct Hin; discriminate.
      * destruct (ds_gathering s); reflexivity.
      * intros Hin. apply in_gd_tail in Hin. destruct Hin as [_ Eg]. repeat split; auto. left. exists now, fails. repeat split; auto. lia.
      * intros i Hin. apply in_gd_tail in Hin. destruct Hin; discriminate.
  - destruct (ds_timer s) eqn:Et; cbn [fst snd]; [|apply facts_id; exact Hs].
    pose proof (tick_facts c now fails s (ETick now fails) Hs (or_intror eq_refl)) as F. cbn zeta in F.
    pose proof (do_tick_timer c now fails s) as Ht.
    destruct (do_tick c now fails s) as [[s' o] res]. cbn [fst snd] in *. rewrite Et in F. cbn [orb] in F. rewrite andb_true_r in F.
    destruct res; cbn [fst snd]; [|exact F]. rewrite <- (set_timer_same s'). rewrite (Ht eq_refl), Et. exact F.
  - pose proof (answer_struct c i t k s Hs) as (A1 & A2 & A3 & A4 & A5 & A6). cbn zeta in *.
    destruct (answer c i t k s) as [s' o]. cbn [fst snd] in *.
    constructor; auto.
    + intros j x Hj Hd. split; [left; apply A5; auto|].
      destruct A6 as [->|(-> & _ & it & Hi & Ha & Hdi & _)]; [split; intros []|].
      split; intros [Hin|[]]; [discriminate|]. injection Hin as <-. congruence.
    + intros j Hin. destruct A6 as [->|(-> & _)]; [destruct Hin|destruct Hin as [Hin|[]]; discriminate].
    + rewrite A4. destruct A6 as [->|(-> & _)]; unfold n_gd, count; cbn; lia.
    + intros Hin. destruct A6 as [->|(-> & _)]; [destruct Hin|destruct Hin as [Hin|[]]; discriminate].
    + intros j Hin. destruct A6 as [->|(-> & -> & it & Hi & Ha & Hdi & Hf)]; [destruct Hin|]. destruct Hin as [Hin|[]]. injection Hin as <-.
      split; [reflexivity|]. exists t, it. repeat split; auto.
Qed.

(* ------------------------------------------------------------------ whole runs: (2) exactly once, (3) candidates, (4) done items *)
Lemma run_cons c s e r : run c s (e :: r) = (fst (run c (fst (step c s e)) r), snd (step c s e) ++ snd (run c (fst (step c s e)) r)).
Proof. cbn [run]. destruct (step c s e) as [s1 o1]. cbn [fst snd]. destruct (run c s1 r) as [s2 o2]. reflexivity. Qed.

Lemma run_sok c : forall es s, Forall sok (ds_items s) -> Forall sok (ds_items (fst (run c s es))).
Proof.
  induction es as [|e r IH]; intros s Hs; [exact Hs|]. rewrite run_cons. cbn [fst]. apply IH. apply (sf_sok _ _ _ _ _ (step_struct c s e Hs)).
Qed.

(** (2) the number of announcements of a run is "gathering before" minus "gathering after": 1 or 0, never more *)
Theorem gathering_done_count c : forall es s, Forall sok (ds_items s) ->
  n_gd (snd (run c s es)) = b2z (ds_gathering s) - b2z (ds_gathering (fst (run c s es))).
Proof.
  induction es as [|e r IH]; intros s Hs.
  - cbn. unfold n_gd, count. cbn. lia.
  - rewrite run_cons. cbn [fst snd]. pose proof (step_struct c s e Hs) as F. unfold n_gd in *. rewrite count_app.
    rewrite (IH _ (sf_sok _ _ _ _ _ F)). pose proof (sf_gd _ _ _ _ _ F) as G. unfold n_gd in G. lia.
Qed.

Corollary gathering_done_at_most_once c es s : Forall sok (ds_items s) -> 0 <= n_gd (snd (run c s es)) <= 1.
Proof.
  intros Hs. split; [apply count_nonneg|]. rewrite (gathering_done_count c es s Hs). destruct (ds_gathering s), (ds_gathering (fst (run c s es))); cbn; lia.
Qed.

Lemma cb_range s i : 0 <= cb s i <= 1.
Proof. unfold cb. destruct (nth_error (ds_items s) i) as [x|]; [destruct (d_done x)|]; lia. Qed.

Lemma nth_error_len_none {A} (l l' : list A) i : length l' = length l -> nth_error l i = None -> nth_error l' i = None.
Proof. intros H Hn. apply nth_error_None in Hn. apply nth_error_None. lia. Qed.

Lemma out_eq_dec (a b : out) : {a = b} + {a <> b}.
Proof. decide equality; apply Nat.eq_dec. Qed.

Lemma step_cand c s e i : Forall sok (ds_items s) -> n_cand i (snd (step c s e)) + cb (fst (step c s e)) i <= cb s i.
Proof.
  intros Hs. pose proof (step_struct c s e Hs) as F. set (s' := fst (step c s e)) in *. set (o := snd (step c s e)) in *.
  destruct (in_dec out_eq_dec (EvCand i) o) as [Hin|Hnin].
  - destruct (sf_cand _ _ _ _ _ F i Hin) as (Ho & t & it & _ & Hi & _ & Hd & Hi').
    rewrite Ho. unfold n_cand, count, cb. rewrite Hi, Hi', Hd. cbn. rewrite Nat.eqb_refl. cbn. lia.
  - assert (Hz : n_cand i o = 0).
    { apply count_zero. intros e0 He0. destruct e0 as [j|j|]; cbn; auto. destruct (Nat.eqb i j) eqn:E; [|reflexivity]. apply Nat.eqb_eq in E. subst j. contradiction. }
    rewrite Hz. pose proof (cb_range s' i) as R. unfold cb in *.
    destruct (nth_error (ds_items s) i) as [x|] eqn:Ex.
    + destruct (d_done x) eqn:Ed; [|lia]. destruct (sf_done _ _ _ _ _ F i x Ex Ed) as [[H|H] _]; [rewrite H, Ed; lia|rewrite H; destruct i; cbn; lia].
    + destruct (sf_len _ _ _ _ _ F) as [H|H]; [rewrite H; destruct i; cbn; lia|]. rewrite (nth_error_len_none _ _ i H Ex). lia.
Qed.

(** (3) at most one candidate per item over a whole run *)
Theorem candidates_at_most_one c i : forall es s, Forall sok (ds_items s) -> n_cand i (snd (run c s es)) <= cb s i.
Proof.
  induction es as [|e r IH]; intros s Hs.
  - cbn. unfold n_cand, count. cbn. pose proof (cb_range s i). lia.
  - rewrite run_cons. cbn [snd]. unfold n_cand in *. rewrite count_app.
    pose proof (step_cand c s e i Hs) as S. unfold n_cand in S. pose proof (IH _ (sf_sok _ _ _ _ _ (step_struct c s e Hs))). lia.
Qed.

(** (4) a done item is never touched again: it stays exactly as it is until the list is freed, and no request is sent,
    no candidate produced for its position, for the rest of the run *)
Theorem done_is_final c j : forall es s x, Forall sok (ds_items s) -> (nth_error (ds_items s) j = Some x /\ d_done x = true \/ ds_items s = []) ->
  (nth_error (ds_items (fst (run c s es))) j = Some x \/ ds_items (fst (run c s es)) = []) /\
  n_send j (snd (run c s es)) = 0 /\ n_cand j (snd (run c s es)) = 0.
Proof.
  induction es as [|e r IH]; intros s x Hs H.
  - cbn. unfold n_send, n_cand, count. cbn. destruct H as [[H _]|H]; auto.
  - rewrite run_cons. cbn [fst snd]. pose proof (step_struct c s e Hs) as F. set (s' := fst (step c s e)) in *. set (o := snd (step c s e)) in *.
    assert (Ho : n_send j o = 0 /\ n_cand j o = 0 /\ (nth_error (ds_items s') j = Some x /\ d_done x = true \/ ds_items s' = [])).
    { destruct H as [[Hj Hd]|Hnil].
      - destruct (sf_done _ _ _ _ _ F j x Hj Hd) as (A & B & C). split; [|split].
        + apply count_zero. intros e0 He0. destruct e0 as [k|k|]; cbn; auto. destruct (Nat.eqb j k) eqn:E; [|reflexivity]. apply Nat.eqb_eq in E. subst k. contradiction.
        + apply count_zero. intros e0 He0. destruct e0 as [k|k|]; cbn; auto. destruct (Nat.eqb j k) eqn:E; [|reflexivity]. apply Nat.eqb_eq in E. subst k. contradiction.
        + destruct A; auto.
      - split; [|split].
        + apply count_zero. intros e0 He0. destruct e0 as [k|k|]; cbn; auto. destruct (Nat.eqb j k) eqn:E; [|reflexivity]. apply Nat.eqb_eq in E. subst k.
          destruct (sf_send _ _ _ _ _ F j He0) as (y & Hy & _). rewrite Hnil in Hy. destruct j; discriminate.
        + apply count_zero. intros e0 He0. destruct e0 as [k|k|]; cbn; auto. destruct (Nat.eqb j k) eqn:E; [|reflexivity]. apply Nat.eqb_eq in E. subst k.
          destruct (sf_cand _ _ _ _ _ F j He0) as (_ & t & y & _ & Hy & _). rewrite Hnil in Hy. destruct j; discriminate.
        + right. destruct (sf_len _ _ _ _ _ F) as [E|E]; [exact E|]. rewrite Hnil in E. destruct (ds_items s'); [reflexivity|discriminate]. }
    destruct Ho as (O1 & O2 & O3).
    destruct (IH s' x (sf_sok _ _ _ _ _ F) O3) as (I1 & I2 & I3).
    unfold n_send, n_cand in *. rewrite !count_app. repeat split; auto; lia.
Qed.

(* ================================================================== (1) termination: the potential *)
Ltac simp_it := cbn [r_item r_nd r_paced r_started r_sent TR it_start it_fail it_cancel it_timeout it_rearm it_finish it_consume it_retry it_redirect it_count_redirect it_reset mk
                     d_type d_grp d_srv d_done d_pending d_buf d_tid d_live d_realm d_resp_realm d_timer d_auth d_next d_redir negb].

(** microseconds: the wait that runs while [retrans = k] *)
Definition Wk (c : dcfg) (k : Z) : Z := wait (c_T c) (c_N c) k * 1000.
(** each remaining round costs its wait, 1 ms of rounding in stun_timer_remainder, and one tick period [G] until the expiry is seen *)
Fixpoint Sfrom (c : dcfg) (G k : Z) (fuel : nat) : Z :=
  match fuel with O => 0 | S f => (Wk c k + 1000 + G) + Sfrom c G (k + 1) f end.
Definition Srem (c : dcfg) (G r : Z) : Z := Sfrom c G (r + 1) (Z.to_nat (nmax (c_N c) - r)).
(** a whole transaction: sum over k = 1 .. max(N,1) of (wait_k + 1 ms + G) *)
Definition TX (c : dcfg) (G : Z) : Z := Srem c G 0.
(** one (re)start of an item: a tick to send the request, then a whole transaction *)
Definition round (c : dcfg) (G : Z) : Z := G + TX c G.

Definition phi0 (c : dcfg) (G now : Z) (it : item) : Z :=
  if d_done it then 0
  else if negb (d_pending it) then round c G + (c_maxauth c - d_auth it) * round c G
  else Z.max 0 (us (deadline (d_timer it)) + 1000 - now) + G + Srem c G (retrans (d_timer it)) + (c_maxauth c - d_auth it) * round c G.


Definition inv_item (c : dcfg) (clk : Z) (it : item) : Prop :=
  sok it /\ 0 <= d_auth it <= c_maxauth c /\
  (d_done it = false -> d_pending it = true ->
     d_buf it = true /\ exists last, Inv (c_T c) (c_N c) (d_timer it) last /\ last <= clk /\ d_next it < us (deadline (d_timer it)) + 1000).

Lemma Srem_step c G r : 0 <= r < nmax (c_N c) -> Srem c G r = (Wk c (r + 1) + 1000 + G) + Srem c G (r + 1).
Proof.
  intros H. unfold Srem. replace (Z.to_nat (nmax (c_N c) - r)) with (S (Z.to_nat (nmax (c_N c) - (r + 1)))) by lia. reflexivity.
Qed.

Lemma Sfrom_nonneg c G : params_ok (c_T c) (c_N c) -> 0 <= G -> forall fuel k, 1 <= k -> k + Z.of_nat fuel - 1 <= nmax (c_N c) -> 0 <= Sfrom c G k fuel.
Proof.
  intros HP HG. induction fuel as [|f IH]; intros k Hk Hn; cbn [Sfrom]; [lia|].
  pose proof (wait_bound (c_T c) (c_N c) k HP ltac:(lia)) as W. specialize (IH (k + 1) ltac:(lia) ltac:(lia)). unfold Wk. lia.
Qed.

Lemma Srem_nonneg c G r : params_ok (c_T c) (c_N c) -> 0 <= G -> 0 <= r -> 0 <= Srem c G r.
Proof.
  intros HP HG Hr. unfold Srem. destruct (Z_le_gt_dec (nmax (c_N c)) r) as [H|H].
  - replace (Z.to_nat (nmax (c_N c) - r)) with O by lia. cbn. lia.
  - apply Sfrom_nonneg; auto; lia.
Qed.

Lemma round_nonneg c G : params_ok (c_T c) (c_N c) -> 0 <= G -> 0 <= TX c G /\ 0 <= round c G.
Proof. intros HP HG. pose proof (Srem_nonneg c G 0 HP HG ltac:(lia)). unfold round, TX. lia. Qed.

Lemma phi0_nonneg c G now it clk : params_ok (c_T c) (c_N c) -> 0 <= G -> inv_item c clk it -> 0 <= phi0 c G now it.
Proof.
  intros HP HG (Hs & Ha & Ht). destruct (round_nonneg c G HP HG) as [R1 R2]. unfold phi0.
  assert (0 <= (c_maxauth c - d_auth it) * round c G) by nia.
  destruct (d_done it) eqn:Ed; [lia|]. destruct (d_pending it) eqn:Ep; cbn [negb]; [|lia].
  destruct (Ht eq_refl eq_refl) as (_ & last & HI & _). destruct HI as [_ Hr _ _ _].
  pose proof (Srem_nonneg c G (retrans (d_timer it)) HP HG ltac:(lia)). lia.
Qed.

Lemma phi0_mono c G clk now it : clk <= now -> phi0 c G now it <= phi0 c G clk it.
Proof.
  intros H. unfold phi0. destruct (d_done it); [lia|]. destruct (negb (d_pending it)); [lia|].
  generalize ((c_maxauth c - d_auth it) * round c G) (Srem c G (retrans (d_timer it))) (us (deadline (d_timer it))). intros; lia.
Qed.

Lemma inv_item_mono c clk now it : clk <= now -> inv_item c clk it -> inv_item c now it.
Proof.
  intros H (A & B & C). split; [exact A|split; [exact B|]]. intros Hd Hp. destruct (C Hd Hp) as (Hb & last & HI & Hl & Hn). split; [exact Hb|]. exists last. split; [exact HI|split; [lia|exact Hn]].
Qed.

Lemma w32_le x : 0 <= x -> 0 <= w32 x <= x.
Proof. intros H. unfold w32. split; [apply Z.mod_pos_bound; lia|apply Z.mod_le; lia]. Qed.

(** next_tick as the tick computes it is never later than 1 ms after the deadline *)
Lemma next_ok T N t last p : params_ok T N -> Inv T N t last -> wf_now p -> last <= us p -> us p <= us (deadline t) ->
  us p + w32 (remainder t p * 1000) < us (deadline t) + 1000.
Proof.
  intros HP HI Hp Hl Hle. destruct HI as [Hm Hr Hd Hdl Hwf].
  pose proof (wait_bound T N (retrans t) HP Hr) as Hwb. rewrite <- Hd in Hwb.
  assert (Hs : sec (deadline t) - sec p < 4294967) by (unfold us, wf_now, wf_dl in *; lia).
  pose proof (remainder_spec t p Hp Hwf Hs) as (R0 & R1 & R2). cbn zeta in *.
  destruct (Z_le_gt_dec (us (deadline t) - us p) 0) as [H|H].
  - rewrite (R0 H). cbn. lia.
  - destruct (R1 ltac:(lia)) as [Rb Rn]. pose proof (w32_le (remainder t p * 1000) ltac:(lia)). lia.
Qed.

Lemma start_facts T N now : params_ok T N -> wf_now now ->
  Inv T N (timer_start now T N) (us now) /\ retrans (timer_start now T N) = 1 /\
  us (deadline (timer_start now T N)) = us now + wait T N 1 * 1000 /\ 0 <= wait T N 1.
Proof.
  intros HP Hn. pose proof (start_inv T N now HP Hn) as HI. split; [exact HI|]. split; [reflexivity|].
  destruct HI as [Hm Hr Hd Hdl Hwf]. change (retrans (timer_start now T N)) with 1 in *.
  pose proof (wait_bound T N 1 HP Hr). rewrite Hdl, Hd. lia.
Qed.

(** the effect of the tick on one item, measured by the potential: never up; down by a tick period when it transmits;
    down by the time elapsed when it is found waiting *)
Lemma tick_item_phi0 c G clk now ok tid it :
  params_ok (c_T c) (c_N c) -> 0 <= G -> inv_item c clk it -> wf_now now -> clk <= us now ->
  let res := tick_item c now ok tid it in
  inv_item c (us now) (r_item res) /\
  phi0 c G (us now) (r_item res) <= phi0 c G clk it /\
  (r_paced res = true -> phi0 c G (us now) (r_item res) + G <= phi0 c G clk it) /\
  (r_paced res = false -> r_nd res = 1 -> phi0 c G (us now) (r_item res) + (us now - clk) <= phi0 c G clk it).
Proof.
  intros HP HG Hinv Hn Hclk. cbn zeta.
  pose proof (phi0_nonneg c G clk it clk HP HG Hinv) as Hnn.
  pose proof (phi0_mono c G clk (us now) it Hclk) as Hmono.
  pose proof (inv_item_mono c clk (us now) it Hclk Hinv) as Hinv'.
  destruct Hinv as (Hs & Ha & Ht).
  destruct (round_nonneg c G HP HG) as [R1 R2].
  pose proof (tick_item_sok c now ok tid it Hs) as Hs'.
  assert (HX : 0 <= (c_maxauth c - d_auth it) * round c G) by nia.
  destruct (tick_item_cases c now ok tid it) as [(A&B&E)|[(A&B&E)|[(A&B&E)|[(A&B&C&E)|[(A&B&C&D&E)|[(A&B&C&D&F&E)|[(A&B&C&D&F&E)|(A&B&C&D&F&E)]]]]]]];
    rewrite E in *; simp_it; clear E.
  - (* request created and sent *)
    assert (Hd : d_done it = false). { destruct (d_done it) eqn:Ed; [|reflexivity]. destruct Hs as [H1 _]. destruct (H1 Ed). congruence. }
    destruct (start_facts (c_T c) (c_N c) now HP Hn) as (SI & Sr & Sd & Sw).
    assert (HS : Srem c G 0 = (Wk c 1 + 1000 + G) + Srem c G 1). { apply (Srem_step c G 0). unfold nmax. lia. }
    split; [|split; [|split]].
    + split; [exact Hs'|]. split; [simp_it; exact Ha|]. simp_it. intros _ _. split; [reflexivity|]. exists (us now). split; [exact SI|]. split; [lia|]. unfold mono, us in *. lia.
    + unfold phi0. simp_it. rewrite Hd, A. cbn [negb]. rewrite Sr, Sd. unfold round, TX. unfold Wk in HS. lia.
    + intros _. unfold phi0. simp_it. rewrite Hd, A. cbn [negb]. rewrite Sr, Sd. unfold round, TX. unfold Wk in HS. lia.
    + intros; discriminate.
  - (* could not be started: done *)
    split; [|split; [|split]].
    + split; [exact Hs'|]. split; [simp_it; exact Ha|]. simp_it. intros; discriminate.
    + unfold phi0 at 1. simp_it. lia.
    + intros; discriminate.
    + intros _ H; discriminate.
  - (* already done *)
    split; [exact Hinv'|]. split; [exact Hmono|]. split; intros; discriminate.
  - (* cancelled: excluded by the invariant *)
    destruct (Ht B A) as (Hb & _). congruence.
  - (* not due yet *)
    destruct (Ht B A) as (_ & last & HI & Hl & Hnx).
    split; [exact Hinv'|]. split; [exact Hmono|]. split; [intros; discriminate|]. intros _ _.
    unfold phi0. rewrite B, A. cbn [negb]. unfold mono, us in *. lia.
  - (* TIMEOUT *)
    split; [|split; [|split]].
    + split; [exact Hs'|]. split; [simp_it; exact Ha|]. simp_it. intros; discriminate.
    + unfold phi0 at 1. simp_it. lia.
    + intros; discriminate.
    + intros _ H; discriminate.
  - (* RETRANSMIT *)
    destruct (Ht B A) as (_ & last & HI & Hl & Hnx).
    pose proof (refresh_step (c_T c) (c_N c) (d_timer it) last now HP HI Hn ltac:(lia)) as [S1 _]. cbn zeta in S1. rewrite F in S1.
    destruct S1 as (Hr & Hlt & HI' & Hk).
    set (t' := fst (refresh (d_timer it) now)) in *.
    pose proof HI' as [Hm' Hr' Hd' Hdl' Hwf']. pose proof HI as [Hm0 Hr0 _ _ _].
    pose proof (wait_bound (c_T c) (c_N c) (retrans t') HP Hr') as Hwb.
    assert (HS : Srem c G (retrans (d_timer it)) = (Wk c (retrans (d_timer it) + 1) + 1000 + G) + Srem c G (retrans (d_timer it) + 1)) by (apply Srem_step; lia).
    pose proof (next_ok (c_T c) (c_N c) t' (us now) now HP HI' Hn ltac:(lia) ltac:(lia)) as Hnx'.
    split; [|split; [|split]].
    + split; [exact Hs'|]. split; [simp_it; exact Ha|]. simp_it. intros _ _. split; [exact C|]. exists (us now). split; [exact HI'|]. split; [lia|]. unfold mono, us in *. lia.
    + unfold phi0. simp_it. rewrite B, A. cbn [negb]. rewrite Hk. unfold Wk in HS. rewrite Hk in Hd', Hwb. lia.
    + intros _. unfold phi0. simp_it. rewrite B, A. cbn [negb]. rewrite Hk. unfold Wk in HS. rewrite Hk in Hd', Hwb. lia.
    + intros; discriminate.
  - (* SUCCESS: still waiting *)
    destruct (Ht B A) as (_ & last & HI & Hl & Hnx).
    pose proof (refresh_step (c_T c) (c_N c) (d_timer it) last now HP HI Hn ltac:(lia)) as [S1 _]. cbn zeta in S1. rewrite F in S1.
    destruct S1 as (Heq & Hr). rewrite Heq.
    pose proof (next_ok (c_T c) (c_N c) (d_timer it) last now HP HI Hn ltac:(lia) ltac:(lia)) as Hnx'.
    split; [|split; [|split]].
    + split; [exact Hs'|]. split; [simp_it; exact Ha|]. simp_it. intros _ _. split; [exact C|]. exists last. split; [exact HI|]. split; [lia|]. unfold mono, us in *. lia.
    + unfold phi0. simp_it. rewrite B, A. cbn [negb]. lia.
    + intros; discriminate.
    + intros _ _. unfold phi0. simp_it. rewrite B, A. cbn [negb]. lia.
Qed.

(** the potential of an item: what its own transactions can still cost ([phi0]) plus, for every alternate-server answer it may still
    follow, a whole transaction for each of the [nn] items of the list (following one re-queues the item and, for a TURN allocation,
    its siblings of the same server: none of them is charged on its own counter) *)
Definition rterm (c : dcfg) (G nn : Z) (it : item) : Z := (c_maxredir c - d_redir it) * (nn * TX c G).
Definition phi (c : dcfg) (G nn now : Z) (it : item) : Z := if d_done it then 0 else rterm c G nn it + phi0 c G now it.
Fixpoint Phi (c : dcfg) (G nn now : Z) (l : list item) : Z := match l with [] => 0 | it :: r => phi c G nn now it + Phi c G nn now r end.
Definition inv2 (c : dcfg) (clk : Z) (it : item) : Prop := inv_item c clk it /\ 0 <= d_redir it <= c_maxredir c.

Lemma rterm_nonneg c G nn it : params_ok (c_T c) (c_N c) -> 0 <= G -> 0 <= nn -> 0 <= d_redir it <= c_maxredir c -> 0 <= rterm c G nn it.
Proof. intros HP HG Hn Hr. destruct (round_nonneg c G HP HG) as [R1 _]. unfold rterm. apply Z.mul_nonneg_nonneg; [lia|apply Z.mul_nonneg_nonneg; lia]. Qed.

Lemma phi_nonneg c G nn now it clk : params_ok (c_T c) (c_N c) -> 0 <= G -> 0 <= nn -> inv2 c clk it -> 0 <= phi c G nn now it.
Proof.
  intros HP HG Hn (Hi & Hr). unfold phi. destruct (d_done it); [lia|]. pose proof (phi0_nonneg c G now it clk HP HG Hi). pose proof (rterm_nonneg c G nn it HP HG Hn Hr). lia.
Qed.

Lemma phi_mono c G nn clk now it : clk <= now -> phi c G nn now it <= phi c G nn clk it.
Proof. intros H. unfold phi. destruct (d_done it); [lia|]. pose proof (phi0_mono c G clk now it H). lia. Qed.

Lemma Phi_mono c G nn clk now l : clk <= now -> Phi c G nn now l <= Phi c G nn clk l.
Proof. intros H. induction l as [|it r IH]; cbn [Phi]; [lia|]. pose proof (phi_mono c G nn clk now it H). lia. Qed.

Lemma inv2_mono c clk now it : clk <= now -> inv2 c clk it -> inv2 c now it.
Proof. intros H (A & B). split; [eapply inv_item_mono; eauto|exact B]. Qed.

Lemma tick_item_redir c now ok tid it : d_redir (r_item (tick_item c now ok tid it)) = d_redir it.
Proof.
  destruct (tick_item_cases c now ok tid it) as [(A&B&->)|[(A&B&->)|[(A&B&->)|[(A&B&C&->)|[(A&B&C&D&->)|[(A&B&C&D&E&->)|[(A&B&C&D&E&->)|(A&B&C&D&E&->)]]]]]]]; reflexivity.
Qed.

Lemma tick_item_phi c G nn clk now ok tid it :
  params_ok (c_T c) (c_N c) -> 0 <= G -> 0 <= nn -> inv2 c clk it -> wf_now now -> clk <= us now ->
  let res := tick_item c now ok tid it in
  inv2 c (us now) (r_item res) /\
  phi c G nn (us now) (r_item res) <= phi c G nn clk it /\
  (r_paced res = true -> phi c G nn (us now) (r_item res) + G <= phi c G nn clk it) /\
  (r_paced res = false -> r_nd res = 1 -> phi c G nn (us now) (r_item res) + (us now - clk) <= phi c G nn clk it).
Proof.
  intros HP HG Hn (Hi & Hr) Hw Hclk. cbn zeta.
  destruct (tick_item_phi0 c G clk now ok tid it HP HG Hi Hw Hclk) as (P1 & P2 & P3 & P4). cbn zeta in *.
  pose proof (tick_item_redir c now ok tid it) as Hrd. pose proof (tick_item_nd c now ok tid it) as (_ & _ & _ & N4). cbn zeta in N4.
  pose proof (rterm_nonneg c G nn it HP HG Hn Hr) as RN. pose proof (phi0_nonneg c G clk it clk HP HG Hi) as NN.
  set (res := tick_item c now ok tid it) in *.
  assert (Hrt : rterm c G nn (r_item res) = rterm c G nn it) by (unfold rterm; rewrite Hrd; reflexivity).
  split; [split; [exact P1|rewrite Hrd; exact Hr]|].
  unfold phi. rewrite Hrt. destruct (d_done it) eqn:Ed.
  - rewrite (N4 eq_refl). unfold phi0 in P2, P3, P4. rewrite Ed, (N4 eq_refl) in P2, P3, P4. repeat split; intros; auto.
  - destruct (d_done (r_item res)) eqn:Ed'.
    + unfold phi0 at 1 in P2. unfold phi0 at 1 in P3. unfold phi0 at 1 in P4. rewrite Ed' in P2, P3, P4. repeat split; intros; [lia|specialize (P3 H); lia|specialize (P4 H H0); lia].
    + repeat split; intros; [lia|specialize (P3 H); lia|specialize (P4 H H0); lia].
Qed.

Lemma tick_loop_nd_nonneg_aux c now fails : forall l idx nid l' nd st o, tick_loop c now fails idx nid l = (l', nd, st, o) -> 0 <= nd.
Proof.
  induction l as [|it r IH]; intros idx nid l' nd st o H; cbn [tick_loop] in H.
  - injection H as <- <- <- <-. lia.
  - pose proof (tick_item_nd c now (negb (existsb (Nat.eqb idx) fails)) (nid + Z.of_nat idx) it) as (N1 & _). cbn zeta in N1.
    destruct (r_paced _).
    + injection H as <- <- <- <-. lia.
    + destruct (tick_loop c now fails (S idx) nid r) as [[[r' nd'] st'] o'] eqn:El. injection H as <- <- <- <-. specialize (IH _ _ _ _ _ _ El). lia.
Qed.

(** the whole loop: the potential never goes up, and when the tick returns TRUE (not_done > 0) it went down by at least the time
    elapsed since the previous tick (which is at most one tick period G) *)
Lemma tick_loop_phi c G nn clk now fails :
  params_ok (c_T c) (c_N c) -> 0 <= G -> 0 <= nn -> wf_now now -> clk <= us now -> us now - clk <= G ->
  forall l idx nid l' nd st o, Forall (inv2 c clk) l -> tick_loop c now fails idx nid l = (l', nd, st, o) ->
  Forall (inv2 c (us now)) l' /\ Phi c G nn (us now) l' <= Phi c G nn clk l /\ (0 < nd -> Phi c G nn (us now) l' + (us now - clk) <= Phi c G nn clk l).
Proof.
  intros HP HG Hnn Hn Hclk Hgap. induction l as [|it r IH]; intros idx nid l' nd st o Hl H; cbn [tick_loop] in H.
  - injection H as <- <- <- <-. cbn [Phi]. repeat split; auto; lia.
  - inversion Hl as [|? ? Hit Hr]; subst.
    pose proof (tick_item_phi c G nn clk now (negb (existsb (Nat.eqb idx) fails)) (nid + Z.of_nat idx) it HP HG Hnn Hit Hn Hclk) as (P1 & P2 & P3 & P4). cbn zeta in *.
    pose proof (tick_item_nd c now (negb (existsb (Nat.eqb idx) fails)) (nid + Z.of_nat idx) it) as (N1 & N2 & _ & _). cbn zeta in *.
    set (res := tick_item c now (negb (existsb (Nat.eqb idx) fails)) (nid + Z.of_nat idx) it) in *.
    destruct (r_paced res) eqn:Ep.
    + injection H as <- <- <- <-. specialize (P3 eq_refl). pose proof (Phi_mono c G nn clk (us now) r Hclk) as M.
      split; [|split].
      * constructor; [exact P1|]. rewrite Forall_forall in *. intros x Hx. apply (inv2_mono c clk); auto.
      * cbn [Phi]. lia.
      * intros _. cbn [Phi]. lia.
    + destruct (tick_loop c now fails (S idx) nid r) as [[[r' nd'] st'] o'] eqn:El.
      injection H as <- <- <- <-. destruct (IH (S idx) nid r' nd' st' o' Hr El) as (I1 & I2 & I3).
      pose proof (tick_loop_nd_nonneg_aux c now fails r (S idx) nid r' nd' st' o' El) as Hnd'.
      split; [|split].
      * constructor; assumption.
      * cbn [Phi]. lia.
      * intros Hpos. cbn [Phi]. destruct (Z.eq_dec (r_nd res) 1) as [E1|E1].
        -- specialize (P4 eq_refl E1). lia.
        -- assert (0 < nd') by lia. specialize (I3 H). lia.
Qed.

(* ------------------------------------------------------------------ answers and the potential *)
Lemma Phi_upd c G nn now f : forall l i it, nth_error l i = Some it ->
  Phi c G nn now (upd_nth i f l) = Phi c G nn now l - phi c G nn now it + phi c G nn now (f it).
Proof.
  induction l as [|y r IH]; intros [|i] it H; cbn in H; try discriminate.
  - injection H as <-. cbn [upd_nth Phi]. lia.
  - cbn [upd_nth Phi]. rewrite (IH i it H). lia.
Qed.

Lemma phi0_active_lb c G clk it : params_ok (c_T c) (c_N c) -> 0 <= G -> inv_item c clk it -> d_done it = false -> d_pending it = true ->
  G + (c_maxauth c - d_auth it) * round c G <= phi0 c G clk it.
Proof.
  intros HP HG (Hs & Ha & Ht) Hd Hp. destruct (Ht Hd Hp) as (_ & last & HI & _). destruct HI as [_ Hr _ _ _].
  pose proof (Srem_nonneg c G (retrans (d_timer it)) HP HG ltac:(lia)). unfold phi0. rewrite Hd, Hp. cbn [negb]. lia.
Qed.

Lemma phi0_restart c G clk it : d_done it = false -> d_pending it = false -> phi0 c G clk it = round c G + (c_maxauth c - d_auth it) * round c G.
Proof. intros Hd Hp. unfold phi0. rewrite Hd, Hp. reflexivity. Qed.

Lemma Phi_map c G nn clk (g : item -> item) B : 0 <= B -> forall l, (forall x, In x l -> phi c G nn clk (g x) <= phi c G nn clk x + B) ->
  Phi c G nn clk (map g l) <= Phi c G nn clk l + Z.of_nat (length l) * B.
Proof.
  intros HB. induction l as [|x r IH]; intros H; cbn [map Phi length]; [lia|].
  pose proof (H x (or_introl eq_refl)). specialize (IH (fun y Hy => H y (or_intror Hy))). lia.
Qed.

(** NO answer, of any kind, raises the potential: an alternate-server answer that is followed costs the item one of its redirections,
    which pays for re-queueing every item of the list *)
Lemma answer_phi c G nn clk i t k s : params_ok (c_T c) (c_N c) -> 0 <= G -> Z.of_nat (length (ds_items s)) <= nn -> Forall (inv2 c clk) (ds_items s) ->
  let s' := fst (answer c i t k s) in
  Forall (inv2 c clk) (ds_items s') /\ Phi c G nn clk (ds_items s') <= Phi c G nn clk (ds_items s).
Proof.
  intros HP HG Hlen Hl. cbn zeta. destruct (round_nonneg c G HP HG) as [R1 R2].
  unfold answer.
  destruct (nth_error (ds_items s) i) as [it|] eqn:En; cbn [fst]; [|split; [exact Hl|lia]].
  destruct (accepts it t) eqn:Ea; cbn [fst]; [|split; [exact Hl|lia]].
  assert (Hn1 : 1 <= nn). { destruct (ds_items s); [destruct i; discriminate|cbn [length] in Hlen; lia]. }
  assert (Hit : inv2 c clk it). { rewrite Forall_forall in Hl. apply Hl. eapply nth_error_In; eauto. }
  pose proof Hit as (Hi0 & Hrd). pose proof Hi0 as (Hs & Hau & Ht).
  destruct (accepts_active it t Hs Ea) as (Hd & Hp & Hb & Hlv & Htid).
  pose proof (phi0_active_lb c G clk it HP HG Hi0 Hd Hp) as LB.
  pose proof (phi_nonneg c G nn clk it clk HP HG ltac:(lia) Hit) as NN.
  pose proof (rterm_nonneg c G nn it HP HG ltac:(lia) Hrd) as RN.
  assert (HX : 0 <= (c_maxauth c - d_auth it) * round c G) by nia.
  assert (Hphi : phi c G nn clk it = rterm c G nn it + phi0 c G clk it) by (unfold phi; rewrite Hd; reflexivity).
  assert (Ffin : inv2 c clk (it_finish it) /\ phi c G nn clk (it_finish it) = 0).
  { split; [|reflexivity]. split; [|exact Hrd]. split; [split; cbn; intros; [auto|congruence]|]. split; [exact Hau|]. cbn. intros; discriminate. }
  assert (Fcon : inv2 c clk (it_consume it) /\ phi c G nn clk (it_consume it) = phi c G nn clk it).
  { split; [|reflexivity]. split; [|exact Hrd]. destruct Hs as [S1 S2]. split; [split; cbn; intros; [auto|rewrite andb_false_r; reflexivity]|]. split; [exact Hau|]. exact Ht. }
  assert (Fupd : forall f B, inv2 c clk (f it) -> phi c G nn clk (f it) <= phi c G nn clk it + B ->
            Forall (inv2 c clk) (upd_nth i f (ds_items s)) /\ Phi c G nn clk (upd_nth i f (ds_items s)) <= Phi c G nn clk (ds_items s) + B).
  { intros f B Hf Hph. split.
    - apply upd_nth_Forall; auto. intros x Hx. rewrite En in Hx. injection Hx as <-. exact Hf.
    - rewrite (Phi_upd c G nn clk f _ i it En). lia. }
  assert (F0 : forall f, inv2 c clk (f it) -> phi c G nn clk (f it) <= phi c G nn clk it ->
            Forall (inv2 c clk) (upd_nth i f (ds_items s)) /\ Phi c G nn clk (upd_nth i f (ds_items s)) <= Phi c G nn clk (ds_items s)).
  { intros f Hf Hph. destruct (Fupd f 0 Hf ltac:(lia)) as [U1 U2]. split; [exact U1|lia]. }
  destruct Ffin as [Ff1 Ff2]. destruct Fcon as [Fc1 Fc2].
  destruct k as [|code realm|alt|].
  - cbn [fst ds_items]. apply F0; [exact Ff1|lia].
  - destruct (d_type it).
    + cbn [fst ds_items]. apply F0; [exact Ff1|lia].
    + destruct (negb (realm =? 0)).
      * destruct (auth_retry c it code realm) eqn:Ear; cbn [fst ds_items]; [|apply F0; [exact Ff1|lia]].
        assert (Hlt : d_auth it < c_maxauth c). { unfold auth_retry in Ear. apply andb_prop in Ear. destruct Ear as [_ E]. lia. }
        apply F0.
        -- split; [|exact Hrd]. split; [split; cbn; intros; [congruence|rewrite andb_false_r; reflexivity]|]. split; [cbn; lia|]. cbn. intros; discriminate.
        -- rewrite Hphi. unfold phi. simp_it. rewrite Hd. change (rterm c G nn (it_retry realm it)) with (rterm c G nn it). unfold phi0 at 1. simp_it. rewrite Hd. lia.
      * rewrite Hp. cbn [fst ds_items]. apply F0; [exact Ff1|lia].
  - destruct (d_redir it <? c_maxredir c) eqn:Erd; [|cbn [fst ds_items]; apply F0; [exact Ff1|lia]].
    assert (Hnt : 0 <= (nn - 1) * TX c G) by (apply Z.mul_nonneg_nonneg; lia).
    assert (Hrt' : (c_maxredir c - (d_redir it + 1)) * (nn * TX c G) = rterm c G nn it - nn * TX c G) by (unfold rterm; lia).
    destruct (d_type it); cbn [fst ds_items].
    + apply F0.
      * split; [|cbn; lia]. split; [split; cbn; intros; [congruence|rewrite andb_false_r; reflexivity]|]. split; [exact Hau|]. cbn. intros; discriminate.
      * rewrite Hphi. unfold phi. simp_it. rewrite Hd. unfold rterm at 1. simp_it. rewrite Hrt'. unfold phi0 at 1. simp_it. rewrite Hd. unfold round in *. lia.
    + destruct (Fupd it_count_redirect (- (nn * TX c G))) as [U1 U2].
      * split; [|cbn; lia]. destruct Hs as [S1 S2]. split; [split; cbn; intros; [auto|rewrite andb_false_r; reflexivity]|]. split; [exact Hau|]. exact Ht.
      * rewrite Hphi. unfold phi. simp_it. rewrite Hd. unfold rterm at 1. simp_it. rewrite Hrt'. change (phi0 c G clk (it_count_redirect it)) with (phi0 c G clk it). lia.
      * set (l1 := upd_nth i it_count_redirect (ds_items s)) in *.
        assert (Hl1 : length l1 = length (ds_items s)) by apply upd_nth_length.
        set (g := fun x => if reset_hit it x then it_reset alt x else x).
        assert (Hg : forall x, In x l1 -> inv2 c clk (g x) /\ phi c G nn clk (g x) <= phi c G nn clk x + TX c G).
        { intros x Hx. rewrite Forall_forall in U1. specialize (U1 x Hx). unfold g. destruct (reset_hit it x) eqn:Eh; [|split; [exact U1|lia]].
          unfold reset_hit in Eh. apply andb_prop in Eh. destruct Eh as [Eh _]. apply andb_prop in Eh. destruct Eh as [Eh _]. apply andb_prop in Eh. destruct Eh as [Eh _].
          assert (Hdx : d_done x = false) by (destruct (d_done x); [discriminate|reflexivity]).
          pose proof U1 as (Ux & Rx). pose proof Ux as (Sx & Ax & Tx). split.
          - split; [|exact Rx]. split; [split; cbn; intros; [congruence|reflexivity]|]. split; [exact Ax|]. cbn. intros; discriminate.
          - unfold phi. simp_it. rewrite Hdx. change (rterm c G nn (it_reset alt x)) with (rterm c G nn x). unfold phi0 at 1. simp_it. rewrite Hdx.
            destruct (d_pending x) eqn:Epx.
            + pose proof (phi0_active_lb c G clk x HP HG Ux Hdx Epx). unfold round in *. lia.
            + rewrite (phi0_restart c G clk x Hdx Epx). lia. }
        split.
        -- rewrite Forall_forall. intros y Hy. apply in_map_iff in Hy. destruct Hy as (x & <- & Hx). apply Hg; exact Hx.
        -- pose proof (Phi_map c G nn clk g (TX c G) R1 l1 (fun x Hx => proj2 (Hg x Hx))) as HM. rewrite Hl1 in HM.
           assert (0 <= (nn - Z.of_nat (length (ds_items s))) * TX c G) by (apply Z.mul_nonneg_nonneg; lia). lia.
  - cbn [fst ds_items]. apply F0; [exact Fc1|lia].
Qed.

(* ------------------------------------------------------------------ driven runs *)
(** the events after [EStart]: answers at any moment, timer firings at wf instants of a monotone clock, never more than [G]
    microseconds after the previous firing (or after the start) *)
Fixpoint driven (G clk : Z) (es : list event) : Prop :=
  match es with
  | [] => True
  | ETick now _ :: r => wf_now now /\ clk <= us now <= clk + G /\ driven G (us now) r
  | EAnswer _ _ _ :: r => driven G clk r
  | EStart _ _ :: _ => False
  end.
Fixpoint last_tick (clk : Z) (es : list event) : Z :=
  match es with [] => clk | ETick now _ :: r => last_tick (us now) r | _ :: r => last_tick clk r end.
Fixpoint redirects (es : list event) : Z :=
  match es with [] => 0 | EAnswer _ _ (KAlternate _) :: r => 1 + redirects r | _ :: r => redirects r end.
Fixpoint ticks (es : list event) : Z :=
  match es with [] => 0 | ETick _ _ :: r => 1 + ticks r | _ :: r => ticks r end.

(** completion as the code leaves it: list freed, streams no longer gathering, timer source destroyed *)
Definition completed (s : dstate) : Prop := ds_items s = [] /\ ds_gathering s = false /\ ds_timer s = false.

Lemma run_completed c G : forall es s clk, completed s -> driven G clk es -> fst (run c s es) = s.
Proof.
  induction es as [|e r IH]; intros s clk Hc Hd; [reflexivity|]. rewrite run_cons. cbn [fst]. destruct Hc as (C1 & C2 & C3).
  destruct e as [now fails|now fails|i t k]; cbn [driven] in Hd; [destruct Hd| |].
  - destruct Hd as (_ & _ & Hd). cbn [step]. rewrite C3. cbn [fst]. apply (IH s (us now)); [repeat split; auto|exact Hd].
  - cbn [step]. unfold answer. rewrite C1. destruct i; cbn [nth_error fst]; apply (IH s clk); try (repeat split; auto); exact Hd.
Qed.

Lemma inv_sok c clk l : Forall (inv2 c clk) l -> Forall sok l.
Proof. apply Forall_impl. intros x ((H & _) & _). exact H. Qed.

Lemma Phi_nonneg c G nn now clk l : params_ok (c_T c) (c_N c) -> 0 <= G -> 0 <= nn -> Forall (inv2 c clk) l -> 0 <= Phi c G nn now l.
Proof.
  intros HP HG Hn H. induction H as [|x r Hx Hr IH]; cbn [Phi]; [lia|]. pose proof (phi_nonneg c G nn now x clk HP HG Hn Hx). lia.
Qed.

(** the heart of (1): while the timer is armed, potential + elapsed time never exceeds the potential at the start - whatever the
    answers, alternate-server ones included *)
Lemma run_phi c G : params_ok (c_T c) (c_N c) -> 0 <= G -> forall es s clk,
  Forall (inv2 c clk) (ds_items s) -> ds_timer s = true -> driven G clk es ->
  let nn := Z.of_nat (length (ds_items s)) in
  let s' := fst (run c s es) in
  completed s' \/
  (ds_timer s' = true /\ Forall (inv2 c (last_tick clk es)) (ds_items s') /\
   Phi c G nn (last_tick clk es) (ds_items s') + (last_tick clk es - clk) <= Phi c G nn clk (ds_items s)).
Proof.
  intros HP HG. induction es as [|e r IH]; intros s clk Hl Ht Hd; cbn zeta.
  - right. cbn [run fst last_tick]. repeat split; auto. lia.
  - rewrite run_cons. cbn [fst]. destruct e as [now fails|now fails|i t k]; cbn [driven] in Hd; [destruct Hd| |].
    + (* the timer fires *)
      destruct Hd as (Hn & Hgap & Hd). cbn [step last_tick]. rewrite Ht.
      destruct (do_tick_unfold c now fails s) as (l' & nd & st & o & El & ->).
      pose proof (tick_loop_nd_nonneg_aux c now fails _ _ _ _ _ _ _ El) as Hnd.
      destruct (tick_loop_struct c now fails _ _ _ _ _ _ _ (inv_sok c clk _ Hl) El) as (_ & Hlen & _).
      destruct (tick_loop_phi c G (Z.of_nat (length (ds_items s))) clk now fails HP HG ltac:(lia) Hn ltac:(lia) ltac:(lia) _ _ _ _ _ _ _ Hl El) as (P1 & P2 & P3).
      destruct (nd =? 0) eqn:End; cbn [fst snd].
      * left. erewrite run_completed; [| |exact Hd]; cbn [set_timer ds_items ds_gathering ds_timer]; repeat split; reflexivity.
      * specialize (P3 ltac:(lia)).
        set (s1 := {| ds_items := l'; ds_unsched := Z.max 0 (ds_unsched s - st); ds_nid := ds_nid s + Z.of_nat (length (ds_items s)); ds_gathering := ds_gathering s; ds_timer := ds_timer s |}) in *.
        destruct (IH s1 (us now) P1 Ht Hd) as [Hc|(I1 & I2 & I3)]; [left; exact Hc|]. right. cbn zeta in *.
        split; [exact I1|]. split; [exact I2|]. cbn [s1 ds_items] in I3. rewrite Hlen in I3. lia.
    + (* an answer arrives *)
      cbn [step last_tick]. pose proof (answer_struct c i t k s (inv_sok c clk _ Hl)) as (_ & A2 & A3 & _). cbn zeta in *.
      pose proof (answer_phi c G (Z.of_nat (length (ds_items s))) clk i t k s HP HG ltac:(lia) Hl) as (B1 & B2). cbn zeta in *.
      set (s1 := fst (answer c i t k s)) in *.
      destruct (IH s1 clk B1 ltac:(congruence) Hd) as [Hc|(I1 & I2 & I3)]; [left; exact Hc|]. right. cbn zeta in *.
      split; [exact I1|]. split; [exact I2|]. rewrite A2 in I3. lia.
Qed.

(* ------------------------------------------------------------------ (1) the theorem *)
(** T(n), microseconds: every item may run (A + 1) rounds of its own (first request + A re-authentications) and follow MR redirections,
    each of which can re-queue every item of the list for one more transaction *)
Definition bound (c : dcfg) (G n : Z) : Z := n * ((c_maxauth c + 1) * round c G + c_maxredir c * (n * TX c G)).

Definition fresh (it : item) : Prop := exists ty g sv, it = fresh_item ty g sv.

Lemma inv_fresh c clk it : 0 <= c_maxauth c -> 0 <= c_maxredir c -> fresh it -> inv2 c clk it.
Proof. intros HA HR (ty & g & sv & ->). split; [|cbn; lia]. split; [apply sok_fresh|]. split; [cbn; lia|]. cbn. intros; discriminate. Qed.

Lemma Phi_fresh c G nn clk l : Forall fresh l -> Phi c G nn clk l = Z.of_nat (length l) * ((c_maxauth c + 1) * round c G + c_maxredir c * (nn * TX c G)).
Proof.
  intros H. induction H as [|x r (ty & g & sv & ->) Hr IH]; cbn [Phi length]; [lia|]. rewrite IH.
  unfold phi, rterm, phi0. cbn [fresh_item d_done d_pending d_auth d_redir negb]. lia.
Qed.

Theorem terminates c G l0 t0 fails es :
  params_ok (c_T c) (c_N c) -> 0 <= c_maxauth c -> 0 <= c_maxredir c -> 0 <= G -> wf_now t0 -> Forall fresh l0 -> driven G (us t0) es ->
  bound c G (Z.of_nat (length l0)) < last_tick (us t0) es - us t0 ->
  completed (fst (run c (init l0) (EStart t0 fails :: es))) /\ n_gd (snd (run c (init l0) (EStart t0 fails :: es))) = 1.
Proof.
  intros HP HA HR HG Hn Hf Hd Hb.
  assert (Hinv : Forall (inv2 c (us t0)) l0) by (eapply Forall_impl; [|exact Hf]; intros x Hx; apply inv_fresh; auto).
  assert (Hc : completed (fst (run c (init l0) (EStart t0 fails :: es)))).
  { rewrite run_cons. cbn [fst step init ds_unsched ds_timer negb].
    destruct (0 <? Z.of_nat (length l0)) eqn:E0.
    - fold (init l0).
      destruct (do_tick_unfold c t0 fails (init l0)) as (l' & nd & st & o & El & ->). cbn [init ds_items ds_nid ds_unsched ds_gathering ds_timer] in *.
      pose proof (tick_loop_nd_nonneg_aux c t0 fails _ _ _ _ _ _ _ El) as Hnd.
      destruct (tick_loop_struct c t0 fails _ _ _ _ _ _ _ (inv_sok c _ _ Hinv) El) as (_ & Hlen & _).
      destruct (tick_loop_phi c G (Z.of_nat (length l0)) (us t0) t0 fails HP HG ltac:(lia) Hn ltac:(lia) ltac:(lia) _ _ _ _ _ _ _ Hinv El) as (P1 & P2 & _).
      destruct (nd =? 0) eqn:End; cbn [fst snd set_timer ds_items ds_unsched ds_nid ds_gathering ds_timer].
      + erewrite run_completed; [| |exact Hd]; repeat split; reflexivity.
      + match goal with |- completed (fst (run c ?s1 es)) => destruct (run_phi c G HP HG es s1 (us t0) P1 eq_refl Hd) as [Hc|(I1 & I2 & I3)] end; [exact Hc|exfalso].
        cbn zeta in *. cbn [set_timer ds_items] in *. rewrite Hlen in I3.
        pose proof (Phi_nonneg c G (Z.of_nat (length l0)) (last_tick (us t0) es) _ _ HP HG ltac:(lia) I2) as NN.
        rewrite (Phi_fresh c G _ (us t0) l0 Hf) in P2. unfold bound in Hb. lia.
    - assert (l0 = []) by (destruct l0; [reflexivity|cbn [length] in E0; lia]). subst l0.
      erewrite run_completed; [| |exact Hd]; repeat split; reflexivity. }
  split; [exact Hc|].
  rewrite (gathering_done_count c _ (init l0) (inv_sok c _ _ Hinv)). destruct Hc as (_ & -> & _). reflexivity.
Qed.

(** the same in ticks: when the timer also never fires EARLIER than [Ta] after the previous firing (a GLib timeout source of
    interval Ta), more than T(n)/Ta firings cannot happen without completion *)
Fixpoint driven2 (Ta G clk : Z) (es : list event) : Prop :=
  match es with
  | [] => True
  | ETick now _ :: r => wf_now now /\ clk + Ta <= us now <= clk + G /\ driven2 Ta G (us now) r
  | EAnswer _ _ _ :: r => driven2 Ta G clk r
  | EStart _ _ :: _ => False
  end.

Lemma driven2_driven Ta G : 0 <= Ta -> forall es clk, driven2 Ta G clk es -> driven G clk es /\ Ta * ticks es <= last_tick clk es - clk.
Proof.
  intros HT. induction es as [|[now f|now f|i t k] r IH]; intros clk H; cbn [driven2 driven ticks last_tick] in *.
  - split; [exact I|lia].
  - destruct H.
  - destruct H as (Hn & Hg & H). destruct (IH (us now) H) as [I1 I2]. split; [split; [exact Hn|split; [lia|exact I1]]|lia].
  - apply IH; exact H.
Qed.

Theorem terminates_ticks c Ta G l0 t0 fails es :
  params_ok (c_T c) (c_N c) -> 0 <= c_maxauth c -> 0 <= c_maxredir c -> 0 <= Ta -> 0 <= G -> wf_now t0 -> Forall fresh l0 -> driven2 Ta G (us t0) es ->
  bound c G (Z.of_nat (length l0)) < Ta * ticks es ->
  completed (fst (run c (init l0) (EStart t0 fails :: es))) /\ n_gd (snd (run c (init l0) (EStart t0 fails :: es))) = 1.
Proof.
  intros HP HA HR HT HG Hn Hf Hd Hb. destruct (driven2_driven Ta G HT es (us t0) Hd) as [D1 D2].
  apply (terminates c G l0 t0 fails es); auto. lia.
Qed.

Corollary open_only_within_bound c G l0 t0 fails es :
  params_ok (c_T c) (c_N c) -> 0 <= c_maxauth c -> 0 <= c_maxredir c -> 0 <= G -> wf_now t0 -> Forall fresh l0 -> driven G (us t0) es ->
  ds_timer (fst (run c (init l0) (EStart t0 fails :: es))) = true \/ ds_gathering (fst (run c (init l0) (EStart t0 fails :: es))) = true ->
  last_tick (us t0) es - us t0 <= bound c G (Z.of_nat (length l0)).
Proof.
  intros HP HA HR HG Hn Hf Hd Ho.
  destruct (Z_le_gt_dec (last_tick (us t0) es - us t0) (bound c G (Z.of_nat (length l0)))) as [H|H]; [exact H|exfalso].
  destruct (terminates c G l0 t0 fails es HP HA HR HG Hn Hf Hd ltac:(lia)) as ((_ & C2 & C3) & _). destruct Ho; congruence.
Qed.

(** the bound spelled out for the default limit of 3 transmissions: one transaction = 4 x RTO + 3 x (1 ms + G) *)
Lemma TX_three c G : c_N c = 3 -> 1 <= c_T c -> TX c G = 4000 * c_T c + 3 * (1000 + G).
Proof.
  intros HN HT. unfold TX, Srem. rewrite HN. change (Z.to_nat (nmax 3 - 0)) with 3%nat. cbn [Sfrom]. unfold Wk. rewrite HN.
  destruct (wait_examples (c_T c) HT) as (W1 & W2 & W3 & _). change (0 + 1) with 1. change (1 + 1) with 2. change (2 + 1) with 3. rewrite W1, W2, W3. lia.
Qed.

Lemma bound_three c G n : c_N c = 3 -> 1 <= c_T c ->
  bound c G n = n * ((c_maxauth c + 1) * (G + 4000 * c_T c + 3 * (1000 + G)) + c_maxredir c * (n * (4000 * c_T c + 3 * (1000 + G)))).
Proof. intros HN HT. unfold bound, round. rewrite (TX_three c G HN HT). lia. Qed.

(* ------------------------------------------------------------------ completion only when every item is done *)
Theorem completion_only_when_all_done c s e : Forall sok (ds_items s) -> In EvGatheringDone (snd (step c s e)) ->
  ds_gathering s = true /\ ds_gathering (fst (step c s e)) = false /\
  ((exists now fails, e = EStart now fails /\ ds_unsched s <= 0 /\ ds_timer s = false) \/
   (exists now fails l' st o', (e = EStart now fails \/ e = ETick now fails) /\
      tick_loop c now fails 0 (ds_nid s) (ds_items s) = (l', 0, st, o') /\ all_done l' /\ ds_items (fst (step c s e)) = [])).
Proof.
  intros Hs Hin. destruct (sf_gd_when _ _ _ _ _ (step_struct c s e Hs) Hin) as (A & B & _ & D). auto.
Qed.

(** from [init l] with l <> [] the counter is positive, so the first disjunct (nothing to discover) is the case l = [] only *)
Lemma init_sok l : Forall fresh l -> Forall sok (ds_items (init l)).
Proof. intros H. cbn. eapply Forall_impl; [|exact H]. intros x (ty & g & sv & ->). apply sok_fresh. Qed.

(* ------------------------------------------------------------------ concrete runs *)
(** one server-reflexive discovery; the server (and every server it names) answers each Binding request at once with
    300 + ALTERNATE-SERVER; the timer fires every 20 ms.  [k] rounds. *)
Definition cfg_default : dcfg := {| c_T := 500; c_N := 3; c_maxauth := 5; c_maxredir := 5 |}.
Definition at_ms (ms : Z) : tv := {| sec := 100 + ms / 1000; usec := (ms mod 1000) * 1000 |}.
(** an adaptive adversary: before every timer firing it looks at the state and injects the answers [pol] chooses;
    firings every 20 ms ([k] of them) *)
Fixpoint adapt (c : dcfg) (pol : dstate -> list event) (k : nat) (j : Z) (s : dstate) : list event :=
  match k with
  | O => []
  | S k' => let ans := pol s in let tk := ETick (at_ms (20 * (j + 1))) [] in
            ans ++ tk :: adapt c pol k' (j + 1) (fst (step c (fst (run c s ans)) tk))
  end.
Definition adversary (c : dcfg) (l : list item) (pol : dstate -> list event) (k : nat) : list event :=
  adapt c pol k 0 (fst (step c (init l) (EStart (at_ms 0) []))).
Definition answer_cur (i : nat) (k : kind) (s : dstate) : list event :=
  match nth_error (ds_items s) i with Some it => [EAnswer i (d_tid it) k] | None => [] end.

Fixpoint drivenb (G clk : Z) (es : list event) : bool :=
  match es with
  | [] => true
  | ETick now _ :: r => (0 <=? usec now) && (usec now <? 1000000) && (clk <=? us now) && (us now <=? clk + G) && drivenb G (us now) r
  | EAnswer _ _ _ :: r => drivenb G clk r
  | EStart _ _ :: _ => false
  end.
Lemma drivenb_ok G : forall es clk, drivenb G clk es = true -> driven G clk es.
Proof.
  induction es as [|[now f|now f|i t k] r IH]; intros clk H; cbn [drivenb driven] in *; auto; [discriminate|].
  apply andb_prop in H. destruct H as [H H5]. apply andb_prop in H. destruct H as [H H4]. apply andb_prop in H. destruct H as [H H3]. apply andb_prop in H. destruct H as [H1 H2].
  split; [unfold wf_now; lia|]. split; [lia|]. apply IH; exact H5.
Qed.

(** regression of the endless-redirect defect (fixed by /repo 1878027): one server-reflexive discovery whose server (and every server it
    names) answers each Binding request at once with 300 + ALTERNATE-SERVER.  Five redirections are followed, the sixth answer ends
    the item: 6 requests, completion announced once, by the timer firing at 120 ms *)
Definition redirect_es (k : nat) : list event := adversary cfg_default [fresh_item Srflx 1 1] (answer_cur 0 (KAlternate 2)) k.

Lemma example_endless_redirect_server :
  (let r := run cfg_default (init [fresh_item Srflx 1 1]) (EStart (at_ms 0) [] :: redirect_es 5) in ds_gathering (fst r) = true /\ n_gd (snd r) = 0) /\
  (let r := run cfg_default (init [fresh_item Srflx 1 1]) (EStart (at_ms 0) [] :: redirect_es 6) in completed (fst r) /\ n_gd (snd r) = 1 /\ n_send 0 (snd r) = 6 /\ n_cand 0 (snd r) = 0) /\
  (let r := run cfg_default (init [fresh_item Srflx 1 1]) (EStart (at_ms 0) [] :: redirect_es 1200) in
   driven 20000 (us (at_ms 0)) (redirect_es 1200) /\ bound cfg_default 20000 1 = 22813000 /\ last_tick (us (at_ms 0)) (redirect_es 1200) - us (at_ms 0) = 24000000 /\
   completed (fst r) /\ n_gd (snd r) = 1 /\ n_send 0 (snd r) = 6).
Proof.
  cbn zeta. split; [split; vm_compute; reflexivity|]. split; [repeat split; vm_compute; reflexivity|].
  split; [apply drivenb_ok; vm_compute; reflexivity|]. repeat split; vm_compute; reflexivity.
Qed.

(* ------------------------------------------------------------------ the hypotheses of (1) are met by concrete runs *)
Definition l3 : list item := [fresh_item Srflx 1 1; fresh_item Relay 1 2; fresh_item Relay 1 2].
(** every request of the two TURN allocations is answered twice (duplicate) with 438 and a realm, the Binding request gets a success
    answer for a transaction id never used and a garbage-class answer *)
Definition pol_hostile (s : dstate) : list event :=
  answer_cur 1 (KError 438 1) s ++ answer_cur 1 (KError 438 1) s ++ answer_cur 2 (KError 438 2) s ++ [EAnswer 0 (-7) KSuccess; EAnswer 0 (-7) KInvalid].
Definition es_hostile := adversary cfg_default l3 pol_hostile 6600.

Lemma example_hostile :
  let r := run cfg_default (init l3) (EStart (at_ms 0) [] :: es_hostile) in
  Forall fresh l3 /\ driven 20000 (us (at_ms 0)) es_hostile /\
  bound cfg_default 20000 3 = 130329000 /\ last_tick (us (at_ms 0)) es_hostile - us (at_ms 0) = 132000000 /\
  completed (fst r) /\ n_gd (snd r) = 1 /\ n_cand 0 (snd r) = 0 /\ n_cand 1 (snd r) = 0 /\ n_cand 2 (snd r) = 0 /\
  n_send 0 (snd r) = 3 /\ n_send 1 (snd r) = 6 /\ n_send 2 (snd r) = 6.
Proof.
  cbn zeta. split; [repeat constructor; eexists _, _, _; reflexivity|]. split; [apply drivenb_ok; vm_compute; reflexivity|].
  repeat split; vm_compute; reflexivity.
Qed.

Definition l2 : list item := [fresh_item Srflx 1 1; fresh_item Relay 1 2].
(** the STUN server redirects three times (servers 2, 3, 4) and the last one answers; the TURN server asks for credentials (401 with a
    realm) and then allocates *)
Definition pol_chain (s : dstate) : list event :=
  match nth_error (ds_items s) 0 with
  | Some it => if d_srv it <? 4 then answer_cur 0 (KAlternate (d_srv it + 1)) s else answer_cur 0 KSuccess s
  | None => [] end ++
  match nth_error (ds_items s) 1 with
  | Some it => if d_realm it =? 0 then answer_cur 1 (KError 401 1) s else answer_cur 1 KSuccess s
  | None => [] end.
Definition es_chain := adversary cfg_default l2 pol_chain 3400.

Lemma example_chain :
  let r := run cfg_default (init l2) (EStart (at_ms 0) [] :: es_chain) in
  Forall fresh l2 /\ driven 20000 (us (at_ms 0)) es_chain /\
  bound cfg_default 20000 2 = 66256000 /\ last_tick (us (at_ms 0)) es_chain - us (at_ms 0) = 68000000 /\
  completed (fst r) /\ n_gd (snd r) = 1 /\ n_cand 0 (snd r) = 1 /\ n_cand 1 (snd r) = 1 /\ n_send 0 (snd r) = 4 /\ n_send 1 (snd r) = 2.
Proof.
  cbn zeta. split; [repeat constructor; eexists _, _, _; reflexivity|]. split; [apply drivenb_ok; vm_compute; reflexivity|].
  repeat split; vm_compute; reflexivity.
Qed.

(** silence: both transactions time out after 4 x RTO; completion is announced by the tick at 2.02 s, not by the one before *)
Definition es_silent (k : nat) := adversary cfg_default l2 (fun _ => []) k.
Lemma example_silent :
  (let r := run cfg_default (init l2) (EStart (at_ms 0) [] :: es_silent 100) in ds_gathering (fst r) = true /\ n_gd (snd r) = 0) /\
  (let r := run cfg_default (init l2) (EStart (at_ms 0) [] :: es_silent 101) in completed (fst r) /\ n_gd (snd r) = 1 /\ n_send 0 (snd r) = 3 /\ n_send 1 (snd r) = 3) /\
  (let r := run cfg_default (init l2) (EStart (at_ms 0) [] :: es_silent 1300) in completed (fst r) /\ n_gd (snd r) = 1).
Proof. cbn zeta. repeat split; vm_compute; reflexivity. Qed.

(* ------------------------------------------------------------------ statements as used by Props/Properties_C20.v *)
(** (3) a candidate comes only from a success answer that names the item's current transaction, which the item's StunAgent still
    remembers, while the request buffer is there and the item is not done; the item is done afterwards *)
Theorem candidate_only_from_matching_success c s e i : Forall sok (ds_items s) -> In (EvCand i) (snd (step c s e)) ->
  exists t it, e = EAnswer i t KSuccess /\ nth_error (ds_items s) i = Some it /\
    d_buf it = true /\ d_live it = true /\ d_tid it = t /\ d_done it = false /\ d_pending it = true /\
    nth_error (ds_items (fst (step c s e))) i = Some (it_finish it) /\ snd (step c s e) = [EvCand i].
Proof.
  intros Hs Hin. pose proof (step_struct c s e Hs) as F. destruct (sf_cand _ _ _ _ _ F i Hin) as (Ho & t & it & He & Hi & Ha & Hd & Hi').
  assert (Hit : sok it). { rewrite Forall_forall in Hs. apply Hs. eapply nth_error_In; eauto. }
  destruct (accepts_active it t Hit Ha) as (_ & Hp & Hb & Hl & Ht).
  exists t, it. repeat split; auto.
Qed.

(** every state reachable from the start of a gathering run, under any events at all *)
Lemma reachable_sok c l0 es : Forall fresh l0 -> Forall sok (ds_items (fst (run c (init l0) es))).
Proof. intros H. apply run_sok. apply init_sok. exact H. Qed.

Theorem announced_at_most_once c l0 es : Forall fresh l0 ->
  n_gd (snd (run c (init l0) es)) = 1 - b2z (ds_gathering (fst (run c (init l0) es))) /\ 0 <= n_gd (snd (run c (init l0) es)) <= 1.
Proof.
  intros H. split; [rewrite (gathering_done_count c es (init l0) (init_sok l0 H)); reflexivity|apply gathering_done_at_most_once; apply init_sok; exact H].
Qed.

Theorem one_candidate_per_item c l0 es i : Forall fresh l0 -> 0 <= n_cand i (snd (run c (init l0) es)) <= 1.
Proof.
  intros H. split; [apply count_nonneg|]. pose proof (candidates_at_most_one c i es (init l0) (init_sok l0 H)). pose proof (cb_range (init l0) i). lia.
Qed.


(* ------------------------------------------------------------------ why the limit is needed: the time grows with it, without end *)
(** the code as it was before /repo 1878027 is this model with no limit.  With the limit set to k (any k) the endlessly redirecting server
    keeps the discovery open for k timer periods: the MR term of T(n) is not an artefact, and with the limit removed no bound exists *)
Definition cfg_limit (k : Z) : dcfg := {| c_T := 500; c_N := 3; c_maxauth := 5; c_maxredir := k |}.

Lemma tick_item_start c now tid it : d_pending it = false -> tick_item c now true tid it = TR (it_start c now tid it) 1 true true true.
Proof. intros H. unfold tick_item. rewrite H. reflexivity. Qed.

Definition redirecting (j : Z) (s : dstate) : Prop :=
  exists it, ds_items s = [it] /\ d_type it = Srflx /\ d_pending it = true /\ d_done it = false /\ d_buf it = true /\ d_live it = true /\
             d_redir it = j /\ ds_timer s = true /\ ds_gathering s = true.

Lemma redirect_round k j now s : j < k -> redirecting j s ->
  exists t, answer_cur 0 (KAlternate 2) s = [EAnswer 0 t (KAlternate 2)] /\
            redirecting (j + 1) (fst (step (cfg_limit k) (fst (step (cfg_limit k) s (EAnswer 0 t (KAlternate 2)))) (ETick now []))).
Proof.
  intros Hjk (it & Hi & Hty & Hp & Hd & Hb & Hl & Hr & Ht & Hg). unfold answer_cur. rewrite Hi. cbn [nth_error]. eexists. split; [reflexivity|].
  cbn [step]. unfold answer. rewrite Hi. cbn [nth_error]. unfold accepts. rewrite Hb, Hl, Z.eqb_refl. cbn [andb]. rewrite Hty.
  cbn [cfg_limit c_maxredir]. assert (E : (d_redir it <? k) = true) by lia. rewrite E.
  cbn [fst ds_timer ds_items upd_nth]. rewrite Ht. unfold do_tick. cbn [ds_items ds_nid tick_loop existsb negb].
  rewrite (tick_item_start (cfg_limit k) now (ds_nid s + Z.of_nat 0) (it_redirect 2 it) eq_refl). unfold TR. cbn [r_paced r_item r_nd r_started r_sent].
  cbn [Z.eqb fst snd ds_items ds_timer ds_gathering]. change (1 =? 0) with false. cbn [fst snd].
  eexists. split; [reflexivity|]. cbn [it_start it_redirect mk d_type d_pending d_done d_buf d_live d_redir ds_timer ds_gathering]. repeat split; auto. lia.
Qed.

Lemma us_at_ms m : 0 <= m -> us (at_ms m) = 100000000 + 1000 * m /\ wf_now (at_ms m).
Proof. intros H. unfold us, at_ms, wf_now. cbn [sec usec]. lia. Qed.

Lemma run_single c s e : fst (run c s [e]) = fst (step c s e).
Proof. rewrite run_cons. reflexivity. Qed.

Lemma adapt_redirect K : forall k j s, 0 <= j -> j + Z.of_nat k <= K -> redirecting j s ->
  let es := adapt (cfg_limit K) (answer_cur 0 (KAlternate 2)) k j s in
  driven 20000 (us (at_ms (20 * j))) es /\ last_tick (us (at_ms (20 * j))) es = us (at_ms (20 * (j + Z.of_nat k))) /\
  redirecting (j + Z.of_nat k) (fst (run (cfg_limit K) s es)).
Proof.
  induction k as [|k IH]; intros j s Hj HK Hs; cbn zeta.
  - cbn [adapt driven last_tick run fst]. replace (j + Z.of_nat 0) with j by lia. auto.
  - cbn [adapt]. destruct (redirect_round K j (at_ms (20 * (j + 1))) s ltac:(lia) Hs) as (t & Ha & Hr). rewrite Ha. cbn [app].
    rewrite run_single. set (s2 := fst (step (cfg_limit K) (fst (step (cfg_limit K) s (EAnswer 0 t (KAlternate 2)))) (ETick (at_ms (20 * (j + 1))) []))) in *.
    destruct (IH (j + 1) s2 ltac:(lia) ltac:(lia) Hr) as (I1 & I2 & I3). cbn zeta in *.
    destruct (us_at_ms (20 * j) ltac:(lia)) as [U1 _]. destruct (us_at_ms (20 * (j + 1)) ltac:(lia)) as [U2 W2].
    cbn [driven last_tick]. split; [|split].
    + split; [exact W2|]. split; [lia|exact I1].
    + rewrite I2. f_equal. f_equal. lia.
    + rewrite run_cons. cbn [fst]. rewrite run_cons. cbn [fst]. replace (j + Z.of_nat (S k)) with (j + 1 + Z.of_nat k) by lia. exact I3.
Qed.

Theorem gathering_time_grows_with_redirect_limit : forall k : nat,
  let c := cfg_limit (Z.of_nat k) in
  let es := adversary c [fresh_item Srflx 1 1] (answer_cur 0 (KAlternate 2)) k in
  let r := run c (init [fresh_item Srflx 1 1]) (EStart (at_ms 0) [] :: es) in
  driven 20000 (us (at_ms 0)) es /\ last_tick (us (at_ms 0)) es - us (at_ms 0) = 20000 * Z.of_nat k /\
  ds_gathering (fst r) = true /\ ds_timer (fst r) = true /\ n_gd (snd r) = 0.
Proof.
  intros k. cbn zeta. unfold adversary.
  set (s1 := fst (step (cfg_limit (Z.of_nat k)) (init [fresh_item Srflx 1 1]) (EStart (at_ms 0) []))).
  assert (H1 : redirecting 0 s1). { unfold s1, redirecting. vm_compute. eexists. repeat split; reflexivity. }
  destruct (adapt_redirect (Z.of_nat k) k 0 s1 ltac:(lia) ltac:(lia) H1) as (A1 & A2 & A3). cbn zeta in *. change (20 * 0) with 0 in *.
  destruct (us_at_ms 0 ltac:(lia)) as [U0 _]. destruct (us_at_ms (20 * (0 + Z.of_nat k)) ltac:(lia)) as [Uk _].
  split; [exact A1|]. split; [rewrite A2; lia|].
  set (es := adapt (cfg_limit (Z.of_nat k)) (answer_cur 0 (KAlternate 2)) k 0 s1) in *.
  assert (Hg : ds_gathering (fst (run (cfg_limit (Z.of_nat k)) (init [fresh_item Srflx 1 1]) (EStart (at_ms 0) [] :: es))) = true /\
               ds_timer (fst (run (cfg_limit (Z.of_nat k)) (init [fresh_item Srflx 1 1]) (EStart (at_ms 0) [] :: es))) = true).
  { rewrite run_cons. cbn [fst]. fold s1. destruct A3 as (it & _ & _ & _ & _ & _ & _ & _ & T & G). auto. }
  destruct Hg as [Hg Ht]. split; [exact Hg|]. split; [exact Ht|].
  assert (Hf : Forall fresh [fresh_item Srflx 1 1]) by (repeat constructor; eexists _, _, _; reflexivity).
  destruct (announced_at_most_once (cfg_limit (Z.of_nat k)) _ (EStart (at_ms 0) [] :: es) Hf) as [E _].
  rewrite E, Hg. reflexivity.
Qed.
