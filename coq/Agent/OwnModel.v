(** C12 — the reference graph of a component: which object points to which, and what the removal functions erase.
    Hand model written statement for statement after agent/component.c (nice_component_remove_socket,
    nice_component_detach_socket, nice_component_clear_selected_pair, nice_component_close,
    nice_component_free_socket_sources), agent/discovery.c (discovery_prune_socket, discovery_prune_stream, refresh_free,
    refresh_prune_socket, refresh_prune_candidate), agent/conncheck.c (conn_check_prune_socket, candidate_check_pair_free,
    conn_check_update_check_list_state_for_ready, priv_prune_pending_checks, conn_check_prune_stream), agent/agent.c
    (agent_signal_component_state_change; agent_remove_local_candidate is empty without GUPnP) and socket/socket.c
    (nice_socket_is_based_on, nice_socket_free).  Tied to the real functions by harness/own_h.c (compared inside Coq).

    Pointers are ids.  The four [heap] lists hold the objects that are currently allocated; "free x" removes x from its heap; reading
    a field through an id that is not on the heap is a use after free and sets [fault] to 1 (a failed g_assert sets it to 2, a NULL
    dereference to 3); the first fault sticks.  No proofs in this file.

    Not modelled (the harness keeps these empty): CandidateCheckPair.discovered_pair/succeeded_pair, STUN transactions of a pair,
    refreshes that are being disposed of asynchronously (destroy_cb), GSources, component->valid_candidates (copies whose sockptr
    is never read), restart_candidate.  The stream of the component is always found (agent_find_stream != NULL). *)
From Coq Require Import ZArith List Bool.
Import ListNotations.
Local Open Scope Z_scope.

(** NiceSocket; [sk_base] = UdpTurnPriv.base_socket of a TURN socket layered on another socket of the component *)
Record sock := { sk_id : Z; sk_base : option Z }.
(** NiceCandidateImpl; [c_sock] = sockptr (NULL for remote candidates that were signalled, set for peer-reflexive ones) *)
Record cand := { c_id : Z; c_sock : option Z; c_relay : bool }.
(** CandidateCheckPair; states WAITING 1, IN_PROGRESS 2, SUCCEEDED 3, FAILED 4, FROZEN 5, DISCOVERED 6 *)
Record pair := { p_id : Z; p_comp : Z; p_local : Z; p_remote : Z; p_sock : Z; p_state : Z; p_nominated : bool; p_valid : bool; p_prio : Z }.
(** CandidateRefresh *)
Record refr := { r_id : Z; r_sock : Z; r_cand : Z }.
(** IncomingCheck (owned by component->incoming_checks), CandidateDiscovery (owned by agent->discovery_list) *)
Record icheck := { i_id : Z; i_sock : Z }.
Record disc := { d_id : Z; d_sock : Z }.

Record state := mkState {
  socks : list sock;
  cands : list cand;
  pairs : list pair;
  refrs : list refr;
  lcands : list Z;
  rcands : list Z;
  sources : list Z;
  ichecks : list icheck;
  sel_l : option Z;
  sel_r : option Z;
  sel_prio : Z;
  turn_cand : option Z;
  clist : list Z;
  trig : list Z;
  discs : list disc;
  rlist : list Z;
  pruning : list Z;
  cstate : Z;
  cid : Z;
  fault : Z
}.
Definition set_socks (s : state) (v : list sock) : state := {| socks := v; cands := cands s; pairs := pairs s; refrs := refrs s; lcands := lcands s; rcands := rcands s; sources := sources s; ichecks := ichecks s; sel_l := sel_l s; sel_r := sel_r s; sel_prio := sel_prio s; turn_cand := turn_cand s; clist := clist s; trig := trig s; discs := discs s; rlist := rlist s; pruning := pruning s; cstate := cstate s; cid := cid s; fault := fault s |}.
Definition set_cands (s : state) (v : list cand) : state := {| socks := socks s; cands := v; pairs := pairs s; refrs := refrs s; lcands := lcands s; rcands := rcands s; sources := sources s; ichecks := ichecks s; sel_l := sel_l s; sel_r := sel_r s; sel_prio := sel_prio s; turn_cand := turn_cand s; clist := clist s; trig := trig s; discs := discs s; rlist := rlist s; pruning := pruning s; cstate := cstate s; cid := cid s; fault := fault s |}.
Definition set_pairs (s : state) (v : list pair) : state := {| socks := socks s; cands := cands s; pairs := v; refrs := refrs s; lcands := lcands s; rcands := rcands s; sources := sources s; ichecks := ichecks s; sel_l := sel_l s; sel_r := sel_r s; sel_prio := sel_prio s; turn_cand := turn_cand s; clist := clist s; trig := trig s; discs := discs s; rlist := rlist s; pruning := pruning s; cstate := cstate s; cid := cid s; fault := fault s |}.
Definition set_refrs (s : state) (v : list refr) : state := {| socks := socks s; cands := cands s; pairs := pairs s; refrs := v; lcands := lcands s; rcands := rcands s; sources := sources s; ichecks := ichecks s; sel_l := sel_l s; sel_r := sel_r s; sel_prio := sel_prio s; turn_cand := turn_cand s; clist := clist s; trig := trig s; discs := discs s; rlist := rlist s; pruning := pruning s; cstate := cstate s; cid := cid s; fault := fault s |}.
Definition set_lcands (s : state) (v : list Z) : state := {| socks := socks s; cands := cands s; pairs := pairs s; refrs := refrs s; lcands := v; rcands := rcands s; sources := sources s; ichecks := ichecks s; sel_l := sel_l s; sel_r := sel_r s; sel_prio := sel_prio s; turn_cand := turn_cand s; clist := clist s; trig := trig s; discs := discs s; rlist := rlist s; pruning := pruning s; cstate := cstate s; cid := cid s; fault := fault s |}.
Definition set_rcands (s : state) (v : list Z) : state := {| socks := socks s; cands := cands s; pairs := pairs s; refrs := refrs s; lcands := lcands s; rcands := v; sources := sources s; ichecks := ichecks s; sel_l := sel_l s; sel_r := sel_r s; sel_prio := sel_prio s; turn_cand := turn_cand s; clist := clist s; trig := trig s; discs := discs s; rlist := rlist s; pruning := pruning s; cstate := cstate s; cid := cid s; fault := fault s |}.
Definition set_sources (s : state) (v : list Z) : state := {| socks := socks s; cands := cands s; pairs := pairs s; refrs := refrs s; lcands := lcands s; rcands := rcands s; sources := v; ichecks := ichecks s; sel_l := sel_l s; sel_r := sel_r s; sel_prio := sel_prio s; turn_cand := turn_cand s; clist := clist s; trig := trig s; discs := discs s; rlist := rlist s; pruning := pruning s; cstate := cstate s; cid := cid s; fault := fault s |}.
Definition set_ichecks (s : state) (v : list icheck) : state := {| socks := socks s; cands := cands s; pairs := pairs s; refrs := refrs s; lcands := lcands s; rcands := rcands s; sources := sources s; ichecks := v; sel_l := sel_l s; sel_r := sel_r s; sel_prio := sel_prio s; turn_cand := turn_cand s; clist := clist s; trig := trig s; discs := discs s; rlist := rlist s; pruning := pruning s; cstate := cstate s; cid := cid s; fault := fault s |}.
Definition set_sel_l (s : state) (v : option Z) : state := {| socks := socks s; cands := cands s; pairs := pairs s; refrs := refrs s; lcands := lcands s; rcands := rcands s; sources := sources s; ichecks := ichecks s; sel_l := v; sel_r := sel_r s; sel_prio := sel_prio s; turn_cand := turn_cand s; clist := clist s; trig := trig s; discs := discs s; rlist := rlist s; pruning := pruning s; cstate := cstate s; cid := cid s; fault := fault s |}.
Definition set_sel_r (s : state) (v : option Z) : state := {| socks := socks s; cands := cands s; pairs := pairs s; refrs := refrs s; lcands := lcands s; rcands := rcands s; sources := sources s; ichecks := ichecks s; sel_l := sel_l s; sel_r := v; sel_prio := sel_prio s; turn_cand := turn_cand s; clist := clist s; trig := trig s; discs := discs s; rlist := rlist s; pruning := pruning s; cstate := cstate s; cid := cid s; fault := fault s |}.
Definition set_sel_prio (s : state) (v : Z) : state := {| socks := socks s; cands := cands s; pairs := pairs s; refrs := refrs s; lcands := lcands s; rcands := rcands s; sources := sources s; ichecks := ichecks s; sel_l := sel_l s; sel_r := sel_r s; sel_prio := v; turn_cand := turn_cand s; clist := clist s; trig := trig s; discs := discs s; rlist := rlist s; pruning := pruning s; cstate := cstate s; cid := cid s; fault := fault s |}.
Definition set_turn_cand (s : state) (v : option Z) : state := {| socks := socks s; cands := cands s; pairs := pairs s; refrs := refrs s; lcands := lcands s; rcands := rcands s; sources := sources s; ichecks := ichecks s; sel_l := sel_l s; sel_r := sel_r s; sel_prio := sel_prio s; turn_cand := v; clist := clist s; trig := trig s; discs := discs s; rlist := rlist s; pruning := pruning s; cstate := cstate s; cid := cid s; fault := fault s |}.
Definition set_clist (s : state) (v : list Z) : state := {| socks := socks s; cands := cands s; pairs := pairs s; refrs := refrs s; lcands := lcands s; rcands := rcands s; sources := sources s; ichecks := ichecks s; sel_l := sel_l s; sel_r := sel_r s; sel_prio := sel_prio s; turn_cand := turn_cand s; clist := v; trig := trig s; discs := discs s; rlist := rlist s; pruning := pruning s; cstate := cstate s; cid := cid s; fault := fault s |}.
Definition set_trig (s : state) (v : list Z) : state := {| socks := socks s; cands := cands s; pairs := pairs s; refrs := refrs s; lcands := lcands s; rcands := rcands s; sources := sources s; ichecks := ichecks s; sel_l := sel_l s; sel_r := sel_r s; sel_prio := sel_prio s; turn_cand := turn_cand s; clist := clist s; trig := v; discs := discs s; rlist := rlist s; pruning := pruning s; cstate := cstate s; cid := cid s; fault := fault s |}.
Definition set_discs (s : state) (v : list disc) : state := {| socks := socks s; cands := cands s; pairs := pairs s; refrs := refrs s; lcands := lcands s; rcands := rcands s; sources := sources s; ichecks := ichecks s; sel_l := sel_l s; sel_r := sel_r s; sel_prio := sel_prio s; turn_cand := turn_cand s; clist := clist s; trig := trig s; discs := v; rlist := rlist s; pruning := pruning s; cstate := cstate s; cid := cid s; fault := fault s |}.
Definition set_rlist (s : state) (v : list Z) : state := {| socks := socks s; cands := cands s; pairs := pairs s; refrs := refrs s; lcands := lcands s; rcands := rcands s; sources := sources s; ichecks := ichecks s; sel_l := sel_l s; sel_r := sel_r s; sel_prio := sel_prio s; turn_cand := turn_cand s; clist := clist s; trig := trig s; discs := discs s; rlist := v; pruning := pruning s; cstate := cstate s; cid := cid s; fault := fault s |}.
Definition set_pruning (s : state) (v : list Z) : state := {| socks := socks s; cands := cands s; pairs := pairs s; refrs := refrs s; lcands := lcands s; rcands := rcands s; sources := sources s; ichecks := ichecks s; sel_l := sel_l s; sel_r := sel_r s; sel_prio := sel_prio s; turn_cand := turn_cand s; clist := clist s; trig := trig s; discs := discs s; rlist := rlist s; pruning := v; cstate := cstate s; cid := cid s; fault := fault s |}.
Definition set_cstate (s : state) (v : Z) : state := {| socks := socks s; cands := cands s; pairs := pairs s; refrs := refrs s; lcands := lcands s; rcands := rcands s; sources := sources s; ichecks := ichecks s; sel_l := sel_l s; sel_r := sel_r s; sel_prio := sel_prio s; turn_cand := turn_cand s; clist := clist s; trig := trig s; discs := discs s; rlist := rlist s; pruning := pruning s; cstate := v; cid := cid s; fault := fault s |}.
Definition set_fault (s : state) (v : Z) : state := {| socks := socks s; cands := cands s; pairs := pairs s; refrs := refrs s; lcands := lcands s; rcands := rcands s; sources := sources s; ichecks := ichecks s; sel_l := sel_l s; sel_r := sel_r s; sel_prio := sel_prio s; turn_cand := turn_cand s; clist := clist s; trig := trig s; discs := discs s; rlist := rlist s; pruning := pruning s; cstate := cstate s; cid := cid s; fault := v |}.

(** ---- heap access *)
Definition find_sock (h : list sock) (i : Z) : option sock := find (fun x => sk_id x =? i) h.
Definition find_cand (h : list cand) (i : Z) : option cand := find (fun x => c_id x =? i) h.
Definition find_pair (h : list pair) (i : Z) : option pair := find (fun x => p_id x =? i) h.
Definition find_refr (h : list refr) (i : Z) : option refr := find (fun x => r_id x =? i) h.
Definition flt (s : state) (k : Z) : state := if fault s =? 0 then set_fault s k else s.
Definition memb (x : Z) (l : list Z) : bool := existsb (fun y => y =? x) l.
(** g_slist_remove: the first element equal to [x] *)
Fixpoint remove1 (x : Z) (l : list Z) : list Z := match l with [] => [] | y :: r => if y =? x then r else y :: remove1 x r end.
Definition opt_is (o : option Z) (x : Z) : bool := match o with Some y => y =? x | None => false end.

(** g_slice_free of each kind; freeing what is not allocated is a fault *)
Definition free_sock (s : state) (i : Z) : state :=
  match find_sock (socks s) i with None => flt s 1 | Some _ => set_socks s (filter (fun x => negb (sk_id x =? i)) (socks s)) end.
Definition free_cand (s : state) (i : Z) : state :=
  match find_cand (cands s) i with None => flt s 1 | Some _ => set_cands s (filter (fun x => negb (c_id x =? i)) (cands s)) end.
Definition free_pair (s : state) (i : Z) : state :=
  match find_pair (pairs s) i with None => flt s 1 | Some _ => set_pairs s (filter (fun x => negb (p_id x =? i)) (pairs s)) end.
Definition free_refr (s : state) (i : Z) : state :=
  match find_refr (refrs s) i with None => flt s 1 | Some _ => set_refrs s (filter (fun x => negb (r_id x =? i)) (refrs s)) end.

(** ---- socket/socket.c nice_socket_is_based_on: a plain socket compares pointers, a TURN socket also asks its base socket;
    None = a freed socket was dereferenced on the way.  [fuel] bounds the chain (the heap size is enough). *)
Fixpoint based_on (fuel : nat) (h : list sock) (a b : Z) : option bool :=
  match find_sock h a with
  | None => None
  | Some k =>
      match sk_base k with
      | None => Some (a =? b)
      | Some base => if a =? b then Some true else match fuel with O => Some false | S f => based_on f h base b end
      end
  end.

(** ---- agent/discovery.c *)
Definition discovery_prune_socket (s : state) (sk : Z) : state := set_discs s (filter (fun d => negb (d_sock d =? sk)) (discs s)).
Definition discovery_prune_stream (s : state) : state := set_discs s [].

(** refresh_free: off both lists, then freed (no timers, no destroy_cb in this model) *)
Definition refresh_free (s : state) (r : Z) : state :=
  free_refr (set_pruning (set_rlist s (remove1 r (rlist s))) (remove1 r (pruning s))) r.
(** one pass of "for (i = list; i;) { next = i->next; refresh = i->data; if (test refresh) refresh_free (refresh); i = next; }" *)
Definition refresh_pass (test : refr -> bool) (l : list Z) (s : state) : state :=
  fold_left (fun st r => match find_refr (refrs st) r with None => flt st 1 | Some rf => if test rf then refresh_free st r else st end) l s.
Definition refresh_prune_socket (s : state) (sk : Z) : state :=
  let s1 := refresh_pass (fun rf => r_sock rf =? sk) (rlist s) s in refresh_pass (fun rf => r_sock rf =? sk) (pruning s1) s1.
Definition refresh_prune_candidate (s : state) (c : Z) : state := refresh_pass (fun rf => r_cand rf =? c) (rlist s) s.

(** ---- agent/agent.c agent_signal_component_state_change: DISCONNECTED 0 GATHERING 1 CONNECTING 2 CONNECTED 3 READY 4 FAILED 5 *)
Definition transition_ok (o n : Z) : bool :=
  (n =? 5) || ((o =? 0) && (n =? 1)) || ((o =? 1) && (n =? 2)) || ((o =? 2) && (n =? 3)) || ((o =? 3) && (n =? 4)) ||
  ((o =? 4) && (n =? 3)) || ((o =? 5) && (n =? 2)) || ((o =? 5) && (n =? 1)) || ((o =? 0) && (n =? 2)) || ((o =? 3) && (n =? 2)) || (n =? 1).
Definition signal_state (s : state) (n : Z) : state :=
  if cstate s =? n then s else if transition_ok (cstate s) n then set_cstate s n else flt s 2.

(** ---- agent/conncheck.c *)
(** candidate_check_pair_free: off the triggered-check queue, then freed *)
Definition pair_free (s : state) (p : Z) : state := free_pair (set_trig s (remove1 p (trig s))) p.

(** the shape shared by the two loops that walk stream->conncheck_list and unlink pairs:
    "for (i = list; i;) { p = i->data; next = i->next; ...decide...; i = next; }" where the body either frees the pair and unlinks its
    node, keeps it, or keeps it and takes it off the triggered-check queue.  [a] carries the counters of the C loop.  Only the node of
    the current pair is ever unlinked, so the walk is over a snapshot of the list. *)
Inductive action := AFree | AKeep | AUntrig | AFault.
Definition pair_loop {A} (step : state -> pair -> A -> action * A) (l : list Z) (s : state) (a0 : A) : state * list Z * A :=
  fold_left (fun (acc : state * list Z * A) p =>
     let '(st, kept, a) := acc in
     match find_pair (pairs st) p with
     | None => (flt st 1, kept ++ [p], a)
     | Some pr =>
         let '(act, a') := step st pr a in
         match act with
         | AFree => (pair_free st p, kept, a')
         | AKeep => (st, kept ++ [p], a')
         | AUntrig => (set_trig st (remove1 p (trig st)), kept ++ [p], a')
         | AFault => (flt st 1, kept ++ [p], a')
         end
     end) l (s, [], a0).

(** priv_prune_pending_checks: returns the state and in_progress + triggered_check *)
Definition prune_pending_act (priority : Z) (st : state) (pr : pair) (n : Z) : action * Z :=
  if negb (p_comp pr =? cid st) then (AKeep, n)
  else if memb (p_id pr) (trig st) && negb (p_state pr =? 2) then (if p_prio pr <? priority then (AFree, n) else (AKeep, n + 1))
  else if (p_state pr =? 5) || (p_state pr =? 1) then (AFree, n)
  else if p_state pr =? 2 then (if p_prio pr <? priority then (AUntrig, n) else (AKeep, n + 1))
  else (AKeep, n).
Definition prune_pending_checks (s : state) : state * Z :=
  if sel_prio s >? 0 then
    let '(st, kept, n) := pair_loop (prune_pending_act (sel_prio s)) (clist s) s 0 in (set_clist st kept, n)
  else (flt s 2, 0).      (* g_assert (priority > 0) *)

Definition count_nominated (s : state) : state * Z :=
  fold_left (fun (acc : state * Z) p => let '(st, n) := acc in
     match find_pair (pairs st) p with
     | None => (flt st 1, n)
     | Some pr => if (p_comp pr =? cid st) && p_valid pr && p_nominated pr then (st, n + 1) else (st, n)
     end) (clist s) (s, 0).
Definition update_check_list_state_for_ready (s : state) : state :=
  let '(s1, nominated) := count_nominated s in
  if nominated >? 0 then
    let '(s2, nleft) := prune_pending_checks s1 in
    if nleft =? 0 then
      let s3 := if (cstate s2 <? 2) || (cstate s2 =? 5) then signal_state s2 2 else s2 in
      let s4 := if cstate s3 <? 3 then signal_state s3 3 else s3 in
      signal_state s4 4
    else s2
  else s1.

(** does pair [pr] use socket [sk]?  (p->local->sockptr == sock || p->remote->sockptr == sock || p->sockptr == sock, evaluated left
    to right); None = a freed candidate was read *)
Definition pair_touches (s : state) (pr : pair) (sk : Z) : option bool :=
  match find_cand (cands s) (p_local pr) with
  | None => None
  | Some lc =>
      if opt_is (c_sock lc) sk then Some true
      else match find_cand (cands s) (p_remote pr) with
           | None => None
           | Some rc => Some (opt_is (c_sock rc) sk || (p_sock pr =? sk))
           end
  end.
(** the counters: (pair_failed, p_count, p_nominated) *)
Definition prune_socket_act (sk : Z) (st : state) (pr : pair) (a : bool * Z * Z) : action * (bool * Z * Z) :=
  let '(failed, cnt, nom) := a in
  if negb (p_comp pr =? cid st) then (AKeep, a)
  else match pair_touches st pr sk with
       | None => (AFault, a)
       | Some true => (AFree, (true, cnt, nom))          (* candidate_check_pair_fail; candidate_check_pair_free; delete_link *)
       | Some false => (AKeep, (failed, cnt + 1, if p_nominated pr then nom + 1 else nom))
       end.
Definition conn_check_prune_socket (s : state) (sk : Z) : state :=
  let s0 :=
    match sel_l s with
    | None => s
    | Some l => match find_cand (cands s) l with
                | None => flt s 1
                | Some lc => if opt_is (c_sock lc) sk then
                               (if cstate s =? 4 then signal_state s 5 else if cstate s =? 3 then signal_state s 2 else s)
                             else s
                end
    end in
  let '(st, kept, (failed, cnt, nom)) := pair_loop (prune_socket_act sk) (clist s0) s0 (false, 0, 0) in
  let s1 := set_clist st kept in
  if failed then
    let s2 := if cnt =? 0 then signal_state s1 5
              else if nom =? 0 then (if cstate s1 =? 4 then signal_state s1 5 else if cstate s1 =? 3 then signal_state s1 2 else s1)
              else s1 in
    update_check_list_state_for_ready s2
  else s1.

(** conn_check_prune_stream: every pair of the stream's list is freed *)
Definition conn_check_prune_stream (s : state) : state := set_clist (fold_left pair_free (clist s) s) [].

(** ---- agent/component.c *)
Definition clear_selected_pair (s : state) : state := set_sel_prio (set_sel_r (set_sel_l s None) None) 0.

(** nice_component_detach_socket: incoming checks received on it go, then its SocketSource (first match) and the socket itself
    (socket_source_free -> nice_socket_free -> sock->close, g_slice_free) *)
Definition detach_socket (s : state) (sk : Z) : state :=
  let s1 := set_ichecks s (filter (fun i => negb (i_sock i =? sk)) (ichecks s)) in
  if memb sk (sources s1) then free_sock (set_sources s1 (remove1 sk (sources s1))) sk else s1.

(** one turn of the loop over cmp->local_candidates *)
Definition remove_socket_local (ns : Z) (s : state) (c : Z) : state :=
  match find_cand (cands s) c with
  | None => flt s 1
  | Some cd =>
      match c_sock cd with
      | None => flt s 3
      | Some k =>
          match based_on (length (socks s)) (socks s) k ns with
          | None => flt s 1
          | Some false => s
          | Some true =>
              let s1 := if opt_is (sel_l s) c then clear_selected_pair s else s in
              let s2 := refresh_prune_candidate s1 c in
              let s3 := if negb (k =? ns) then detach_socket (conn_check_prune_socket (discovery_prune_socket s2 k) k) k else s2 in
              (* agent_remove_local_candidate: nothing without GUPnP *)
              let s4 := free_cand s3 c in
              set_lcands s4 (remove1 c (lcands s4))
          end
      end
  end.
(** one turn of the loop over cmp->remote_candidates *)
Definition remove_socket_remote (ns : Z) (s : state) (c : Z) : state :=
  match find_cand (cands s) c with
  | None => flt s 1
  | Some cd =>
      if negb (opt_is (c_sock cd) ns) then s
      else
        let s1 := if opt_is (sel_r s) c then clear_selected_pair s else s in
        let s2 := conn_check_prune_socket s1 ns in
        let s3 := free_cand s2 c in
        set_rcands s3 (remove1 c (rcands s3))
  end.
Definition remove_socket (s : state) (ns : Z) : state :=
  let s1 := discovery_prune_socket s ns in
  let s2 := refresh_prune_socket s1 ns in
  let s3 := conn_check_prune_socket s2 ns in
  let s4 := fold_left (remove_socket_local ns) (lcands s3) s3 in
  let s5 := fold_left (remove_socket_remote ns) (rcands s4) s4 in
  detach_socket s5 ns.

(** nice_component_free_socket_sources: every source with its socket, in list order; then the selected pair is cleared *)
Definition free_socket_sources (s : state) : state :=
  clear_selected_pair (set_sources (fold_left free_sock (sources s) s) []).
(** nice_component_close (the parts that touch the reference graph, in the order of the C) *)
Definition component_close (s : state) : state :=
  let s1 := match turn_cand s with Some c => set_turn_cand (free_cand s c) None | None => s end in
  let s2 := set_lcands (fold_left free_cand (lcands s1) s1) [] in
  let s3 := set_rcands (fold_left free_cand (rcands s2) s2) [] in
  let s4 := fold_left refresh_prune_socket (sources s3) s3 in
  let s5 := free_socket_sources s4 in
  set_ichecks s5 [].
(** nice_agent_remove_stream, then (once the refreshes are gone) nice_stream_close, for a stream with this one component *)
Definition teardown (s : state) : state := component_close (discovery_prune_stream (conn_check_prune_stream s)).

(** ---- the operations the harness can run, and what it prints afterwards *)
Inductive op := OpRemoveSocket (ns : Z) | OpTeardown | OpDiscPrune (sk : Z) | OpRefreshPruneSocket (sk : Z) | OpRefreshPruneCand (c : Z)
              | OpConnCheckPrune (sk : Z) | OpDetach (sk : Z) | OpClearSelected | OpPruneStream.
Definition run_op (s : state) (o : op) : state :=
  match o with
  | OpRemoveSocket ns => remove_socket s ns
  | OpTeardown => teardown s
  | OpDiscPrune sk => discovery_prune_socket s sk
  | OpRefreshPruneSocket sk => refresh_prune_socket s sk
  | OpRefreshPruneCand c => refresh_prune_candidate s c
  | OpConnCheckPrune sk => conn_check_prune_socket s sk
  | OpDetach sk => detach_socket s sk
  | OpClearSelected => clear_selected_pair s
  | OpPruneStream => conn_check_prune_stream s
  end.

(** -9 marks a reference to a freed object (the harness would have crashed under ASan instead of printing) *)
Definition oz (o : option Z) : Z := match o with Some x => x | None => -1 end.
Definition sock_ref (s : state) (k : Z) : Z := match find_sock (socks s) k with Some _ => k | None => -9 end.
Definition cand_ref (s : state) (c : Z) : Z := match find_cand (cands s) c with Some _ => c | None => -9 end.
Definition osock_ref (s : state) (o : option Z) : Z := match o with Some k => sock_ref s k | None => -1 end.
Definition obs_cand (s : state) (c : Z) : list Z :=
  match find_cand (cands s) c with Some cd => [c; osock_ref s (c_sock cd)] | None => [-9; -9] end.
Definition obs_pair (s : state) (p : Z) : list Z :=
  match find_pair (pairs s) p with
  | Some pr => [p; cand_ref s (p_local pr); cand_ref s (p_remote pr); sock_ref s (p_sock pr)]
  | None => [-9; -9; -9; -9]
  end.
Definition obs_refr (s : state) (r : Z) : list Z :=
  match find_refr (refrs s) r with Some rf => [r; sock_ref s (r_sock rf); cand_ref s (r_cand rf)] | None => [-9; -9; -9] end.
Definition obs_source (s : state) (k : Z) : list Z :=
  match find_sock (socks s) k with Some sk => [k; osock_ref s (sk_base sk)] | None => [-9; -9] end.
Definition observe (s : state) : list (list Z) :=
  if negb (fault s =? 0) then [[fault s]] else
  [ [0; cstate s];
    map sk_id (socks s);
    flat_map (obs_cand s) (lcands s);
    flat_map (obs_cand s) (rcands s);
    match turn_cand s with Some c => obs_cand s c | None => [] end;
    [match sel_l s with Some c => cand_ref s c | None => -1 end; match sel_r s with Some c => cand_ref s c | None => -1 end; sel_prio s];
    flat_map (obs_pair s) (clist s);
    map (fun p => match find_pair (pairs s) p with Some _ => p | None => -9 end) (trig s);
    flat_map (fun i => [i_id i; sock_ref s (i_sock i)]) (ichecks s);
    flat_map (obs_source s) (sources s);
    flat_map (fun d => [d_id d; sock_ref s (d_sock d)]) (discs s);
    flat_map (obs_refr s) (rlist s);
    map (fun r => match find_refr (refrs s) r with Some _ => r | None => -9 end) (pruning s) ].
Fixpoint zlist_eqb (a b : list Z) : bool :=
  match a, b with [], [] => true | x :: a', y :: b' => (x =? y) && zlist_eqb a' b' | _, _ => false end.
Fixpoint obs_eqb (a b : list (list Z)) : bool :=
  match a, b with [], [] => true | x :: a', y :: b' => zlist_eqb x y && obs_eqb a' b' | _, _ => false end.
(** 0 = clean; 1/2/3 = the fault; 4 = no fault during the call but a reference to a freed object is left behind *)
Definition verdict (s : state) : Z :=
  if negb (fault s =? 0) then fault s
  else if existsb (existsb (fun x => x =? -9)) (observe s) then 4 else 0.
