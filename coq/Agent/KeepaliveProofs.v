From Coq Require Import ZArith List Bool Lia.
From Nice Require Import Gen.Consent Agent.KeepaliveModel.
Import ListNotations.
Local Open Scope Z_scope.
Ltac Zify.zify_post_hook ::= Z.div_mod_to_equations.

Lemma scan_none now : forall ps mn i mn', scan now mn ps i = (mn', None) ->
  Forall (fun nt => now < nt) ps /\ mn' <= mn /\ Forall (fun nt => mn' <= nt) ps /\ (mn' = mn \/ In mn' ps).
Proof.
  induction ps as [|nt r IH]; intros mn i mn' H; cbn [scan] in H.
  - injection H as <-. split; [constructor|]. split; [lia|]. split; [constructor|left; reflexivity].
  - destruct (nt =? 0) eqn:E0; [discriminate|]. destruct (now <? nt) eqn:El; [|discriminate].
    destruct (IH _ _ _ H) as (Ha & Hb & Hc & Hd). split; [constructor; [lia|exact Ha]|]. split; [lia|]. split; [constructor; [lia|exact Hc]|].
    destruct Hd as [->|Hd]; [|right; right; exact Hd]. destruct (Z.min_spec mn nt) as [[_ ->]|[_ ->]]; [left; reflexivity|right; left; reflexivity].
Qed.

Lemma scan_some now : forall ps mn i mn' k, scan now mn ps i = (mn', Some k) ->
  exists nt, nth_error ps (k - i) = Some nt /\ (i <= k)%nat /\ (nt = 0 \/ nt <= now).
Proof.
  induction ps as [|nt r IH]; intros mn i mn' k H; cbn [scan] in H; [discriminate|].
  destruct (nt =? 0) eqn:E0.
  - injection H as _ <-. exists nt. replace (i - i)%nat with O by lia. split; [reflexivity|]. split; [lia|left; lia].
  - destruct (now <? nt) eqn:El.
    + destruct (IH _ _ _ _ H) as (x & Hn & Hle & Hx). exists x. replace (k - i)%nat with (S (k - S i)) by lia. split; [exact Hn|]. split; [lia|exact Hx].
    + injection H as _ <-. exists nt. replace (i - i)%nat with O by lia. split; [reflexivity|]. split; [lia|right; lia].
Qed.

(** When a keepalive is sent, the timer comes back after Ta (20 ms): one packet per tick, never a zero interval. *)
Theorem rearm_sent fresh now ps k d : rearm fresh now ps = (Some k, d) ->
  d = T_TA_DEFAULT /\ 0 < d /\ exists nt, nth_error ps k = Some nt /\ (nt = 0 \/ nt <= now).
Proof.
  unfold rearm. destruct (scan now (base_next fresh now) ps 0) as [mn [i|]] eqn:E; intros H; [|discriminate].
  injection H as <- <-. split; [reflexivity|]. split; [unfold T_TA_DEFAULT; lia|].
  destruct (scan_some _ _ _ _ _ _ E) as (nt & Hn & _ & Hx). exists nt. replace (i - 0)%nat with i in Hn by lia. tauto.
Qed.

(** When nothing is due, the timer sleeps: no unsigned wrap, never past the earliest pending keepalive, never longer than the
    period, and a zero interval only when a keepalive is due within the next millisecond. *)
Theorem rearm_idle fresh now ps d : 0 <= now < 2 ^ 62 -> Forall (fun nt => 0 <= nt < 2 ^ 62) ps ->
  rearm fresh now ps = (None, d) ->
  Forall (fun nt => now < nt) ps /\
  0 <= d /\ d * 1000 <= base_next fresh now - now /\
  Forall (fun nt => now + d * 1000 <= nt) ps /\
  (d = 0 -> exists nt, In nt ps /\ nt - now < 1000).
Proof.
  intros Hnow Hps. unfold rearm. destruct (scan now (base_next fresh now) ps 0) as [mn [i|]] eqn:E; intros H; [discriminate|].
  injection H as Hd0. destruct (scan_none _ _ _ _ _ E) as (Ha & Hb & Hc & Hd).
  assert (Hbase : now < base_next fresh now < 2 ^ 63) by (unfold base_next, T_MIN_CONSENT_INTERVAL, T_TR_DEFAULT; destruct fresh; lia).
  assert (Hmn : now < mn).
  { destruct Hd as [->|Hin]; [lia|]. rewrite Forall_forall in Ha. apply Ha; exact Hin. }
  rewrite Z.mod_small in Hd0 by lia. subst d.
  split; [exact Ha|]. split; [lia|]. split; [lia|]. split.
  - rewrite Forall_forall in Hc |- *. intros nt Hin. specialize (Hc nt Hin). lia.
  - intros Hz. destruct Hd as [->|Hin].
    + exfalso. unfold base_next, T_MIN_CONSENT_INTERVAL, T_TR_DEFAULT in Hz. destruct fresh; lia.
    + exists mn. split; [exact Hin|lia].
Qed.

Example rearm_nonvacuous :
  rearm true 1000000 [6000000; 0] = (Some 1%nat, 20) /\ rearm true 1000000 [6000000; 3500000] = (None, 2500) /\
  rearm false 1000000 [900000] = (Some 0%nat, 20).
Proof. repeat split; reflexivity. Qed.
