(** Redundant-candidate elimination (agent/discovery.c priv_add_local_candidate_pruned, RFC 8445 5.1.3) and the
    duration of an unanswered discovery transaction.  Hand model, tied by harness/gather_h.c (compared inside Coq). *)
From Coq Require Import ZArith List Bool.
Import ListNotations.
Local Open Scope Z_scope.

Record lcand := { k_type : Z (* 0 host, 1 srflx, 2 prflx, 3 relayed *); k_tr : Z; k_ip : Z; k_port : Z; k_bip : Z; k_bport : Z }.

Definition same_cand (c x : lcand) : bool :=
  (k_bip c =? k_bip x) && (k_bport c =? k_bport x) && (k_ip c =? k_ip x) && (k_port c =? k_port x) && (k_tr c =? k_tr x).
Definition same_kind_ip (t : Z) (c x : lcand) : bool :=
  (k_type c =? t) && (k_type x =? t) && (k_tr c =? k_tr x) && (k_ip c =? k_ip x).
(** is the new candidate [x] redundant with the existing [c]? *)
Definition redundant (c x : lcand) : bool := same_cand c x || same_kind_ip 3 c x || same_kind_ip 1 c x.

(** returns (accepted?, new list): appended at the end when not redundant with any existing candidate *)
Definition add_pruned (l : list lcand) (x : lcand) : bool * list lcand :=
  if existsb (fun c => redundant c x) l then (false, l) else (true, l ++ [x]).

Fixpoint add_all (l : list lcand) (xs : list lcand) : list bool * list lcand :=
  match xs with
  | [] => ([], l)
  | x :: r => let '(b, l1) := add_pruned l x in let '(bs, l2) := add_all l1 r in (b :: bs, l2)
  end.
