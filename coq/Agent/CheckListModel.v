(** The check-list kernel of agent/conncheck.c, transcribed statement for statement (hand model, NO proofs here).
    Tied to the real (static) functions by harness/checklist_h.c, compared inside Coq (props/c01_checklist.py).

      find_next_waiting      priv_conn_check_find_next_waiting
      unfreeze_next          priv_conn_check_unfreeze_next          (RFC 8445 6.1.2.6 / 6.1.4.2 step 2)
      unfreeze_related       conn_check_unfreeze_related            (RFC 8445 7.2.5.3.3)
      unfreeze_maybe         priv_conn_check_unfreeze_maybe
      ordinary_check         priv_conn_check_ordinary_check + priv_conn_check_initiate + the parts of conn_check_send
                             and candidate_check_pair_fail that touch the check list (RFC 8445 6.1.4.2 steps 2-3)
      ordinary_agent         the loop "step: process ordinary checks" of priv_conn_check_tick_agent_locked
      failed_components      priv_update_check_list_failed_components
      prune                  priv_prune_pending_checks               (RFC 5245 8.1.2)
      for_ready              conn_check_update_check_list_state_for_ready
      mark_nominated         priv_mark_pair_nominated with conn_check_update_selected_pair (RFC 8445 7.3.1.5)
      signal                 agent_signal_component_state_change without its whitelist assertion (that is C11's model)

    A stream's conncheck_list is a [list pair] in list order (the code keeps it sorted by descending priority; the
    functions below never rely on it, the theorems say where it matters).  Membership of a pair in
    agent->triggered_check_queue is the flag [p_trig] (the queue never holds a pair twice: priv_add_pair_to_triggered_check_queue
    looks it up first; only membership and removal are used by the functions modelled here).  Pointers between pairs
    (discovered_pair) are identities [p_id]; 0 is NULL. *)
From Coq Require Import ZArith List Bool.
Import ListNotations.
Local Open Scope Z_scope.

Inductive pstate := Frozen | Waiting | InProgress | Succeeded | Failed | Discovered.
Definition pstate_eqb (a b : pstate) : bool :=
  match a, b with
  | Frozen, Frozen | Waiting, Waiting | InProgress, InProgress | Succeeded, Succeeded | Failed, Failed | Discovered, Discovered => true
  | _, _ => false
  end.

Record pair := mkPair {
  p_id : Z;                 (* identity of the CandidateCheckPair object, > 0, unique in the agent *)
  p_comp : Z;               (* component_id *)
  p_lf : Z; p_rf : Z;       (* foundation = "<local foundation>:<remote foundation>" *)
  p_local : Z; p_remote : Z;(* identities of the NiceCandidate objects *)
  p_prio : Z;               (* guint64 priority *)
  p_state : pstate;
  p_nom : bool;             (* nominated *)
  p_valid : bool;
  p_usec : bool;            (* use_candidate_on_next_check *)
  p_mnora : bool;           (* mark_nominated_on_response_arrival *)
  p_retrans : bool;         (* retransmit *)
  p_stun : bool;            (* stun_transactions != NULL *)
  p_trig : bool;            (* member of agent->triggered_check_queue *)
  p_disc : Z                (* p_id of discovered_pair, 0 = NULL *)
}.

Definition set_state (p : pair) (s : pstate) : pair :=
  mkPair (p_id p) (p_comp p) (p_lf p) (p_rf p) (p_local p) (p_remote p) (p_prio p) s (p_nom p) (p_valid p) (p_usec p) (p_mnora p) (p_retrans p) (p_stun p) (p_trig p) (p_disc p).
Definition set_nom (p : pair) (b : bool) : pair :=
  mkPair (p_id p) (p_comp p) (p_lf p) (p_rf p) (p_local p) (p_remote p) (p_prio p) (p_state p) b (p_valid p) (p_usec p) (p_mnora p) (p_retrans p) (p_stun p) (p_trig p) (p_disc p).
Definition set_mnora (p : pair) (b : bool) : pair :=
  mkPair (p_id p) (p_comp p) (p_lf p) (p_rf p) (p_local p) (p_remote p) (p_prio p) (p_state p) (p_nom p) (p_valid p) (p_usec p) b (p_retrans p) (p_stun p) (p_trig p) (p_disc p).
Definition set_retrans (p : pair) (b : bool) : pair :=
  mkPair (p_id p) (p_comp p) (p_lf p) (p_rf p) (p_local p) (p_remote p) (p_prio p) (p_state p) (p_nom p) (p_valid p) (p_usec p) (p_mnora p) b (p_stun p) (p_trig p) (p_disc p).
Definition set_stun (p : pair) (b : bool) : pair :=
  mkPair (p_id p) (p_comp p) (p_lf p) (p_rf p) (p_local p) (p_remote p) (p_prio p) (p_state p) (p_nom p) (p_valid p) (p_usec p) (p_mnora p) (p_retrans p) b (p_trig p) (p_disc p).
Definition set_trig (p : pair) (b : bool) : pair :=
  mkPair (p_id p) (p_comp p) (p_lf p) (p_rf p) (p_local p) (p_remote p) (p_prio p) (p_state p) (p_nom p) (p_valid p) (p_usec p) (p_mnora p) (p_retrans p) (p_stun p) b (p_disc p).

Definition is_state (s : pstate) (p : pair) : bool := pstate_eqb (p_state p) s.
(* strncmp (a->foundation, b->foundation, NICE_CANDIDATE_PAIR_MAX_FOUNDATION) == 0 *)
Definition fnd_eqb (a b : pair) : bool := (p_lf a =? p_lf b) && (p_rf a =? p_rf b).
Definition fnd (p : pair) : Z * Z := (p_lf p, p_rf p).
Definition fnd_in (p : pair) (fl : list (Z * Z)) : bool := existsb (fun f => (fst f =? p_lf p) && (snd f =? p_rf p)) fl.

(** ** priv_conn_check_find_next_waiting *)
Fixpoint find_next_waiting (l : list pair) : option pair :=
  match l with
  | [] => None
  | p :: r => if is_state Waiting p then Some p else find_next_waiting r
  end.

(** ** priv_conn_check_unfreeze_next: [ss] = the conncheck lists of agent->streams, in order.
    [fl] is foundation_list (prepended to exactly when [result] is set, so result = (fl <> [])). *)
Fixpoint unfreeze_list (fl : list (Z * Z)) (l : list pair) : list (Z * Z) * list pair :=
  match l with
  | [] => (fl, [])
  | p :: r =>
      if fnd_in p fl then let '(fl', r') := unfreeze_list fl r in (fl', p :: r')
      else if is_state Frozen p then let '(fl', r') := unfreeze_list (fnd p :: fl) r in (fl', set_state p Waiting :: r')
      else let '(fl', r') := unfreeze_list fl r in (fl', p :: r')
  end.
Fixpoint unfreeze_streams (fl : list (Z * Z)) (ss : list (list pair)) : list (Z * Z) * list (list pair) :=
  match ss with
  | [] => (fl, [])
  | l :: r => let '(fl1, l') := unfreeze_list fl l in let '(fl2, r') := unfreeze_streams fl1 r in (fl2, l' :: r')
  end.
Definition any_waiting (ss : list (list pair)) : bool := existsb (existsb (is_state Waiting)) ss.
Definition unfreeze_next (ss : list (list pair)) : bool * list (list pair) :=
  if any_waiting ss then (true, ss)
  else let '(fl, ss') := unfreeze_streams [] ss in (match fl with [] => false | _ => true end, ss').

(** ** conn_check_unfreeze_related: [ok] is the pair whose check has just succeeded (g_assert: SUCCEEDED) *)
Definition unfreeze_related (ss : list (list pair)) (ok : pair) : list (list pair) :=
  map (map (fun p => if is_state Frozen p && fnd_eqb p ok then set_state p Waiting else p)) ss.

(** ** priv_conn_check_unfreeze_maybe: [id] names a pair of the lists (g_assert: FROZEN) *)
Definition find_id (id : Z) (l : list pair) : option pair := find (fun p => p_id p =? id) l.
Definition update_id (id : Z) (f : pair -> pair) (l : list pair) : list pair := map (fun p => if p_id p =? id then f p else p) l.
Definition unfreeze_maybe (ss : list (list pair)) (id : Z) : list (list pair) :=
  match find_id id (concat ss) with
  | None => ss
  | Some pr => if existsb (existsb (fun p => is_state Succeeded p && fnd_eqb p pr)) ss
               then map (update_id id (fun p => set_state p Waiting)) ss else ss
  end.

(** ** agent_signal_component_state_change (NiceComponentState: 0 DISCONNECTED 1 GATHERING 2 CONNECTING 3 CONNECTED 4 READY 5 FAILED) *)
Record comp := mkComp {
  c_id : Z;
  c_state : Z;
  c_sel : Z;              (* component->selected_pair.priority *)
  c_sel_local : Z;        (* identity of component->selected_pair.local, 0 = NULL: no selected pair *)
  c_sel_remote : Z;       (* identity of component->selected_pair.remote, 0 = NULL *)
  c_remote : bool         (* component->remote_candidates != NULL *)
}.
Definition st_CONNECTING := 2. Definition st_CONNECTED := 3. Definition st_READY := 4. Definition st_FAILED := 5.
Definition set_cstate (c : comp) (s : Z) : comp := mkComp (c_id c) s (c_sel c) (c_sel_local c) (c_sel_remote c) (c_remote c).
(* announcements are component states, or this code for the new-selected-pair signal *)
Definition sg_SELECTED := 100.
(* conn_check_update_selected_pair (component, pair) with nice_component_update_selected_pair (memset, then local / remote / priority of the
   pair) and agent_signal_new_selected_pair; both callers pass a nominated pair (g_assert (pair->nominated)) *)
Definition update_selected (c : comp) (p : pair) : comp * list Z :=
  if c_sel c <? p_prio p then (mkComp (c_id c) (c_state c) (p_prio p) (p_local p) (p_remote p) (c_remote c), [sg_SELECTED]) else (c, []).
(* returns the component and the announced states (nothing when new_state == old_state) *)
Definition signal (c : comp) (n : Z) : comp * list Z := if c_state c =? n then (c, []) else (set_cstate c n, [n]).

(** ** priv_prune_pending_checks (stream, component): returns in_progress + triggered_check and the new list.
    [prune] is the loop; [prune_chk] puts the g_assert (component->selected_pair.priority > 0) in front: None = the process aborts. *)
Fixpoint prune (cid sel : Z) (l : list pair) : Z * list pair :=
  match l with
  | [] => (0, [])
  | p :: r =>
      let '(n, r') := prune cid sel r in
      if negb (p_comp p =? cid) then (n, p :: r')
      else if p_trig p && negb (is_state InProgress p) then
        (if p_prio p <? sel then (n, r') else (n + 1, p :: r'))
      else if is_state Frozen p || is_state Waiting p then (n, r')
      else if is_state InProgress p then
        (if p_prio p <? sel then (n, set_retrans (set_trig p false) false :: r')
         else (n + 1, (if negb (p_retrans p) && p_stun p then set_retrans p true else p) :: r'))
      else (n, p :: r')
  end.

Definition prune_chk (cid sel : Z) (l : list pair) : option (Z * list pair) := if 0 <? sel then Some (prune cid sel l) else None.

(** ** conn_check_update_check_list_state_for_ready (stream, component): new list, component, announcements; None = abort.
    [best_nominated_valid] is the variable "best": the FIRST valid nominated pair of the component (nominated > 0 iff it exists).
    Since e3eeaf1 it becomes the selected pair when there is none (selected_pair.local == NULL) before the pruning. *)
Definition best_nominated_valid (cid : Z) (l : list pair) : option pair := find (fun p => (p_comp p =? cid) && p_valid p && p_nom p) l.
Definition ready_progress (c : comp) : comp * list Z :=
  let '(c1, o1) := if (c_state c <? st_CONNECTING) || (c_state c =? st_FAILED) then signal c st_CONNECTING else (c, []) in
  let '(c2, o2) := if c_state c1 <? st_CONNECTED then signal c1 st_CONNECTED else (c1, []) in
  let '(c3, o3) := signal c2 st_READY in
  (c3, o1 ++ o2 ++ o3).
Definition for_ready (l : list pair) (c : comp) : option (list pair * comp * list Z) :=
  match best_nominated_valid (c_id c) l with
  | None => Some (l, c, [])
  | Some best =>
      let '(c1, o0) := if c_sel_local c =? 0 then update_selected c best else (c, []) in
      match prune_chk (c_id c) (c_sel c1) l with
      | None => None
      | Some (n, l') => if n =? 0 then let '(c', o) := ready_progress c1 in Some (l', c', o0 ++ o) else Some (l', c1, o0)
      end
  end.

(** ** priv_update_check_list_failed_components (stream): [disc] = agent->discovery_list != NULL;
    [cs] = the components 1..n_components; returns them and the announcements (component id, state) *)
Definition comp_completed (cid : Z) (l : list pair) : bool :=
  forallb (fun p => negb (p_comp p =? cid) || is_state Failed p || is_state Succeeded p || is_state Discovered p) l.
Definition comp_nominated (cid : Z) (l : list pair) : nat := length (filter (fun p => (p_comp p =? cid) && p_nom p) l).
Definition fails (l : list pair) (c : comp) : bool :=
  comp_completed (c_id c) l && Nat.eqb (comp_nominated (c_id c) l) 0 && c_remote c.
Fixpoint failed_loop (l : list pair) (cs : list comp) : list comp * list (Z * Z) :=
  match cs with
  | [] => ([], [])
  | c :: r =>
      let '(c', o) := if fails l c then signal c st_FAILED else (c, []) in
      let '(r', o') := failed_loop l r in
      (c' :: r', map (fun s => (c_id c, s)) o ++ o')
  end.
Definition failed_components (disc : bool) (l : list pair) (cs : list comp) : list comp * list (Z * Z) :=
  match l with
  | [] => (cs, [])
  | _ => if disc then (cs, []) else failed_loop l cs
  end.

(** ** priv_conn_check_ordinary_check (agent, stream #si) *)
Record stream := mkStream {
  s_pairs : list pair;
  s_comps : list comp;
  s_creds : bool          (* pair->remote->username != NULL || stream->remote_ufrag[0] != 0 *)
}.
Definition set_pairs (s : stream) (l : list pair) : stream := mkStream l (s_comps s) (s_creds s).
Definition set_comps (s : stream) (cs : list comp) : stream := mkStream (s_pairs s) cs (s_creds s).
Fixpoint put_pairs (ss : list stream) (ls : list (list pair)) : list stream :=
  match ss, ls with
  | s :: r, l :: r' => set_pairs s l :: put_pairs r r'
  | _, _ => ss
  end.
Fixpoint replace_nth {A} (n : nat) (x : A) (l : list A) : list A :=
  match l, n with
  | [], _ => []
  | _ :: r, O => x :: r
  | a :: r, S n' => a :: replace_nth n' x r
  end.
Definition update_comp (cs : list comp) (c : comp) : list comp := map (fun x => if c_id x =? c_id c then c else x) cs.
Definition find_comp (cs : list comp) (cid : Z) : option comp := find (fun x => c_id x =? cid) cs.

(* the pair picked for an ordinary check and the lists after the unfreezing this may have caused *)
Definition ordinary_select (ss : list (list pair)) (si : nat) : option pair * list (list pair) :=
  match find_next_waiting (nth si ss []) with
  | Some p => (Some p, ss)
  | None => let ss' := snd (unfreeze_next ss) in (find_next_waiting (nth si ss' []), ss')
  end.

(* candidate_check_pair_fail on the pair [id] of list [l] *)
Definition pair_fail (l : list pair) (id : Z) : list pair :=
  match find_id id l with
  | None => l
  | Some p =>
      let l1 := update_id id (fun q => set_retrans (set_stun (set_state q Failed) false) false) l in
      if p_disc p =? 0 then l1 else update_id (p_disc p) (fun q => set_state q Failed) l1
  end.

(* [rfc] = NICE_AGENT_IS_COMPATIBLE_WITH_RFC5245_OR_OC2007R2; [ctl] = agent->controlling_mode;
   [send_ok] = agent_socket_send succeeds.  Returns stun_sent, the streams, the announcements (stream index, component, state). *)
Definition ordinary_check (rfc ctl send_ok : bool) (ss : list stream) (si : nat) : option (bool * list stream * list (nat * Z * Z)) :=
  let '(sel, ls) := ordinary_select (map s_pairs ss) si in
  let ss1 := put_pairs ss ls in
  match sel, nth_error ss1 si with
  | Some p, Some s =>
      if negb (s_creds s) then Some (false, ss1, [])
      else
        (* priv_conn_check_initiate: IN_PROGRESS, then conn_check_send *)
        let l1 := update_id (p_id p) (fun q => set_state q InProgress) (s_pairs s) in
        let l2 := if negb rfc && ctl then update_id (p_id p) (fun q => set_nom q true) l1 else l1 in
        if send_ok then
          let l3 := update_id (p_id p) (fun q => set_retrans (set_stun q true) true) l2 in
          Some (true, replace_nth si (set_pairs s l3) ss1, [])
        else
          (* priv_remove_stun_transaction of the only transaction, candidate_check_pair_fail, ...for_ready *)
          let l3 := pair_fail l2 (p_id p) in
          match find_comp (s_comps s) (p_comp p) with
          | None => Some (false, replace_nth si (set_pairs s l3) ss1, [])
          | Some c =>
              match for_ready l3 c with
              | None => None
              | Some (l4, c', o) =>
                  Some (false, replace_nth si (set_comps (set_pairs s l4) (update_comp (s_comps s) c')) ss1,
                        map (fun st => (si, c_id c, st)) o)
              end
          end
  | _, _ => Some (false, ss1, [])
  end.

(* for (i = agent->streams; i && !stun_sent; i = i->next) stun_sent = priv_conn_check_ordinary_check (agent, stream);
   [ok si] = outcome of the send attempted for stream #si *)
Fixpoint ordinary_agent_from (rfc ctl : bool) (ok : nat -> bool) (ss : list stream) (si : nat) (fuel : nat) : option (bool * list stream * list (nat * Z * Z)) :=
  match fuel with
  | O => Some (false, ss, [])
  | S f =>
      match ordinary_check rfc ctl (ok si) ss si with
      | None => None
      | Some (sent, ss1, o) =>
          if sent then Some (true, ss1, o)
          else match ordinary_agent_from rfc ctl ok ss1 (S si) f with
               | None => None
               | Some (sent', ss2, o') => Some (sent', ss2, o ++ o')
               end
      end
  end.
Definition ordinary_agent (rfc ctl : bool) (ok : nat -> bool) (ss : list stream) := ordinary_agent_from rfc ctl ok ss 0 (length ss).

(** ** priv_mark_pair_nominated (stream, component, localcand, remotecand), with conn_check_update_selected_pair.
    The loop walks the links of stream->conncheck_list while its body may delete links (for_ready -> prune).
    [None] = the C code aborts (assertion of the pruning step) or has undefined behaviour: the link under the loop cursor itself was deleted and freed ("i = i->next" reads freed
    memory), or the discovered_pair pointer followed by the body dangles (its pair was deleted by an earlier pruning). *)
Fixpoint after_id (id : Z) (l : list pair) : option (list pair) :=
  match l with
  | [] => None
  | p :: r => if p_id p =? id then Some r else after_id id r
  end.
Definition mstate := (bool * list pair * comp * list Z)%type.
Definition mark_body (rfc : bool) (p : pair) (st : mstate) : option mstate :=
  let '(res, L, c, out) := st in
  let tid := if is_state Succeeded p && negb (p_disc p =? 0) then p_disc p else p_id p in
  match find_id tid L with
  | None => None          (* pair->discovered_pair points to a pair that was deleted and freed: dangling pointer dereferenced *)
  | Some t0 =>
      let hit := rfc && (p_trig t0 || is_state InProgress t0) in
      let L1 := if hit then update_id tid (fun q => set_mnora q true) L else L in
      let L2 := if p_valid t0 || negb rfc then update_id tid (fun q => set_nom q true) L1 else L1 in
      let nom2 := p_nom t0 || p_valid t0 || negb rfc in
      let '(c2, o2) :=
        if p_valid t0 then
          let '(ca, oa) := if c_state c =? st_FAILED then signal c st_CONNECTING else (c, []) in
          let '(cb, ob) := update_selected ca t0 in
          let '(cc, oc) := if c_state cb =? st_CONNECTING then signal cb st_CONNECTED else (cb, []) in
          (cc, oa ++ ob ++ oc)
        else (c, []) in
      if nom2 then match for_ready L2 c2 with
                   | None => None
                   | Some (L3, c3, o3) => Some (true, L3, c3, out ++ o2 ++ o3)
                   end
      else Some (res || hit, L2, c2, out ++ o2)
  end.
Fixpoint mark_loop (rfc : bool) (lc rc : Z) (fuel : nat) (rest : list pair) (st : mstate) : option mstate :=
  match fuel with
  | O => Some st
  | S f =>
      match rest with
      | [] => Some st
      | p :: rest' =>
          if (p_local p =? lc) && (p_remote p =? rc) then
            match mark_body rfc p st with
            | None => None
            | Some st' =>
                match after_id (p_id p) (snd (fst (fst st'))) with
                | None => None          (* the link under the cursor was deleted and freed: "i = i->next" reads it *)
                | Some rest'' => mark_loop rfc lc rc f rest'' st'
                end
            end
          else mark_loop rfc lc rc f rest' st
      end
  end.
Definition mark_nominated (rfc ctl : bool) (l : list pair) (c : comp) (lc rc : Z) : option mstate :=
  if rfc && ctl then Some (false, l, c, [])
  else mark_loop rfc lc rc (length l) l (false, l, c, []).

(** ** One entry point per modelled function, over a whole agent: what harness/checklist_h.c runs on the real code.
    (Used by the tie of props/c01_checklist.py, evaluated inside Coq; equality tests on whole records.) *)
Record agent := mkAgent { a_rfc : bool; a_ctl : bool; a_disc : bool; a_streams : list stream }.
Inductive op :=
| OpUn | OpUr (id : Z) | OpUm (id : Z) | OpFw (si : nat) | OpOc (si : nat) (ok : bool) | OpOa (oks : list bool)
| OpFc (si : nat) | OpPr (si : nat) (cid : Z) | OpFr (si : nat) (cid : Z) | OpMn (si : nat) (cid lc rc : Z).
Definition b2z (b : bool) : Z := if b then 1 else 0.
Definition all_pairs (a : agent) : list (list pair) := map s_pairs (a_streams a).
Definition tag (si : nat) (cid : Z) (o : list Z) : list (nat * Z * Z) := map (fun s => (si, cid, s)) o.
(* result: return value, streams afterwards, component-state-changed / new-selected-pair signals in order;
   None = g_assert failure (abort) or freed memory read (see prune_chk, mark_loop) *)
Definition run_op (o : op) (a : agent) : option (Z * list stream * list (nat * Z * Z)) :=
  let ss := a_streams a in
  match o with
  | OpUn => let '(r, ls) := unfreeze_next (all_pairs a) in Some (b2z r, put_pairs ss ls, [])
  | OpUr id => match find_id id (concat (all_pairs a)) with
               | Some ok => Some (0, put_pairs ss (unfreeze_related (all_pairs a) ok), [])
               | None => Some (0, ss, [])
               end
  | OpUm id => Some (0, put_pairs ss (unfreeze_maybe (all_pairs a) id), [])
  | OpFw si => Some (match find_next_waiting (nth si (all_pairs a) []) with Some p => p_id p | None => 0 end, ss, [])
  | OpOc si ok => match ordinary_check (a_rfc a) (a_ctl a) ok ss si with Some (r, ss', sg) => Some (b2z r, ss', sg) | None => None end
  | OpOa oks => match ordinary_agent (a_rfc a) (a_ctl a) (fun i => nth i oks true) ss with Some (r, ss', sg) => Some (b2z r, ss', sg) | None => None end
  | OpFc si => match nth_error ss si with
               | Some s => let '(cs, sg) := failed_components (a_disc a) (s_pairs s) (s_comps s) in
                           Some (0, replace_nth si (set_comps s cs) ss, map (fun x => (si, fst x, snd x)) sg)
               | None => Some (0, ss, [])
               end
  | OpPr si cid => match nth_error ss si with
               | Some s => match find_comp (s_comps s) cid with
                           | Some c => match prune_chk cid (c_sel c) (s_pairs s) with
                                       | Some (n, l) => Some (n, replace_nth si (set_pairs s l) ss, [])
                                       | None => None
                                       end
                           | None => Some (0, ss, [])
                           end
               | None => Some (0, ss, [])
               end
  | OpFr si cid => match nth_error ss si with
               | Some s => match find_comp (s_comps s) cid with
                           | Some c => match for_ready (s_pairs s) c with
                                       | Some (l, c', sg) => Some (0, replace_nth si (set_comps (set_pairs s l) (update_comp (s_comps s) c')) ss, tag si cid sg)
                                       | None => None
                                       end
                           | None => Some (0, ss, [])
                           end
               | None => Some (0, ss, [])
               end
  | OpMn si cid lc rc => match nth_error ss si with
               | Some s => match find_comp (s_comps s) cid with
                           | Some c => match mark_nominated (a_rfc a) (a_ctl a) (s_pairs s) c lc rc with
                                       | Some (r, l, c', sg) => Some (b2z r, replace_nth si (set_comps (set_pairs s l) (update_comp (s_comps s) c')) ss, tag si cid sg)
                                       | None => None
                                       end
                           | None => Some (0, ss, [])
                           end
               | None => Some (0, ss, [])
               end
  end.

Fixpoint list_eqb {A} (f : A -> A -> bool) (x y : list A) : bool :=
  match x, y with [], [] => true | a :: x', b :: y' => f a b && list_eqb f x' y' | _, _ => false end.
Definition pair_eqb (a b : pair) : bool :=
  (p_id a =? p_id b) && (p_comp a =? p_comp b) && (p_lf a =? p_lf b) && (p_rf a =? p_rf b) && (p_local a =? p_local b) && (p_remote a =? p_remote b) &&
  (p_prio a =? p_prio b) && pstate_eqb (p_state a) (p_state b) && Bool.eqb (p_nom a) (p_nom b) && Bool.eqb (p_valid a) (p_valid b) &&
  Bool.eqb (p_usec a) (p_usec b) && Bool.eqb (p_mnora a) (p_mnora b) && Bool.eqb (p_retrans a) (p_retrans b) && Bool.eqb (p_stun a) (p_stun b) &&
  Bool.eqb (p_trig a) (p_trig b) && (p_disc a =? p_disc b).
Definition comp_eqb (a b : comp) : bool :=
  (c_id a =? c_id b) && (c_state a =? c_state b) && (c_sel a =? c_sel b) && (c_sel_local a =? c_sel_local b) && (c_sel_remote a =? c_sel_remote b) && Bool.eqb (c_remote a) (c_remote b).
Definition stream_eqb (a b : stream) : bool := list_eqb pair_eqb (s_pairs a) (s_pairs b) && list_eqb comp_eqb (s_comps a) (s_comps b) && Bool.eqb (s_creds a) (s_creds b).
Definition sig_eqb (a b : nat * Z * Z) : bool := Nat.eqb (fst (fst a)) (fst (fst b)) && (snd (fst a) =? snd (fst b)) && (snd a =? snd b).
Definition result_eqb (x y : option (Z * list stream * list (nat * Z * Z))) : bool :=
  match x, y with
  | Some (r, ss, sg), Some (r', ss', sg') => (r =? r') && list_eqb stream_eqb ss ss' && list_eqb sig_eqb sg sg'
  | None, None => true
  | _, _ => false
  end.
