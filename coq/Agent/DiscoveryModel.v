(** Executable model of candidate discovery (C20): the discovery list of agent/discovery.c, its tick
    [priv_discovery_tick_unlocked], the way answers are consumed by agent/conncheck.c
    ([priv_map_reply_to_discovery_request], [priv_map_reply_to_relay_request], [priv_handle_turn_alternate_server],
    behind the per-item StunAgent of [conn_check_handle_inbound_stun]) and the completion path
    (tick returns FALSE -> discovery_free -> agent_gathering_done -> agent_signal_gathering_done).

    One model step = the tail of nice_agent_gather_candidates ([EStart]), one firing of the discovery timer at a given
    instant ([ETick]), or the arrival of one answer ([EAnswer]).  Instants, answer kinds, transaction ids named by answers,
    and which request creations / first sends fail are INPUTS (an adversarial server / network); silence = no event.

    Modelling decisions (each is checked against the source text by props/c20_discovery.py on every run):
    - all clock reads of one tick return the same instant [now] (g_get_monotonic_time and the two stun_gettime calls);
    - unreliable (UDP) sockets: stun_timer_start (initial timeout, max retransmissions), the timer is Timer.TimerModel;
    - compatibility RFC 5245 (the OC2007 MS-ALTERNATE-SERVER branch is not modelled), no UPnP, no pending DNS resolution,
      one gathering run (the gathering streams are one flag);
    - transaction ids are fresh numbers (96 random bits in C: distinct ids is the RNG assumption of C14), so an answer
      names the item it could match ([i]) and the transaction id it carries ([t]); an id that is not the item's current one,
      or that the item's StunAgent no longer remembers ([d_live], sent_ids[].valid), has no effect at all;
    - "request could not be created or sent" ([fails], an input of every tick) stands for every reason the C code has for
      `buffer_len > 0 && agent_socket_send (...) >= 0` to be false: socket error, message does not fit, and the table of 200 saved
      transaction ids of the item's StunAgent being full (an alternate-server answer for one TURN item cancels its siblings'
      requests without forgetting their ids);
    - an alternate-server answer (3xx + ALTERNATE-SERVER) is followed only while the item has followed fewer than
      NICE_DISCOVERY_MAX_REDIRECTS of them ([d_redir], [c_maxredir]; /repo 1878027), otherwise the item is given up like on any error; a
      redirection followed by a TURN allocation also re-queues the not-done allocations of the same stream, relay type and server
      WITHOUT counting against them;
    - [EvCand i] = a success answer was consumed for item [i] and its address handed to discovery_add_*_candidate
      (what the candidate list then keeps is Agent.GatherModel).
    No proofs in this file. *)
From Coq Require Import ZArith List Bool.
From Nice Require Import Timer.TimerModel.
Import ListNotations.
Local Open Scope Z_scope.
Local Open Scope bool_scope.

Inductive dtype := Srflx | Relay.

Record item := {
  d_type : dtype;
  d_grp : Z;         (* stream id and relay transport: what an alternate-server answer resets together *)
  d_srv : Z;         (* server address *)
  d_pending : bool;  (* cand->pending *)
  d_done : bool;     (* cand->done *)
  d_buf : bool;      (* cand->stun_message.buffer != NULL *)
  d_tid : Z;         (* transaction id of the request in stun_buffer *)
  d_live : bool;     (* the item's StunAgent still remembers d_tid (no answer validated for it, not forgotten) *)
  d_realm : Z;       (* REALM carried by the request in stun_buffer, 0 = none *)
  d_resp_realm : Z;  (* REALM of stun_resp_msg (copied into the next request), 0 = none *)
  d_timer : timer;   (* cand->timer *)
  d_next : Z;        (* cand->next_tick, microseconds *)
  d_auth : Z;        (* cand->auth_retries *)
  d_redir : Z        (* cand->redirects: ALTERNATE-SERVER answers this item has followed *)
}.

Record dcfg := {
  c_T : Z;        (* agent->stun_initial_timeout, ms *)
  c_N : Z;        (* agent->stun_max_retransmissions *)
  c_maxauth : Z;  (* NICE_DISCOVERY_MAX_AUTH_RETRIES *)
  c_maxredir : Z  (* NICE_DISCOVERY_MAX_REDIRECTS *)
}.

Definition mk (it : item) (srv : Z) (p dn b : bool) (tid : Z) (lv : bool) (rl rr : Z) (tm : timer) (nx au rd : Z) : item :=
  {| d_type := d_type it; d_grp := d_grp it; d_srv := srv; d_pending := p; d_done := dn; d_buf := b; d_tid := tid; d_live := lv;
     d_realm := rl; d_resp_realm := rr; d_timer := tm; d_next := nx; d_auth := au; d_redir := rd |}.

(** g_get_monotonic_time () for the instant [now] *)
Definition mono (now : tv) : Z := sec now * 1000000 + usec now.

(** a fresh item as priv_add_new_candidate_discovery_stun / _turn leave it (g_slice_new0) *)
Definition fresh_item (ty : dtype) (grp srv : Z) : item :=
  {| d_type := ty; d_grp := grp; d_srv := srv; d_pending := false; d_done := false; d_buf := false; d_tid := 0; d_live := false;
     d_realm := 0; d_resp_realm := 0; d_timer := {| deadline := {| sec := 0; usec := 0 |}; delay := 0; retrans := 0; maxr := 0 |};
     d_next := 0; d_auth := 0; d_redir := 0 |}.

(* ---- what the tick does to one item ---- *)

(* pending != TRUE, request created and sent: stun_timer_start, next_tick = now *)
Definition it_start (c : dcfg) (now : tv) (tid : Z) (it : item) : item :=
  mk it (d_srv it) true (d_done it) true tid true (d_resp_realm it) (d_resp_realm it) (timer_start now (c_T c) (c_N c)) (mono now) (d_auth it) (d_redir it).
(* pending != TRUE, "Error starting discovery, skipping the item." *)
Definition it_fail (it : item) : item :=
  mk it (d_srv it) true true false (d_tid it) (d_live it) (d_realm it) (d_resp_realm it) (d_timer it) (d_next it) (d_auth it) (d_redir it).
(* "STUN discovery was cancelled, marking discovery done." *)
Definition it_cancel (it : item) : item :=
  mk it (d_srv it) (d_pending it) true (d_buf it) (d_tid it) (d_live it) (d_realm it) (d_resp_realm it) (d_timer it) (d_next it) (d_auth it) (d_redir it).
(* STUN_USAGE_TIMER_RETURN_TIMEOUT: forget the transaction, done *)
Definition it_timeout (it : item) : item :=
  mk it (d_srv it) (d_pending it) true false (d_tid it) false (d_realm it) (d_resp_realm it) (d_timer it) (d_next it) (d_auth it) (d_redir it).
(* RETRANSMIT / SUCCESS: timer as refreshed, next_tick = now + timeout * 1000 *)
Definition it_rearm (it : item) (tm : timer) (nx : Z) : item :=
  mk it (d_srv it) (d_pending it) (d_done it) (d_buf it) (d_tid it) (d_live it) (d_realm it) (d_resp_realm it) tm nx (d_auth it) (d_redir it).

Record tres := { r_item : item; r_nd : Z (* contribution to not_done *); r_paced : bool (* ++need_pacing *);
                 r_started : bool (* went through the pending != TRUE block *); r_sent : bool (* a request was (re)transmitted *) }.

Definition tick_item (c : dcfg) (now : tv) (ok : bool) (tid : Z) (it : item) : tres :=
  if negb (d_pending it) then
    if ok then {| r_item := it_start c now tid it; r_nd := 1; r_paced := true; r_started := true; r_sent := true |}
    else {| r_item := it_fail it; r_nd := 0; r_paced := false; r_started := true; r_sent := false |}
  else if d_done it then {| r_item := it; r_nd := 0; r_paced := false; r_started := false; r_sent := false |}
  else if negb (d_buf it) then {| r_item := it_cancel it; r_nd := 0; r_paced := false; r_started := false; r_sent := false |}
  else if mono now >=? d_next it then
    match refresh (d_timer it) now with
    | (_, TIMEOUT) => {| r_item := it_timeout it; r_nd := 0; r_paced := false; r_started := false; r_sent := false |}
    | (t', RETRANSMIT) => {| r_item := it_rearm it t' (mono now + w32 (remainder t' now * 1000)); r_nd := 1; r_paced := true;
                             r_started := false; r_sent := true |}
    | (t', SUCCESS) => {| r_item := it_rearm it t' (mono now + w32 (remainder t' now * 1000)); r_nd := 1; r_paced := false;
                          r_started := false; r_sent := false |}
    end
  else {| r_item := it; r_nd := 1; r_paced := false; r_started := false; r_sent := false |}.

Inductive out := EvSend (i : nat) | EvCand (i : nat) | EvGatheringDone.

(** the for loop: stops (break) after the first item that transmitted; the item at position [idx] gets transaction id [nid + idx]
    when a request is created for it; [fails] = positions whose request creation / first send fails in this tick.
    Result: list, not_done, number of items that went through the pending != TRUE block, outputs. *)
Fixpoint tick_loop (c : dcfg) (now : tv) (fails : list nat) (idx : nat) (nid : Z) (l : list item) : list item * Z * Z * list out :=
  match l with
  | [] => ([], 0, 0, [])
  | it :: r =>
    let res := tick_item c now (negb (existsb (Nat.eqb idx) fails)) (nid + Z.of_nat idx) it in
    let st := if r_started res then 1 else 0 in
    let o := if r_sent res then [EvSend idx] else [] in
    if r_paced res then (r_item res :: r, r_nd res, st, o)
    else let '(r', nd', st', o') := tick_loop c now fails (S idx) nid r in (r_item res :: r', r_nd res + nd', st + st', o ++ o')
  end.

Record dstate := {
  ds_items : list item;   (* agent->discovery_list *)
  ds_unsched : Z;         (* agent->discovery_unsched_items *)
  ds_nid : Z;             (* next unused transaction id *)
  ds_gathering : bool;    (* stream->gathering (of the streams being gathered) *)
  ds_timer : bool         (* agent->discovery_timer_source != NULL *)
}.

(** priv_discovery_tick_unlocked; third component = its return value.  not_done == 0: discovery_free (list, counter, timer
    source) then agent_gathering_done, which signals (timer source is NULL) once per gathering stream. *)
Definition do_tick (c : dcfg) (now : tv) (fails : list nat) (s : dstate) : dstate * list out * bool :=
  let '(l', nd, st, o) := tick_loop c now fails 0 (ds_nid s) (ds_items s) in
  let nid' := ds_nid s + Z.of_nat (length (ds_items s)) in
  if nd =? 0 then
    ({| ds_items := []; ds_unsched := 0; ds_nid := nid'; ds_gathering := false; ds_timer := false |},
     o ++ (if ds_gathering s then [EvGatheringDone] else []), false)
  else
    ({| ds_items := l'; ds_unsched := Z.max 0 (ds_unsched s - st); ds_nid := nid'; ds_gathering := ds_gathering s; ds_timer := ds_timer s |},
     o, true).

(* ---- answers ---- *)
Inductive kind :=
| KSuccess                     (* stun_usage_bind_process SUCCESS / stun_usage_turn_process RELAY_SUCCESS, MAPPED_SUCCESS *)
| KError (code realm : Z)      (* ..._RETURN_ERROR: error class with that code; REALM attribute (0 = absent or empty) *)
| KAlternate (alt : Z)         (* ..._RETURN_ALTERNATE_SERVER: 3xx with ALTERNATE-SERVER *)
| KInvalid.                    (* validated by the StunAgent but ..._RETURN_INVALID (or unknown mandatory attributes): no handler acts *)

(* d->stun_message.buffer = NULL; d->done = TRUE (the StunAgent has consumed the id) *)
Definition it_finish (it : item) : item :=
  mk it (d_srv it) (d_pending it) true false (d_tid it) false (d_realm it) (d_resp_realm it) (d_timer it) (d_next it) (d_auth it) (d_redir it).
(* only the StunAgent's sent id is consumed *)
Definition it_consume (it : item) : item :=
  mk it (d_srv it) (d_pending it) (d_done it) (d_buf it) (d_tid it) false (d_realm it) (d_resp_realm it) (d_timer it) (d_next it) (d_auth it) (d_redir it).
(* 401/438: auth_retries++, stun_resp_msg = *resp, pending = FALSE *)
Definition it_retry (realm : Z) (it : item) : item :=
  mk it (d_srv it) false (d_done it) (d_buf it) (d_tid it) false (d_realm it) realm (d_timer it) (d_next it) (d_auth it + 1) (d_redir it).
(* server-reflexive discovery, alternate server followed: d->server = alt, d->redirects++, pending = FALSE *)
Definition it_redirect (alt : Z) (it : item) : item :=
  mk it alt false (d_done it) (d_buf it) (d_tid it) false (d_realm it) (d_resp_realm it) (d_timer it) (d_next it) (d_auth it) (d_redir it + 1).
(* priv_handle_turn_alternate_server on the answered item before its loop: disco->redirects++ (the StunAgent has consumed the id) *)
Definition it_count_redirect (it : item) : item :=
  mk it (d_srv it) (d_pending it) (d_done it) (d_buf it) (d_tid it) false (d_realm it) (d_resp_realm it) (d_timer it) (d_next it) (d_auth it) (d_redir it + 1).
(* priv_handle_turn_alternate_server on one item: request cancelled, server = alt, pending = FALSE (sent id NOT forgotten) *)
Definition it_reset (alt : Z) (it : item) : item :=
  mk it alt false (d_done it) false (d_tid it) (d_live it) (d_realm it) (d_resp_realm it) (d_timer it) (d_next it) (d_auth it) (d_redir it).

Definition is_relay (it : item) : bool := match d_type it with Relay => true | Srflx => false end.

(** does the answer carrying transaction id [t] reach a handler that acts on [it]? *)
Definition accepts (it : item) (t : Z) : bool := d_buf it && d_live it && (d_tid it =? t).

(** the auth-retry condition of priv_map_reply_to_relay_request (compatibility RFC 5245) *)
Definition auth_retry (c : dcfg) (it : item) (code realm : Z) : bool :=
  ((code =? 438) || ((code =? 401) && negb (realm =? d_realm it))) && (d_auth it <? c_maxauth c).

Fixpoint upd_nth {A} (i : nat) (f : A -> A) (l : list A) : list A :=
  match l, i with
  | [], _ => []
  | x :: r, O => f x :: r
  | x :: r, S j => x :: upd_nth j f r
  end.

Definition reset_hit (it : item) (x : item) : bool :=
  negb (d_done x) && is_relay x && (d_grp x =? d_grp it) && (d_srv x =? d_srv it).

Definition countb {A} (f : A -> bool) (l : list A) : Z := Z.of_nat (length (filter f l)).

Definition answer (c : dcfg) (i : nat) (t : Z) (k : kind) (s : dstate) : dstate * list out :=
  let l := ds_items s in
  let st l' du := {| ds_items := l'; ds_unsched := ds_unsched s + du; ds_nid := ds_nid s; ds_gathering := ds_gathering s; ds_timer := ds_timer s |} in
  match nth_error l i with
  | None => (s, [])
  | Some it =>
    if accepts it t then
      match k with
      | KSuccess => (st (upd_nth i it_finish l) 0, [EvCand i])
      | KInvalid => (st (upd_nth i it_consume l) 0, [])
      | KAlternate alt =>
        (* a redirection is followed only while the item has followed fewer than NICE_DISCOVERY_MAX_REDIRECTS; otherwise it is given up
           like on any other error *)
        if d_redir it <? c_maxredir c then
          match d_type it with
          | Srflx => (st (upd_nth i (it_redirect alt) l) 1, [])
          | Relay => let l1 := upd_nth i it_count_redirect l in
                     (st (map (fun x => if reset_hit it x then it_reset alt x else x) l1) (countb (reset_hit it) l1), [])
          end
        else (st (upd_nth i it_finish l) 0, [])
      | KError code realm =>
        match d_type it with
        | Srflx => (st (upd_nth i it_finish l) 0, [])
        | Relay =>
          if negb (realm =? 0) then
            if auth_retry c it code realm then (st (upd_nth i (it_retry realm) l) 1, [])
            else (st (upd_nth i it_finish l) 0, [])
          else if d_pending it then (st (upd_nth i it_finish l) 0, [])
          else (st (upd_nth i it_consume l) 0, [])
        end
      end
    else (s, [])
  end.

(* ---- events and runs ---- *)
Inductive event :=
| EStart (now : tv) (fails : list nat)   (* end of nice_agent_gather_candidates: discovery_schedule or agent_gathering_done *)
| ETick (now : tv) (fails : list nat)    (* priv_discovery_tick_agent_locked: the timer source fired *)
| EAnswer (i : nat) (t : Z) (k : kind).

Definition set_timer (s : dstate) (b : bool) : dstate :=
  {| ds_items := ds_items s; ds_unsched := ds_unsched s; ds_nid := ds_nid s; ds_gathering := ds_gathering s; ds_timer := b |}.

Definition step (c : dcfg) (s : dstate) (e : event) : dstate * list out :=
  match e with
  | EStart now fails =>
    if 0 <? ds_unsched s then
      (* discovery_schedule: first iteration immediately, then the Ta timer when it returned TRUE *)
      if negb (ds_timer s) then let '(s', o, res) := do_tick c now fails s in (set_timer s' res, o) else (s, [])
    else
      (* agent_gathering_done with nothing to discover *)
      if negb (ds_timer s) then
        ({| ds_items := ds_items s; ds_unsched := ds_unsched s; ds_nid := ds_nid s; ds_gathering := false; ds_timer := false |},
         if ds_gathering s then [EvGatheringDone] else [])
      else (s, [])
  | ETick now fails =>
    (* only a live timer source fires; FALSE from the tick destroys it (discovery_free already did) *)
    if ds_timer s then let '(s', o, res) := do_tick c now fails s in (if res then s' else set_timer s' false, o) else (s, [])
  | EAnswer i t k => answer c i t k s
  end.

Fixpoint run (c : dcfg) (s : dstate) (es : list event) : dstate * list out :=
  match es with
  | [] => (s, [])
  | e :: r => let '(s1, o1) := step c s e in let '(s2, o2) := run c s1 r in (s2, o1 ++ o2)
  end.

(** the state nice_agent_gather_candidates hands over: [l] fresh items, all unscheduled, streams gathering, no timer *)
Definition init (l : list item) : dstate :=
  {| ds_items := l; ds_unsched := Z.of_nat (length l); ds_nid := 1; ds_gathering := true; ds_timer := false |}.
