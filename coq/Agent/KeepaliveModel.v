(** Re-arming of the keepalive timer (agent/conncheck.c priv_conn_keepalive_tick_unlocked): which selected pair is served,
    and the interval (ms) the GLib timeout is re-created with, computed as the C does in unsigned 64-bit arithmetic.
    Constants from Gen/Consent.v; the modelled statements are checked to be present in the source on every run. *)
From Coq Require Import ZArith List Bool.
From Nice Require Import Gen.Consent.
Import ListNotations.
Local Open Scope Z_scope.

(** keepalive.next_tick of each component's selected pair (us; 0 = nothing sent yet), in stream/component order *)
Definition base_next (fresh : bool) (now : Z) : Z := now + 1000 * (if fresh then T_MIN_CONSENT_INTERVAL else T_TR_DEFAULT).

(** first pair that is due (a due pair always sends: a check, or an indication when no check can be formed), and min_next_tick over the pairs visited *)
Fixpoint scan (now mn : Z) (ps : list Z) (i : nat) : Z * option nat :=
  match ps with
  | [] => (mn, None)
  | nt :: r => if nt =? 0 then (mn, Some i) else
               let mn' := Z.min mn nt in
               if now <? nt then scan now mn' r (S i) else (mn', Some i)
  end.

Definition rearm (fresh : bool) (now : Z) (ps : list Z) : option nat * Z :=
  let '(mn, sent) := scan now (base_next fresh now) ps 0 in
  match sent with
  | Some i => (Some i, T_TA_DEFAULT)                       (* next_timer_tick = now + Ta * 1000 *)
  | None => (None, ((mn - now) mod 2 ^ 64) / 1000)          (* (next_timer_tick - now) / 1000, guint64 *)
  end.
