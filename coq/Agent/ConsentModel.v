(** Consent expiry (RFC 7675) and keepalive re-arming arithmetic of agent/conncheck.c
    (priv_conn_remote_consent_tick_agent_locked, priv_conn_keepalive_tick_unlocked).  Times in microseconds
    (g_get_monotonic_time), timer delays in milliseconds (agent_timeout_add_with_context).
    The constants come from the code (Gen/Consent.v, regenerated on every run, with a shape check of the statements modelled here). *)
From Coq Require Import ZArith List Bool.
From Nice Require Import Gen.Consent.
Import ListNotations.
Local Open Scope Z_scope.

Definition consent_timeout (fresh : bool) : Z := (if fresh then T_CONSENT_TIMEOUT else T_KEEPALIVE_TIMEOUT) * 1000.

(** one firing of the consent tick at time [now] with the last authenticated answer at [last]:
    None = consent lost (have := FALSE, FAILED announced); Some d = re-armed to fire in d milliseconds *)
Definition consent_tick (fresh : bool) (now last : Z) : option Z :=
  if now - last >? consent_timeout fresh then None else Some ((consent_timeout fresh - (now - last)) / 1000).

(** the tick re-arms itself; [lat k] >= 1 is the dispatch latency (in us) of its k-th firing; returns the time FAILED is announced *)
Fixpoint consent_run (fuel : nat) (fresh : bool) (now last : Z) (lat : nat -> Z) (k : nat) : option Z :=
  match fuel with
  | O => None
  | S f => match consent_tick fresh now last with
           | None => Some now
           | Some d => consent_run f fresh (now + d * 1000 + lat k) last lat (S k)
           end
  end.

(** keepalive re-arm under consent freshness: modifier = m/1000000 in [0.8, 1.2) (g_random_double () * 0.4 + 0.8);
    (guint64) truncation of CONSENT_DEFAULT * modifier, then MAX with the minimum interval; result in us *)
Definition keepalive_delay_consent (m : Z) : Z := 1000 * Z.max (T_CONSENT_DEFAULT * m / 1000000) T_MIN_CONSENT_INTERVAL.
Definition keepalive_delay_plain : Z := 1000 * T_TR_DEFAULT.

(** the send gate of nice_agent_send_messages_nonblocking_internal *)
Definition send_allowed (selected have : bool) : bool := negb (selected && negb have).
