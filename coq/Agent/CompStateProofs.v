From Coq Require Import List Bool String.
From Nice Require Import Gen.CompState Agent.CompStateModel.
Import ListNotations.

Lemma cs_eqb_eq a b : cs_eqb a b = true <-> a = b.
Proof. destruct a, b; cbn; split; congruence. Qed.

Lemma last_nonempty_default {A} : forall (l : list A) x d d', last (x :: l) d = last (x :: l) d'.
Proof. induction l as [|y l IH]; intros x d d'; [reflexivity|]. change (last (y :: l) d = last (y :: l) d'). apply IH. Qed.
Lemma last_cons_default {A} : forall (l : list A) x d, last (x :: l) d = last l x.
Proof. destruct l as [|y l]; intros x d; [reflexivity|]. change (last (y :: l) d = last (y :: l) x). apply last_nonempty_default. Qed.

(** the announced sequence never repeats a state and only uses whitelisted transitions;
    the state after the requests is the last one announced (= what the getter returns) *)
Fixpoint chain_ok (prev : cstate) (ann : list cstate) : Prop :=
  match ann with [] => True | a :: ann' => prev <> a /\ allowed prev a = true /\ chain_ok a ann' end.

Lemma requests_chain : forall rs cur fin ann,
  requests cur rs = Some (fin, ann) -> chain_ok cur ann /\ fin = last ann cur.
Proof.
  induction rs as [|r rs IH]; intros cur fin ann H; cbn [requests] in H.
  - inversion H; subst. split; [exact I|reflexivity].
  - unfold request in H. destruct (cs_eqb cur r) eqn:E.
    + destruct (requests cur rs) as [[c2 a2]|] eqn:E2; [|discriminate]. inversion H; subst. cbn [app]. apply IH. exact E2.
    + destruct (allowed cur r) eqn:EA; [|discriminate].
      destruct (requests r rs) as [[c2 a2]|] eqn:E2; [|discriminate]. inversion H; subst. cbn [app chain_ok].
      destruct (IH _ _ _ E2) as [C L]. split.
      * split; [intros ->; rewrite (proj2 (cs_eqb_eq r r) eq_refl) in E; discriminate|]. split; [exact EA|exact C].
      * rewrite last_cons_default. exact L.
Qed.

(** every documented edge is accepted; every accepted transition is documented *)
Lemma doc_edges_allowed : forallb (fun p => allowed (fst p) (snd p)) doc_edges = true.
Proof. vm_compute. reflexivity. Qed.
Lemma allowed_documented :
  forallb (fun o => forallb (fun n => implb (allowed o n && negb (cs_eqb o n)) (documented o n)) all_states) all_states = true.
Proof. vm_compute. reflexivity. Qed.

(** call sites whose own guard makes every request legal, from every state *)
Definition accepted (prog : cstate -> list cstate) : bool :=
  forallb (fun cur => match requests cur (prog cur) with Some _ => true | None => false end) all_states.
Lemma sites_always_legal :
  accepted (progress_to_ready 1) = true /\ accepted site_mark_nominated = true /\ accepted site_pair_added = true /\
  accepted site_triggered = true /\ accepted site_prune_socket = true /\ accepted site_gather = true /\
  accepted (fun _ => [FAILED]) = true /\ accepted (fun _ => [GATHERING]) = true.
Proof. vm_compute. repeat split; reflexivity. Qed.

(** the nominated-success site (since fix 363c416 it goes through CONNECTING like its siblings) is legal in every state *)
Lemma nominated_success_site : accepted site_nominated_success = true.
Proof. vm_compute. reflexivity. Qed.

Lemma inventory : map (fun x => (fst (fst x), snd x)) call_sites = expected_sites.
Proof. vm_compute. reflexivity. Qed.

Lemma guards : call_site_guards = expected_guards.
Proof. vm_compute. reflexivity. Qed.
