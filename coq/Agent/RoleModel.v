(** ICE role-conflict resolution (stun/usages/ice.c conncheck_create_reply, conncheck.c 487 handling,
    priv_check_for_role_conflict) as a transition system over an arbitrary pool of in-flight messages. *)
From Coq Require Import ZArith List Bool.
Import ListNotations.
Local Open Scope Z_scope.

(* a connectivity check carries the sender's role attribute and tie-breaker *as they were when it was sent* *)
Inductive msg :=
| Check (to_a : bool) (req_ctl : bool) (tie : Z)       (* request towards A (to_a) or B *)
| Err487 (to_a : bool) (req_ctl : bool).               (* 487 answer to a request that carried req_ctl *)

Record st := { a_ctl : bool; b_ctl : bool }.

(* stun_usage_ice_conncheck_create_reply: (new role, answers 487?) *)
Definition on_check (my_ctl : bool) (my_tie : Z) (req_ctl : bool) (q : Z) : bool * bool :=
  if Bool.eqb my_ctl req_ctl then
    if ((my_tie <? q) && my_ctl) || ((my_tie >=? q) && negb my_ctl) then (negb my_ctl, false) else (my_ctl, true)
  else (my_ctl, false).
(* 487 handling: the new role is "controlling" iff the request carried ICE-CONTROLLED *)
Definition on_487 (req_ctl : bool) : bool := negb req_ctl.

(* processing one message by its addressee: new state and the messages it puts in flight *)
Definition step (ta tb : Z) (s : st) (m : msg) : st * list msg :=
  match m with
  | Check true rc q => let '(r, e) := on_check (a_ctl s) ta rc q in
                       ({| a_ctl := r; b_ctl := b_ctl s |}, if e then [Err487 false rc] else [])
  | Check false rc q => let '(r, e) := on_check (b_ctl s) tb rc q in
                        ({| a_ctl := a_ctl s; b_ctl := r |}, if e then [Err487 true rc] else [])
  | Err487 true rc => ({| a_ctl := on_487 rc; b_ctl := b_ctl s |}, [])
  | Err487 false rc => ({| a_ctl := a_ctl s; b_ctl := on_487 rc |}, [])
  end.

(* messages an agent may emit at any time: a check with its current role and its own tie-breaker *)
Definition emit_a (ta : Z) (s : st) : msg := Check false (a_ctl s) ta.
Definition emit_b (tb : Z) (s : st) : msg := Check true (b_ctl s) tb.

(* honest pool: every message is one the protocol can have produced with the real tie-breakers:
   checks towards A carry B's tie, checks towards B carry A's tie; a 487 towards X answers a check X sent
   and is only produced by the rule above *)
Definition honest (ta tb : Z) (m : msg) : Prop :=
  match m with
  | Check true _ q => q = tb
  | Check false _ q => q = ta
  | Err487 true rc => (* produced by B for a check from A carrying rc *)
      exists bc, snd (on_check bc tb rc ta) = true
  | Err487 false rc => exists ac, snd (on_check ac ta rc tb) = true
  end.
