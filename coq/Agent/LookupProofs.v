(** Proofs over LookupModel.v: with the repaired code completion is announced exactly once, only after every lookup has landed and the discovery
    has finished, and always by the time nothing more can happen - for every order in which the resolver answers land and every interleaving
    with the discovery timer.  The two pre-fix behaviours are kept as counter-examples. *)
From Coq Require Import List Bool Arith Lia.
From Nice Require Import Agent.LookupModel.
Import ListNotations.

Definition LInv (s : lstate) : Prop :=
  (timer s = false -> unsched s = 0 /\ inflight s = 0) /\
  (timer s = true -> 0 < unsched s + inflight s) /\
  dones s = (if gathering s then 0 else 1) /\
  (gathering s = false -> stun_pending s = false /\ turn_pending s = 0 /\ timer s = false) /\
  (quiescent s = true -> gathering s = false \/ virgin s = true).

Lemma after_gather_inv stun turns : LInv (after_gather stun turns).
Proof. unfold LInv, after_gather; cbn. repeat split; try discriminate; auto. Qed.

(** the completion test of the repaired code is exactly "nothing more can happen" *)
Lemma test_is_quiescent s :
  negb (timer s) && Nat.eqb (turn_pending s) 0 && (negb (done_waits_for_stun cfg_fixed) || negb (stun_pending s)) = quiescent s.
Proof. unfold quiescent; cbn. destruct (timer s), (stun_pending s), (Nat.eqb (turn_pending s) 0); reflexivity. Qed.

Lemma gd_inv s :
  (timer s = false -> unsched s = 0 /\ inflight s = 0) -> (timer s = true -> 0 < unsched s + inflight s) ->
  gathering s = true -> dones s = 0 ->
  LInv (gathering_done cfg_fixed s).
Proof.
  intros I1 I2 G D. unfold gathering_done. rewrite test_is_quiescent, G.
  destruct (quiescent s) eqn:Q.
  - unfold quiescent in Q. apply andb_prop in Q. destruct Q as [Q Q3]. apply andb_prop in Q. destruct Q as [Q1 Q2].
    apply negb_true_iff in Q1, Q3. apply Nat.eqb_eq in Q2.
    unfold LInv; cbn. rewrite D. destruct (I1 Q3) as [U F]. repeat split; auto.
  - unfold LInv. rewrite G, Q. repeat split; auto; try discriminate;
    match goal with H : timer s = false |- _ => destruct (I1 H); auto end.
Qed.

Lemma tail_inv s :
  (timer s = false -> inflight s = 0) -> (timer s = true -> 0 < unsched s + inflight s) ->
  gathering s = true -> dones s = 0 ->
  LInv (tail cfg_fixed s).
Proof.
  intros I1 I2 G D. unfold tail.
  destruct (Nat.ltb 0 (unsched s)) eqn:U.
  - apply Nat.ltb_lt in U. unfold LInv, quiescent; cbn. rewrite G, D. repeat split; try discriminate; try lia.
    all: try (rewrite !andb_false_r; discriminate).
  - apply Nat.ltb_ge in U. apply gd_inv; auto. intros T. split; [lia | auto].
Qed.

Lemma enabled_gathering s e : LInv s -> enabled s e = true -> gathering s = true.
Proof.
  intros (_ & _ & _ & I4 & _) H. destruct (gathering s) eqn:G; [reflexivity|].
  destruct (I4 eq_refl) as (A & B & C). destruct e; cbn in H; rewrite ?A, ?B, ?C in H; discriminate.
Qed.

Theorem lstep_inv s e : LInv s -> enabled s e = true -> LInv (lstep cfg_fixed s e).
Proof.
  intros I H. pose proof (enabled_gathering s e I H) as G.
  destruct I as (I1 & I2 & I3 & I4 & I5). rewrite G in I3.
  destruct e as [ok items|ok items|]; unfold lstep; cbn [failed_lookup_runs_tail cfg_fixed set_virgin stun_pending turn_pending timer unsched inflight gathering dones virgin].
  - rewrite orb_true_r. apply tail_inv; cbn; auto.
    + intros T. apply I1 in T. tauto.
    + intros T. apply I2 in T. lia.
  - rewrite orb_true_r. apply tail_inv; cbn; auto.
    + intros T. apply I1 in T. tauto.
    + intros T. apply I2 in T. lia.
  - cbn in H. pose proof (I2 H) as P.
    destruct (Nat.ltb 0 (unsched s)) eqn:U; cbn [unsched inflight].
    + apply Nat.ltb_lt in U. cbn. rewrite andb_false_r.
      unfold LInv, quiescent; cbn. rewrite G, I3, H. repeat split; try discriminate; try lia.
      all: try (rewrite !andb_false_r; discriminate).
    + apply Nat.ltb_ge in U. cbn [Nat.eqb andb].
      destruct (Nat.eqb (pred (inflight s)) 0) eqn:F.
      * apply gd_inv; cbn; auto. discriminate.
      * apply Nat.eqb_neq in F. unfold LInv, quiescent; cbn. rewrite G, I3, H. repeat split; try discriminate; try lia.
        all: try (rewrite !andb_false_r; discriminate).
Qed.

Theorem lrun_inv evs : forall s s', LInv s -> lrun cfg_fixed s evs = Some s' -> LInv s'.
Proof.
  induction evs as [|e r IH]; intros s s' I H; cbn in H.
  - inversion H; subst; exact I.
  - destruct (enabled s e) eqn:E; [|discriminate]. eapply IH; [|exact H]. apply lstep_inv; assumption.
Qed.

Lemma lstep_not_virgin c s e : virgin (lstep c s e) = false.
Proof.
  destruct e as [ok items|ok items|]; unfold lstep, tail, gathering_done; cbn;
  repeat match goal with |- context [if ?b then _ else _] => destruct b end; reflexivity.
Qed.

Lemma lrun_not_virgin c evs : forall s s', virgin s = false -> lrun c s evs = Some s' -> virgin s' = false.
Proof.
  induction evs as [|e r IH]; intros s s' V H; cbn in H.
  - inversion H; subst; exact V.
  - destruct (enabled s e); [|discriminate]. eapply IH; [|exact H]. apply lstep_not_virgin.
Qed.

(** * The statements *)
Section Statements.
Variables (stun : bool) (turns : nat) (evs : list lev) (s' : lstate).
Hypothesis Hrun : lrun cfg_fixed (after_gather stun turns) evs = Some s'.

Theorem completion_at_most_once : dones s' <= 1.
Proof. destruct (lrun_inv _ _ _ (after_gather_inv stun turns) Hrun) as (_ & _ & I3 & _). rewrite I3. destruct (gathering s'); lia. Qed.

Theorem completion_not_early :
  dones s' = 1 -> stun_pending s' = false /\ turn_pending s' = 0 /\ timer s' = false /\ unsched s' = 0 /\ inflight s' = 0.
Proof.
  intros D. destruct (lrun_inv _ _ _ (after_gather_inv stun turns) Hrun) as (I1 & _ & I3 & I4 & _).
  destruct (gathering s') eqn:G; [rewrite I3 in D; discriminate|].
  destruct (I4 eq_refl) as (A & B & C). destruct (I1 C). auto.
Qed.

Theorem completion_by_quiescence : evs <> [] -> quiescent s' = true -> dones s' = 1.
Proof.
  intros Hne Q. destruct (lrun_inv _ _ _ (after_gather_inv stun turns) Hrun) as (_ & _ & I3 & _ & I5).
  destruct (I5 Q) as [G|V].
  - rewrite I3, G. reflexivity.
  - exfalso. destruct evs as [|e r]; [congruence|]. cbn in Hrun.
    destruct (enabled (after_gather stun turns) e); [|discriminate].
    rewrite (lrun_not_virgin _ _ _ _ (lstep_not_virgin _ _ _) Hrun) in V. discriminate.
Qed.

(** once announced, nothing more can happen in this gathering run *)
Theorem completion_is_final : dones s' = 1 -> forall e, enabled s' e = false.
Proof.
  intros D e. destruct (completion_not_early D) as (A & B & C & _).
  destruct e; cbn; rewrite ?A, ?B, ?C; reflexivity.
Qed.
End Statements.

(** * The code before fix a7c512a *)
(** a lookup that fails as the last outstanding item: nothing more can happen and completion was never announced *)
Example before_fix_failed_lookup_never_completes :
  exists s, lrun cfg_before (after_gather false 1) [TurnLanded false 0] = Some s /\ quiescent s = true /\ dones s = 0.
Proof. eexists. split; [reflexivity|]. split; reflexivity. Qed.

Example before_fix_failed_stun_lookup_never_completes :
  exists s, lrun cfg_before (after_gather true 0) [StunLanded false 0] = Some s /\ quiescent s = true /\ dones s = 0.
Proof. eexists. split; [reflexivity|]. split; reflexivity. Qed.

(** the TURN lookup lands first: completion announced while the STUN name is still being resolved, two reflexive discoveries follow *)
Example before_fix_completion_precedes_stun_discovery :
  exists s, lrun cfg_before (after_gather true 1) [TurnLanded true 0] = Some s /\ dones s = 1 /\ stun_pending s = true /\
  exists s2, lrun cfg_before s [StunLanded true 2; Tick; Tick] = Some s2 /\ inflight s2 = 2.
Proof. eexists. split; [reflexivity|]. repeat split. eexists. split; reflexivity. Qed.

(** the same schedules with the repaired code *)
Example since_fix_same_schedules :
  (exists s, lrun cfg_fixed (after_gather false 1) [TurnLanded false 0] = Some s /\ dones s = 1) /\
  (exists s, lrun cfg_fixed (after_gather true 0) [StunLanded false 0] = Some s /\ dones s = 1) /\
  (exists s, lrun cfg_fixed (after_gather true 1) [TurnLanded true 0] = Some s /\ dones s = 0) /\
  (exists s, lrun cfg_fixed (after_gather true 1) [TurnLanded true 0; StunLanded true 2; Tick; Tick; Tick; Tick] = Some s /\ dones s = 1 /\ quiescent s = true).
Proof. repeat split; eexists; repeat split; reflexivity. Qed.
