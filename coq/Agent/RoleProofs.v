From Coq Require Import ZArith List Bool Lia ZifyBool.
From Nice Require Import Agent.RoleModel.
Import ListNotations.
Local Open Scope Z_scope.

(** With ta > tb (A holds the larger tie-breaker) every role change moves A towards controlling or B towards
    controlled, whatever honest message is processed, stale ones included. *)
Definition toward (s s' : st) : Prop :=
  (a_ctl s' = a_ctl s \/ a_ctl s' = true) /\ (b_ctl s' = b_ctl s \/ b_ctl s' = false).

Lemma step_toward ta tb s m : tb < ta -> honest ta tb m -> toward s (fst (step ta tb s m)).
Proof.
  intros Hlt Hh. unfold toward. destruct m as [[|] rc q | [|] rc]; cbn [step honest] in *.
  - subst q. unfold on_check. destruct (a_ctl s) eqn:EA, rc; cbn [Bool.eqb negb andb orb fst a_ctl b_ctl];
      repeat match goal with |- context [if ?c then _ else _] => destruct c eqn:? end; cbn [fst a_ctl b_ctl]; try (split; auto; fail); try lia.
    all: split; auto.
  - subst q. unfold on_check. destruct (b_ctl s) eqn:EB, rc; cbn [Bool.eqb negb andb orb fst a_ctl b_ctl];
      repeat match goal with |- context [if ?c then _ else _] => destruct c eqn:? end; cbn [fst a_ctl b_ctl]; try (split; auto; fail); try lia.
    all: split; auto.
  - destruct Hh as [bc Hb]. unfold on_check in Hb. unfold on_487. cbn [fst a_ctl b_ctl].
    destruct bc, rc; cbn [Bool.eqb negb andb orb snd] in Hb;
      repeat match type of Hb with context [if ?c then _ else _] => destruct c eqn:? end; cbn [snd] in Hb; try discriminate; try lia; split; auto.
  - destruct Hh as [ac Ha]. unfold on_check in Ha. unfold on_487. cbn [fst a_ctl b_ctl].
    destruct ac, rc; cbn [Bool.eqb negb andb orb snd] in Ha;
      repeat match type of Ha with context [if ?c then _ else _] => destruct c eqn:? end; cbn [snd] in Ha; try discriminate; try lia; split; auto.
Qed.

(* messages produced by a step are honest again *)
Lemma step_honest ta tb s m m' : honest ta tb m -> In m' (snd (step ta tb s m)) -> honest ta tb m'.
Proof.
  intros Hh Hin. destruct m as [[|] rc q | [|] rc]; cbn [step honest] in *.
  - subst q. destruct (on_check (a_ctl s) ta rc tb) as [r e] eqn:E. cbn [snd] in Hin. destruct e; [|destruct Hin].
    destruct Hin as [<-|[]]. cbn [honest]. exists (a_ctl s). rewrite E. reflexivity.
  - subst q. destruct (on_check (b_ctl s) tb rc ta) as [r e] eqn:E. cbn [snd] in Hin. destruct e; [|destruct Hin].
    destruct Hin as [<-|[]]. cbn [honest]. exists (b_ctl s). rewrite E. reflexivity.
  - destruct Hin.
  - destruct Hin.
Qed.

(** runs: at each step any message of the pool is processed (it stays in the pool: duplicates, reordering and
    stale deliveries are all allowed), or an agent emits a fresh check with its current role *)
Inductive action := Deliver (n : nat) | SendA | SendB.
Definition run_step (ta tb : Z) (c : st * list msg) (a : action) : st * list msg :=
  let '(s, pool) := c in
  match a with
  | Deliver n => match nth_error pool n with
                 | Some m => let '(s', out) := step ta tb s m in (s', pool ++ out)
                 | None => (s, pool)
                 end
  | SendA => (s, pool ++ [emit_a ta s])
  | SendB => (s, pool ++ [emit_b tb s])
  end.
Definition run ta tb (c : st * list msg) (acts : list action) := fold_left (run_step ta tb) acts c.

Lemma toward_trans s1 s2 s3 : toward s1 s2 -> toward s2 s3 -> toward s1 s3.
Proof. unfold toward. intros [[A|A] [B|B]] [[C|C] [D|D]]; split; try (left; congruence); try (right; congruence). Qed.
Lemma toward_refl s : toward s s. Proof. split; left; reflexivity. Qed.

Lemma run_step_inv ta tb c a : tb < ta -> Forall (honest ta tb) (snd c) ->
  toward (fst c) (fst (run_step ta tb c a)) /\ Forall (honest ta tb) (snd (run_step ta tb c a)).
Proof.
  intros Hlt Hp. destruct c as [s pool]. cbn [fst snd] in *. destruct a as [n| |]; cbn [run_step].
  - destruct (nth_error pool n) as [m|] eqn:E; [|split; [apply toward_refl|exact Hp]].
    assert (Hm : honest ta tb m) by (eapply Forall_forall; [exact Hp|eapply nth_error_In; exact E]).
    pose proof (step_toward ta tb s m Hlt Hm) as T. pose proof (step_honest ta tb s m) as SH.
    destruct (step ta tb s m) as [s' out]. cbn [fst snd] in *. split; [exact T|].
    apply Forall_app. split; [exact Hp|]. apply Forall_forall. intros x Hx. apply (SH x Hm Hx).
  - split; [apply toward_refl|]. apply Forall_app. split; [exact Hp|]. constructor; [reflexivity|constructor].
  - split; [apply toward_refl|]. apply Forall_app. split; [exact Hp|]. constructor; [reflexivity|constructor].
Qed.

Theorem run_monotone ta tb : tb < ta -> forall acts c, Forall (honest ta tb) (snd c) ->
  toward (fst c) (fst (run ta tb c acts)) /\ Forall (honest ta tb) (snd (run ta tb c acts)).
Proof.
  intros Hlt. induction acts as [|a acts IH]; intros c Hp; cbn [run fold_left]; [split; [apply toward_refl|exact Hp]|].
  destruct (run_step_inv ta tb c a Hlt Hp) as [T1 H1].
  destruct (IH (run_step ta tb c a) H1) as [T2 H2]. split; [eapply toward_trans; eauto|exact H2].
Qed.

(** once the roles are the right way round they stay so *)
Corollary roles_stable ta tb acts pool : tb < ta -> Forall (honest ta tb) pool ->
  let s := fst (run ta tb ({| a_ctl := true; b_ctl := false |}, pool) acts) in a_ctl s = true /\ b_ctl s = false.
Proof.
  intros Hlt Hp. destruct (run_monotone ta tb Hlt acts ({| a_ctl := true; b_ctl := false |}, pool) Hp) as [[[A|A] [B|B]] _]; cbn [fst a_ctl b_ctl] in *; auto.
Qed.

(** a completed conflict-detecting exchange resolves the conflict: when both are controlling (or both controlled) and
    a fresh check of either agent is processed by the other — and, if it is answered 487, that answer is processed —
    the roles are complementary afterwards *)
Theorem conflict_exchange_resolves ta tb ra : tb < ta ->
  let s0 := {| a_ctl := ra; b_ctl := ra |} in
  (* A -> B *)
  (let '(s1, out) := step ta tb s0 (emit_a ta s0) in
   let s2 := match out with m :: _ => fst (step ta tb s1 m) | [] => s1 end in a_ctl s2 = true /\ b_ctl s2 = false) /\
  (* B -> A *)
  (let '(s1, out) := step ta tb s0 (emit_b tb s0) in
   let s2 := match out with m :: _ => fst (step ta tb s1 m) | [] => s1 end in a_ctl s2 = true /\ b_ctl s2 = false).
Proof.
  intros Hlt. destruct ra; cbn [step emit_a emit_b a_ctl b_ctl on_check Bool.eqb negb andb orb]; split;
    repeat match goal with |- context [if ?c then _ else _] => destruct c eqn:? end; cbn; try lia; auto.
Qed.
