(** Component state choke point (agent_signal_component_state_change) over the whitelist GENERATED from
    agent/agent.c, and the call-site programs of conncheck.c / agent.c / stream.c.  No proofs here. *)
From Coq Require Import List Bool String.
From Nice Require Import Gen.CompState.
Import ListNotations.

Definition cs_eqb (a b : cstate) : bool :=
  match a, b with
  | DISCONNECTED, DISCONNECTED | GATHERING, GATHERING | CONNECTING, CONNECTING | CONNECTED, CONNECTED | READY, READY | FAILED, FAILED => true
  | _, _ => false
  end.
Definition all_states : list cstate := [DISCONNECTED; GATHERING; CONNECTING; CONNECTED; READY; FAILED].
Definition cs_lt (a b : cstate) : bool :=
  let n s := match s with DISCONNECTED => 0 | GATHERING => 1 | CONNECTING => 2 | CONNECTED => 3 | READY => 4 | FAILED => 5 end in
  Nat.ltb (n a) (n b).

Definition allowed (o n : cstate) : bool :=
  existsb (cs_eqb n) whitelist_any_target || existsb (fun p => cs_eqb (fst p) o && cs_eqb (snd p) n) whitelist_pairs.

(* one request: None = the assertion fails (abort); otherwise new state and what is announced *)
Definition request (cur n : cstate) : option (cstate * list cstate) :=
  if cs_eqb cur n then Some (cur, []) else if allowed cur n then Some (n, [n]) else None.

Fixpoint requests (cur : cstate) (rs : list cstate) : option (cstate * list cstate) :=
  match rs with
  | [] => Some (cur, [])
  | r :: rs' => match request cur r with
                | None => None
                | Some (c1, a1) => match requests c1 rs' with None => None | Some (c2, a2) => Some (c2, a1 ++ a2) end
                end
  end.

(** transitions documented besides states.gv: the comments of the whitelist itself *)
Definition documented_in_source (o n : cstate) : bool :=
  cs_eqb n FAILED || cs_eqb n GATHERING || (cs_eqb o CONNECTED && cs_eqb n CONNECTING).
Definition documented (o n : cstate) : bool :=
  existsb (fun p => cs_eqb (fst p) o && cs_eqb (snd p) n) doc_edges || documented_in_source o n.

(** call-site programs: what each caller requests as a function of the state it sees *)
(* conn_check_update_check_list_state_for_ready, nice_agent_set_selected_pair, set_selected_remote_candidate *)
Fixpoint progress_to_ready (fuel : nat) (cur : cstate) : list cstate :=
  (if cs_lt cur CONNECTING || cs_eqb cur FAILED then [CONNECTING] else []) ++
  (let c1 := if cs_lt cur CONNECTING || cs_eqb cur FAILED then CONNECTING else cur in
   (if cs_lt c1 CONNECTED then [CONNECTED] else [])) ++ [READY].
Definition site_mark_nominated (cur : cstate) : list cstate :=      (* priv_mark_pair_nominated, valid pair *)
  (if cs_eqb cur FAILED then [CONNECTING] else []) ++
  (let c1 := if cs_eqb cur FAILED then CONNECTING else cur in if cs_eqb c1 CONNECTING then [CONNECTED] else []).
Definition site_pair_added (cur : cstate) : list cstate :=          (* conn_check_add_for_candidate_pair *)
  if cs_eqb cur CONNECTED || cs_eqb cur READY then [CONNECTED] else [CONNECTING].
Definition site_triggered (cur : cstate) : list cstate :=           (* priv_schedule_triggered_check *)
  if cs_eqb cur FAILED then [CONNECTING] else if cs_eqb cur READY then [CONNECTED] else [].
Definition site_nominated_success (cur : cstate) : list cstate :=   (* conncheck.c nominated success response *)
  (if cs_lt cur CONNECTING || cs_eqb cur FAILED then [CONNECTING] else []) ++
  (let c1 := if cs_lt cur CONNECTING || cs_eqb cur FAILED then CONNECTING else cur in if cs_eqb c1 READY then [] else [CONNECTED]).
Definition site_prune_socket (cur : cstate) : list cstate :=
  if cs_eqb cur READY then [FAILED] else if cs_eqb cur CONNECTED then [CONNECTING] else [].
Definition site_gather (cur : cstate) : list cstate := if cs_eqb cur DISCONNECTED || cs_eqb cur FAILED then [GATHERING] else [].

(* fingerprint of the call-site inventory: (file, requested state) in source order *)
Local Open Scope string_scope.
Definition expected_sites : list (string * string) := [
 ("agent/agent.c", "NICE_COMPONENT_STATE_FAILED"); ("agent/agent.c", "NICE_COMPONENT_STATE_GATHERING");
 ("agent/agent.c", "NICE_COMPONENT_STATE_FAILED"); ("agent/agent.c", "NICE_COMPONENT_STATE_CONNECTING");
 ("agent/agent.c", "NICE_COMPONENT_STATE_CONNECTED"); ("agent/agent.c", "NICE_COMPONENT_STATE_READY");
 ("agent/agent.c", "NICE_COMPONENT_STATE_CONNECTING"); ("agent/agent.c", "NICE_COMPONENT_STATE_CONNECTED");
 ("agent/agent.c", "NICE_COMPONENT_STATE_READY"); ("agent/conncheck.c", "NICE_COMPONENT_STATE_FAILED");
 ("agent/conncheck.c", "/* component-id */ NICE_COMPONENT_STATE_FAILED"); ("agent/conncheck.c", "NICE_COMPONENT_STATE_CONNECTING");
 ("agent/conncheck.c", "NICE_COMPONENT_STATE_CONNECTED"); ("agent/conncheck.c", "NICE_COMPONENT_STATE_READY");
 ("agent/conncheck.c", "NICE_COMPONENT_STATE_CONNECTING"); ("agent/conncheck.c", "NICE_COMPONENT_STATE_CONNECTED");
 ("agent/conncheck.c", "NICE_COMPONENT_STATE_CONNECTED"); ("agent/conncheck.c", "NICE_COMPONENT_STATE_CONNECTING");
 ("agent/conncheck.c", "NICE_COMPONENT_STATE_CONNECTING"); ("agent/conncheck.c", "NICE_COMPONENT_STATE_CONNECTED");
 ("agent/conncheck.c", "NICE_COMPONENT_STATE_CONNECTING"); ("agent/conncheck.c", "NICE_COMPONENT_STATE_CONNECTED");
 ("agent/conncheck.c", "NICE_COMPONENT_STATE_FAILED"); ("agent/conncheck.c", "NICE_COMPONENT_STATE_FAILED");
 ("agent/conncheck.c", "NICE_COMPONENT_STATE_CONNECTING"); ("agent/conncheck.c", "NICE_COMPONENT_STATE_FAILED");
 ("agent/conncheck.c", "NICE_COMPONENT_STATE_FAILED"); ("agent/conncheck.c", "NICE_COMPONENT_STATE_CONNECTING");
 ("agent/stream.c", "NICE_COMPONENT_STATE_GATHERING")].

(* guards of the call sites, in source order: the text between the previous statement and the call (or the head of the block the call opens) *)
Definition expected_guards : list string := [
 "if (component->tcp) {";
 "if (component->state == NICE_COMPONENT_STATE_DISCONNECTED || component->state == NICE_COMPONENT_STATE_FAILED)";
 "cket); if (component->selected_pair.local && component->selected_pair.local->sockptr == socket_source->socket && component->state == NICE_COMPONENT_STATE_READY)";
 "if (component->state < NICE_COMPONENT_STATE_CONNECTING || component->state == NICE_COMPONENT_STATE_FAILED)";
 "if (component->state < NICE_COMPONENT_STATE_CONNECTED)";
 "";
 "if (component->state < NICE_COMPONENT_STATE_CONNECTING || component->state == NICE_COMPONENT_STATE_FAILED)";
 "if (component->state < NICE_COMPONENT_STATE_CONNECTED)";
 "";
 "if (now - pair->remote_consent.last_received > consent_timeout)";
 "if (completed && nominated == 0 && component != NULL && component->remote_candidates != NULL)";
 "une_pending_checks (agent, stream, component) == 0) { if (component->state < NICE_COMPONENT_STATE_CONNECTING || component->state == NICE_COMPONENT_STATE_FAILED)";
 "if (component->state < NICE_COMPONENT_STATE_CONNECTED)";
 "";
 "if (pair->valid) { if (component->state == NICE_COMPONENT_STATE_FAILED)";
 "if (component->state == NICE_COMPONENT_STATE_CONNECTING)";
 "if (pair) { if (component->state == NICE_COMPONENT_STATE_CONNECTED || component->state == NICE_COMPONENT_STATE_READY) {";
 "else {";
 "if (component->state == NICE_COMPONENT_STATE_FAILED)";
 "else if (component->state == NICE_COMPONENT_STATE_READY)";
 "if (component->state < NICE_COMPONENT_STATE_CONNECTING || component->state == NICE_COMPONENT_STATE_FAILED)";
 "if (component->state != NICE_COMPONENT_STATE_READY)";
 "ALSE; nice_debug ('Agent %p : pair %p lost consent for %u/%u (stream/component)', agent, pair, stream->id, component->id); if (pair->remote_consent.tick_source)";
 "if (component->state == NICE_COMPONENT_STATE_READY)";
 "else if (component->state == NICE_COMPONENT_STATE_CONNECTED)";
 "if (pair_failed) { if (p_count == 0)";
 "else if (p_nominated == 0) { if (component->state == NICE_COMPONENT_STATE_READY)";
 "else if (component->state == NICE_COMPONENT_STATE_CONNECTED)";
 ""].
