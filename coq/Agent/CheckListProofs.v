(** Theorems about the check-list kernel of agent/conncheck.c (model: Agent/CheckListModel.v), for ALL check lists. *)
From Coq Require Import ZArith List Bool Lia Sorted.
From Nice Require Import Agent.CheckListModel.
Import ListNotations.
Local Open Scope Z_scope.

(** * Basics *)
Lemma pstate_eqb_eq : forall a b, pstate_eqb a b = true <-> a = b.
Proof. destruct a, b; simpl; split; intro H; try reflexivity; try discriminate. Qed.
Lemma is_state_true : forall s p, is_state s p = true <-> p_state p = s.
Proof. intros; unfold is_state; apply pstate_eqb_eq. Qed.
Lemma is_state_false : forall s p, is_state s p = false <-> p_state p <> s.
Proof. intros; split; intro H. - intro E; apply is_state_true in E; congruence.
  - destruct (is_state s p) eqn:E; auto. apply is_state_true in E; contradiction. Qed.
Lemma is_state_set : forall s p, is_state s (set_state p s) = true.
Proof. intros; apply is_state_true; reflexivity. Qed.
Lemma fnd_eqb_refl : forall p, fnd_eqb p p = true.
Proof. intro; unfold fnd_eqb; rewrite !Z.eqb_refl; reflexivity. Qed.
Lemma fnd_eqb_eq : forall a b, fnd_eqb a b = true <-> fnd a = fnd b.
Proof. intros; unfold fnd_eqb, fnd; rewrite andb_true_iff, !Z.eqb_eq; split; [intros [-> ->]; auto | intro H; inversion H; auto]. Qed.
Lemma fnd_in_In : forall p fl, fnd_in p fl = true <-> In (fnd p) fl.
Proof.
  intros; unfold fnd_in; rewrite existsb_exists; split.
  - intros [[a b] [Hi H]]; simpl in H; apply andb_true_iff in H; destruct H as [H1 H2]; apply Z.eqb_eq in H1, H2; subst; exact Hi.
  - intro H; exists (fnd p); split; auto; simpl; rewrite !Z.eqb_refl; reflexivity.
Qed.
Lemma fnd_in_eqb : forall a b fl, fnd_eqb a b = true -> fnd_in a fl = fnd_in b fl.
Proof.
  intros a b fl H; apply fnd_eqb_eq in H.
  destruct (fnd_in a fl) eqn:Ea, (fnd_in b fl) eqn:Eb; auto.
  - apply fnd_in_In in Ea; rewrite H in Ea; apply fnd_in_In in Ea; congruence.
  - apply fnd_in_In in Eb; rewrite <- H in Eb; apply fnd_in_In in Eb; congruence.
Qed.

Lemma F2_length : forall {A B} (R : A -> B -> Prop) l l', Forall2 R l l' -> length l = length l'.
Proof. induction 1; simpl; auto. Qed.

(** * 1. Unfreezing *)
(** what unfreezing may do to one pair: nothing, or FROZEN -> WAITING with every other field unchanged *)
Definition thaw_rel (p q : pair) : Prop := q = p \/ (p_state p = Frozen /\ q = set_state p Waiting).

Lemma unfreeze_list_rel : forall l fl, Forall2 thaw_rel l (snd (unfreeze_list fl l)).
Proof.
  induction l as [|a l IH]; intros fl; simpl; [constructor|].
  destruct (fnd_in a fl).
  - specialize (IH fl); destruct (unfreeze_list fl l); simpl in *; constructor; [left; reflexivity | exact IH].
  - destruct (is_state Frozen a) eqn:E.
    + specialize (IH (fnd a :: fl)); destruct (unfreeze_list (fnd a :: fl) l); simpl in *; constructor; auto.
      right; split; [apply is_state_true; exact E | reflexivity].
    + specialize (IH fl); destruct (unfreeze_list fl l); simpl in *; constructor; [left; reflexivity | exact IH].
Qed.
Lemma unfreeze_streams_rel : forall ss fl, Forall2 (Forall2 thaw_rel) ss (snd (unfreeze_streams fl ss)).
Proof.
  induction ss as [|l ss IH]; intros fl; simpl; [constructor|].
  pose proof (unfreeze_list_rel l fl) as H; destruct (unfreeze_list fl l) as [fl1 l']; simpl in H.
  specialize (IH fl1); destruct (unfreeze_streams fl1 ss); simpl in *; constructor; auto.
Qed.
Lemma thaw_rel_refl_list : forall l, Forall2 thaw_rel l l.
Proof. induction l; constructor; auto; left; reflexivity. Qed.
Lemma thaw_rel_refl_streams : forall ss, Forall2 (Forall2 thaw_rel) ss ss.
Proof. induction ss; constructor; auto using thaw_rel_refl_list. Qed.

Theorem unfreeze_next_only_thaws : forall ss, Forall2 (Forall2 thaw_rel) ss (snd (unfreeze_next ss)).
Proof.
  intro ss; unfold unfreeze_next; destruct (any_waiting ss); simpl; [apply thaw_rel_refl_streams|].
  pose proof (unfreeze_streams_rel ss []) as H; destruct (unfreeze_streams [] ss); simpl in *; exact H.
Qed.

Theorem unfreeze_related_only_thaws : forall ss ok, Forall2 (Forall2 thaw_rel) ss (unfreeze_related ss ok).
Proof.
  intros ss ok; unfold unfreeze_related; induction ss as [|l ss IH]; simpl; constructor; auto.
  clear IH; induction l as [|a l IH]; simpl; constructor; auto.
  destruct (is_state Frozen a) eqn:E; simpl; [|left; reflexivity].
  destruct (fnd_eqb a ok); [right; split; [apply is_state_true; exact E | reflexivity] | left; reflexivity].
Qed.
(** ... and it thaws exactly the FROZEN pairs of the succeeded pair's foundation *)
Theorem unfreeze_related_exact : forall ss ok l p, In l (unfreeze_related ss ok) -> In p l ->
  ~ (p_state p = Frozen /\ fnd p = fnd ok).
Proof.
  intros ss ok l p Hl Hp [Hs Hf]; unfold unfreeze_related in Hl; apply in_map_iff in Hl; destruct Hl as [l0 [<- _]].
  apply in_map_iff in Hp; destruct Hp as [q [Hq _]].
  destruct (is_state Frozen q) eqn:E; simpl in Hq.
  - destruct (fnd_eqb q ok) eqn:F; subst p.
    + simpl in Hs; discriminate.
    + apply fnd_eqb_eq in Hf; congruence.
  - subst p; apply is_state_false in E; contradiction.
Qed.

Lemma update_id_rel : forall id l, Forall2 thaw_rel l (update_id id (fun p => set_state p Waiting) l) \/ exists p, In p l /\ p_id p = id /\ p_state p <> Frozen.
Proof.
  intros id l; induction l as [|a l IH]; simpl; [left; constructor|].
  destruct IH as [IH | [p [Hi [He Hs]]]]; [|right; exists p; auto].
  destruct (p_id a =? id) eqn:E.
  - destruct (is_state Frozen a) eqn:F.
    + left; constructor; auto; right; split; [apply is_state_true; exact F | reflexivity].
    + right; exists a; split; [left; reflexivity|]; split; [apply Z.eqb_eq; exact E | apply is_state_false; exact F].
  - left; constructor; auto; left; reflexivity.
Qed.
(** priv_conn_check_unfreeze_maybe is only called on FROZEN pairs (g_assert); with unique identities it changes that pair only *)
Theorem unfreeze_maybe_only_thaws : forall ss id,
  (forall l p, In l ss -> In p l -> p_id p = id -> p_state p = Frozen) ->
  Forall2 (Forall2 thaw_rel) ss (unfreeze_maybe ss id).
Proof.
  intros ss id H; unfold unfreeze_maybe; destruct (find_id id (concat ss)) as [pr|]; [|apply thaw_rel_refl_streams].
  destruct (existsb _ ss); [|apply thaw_rel_refl_streams].
  induction ss as [|l ss IH]; simpl; constructor.
  - destruct (update_id_rel id l) as [R | [p [Hi [He Hs]]]]; auto. exfalso; apply Hs; apply (H l p); simpl; auto.
  - apply IH; intros l0 p Hl; apply H; right; exact Hl.
Qed.
Theorem unfreeze_maybe_rule : forall ss id pr, find_id id (concat ss) = Some pr ->
  unfreeze_maybe ss id = if existsb (existsb (fun p => is_state Succeeded p && fnd_eqb p pr)) ss
                         then map (update_id id (fun p => set_state p Waiting)) ss else ss.
Proof. intros ss id pr H; unfold unfreeze_maybe; rewrite H; reflexivity. Qed.

(** ** the foundation list of priv_conn_check_unfreeze_next *)
Lemma unfreeze_list_app : forall l1 l2 fl,
  unfreeze_list fl (l1 ++ l2) =
  (fst (unfreeze_list (fst (unfreeze_list fl l1)) l2), snd (unfreeze_list fl l1) ++ snd (unfreeze_list (fst (unfreeze_list fl l1)) l2)).
Proof.
  induction l1 as [|a l1 IH]; intros l2 fl; simpl; [destruct (unfreeze_list fl l2); reflexivity|].
  destruct (fnd_in a fl).
  - rewrite IH; destruct (unfreeze_list fl l1); simpl; reflexivity.
  - destruct (is_state Frozen a).
    + rewrite IH; destruct (unfreeze_list (fnd a :: fl) l1); simpl; reflexivity.
    + rewrite IH; destruct (unfreeze_list fl l1); simpl; reflexivity.
Qed.
Lemma unfreeze_streams_concat : forall ss fl,
  fst (unfreeze_streams fl ss) = fst (unfreeze_list fl (concat ss)) /\
  concat (snd (unfreeze_streams fl ss)) = snd (unfreeze_list fl (concat ss)).
Proof.
  induction ss as [|l ss IH]; intros fl; simpl; [split; reflexivity|].
  rewrite unfreeze_list_app; simpl.
  destruct (unfreeze_list fl l) as [fl1 l'] eqn:E; simpl.
  destruct (IH fl1) as [H1 H2]; destruct (unfreeze_streams fl1 ss) as [fl2 r']; simpl in *.
  split; [exact H1 | rewrite H2; reflexivity].
Qed.

(* the foundation list grows by exactly the foundations of the pairs it thaws *)
Lemma unfreeze_list_fst : forall l fl, Forall (fun p => p_state p <> Waiting) l ->
  fst (unfreeze_list fl l) = rev (map fnd (filter (is_state Waiting) (snd (unfreeze_list fl l)))) ++ fl.
Proof.
  induction l as [|a l IH]; intros fl H; simpl; [reflexivity|].
  inversion H as [|? ? Ha Hl]; subst.
  assert (Wa : is_state Waiting a = false) by (apply is_state_false; exact Ha).
  destruct (fnd_in a fl).
  - specialize (IH fl Hl); destruct (unfreeze_list fl l); simpl in *; rewrite Wa; exact IH.
  - destruct (is_state Frozen a).
    + specialize (IH (fnd a :: fl) Hl); destruct (unfreeze_list (fnd a :: fl) l); simpl in *.
      rewrite IH, <- app_assoc; reflexivity.
    + specialize (IH fl Hl); destruct (unfreeze_list fl l); simpl in *; rewrite Wa; exact IH.
Qed.
Lemma unfreeze_list_nodup : forall l fl, NoDup fl -> NoDup (fst (unfreeze_list fl l)).
Proof.
  induction l as [|a l IH]; intros fl H; simpl; [exact H|].
  destruct (fnd_in a fl) eqn:E.
  - specialize (IH fl H); destruct (unfreeze_list fl l); exact IH.
  - destruct (is_state Frozen a).
    + assert (N : NoDup (fnd a :: fl)).
      { constructor; auto; intro I; apply fnd_in_In in I; congruence. }
      specialize (IH _ N); destruct (unfreeze_list (fnd a :: fl) l); exact IH.
    + specialize (IH fl H); destruct (unfreeze_list fl l); exact IH.
Qed.
Lemma unfreeze_list_fnd_in : forall l fl p,
  fnd_in p (fst (unfreeze_list fl l)) = fnd_in p fl || existsb (fun q => is_state Frozen q && fnd_eqb q p) l.
Proof.
  induction l as [|a l IH]; intros fl p; simpl; [rewrite orb_false_r; reflexivity|].
  destruct (fnd_in a fl) eqn:E.
  - specialize (IH fl p); destruct (unfreeze_list fl l); simpl in *; rewrite IH.
    destruct (fnd_eqb a p) eqn:F.
    + rewrite <- (fnd_in_eqb a p fl F), E; reflexivity.
    + rewrite andb_false_r; reflexivity.
  - destruct (is_state Frozen a) eqn:S.
    + specialize (IH (fnd a :: fl) p); destruct (unfreeze_list (fnd a :: fl) l); simpl in *; rewrite IH.
      unfold fnd_in at 1; simpl. unfold fnd_eqb. fold (fnd_in p fl).
      destruct ((p_lf a =? p_lf p) && (p_rf a =? p_rf p)), (fnd_in p fl); reflexivity.
    + specialize (IH fl p); destruct (unfreeze_list fl l); simpl in *; exact IH.
Qed.
Lemma unfreeze_list_length : forall l fl, length (snd (unfreeze_list fl l)) = length l.
Proof. intros l fl; symmetry; eapply F2_length; apply unfreeze_list_rel. Qed.

Lemma any_waiting_concat : forall ss, any_waiting ss = existsb (is_state Waiting) (concat ss).
Proof. induction ss as [|l ss IH]; simpl; [reflexivity|]. rewrite existsb_app; unfold any_waiting in *; simpl; rewrite IH; reflexivity. Qed.
Lemma no_waiting_forall : forall l, existsb (is_state Waiting) l = false -> Forall (fun p => p_state p <> Waiting) l.
Proof.
  induction l as [|a l IH]; simpl; intro H; constructor; apply orb_false_iff in H; destruct H as [H1 H2]; auto.
  apply is_state_false; exact H1.
Qed.

(** after priv_conn_check_unfreeze_next ran its second phase there is at most ONE waiting pair per foundation in the whole agent
    ("so that we get a single waiting pair per foundation", RFC 8445 6.1.4.2 step 2) *)
Theorem unfreeze_next_one_waiting_per_foundation : forall ss, any_waiting ss = false ->
  NoDup (map fnd (filter (is_state Waiting) (concat (snd (unfreeze_next ss))))).
Proof.
  intros ss H; unfold unfreeze_next; rewrite H.
  destruct (unfreeze_streams_concat ss []) as [H1 H2]; destruct (unfreeze_streams [] ss) as [fl ss']; simpl in *.
  rewrite H2. rewrite any_waiting_concat in H. apply no_waiting_forall in H.
  pose proof (unfreeze_list_fst (concat ss) [] H) as F; rewrite app_nil_r in F.
  pose proof (unfreeze_list_nodup (concat ss) [] (NoDup_nil _)) as N; rewrite F in N.
  apply NoDup_rev in N; rewrite rev_involutive in N; exact N.
Qed.

(** the exact rule: with no WAITING pair in any stream, the k-th pair of the agent (streams in order, each list in order) is thawed
    iff it is FROZEN and no FROZEN pair before it has the same foundation; nothing else changes.
    IN_PROGRESS pairs are not looked at: see [unfreeze_next_ignores_in_progress] *)
Theorem unfreeze_next_rule : forall ss l1 p l2, any_waiting ss = false -> concat ss = l1 ++ p :: l2 ->
  nth_error (concat (snd (unfreeze_next ss))) (length l1) =
  Some (if is_state Frozen p && negb (existsb (fun q => is_state Frozen q && fnd_eqb q p) l1) then set_state p Waiting else p).
Proof.
  intros ss l1 p l2 H C; unfold unfreeze_next; rewrite H.
  destruct (unfreeze_streams_concat ss []) as [_ H2]; destruct (unfreeze_streams [] ss) as [fl ss']; simpl in *.
  rewrite H2, C, unfreeze_list_app; simpl snd.
  rewrite nth_error_app2; rewrite unfreeze_list_length; [|lia]. rewrite Nat.sub_diag.
  pose proof (unfreeze_list_fnd_in l1 [] p) as F; simpl in F.
  simpl. rewrite F.
  destruct (existsb (fun q => is_state Frozen q && fnd_eqb q p) l1); simpl.
  - destruct (unfreeze_list _ l2); simpl; rewrite andb_false_r; reflexivity.
  - destruct (is_state Frozen p); simpl; destruct (unfreeze_list _ l2); reflexivity.
Qed.
Theorem unfreeze_next_keeps_shape : forall ss, map (@length pair) (snd (unfreeze_next ss)) = map (@length pair) ss.
Proof.
  intro ss; pose proof (unfreeze_next_only_thaws ss) as H; induction H; simpl; [reflexivity|].
  f_equal; auto. symmetry; eapply F2_length; eassumption.
Qed.

(* growth of the foundation list: nothing added = nothing changed; something added = a waiting pair exists *)
Lemma unfreeze_list_ext : forall l fl, exists ext, fst (unfreeze_list fl l) = ext ++ fl /\
  (ext = [] -> snd (unfreeze_list fl l) = l) /\ (ext <> [] -> existsb (is_state Waiting) (snd (unfreeze_list fl l)) = true).
Proof.
  induction l as [|a l IH]; intros fl; simpl.
  - exists []; repeat split; auto; intro H; contradiction.
  - destruct (fnd_in a fl).
    + destruct (IH fl) as [ext [E1 [E2 E3]]]; destruct (unfreeze_list fl l); simpl in *; exists ext; repeat split; auto.
      * intro N; rewrite (E2 N); reflexivity.
      * intro N; rewrite (E3 N); apply orb_true_r.
    + destruct (is_state Frozen a).
      * destruct (IH (fnd a :: fl)) as [ext [E1 _]]; destruct (unfreeze_list (fnd a :: fl) l); simpl in *.
        exists (ext ++ [fnd a]); rewrite <- app_assoc; repeat split; auto.
        -- intro N; destruct ext; discriminate.
      * destruct (IH fl) as [ext [E1 [E2 E3]]]; destruct (unfreeze_list fl l); simpl in *; exists ext; repeat split; auto.
        -- intro N; rewrite (E2 N); reflexivity.
        -- intro N; rewrite (E3 N); apply orb_true_r.
Qed.
Lemma unfreeze_list_progress : forall l fl, (exists p, In p l /\ p_state p = Frozen /\ fnd_in p fl = false) ->
  exists ext, ext <> [] /\ fst (unfreeze_list fl l) = ext ++ fl.
Proof.
  induction l as [|a l IH]; intros fl [p [Hi [Hs Hf]]]; [contradiction|]; simpl.
  destruct (fnd_in a fl) eqn:E.
  - destruct Hi as [-> | Hi]; [congruence|].
    destruct (IH fl) as [ext [N X]]; [exists p; auto|]. destruct (unfreeze_list fl l); simpl in *; exists ext; auto.
  - destruct (is_state Frozen a) eqn:S.
    + destruct (unfreeze_list_ext l (fnd a :: fl)) as [ext [X _]]; destruct (unfreeze_list (fnd a :: fl) l); simpl in *.
      exists (ext ++ [fnd a]); split; [destruct ext; discriminate | rewrite <- app_assoc; exact X].
    + destruct Hi as [-> | Hi]; [apply is_state_false in S; contradiction|].
      destruct (IH fl) as [ext [N X]]; [exists p; auto|]. destruct (unfreeze_list fl l); simpl in *; exists ext; auto.
Qed.

(** progress: priv_conn_check_unfreeze_next returns TRUE iff some pair is WAITING or FROZEN, and then a WAITING pair exists afterwards *)
Theorem unfreeze_next_progress : forall ss,
  (exists l p, In l ss /\ In p l /\ (p_state p = Waiting \/ p_state p = Frozen)) ->
  fst (unfreeze_next ss) = true /\ any_waiting (snd (unfreeze_next ss)) = true.
Proof.
  intros ss [l [p [Hl [Hp Hs]]]]; unfold unfreeze_next; destruct (any_waiting ss) eqn:W; simpl; [auto|].
  destruct Hs as [Hs | Hs].
  - exfalso. rewrite any_waiting_concat in W. assert (X : existsb (is_state Waiting) (concat ss) = true); [|congruence].
    apply existsb_exists; exists p; split; [apply in_concat; exists l; auto | apply is_state_true; exact Hs].
  - destruct (unfreeze_streams_concat ss []) as [H1 H2]; destruct (unfreeze_streams [] ss) as [fl ss']; simpl in *.
    destruct (unfreeze_list_progress (concat ss) []) as [ext [N X]].
    { exists p; repeat split; auto. apply in_concat; exists l; auto. }
    destruct (unfreeze_list_ext (concat ss) []) as [ext' [X' [_ E3]]].
    rewrite X in X'; rewrite !app_nil_r in *; subst ext'.
    rewrite any_waiting_concat, H2, (E3 N). rewrite H1, X. destruct ext; [contradiction | auto].
Qed.
Theorem unfreeze_next_false : forall ss, fst (unfreeze_next ss) = false ->
  snd (unfreeze_next ss) = ss /\ forall l p, In l ss -> In p l -> p_state p <> Waiting /\ p_state p <> Frozen.
Proof.
  intros ss H; split.
  - unfold unfreeze_next in *; destruct (any_waiting ss); [discriminate|].
    destruct (unfreeze_streams_concat ss []) as [H1 H2].
    pose proof (unfreeze_streams_rel ss []) as R.
    destruct (unfreeze_streams [] ss) as [fl ss']; simpl in *. destruct fl; [|discriminate].
    destruct (unfreeze_list_ext (concat ss) []) as [ext [X [E2 _]]]. rewrite <- H1, app_nil_r in X; subst ext.
    specialize (E2 eq_refl). rewrite <- H2 in E2.
    (* same concatenation and same shape: same lists *)
    clear H1 H2 H. revert E2; induction R as [|l l' ss ss' Rl Rs IH]; intro E; [reflexivity|]; simpl in E.
    assert (L : length l' = length l) by (symmetry; eapply F2_length; eassumption).
    assert (E' : l' = l /\ concat ss' = concat ss).
    { clear -E L. revert l E L; induction l' as [|x l' IH]; intros [|y l] E L; simpl in *; try discriminate; auto.
      inversion E; subst. destruct (IH l) as [-> ->]; auto. }
    destruct E' as [-> E']; f_equal; auto.
  - intros l p Hl Hp; split; intro S; destruct (unfreeze_next_progress ss) as [T _]; try congruence; exists l, p; auto.
Qed.
(** "this new version is now idempotent" (comment of priv_conn_check_unfreeze_next) *)
Theorem unfreeze_next_idempotent : forall ss, snd (unfreeze_next (snd (unfreeze_next ss))) = snd (unfreeze_next ss).
Proof.
  intro ss; destruct (fst (unfreeze_next ss)) eqn:F.
  - destruct (any_waiting (snd (unfreeze_next ss))) eqn:W.
    + unfold unfreeze_next at 1; rewrite W; reflexivity.
    + exfalso. unfold unfreeze_next in F, W. destruct (any_waiting ss) eqn:W0; simpl in *; [congruence|].
      destruct (unfreeze_streams_concat ss []) as [H1 H2]; destruct (unfreeze_streams [] ss) as [fl ss']; simpl in *.
      destruct (unfreeze_list_ext (concat ss) []) as [ext [X [_ E3]]]. rewrite app_nil_r in X.
      rewrite any_waiting_concat, H2 in W. rewrite E3 in W; [discriminate|]. rewrite <- H1 in X; subst ext. destruct fl; [discriminate|intro; discriminate].
  - destruct (unfreeze_next_false ss F) as [E _]; rewrite E, E; reflexivity.
Qed.

(** * 2. Which pair is checked next (ordinary checks, RFC 8445 6.1.4.2 step 3) *)
Theorem find_next_waiting_some : forall l p, find_next_waiting l = Some p ->
  exists l1 l2, l = l1 ++ p :: l2 /\ p_state p = Waiting /\ Forall (fun q => p_state q <> Waiting) l1.
Proof.
  induction l as [|a l IH]; intros p H; simpl in H; [discriminate|].
  destruct (is_state Waiting a) eqn:E.
  - inversion H; subst; exists [], l; repeat split; auto. apply is_state_true; exact E.
  - destruct (IH p H) as [l1 [l2 [-> [S F]]]]; exists (a :: l1), l2; repeat split; auto.
    constructor; auto. apply is_state_false; exact E.
Qed.
Theorem find_next_waiting_none : forall l, find_next_waiting l = None <-> existsb (is_state Waiting) l = false.
Proof.
  induction l as [|a l IH]; simpl; [split; reflexivity|].
  destruct (is_state Waiting a); simpl; [split; discriminate | exact IH].
Qed.
(* the check list is kept in descending priority order (g_slist_insert_sorted with conn_check_compare) *)
Definition sorted_desc (l : list pair) : Prop := StronglySorted (fun a b => p_prio b <= p_prio a) l.
Lemma sorted_desc_app_tail : forall l1 p l2, sorted_desc (l1 ++ p :: l2) -> Forall (fun q => p_prio q <= p_prio p) l2.
Proof.
  induction l1 as [|a l1 IH]; simpl; intros p l2 H; inversion H; subst; auto.
Qed.
(** the pair picked is the FIRST waiting pair of the list; the list being sorted it has maximal priority among the waiting pairs *)
Theorem find_next_waiting_max : forall l p, sorted_desc l -> find_next_waiting l = Some p ->
  forall q, In q l -> p_state q = Waiting -> p_prio q <= p_prio p.
Proof.
  intros l p S H q Hq Wq. destruct (find_next_waiting_some l p H) as [l1 [l2 [-> [Wp F]]]].
  apply in_app_or in Hq; destruct Hq as [Hq | [<- | Hq]]; [|lia|].
  - rewrite Forall_forall in F; exfalso; exact (F q Hq Wq).
  - pose proof (sorted_desc_app_tail l1 p l2 S) as T; rewrite Forall_forall in T; exact (T q Hq).
Qed.
(** the pair an ordinary check goes to: always the first waiting pair of the stream AFTER priv_conn_check_unfreeze_next ran
    (which does nothing when any stream of the agent still has a waiting pair) *)
Theorem ordinary_select_eq : forall ss si,
  ordinary_select ss si = (find_next_waiting (nth si (snd (unfreeze_next ss)) []), snd (unfreeze_next ss)).
Proof.
  intros ss si; unfold ordinary_select. destruct (find_next_waiting (nth si ss [])) eqn:E; [|reflexivity].
  assert (W : any_waiting ss = true).
  { destruct (find_next_waiting_some _ _ E) as [l1 [l2 [N [S _]]]].
    rewrite any_waiting_concat; apply existsb_exists; exists p; split; [|apply is_state_true; exact S].
    apply in_concat; exists (nth si ss []); split.
    - destruct (Nat.lt_ge_cases si (length ss)) as [L | L]; [apply nth_In; exact L|].
      rewrite nth_overflow in N by exact L; destruct l1; discriminate.
    - rewrite N; apply in_or_app; right; left; reflexivity. }
  unfold unfreeze_next; rewrite W; simpl; rewrite E; reflexivity.
Qed.
Theorem ordinary_select_picks_best_waiting : forall ss si p ss', ordinary_select ss si = (Some p, ss') ->
  Forall2 (Forall2 thaw_rel) ss ss' /\ In p (nth si ss' []) /\ p_state p = Waiting /\
  (sorted_desc (nth si ss' []) -> forall q, In q (nth si ss' []) -> p_state q = Waiting -> p_prio q <= p_prio p).
Proof.
  intros ss si p ss' H; rewrite ordinary_select_eq in H; inversion H as [[H1 H2]]; clear H.
  split; [apply unfreeze_next_only_thaws|].
  destruct (find_next_waiting_some _ _ H1) as [l1 [l2 [N [S _]]]].
  split; [rewrite N; apply in_or_app; right; left; reflexivity|]. split; [exact S|].
  intros Srt q; apply find_next_waiting_max; auto.
Qed.
(* thawing keeps a sorted list sorted (priorities are not touched) *)
Lemma thaw_rel_prio : forall p q, thaw_rel p q -> p_prio q = p_prio p.
Proof. intros p q [-> | [_ ->]]; reflexivity. Qed.
Lemma sorted_desc_thaw : forall l l', Forall2 thaw_rel l l' -> sorted_desc l -> sorted_desc l'.
Proof.
  induction 1 as [|a b l l' Hab Hl IH]; intro S; [constructor|]. inversion S as [|? ? S' F]; subst. constructor; [apply IH; exact S'|].
  cbv beta in *. rewrite (thaw_rel_prio _ _ Hab). clear -Hl F. induction Hl as [|x y l l' Hxy Hl IH]; [constructor|].
  inversion F; subst; constructor; auto. rewrite (thaw_rel_prio _ _ Hxy); assumption.
Qed.

(** * 4. Pruning after a nomination (priv_prune_pending_checks) *)
(* deleted from the list *)
Definition prunable (cid sel : Z) (p : pair) : bool :=
  (p_comp p =? cid) && (if p_trig p && negb (is_state InProgress p) then p_prio p <? sel else is_state Frozen p || is_state Waiting p).
(* counted in the return value: keeps the component from going READY *)
Definition blocking (cid sel : Z) (p : pair) : bool :=
  (p_comp p =? cid) && (if p_trig p && negb (is_state InProgress p) then negb (p_prio p <? sel) else is_state InProgress p && negb (p_prio p <? sel)).
(* what happens to a pair that stays *)
Definition touch (cid sel : Z) (p : pair) : pair :=
  if (p_comp p =? cid) && is_state InProgress p then
    (if p_prio p <? sel then set_retrans (set_trig p false) false else if negb (p_retrans p) && p_stun p then set_retrans p true else p)
  else p.

Theorem prune_spec : forall cid sel l,
  prune cid sel l = (Z.of_nat (length (filter (blocking cid sel) l)), map (touch cid sel) (filter (fun p => negb (prunable cid sel p)) l)).
Proof.
  intros cid sel; induction l as [|a l IH]; [reflexivity|].
  simpl prune; rewrite IH; clear IH. simpl filter.
  generalize (filter (blocking cid sel) l) as BL; generalize (filter (fun p => negb (prunable cid sel p)) l) as R; intros R BL.
  unfold prunable, blocking, is_state.
  destruct (p_comp a =? cid) eqn:C; simpl.
  2:{ f_equal. f_equal. unfold touch; rewrite C; reflexivity. }
  destruct (p_trig a) eqn:T, (p_state a) eqn:S, (p_prio a <? sel) eqn:P; simpl;
    repeat (f_equal; try (rewrite Zpos_P_of_succ_nat; lia)); try (unfold touch, is_state; rewrite C, S; simpl; rewrite ?P; reflexivity).
Qed.

Lemma blocking_true_iff : forall cid sel p, blocking cid sel p = true <->
  p_comp p = cid /\ sel <= p_prio p /\ (p_state p = InProgress \/ p_trig p = true).
Proof.
  intros cid sel p; unfold blocking, is_state.
  rewrite andb_true_iff, Z.eqb_eq.
  destruct (p_trig p), (p_state p); simpl; rewrite ?negb_true_iff, ?Z.ltb_ge, ?andb_true_iff;
    intuition (try discriminate; try lia; auto).
Qed.
Lemma prunable_true_iff : forall cid sel p, prunable cid sel p = true <->
  p_comp p = cid /\ ((p_trig p = true /\ p_state p <> InProgress /\ p_prio p < sel) \/
                     (p_trig p = false /\ (p_state p = Frozen \/ p_state p = Waiting))).
Proof.
  intros cid sel p; unfold prunable, is_state.
  rewrite andb_true_iff, Z.eqb_eq.
  destruct (p_trig p), (p_state p); simpl; rewrite ?Z.ltb_lt;
    intuition (try discriminate; try congruence; auto).
Qed.
Lemma blocking_not_prunable : forall cid sel p, blocking cid sel p = true -> prunable cid sel p = false.
Proof.
  intros cid sel p; unfold blocking, prunable, is_state.
  destruct (p_comp p =? cid), (p_trig p), (p_state p), (p_prio p <? sel); simpl; auto.
Qed.
Lemma touch_fields : forall cid sel p, let q := touch cid sel p in
  p_id q = p_id p /\ p_comp q = p_comp p /\ p_prio q = p_prio p /\ p_state q = p_state p /\ p_nom q = p_nom p /\ p_valid q = p_valid p /\
  fnd q = fnd p /\ p_local q = p_local p /\ p_remote q = p_remote p /\ p_usec q = p_usec p /\ p_mnora q = p_mnora p /\ p_stun q = p_stun p /\ p_disc q = p_disc p.
Proof.
  intros cid sel p; unfold touch. destruct ((p_comp p =? cid) && is_state InProgress p); simpl; [|repeat split].
  destruct (p_prio p <? sel); simpl; [repeat split|]. destruct (negb (p_retrans p) && p_stun p); simpl; repeat split.
Qed.
Lemma touch_id_unless_in_progress : forall cid sel p, p_state p <> InProgress \/ p_comp p <> cid -> touch cid sel p = p.
Proof.
  intros cid sel p H; unfold touch. destruct (p_comp p =? cid) eqn:C; simpl; auto.
  destruct (is_state InProgress p) eqn:S; auto. apply is_state_true in S; apply Z.eqb_eq in C; destruct H; contradiction.
Qed.

(** every pair of the result is a kept pair of the input, in the same order; it is changed only if IN_PROGRESS (retransmit flag, triggered queue) *)
Theorem prune_result : forall cid sel l q, In q (snd (prune cid sel l)) <->
  exists p, In p l /\ prunable cid sel p = false /\ q = touch cid sel p.
Proof.
  intros cid sel l q; rewrite prune_spec; simpl; rewrite in_map_iff; split.
  - intros [p [E I]]; apply filter_In in I; destruct I as [I N]; exists p; repeat split; auto. apply negb_true_iff; exact N.
  - intros [p [I [N E]]]; exists p; split; auto. apply filter_In; split; auto. rewrite N; reflexivity.
Qed.
(** pairs of other components are neither removed nor changed *)
Theorem prune_other_components : forall cid sel l,
  filter (fun p => negb (p_comp p =? cid)) (snd (prune cid sel l)) = filter (fun p => negb (p_comp p =? cid)) l.
Proof.
  intros cid sel l; rewrite prune_spec; simpl. induction l as [|a l IH]; [reflexivity|]. simpl.
  unfold prunable at 1. destruct (p_comp a =? cid) eqn:C; simpl.
  - destruct (if p_trig a && negb (is_state InProgress a) then p_prio a <? sel else is_state Frozen a || is_state Waiting a); simpl; auto.
    destruct (touch_fields cid sel a) as [_ [Hc _]]; rewrite Hc, C; simpl; exact IH.
  - rewrite touch_id_unless_in_progress by (right; apply Z.eqb_neq; exact C). rewrite C; simpl; f_equal; exact IH.
Qed.
(** what is never removed: a pair that is neither FROZEN nor WAITING and whose priority is at least the selected pair's
    - in particular the nominated pair that is the selected pair; and a pair outside the triggered-check queue that is neither FROZEN nor WAITING *)
Theorem prune_keeps_high : forall cid sel l p, In p l -> sel <= p_prio p -> p_state p <> Frozen -> p_state p <> Waiting ->
  In (touch cid sel p) (snd (prune cid sel l)).
Proof.
  intros cid sel l p I H F W; apply prune_result; exists p; repeat split; auto.
  destruct (prunable cid sel p) eqn:E; auto. apply prunable_true_iff in E. destruct E as [_ [[_ [_ L]] | [_ [S | S]]]]; [lia | contradiction | contradiction].
Qed.
Theorem prune_keeps_completed : forall cid sel l p, In p l -> sel <= p_prio p \/ p_trig p = false ->
  p_state p = Succeeded \/ p_state p = Discovered \/ p_state p = Failed -> In p (snd (prune cid sel l)).
Proof.
  intros cid sel l p I H S; apply prune_result; exists p; repeat split; auto.
  - destruct (prunable cid sel p) eqn:E; auto. apply prunable_true_iff in E.
    destruct E as [_ [[T [_ L]] | [_ [X | X]]]]; [destruct H; [lia | congruence] | | ]; destruct S as [S | [S | S]]; congruence.
  - symmetry; apply touch_id_unless_in_progress; left; destruct S as [S | [S | S]]; congruence.
Qed.
(** what is removed, exactly *)
Theorem prune_removes : forall cid sel l p, In p l -> prunable cid sel p = true -> NoDup (map p_id l) ->
  ~ In (p_id p) (map p_id (snd (prune cid sel l))).
Proof.
  intros cid sel l p I Pr N H. apply in_map_iff in H; destruct H as [q [E Q]]. apply prune_result in Q; destruct Q as [p' [I' [N' ->]]].
  destruct (touch_fields cid sel p') as [Hid _]; rewrite Hid in E.
  assert (p' = p); [|subst; congruence].
  clear -I I' E N. induction l as [|a l IH]; [contradiction|]. simpl in N; inversion N as [|? ? Na Nl]; subst.
  destruct I as [-> | I], I' as [-> | I']; auto.
  - exfalso; apply Na; rewrite <- E; apply in_map; exact I'.
  - exfalso; apply Na; rewrite E; apply in_map; exact I.
Qed.
Lemma sorted_desc_filter : forall f l, sorted_desc l -> sorted_desc (filter f l).
Proof.
  intros f l S; induction S as [|a l S IH F]; simpl; [constructor|]. destruct (f a); auto. constructor; auto.
  clear -F; induction F as [|x l Hx F IH]; simpl; [constructor|]. destruct (f x); auto.
Qed.
Lemma sorted_desc_map : forall g l, (forall p, p_prio (g p) = p_prio p) -> sorted_desc l -> sorted_desc (map g l).
Proof.
  intros g l G S; induction S as [|a l S IH F]; simpl; constructor; auto.
  rewrite G; clear -F G; induction F; simpl; constructor; auto. rewrite G; assumption.
Qed.
(** the list stays sorted *)
Theorem prune_sorted : forall cid sel l, sorted_desc l -> sorted_desc (snd (prune cid sel l)).
Proof.
  intros cid sel l S; rewrite prune_spec; simpl. apply sorted_desc_map; [intro p; apply touch_fields | apply sorted_desc_filter; exact S].
Qed.
Theorem prune_count_zero : forall cid sel l, fst (prune cid sel l) = 0 <-> forall p, In p l -> blocking cid sel p = false.
Proof.
  intros cid sel l; rewrite prune_spec; simpl; split.
  - intros H p I; destruct (blocking cid sel p) eqn:B; auto.
    assert (X : In p (filter (blocking cid sel) l)) by (apply filter_In; auto). destruct (filter (blocking cid sel) l); [contradiction | simpl in H; lia].
  - intro H; induction l as [|a l IH]; [reflexivity|]; simpl. rewrite (H a (or_introl eq_refl)); apply IH; intros p I; apply H; right; exact I.
Qed.

Lemma touch_idem : forall cid sel p, touch cid sel (touch cid sel p) = touch cid sel p.
Proof.
  intros cid sel p. destruct ((p_comp p =? cid) && is_state InProgress p) eqn:E; [|unfold touch; rewrite E, E; reflexivity].
  destruct (p_prio p <? sel) eqn:P; [|destruct (negb (p_retrans p) && p_stun p) eqn:R];
    unfold touch, is_state in *; rewrite ?E, ?P, ?R; simpl; rewrite ?E, ?P, ?R; simpl; try reflexivity.
Qed.
Lemma prunable_touch : forall cid sel p, prunable cid sel (touch cid sel p) = prunable cid sel p.
Proof.
  intros cid sel p; unfold touch. destruct ((p_comp p =? cid) && is_state InProgress p) eqn:E; auto.
  apply andb_true_iff in E; destruct E as [C S]. apply is_state_true in S.
  destruct (p_prio p <? sel); [|destruct (negb (p_retrans p) && p_stun p)]; unfold prunable, is_state; simpl; rewrite S, C; simpl; rewrite ?andb_false_r; reflexivity.
Qed.
Lemma blocking_touch : forall cid sel p, blocking cid sel (touch cid sel p) = blocking cid sel p.
Proof.
  intros cid sel p; unfold touch. destruct ((p_comp p =? cid) && is_state InProgress p) eqn:E; auto.
  apply andb_true_iff in E; destruct E as [C S]. apply is_state_true in S.
  destruct (p_prio p <? sel) eqn:P; [|destruct (negb (p_retrans p) && p_stun p)]; unfold blocking, is_state; simpl; rewrite S, C; simpl; rewrite ?andb_false_r; reflexivity.
Qed.
Lemma filter_map_comm : forall {A} (f : A -> bool) (g : A -> A) l, (forall x, f (g x) = f x) -> filter f (map g l) = map g (filter f l).
Proof. intros A f g l H; induction l as [|a l IH]; simpl; auto. rewrite H; destruct (f a); simpl; rewrite IH; reflexivity. Qed.
Lemma filter_filter_same : forall {A} (f : A -> bool) l, filter f (filter f l) = filter f l.
Proof. intros A f l; induction l as [|a l IH]; simpl; auto. destruct (f a) eqn:E; simpl; rewrite ?E, IH; reflexivity. Qed.
(** pruning twice = pruning once (same list, same count) *)
Theorem prune_idempotent : forall cid sel l, prune cid sel (snd (prune cid sel l)) = prune cid sel l.
Proof.
  intros cid sel l; rewrite !prune_spec; simpl. f_equal.
  - f_equal. rewrite filter_map_comm by apply blocking_touch. rewrite map_length.
    f_equal. induction l as [|a l IH]; simpl; auto. destruct (blocking cid sel a) eqn:B.
    + rewrite (blocking_not_prunable _ _ _ B); simpl; rewrite B; simpl; f_equal; exact IH.
    + destruct (prunable cid sel a); simpl; rewrite ?B; exact IH.
  - rewrite (filter_map_comm (fun p => negb (prunable cid sel p))) by (intro x; rewrite prunable_touch; reflexivity).
    rewrite filter_filter_same, map_map. apply map_ext; intro; apply touch_idem.
Qed.

(** * 3. The READY and FAILED decisions *)
Definition has_nominated_valid (cid : Z) (l : list pair) : bool := existsb (fun p => (p_comp p =? cid) && p_valid p && p_nom p) l.
Lemma has_nv_iff : forall cid l, has_nominated_valid cid l = true <-> exists p, In p l /\ p_comp p = cid /\ p_valid p = true /\ p_nom p = true.
Proof.
  intros cid l; unfold has_nominated_valid; rewrite existsb_exists; split; intros [p [I H]]; exists p; split; auto.
  - apply andb_true_iff in H; destruct H as [H N]; apply andb_true_iff in H; destruct H as [C V]; apply Z.eqb_eq in C; auto.
  - destruct H as [-> [-> ->]]; rewrite Z.eqb_refl; reflexivity.
Qed.
Lemma best_nv_none : forall cid l, best_nominated_valid cid l = None <-> has_nominated_valid cid l = false.
Proof.
  intros cid l; unfold best_nominated_valid, has_nominated_valid; induction l as [|a l IH]; simpl; [split; reflexivity|].
  destruct ((p_comp a =? cid) && p_valid a && p_nom a); simpl; [split; discriminate | exact IH].
Qed.
(** "best" is the FIRST valid nominated pair of the component in list order (the one of highest priority, the list being sorted) *)
Lemma best_nv_some : forall cid l b, best_nominated_valid cid l = Some b ->
  p_comp b = cid /\ p_valid b = true /\ p_nom b = true /\
  exists l1 l2, l = l1 ++ b :: l2 /\ has_nominated_valid cid l1 = false.
Proof.
  intros cid l b; unfold best_nominated_valid, has_nominated_valid; induction l as [|a l IH]; simpl; [discriminate|].
  destruct ((p_comp a =? cid) && p_valid a && p_nom a) eqn:E; intro H.
  - inversion H; subst. apply andb_true_iff in E; destruct E as [E N]; apply andb_true_iff in E; destruct E as [C V]; apply Z.eqb_eq in C.
    repeat split; auto. exists [], l; split; reflexivity.
  - destruct (IH H) as [C [V [N [l1 [l2 [-> F]]]]]]. repeat split; auto. exists (a :: l1), l2; split; [reflexivity|]. simpl; rewrite E; exact F.
Qed.
(* the selected pair the decision works with: since e3eeaf1 "best" takes over when there is no selected pair *)
Definition takeover (l : list pair) (c : comp) : comp * list Z :=
  match best_nominated_valid (c_id c) l with
  | Some best => if c_sel_local c =? 0 then update_selected c best else (c, [])
  | None => (c, [])
  end.
(* the condition under which conn_check_update_check_list_state_for_ready walks the component to READY *)
Definition goes_ready (l : list pair) (c : comp) : bool :=
  has_nominated_valid (c_id c) l && forallb (fun p => negb (blocking (c_id c) (c_sel (fst (takeover l c))) p)) l.
(* the condition under which the g_assert (priority > 0) of the pruning step fails *)
Definition faults (l : list pair) (c : comp) : bool :=
  has_nominated_valid (c_id c) l && negb (0 <? c_sel (fst (takeover l c))).
Lemma for_ready_eq : forall l c,
  for_ready l c =
  if faults l c then None
  else let c1 := fst (takeover l c) in
       if goes_ready l c then Some (snd (prune (c_id c) (c_sel c1) l), fst (ready_progress c1), snd (takeover l c) ++ snd (ready_progress c1))
       else if has_nominated_valid (c_id c) l then Some (snd (prune (c_id c) (c_sel c1) l), c1, snd (takeover l c))
       else Some (l, c, []).
Proof.
  intros l c; unfold for_ready, goes_ready, faults, takeover.
  destruct (best_nominated_valid (c_id c) l) as [best|] eqn:N.
  - assert (H : has_nominated_valid (c_id c) l = true).
    { destruct (has_nominated_valid (c_id c) l) eqn:E; auto. apply best_nv_none in E; congruence. }
    rewrite H; simpl.
    destruct (if c_sel_local c =? 0 then update_selected c best else (c, [])) as [c1 o0]; simpl.
    unfold prune_chk. destruct (0 <? c_sel c1); simpl; [|reflexivity].
    destruct (prune (c_id c) (c_sel c1) l) as [k l'] eqn:P; simpl.
    assert (Z0 : (k =? 0) = forallb (fun p => negb (blocking (c_id c) (c_sel c1) p)) l).
    { pose proof (prune_count_zero (c_id c) (c_sel c1) l) as Q; rewrite P in Q; simpl in Q.
      destruct (forallb (fun p => negb (blocking (c_id c) (c_sel c1) p)) l) eqn:F.
      - apply Z.eqb_eq, Q; intros p I; rewrite forallb_forall in F; apply negb_true_iff, F, I.
      - apply Z.eqb_neq; intro K; rewrite Q in K. assert (X : forallb (fun p => negb (blocking (c_id c) (c_sel c1) p)) l = true); [|congruence].
        apply forallb_forall; intros p I; rewrite (K p I); reflexivity. }
    rewrite Z0. destruct (forallb _ l); [destruct (ready_progress c1); reflexivity | reflexivity].
  - apply best_nv_none in N; rewrite N; reflexivity.
Qed.
(** what the take-over does: nothing when a selected pair exists or no valid nominated pair does; otherwise the selected priority becomes
    max (old, best's), and when it grows the selected pair is best's candidates and new-selected-pair is emitted *)
Lemma takeover_spec : forall l c, let c1 := fst (takeover l c) in
  c_id c1 = c_id c /\ c_state c1 = c_state c /\ c_remote c1 = c_remote c /\ c_sel c <= c_sel c1 /\
  (c_sel_local c <> 0 -> takeover l c = (c, [])) /\
  (forall b, best_nominated_valid (c_id c) l = Some b -> c_sel_local c = 0 ->
     c_sel c1 = Z.max (c_sel c) (p_prio b) /\
     (c_sel c < p_prio b -> c_sel_local c1 = p_local b /\ c_sel_remote c1 = p_remote b /\ snd (takeover l c) = [sg_SELECTED]) /\
     (p_prio b <= c_sel c -> takeover l c = (c, []))).
Proof.
  intros l c; unfold takeover, update_selected. destruct (best_nominated_valid (c_id c) l) as [best|].
  - destruct (c_sel_local c =? 0) eqn:L.
    + apply Z.eqb_eq in L. destruct (c_sel c <? p_prio best) eqn:X; [apply Z.ltb_lt in X | apply Z.ltb_ge in X]; simpl;
        (split; [reflexivity|]; split; [reflexivity|]; split; [reflexivity|]; split; [lia|]; split; [intro N; contradiction|]);
        intros b0 Hb _; inversion Hb; subst b0; (split; [lia|]; split; [intro Y; try lia; auto | intro Y; try lia; auto]).
    + apply Z.eqb_neq in L. simpl. split; [reflexivity|]; split; [reflexivity|]; split; [reflexivity|]; split; [lia|]; split; [auto|]. intros b0 _ Y; contradiction.
  - simpl. split; [reflexivity|]; split; [reflexivity|]; split; [reflexivity|]; split; [lia|]; split; [auto|]. intros b0 Hb; discriminate.
Qed.
Lemma ready_progress_spec : forall c, let c' := fst (ready_progress c) in
  c_state c' = st_READY /\ c_id c' = c_id c /\ c_sel c' = c_sel c /\ (c_sel_local c' = c_sel_local c /\ c_remote c' = c_remote c) /\
  (snd (ready_progress c) = [st_CONNECTING; st_CONNECTED; st_READY] \/ snd (ready_progress c) = [st_CONNECTED; st_READY] \/
   snd (ready_progress c) = [st_READY] \/ (snd (ready_progress c) = [] /\ c_state c = st_READY)).
Proof.
  intro c; unfold ready_progress, signal, st_CONNECTING, st_CONNECTED, st_READY, st_FAILED.
  destruct ((c_state c <? 2) || (c_state c =? 5)) eqn:A.
  - assert (c_state c =? 2 = false) as -> by (apply Z.eqb_neq; apply orb_true_iff in A; destruct A as [A | A]; [apply Z.ltb_lt in A | apply Z.eqb_eq in A]; lia).
    simpl; repeat split; auto.
  - apply orb_false_iff in A; destruct A as [A1 A2]; apply Z.ltb_ge in A1; apply Z.eqb_neq in A2.
    destruct (c_state c <? 3) eqn:B.
    + apply Z.ltb_lt in B. assert (c_state c =? 3 = false) as -> by (apply Z.eqb_neq; lia). simpl; repeat split; auto.
    + apply Z.ltb_ge in B. destruct (c_state c =? 4) eqn:D; simpl; repeat split; auto. apply Z.eqb_eq in D; auto 6. right; right; right; split; auto. apply Z.eqb_eq; exact D.
Qed.

Lemma takeover_out : forall l c x, In x (snd (takeover l c)) -> x = sg_SELECTED.
Proof.
  intros l c x; unfold takeover, update_selected. destruct (best_nominated_valid (c_id c) l); [|intros []].
  destruct (c_sel_local c =? 0); [|intros []]. destruct (c_sel c <? p_prio p); simpl; [intros [<- | []]; reflexivity | intros []].
Qed.
Lemma last_app_ne : forall {A} (a b : list A) d, b <> [] -> last (a ++ b) d = last b d.
Proof.
  intros A a b d N; induction a as [|x a IH]; simpl; auto. destruct (a ++ b) eqn:E; [|exact IH].
  destruct a; simpl in E; [contradiction | discriminate].
Qed.
(** READY is announced only if the component has a nominated valid pair and no pair of the component with priority >= the selected
    pair's (after the take-over, if there was no selected pair) is still IN_PROGRESS or queued for a triggered check ... *)
Theorem ready_only_if : forall l c l' c' o, for_ready l c = Some (l', c', o) -> In st_READY o ->
  (exists p, In p l /\ p_comp p = c_id c /\ p_valid p = true /\ p_nom p = true) /\
  (forall q, In q l -> p_comp q = c_id c -> c_sel (fst (takeover l c)) <= p_prio q -> p_state q <> InProgress /\ p_trig q = false).
Proof.
  intros l c l' c' o H R; rewrite for_ready_eq in H. destruct (faults l c); [discriminate|]. cbv zeta in H. destruct (goes_ready l c) eqn:G.
  - unfold goes_ready in G; apply andb_true_iff in G; destruct G as [G1 G2]. split; [apply has_nv_iff; exact G1|].
    intros q I C S. rewrite forallb_forall in G2. specialize (G2 q I). apply negb_true_iff in G2.
    split; [intro X | destruct (p_trig q) eqn:T; auto]; (assert (B : blocking (c_id c) (c_sel (fst (takeover l c))) q = true) by (apply blocking_true_iff; auto)); congruence.
  - exfalso. destruct (has_nominated_valid (c_id c) l); inversion H; subst; [|contradiction].
    apply takeover_out in R; unfold st_READY, sg_SELECTED in R; discriminate.
Qed.
(** ... and under exactly that condition (and a positive selected priority) the component ends READY, through CONNECTING and CONNECTED as needed *)
Theorem ready_if : forall l c, (exists p, In p l /\ p_comp p = c_id c /\ p_valid p = true /\ p_nom p = true) ->
  (forall q, In q l -> p_comp q = c_id c -> c_sel (fst (takeover l c)) <= p_prio q -> p_state q <> InProgress /\ p_trig q = false) ->
  0 < c_sel (fst (takeover l c)) ->
  exists l' c' o, for_ready l c = Some (l', c', o) /\
  c_state c' = st_READY /\ l' = snd (prune (c_id c) (c_sel (fst (takeover l c))) l) /\ (c_state c <> st_READY -> last o 0 = st_READY).
Proof.
  intros l c E B Pos; rewrite for_ready_eq. assert (G : goes_ready l c = true).
  { unfold goes_ready; apply andb_true_iff; split; [apply has_nv_iff; exact E|]. apply forallb_forall; intros q I; apply negb_true_iff.
    destruct (blocking (c_id c) (c_sel (fst (takeover l c))) q) eqn:X; auto. apply blocking_true_iff in X; destruct X as [C [S D]].
    destruct (B q I C S) as [N T]; destruct D; congruence. }
  assert (F : faults l c = false) by (unfold faults; apply Z.ltb_lt in Pos; rewrite Pos, andb_false_r; reflexivity).
  rewrite F; cbv zeta; rewrite G. destruct (ready_progress_spec (fst (takeover l c))) as [S [_ [_ [_ O]]]].
  eexists _, _, _; split; [reflexivity|]. split; [exact S|]. split; [reflexivity|].
  destruct (takeover_spec l c) as [_ [St _]].
  intro N; destruct O as [O | [O | [O | [_ X]]]]; try (rewrite O, last_app_ne by discriminate; reflexivity). congruence.
Qed.
(** otherwise the component state is left alone (the take-over of the selected pair happens all the same) *)
Theorem not_ready_unchanged : forall l c l' c' o, goes_ready l c = false -> for_ready l c = Some (l', c', o) ->
  (has_nominated_valid (c_id c) l = true -> c' = fst (takeover l c) /\ o = snd (takeover l c)) /\
  (has_nominated_valid (c_id c) l = false -> l' = l /\ c' = c /\ o = []).
Proof.
  intros l c l' c' o G H; rewrite for_ready_eq in H. destruct (faults l c); [discriminate|]. cbv zeta in H; rewrite G in H.
  destruct (has_nominated_valid (c_id c) l); inversion H; subst; split; auto; discriminate.
Qed.

(** the assertion of the pruning step (selected priority > 0) cannot fail any more inside the READY decision: with no selected pair the
    best valid nominated pair takes over first.  Hypotheses: pair priorities are positive (they always are: nice_candidate_pair_priority of
    positive candidate priorities), and a selected pair, when there is one, has a positive priority (it is a pair's) *)
Theorem for_ready_never_asserts : forall l c,
  (c_sel_local c <> 0 -> 0 < c_sel c) ->
  (forall p, In p l -> p_comp p = c_id c -> p_valid p = true -> p_nom p = true -> 0 < p_prio p) ->
  for_ready l c <> None.
Proof.
  intros l c Hc Hp; rewrite for_ready_eq. assert (F : faults l c = false).
  { unfold faults. destruct (has_nominated_valid (c_id c) l) eqn:H; [|reflexivity]. simpl. apply negb_false_iff, Z.ltb_lt.
    destruct (best_nominated_valid (c_id c) l) as [b|] eqn:B; [|apply best_nv_none in B; congruence].
    destruct (best_nv_some _ _ _ B) as [C [V [N [l1 [l2 [E _]]]]]].
    assert (Pb : 0 < p_prio b) by (apply Hp; auto; rewrite E; apply in_or_app; right; left; reflexivity).
    destruct (takeover_spec l c) as [_ [_ [_ [Le [T1 T2]]]]].
    destruct (Z.eq_dec (c_sel_local c) 0) as [L | L].
    - destruct (T2 b B L) as [M _]. rewrite M; lia.
    - rewrite (T1 L); simpl; auto. }
  rewrite F; cbv zeta. destruct (goes_ready l c); [discriminate|]. destruct (has_nominated_valid (c_id c) l); discriminate.
Qed.
(** in particular with no selected pair at all (what faulted before e3eeaf1, see [for_ready_without_selected_pair_regression]) *)
Corollary for_ready_no_selected_pair : forall l c, c_sel_local c = 0 ->
  (forall p, In p l -> p_comp p = c_id c -> p_valid p = true -> p_nom p = true -> 0 < p_prio p) -> for_ready l c <> None.
Proof. intros l c L Hp; apply for_ready_never_asserts; auto. intro N; contradiction. Qed.
(** the only way left to the assertion: a valid nominated pair AND a selected priority that is not positive after the take-over *)
Theorem for_ready_asserts_iff : forall l c, for_ready l c = None <-> faults l c = true.
Proof.
  intros l c; rewrite for_ready_eq. destruct (faults l c); [split; reflexivity|]. cbv zeta.
  destruct (goes_ready l c); [split; discriminate|]. destruct (has_nominated_valid (c_id c) l); split; discriminate.
Qed.

(** FAILED *)
Lemma fails_true_iff : forall l c, fails l c = true <->
  c_remote c = true /\ forall p, In p l -> p_comp p = c_id c ->
    (p_state p = Failed \/ p_state p = Succeeded \/ p_state p = Discovered) /\ p_nom p = false.
Proof.
  intros l c; unfold fails, comp_completed, comp_nominated. rewrite !andb_true_iff, forallb_forall, Nat.eqb_eq. split.
  - intros [[H1 H2] H3]; split; auto. intros p I C. specialize (H1 p I). rewrite C, Z.eqb_refl in H1; simpl in H1.
    split.
    + apply orb_true_iff in H1; destruct H1 as [H1 | H1]; [apply orb_true_iff in H1; destruct H1 as [H1 | H1]|]; apply is_state_true in H1; auto.
    + destruct (p_nom p) eqn:N; auto. exfalso.
      assert (X : In p (filter (fun p0 => (p_comp p0 =? c_id c) && p_nom p0) l)) by (apply filter_In; split; auto; rewrite C, Z.eqb_refl, N; reflexivity).
      destruct (filter _ l); [contradiction | discriminate].
  - intros [R H]; repeat split; auto.
    + intros p I. destruct (p_comp p =? c_id c) eqn:C; simpl; auto. apply Z.eqb_eq in C. destruct (H p I C) as [[S | [S | S]] _]; unfold is_state; rewrite S; reflexivity.
    + induction l as [|a l IH]; simpl; auto. destruct (p_comp a =? c_id c) eqn:C; simpl.
      * apply Z.eqb_eq in C. destruct (H a (or_introl eq_refl) C) as [_ ->]. apply IH; intros p I; apply H; right; exact I.
      * apply IH; intros p I; apply H; right; exact I.
Qed.
Lemma failed_loop_spec : forall l cs cid st, In (cid, st) (snd (failed_loop l cs)) <->
  st = st_FAILED /\ exists c, In c cs /\ c_id c = cid /\ c_state c <> st_FAILED /\ fails l c = true.
Proof.
  intros l cs cid st; induction cs as [|c cs IH]; simpl; [split; [contradiction | intros [_ [c [[] _]]]]|].
  destruct (failed_loop l cs) as [r' o'] eqn:E; simpl in *.
  destruct (fails l c) eqn:F; unfold signal; [destruct (c_state c =? st_FAILED) eqn:S|]; simpl.
  - rewrite IH; split; intros [-> [c0 [I H]]]; split; auto; [exists c0; auto|].
    destruct I as [<- | I]; [|exists c0; auto]. apply Z.eqb_eq in S; destruct H as [_ [H _]]; contradiction.
  - split.
    + intros [X | X]; [inversion X; subst; split; auto; exists c; repeat split; auto; apply Z.eqb_neq; exact S|].
      apply IH in X; destruct X as [-> [c0 [I H]]]; split; auto; exists c0; auto.
    + intros [-> [c0 [[<- | I] [H1 H2]]]]; [left; rewrite H1; reflexivity | right; apply IH; split; auto; exists c0; auto].
  - rewrite IH; split; intros [-> [c0 [I H]]]; split; auto; [exists c0; auto|].
    destruct I as [<- | I]; [destruct H as [_ [_ H]]; congruence | exists c0; auto].
Qed.
(** FAILED is announced for a component exactly when: the stream has a check list, no candidate discovery is pending in the agent, the
    component is not FAILED yet, has remote candidates, every pair of the component is FAILED, SUCCEEDED or DISCOVERED and none is nominated *)
Theorem failed_iff : forall disc l cs cid st, In (cid, st) (snd (failed_components disc l cs)) <->
  st = st_FAILED /\ l <> [] /\ disc = false /\
  exists c, In c cs /\ c_id c = cid /\ c_state c <> st_FAILED /\ c_remote c = true /\
    forall p, In p l -> p_comp p = cid -> (p_state p = Failed \/ p_state p = Succeeded \/ p_state p = Discovered) /\ p_nom p = false.
Proof.
  intros disc l cs cid st; unfold failed_components. destruct l as [|a l]; [simpl; split; [contradiction | intros [_ [H _]]; contradiction]|].
  destruct disc; [simpl; split; [contradiction | intros [_ [_ [H _]]]; discriminate]|].
  rewrite failed_loop_spec; split.
  - intros [-> [c [I [E [S F]]]]]; repeat split; auto; [discriminate|]. apply fails_true_iff in F; destruct F as [R F].
    exists c; split; [exact I|]; split; [exact E|]; split; [exact S|]; split; [exact R|]. intros p Ip Cp; apply F; auto; congruence.
  - intros [-> [_ [_ [c [I [E [S [R F]]]]]]]]; split; auto. exists c; split; [exact I|]; split; [exact E|]; split; [exact S|]. apply fails_true_iff; split; auto.
    intros p Ip Cp; apply F; auto; congruence.
Qed.
(** the two decisions exclude each other (on the same list, for components with the same id) *)
Theorem ready_excludes_failed : forall l c c2, c_id c2 = c_id c -> goes_ready l c = true -> fails l c2 = false.
Proof.
  intros l c c2 E G; unfold goes_ready in G; apply andb_true_iff in G; destruct G as [G _]. apply has_nv_iff in G; destruct G as [p [I [C [_ N]]]].
  destruct (fails l c2) eqn:F; auto. apply fails_true_iff in F; destruct F as [_ F]. destruct (F p I) as [_ X]; congruence.
Qed.
Theorem failed_excludes_ready : forall l c c2, c_id c2 = c_id c -> fails l c2 = true -> for_ready l c = Some (l, c, []).
Proof.
  intros l c c2 E F; rewrite for_ready_eq. assert (H : has_nominated_valid (c_id c) l = false).
  { destruct (has_nominated_valid (c_id c) l) eqn:X; auto. apply has_nv_iff in X; destruct X as [p [I [C [_ N]]]].
    apply fails_true_iff in F; destruct F as [_ F]. destruct (F p I) as [_ Y]; congruence. }
  unfold goes_ready, faults; rewrite H; reflexivity.
Qed.

(** * 5. Idempotence *)
Lemma has_nv_prune : forall cid sel l, has_nominated_valid cid (snd (prune cid sel l)) = true -> has_nominated_valid cid l = true.
Proof.
  intros cid sel l H; apply has_nv_iff in H; destruct H as [q [I [C [V N]]]]. apply prune_result in I; destruct I as [p [I [_ ->]]].
  destruct (touch_fields cid sel p) as [_ [Hc [_ [_ [Hn [Hv _]]]]]]. apply has_nv_iff; exists p; repeat split; congruence.
Qed.
Lemma blocking_forall_prune : forall cid sel l,
  forallb (fun p => negb (blocking cid sel p)) (snd (prune cid sel l)) = forallb (fun p => negb (blocking cid sel p)) l.
Proof.
  intros cid sel l. pose proof (prune_idempotent cid sel l) as I. pose proof (prune_count_zero cid sel l) as A.
  pose proof (prune_count_zero cid sel (snd (prune cid sel l))) as B. rewrite I in B.
  destruct (forallb (fun p => negb (blocking cid sel p)) l) eqn:F.
  - apply forallb_forall; intros p Ip; apply negb_true_iff. apply B; auto. apply A; intros q Iq; rewrite forallb_forall in F; apply negb_true_iff, F, Iq.
  - destruct (forallb (fun p => negb (blocking cid sel p)) (snd (prune cid sel l))) eqn:G; auto.
    assert (X : forallb (fun p => negb (blocking cid sel p)) l = true); [|congruence].
    apply forallb_forall; intros p Ip; apply negb_true_iff. apply A; auto. apply B; intros q Iq; rewrite forallb_forall in G; apply negb_true_iff, G, Iq.
Qed.
Lemma ready_progress_noop : forall c, c_state c = st_READY -> ready_progress c = (c, []).
Proof. intros c H; unfold ready_progress, signal, st_CONNECTING, st_CONNECTED, st_READY, st_FAILED in *; rewrite H; simpl; rewrite H; simpl; rewrite H; reflexivity. Qed.
(** applying the READY decision twice announces nothing new and changes nothing more.  Hypotheses (they hold in the code): candidate
    pointers of pairs are not NULL, and without a selected pair the selected priority is 0 (nice_component_clear_selected_pair) *)
Theorem for_ready_idempotent : forall l c l1 c1 o1, (forall p, In p l -> p_local p <> 0) -> (c_sel_local c = 0 -> c_sel c = 0) ->
  for_ready l c = Some (l1, c1, o1) -> for_ready l1 c1 = Some (l1, c1, []).
Proof.
  intros l c l1 c1 o1 HL HC H. rewrite for_ready_eq in H. destruct (faults l c) eqn:F; [discriminate|]. cbv zeta in H.
  destruct (has_nominated_valid (c_id c) l) eqn:NV.
  2:{ unfold goes_ready in H; rewrite NV in H; simpl in H. inversion H; subst. rewrite for_ready_eq; unfold faults, goes_ready; rewrite NV; reflexivity. }
  set (ct := fst (takeover l c)) in *.
  assert (Pos : 0 < c_sel ct) by (unfold faults in F; rewrite NV in F; simpl in F; apply negb_false_iff, Z.ltb_lt in F; exact F).
  destruct (takeover_spec l c) as [Tid [_ [_ [_ [T1 T2]]]]]. fold ct in Tid.
  assert (Loc : c_sel_local ct <> 0).
  { destruct (Z.eq_dec (c_sel_local c) 0) as [L | L]; [|unfold ct; rewrite (T1 L); exact L].
    destruct (best_nominated_valid (c_id c) l) as [b|] eqn:B; [|apply best_nv_none in B; congruence].
    destruct (T2 b eq_refl L) as [M [Up _]]. fold ct in M, Up. rewrite (HC L) in *.
    assert (X : 0 < p_prio b) by lia. destruct (Up X) as [-> _].
    destruct (best_nv_some _ _ _ B) as [_ [_ [_ [l1' [l2' [E _]]]]]]. apply HL; rewrite E; apply in_or_app; right; left; reflexivity. }
  assert (Key : forall c', c_id c' = c_id c -> c_sel c' = c_sel ct -> c_sel_local c' = c_sel_local ct ->
                (goes_ready l c = true -> c_state c' = st_READY) ->
                for_ready (snd (prune (c_id c) (c_sel ct) l)) c' = Some (snd (prune (c_id c) (c_sel ct) l), c', [])).
  { intros c' Hid Hsel Hloc Hst. set (l' := snd (prune (c_id c) (c_sel ct) l)).
    assert (TK : takeover l' c' = (c', [])).
    { destruct (takeover_spec l' c') as [_ [_ [_ [_ [T1' _]]]]]. apply T1'; rewrite Hloc; exact Loc. }
    rewrite for_ready_eq. unfold faults, goes_ready. rewrite TK; simpl. rewrite Hid, Hsel. unfold l'. rewrite blocking_forall_prune, prune_idempotent.
    apply Z.ltb_lt in Pos; rewrite Pos; simpl. rewrite andb_false_r.
    destruct (has_nominated_valid (c_id c) (snd (prune (c_id c) (c_sel ct) l))); simpl; [|reflexivity].
    destruct (forallb (fun p => negb (blocking (c_id c) (c_sel ct) p)) l) eqn:FB; [|reflexivity].
    assert (G : goes_ready l c = true) by (unfold goes_ready; rewrite NV; exact FB).
    rewrite (ready_progress_noop _ (Hst G)); reflexivity. }
  destruct (goes_ready l c) eqn:G; inversion H; subst.
  - destruct (ready_progress_spec ct) as [S [Hi [Hs [[Hl _] _]]]]. apply Key; auto; congruence.
  - apply Key; auto. intro; discriminate.
Qed.
Lemma failed_loop_twice : forall l cs, failed_loop l (fst (failed_loop l cs)) = (fst (failed_loop l cs), []).
Proof.
  intros l cs; induction cs as [|c cs IH]; [reflexivity|]. simpl.
  destruct (failed_loop l cs) as [r' o'] eqn:E; simpl in *.
  destruct (fails l c) eqn:F; unfold signal.
  - destruct (c_state c =? st_FAILED) eqn:S; simpl; rewrite IH.
    + rewrite F; unfold signal; rewrite S; reflexivity.
    + assert (F' : fails l (set_cstate c st_FAILED) = true) by exact F. rewrite F'; unfold signal; simpl; reflexivity.
  - simpl; rewrite IH, F; reflexivity.
Qed.
Theorem failed_components_idempotent : forall disc l cs,
  failed_components disc l (fst (failed_components disc l cs)) = (fst (failed_components disc l cs), []).
Proof.
  intros disc l cs; unfold failed_components. destruct l; [reflexivity|]. destruct disc; [reflexivity|]. apply failed_loop_twice.
Qed.

(** * 6. Progress of the ordinary-check scheduler over the whole agent *)
Definition P (ss : list stream) : list (list pair) := map s_pairs ss.
Lemma set_pairs_same : forall s, set_pairs s (s_pairs s) = s.
Proof. destruct s; reflexivity. Qed.
Lemma put_pairs_same : forall ss, put_pairs ss (P ss) = ss.
Proof. induction ss as [|s ss IH]; simpl; auto. rewrite set_pairs_same, IH; reflexivity. Qed.
Lemma put_pairs_P : forall ss ls, length ls = length ss -> P (put_pairs ss ls) = ls.
Proof. induction ss as [|s ss IH]; intros [|l ls] H; simpl in *; try discriminate; auto. unfold P in *; simpl; rewrite IH; auto. Qed.
Lemma put_pairs_length : forall ss ls, length (put_pairs ss ls) = length ss.
Proof. induction ss as [|s ss IH]; intros [|l ls]; simpl; auto. Qed.
Lemma put_pairs_creds : forall ss ls, Forall (fun s => s_creds s = true) ss -> Forall (fun s => s_creds s = true) (put_pairs ss ls).
Proof. induction ss as [|s ss IH]; intros [|l ls] H; simpl; auto. inversion H; subst; constructor; auto. Qed.
Lemma unfreeze_next_length : forall ss, length (snd (unfreeze_next ss)) = length ss.
Proof. intro ss; symmetry; eapply F2_length; apply unfreeze_next_only_thaws. Qed.

(* a check was started *)
Definition sent (r : option (bool * list stream * list (nat * Z * Z))) : bool := match r with Some (true, _, _) => true | _ => false end.
Lemma sent_true : forall r, sent r = true -> exists ss' o, r = Some (true, ss', o).
Proof. intros [[[[|] ss'] o]|] H; try discriminate. exists ss', o; reflexivity. Qed.
Lemma ordinary_check_cases : forall rfc ctl ss si,
  let ls := snd (unfreeze_next (P ss)) in
  match find_next_waiting (nth si ls []) with
  | None => ordinary_check rfc ctl true ss si = Some (false, put_pairs ss ls, [])
  | Some p => Forall (fun s => s_creds s = true) ss -> sent (ordinary_check rfc ctl true ss si) = true
  end.
Proof.
  intros rfc ctl ss si ls; unfold ordinary_check. fold (P ss). rewrite ordinary_select_eq. fold ls.
  destruct (find_next_waiting (nth si ls [])) as [p|] eqn:E; [|reflexivity].
  intro C. assert (L : (si < length ls)%nat).
  { destruct (Nat.lt_ge_cases si (length ls)); auto. rewrite nth_overflow in E by assumption; discriminate. }
  assert (L2 : length ls = length ss) by (unfold ls; rewrite unfreeze_next_length; unfold P; apply map_length).
  destruct (nth_error (put_pairs ss ls) si) as [s|] eqn:N.
  - assert (Cs : s_creds s = true).
    { pose proof (put_pairs_creds ss ls C) as F; rewrite Forall_forall in F; apply F; eapply nth_error_In; eassumption. }
    rewrite Cs; reflexivity.
  - apply nth_error_None in N; rewrite put_pairs_length in N; lia.
Qed.

Lemma ordinary_agent_from_waiting : forall rfc ctl n i ss, length ss = (i + n)%nat -> Forall (fun s => s_creds s = true) ss ->
  (exists k, (i <= k)%nat /\ existsb (is_state Waiting) (nth k (P ss) []) = true) ->
  sent (ordinary_agent_from rfc ctl (fun _ => true) ss i n) = true.
Proof.
  intros rfc ctl; induction n as [|n IH]; intros i ss L C [k [K W]].
  - rewrite nth_overflow in W; [discriminate|]. unfold P; rewrite map_length; lia.
  - simpl. assert (AW : any_waiting (P ss) = true).
    { rewrite any_waiting_concat. apply existsb_exists in W; destruct W as [p [I S]]. apply existsb_exists; exists p; split; auto.
      apply in_concat; exists (nth k (P ss) []); split; auto. apply nth_In. destruct (Nat.lt_ge_cases k (length (P ss))); auto.
      rewrite nth_overflow in I by assumption; contradiction. }
    pose proof (ordinary_check_cases rfc ctl ss i) as O; cbv zeta in O.
    assert (U : snd (unfreeze_next (P ss)) = P ss) by (unfold unfreeze_next; rewrite AW; reflexivity). rewrite U in O.
    destruct (find_next_waiting (nth i (P ss) [])) eqn:E.
    + specialize (O C). destruct (ordinary_check rfc ctl true ss i) as [[[[|] ss1] o]|]; simpl in O; try discriminate; reflexivity.
    + rewrite O, put_pairs_same. simpl.
      assert (X : sent (ordinary_agent_from rfc ctl (fun _ => true) ss (S i) n) = true).
      { apply IH; auto; [lia|]. exists k; split; auto. destruct (Nat.eq_dec k i) as [-> | D]; [|lia].
        apply find_next_waiting_none in E; congruence. }
      destruct (ordinary_agent_from rfc ctl (fun _ => true) ss (S i) n) as [[[[|] b] c]|]; simpl in *; auto.
Qed.
(** If the remote credentials are known and sending works: whenever some pair of some stream is WAITING or FROZEN, the ordinary-check step of
    the Ta tick starts a check (so the scheduler cannot stall while untested pairs remain, whatever is IN_PROGRESS) *)
Theorem ordinary_agent_progress : forall rfc ctl ss, Forall (fun s => s_creds s = true) ss ->
  (exists s p, In s ss /\ In p (s_pairs s) /\ (p_state p = Waiting \/ p_state p = Frozen)) ->
  exists ss' o, ordinary_agent rfc ctl (fun _ => true) ss = Some (true, ss', o).
Proof.
  intros rfc ctl ss C [s [p [Is [Ip St]]]]; apply sent_true; unfold ordinary_agent.
  assert (AW0 : any_waiting (snd (unfreeze_next (P ss))) = true).
  { apply unfreeze_next_progress; exists (s_pairs s), p; repeat split; auto. unfold P; apply in_map; exact Is. }
  destruct (any_waiting (P ss)) eqn:AW.
  - apply ordinary_agent_from_waiting; auto.
    rewrite any_waiting_concat in AW; apply existsb_exists in AW; destruct AW as [q [I S]]. apply in_concat in I; destruct I as [l [Il Iq]].
    destruct (In_nth _ _ [] Il) as [k [K E]]; exists k; split; [lia|]. rewrite E; apply existsb_exists; exists q; auto.
  - destruct ss as [|s0 ss0]; [contradiction|]. remember (s0 :: ss0) as ss. assert (Len : length ss = S (length ss0)) by (subst; reflexivity). rewrite Len. simpl.
    pose proof (ordinary_check_cases rfc ctl ss 0) as O; cbv zeta in O.
    destruct (find_next_waiting (nth 0 (snd (unfreeze_next (P ss))) [])) eqn:E.
    + specialize (O C). destruct (ordinary_check rfc ctl true ss 0) as [[[[|] ss1] o]|]; simpl in O; try discriminate; reflexivity.
    + rewrite O. simpl.
      set (ls := snd (unfreeze_next (P ss))) in *.
      assert (LL : length ls = length ss) by (unfold ls; rewrite unfreeze_next_length; unfold P; apply map_length).
      assert (X : sent (ordinary_agent_from rfc ctl (fun _ => true) (put_pairs ss ls) 1 (length ss0)) = true).
      { apply ordinary_agent_from_waiting; [rewrite put_pairs_length; lia | apply put_pairs_creds; exact C|].
        rewrite put_pairs_P by exact LL.
        rewrite any_waiting_concat in AW0; apply existsb_exists in AW0; destruct AW0 as [q [I S]]. apply in_concat in I; destruct I as [l [Il Iq]].
        destruct (In_nth _ _ [] Il) as [k [K Ek]]; exists k; split.
        - destruct k; [|lia]. exfalso. apply find_next_waiting_none in E. rewrite Ek in E.
          assert (Y : existsb (is_state Waiting) l = true) by (apply existsb_exists; exists q; auto). congruence.
        - rewrite Ek; apply existsb_exists; exists q; auto. }
      destruct (ordinary_agent_from rfc ctl (fun _ => true) (put_pairs ss ls) 1 (length ss0)) as [[[[|] b] c]|]; simpl in *; auto.
Qed.
Lemma F2_in_r : forall {A B} (R : A -> B -> Prop) l l' y, Forall2 R l l' -> In y l' -> exists x, In x l /\ R x y.
Proof. induction 1 as [|a b l l' Hab H IH]; intros I; [contradiction|]. destruct I as [<- | I]; [exists a; split; [left|]; auto|]. destruct (IH I) as [x [Ix Rx]]; exists x; split; [right|]; auto. Qed.
Lemma F2_concat : forall {A B} (R : A -> B -> Prop) ss ss', Forall2 (Forall2 R) ss ss' -> Forall2 R (concat ss) (concat ss').
Proof. induction 1; simpl; [constructor|]. apply Forall2_app; auto. Qed.
Lemma unfreeze_next_true : forall ss, fst (unfreeze_next ss) = true ->
  exists l p, In l ss /\ In p l /\ (p_state p = Waiting \/ p_state p = Frozen).
Proof.
  intros ss H. destruct (any_waiting ss) eqn:AW.
  - rewrite any_waiting_concat in AW; apply existsb_exists in AW; destruct AW as [q [I S]]. apply in_concat in I; destruct I as [l [Il Iq]].
    exists l, q; repeat split; auto. left; apply is_state_true; exact S.
  - assert (W : any_waiting (snd (unfreeze_next ss)) = true).
    { destruct (any_waiting (snd (unfreeze_next ss))) eqn:X; auto. exfalso.
      unfold unfreeze_next in H, X; rewrite AW in H, X.
      destruct (unfreeze_streams_concat ss []) as [H1 H2]; destruct (unfreeze_streams [] ss) as [fl ss']; simpl in *.
      destruct (unfreeze_list_ext (concat ss) []) as [ext [E1 [_ E3]]]. rewrite app_nil_r in E1. rewrite any_waiting_concat, H2 in X.
      rewrite E3 in X; [discriminate|]. rewrite <- H1 in E1; subst ext; destruct fl; [discriminate | intro; discriminate]. }
    rewrite any_waiting_concat in W; apply existsb_exists in W; destruct W as [q [I S]]. apply is_state_true in S.
    destruct (F2_in_r _ _ _ q (F2_concat _ _ _ (unfreeze_next_only_thaws ss)) I) as [p [Ip [-> | [Fp _]]]].
    + exfalso. rewrite any_waiting_concat in AW. assert (Y : existsb (is_state Waiting) (concat ss) = true); [|congruence].
      apply existsb_exists; exists p; split; auto; apply is_state_true; exact S.
    + apply in_concat in Ip; destruct Ip as [l [Il Ip]]. exists l, p; auto.
Qed.
Lemma ordinary_agent_from_idle : forall rfc ctl ok n i ss, (forall s p, In s ss -> In p (s_pairs s) -> p_state p <> Waiting /\ p_state p <> Frozen) ->
  ordinary_agent_from rfc ctl ok ss i n = Some (false, ss, []).
Proof.
  intros rfc ctl ok; induction n as [|n IH]; intros i ss H; [reflexivity|]. simpl.
  assert (F : fst (unfreeze_next (P ss)) = false).
  { destruct (fst (unfreeze_next (P ss))) eqn:X; auto. apply unfreeze_next_true in X; destruct X as [l [p [Il [Ip St]]]].
    unfold P in Il; apply in_map_iff in Il; destruct Il as [s [<- Is]]. destruct (H s p Is Ip); destruct St; contradiction. }
  destruct (unfreeze_next_false _ F) as [U _].
  assert (O : ordinary_check rfc ctl (ok i) ss i = Some (false, ss, [])).
  { unfold ordinary_check. fold (P ss). rewrite ordinary_select_eq, U.
    assert (E : find_next_waiting (nth i (P ss) []) = None).
    { apply find_next_waiting_none. destruct (existsb (is_state Waiting) (nth i (P ss) [])) eqn:X; auto. apply existsb_exists in X; destruct X as [p [Ip S]].
      destruct (Nat.lt_ge_cases i (length (P ss))) as [L | L]; [|rewrite nth_overflow in Ip by assumption; contradiction].
      pose proof (nth_In (P ss) [] L) as Il. unfold P in Il at 2; apply in_map_iff in Il; destruct Il as [s [Es Is]].
      rewrite <- Es in Ip. destruct (H s p Is Ip) as [N _]; apply is_state_true in S; contradiction. }
    rewrite E, put_pairs_same; reflexivity. }
  rewrite O, IH; auto.
Qed.
(** ... and when no pair is WAITING or FROZEN the step sends nothing and changes nothing *)
Theorem ordinary_agent_idle : forall rfc ctl ok ss, (forall s p, In s ss -> In p (s_pairs s) -> p_state p <> Waiting /\ p_state p <> Frozen) ->
  ordinary_agent rfc ctl ok ss = Some (false, ss, []).
Proof. intros; unfold ordinary_agent; apply ordinary_agent_from_idle; assumption. Qed.

(** * 7. Nomination by the peer (priv_mark_pair_nominated) *)
Definition matches (lc rc : Z) (p : pair) : bool := (p_local p =? lc) && (p_remote p =? rc).
(** the controlling side of an RFC 5245 agent ignores USE-CANDIDATE *)
Theorem mark_nominated_controlling_rfc : forall l c lc rc, mark_nominated true true l c lc rc = Some (false, l, c, []).
Proof. reflexivity. Qed.
Lemma mark_loop_no_match : forall rfc lc rc n rest st, Forall (fun p => matches lc rc p = false) rest -> mark_loop rfc lc rc n rest st = Some st.
Proof.
  intros rfc lc rc; induction n as [|n IH]; intros rest st F; [reflexivity|]. simpl. destruct rest as [|p rest]; [reflexivity|].
  inversion F as [|? ? Hp Hr]; subst. unfold matches in Hp; rewrite Hp. apply IH; exact Hr.
Qed.
(** no pair for these candidates: nothing happens, FALSE is returned (the caller then remembers the nomination in the pending check) *)
Theorem mark_nominated_no_match : forall rfc ctl l c lc rc, Forall (fun p => matches lc rc p = false) l ->
  mark_nominated rfc ctl l c lc rc = Some (false, l, c, []).
Proof. intros rfc ctl l c lc rc F; unfold mark_nominated. destruct (rfc && ctl); [reflexivity | apply mark_loop_no_match; exact F]. Qed.

(** RFC 5245 agents: a matching pair that is not (yet) valid is NOT nominated; the nomination is only remembered
    (mark_nominated_on_response_arrival) when the pair is in the triggered-check queue or IN_PROGRESS; component and list are otherwise untouched *)
Theorem mark_body_rfc_not_valid : forall p res L c out t0,
  find_id (if is_state Succeeded p && negb (p_disc p =? 0) then p_disc p else p_id p) L = Some t0 ->
  p_valid t0 = false -> p_nom t0 = false ->
  mark_body true p (res, L, c, out) =
  Some (res || (p_trig t0 || is_state InProgress t0),
        if p_trig t0 || is_state InProgress t0 then update_id (p_id t0) (fun q => set_mnora q true) L else L, c, out ++ []).
Proof.
  intros p res L c out t0 F V N; unfold mark_body; rewrite F, V, N; simpl.
  assert (E : (if is_state Succeeded p && negb (p_disc p =? 0) then p_disc p else p_id p) = p_id t0).
  { unfold find_id in F; apply find_some in F; destruct F as [_ F]; apply Z.eqb_eq in F; auto. }
  rewrite E. destruct (p_trig t0 || is_state InProgress t0); reflexivity.
Qed.
(** outside RFC 5245 compatibility (GOOGLE, MSN, OC2007) the target is nominated whatever its state, and the READY decision is re-evaluated *)
Theorem mark_body_legacy_nominates : forall p res L c out t0,
  find_id (if is_state Succeeded p && negb (p_disc p =? 0) then p_disc p else p_id p) L = Some t0 -> p_valid t0 = false ->
  mark_body false p (res, L, c, out) =
  match for_ready (update_id (p_id t0) (fun q => set_nom q true) L) c with
  | None => None
  | Some (L3, c3, o3) => Some (true, L3, c3, out ++ [] ++ o3)
  end.
Proof.
  intros p res L c out t0 F V; unfold mark_body; rewrite F, V; simpl.
  assert (E : (if is_state Succeeded p && negb (p_disc p =? 0) then p_disc p else p_id p) = p_id t0).
  { unfold find_id in F; apply find_some in F; destruct F as [_ F]; apply Z.eqb_eq in F; auto. }
  rewrite E, orb_true_r. reflexivity.
Qed.
(** a valid target: nominated in every mode; a FAILED component is revived to CONNECTING, the selected pair only moves to a strictly higher
    priority (conn_check_update_selected_pair), CONNECTING goes to CONNECTED, then the READY decision *)
Definition comp_step (c : comp) (t0 : pair) : comp * list Z :=
  let '(ca, oa) := if c_state c =? st_FAILED then signal c st_CONNECTING else (c, []) in
  let '(cb, ob) := update_selected ca t0 in
  let '(cc, oc) := if c_state cb =? st_CONNECTING then signal cb st_CONNECTED else (cb, []) in
  (cc, oa ++ ob ++ oc).
Definition nominate_target (rfc : bool) (t0 : pair) (L : list pair) : list pair :=
  update_id (p_id t0) (fun q => set_nom q true)
    (if rfc && (p_trig t0 || is_state InProgress t0) then update_id (p_id t0) (fun q => set_mnora q true) L else L).
Theorem mark_body_valid : forall rfc p res L c out t0,
  find_id (if is_state Succeeded p && negb (p_disc p =? 0) then p_disc p else p_id p) L = Some t0 -> p_valid t0 = true ->
  mark_body rfc p (res, L, c, out) =
  let '(c2, o2) := comp_step c t0 in
  match for_ready (nominate_target rfc t0 L) c2 with
  | None => None
  | Some (L3, c3, o3) => Some (true, L3, c3, out ++ o2 ++ o3)
  end.
Proof.
  intros rfc p res L c out t0 F V; unfold mark_body; rewrite F, V; simpl.
  assert (E : (if is_state Succeeded p && negb (p_disc p =? 0) then p_disc p else p_id p) = p_id t0).
  { unfold find_id in F; apply find_some in F; destruct F as [_ F]; apply Z.eqb_eq in F; auto. }
  rewrite E, orb_true_r. reflexivity.
Qed.
Theorem comp_step_spec : forall c t0, let c2 := fst (comp_step c t0) in
  c_sel c2 = Z.max (c_sel c) (p_prio t0) /\ c_id c2 = c_id c /\ c_remote c2 = c_remote c /\
  (c_state c = st_FAILED \/ c_state c = st_CONNECTING -> c_state c2 = st_CONNECTED) /\
  (c_state c <> st_FAILED -> c_state c <> st_CONNECTING ->
     c_state c2 = c_state c /\ snd (comp_step c t0) = if c_sel c <? p_prio t0 then [sg_SELECTED] else []) /\
  (c_sel c < p_prio t0 -> c_sel_local c2 = p_local t0 /\ c_sel_remote c2 = p_remote t0) /\
  (p_prio t0 <= c_sel c -> c_sel_local c2 = c_sel_local c /\ c_sel_remote c2 = c_sel_remote c).
Proof.
  intros [i s sel sl sr r] t0; unfold comp_step, update_selected, signal, st_FAILED, st_CONNECTING, st_CONNECTED, set_cstate; simpl.
  destruct (s =? 5) eqn:S5; [apply Z.eqb_eq in S5; subst s|apply Z.eqb_neq in S5]; simpl;
  destruct (sel <? p_prio t0) eqn:X; [apply Z.ltb_lt in X | apply Z.ltb_ge in X | apply Z.ltb_lt in X | apply Z.ltb_ge in X]; simpl;
    try (destruct (s =? 2) eqn:S2; [apply Z.eqb_eq in S2; subst s | apply Z.eqb_neq in S2]); simpl;
    (split; [lia|]; split; [reflexivity|]; split; [reflexivity|];
     split; [intros [H | H]; congruence || lia || reflexivity|]; split; [intros; split; congruence || lia || reflexivity|]; split; intros; split; lia || reflexivity).
Qed.
Theorem nominate_target_spec : forall rfc t0 L q, In q (nominate_target rfc t0 L) ->
  exists q0, In q0 L /\ p_id q = p_id q0 /\ p_valid q = p_valid q0 /\ p_state q = p_state q0 /\ p_prio q = p_prio q0 /\ p_comp q = p_comp q0 /\
             p_trig q = p_trig q0 /\ (p_nom q = p_nom q0 \/ (p_id q0 = p_id t0 /\ p_nom q = true)).
Proof.
  intros rfc t0 L q Iq. unfold nominate_target, update_id in Iq; apply in_map_iff in Iq; destruct Iq as [q1 [Eq I1]].
  assert (X : exists q0, In q0 L /\ p_id q1 = p_id q0 /\ p_valid q1 = p_valid q0 /\ p_state q1 = p_state q0 /\ p_prio q1 = p_prio q0 /\ p_comp q1 = p_comp q0 /\ p_trig q1 = p_trig q0 /\ p_nom q1 = p_nom q0).
  { destruct (rfc && (p_trig t0 || is_state InProgress t0)); [|exists q1; auto 10].
    apply in_map_iff in I1; destruct I1 as [q0 [E0 I0]]. exists q0; split; auto.
    destruct (p_id q0 =? p_id t0); subst q1; simpl; auto 10. }
  destruct X as [q0 [I0 [A [B [C [D [E [G H]]]]]]]]. exists q0; split; auto.
  destruct (p_id q1 =? p_id t0) eqn:T; subst q; simpl; repeat split; auto; try congruence.
  right; split; auto. apply Z.eqb_eq in T; congruence.
Qed.

(** the cursor of the loop: the link being visited survives the body whenever that pair is not one the pruning deletes.
    [after_id] finds it again; otherwise the model says None = "i = i->next" reads a freed GSList link *)
Lemma after_id_in : forall id l, (exists p, In p l /\ p_id p = id) -> after_id id l <> None.
Proof.
  intros id l [p [I E]]; induction l as [|a l IH]; [contradiction|]. simpl. destruct (p_id a =? id) eqn:X; [discriminate|].
  destruct I as [-> | I]; [apply Z.eqb_neq in X; contradiction | apply IH; exact I].
Qed.

Definition same_core (q' q : pair) : Prop :=
  p_id q' = p_id q /\ p_local q' = p_local q /\ p_remote q' = p_remote q /\ p_state q' = p_state q /\ p_comp q' = p_comp q /\
  p_prio q' = p_prio q /\ p_disc q' = p_disc q /\ (p_trig q' = p_trig q \/ p_trig q' = false).
Definition safe (p : pair) : Prop := p_state p <> Frozen /\ p_state p <> Waiting /\ p_trig p = false.
Lemma same_core_refl : forall q, same_core q q.
Proof. intro q; unfold same_core; auto 10. Qed.
Lemma same_core_trans : forall a b c, same_core a b -> same_core b c -> same_core a c.
Proof. unfold same_core; intros a b c [A1 [A2 [A3 [A4 [A5 [A6 [A8 A7]]]]]]] [B1 [B2 [B3 [B4 [B5 [B6 [B8 B7]]]]]]]; repeat split; try congruence. destruct A7 as [A7 | A7], B7 as [B7 | B7]; auto; [left | right]; congruence. Qed.
Lemma same_core_safe : forall q' q, same_core q' q -> safe q -> safe q'.
Proof. unfold same_core, safe; intros q' q [_ [_ [_ [S [_ [_ [_ T]]]]]]] [A [B C]]; rewrite S; repeat split; auto. destruct T; congruence. Qed.
Lemma update_id_core : forall id f l, (forall q, same_core (f q) q) -> Forall2 (fun q q2 => same_core q2 q) l (update_id id f l).
Proof. intros id f l H; induction l as [|a l IH]; simpl; constructor; auto. destruct (p_id a =? id); [apply H | apply same_core_refl]. Qed.
Lemma F2_in_l : forall {A B} (R : A -> B -> Prop) l l' x, Forall2 R l l' -> In x l -> exists y, In y l' /\ R x y.
Proof. induction 1 as [|a b l l' Hab H IH]; intros I; [contradiction|]. destruct I as [<- | I]; [exists b; split; [left|]; auto|]. destruct (IH I) as [y [Iy Ry]]; exists y; split; [right|]; auto. Qed.
Lemma touch_core : forall cid sel p, same_core (touch cid sel p) p.
Proof.
  intros cid sel p; unfold same_core, touch. destruct ((p_comp p =? cid) && is_state InProgress p); [|auto 10].
  destruct (p_prio p <? sel); simpl; [auto 10|]. destruct (negb (p_retrans p) && p_stun p); simpl; auto 10.
Qed.
Lemma safe_not_prunable : forall cid sel p, safe p -> prunable cid sel p = false.
Proof.
  intros cid sel p [A [B C]]. destruct (prunable cid sel p) eqn:E; auto. apply prunable_true_iff in E.
  destruct E as [_ [[T _] | [_ [S | S]]]]; congruence.
Qed.
(* the list after for_ready: every pair comes from a pair before; safe pairs stay *)
Lemma for_ready_list : forall l c l' c' o, for_ready l c = Some (l', c', o) ->
  (forall q', In q' l' -> exists q, In q l /\ same_core q' q) /\ (forall q, In q l -> safe q -> exists q', In q' l' /\ same_core q' q).
Proof.
  intros l c l' c' o H; rewrite for_ready_eq in H. destruct (faults l c); [discriminate|]. cbv zeta in H.
  assert (Pr : forall sel, let l' := snd (prune (c_id c) sel l) in
    (forall q', In q' l' -> exists q, In q l /\ same_core q' q) /\ (forall q, In q l -> safe q -> exists q', In q' l' /\ same_core q' q)).
  { intro sel; split.
    - intros q' I; apply prune_result in I; destruct I as [q [Iq [_ ->]]]; exists q; split; auto; apply touch_core.
    - intros q I S; exists (touch (c_id c) sel q); split; [apply prune_result; exists q; repeat split; auto; apply safe_not_prunable; exact S | apply touch_core]. }
  assert (Id : (forall q', In q' l -> exists q, In q l /\ same_core q' q) /\ (forall q, In q l -> safe q -> exists q', In q' l /\ same_core q' q)).
  { split; [intros q' I; exists q'; split; auto; apply same_core_refl | intros q I _; exists q; split; auto; apply same_core_refl]. }
  destruct (goes_ready l c); [inversion H; subst; apply Pr|]. destruct (has_nominated_valid (c_id c) l); inversion H; subst; [apply Pr | exact Id].
Qed.
(* a selected pair, when there is one, has a positive priority *)
Definition comp_ok (c : comp) : Prop := c_sel_local c <> 0 -> 0 < c_sel c.
Lemma for_ready_comp_ok : forall l c l' c' o, for_ready l c = Some (l', c', o) -> comp_ok c -> comp_ok c'.
Proof.
  intros l c l' c' o H Ok. pose proof H as H0. rewrite for_ready_eq in H. destruct (faults l c) eqn:F; [discriminate|]. cbv zeta in H.
  assert (Okt : has_nominated_valid (c_id c) l = true -> comp_ok (fst (takeover l c))).
  { intros NV _. unfold faults in F; rewrite NV in F; simpl in F; apply negb_false_iff, Z.ltb_lt in F; exact F. }
  destruct (goes_ready l c) eqn:G.
  - inversion H; subst. unfold goes_ready in G; apply andb_true_iff in G; destruct G as [NV _].
    destruct (ready_progress_spec (fst (takeover l c))) as [_ [_ [Hs [[Hl _] _]]]]. unfold comp_ok; rewrite Hs, Hl; apply Okt; exact NV.
  - destruct (has_nominated_valid (c_id c) l) eqn:NV; inversion H; subst; auto.
Qed.
(* the pair the body works on: the pair itself, or the peer-reflexive pair discovered by its check *)
Definition tid (p : pair) : Z := if is_state Succeeded p && negb (p_disc p =? 0) then p_disc p else p_id p.
Lemma mark_body_list : forall rfc p st st', mark_body rfc p st = Some st' ->
  let L := snd (fst (fst st)) in let L' := snd (fst (fst st')) in
  (forall q', In q' L' -> exists q, In q L /\ same_core q' q) /\ (forall q, In q L -> safe q -> exists q', In q' L' /\ same_core q' q).
Proof.
  intros rfc p [[[res L] c] out] st' H; simpl. unfold mark_body in H. fold (tid p) in H.
  destruct (find_id (tid p) L) as [t0|]; [|discriminate].
  set (L1 := if rfc && (p_trig t0 || is_state InProgress t0) then update_id (tid p) (fun q => set_mnora q true) L else L) in *.
  set (L2 := if p_valid t0 || negb rfc then update_id (tid p) (fun q => set_nom q true) L1 else L1) in *.
  assert (R1 : Forall2 (fun q q2 => same_core q2 q) L L1).
  { unfold L1; destruct (rfc && (p_trig t0 || is_state InProgress t0)); [apply update_id_core; intro q; unfold same_core; simpl; auto 10|].
    clear; induction L; constructor; auto using same_core_refl. }
  assert (R2 : Forall2 (fun q q2 => same_core q2 q) L1 L2).
  { unfold L2; destruct (p_valid t0 || negb rfc); [apply update_id_core; intro q; unfold same_core; simpl; auto 10|].
    clear; induction L1; constructor; auto using same_core_refl. }
  assert (R : (forall q', In q' L2 -> exists q, In q L /\ same_core q' q) /\ (forall q, In q L -> exists q', In q' L2 /\ same_core q' q)).
  { split.
    - intros q' I. destruct (F2_in_r _ _ _ _ R2 I) as [q1 [I1 C1]]. destruct (F2_in_r _ _ _ _ R1 I1) as [q [I0 C0]]. exists q; split; auto. eapply same_core_trans; eauto.
    - intros q I. destruct (F2_in_l _ _ _ _ R1 I) as [q1 [I1 C1]]. destruct (F2_in_l _ _ _ _ R2 I1) as [q2 [I2 C2]]. exists q2; split; auto.
      eapply same_core_trans; eauto. }
  destruct R as [Ra Rb].
  destruct (if p_valid t0 then _ else (c, [])) as [c2 o2].
  destruct (p_nom t0 || p_valid t0 || negb rfc).
  - destruct (for_ready L2 c2) as [[[L3 c3] o3]|] eqn:FR; [|discriminate].
    destruct (for_ready_list _ _ _ _ _ FR) as [Fa Fb].
    inversion H; subst st'; simpl. split.
    + intros q' I. destruct (Fa q' I) as [q2 [I2 C2]]. destruct (Ra q2 I2) as [q [I0 C0]]. exists q; split; auto. eapply same_core_trans; eauto.
    + intros q I S. destruct (Rb q I) as [q2 [I2 C2]]. destruct (Fb q2 I2 (same_core_safe _ _ C2 S)) as [q' [I' C']]. exists q'; split; auto. eapply same_core_trans; eauto.
  - inversion H; subst st'; simpl. split; [exact Ra | intros q I _; apply Rb; exact I].
Qed.
(* the component after the part of the body that precedes the READY decision *)
Lemma update_selected_ok : forall c t, comp_ok c -> 0 < p_prio t -> comp_ok (fst (update_selected c t)).
Proof.
  intros c t Ok Pt; unfold update_selected. destruct (c_sel c <? p_prio t); simpl; auto. intros _; exact Pt.
Qed.
Lemma mark_body_ok : forall rfc p st, (exists t, In t (snd (fst (fst st))) /\ p_id t = tid p) ->
  comp_ok (snd (fst st)) -> (forall q, In q (snd (fst (fst st))) -> 0 < p_prio q) ->
  exists st', mark_body rfc p st = Some st' /\ comp_ok (snd (fst st')).
Proof.
  intros rfc p [[[res L] c] out] [t [It Et]] Ok Pos; simpl in *. unfold mark_body. fold (tid p).
  destruct (find_id (tid p) L) as [t0|] eqn:F.
  2:{ exfalso. unfold find_id in F. pose proof (find_none _ _ F t It) as X; simpl in X. apply Z.eqb_neq in X; contradiction. }
  assert (Pt : 0 < p_prio t0) by (apply Pos; unfold find_id in F; apply find_some in F; apply F).
  set (L1 := if rfc && (p_trig t0 || is_state InProgress t0) then update_id (tid p) (fun q => set_mnora q true) L else L).
  set (L2 := if p_valid t0 || negb rfc then update_id (tid p) (fun q => set_nom q true) L1 else L1).
  assert (P2 : forall q, In q L2 -> 0 < p_prio q).
  { assert (U : forall f l q, (forall x, p_prio (f x) = p_prio x) -> In q (update_id (tid p) f l) -> exists q0, In q0 l /\ p_prio q = p_prio q0).
    { intros f l q Hf I. unfold update_id in I; apply in_map_iff in I; destruct I as [q0 [E I]]. exists q0; split; auto.
      destruct (p_id q0 =? tid p); subst q; auto. }
    assert (P1 : forall q, In q L1 -> 0 < p_prio q).
    { intros q I; unfold L1 in I. destruct (rfc && (p_trig t0 || is_state InProgress t0)); [|auto].
      destruct (U (fun x => set_mnora x true) _ _ (fun x => eq_refl) I) as [q0 [I0 ->]]; auto. }
    intros q I; unfold L2 in I. destruct (p_valid t0 || negb rfc); [|auto].
    destruct (U (fun x => set_nom x true) _ _ (fun x => eq_refl) I) as [q0 [I0 ->]]; auto. }
  assert (Ok2 : comp_ok (fst (if p_valid t0 then
          let '(ca, oa) := if c_state c =? st_FAILED then signal c st_CONNECTING else (c, []) in
          let '(cb, ob) := update_selected ca t0 in
          let '(cc, oc) := if c_state cb =? st_CONNECTING then signal cb st_CONNECTED else (cb, []) in
          (cc, oa ++ ob ++ oc) else (c, [])))).
  { destruct (p_valid t0); [|exact Ok].
    assert (Oka : comp_ok (fst (if c_state c =? st_FAILED then signal c st_CONNECTING else (c, [])))).
    { destruct (c_state c =? st_FAILED); [|exact Ok]. unfold signal; destruct (c_state c =? st_CONNECTING); exact Ok. }
    destruct (if c_state c =? st_FAILED then signal c st_CONNECTING else (c, [])) as [ca oa]; simpl in Oka.
    pose proof (update_selected_ok ca t0 Oka Pt) as Okb. destruct (update_selected ca t0) as [cb ob]; simpl in Okb.
    destruct (c_state cb =? st_CONNECTING); [|exact Okb]. unfold signal; destruct (c_state cb =? st_CONNECTED); exact Okb. }
  fold L1. fold L2.
  destruct (if p_valid t0 then _ else (c, [])) as [c2 o2]; simpl in Ok2.
  destruct (p_nom t0 || p_valid t0 || negb rfc); [|eexists; split; [reflexivity | exact Ok2]].
  destruct (for_ready L2 c2) as [[[L3 c3] o3]|] eqn:FR.
  - eexists; split; [reflexivity|]. simpl. eapply for_ready_comp_ok; eauto.
  - exfalso; revert FR; apply for_ready_never_asserts; [exact Ok2 | intros q I _ _ _; apply P2; exact I].
Qed.
Lemma after_id_incl : forall id l r, after_id id l = Some r -> incl r l.
Proof.
  intros id l; induction l as [|a l IH]; intros r H; simpl in H; [discriminate|]. destruct (p_id a =? id).
  - inversion H; subst; intros x I; right; exact I.
  - intros x I; right; apply (IH r H x I).
Qed.
Lemma same_core_tid : forall q' q, same_core q' q -> tid q' = tid q.
Proof. unfold same_core, tid, is_state; intros q' q [A [_ [_ [B [_ [_ [C _]]]]]]]; rewrite A, B, C; reflexivity. Qed.
Definition loop_inv (lc rc : Z) (st : mstate) : Prop :=
  let L := snd (fst (fst st)) in
  (forall p, In p L -> matches lc rc p = true -> safe p /\ exists t, In t L /\ p_id t = tid p /\ safe t) /\
  comp_ok (snd (fst st)) /\ (forall q, In q L -> 0 < p_prio q).
Lemma mark_loop_some : forall rfc lc rc n rest st,
  incl rest (snd (fst (fst st))) -> loop_inv lc rc st -> mark_loop rfc lc rc n rest st <> None.
Proof.
  intros rfc lc rc; induction n as [|n IH]; intros rest st I [S [Ok Pos]]; [discriminate|]. simpl.
  destruct rest as [|p rest]; [discriminate|]. fold (matches lc rc p). destruct (matches lc rc p) eqn:M.
  - assert (Ip : In p (snd (fst (fst st)))) by (apply I; left; reflexivity).
    destruct (S p Ip M) as [Sp [t [It [Et St]]]].
    destruct (mark_body_ok rfc p st (ex_intro _ t (conj It Et)) Ok Pos) as [st' [B Ok']]. rewrite B.
    pose proof (mark_body_list rfc p st st' B) as [Ba Bb]; cbv zeta in Ba, Bb.
    destruct (Bb p Ip Sp) as [p' [I' C']].
    destruct (after_id (p_id p) (snd (fst (fst st')))) as [rest''|] eqn:A.
    + apply IH; [apply after_id_incl in A; exact A|]. split; [|split; [exact Ok'|]].
      * intros q Iq Mq. destruct (Ba q Iq) as [q0 [I0 C0]].
        assert (M0 : matches lc rc q0 = true) by (unfold matches in *; destruct C0 as [_ [C1 [C2 _]]]; rewrite <- C1, <- C2; exact Mq).
        destruct (S q0 I0 M0) as [S0 [t0 [It0 [Et0 St0]]]]. split; [eapply same_core_safe; eauto|].
        destruct (Bb t0 It0 St0) as [t' [It' Ct']]. exists t'; split; auto. split; [|eapply same_core_safe; eauto].
        rewrite (same_core_tid _ _ C0). destruct Ct' as [X _]; congruence.
      * intros q Iq. destruct (Ba q Iq) as [q0 [I0 C0]]. destruct C0 as [_ [_ [_ [_ [_ [-> _]]]]]]. apply Pos; exact I0.
    + exfalso; revert A; apply after_id_in; exists p'; split; auto. apply C'.
  - apply IH; auto. intros x Ix; apply I; right; exact Ix. split; auto.
Qed.
(** priv_mark_pair_nominated neither aborts nor reads freed memory provided: no pair for the nominated candidates - nor the peer-reflexive
    pair discovered by such a pair - is FROZEN, WAITING or in the triggered-check queue when the nomination is processed; discovered_pair
    pointers do not dangle at entry; pair priorities are positive and so is the priority of the selected pair when there is one
    (see [mark_nominated_cursor_freed], [dangling_discovered_pair_after_prune] for lists where it reads freed memory) *)
Theorem mark_nominated_memory_safe : forall rfc ctl l c lc rc,
  (forall p, In p l -> matches lc rc p = true -> safe p /\ exists t, In t l /\ p_id t = tid p /\ safe t) ->
  (c_sel_local c <> 0 -> 0 < c_sel c) -> (forall q, In q l -> 0 < p_prio q) ->
  mark_nominated rfc ctl l c lc rc <> None.
Proof.
  intros rfc ctl l c lc rc S Ok Pos; unfold mark_nominated. destruct (rfc && ctl); [discriminate|].
  apply mark_loop_some; simpl; [apply incl_refl | split; [exact S | split; [exact Ok | exact Pos]]].
Qed.

(** * 8. Witnesses: what the code does NOT guarantee (each by computation on the model; the model is tied to the code) *)
Definition mk (id comp lf rf prio : Z) (st : pstate) (nom valid trig : bool) : pair :=
  mkPair id comp lf rf lf rf prio st nom valid false false false false trig 0.

(** RFC 8445 6.1.4.2 step 2 thaws a FROZEN pair only if no pair of the same foundation is WAITING or IN_PROGRESS in any check list;
    priv_conn_check_unfreeze_next only looks for WAITING pairs: a pair is thawed while the pair of the same foundation is still IN_PROGRESS *)
Example rfc8445_frozen_waits_for_in_progress_refuted :
  unfreeze_next [[mk 1 1 7 7 20 InProgress false false false; mk 2 2 7 7 10 Frozen false false false]]
  = (true, [[mk 1 1 7 7 20 InProgress false false false; mk 2 2 7 7 10 Waiting false false false]]).
Proof. vm_compute; reflexivity. Qed.
(** RFC 8445 6.1.4.2 step 3: among WAITING pairs of equal priority the one with the lowest component ID is picked; the code picks the first in list order *)
Example rfc8445_equal_priority_lowest_component_refuted :
  let l := [mk 1 2 1 1 50 Waiting false false false; mk 2 1 2 2 50 Waiting false false false] in
  sorted_desc l /\ option_map p_comp (find_next_waiting l) = Some 2.
Proof. split; [repeat constructor; simpl; lia | vm_compute; reflexivity]. Qed.
(** a stream whose FROZEN pairs all share their foundations with earlier FROZEN pairs of another stream gets no check from its own
    ordinary-check step (the agent-wide step still makes progress: [ordinary_agent_progress]) *)
Example ordinary_check_shadowed_stream :
  ordinary_select [[mk 1 1 7 7 20 Frozen false false false]; [mk 2 1 7 7 10 Frozen false false false]] 1
  = (None, [[mk 1 1 7 7 20 Waiting false false false]; [mk 2 1 7 7 10 Frozen false false false]]).
Proof. vm_compute; reflexivity. Qed.
(** on an unsorted list the first WAITING pair need not be the best one (the NOMINATION attribute handler of conncheck.c overwrites
    pair->priority without re-sorting; only valid pairs, which are never WAITING) *)
Example find_next_waiting_needs_sorted :
  option_map p_id (find_next_waiting [mk 1 1 1 1 10 Waiting false false false; mk 2 1 2 2 90 Waiting false false false]) = Some 1.
Proof. vm_compute; reflexivity. Qed.

(** READY does not require the nominated valid pair to be SUCCEEDED or DISCOVERED: a pair whose later re-check failed still counts *)
Example ready_with_failed_nominated_pair_refuted :
  for_ready [mk 1 1 1 1 50 Failed true true false] (mkComp 1 st_CONNECTED 50 1 1 true)
  = Some ([mk 1 1 1 1 50 Failed true true false], mkComp 1 st_READY 50 1 1 true, [st_READY]).
Proof. vm_compute; reflexivity. Qed.
(** READY does not wait for better pairs that were never tried: FROZEN / WAITING pairs of the component are discarded whatever their
    priority (RFC 5245 8.1.2; RFC 8445 8.1.1 lets the controlling side decide) *)
Example ready_discards_untried_better_pair :
  for_ready [mk 1 1 1 1 90 Frozen false false false; mk 2 1 2 2 50 Succeeded true true false] (mkComp 1 st_CONNECTED 50 2 2 true)
  = Some ([mk 2 1 2 2 50 Succeeded true true false], mkComp 1 st_READY 50 2 2 true, [st_READY]).
Proof. vm_compute; reflexivity. Qed.
(** pruning can delete a nominated valid pair: one that sits in the triggered-check queue with a priority below the selected pair's *)
Example prune_never_removes_nominated_refuted :
  prune 1 80 [mk 1 1 1 1 80 Succeeded true true false; mk 2 1 2 2 50 Succeeded true true true]
  = (0, [mk 1 1 1 1 80 Succeeded true true false]).
Proof. vm_compute; reflexivity. Qed.
(** FAILED does not mean that every pair failed: succeeded (valid) pairs that nobody nominated do not count ... *)
Example failed_with_valid_pairs_refuted :
  failed_components false [mk 1 1 1 1 50 Succeeded false true false] [mkComp 1 st_CONNECTED 0 0 0 true]
  = ([mkComp 1 st_FAILED 0 0 0 true], [(1, st_FAILED)]).
Proof. vm_compute; reflexivity. Qed.
(** ... and a component without a single pair in a non-empty check list is failed as soon as it has remote candidates *)
Example failed_without_pairs :
  failed_components false [mk 1 1 1 1 50 InProgress false false false] [mkComp 1 st_CONNECTING 0 0 0 true; mkComp 2 st_CONNECTING 0 0 0 true]
  = ([mkComp 1 st_CONNECTING 0 0 0 true; mkComp 2 st_FAILED 0 0 0 true], [(2, st_FAILED)]).
Proof. vm_compute; reflexivity. Qed.
(** the loop of priv_mark_pair_nominated can delete the link it stands on: legacy compatibility (every incoming check nominates), the
    component already has a selected pair of higher priority, the nominated pair is WAITING in the triggered-check queue *)
Example mark_nominated_cursor_freed :
  mark_nominated false false [mk 1 1 1 1 80 Succeeded true true false; mk 2 1 2 2 50 Waiting false false true] (mkComp 1 st_READY 80 1 1 true) 2 2 = None.
Proof. vm_compute; reflexivity. Qed.
(** pruning can delete a DISCOVERED pair and keep the SUCCEEDED pair whose discovered_pair points to it (or the other way round):
    the pointer dangles, and a later nomination of the kept pair dereferences it (g_assert (pair->state == NICE_CHECK_DISCOVERED)) *)
Example dangling_discovered_pair_after_prune :
  let parent := mkPair 1 1 1 1 1 1 90 Succeeded false false false false false false false 2 in
  let disc := mkPair 2 1 3 1 3 1 40 Discovered true true false false false false true 0 in
  let best := mk 3 1 5 5 80 Succeeded true true false in
  prune 1 80 [parent; best; disc] = (0, [parent; best]) /\
  mark_nominated false false [parent; best] (mkComp 1 st_READY 80 5 5 true) 1 1 = None.
Proof. vm_compute; split; reflexivity. Qed.
(** regression witness of e3eeaf1: no selected pair (its socket was removed: local NULL, priority 0) and one valid nominated pair left.
    Before the fix the READY decision went straight to the pruning step with selected priority 0 - [prune_chk 1 0] - and the process aborted
    on g_assert (priority > 0); now the pair takes over, new-selected-pair is emitted and the component goes READY *)
Example for_ready_without_selected_pair_regression :
  let l := [mk 1 1 1 1 50 Succeeded true true false] in
  prune_chk 1 0 l = None /\
  for_ready l (mkComp 1 st_CONNECTED 0 0 0 true) = Some (l, mkComp 1 st_READY 50 1 1 true, [sg_SELECTED; st_READY]).
Proof. vm_compute; split; reflexivity. Qed.
(** the assertion is still there for states the code cannot be in: a selected pair (local != NULL) of priority 0 *)
Example for_ready_asserts_on_inconsistent_selected_pair :
  for_ready [mk 1 1 1 1 50 Succeeded true true false] (mkComp 1 st_CONNECTED 0 7 7 true) = None.
Proof. vm_compute; reflexivity. Qed.
(* the hypotheses of the theorems above are satisfiable *)
Example unfreeze_progress_example :
  unfreeze_next [[mk 1 1 7 7 30 Frozen false false false; mk 2 2 7 7 20 Frozen false false false]; [mk 3 1 8 7 10 Frozen false false false]]
  = (true, [[mk 1 1 7 7 30 Waiting false false false; mk 2 2 7 7 20 Frozen false false false]; [mk 3 1 8 7 10 Waiting false false false]]).
Proof. vm_compute; reflexivity. Qed.
