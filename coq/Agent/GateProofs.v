From Coq Require Import ZArith List Bool Lia.
From Nice Require Import Agent.GateModel.
Import ListNotations.
Local Open Scope Z_scope.

Lemma removelast_incl {A} (l : list A) x : In x (removelast l) -> In x l.
Proof. induction l as [|a l IH]; [intros []|]. cbn [removelast]. destruct l as [|b l]; [intros []|]. intros [->|H]; [left; reflexivity|right; apply IH; exact H]. Qed.

Lemma add_valid_incl l c x : In x (add_valid l c) -> x = c \/ In x l.
Proof.
  unfold add_valid. destruct (existsb _ l); [auto|]. destruct (MAXV <? _).
  - intros [<-|H]; [auto|right; apply removelast_incl; exact H].
  - intros [<-|H]; auto.
Qed.

Lemma take_first_spec f l c r : take_first f l = Some (c, r) -> f c = true /\ In c l /\ (forall x, In x r -> In x l).
Proof.
  revert c r; induction l as [|a l IH]; intros c r H; [discriminate|]. cbn [take_first] in H.
  destruct (f a) eqn:Ef.
  - injection H as <- <-. split; [exact Ef|]. split; [left; reflexivity|]. intros x Hx; right; exact Hx.
  - destruct (take_first f l) as [[x r']|] eqn:Et; [|discriminate]. injection H as <- <-.
    destruct (IH _ _ eq_refl) as (Hf & Hin & Hr). split; [exact Hf|]. split; [right; exact Hin|].
    intros y [<-|Hy]; [left; reflexivity|right; apply Hr; exact Hy].
Qed.

Lemma verify_incl t a l d l' : verify false t a l = (d, l') -> forall x, In x l' -> In x l.
Proof.
  unfold verify. destruct (take_first _ l) as [[c r]|] eqn:Et; intros H; injection H as <- <-; [|auto].
  destruct (take_first_spec _ _ _ _ Et) as (_ & Hc & Hr). intros x [<-|Hx]; [exact Hc|apply Hr; exact Hx].
Qed.

Lemma verify_delivers t a l l' : verify false t a l = (true, l') -> exists c, In c l /\ c_addr c = a.
Proof.
  unfold verify. destruct (take_first _ l) as [[c r]|] eqn:Et; intros H; [|discriminate].
  destruct (take_first_spec _ _ _ _ Et) as (Hf & Hc & _). exists c. split; [exact Hc|].
  unfold gate_match in Hf. apply andb_prop in Hf. lia.
Qed.

(** every address on the list has completed an authenticated check earlier in the history *)
Definition authed (hist : list gop) (c : cand) : Prop := In (Auth c) hist.

Lemma grun_app l ops1 ops2 : fst (grun l (ops1 ++ ops2)) = fst (grun (fst (grun l ops1)) ops2).
Proof.
  revert l; induction ops1 as [|o r IH]; intros l; [reflexivity|]. cbn [app grun].
  destruct (gstep l o) as [l1 x]. specialize (IH l1). destruct (grun l1 (r ++ ops2)) as [l2 xs]. destruct (grun l1 r) as [l3 ys]. exact IH.
Qed.

Lemma gate_inv : forall ops l, (forall c, In c l -> False) -> forall c, In c (fst (grun l ops)) -> authed ops c.
Proof.
  intros ops. unfold authed.
  assert (G : forall ops l (P : cand -> Prop), (forall c, In c l -> P c) -> forall c, In c (fst (grun l ops)) -> P c \/ In (Auth c) ops).
  { clear ops. induction ops as [|o r IH]; intros l P HP c Hc; [left; apply HP; exact Hc|].
    cbn [grun] in Hc. destruct (gstep l o) as [l1 x] eqn:Es. destruct (grun l1 r) as [l2 xs] eqn:Er. cbn [fst] in Hc.
    assert (Hc' : In c (fst (grun l1 r))) by (rewrite Er; exact Hc).
    destruct o as [c0|t a]; cbn [gstep] in Es.
    - injection Es as <- _.
      destruct (IH (add_valid l c0) (fun y => P y \/ y = c0) (fun y Hy => match add_valid_incl _ _ _ Hy with or_introl e => or_intror e | or_intror i => or_introl (HP _ i) end) c Hc') as [[Hp| -> ]|Hin].
      + left; exact Hp. + right; left; reflexivity. + right; right; exact Hin.
    - destruct (verify false t a l) as [d l'] eqn:Ev. injection Es as <- _.
      destruct (IH l' P (fun y Hy => HP _ (verify_incl _ _ _ _ _ Ev y Hy)) c Hc') as [Hp|Hin]; [left; exact Hp|right; right; exact Hin]. }
  intros l Hl c Hc. destruct (G ops l (fun _ => False) Hl c Hc) as [[]|H]; exact H.
Qed.

(** a datagram is handed to the application only if its source address completed an authenticated check earlier *)
Theorem gate_delivers_only_authenticated : forall pre t a post,
  nth_error (snd (grun [] (pre ++ Data t a :: post))) (length pre) = Some (Some true) ->
  exists c, In (Auth c) pre /\ c_addr c = a.
Proof.
  intros pre t a post.
  assert (G : forall pre l, nth_error (snd (grun l (pre ++ Data t a :: post))) (length pre) = Some (Some true) ->
              exists c, In c (fst (grun l pre)) /\ c_addr c = a).
  { clear pre. induction pre as [|o r IH]; intros l H.
    - cbn [app grun gstep length] in H. destruct (verify false t a l) as [d l'] eqn:Ev. destruct (grun l' post) as [l2 xs].
      cbn [snd nth_error] in H. injection H as ->. cbn [grun fst]. eapply verify_delivers; exact Ev.
    - cbn [app grun length] in H |- *. destruct (gstep l o) as [l1 x]. specialize (IH l1).
      destruct (grun l1 (r ++ Data t a :: post)) as [l2 xs]. destruct (grun l1 r) as [l3 ys]. cbn [snd nth_error] in H. cbn [fst] in *. apply IH; exact H. }
  intros H. destruct (G pre [] H) as (c & Hc & Ha). exists c. split; [|exact Ha].
  apply (gate_inv pre [] (fun _ F => F) c Hc).
Qed.

Lemma removelast_length {A} (l : list A) : length (removelast l) = pred (length l).
Proof. induction l as [|a l IH]; [reflexivity|]. cbn [removelast]. destruct l; [reflexivity|]. cbn [length] in *. rewrite IH. reflexivity. Qed.

(** the list never holds more than MAXV + 1 addresses *)
Theorem gate_bounded : forall ops l, Z.of_nat (length l) <= MAXV + 1 -> Z.of_nat (length (fst (grun l ops))) <= MAXV + 1.
Proof.
  induction ops as [|o r IH]; intros l H; [exact H|]. cbn [grun]. destruct (gstep l o) as [l1 x] eqn:Es. specialize (IH l1).
  destruct (grun l1 r) as [l2 xs]. cbn [fst] in *. apply IH.
  destruct o as [c|t a]; cbn [gstep] in Es.
  - injection Es as <- _. unfold add_valid. destruct (existsb _ l); [exact H|]. destruct (MAXV <? Z.of_nat (length l)) eqn:E; cbn [length].
    + rewrite removelast_length. unfold MAXV in *. lia. + unfold MAXV in *. lia.
  - unfold verify in Es. destruct (take_first _ l) as [[c rr]|] eqn:Et; injection Es as <- _; [|exact H].
    assert (Hl : forall f (l : list cand) c r, take_first f l = Some (c, r) -> length l = S (length r)).
    { clear. intros f; induction l as [|a l IH]; intros c r H; [discriminate|]. cbn [take_first] in H. destruct (f a); [injection H as _ <-; reflexivity|].
      destruct (take_first f l) as [[x r']|] eqn:E; [|discriminate]. injection H as _ <-. cbn [length]. rewrite (IH _ _ eq_refl). reflexivity. }
    cbn [length]. rewrite <- (Hl _ _ _ _ Et). exact H.
Qed.

Example gate_nonvacuous :
  snd (grun [] [Data false 7; Auth {| c_tr := 0; c_addr := 7 |}; Data false 7; Data false 8; Auth {| c_tr := 1; c_addr := 9 |}; Data false 9; Data true 9])
  = [Some false; None; Some true; Some false; None; Some false; Some true].
Proof. reflexivity. Qed.
