From Coq Require Import ZArith List Bool Lia.
From Nice Require Import Gen.Consent Gen.ConsentSession Gen.CompState Agent.ConsentModel Agent.ConsentProofs Agent.KeepaliveModel Agent.KeepaliveProofs Agent.ConsentSessionModel.
Import ListNotations.
Local Open Scope Z_scope.
Ltac Zify.zify_post_hook ::= Z.div_mod_to_equations.

Definition tmo (c : cfg) : Z := consent_timeout (fresh c).

Lemma cstate_eqb_eq a b : cstate_eqb a b = true <-> a = b.
Proof. destruct a, b; cbn; split; intros H; try reflexivity; try discriminate. Qed.

Lemma signal_fst s st : fst (signal s st) = set_cst s st.
Proof.
  unfold signal. destruct (cstate_eqb (cst s) st) eqn:E; [|reflexivity].
  apply cstate_eqb_eq in E. destruct s; cbn in *. subst. reflexivity.
Qed.

Lemma signal_snd s st : snd (signal s st) = if cstate_eqb (cst s) st then [] else [OState st].
Proof. unfold signal. destruct (cstate_eqb (cst s) st); reflexivity. Qed.

Lemma signal_failed_out s : In (OState FAILED) (snd (signal s FAILED)) \/ cst s = FAILED.
Proof. rewrite signal_snd. destruct (cstate_eqb (cst s) FAILED) eqn:E; [right; apply cstate_eqb_eq; exact E|left; left; reflexivity]. Qed.

(** the consent tick: either expired (strictly later than last + timeout) or re-armed for the remaining time *)
Lemma consent_tick_fn_cases c now s :
  (tmo c < now - last_received s /\
   fst (consent_tick_fn c now s) = set_cst (set_pair s (selected s) false (last_received s) (next_tick s) None) FAILED /\
   snd (consent_tick_fn c now s) = (if cstate_eqb (cst s) FAILED then [] else [OState FAILED]))
  \/ (exists d, 0 <= d /\ now + d * 1000 <= last_received s + tmo c < now + d * 1000 + 1000 /\
      fst (consent_tick_fn c now s) = set_pair s (selected s) (have s) (last_received s) (next_tick s) (Some (due now d)) /\
      snd (consent_tick_fn c now s) = []).
Proof.
  unfold consent_tick_fn, tmo. destruct (consent_tick (fresh c) now (last_received s)) as [d|] eqn:E.
  - right. exists d. destruct (tick_rearm _ _ _ _ E) as (H0 & H1). repeat split; try lia.
  - left. apply tick_expired in E. split; [exact E|]. split; [apply signal_fst|rewrite signal_snd; reflexivity].
Qed.
Definition pair_eq (s' : state) (sel hv : bool) (lr nt : Z) (ct : option Z) : Prop :=
  selected s' = sel /\ have s' = hv /\ last_received s' = lr /\ next_tick s' = nt /\ ct_timer s' = ct.
Definition env_eq (s' s : state) : Prop :=
  local_consent s' = local_consent s /\ creds s' = creds s.

Definition first_lr (now : Z) (s : state) : Z := if last_received s =? 0 then now else last_received s.
Definition failed_out (s : state) : list output := if cstate_eqb (cst s) FAILED then [] else [OState FAILED].

Lemma keepalive_cases c now m sync s :
  let r := keepalive_tick_fn c now m sync s in
  let ps := if selected s then [next_tick s] else [] in
  env_eq (fst r) s /\
  ((exists d, rearm (fresh c) now ps = (None, d) /\ fst r = set_ka s (Some (due now d)) /\ snd r = [])
   \/ (exists k d, rearm (fresh c) now ps = (Some k, d) /\ do_cc c && creds s = true /\ table_full (prep c s) = true /\
       fst r = (if sync then prep c s else set_ka (prep c s) None) /\ snd r = [])
   \/ (exists k d, rearm (fresh c) now ps = (Some k, d) /\ do_cc c && creds s = false /\
       pair_eq (fst r) (selected s) (have s) (last_received s) (now + keepalive_delay_plain) (ct_timer s) /\
       ka_timer (fst r) = Some (due now d) /\ cst (fst r) = cst s /\ outstanding (fst r) = outstanding s /\ snd r = [OIndication])
   \/ (exists k d, rearm (fresh c) now ps = (Some k, d) /\ do_cc c && creds s = true /\ table_full (prep c s) = false /\ have s = false /\
       pair_eq (fst r) (selected s) false (last_received s) (now + keepalive_delay_consent m) (ct_timer s) /\
       ka_timer (fst r) = Some (due now d) /\ cst (fst r) = cst s /\ outstanding (fst r) = (next_tid s, now) :: outstanding (prep c s) /\
       snd r = [OCheck (next_tid s)])
   \/ (exists k d d', rearm (fresh c) now ps = (Some k, d) /\ do_cc c && creds s = true /\ table_full (prep c s) = false /\ have s = true /\
       0 <= d' /\ now + d' * 1000 <= first_lr now s + tmo c < now + d' * 1000 + 1000 /\
       pair_eq (fst r) (selected s) true (first_lr now s) (now + keepalive_delay_consent m) (Some (due now d')) /\
       ka_timer (fst r) = Some (due now d) /\ cst (fst r) = cst s /\ outstanding (fst r) = (next_tid s, now) :: outstanding (prep c s) /\
       snd r = [OCheck (next_tid s)])
   \/ (exists k d, rearm (fresh c) now ps = (Some k, d) /\ do_cc c && creds s = true /\ table_full (prep c s) = false /\ have s = true /\
       tmo c < now - first_lr now s /\
       pair_eq (fst r) (selected s) false (first_lr now s) (now + keepalive_delay_consent m) None /\
       ka_timer (fst r) = Some (due now d) /\ cst (fst r) = FAILED /\ outstanding (fst r) = (next_tid s, now) :: outstanding (prep c s) /\
       snd r = failed_out s ++ [OCheck (next_tid s)])).
Proof.
  cbv zeta. unfold keepalive_tick_fn.
  destruct (rearm (fresh c) now (if selected s then [next_tick s] else [])) as [[k|] d] eqn:Er.
  2:{ split; [split; reflexivity|]. left. exists d. repeat split; reflexivity. }
  destruct (do_cc c && creds s) eqn:Ecc.
  2:{ split; [split; reflexivity|]. right. right. left. exists k, d. repeat split; reflexivity. }
  destruct (table_full (prep c s)) eqn:Etf.
  { split; [destruct sync; split; reflexivity|]. right. left. exists k, d. repeat split; reflexivity. }
  cbn [have set_pair set_tx prep selected last_received next_tick ct_timer].
  destruct (have s) eqn:Eh.
  2:{ split; [split; reflexivity|]. right. right. right. left. exists k, d. repeat split; reflexivity. }
  set (s1 := set_pair _ _ _ _ _ _).
  destruct (consent_tick_fn_cases c now s1) as [(Hexp & Hf & Ho)|(d' & Hd0 & Hb & Hf & Ho)];
    destruct (consent_tick_fn c now s1) as [s2 o2]; cbn [fst snd] in Hf, Ho; subst s2 o2.
  - split; [split; reflexivity|]. right. right. right. right. right. exists k, d.
    repeat split; try reflexivity. subst s1; cbn in Hexp. exact Hexp.
  - split; [split; reflexivity|]. right. right. right. right. left. exists k, d, d'.
    subst s1; cbn in Hb. unfold first_lr. repeat split; try reflexivity; try lia.
Qed.

Lemma answer_cases c now tid auth k fs s :
  let a := Answer tid auth k fs in
  let r := answer_fn c now tid auth k fs s in
  (refreshes c s a = true /\ forbids c s a = false /\
   fst r = set_env (set_pair s (selected s) (have s) now (next_tick s) (ct_timer s)) (local_consent s) (creds s) (forget tid s) (next_tid s) /\ snd r = [])
  \/ (forbids c s a = true /\ refreshes c s a = false /\
      fst r = set_cst (set_pair s (selected s) false (last_received s) (next_tick s) None) FAILED /\ snd r = failed_out s)
  \/ (refreshes c s a = false /\ forbids c s a = false /\ r = (s, [])).
Proof.
  cbv zeta. unfold answer_fn, refreshes, forbids, accepted.
  destruct (known tid s); cbn [negb andb]; [|right; right; repeat split; reflexivity].
  destruct auth; cbn [negb andb orb].
  - destruct (is_403 k && fresh c) eqn:E4; cbn [negb andb].
    + destruct (selected s && fs) eqn:Es.
      * right. left. repeat split; try reflexivity. apply signal_fst. rewrite signal_snd. reflexivity.
      * right. right. repeat split; reflexivity.
    + left. repeat split; reflexivity.
  - destruct (ignores_credentials k) eqn:Ei; cbn [negb andb]; [|right; right; repeat split; reflexivity].
    assert (E403 : is_403 k = false).
    { destruct k as [|code]; [reflexivity|]. cbn in *. destruct (code =? 403) eqn:E; [|reflexivity]. apply Z.eqb_eq in E. subst. discriminate. }
    rewrite E403. cbn [andb negb]. left. repeat split; reflexivity.
Qed.

Definition Inv (c : cfg) (t : Z) (s : state) : Prop :=
  0 <= last_received s <= t /\ 0 <= next_tick s < 2 ^ 62 /\
  (forall d, ct_timer s = Some d -> have s = true /\ selected s = true /\ last_received s <> 0 /\ d <= last_received s + tmo c) /\
  (selected s = true -> forall d, ka_timer s = Some d -> next_tick s <> 0 -> d <= next_tick s).

Lemma Inv_mono c t t' s : Inv c t s -> t <= t' -> Inv c t' s.
Proof. intros (H1 & H2 & H3 & H4) Hle. split; [lia|]. split; [exact H2|]. split; [exact H3|exact H4]. Qed.

Lemma rearm_some_selected fr now s k d : rearm fr now (if selected s then [next_tick s] else []) = (Some k, d) -> selected s = true.
Proof. destruct (selected s); [reflexivity|]. unfold rearm; cbn. discriminate. Qed.

Lemma delay_plain_val : keepalive_delay_plain = 25000000.
Proof. reflexivity. Qed.

Lemma jitter_ok_spec m : jitter_ok m = true -> 800000 <= m < 1200000.
Proof. unfold jitter_ok. intros H. apply andb_prop in H. destruct H as [H1 H2]. apply Z.leb_le in H1. apply Z.ltb_lt in H2. lia. Qed.

Ltac inv_split := unfold Inv; split; [|split; [|split]].

Lemma keepalive_inv c t now m sync s :
  Inv c t s -> t <= now -> 0 < now < 2 ^ 61 -> jitter_ok m = true -> Inv c now (fst (keepalive_tick_fn c now m sync s)).
Proof.
  intros (H1 & H2 & H3 & H4) Hle Hnow Hm. apply jitter_ok_spec in Hm. pose proof (keepalive_delay_bounds m Hm) as Hdel.
  pose proof delay_plain_val as Hpl.
  destruct (keepalive_cases c now m sync s) as (_ & Hc). cbv zeta in Hc.
  destruct Hc as [(d & Er & Hf & _)|[(k & d & Er & _ & _ & Hf & _)|[(k & d & Er & _ & Hp & Hka & _)|[(k & d & Er & _ & _ & Hh0 & Hp & Hka & _)|[(k & d & d' & Er & _ & _ & Hh & Hd0 & Hb & Hp & Hka & _)|(k & d & Er & _ & _ & Hh & Hexp & Hp & Hka & _)]]]]].
  - rewrite Hf. inv_split; cbn; [lia|lia|exact H3|].
    intros Hsel d0 Hd0 Hnz. injection Hd0 as <-. rewrite Hsel in Er.
    destruct (rearm_idle (fresh c) now [next_tick s] d ltac:(lia) ltac:(constructor; [lia|constructor]) Er) as (_ & _ & _ & Hall & _).
    inversion Hall; subst. unfold due. lia.
  - rewrite Hf. destruct sync; inv_split; cbn; try lia; try exact H3; try exact H4. intros; discriminate.
  - destruct (rearm_sent _ _ _ _ _ Er) as (Hd & _). destruct Hp as (P1 & P2 & P3 & P4 & P5).
    inv_split; rewrite ?P1, ?P2, ?P3, ?P4, ?P5, ?Hka; [lia|lia|exact H3|].
    intros _ d0 Hd0 _. injection Hd0 as <-. unfold due. subst d. unfold T_TA_DEFAULT. lia.
  - destruct (rearm_sent _ _ _ _ _ Er) as (Hd & _). destruct Hp as (P1 & P2 & P3 & P4 & P5).
    inv_split; rewrite ?P1, ?P2, ?P3, ?P4, ?P5, ?Hka; [lia|lia| |].
    + intros d0 Hd0. destruct (H3 _ Hd0) as (Q1 & _). congruence.
    + intros _ d0 Hd0 _. injection Hd0 as <-. unfold due. subst d. unfold T_TA_DEFAULT. lia.
  - destruct (rearm_sent _ _ _ _ _ Er) as (Hd & _). destruct Hp as (P1 & P2 & P3 & P4 & P5).
    pose proof (rearm_some_selected _ _ _ _ _ Er) as Hsel.
    assert (Hlr : 0 < first_lr now s <= now).
    { unfold first_lr. destruct (last_received s =? 0) eqn:E; [lia|]. apply Z.eqb_neq in E. lia. }
    inv_split; rewrite ?P1, ?P2, ?P3, ?P4, ?P5, ?Hka; [lia|lia| |].
    + intros d0 Hd0'. injection Hd0' as <-. split; [reflexivity|]. split; [exact Hsel|]. split; [lia|]. unfold due. lia.
    + intros _ d0 Hd0' _. injection Hd0' as <-. unfold due. subst d. unfold T_TA_DEFAULT. lia.
  - destruct (rearm_sent _ _ _ _ _ Er) as (Hd & _). destruct Hp as (P1 & P2 & P3 & P4 & P5).
    assert (Hlr : 0 < first_lr now s <= now).
    { unfold first_lr. destruct (last_received s =? 0) eqn:E; [lia|]. apply Z.eqb_neq in E. lia. }
    inv_split; rewrite ?P1, ?P2, ?P3, ?P4, ?P5, ?Hka; [lia|lia| |].
    + intros d0 Hd0'. discriminate.
    + intros _ d0 Hd0' _. injection Hd0' as <-. unfold due. subst d. unfold T_TA_DEFAULT. lia.
Qed.

Lemma ev_ok_spec L s e : ev_ok L s e = true ->
  0 < time e < 2 ^ 61 /\ (forall d, ka_timer s = Some d -> time e <= d + L) /\ (forall d, ct_timer s = Some d -> time e <= d + L) /\
  (forall m, what e = KeepaliveTick m -> jitter_ok m = true /\ exists d, ka_timer s = Some d /\ d + 1 <= time e) /\
  (what e = ConsentTick -> exists d, ct_timer s = Some d /\ d + 1 <= time e) /\
  (forall h m, what e = NewPair h m -> jitter_ok m = true).
Proof.
  unfold ev_ok. intros H.
  apply andb_prop in H. destruct H as [H Hw]. apply andb_prop in H. destruct H as [H Hct]. apply andb_prop in H. destruct H as [H Hka].
  apply andb_prop in H. destruct H as [H0 H1]. apply Z.ltb_lt in H0. apply Z.ltb_lt in H1.
  split; [lia|]. split.
  { intros d Hd. rewrite Hd in Hka. cbn in Hka. apply Z.leb_le in Hka. exact Hka. }
  split.
  { intros d Hd. rewrite Hd in Hct. cbn in Hct. apply Z.leb_le in Hct. exact Hct. }
  split.
  { intros m Hm. rewrite Hm in Hw. apply andb_prop in Hw. destruct Hw as [Hf Hj]. split; [exact Hj|].
    unfold fires in Hf. destruct (ka_timer s) as [d|]; [|discriminate]. exists d. apply Z.leb_le in Hf. split; [reflexivity|exact Hf]. }
  split.
  { intros Hm. rewrite Hm in Hw. unfold fires in Hw. destruct (ct_timer s) as [d|]; [|discriminate]. exists d. apply Z.leb_le in Hw. split; [reflexivity|exact Hw]. }
  intros h m Hm. rewrite Hm in Hw. exact Hw.
Qed.

Lemma api_states_fst s : fst (api_states s) = set_cst s READY.
Proof.
  unfold api_states.
  destruct ((rank (cst s) <? rank CONNECTING) || cstate_eqb (cst s) FAILED).
  - pose proof (signal_fst s CONNECTING) as E1. destruct (signal s CONNECTING) as [s1 o1]. cbn [fst] in E1. subst s1.
    destruct (rank (cst (set_cst s CONNECTING)) <? rank CONNECTED).
    + pose proof (signal_fst (set_cst s CONNECTING) CONNECTED) as E2. destruct (signal (set_cst s CONNECTING) CONNECTED) as [s2 o2]. cbn [fst] in E2. subst s2.
      pose proof (signal_fst (set_cst (set_cst s CONNECTING) CONNECTED) READY) as E3. destruct (signal (set_cst (set_cst s CONNECTING) CONNECTED) READY) as [s3 o3].
      cbn [fst] in *. subst s3. reflexivity.
    + pose proof (signal_fst (set_cst s CONNECTING) READY) as E3. destruct (signal (set_cst s CONNECTING) READY) as [s3 o3].
      cbn [fst] in *. subst s3. reflexivity.
  - destruct (rank (cst s) <? rank CONNECTED).
    + pose proof (signal_fst s CONNECTED) as E2. destruct (signal s CONNECTED) as [s2 o2]. cbn [fst] in E2. subst s2.
      pose proof (signal_fst (set_cst s CONNECTED) READY) as E3. destruct (signal (set_cst s CONNECTED) READY) as [s3 o3].
      cbn [fst] in *. subst s3. reflexivity.
    + pose proof (signal_fst s READY) as E3. destruct (signal s READY) as [s3 o3]. cbn [fst] in *. subst s3. reflexivity.
Qed.

Lemma api_states_no_failed s : ~ In (OState FAILED) (snd (api_states s)).
Proof.
  unfold api_states.
  destruct ((rank (cst s) <? rank CONNECTING) || cstate_eqb (cst s) FAILED).
  - pose proof (signal_snd s CONNECTING) as O1. destruct (signal s CONNECTING) as [s1 o1]. cbn [snd] in O1.
    destruct (rank (cst s1) <? rank CONNECTED).
    + pose proof (signal_snd s1 CONNECTED) as O2. destruct (signal s1 CONNECTED) as [s2 o2]. cbn [snd] in O2.
      pose proof (signal_snd s2 READY) as O3. destruct (signal s2 READY) as [s3 o3]. cbn [snd] in *.
      subst. intros Hin. repeat (apply in_app_or in Hin; destruct Hin as [Hin|Hin]);
        [destruct (cstate_eqb (cst s) CONNECTING)|destruct (cstate_eqb (cst s1) CONNECTED)|destruct (cstate_eqb (cst s2) READY)]; cbn in Hin; try tauto; destruct Hin as [Hin|Hin]; try discriminate; tauto.
    + pose proof (signal_snd s1 READY) as O3. destruct (signal s1 READY) as [s3 o3]. cbn [snd] in *.
      subst. intros Hin. repeat (apply in_app_or in Hin; destruct Hin as [Hin|Hin]);
        [destruct (cstate_eqb (cst s) CONNECTING)| |destruct (cstate_eqb (cst s1) READY)]; cbn in Hin; try tauto; destruct Hin as [Hin|Hin]; try discriminate; tauto.
  - destruct (rank (cst s) <? rank CONNECTED).
    + pose proof (signal_snd s CONNECTED) as O2. destruct (signal s CONNECTED) as [s2 o2]. cbn [snd] in O2.
      pose proof (signal_snd s2 READY) as O3. destruct (signal s2 READY) as [s3 o3]. cbn [snd] in *.
      subst. intros Hin. repeat (apply in_app_or in Hin; destruct Hin as [Hin|Hin]);
        [ |destruct (cstate_eqb (cst s) CONNECTED)|destruct (cstate_eqb (cst s2) READY)]; cbn in Hin; try tauto; destruct Hin as [Hin|Hin]; try discriminate; tauto.
    + pose proof (signal_snd s READY) as O3. destruct (signal s READY) as [s3 o3]. cbn [snd] in *.
      subst. intros Hin. cbn in Hin. destruct (cstate_eqb (cst s) READY); cbn in Hin; try tauto; destruct Hin as [Hin|Hin]; try discriminate; tauto.
Qed.

Definition core_eq (s' s : state) : Prop :=
  selected s' = selected s /\ have s' = have s /\ last_received s' = last_received s /\ next_tick s' = next_tick s /\
  ct_timer s' = ct_timer s /\ ka_timer s' = ka_timer s.

Lemma Inv_core c t s s' : core_eq s' s -> Inv c t s -> Inv c t s'.
Proof. intros (E1 & E2 & E3 & E4 & E5 & E6). unfold Inv. rewrite E1, E2, E3, E4, E5, E6. tauto. Qed.

Definition passive (a : action) : bool :=
  match a with IncomingCheck _ | RevokeLocal | Send | Restart | SetCreds | EnvState _ => true | _ => false end.

Lemma step_passive c s e : passive (what e) = true -> core_eq (fst (step c s e)) s.
Proof.
  unfold step. destruct (what e) as [m| |tid auth k fs|auth| | |h m| | | |st]; cbn [passive]; intros H; try discriminate.
  - destruct (negb auth); [repeat split|]. destruct (negb (local_consent s)); repeat split.
  - destruct (negb (fresh c)); repeat split.
  - destruct (selected s && negb (have s)); repeat split.
  - rewrite signal_fst. repeat split.
  - repeat split.
  - rewrite signal_fst. repeat split.
Qed.

Lemma step_inv c L t s e : Inv c t s -> t <= time e -> ev_ok L s e = true -> Inv c (time e) (fst (step c s e)).
Proof.
  intros HI Hle Hok. destruct (ev_ok_spec _ _ _ Hok) as (Ht & _ & _ & Hkt & Hctk & Hnp).
  destruct (passive (what e)) eqn:Ep.
  { eapply Inv_core; [apply step_passive; exact Ep|]. eapply Inv_mono; eassumption. }
  unfold step. destruct (what e) as [m| |tid auth k fs|auth| | |h m| | | |st] eqn:Ew; cbn [passive] in Ep; try discriminate.
  - destruct (Hkt m eq_refl) as (Hj & _). eapply keepalive_inv; eassumption.
  - destruct (Hctk eq_refl) as (d & Hd & Hfire). destruct HI as (H1 & H2 & H3 & H4). destruct (H3 _ Hd) as (Hh & Hs & Hnz & Hdl).
    destruct (consent_tick_fn_cases c (time e) s) as [(_ & Hf & _)|(d' & Hd0 & Hb & Hf & _)]; rewrite Hf.
    + inv_split; cbn; [lia|lia| |exact H4]. intros; discriminate.
    + inv_split; cbn; [lia|lia| |exact H4]. intros d0 Hd0'. injection Hd0' as <-. split; [exact Hh|]. split; [exact Hs|]. split; [exact Hnz|]. unfold due. lia.
  - destruct HI as (H1 & H2 & H3 & H4).
    destruct (answer_cases c (time e) tid auth k fs s) as [(_ & _ & Hf & _)|[(_ & _ & Hf & _)|(_ & _ & Hr)]]; cbv zeta in *.
    + rewrite Hf. inv_split; cbn; [lia|lia| |exact H4]. intros d0 Hd0. destruct (H3 _ Hd0) as (Hh & Hs & Hnz & Hdl). repeat split; try assumption; lia.
    + rewrite Hf. inv_split; cbn; [lia|lia| |exact H4]. intros; discriminate.
    + rewrite Hr. cbn [fst]. inv_split; [lia|exact H2|exact H3|exact H4].
  - pose proof (Hnp h m eq_refl) as Hj.
    assert (H0 : Inv c (time e) (set_pair (clear_pair s) true true 0 0 None)).
    { destruct HI as (H1 & H2 & H3 & H4). inv_split; cbn; [lia|lia| |]. intros; discriminate. intros _ d0 _ Hnz. exfalso; apply Hnz; reflexivity. }
    destruct h.
    + eapply keepalive_inv; [exact H0|lia|lia|exact Hj].
    + pose proof (api_states_fst s) as Ea. destruct (api_states s) as [s1 o1]. cbn [fst] in Ea. subst s1. cbn [fst]. exact H0.
  - destruct HI as (H1 & H2 & H3 & H4). inv_split; cbn; [lia|lia| |]. intros; discriminate. intros; discriminate.
Qed.

(* ---------------------------------------------------------------- runs *)
Fixpoint always (P : state -> event -> Prop) (c : cfg) (s : state) (evs : list event) : Prop :=
  match evs with [] => True | e :: r => P s e /\ always P c (fst (step c s e)) r end.

Lemma exec_app c : forall a s b, exec c s (a ++ b) = exec c (exec c s a) b.
Proof. induction a as [|e a IH]; intros s b; [reflexivity|]. cbn. apply IH. Qed.

Lemma always_split P c : forall pre s e post, always P c s (pre ++ e :: post) ->
  P (exec c s pre) e /\ always P c (fst (step c (exec c s pre) e)) post.
Proof. induction pre as [|x pre IH]; intros s e post H; cbn in *; [exact H|]. destruct H as [_ H]. apply IH. exact H. Qed.

Lemma always_prefix P c : forall pre s post, always P c s (pre ++ post) -> always P c s pre.
Proof. induction pre as [|x pre IH]; intros s post H; cbn in *; [exact I|]. destruct H as [H0 H]. split; [exact H0|]. eapply IH. exact H. Qed.

Lemma always_suffix P c : forall pre s post, always P c s (pre ++ post) -> always P c (exec c s pre) post.
Proof. induction pre as [|x pre IH]; intros s post H; cbn in *; [exact H|]. destruct H as [_ H]. apply IH. exact H. Qed.

Lemma valid_cons L c s t0 e r : valid L c s t0 (e :: r) = true ->
  t0 <= time e /\ ev_ok L s e = true /\ valid L c (fst (step c s e)) (time e) r = true.
Proof.
  cbn [valid]. intros H. apply andb_prop in H. destruct H as [H Hr]. apply andb_prop in H. destruct H as [H0 H1].
  apply Z.leb_le in H0. tauto.
Qed.

Lemma valid_split L c : forall pre s t0 e post, Inv c t0 s -> valid L c s t0 (pre ++ e :: post) = true ->
  exists t1, t1 <= time e /\ Inv c t1 (exec c s pre) /\ ev_ok L (exec c s pre) e = true /\
             valid L c (fst (step c (exec c s pre) e)) (time e) post = true.
Proof.
  induction pre as [|x pre IH]; intros s t0 e post HI Hv.
  - cbn [app] in Hv. apply valid_cons in Hv. destruct Hv as (H0 & H1 & H2). exists t0. cbn [exec]. tauto.
  - cbn [app] in Hv. apply valid_cons in Hv. destruct Hv as (H0 & H1 & H2). cbn [exec].
    apply (IH _ (time x)); [eapply step_inv; eassumption|exact H2].
Qed.

Lemma valid_inv_exec L c : forall evs s t0, Inv c t0 s -> valid L c s t0 evs = true -> exists t1, t0 <= t1 /\ Inv c t1 (exec c s evs).
Proof.
  induction evs as [|x r IH]; intros s t0 HI Hv; [exists t0; split; [lia|exact HI]|].
  apply valid_cons in Hv. destruct Hv as (H0 & H1 & H2). cbn [exec].
  destruct (IH _ (time x) (step_inv _ _ _ _ _ HI H0 H1) H2) as (t1 & Hle & HI1). exists t1. split; [lia|exact HI1].
Qed.

(* ---------------------------------------------------------------- (1) stays usable *)
(** the hypothesis of clause 1 at one event: the latest refresh of last_received (an accepted answer, or the first consent check
    on the pair) is at most the consent timeout old, and the event is not an effective 403 *)
Definition fed (c : cfg) (s : state) (e : event) : Prop :=
  (last_received s = 0 \/ time e - last_received s <= tmo c) /\ forbids c s (what e) = false.

Definition is_env (a : action) : bool := match a with EnvState _ => true | _ => false end.

Definition usable (s : state) : Prop := selected s = true -> have s = true.

Lemma keepalive_usable c now m sync s :
  usable s -> (last_received s = 0 \/ now - last_received s <= tmo c) ->
  usable (fst (keepalive_tick_fn c now m sync s)) /\ ~ In (OState FAILED) (snd (keepalive_tick_fn c now m sync s)).
Proof.
  intros HG Hfed. pose proof (timeout_pos (fresh c)) as Hpos. fold (tmo c) in Hpos.
  destruct (keepalive_cases c now m sync s) as (_ & Hc). cbv zeta in Hc. unfold usable in *.
  destruct Hc as [(d & Er & Hf & Ho)|[(k & d & Er & _ & _ & Hf & Ho)|[(k & d & Er & _ & Hp & Hka & _ & _ & Ho)|[(k & d & Er & _ & _ & Hh0 & Hp & Hka & _ & _ & Ho)|[(k & d & d' & Er & _ & _ & Hh & Hd0 & Hb & Hp & Hka & _ & _ & Ho)|(k & d & Er & _ & _ & Hh & Hexp & Hp & Hka & _)]]]]].
  - rewrite Hf, Ho. split; [exact HG|intros []].
  - rewrite Hf, Ho. split; [destruct sync; exact HG|intros []].
  - destruct Hp as (P1 & P2 & _). rewrite P1, P2, Ho. split; [exact HG|]. intros [H|[]]; discriminate.
  - apply rearm_some_selected in Er. rewrite (HG Er) in Hh0. discriminate.
  - destruct Hp as (P1 & P2 & _). rewrite P1, P2, Ho. split; [reflexivity|]. intros [H|[]]; discriminate.
  - exfalso. unfold first_lr in Hexp. destruct (last_received s =? 0) eqn:E; [lia|]. apply Z.eqb_neq in E. lia.
Qed.

Lemma usable_step c L t s e :
  Inv c t s -> t <= time e -> ev_ok L s e = true -> usable s -> fed c s e ->
  usable (fst (step c s e)) /\ (is_env (what e) = false -> ~ In (OState FAILED) (snd (step c s e))).
Proof.
  intros HI Hle Hok HG (Hfed & Hnf). destruct (ev_ok_spec _ _ _ Hok) as (Ht & _ & _ & Hkt & Hctk & Hnp).
  pose proof (timeout_pos (fresh c)) as Hpos. fold (tmo c) in Hpos.
  destruct (passive (what e)) eqn:Ep.
  { destruct (step_passive c s e Ep) as (E1 & E2 & _). split; [unfold usable; rewrite E1, E2; exact HG|].
    intros Hne. unfold step. destruct (what e) as [m| |tid auth k fs|auth| | |h m| | | |st'] eqn:Ew; cbn [passive] in Ep; try discriminate.
    - destruct (negb auth); [intros [H|[]]; discriminate|]. destruct (negb (local_consent s)); intros [H|[]]; discriminate.
    - destruct (negb (fresh c)); intros [H|[]]; discriminate.
    - destruct (selected s && negb (have s)); intros [H|[]]; discriminate.
    - rewrite signal_snd. destruct (cstate_eqb _ _); [intros []|intros [H|[]]; discriminate].
    - intros []. }
  unfold step. destruct (what e) as [m| |tid auth k fs|auth| | |h m| | | |st'] eqn:Ew; cbn [passive] in Ep; try discriminate.
  - destruct (keepalive_usable c (time e) m false s HG Hfed) as (HA & HB). split; [exact HA|intros; exact HB].
  - destruct (Hctk eq_refl) as (d & Hd & Hfire). destruct HI as (H1 & H2 & H3 & H4). destruct (H3 _ Hd) as (Hh & Hs & Hnz & Hdl).
    destruct (consent_tick_fn_cases c (time e) s) as [(Hexp & _)|(d' & Hd0 & Hb & Hf & Ho)]; [lia|].
    rewrite Hf, Ho. split; [unfold usable; cbn; exact HG|intros ? []].
  - cbn [forbids] in Hnf.
    destruct (answer_cases c (time e) tid auth k fs s) as [(_ & _ & Hf & Ho)|[(Hfb & _)|(_ & _ & Hr)]]; cbv zeta in *.
    + rewrite Hf, Ho. split; [unfold usable; cbn; exact HG|intros ? []].
    + cbn [forbids] in Hfb. congruence.
    + rewrite Hr. split; [exact HG|intros ? []].
  - pose proof (Hnp h m eq_refl) as Hj. destruct h.
    + assert (HG0 : usable (set_pair (clear_pair s) true true 0 0 None)) by (intros _; reflexivity).
      destruct (keepalive_usable c (time e) m true _ HG0 (or_introl eq_refl)) as (HA & HB). split; [exact HA|intros; exact HB].
    + pose proof (api_states_no_failed s) as Hno. destruct (api_states s) as [s1 o1]. cbn [fst snd] in *. split; [intros _; reflexivity|intros; exact Hno].
  - split; [intros H; discriminate|intros ? []].
Qed.

Definition step_ok (c : cfg) (s : state) (e : event) : Prop :=
  send_allowed (selected (fst (step c s e))) (have (fst (step c s e))) = true /\
  (is_env (what e) = false -> ~ In (OState FAILED) (snd (step c s e))).

Lemma usable_gate s : usable s -> send_allowed (selected s) (have s) = true.
Proof. unfold usable, send_allowed. destruct (selected s); [intros H; rewrite (H eq_refl); reflexivity|reflexivity]. Qed.

Lemma stays_usable_always c L : forall evs s t0,
  Inv c t0 s -> valid L c s t0 evs = true -> usable s -> always (fed c) c s evs -> always (step_ok c) c s evs.
Proof.
  induction evs as [|e r IH]; intros s t0 HI Hv HG Hfed; [exact I|].
  apply valid_cons in Hv. destruct Hv as (H0 & H1 & H2). destruct Hfed as [Hf Hfr].
  destruct (usable_step c L t0 s e HI H0 H1 HG Hf) as (HG' & Hno).
  split; [split; [apply usable_gate; exact HG'|exact Hno]|].
  apply (IH _ (time e)); [eapply step_inv; eassumption|exact H2|exact HG'|exact Hfr].
Qed.

(** (1) STAYS USABLE *)
Theorem stays_usable c L s t0 evs :
  Inv c t0 s -> valid L c s t0 evs = true -> (selected s = true -> have s = true) -> always (fed c) c s evs ->
  forall pre e post, evs = pre ++ e :: post ->
    let s1 := exec c s pre in
    send_allowed (selected (fst (step c s1 e))) (have (fst (step c s1 e))) = true /\
    (is_env (what e) = false -> ~ In (OState FAILED) (snd (step c s1 e))).
Proof.
  intros HI Hv HG Hfed pre e post ->. pose proof (stays_usable_always c L _ _ _ HI Hv HG Hfed) as H.
  apply always_split in H. destruct H as [H _]. exact H.
Qed.

(* ---------------------------------------------------------------- (2) expiry *)
Definition reselects (a : action) : bool := match a with NewPair _ _ | ClearPair => true | _ => false end.
(** an event that neither refreshes last_received, nor is an effective 403, nor replaces / clears the selected pair *)
Definition quiet (c : cfg) (s : state) (e : event) : Prop :=
  refreshes c s (what e) = false /\ forbids c s (what e) = false /\ reselects (what e) = false.

Lemma quiet_step c L t s e d :
  Inv c t s -> t <= time e -> ev_ok L s e = true -> have s = true -> ct_timer s = Some d -> quiet c s e ->
  last_received (fst (step c s e)) = last_received s /\ selected (fst (step c s e)) = true /\
  ((have (fst (step c s e)) = true /\ exists d', ct_timer (fst (step c s e)) = Some d') \/
   (have (fst (step c s e)) = false /\ tmo c < time e - last_received s /\
    (In (OState FAILED) (snd (step c s e)) \/ cst s = FAILED) /\ cst (fst (step c s e)) = FAILED)).
Proof.
  intros HI Hle Hok Hh Hd (Hnr & Hnf & Hns). destruct (ev_ok_spec _ _ _ Hok) as (Ht & _ & _ & Hkt & Hctk & Hnp).
  destruct HI as (H1 & H2 & H3 & H4). destruct (H3 _ Hd) as (_ & Hs & Hnz & Hdl).
  assert (Hfo : In (OState FAILED) (failed_out s) \/ cst s = FAILED).
  { unfold failed_out. destruct (cstate_eqb (cst s) FAILED) eqn:E; [right; apply cstate_eqb_eq; exact E|left; left; reflexivity]. }
  destruct (passive (what e)) eqn:Ep.
  { destruct (step_passive c s e Ep) as (E1 & E2 & E3 & E4 & E5 & E6). rewrite E1, E2, E3, E5. split; [reflexivity|]. split; [exact Hs|]. left. split; [exact Hh|exists d; exact Hd]. }
  unfold step. destruct (what e) as [m| |tid auth k fs|auth| | |h m| | | |st'] eqn:Ew; cbn [passive reselects] in Ep, Hns; try discriminate.
  - destruct (keepalive_cases c (time e) m false s) as (_ & Hc). cbv zeta in Hc.
    assert (Hfl : first_lr (time e) s = last_received s) by (unfold first_lr; destruct (last_received s =? 0) eqn:E; [apply Z.eqb_eq in E; lia|reflexivity]).
    destruct Hc as [(d0 & Er & Hf & Ho)|[(k & d0 & Er & _ & _ & Hf & Ho)|[(k & d0 & Er & _ & Hp & Hka & _ & _ & Ho)|[(k & d0 & Er & _ & _ & Hh0 & Hp & Hka & _ & _ & Ho)|[(k & d0 & d' & Er & _ & _ & _ & Hd0 & Hb & Hp & Hka & _ & _ & Ho)|(k & d0 & Er & _ & _ & _ & Hexp & Hp & Hka & Hcs & _ & Ho)]]]]].
    + rewrite Hf. cbn. split; [reflexivity|]. split; [exact Hs|]. left. split; [exact Hh|exists d; exact Hd].
    + rewrite Hf. cbn. split; [reflexivity|]. split; [exact Hs|]. left. split; [exact Hh|exists d; exact Hd].
    + destruct Hp as (P1 & P2 & P3 & P4 & P5). rewrite P1, P2, P3, P5. split; [reflexivity|]. split; [exact Hs|]. left. split; [exact Hh|exists d; exact Hd].
    + congruence.
    + destruct Hp as (P1 & P2 & P3 & P4 & P5). rewrite P1, P2, P3, P5. split; [exact Hfl|]. split; [exact Hs|]. left. split; [reflexivity|eexists; reflexivity].
    + destruct Hp as (P1 & P2 & P3 & P4 & P5). rewrite P1, P2, P3, Ho, Hcs. split; [exact Hfl|]. split; [exact Hs|]. right.
      split; [reflexivity|]. split; [lia|]. split; [|reflexivity]. destruct Hfo as [Hfo|Hfo]; [left; apply in_or_app; left; exact Hfo|right; exact Hfo].
  - destruct (consent_tick_fn_cases c (time e) s) as [(Hexp & Hf & Ho)|(d' & Hd0 & Hb & Hf & Ho)]; rewrite Hf, Ho; cbn.
    + split; [reflexivity|]. split; [exact Hs|]. right. split; [reflexivity|]. split; [exact Hexp|]. split; [exact Hfo|reflexivity].
    + split; [reflexivity|]. split; [exact Hs|]. left. split; [exact Hh|eexists; reflexivity].
  - destruct (answer_cases c (time e) tid auth k fs s) as [(Hr & _)|[(Hfb & _)|(_ & _ & Hr)]]; cbv zeta in *; try congruence.
    rewrite Hr. cbn [fst]. split; [reflexivity|]. split; [exact Hs|]. left. split; [exact Hh|exists d; exact Hd].
Qed.

(** once the gate is closed only a new selected pair (or the removal of the pair) changes that *)
Lemma closed_step c s e :
  selected s = true -> have s = false -> reselects (what e) = false ->
  selected (fst (step c s e)) = true /\ have (fst (step c s e)) = false.
Proof.
  intros Hs Hh Hns.
  destruct (passive (what e)) eqn:Ep.
  { destruct (step_passive c s e Ep) as (E1 & E2 & _). rewrite E1, E2. tauto. }
  unfold step. destruct (what e) as [m| |tid auth k fs|auth| | |h m| | | |st'] eqn:Ew; cbn [passive reselects] in Ep, Hns; try discriminate.
  - destruct (keepalive_cases c (time e) m false s) as (_ & Hc). cbv zeta in Hc.
    destruct Hc as [(d0 & Er & Hf & Ho)|[(k & d0 & Er & _ & _ & Hf & Ho)|[(k & d0 & Er & _ & Hp & _)|[(k & d0 & Er & _ & _ & Hh0 & Hp & _)|[(k & d0 & d' & Er & _ & _ & Hh1 & _)|(k & d0 & Er & _ & _ & Hh1 & _)]]]]]; try congruence.
    + rewrite Hf. cbn. tauto.
    + rewrite Hf. cbn. tauto.
    + destruct Hp as (P1 & P2 & _). rewrite P1, P2. tauto.
    + destruct Hp as (P1 & P2 & _). rewrite P1, P2. tauto.
  - destruct (consent_tick_fn_cases c (time e) s) as [(Hexp & Hf & Ho)|(d' & Hd0 & Hb & Hf & Ho)]; rewrite Hf; cbn; tauto.
  - destruct (answer_cases c (time e) tid auth k fs s) as [(_ & _ & Hf & _)|[(_ & _ & Hf & _)|(_ & _ & Hr)]]; cbv zeta in *.
    + rewrite Hf. cbn. tauto.
    + rewrite Hf. cbn. tauto.
    + rewrite Hr. cbn. tauto.
Qed.

Lemma closed_run c : forall pre s, selected s = true -> have s = false -> Forall (fun e => reselects (what e) = false) pre ->
  selected (exec c s pre) = true /\ have (exec c s pre) = false.
Proof.
  induction pre as [|x pre IH]; intros s Hs Hh Hall; [cbn; tauto|].
  inversion Hall as [|? ? Hx Hr]; subst. cbn [exec]. destruct (closed_step c s x Hs Hh Hx) as (Hs' & Hh'). apply IH; assumption.
Qed.

Lemma send_refused c s e : selected s = true -> have s = false -> what e = Send -> snd (step c s e) = [OSend false].
Proof. intros Hs Hh Hw. unfold step. rewrite Hw, Hs, Hh. reflexivity. Qed.

(** the gate re-opens only through a new selected pair *)
Lemma reopen_only_by_new_pair c s e :
  selected s = true -> have s = false ->
  send_allowed (selected (fst (step c s e))) (have (fst (step c s e))) = true -> reselects (what e) = true.
Proof.
  intros Hs Hh Hopen. destruct (reselects (what e)) eqn:Er; [reflexivity|].
  destruct (closed_step c s e Hs Hh Er) as (Hs' & Hh'). rewrite Hs', Hh' in Hopen. discriminate.
Qed.

Lemma quiet_noresel c : forall evs s, always (quiet c) c s evs -> Forall (fun e => reselects (what e) = false) evs.
Proof. induction evs as [|x r IH]; intros s H; [constructor|]. destruct H as [(_ & _ & Hx) Hr]. constructor; [exact Hx|eapply IH; exact Hr]. Qed.

Lemma expiry_core c L : forall evs s t0 d,
  Inv c t0 s -> valid L c s t0 evs = true -> have s = true -> ct_timer s = Some d -> always (quiet c) c s evs ->
  (exists e', In e' evs /\ last_received s + tmo c + L < time e') ->
  exists pre e post, evs = pre ++ e :: post /\ last_received s + tmo c < time e <= last_received s + tmo c + L /\
    have (exec c s pre) = true /\ selected (fst (step c (exec c s pre) e)) = true /\ have (fst (step c (exec c s pre) e)) = false /\
    (In (OState FAILED) (snd (step c (exec c s pre) e)) \/ cst (exec c s pre) = FAILED) /\ cst (fst (step c (exec c s pre) e)) = FAILED.
Proof.
  induction evs as [|e r IH]; intros s t0 d HI Hv Hh Hd Hq (e' & Hin & Hlate); [destruct Hin|].
  apply valid_cons in Hv. destruct Hv as (H0 & H1 & H2). destruct Hq as [Hq Hqr].
  destruct (ev_ok_spec _ _ _ H1) as (_ & _ & Hct & _).
  pose proof (Hct _ Hd) as Hte. destruct HI as (I1 & I2 & I3 & I4). destruct (I3 _ Hd) as (_ & _ & _ & Hdl).
  assert (HI : Inv c t0 s) by (unfold Inv; tauto).
  destruct (quiet_step c L t0 s e d HI H0 H1 Hh Hd Hq) as (Hl & Hs & [(Hh' & d' & Hd')|(Hh' & Hexp & Hout & Hcs)]).
  - assert (Hin' : In e' r) by (destruct Hin as [<-|Hin]; [lia|exact Hin]).
    destruct (IH _ (time e) d' (step_inv _ _ _ _ _ HI H0 H1) H2 Hh' Hd' Hqr) as (pre & x & post & -> & Hwin & A1 & A2 & A3 & A4 & A5).
    { exists e'. split; [exact Hin'|]. rewrite Hl. exact Hlate. }
    rewrite Hl in Hwin. exists (e :: pre), x, post. cbn [app exec]. repeat split; try assumption; try lia.
  - exists [], e, r. cbn [app exec]. repeat split; try assumption; try lia.
Qed.

(** (2) EXPIRY *)
Theorem expiry c L s t0 evs d :
  Inv c t0 s -> valid L c s t0 evs = true -> have s = true -> ct_timer s = Some d -> always (quiet c) c s evs ->
  (exists e', In e' evs /\ last_received s + tmo c + L < time e') ->
  exists pre e post, evs = pre ++ e :: post /\
    last_received s + tmo c < time e <= last_received s + tmo c + L /\
    have (exec c s pre) = true /\ have (fst (step c (exec c s pre) e)) = false /\
    (In (OState FAILED) (snd (step c (exec c s pre) e)) \/ cst (exec c s pre) = FAILED) /\
    cst (fst (step c (exec c s pre) e)) = FAILED /\
    (forall p2 e2 q2, post = p2 ++ e2 :: q2 ->
       have (exec c s (pre ++ e :: p2)) = false /\ (what e2 = Send -> snd (step c (exec c s (pre ++ e :: p2)) e2) = [OSend false])).
Proof.
  intros HI Hv Hh Hd Hq Hlate.
  destruct (expiry_core c L evs s t0 d HI Hv Hh Hd Hq Hlate) as (pre & e & post & -> & Hwin & A1 & A2 & A3 & A4 & A5).
  exists pre, e, post. repeat split; try assumption; try lia.
  - subst post. rewrite exec_app. cbn [exec].
    apply quiet_noresel in Hq. apply Forall_app in Hq. destruct Hq as [_ Hq]. inversion Hq as [|? ? _ Hq']; subst.
    apply Forall_app in Hq'. destruct Hq' as [Hq' _]. apply (closed_run c p2 _ A2 A3 Hq').
  - intros Hw. subst post. rewrite exec_app. cbn [exec].
    apply quiet_noresel in Hq. apply Forall_app in Hq. destruct Hq as [_ Hq]. inversion Hq as [|? ? _ Hq']; subst.
    apply Forall_app in Hq'. destruct Hq' as [Hq' _]. destruct (closed_run c p2 _ A2 A3 Hq') as (B1 & B2).
    apply send_refused; assumption.
Qed.

(** the gate stays closed for ever, whatever happens, until a pair is selected again or the pair is removed *)
Theorem gate_stays_closed c s evs :
  selected s = true -> have s = false -> Forall (fun e => reselects (what e) = false) evs ->
  forall pre e post, evs = pre ++ e :: post ->
    selected (exec c s pre) = true /\ have (exec c s pre) = false /\ (what e = Send -> snd (step c (exec c s pre) e) = [OSend false]).
Proof.
  intros Hs Hh Hall pre e post ->. apply Forall_app in Hall. destruct Hall as [Hall _].
  destruct (closed_run c pre s Hs Hh Hall) as (A & B). split; [exact A|]. split; [exact B|]. intros Hw. apply send_refused; assumption.
Qed.

(* ---------------------------------------------------------------- (3) 403 *)
(** an accepted 403 (known transaction id, MESSAGE-INTEGRITY good, consent freshness, from the remote address of the selected pair)
    closes the gate, cancels the consent timer and announces FAILED in the same step *)
Lemma forbidden_fields c s e :
  forbids c s (what e) = true ->
  selected (fst (step c s e)) = true /\ have (fst (step c s e)) = false /\ ct_timer (fst (step c s e)) = None /\
  cst (fst (step c s e)) = FAILED /\ (In (OState FAILED) (snd (step c s e)) \/ cst s = FAILED).
Proof.
  intros Hf. unfold step. destruct (what e) as [m| |tid auth k fs|auth| | |h m| | | |st'] eqn:Ew; cbn [forbids] in Hf; try discriminate.
  assert (Hsel : selected s = true).
  { apply andb_prop in Hf. destruct Hf as [Hf _]. apply andb_prop in Hf. destruct Hf as [_ Hf]. exact Hf. }
  destruct (answer_cases c (time e) tid auth k fs s) as [(_ & Hnf & _)|[(_ & _ & Hfs & Ho)|(_ & Hnf & _)]]; cbv zeta in *; cbn [forbids] in *; try congruence.
  rewrite Hfs, Ho. cbn. split; [exact Hsel|]. split; [reflexivity|]. split; [reflexivity|]. split; [reflexivity|].
  unfold failed_out. destruct (cstate_eqb (cst s) FAILED) eqn:E; [right; apply cstate_eqb_eq; exact E|left; left; reflexivity].
Qed.

Theorem forbidden_closes c s e :
  forbids c s (what e) = true ->
  selected (fst (step c s e)) = true /\ have (fst (step c s e)) = false /\ ct_timer (fst (step c s e)) = None /\
  cst (fst (step c s e)) = FAILED /\ (In (OState FAILED) (snd (step c s e)) \/ cst s = FAILED) /\
  (forall e2, what e2 = Send -> snd (step c (fst (step c s e)) e2) = [OSend false]).
Proof.
  intros Hf. destruct (forbidden_fields c s e Hf) as (A & B & C & D & E).
  repeat (split; [assumption|]). intros e2 Hw. apply send_refused; assumption.
Qed.

(** a 403 with an unknown transaction id, or with a bad MESSAGE-INTEGRITY, or from another address, or without a selected pair,
    changes nothing at all *)
Theorem forbidden_ineffective c s e tid auth fs :
  what e = Answer tid auth (KError 403) fs -> fresh c = true ->
  known tid s = false \/ auth = false \/ fs = false \/ selected s = false ->
  step c s e = (s, []).
Proof.
  intros Hw Hfr Hcase. unfold step. rewrite Hw. unfold answer_fn. rewrite Hfr.
  destruct (known tid s); cbn [negb]; [|reflexivity].
  destruct auth; cbn [negb andb ignores_credentials is_403]; [|reflexivity].
  change (403 =? 403) with true. cbn [andb].
  destruct (selected s); destruct fs; cbn [andb]; try reflexivity.
  destruct Hcase as [H|[H|[H|H]]]; discriminate.
Qed.

(* ---------------------------------------------------------------- (4) local revocation *)
Definition is_restart (a : action) : bool := match a with Restart => true | _ => false end.
Definition is_revoke (a : action) : bool := match a with RevokeLocal => true | _ => false end.

Lemma local_consent_step c s e :
  local_consent (fst (step c s e)) =
  match what e with RevokeLocal => if fresh c then false else local_consent s | Restart => true | _ => local_consent s end.
Proof.
  unfold step. destruct (what e) as [m| |tid auth k fs|auth| | |h m| | | |st'] eqn:Ew.
  - destruct (keepalive_cases c (time e) m false s) as ((E & _) & _). exact E.
  - destruct (consent_tick_fn_cases c (time e) s) as [(_ & Hf & _)|(d' & _ & _ & Hf & _)]; rewrite Hf; reflexivity.
  - destruct (answer_cases c (time e) tid auth k fs s) as [(_ & _ & Hf & _)|[(_ & _ & Hf & _)|(_ & _ & Hr)]]; cbv zeta in *; [rewrite Hf|rewrite Hf|rewrite Hr]; reflexivity.
  - destruct (negb auth); [reflexivity|]. destruct (negb (local_consent s)); reflexivity.
  - destruct (fresh c); reflexivity.
  - destruct (selected s && negb (have s)); reflexivity.
  - destruct h.
    + destruct (keepalive_cases c (time e) m true (set_pair (clear_pair s) true true 0 0 None)) as ((E & _) & _). exact E.
    + pose proof (api_states_fst s) as Ea. destruct (api_states s) as [s1 o1]. cbn [fst] in *. subst s1. reflexivity.
  - reflexivity.
  - rewrite signal_fst. reflexivity.
  - reflexivity.
  - rewrite signal_fst. reflexivity.
Qed.

Lemma local_consent_false_run c : forall evs s, local_consent s = false -> Forall (fun e => is_restart (what e) = false) evs ->
  local_consent (exec c s evs) = false.
Proof.
  induction evs as [|x r IH]; intros s Hl Hall; [exact Hl|]. inversion Hall as [|? ? Hx Hr]; subst. cbn [exec]. apply IH; [|exact Hr].
  rewrite local_consent_step. destruct (what x); try exact Hl; try discriminate. destruct (fresh c); [reflexivity|exact Hl].
Qed.

Lemma local_consent_true_run c : forall evs s, local_consent s = true -> Forall (fun e => is_revoke (what e) = false) evs ->
  local_consent (exec c s evs) = true.
Proof.
  induction evs as [|x r IH]; intros s Hl Hall; [exact Hl|]. inversion Hall as [|? ? Hx Hr]; subst. cbn [exec]. apply IH; [|exact Hr].
  rewrite local_consent_step. destruct (what x); try exact Hl; try discriminate. reflexivity.
Qed.

(** (4) after nice_agent_consent_lost every authenticated check is answered 403 and never 200, for ever - until an ICE restart *)
Theorem revoked_answers_403 c s pre rev mid chk :
  fresh c = true -> what rev = RevokeLocal -> Forall (fun e => is_restart (what e) = false) mid -> what chk = IncomingCheck true ->
  snd (step c (exec c s (pre ++ rev :: mid)) chk) = [OAnswer 403].
Proof.
  intros Hf Hr Hall Hc. rewrite exec_app. cbn [exec].
  assert (Hl : local_consent (fst (step c (exec c s pre) rev)) = false) by (rewrite local_consent_step, Hr, Hf; reflexivity).
  pose proof (local_consent_false_run c mid _ Hl Hall) as Hl'. unfold step at 1. rewrite Hc, Hl'. reflexivity.
Qed.

(** ... and before it, 200 *)
Theorem unrevoked_answers_200 c s pre chk :
  local_consent s = true -> Forall (fun e => is_revoke (what e) = false) pre -> what chk = IncomingCheck true ->
  snd (step c (exec c s pre) chk) = [OAnswer 200].
Proof. intros Hl Hall Hc. pose proof (local_consent_true_run c pre s Hl Hall) as Hl'. unfold step. rewrite Hc, Hl'. reflexivity. Qed.

(* ---------------------------------------------------------------- (6) the send gate *)
(** at every instant of every event sequence the result of a send is the one-line specification *)
Theorem send_gate_refines c s pre e :
  what e = Send ->
  step c (exec c s pre) e = (exec c s pre, [OSend (send_allowed (selected (exec c s pre)) (have (exec c s pre)))]).
Proof. intros Hw. unfold step, send_allowed. rewrite Hw. destruct (selected (exec c s pre) && negb (have (exec c s pre))); reflexivity. Qed.

(* ---------------------------------------------------------------- (5) silence bound *)
Definition has_check (o : list output) : bool := existsb (fun x => match x with OCheck _ => true | _ => false end) o.

Lemma failed_out_quiet s : transmits (failed_out s) = false /\ has_check (failed_out s) = false.
Proof. unfold failed_out. destruct (cstate_eqb (cst s) FAILED); split; reflexivity. Qed.

(** what a keepalive tick that transmits leaves behind: the pair's next_tick 4 .. 6 s ahead after a check (25 s after an
    indication), the agent-wide timer back after Ta = 20 ms *)
Lemma keepalive_tx c now m sync s :
  jitter_ok m = true -> transmits (snd (keepalive_tick_fn c now m sync s)) = true ->
  selected (fst (keepalive_tick_fn c now m sync s)) = true /\ selected s = true /\
  ka_timer (fst (keepalive_tick_fn c now m sync s)) = Some (now + 20000) /\
  exists delay, next_tick (fst (keepalive_tick_fn c now m sync s)) = now + delay /\
    (has_check (snd (keepalive_tick_fn c now m sync s)) = true -> 4000000 <= delay < 6000000) /\
    (has_check (snd (keepalive_tick_fn c now m sync s)) = false -> delay = 25000000).
Proof.
  intros Hm Htx. apply jitter_ok_spec in Hm. pose proof (keepalive_delay_bounds m Hm) as Hdel.
  destruct (keepalive_cases c now m sync s) as (_ & Hc). cbv zeta in Hc.
  destruct Hc as [(d & Er & Hf & Ho)|[(k & d & Er & _ & _ & Hf & Ho)|[(k & d & Er & _ & Hp & Hka & _ & _ & Ho)|[(k & d & Er & _ & _ & Hh0 & Hp & Hka & _ & _ & Ho)|[(k & d & d' & Er & _ & _ & _ & Hd0 & Hb & Hp & Hka & _ & _ & Ho)|(k & d & Er & _ & _ & _ & Hexp & Hp & Hka & Hcs & _ & Ho)]]]]];
    try (rewrite Ho in Htx; discriminate);
    destruct (rearm_sent _ _ _ _ _ Er) as (Hd & _); pose proof (rearm_some_selected _ _ _ _ _ Er) as Hsel;
    destruct Hp as (P1 & _ & _ & P4 & _); rewrite P1, P4, Hka, Ho; subst d; unfold due, T_TA_DEFAULT;
    (split; [exact Hsel|]); (split; [exact Hsel|]); (split; [f_equal; lia|]).
  - exists keepalive_delay_plain. split; [reflexivity|]. split; [intros H; discriminate|intros _; reflexivity].
  - exists (keepalive_delay_consent m). split; [reflexivity|]. split; [intros _; lia|intros H; discriminate].
  - exists (keepalive_delay_consent m). split; [reflexivity|]. split; [intros _; lia|intros H; discriminate].
  - exists (keepalive_delay_consent m). split; [reflexivity|]. split; [intros _; lia|].
    unfold has_check. rewrite existsb_app. cbn. rewrite orb_true_r. intros H; discriminate.
Qed.

Lemma api_states_notx s : transmits (snd (api_states s)) = false.
Proof.
  unfold api_states.
  destruct ((rank (cst s) <? rank CONNECTING) || cstate_eqb (cst s) FAILED).
  - pose proof (signal_snd s CONNECTING) as O1. destruct (signal s CONNECTING) as [s1 o1]. cbn [snd] in O1.
    destruct (rank (cst s1) <? rank CONNECTED).
    + pose proof (signal_snd s1 CONNECTED) as O2. destruct (signal s1 CONNECTED) as [s2 o2]. cbn [snd] in O2.
      pose proof (signal_snd s2 READY) as O3. destruct (signal s2 READY) as [s3 o3]. cbn [snd] in *. subst.
      destruct (cstate_eqb (cst s) CONNECTING); destruct (cstate_eqb (cst s1) CONNECTED); destruct (cstate_eqb (cst s2) READY); reflexivity.
    + pose proof (signal_snd s1 READY) as O3. destruct (signal s1 READY) as [s3 o3]. cbn [snd] in *. subst.
      destruct (cstate_eqb (cst s) CONNECTING); destruct (cstate_eqb (cst s1) READY); reflexivity.
  - destruct (rank (cst s) <? rank CONNECTED).
    + pose proof (signal_snd s CONNECTED) as O2. destruct (signal s CONNECTED) as [s2 o2]. cbn [snd] in O2.
      pose proof (signal_snd s2 READY) as O3. destruct (signal s2 READY) as [s3 o3]. cbn [snd] in *. subst.
      destruct (cstate_eqb (cst s) CONNECTED); destruct (cstate_eqb (cst s2) READY); reflexivity.
    + pose proof (signal_snd s READY) as O3. destruct (signal s READY) as [s3 o3]. cbn [snd] in *. subst.
      destruct (cstate_eqb (cst s) READY); reflexivity.
Qed.

(** a step that transmits on the pair *)
Lemma tx_step c L s e :
  ev_ok L s e = true -> transmits (snd (step c s e)) = true ->
  selected (fst (step c s e)) = true /\ ka_timer (fst (step c s e)) = Some (time e + 20000) /\
  exists delay, next_tick (fst (step c s e)) = time e + delay /\
    (has_check (snd (step c s e)) = true -> 4000000 <= delay < 6000000) /\
    (has_check (snd (step c s e)) = false -> delay = 25000000).
Proof.
  intros Hok. destruct (ev_ok_spec _ _ _ Hok) as (_ & _ & _ & Hkt & _ & Hnp).
  unfold step. destruct (what e) as [m| |tid auth k fs|auth| | |h m| | | |st'] eqn:Ew.
  - intros Htx. destruct (Hkt m eq_refl) as (Hj & _). destruct (keepalive_tx c (time e) m false s Hj Htx) as (A & _ & B & C). tauto.
  - destruct (consent_tick_fn_cases c (time e) s) as [(_ & _ & Ho)|(d' & _ & _ & _ & Ho)]; rewrite Ho; [|intros H; discriminate].
    fold (failed_out s). destruct (failed_out_quiet s) as (Hq & _). rewrite Hq. intros H; discriminate.
  - destruct (answer_cases c (time e) tid auth k fs s) as [(_ & _ & _ & Ho)|[(_ & _ & _ & Ho)|(_ & _ & Hr)]]; cbv zeta in *.
    + rewrite Ho. intros H; discriminate.
    + rewrite Ho. destruct (failed_out_quiet s) as (Hq & _). rewrite Hq. intros H; discriminate.
    + rewrite Hr. intros H; discriminate.
  - destruct (negb auth); [intros H; discriminate|]. destruct (negb (local_consent s)); intros H; discriminate.
  - destruct (negb (fresh c)); intros H; discriminate.
  - destruct (selected s && negb (have s)); intros H; discriminate.
  - pose proof (Hnp h m eq_refl) as Hj. destruct h.
    + intros Htx. destruct (keepalive_tx c (time e) m true _ Hj Htx) as (A & _ & B & C). tauto.
    + pose proof (api_states_notx s) as Hn. destruct (api_states s) as [s1 o1]. cbn [snd] in *. rewrite Hn. intros H; discriminate.
  - intros H; discriminate.
  - rewrite signal_snd. destruct (cstate_eqb _ _); intros H; discriminate.
  - intros H; discriminate.
  - rewrite signal_snd. destruct (cstate_eqb _ _); intros H; discriminate.
Qed.

(** an event that neither transmits nor replaces / clears the pair *)
Definition calm (c : cfg) (s : state) (e : event) : Prop :=
  transmits (snd (step c s e)) = false /\ reselects (what e) = false /\ ka_timer (fst (step c s e)) <> None.

Lemma calm_step c s e : selected s = true -> calm c s e ->
  selected (fst (step c s e)) = true /\ next_tick (fst (step c s e)) = next_tick s.
Proof.
  intros Hs (Hnt & Hns & _).
  destruct (passive (what e)) eqn:Ep.
  { destruct (step_passive c s e Ep) as (E1 & _ & _ & E4 & _). rewrite E1, E4. tauto. }
  revert Hnt. unfold step. destruct (what e) as [m| |tid auth k fs|auth| | |h m| | | |st'] eqn:Ew; cbn [passive reselects] in Ep, Hns; try discriminate.
  - destruct (keepalive_cases c (time e) m false s) as (_ & Hc). cbv zeta in Hc.
    destruct Hc as [(d & Er & Hf & Ho)|[(k & d & Er & _ & _ & Hf & Ho)|[(k & d & Er & _ & Hp & Hka & _ & _ & Ho)|[(k & d & Er & _ & _ & Hh0 & Hp & Hka & _ & _ & Ho)|[(k & d & d' & Er & _ & _ & _ & Hd0 & Hb & Hp & Hka & _ & _ & Ho)|(k & d & Er & _ & _ & _ & Hexp & Hp & Hka & Hcs & _ & Ho)]]]]];
      rewrite Ho; try (intros H; discriminate).
    + rewrite Hf. cbn. tauto.
    + rewrite Hf. cbn. tauto.
    + unfold transmits. rewrite existsb_app. cbn. rewrite orb_true_r. intros H; discriminate.
  - intros _. destruct (consent_tick_fn_cases c (time e) s) as [(_ & Hf & _)|(d' & _ & _ & Hf & _)]; rewrite Hf; cbn; tauto.
  - intros _. destruct (answer_cases c (time e) tid auth k fs s) as [(_ & _ & Hf & _)|[(_ & _ & Hf & _)|(_ & _ & Hr)]]; cbv zeta in *; [rewrite Hf|rewrite Hf|rewrite Hr]; cbn; tauto.
Qed.

Lemma silence_core c L : forall mid s t0 e2 post,
  Inv c t0 s -> valid L c s t0 (mid ++ e2 :: post) = true -> selected s = true -> next_tick s <> 0 -> ka_timer s <> None ->
  always (calm c) c s mid -> time e2 <= next_tick s + L.
Proof.
  induction mid as [|x mid IH]; intros s t0 e2 post HI Hv Hs Hnz Hka Hcalm.
  - cbn [app] in Hv. apply valid_cons in Hv. destruct Hv as (H0 & H1 & _).
    destruct (ev_ok_spec _ _ _ H1) as (_ & Hk & _). destruct (ka_timer s) as [d|] eqn:Ed; [|congruence].
    pose proof (Hk d eq_refl) as Hle. destruct HI as (_ & _ & _ & I4). pose proof (I4 Hs d Ed Hnz). lia.
  - cbn [app] in Hv. apply valid_cons in Hv. destruct Hv as (H0 & H1 & H2). destruct Hcalm as [Hx Hr].
    destruct (calm_step c s x Hs Hx) as (Hs' & Hn'). destruct Hx as (_ & _ & Hka').
    rewrite <- Hn'. apply (IH _ (time x) e2 post); [eapply step_inv; eassumption|exact H2|exact Hs'|rewrite Hn'; exact Hnz|exact Hka'|exact Hr].
Qed.

(** (5) SILENCE BOUND: after a transmission on the selected pair at e1 (a consent check: re-arm delay in [4 s, 6 s); an indication:
    25 s), as long as the pair is not replaced and the keepalive timer is not stopped, the next event of any kind - in particular
    the next transmission - comes at most re-arm delay + L later *)
Theorem silence_bound c L s t0 pre e1 mid e2 post :
  Inv c t0 s -> valid L c s t0 (pre ++ e1 :: mid ++ e2 :: post) = true ->
  transmits (snd (step c (exec c s pre) e1)) = true ->
  always (calm c) c (fst (step c (exec c s pre) e1)) mid ->
  (has_check (snd (step c (exec c s pre) e1)) = true -> time e2 - time e1 < 6000000 + L) /\
  (has_check (snd (step c (exec c s pre) e1)) = false -> time e2 - time e1 <= 25000000 + L).
Proof.
  intros HI Hv Htx Hcalm.
  destruct (valid_split L c pre s t0 e1 (mid ++ e2 :: post) HI Hv) as (t1 & Hle & HI1 & Hok1 & Hv1).
  destruct (tx_step c L _ _ Hok1 Htx) as (Hs' & Hka' & delay & Hnt & Hchk & Hind).
  destruct (ev_ok_spec _ _ _ Hok1) as (Ht1 & _).
  assert (HI2 : Inv c (time e1) (fst (step c (exec c s pre) e1))) by (eapply step_inv; eassumption).
  assert (Hb : time e2 <= next_tick (fst (step c (exec c s pre) e1)) + L).
  { apply (silence_core c L mid _ (time e1) e2 post HI2 Hv1 Hs'); [|rewrite Hka'; discriminate|exact Hcalm].
    rewrite Hnt. destruct (has_check (snd (step c (exec c s pre) e1))); [specialize (Hchk eq_refl)|specialize (Hind eq_refl)]; lia. }
  rewrite Hnt in Hb. split; intros H; [specialize (Hchk H)|specialize (Hind H)]; lia.
Qed.

(** the agent-wide keepalive timer is stopped by one thing only: the component's StunAgent has no free slot left to remember the
    transaction of a consent check that is due *)
Theorem keepalive_timer_stops_only_when_table_full c L s e :
  ev_ok L s e = true -> ka_timer s <> None -> ka_timer (fst (step c s e)) = None ->
  table_full (prep c s) = true /\ do_cc c && creds s = true /\ exists m, what e = KeepaliveTick m.
Proof.
  intros Hok Hka. destruct (ev_ok_spec _ _ _ Hok) as (_ & _ & _ & Hkt & _ & Hnp).
  destruct (passive (what e)) eqn:Ep.
  { destruct (step_passive c s e Ep) as (_ & _ & _ & _ & _ & E6). rewrite E6. intros H; congruence. }
  unfold step. destruct (what e) as [m| |tid auth k fs|auth| | |h m| | | |st'] eqn:Ew; cbn [passive] in Ep; try discriminate.
  - destruct (keepalive_cases c (time e) m false s) as (_ & Hc). cbv zeta in Hc.
    destruct Hc as [(d & Er & Hf & Ho)|[(k & d & Er & Hcc & Htf & Hf & Ho)|[(k & d & Er & _ & Hp & Hk' & _)|[(k & d & Er & _ & _ & Hh0 & Hp & Hk' & _)|[(k & d & d' & Er & _ & _ & _ & Hd0 & Hb & Hp & Hk' & _)|(k & d & Er & _ & _ & _ & Hexp & Hp & Hk' & _)]]]]];
      try (rewrite Hk'; intros H; discriminate).
    + rewrite Hf. cbn. intros H; discriminate.
    + intros _. split; [exact Htf|]. split; [exact Hcc|]. exists m; reflexivity.
  - destruct (consent_tick_fn_cases c (time e) s) as [(_ & Hf & _)|(d' & _ & _ & Hf & _)]; rewrite Hf; cbn; intros H; congruence.
  - destruct (answer_cases c (time e) tid auth k fs s) as [(_ & _ & Hf & _)|[(_ & _ & Hf & _)|(_ & _ & Hr)]]; cbv zeta in *; [rewrite Hf|rewrite Hf|rewrite Hr]; cbn; intros H; congruence.
  - destruct h.
    + set (s0 := set_pair (clear_pair s) true true 0 0 None).
      destruct (keepalive_cases c (time e) m true s0) as (_ & Hc). cbv zeta in Hc.
      destruct Hc as [(d & Er & Hf & Ho)|[(k & d & Er & Hcc & Htf & Hf & Ho)|[(k & d & Er & _ & Hp & Hk' & _)|[(k & d & Er & _ & _ & Hh0 & Hp & Hk' & _)|[(k & d & d' & Er & _ & _ & _ & Hd0 & Hb & Hp & Hk' & _)|(k & d & Er & _ & _ & _ & Hexp & Hp & Hk' & _)]]]]];
        try (rewrite Hk'; intros H; discriminate).
      * rewrite Hf. cbn. intros H; discriminate.
      * rewrite Hf. subst s0. cbn. intros H; congruence.
    + pose proof (api_states_fst s) as Ea. destruct (api_states s) as [s1 o1]. cbn [fst] in *. subst s1. cbn. intros H; congruence.
  - cbn. intros H; congruence.
Qed.


(* ---------------------------------------------------------------- the table of remembered transactions (since fix e9d3c51) *)
Lemma filter_len_le {A} (f : A -> bool) l : (length (filter f l) <= length l)%nat.
Proof. induction l as [|x l IH]; cbn; [lia|]. destruct (f x); cbn; lia. Qed.
Lemma filter_filter_len_le {A} (f g : A -> bool) l : (length (filter f (filter g l)) <= length (filter f l))%nat.
Proof. induction l as [|x l IH]; cbn; [lia|]. destruct (g x); cbn; destruct (f x); cbn; lia. Qed.
Lemma filter_split_len {A} (f : A -> bool) l : length l = (length (filter f l) + length (filter (fun x => negb (f x)) l))%nat.
Proof. induction l as [|x l IH]; cbn; [reflexivity|]. destruct (f x); cbn; lia. Qed.
Lemma Forall_filter_keep {A} (P : A -> Prop) (f : A -> bool) l : Forall P l -> Forall P (filter f l).
Proof. induction 1 as [|x l Hx Hl IH]; cbn; [constructor|]. destruct (f x); [constructor; assumption|assumption]. Qed.
Lemma filter_fresh_nil (n : Z) (l : list (Z * Z)) : Forall (fun p => fst p < n) l -> filter (fun p => fst p =? n) l = [].
Proof. induction 1 as [|x l Hx Hl IH]; cbn; [reflexivity|]. destruct (fst x =? n) eqn:E; [apply Z.eqb_eq in E; lia|exact IH]. Qed.

(** remembered transactions other than the pair's current keepalive transaction *)
Definition others (s : state) : nat :=
  match ka_tx s with Some t => length (forget t s) | None => length (outstanding s) end.
(** transaction ids are fresh, and the current keepalive transaction is remembered at most once *)
Definition J (s : state) : Prop :=
  Forall (fun p => fst p < next_tid s) (outstanding s) /\
  match ka_tx s with Some t => (length (filter (fun p : Z * Z => (fst p =? t)%Z) (outstanding s)) <= 1)%nat | None => True end.

Lemma J_same s s' : outstanding s' = outstanding s -> ka_tx s' = ka_tx s -> next_tid s' = next_tid s -> J s -> J s' /\ others s' = others s.
Proof. intros E1 E2 E3 HJ. unfold J, others, forget in *. rewrite E1, E2, E3. tauto. Qed.

Lemma len_le_others s : J s -> (length (outstanding s) <= others s + 1)%nat.
Proof.
  intros (_ & HC). unfold others, forget. destruct (ka_tx s) as [t|]; [|lia].
  rewrite (filter_split_len (fun p => fst p =? t) (outstanding s)). lia.
Qed.

Lemma prep_len c s : forget_prev c = true -> length (outstanding (prep c s)) = others s /\ ka_tx (prep c s) = None /\ next_tid (prep c s) = next_tid s.
Proof. intros Hf. unfold prep, others. cbn. rewrite Hf. destruct (ka_tx s); repeat split; reflexivity. Qed.

Lemma prep_fresh c s : Forall (fun p => fst p < next_tid s) (outstanding s) -> Forall (fun p => fst p < next_tid s) (outstanding (prep c s)).
Proof.
  intros H. unfold prep. cbn. destruct (forget_prev c); [|exact H]. destruct (ka_tx s); [|exact H]. apply Forall_filter_keep. exact H.
Qed.

Lemma keepalive_tx_fields c now m sync s :
  let r := keepalive_tick_fn c now m sync s in
  let p := prep c s in
  (outstanding (fst r) = outstanding s /\ ka_tx (fst r) = ka_tx s /\ next_tid (fst r) = next_tid s)
  \/ (table_full p = true /\ outstanding (fst r) = outstanding p /\ ka_tx (fst r) = ka_tx p /\ next_tid (fst r) = next_tid s)
  \/ (table_full p = false /\ outstanding (fst r) = (next_tid s, now) :: outstanding p /\
      ka_tx (fst r) = (if forget_prev c then Some (next_tid s) else ka_tx s) /\ next_tid (fst r) = next_tid s + 1).
Proof.
  cbv zeta. unfold keepalive_tick_fn.
  destruct (rearm (fresh c) now (if selected s then [next_tick s] else [])) as [[k|] d] eqn:Er; [|left; repeat split; reflexivity].
  destruct (do_cc c && creds s) eqn:Ecc; [|left; repeat split; reflexivity].
  destruct (table_full (prep c s)) eqn:Etf.
  { right. left. destruct sync; repeat split; reflexivity. }
  right. right. split; [reflexivity|].
  cbn [have set_pair set_tx prep selected last_received next_tick ct_timer].
  destruct (have s) eqn:Eh.
  2:{ cbn. destruct (forget_prev c); repeat split; reflexivity. }
  set (s1 := set_pair _ _ _ _ _ _).
  destruct (consent_tick_fn_cases c now s1) as [(Hexp & Hf & Ho)|(d' & Hd0 & Hb & Hf & Ho)];
    destruct (consent_tick_fn c now s1) as [s2 o2]; cbn [fst snd] in Hf, Ho; subst s2 o2; subst s1; cbn;
    destruct (forget_prev c); repeat split; reflexivity.
Qed.

Lemma keepalive_J c now m sync s : forget_prev c = true -> J s ->
  J (fst (keepalive_tick_fn c now m sync s)) /\ (others (fst (keepalive_tick_fn c now m sync s)) <= others s)%nat.
Proof.
  intros Hfp HJ. destruct (prep_len c s Hfp) as (Pl & Pt & Pn). pose proof (prep_fresh c s (proj1 HJ)) as Pf.
  destruct (keepalive_tx_fields c now m sync s) as [(E1 & E2 & E3)|[(_ & E1 & E2 & E3)|(_ & E1 & E2 & E3)]]; cbv zeta in *.
  - destruct (J_same _ _ E1 E2 E3 HJ) as (A & B). split; [exact A|lia].
  - split.
    + unfold J. rewrite E1, E2, E3, Pt. split; [exact Pf|exact I].
    + unfold others at 1. rewrite E2, Pt, E1. lia.
  - rewrite Hfp in E2. remember (outstanding (prep c s)) as op eqn:Hop in *. split.
    + unfold J. rewrite E1, E2, E3. split.
      * constructor; [cbn; lia|]. eapply Forall_impl; [|exact Pf]. cbn. intros; lia.
      * cbn. rewrite Z.eqb_refl. cbn. rewrite (filter_fresh_nil _ _ Pf). cbn. lia.
    + unfold others at 1, forget. rewrite E2, E1. cbn. rewrite Z.eqb_refl. cbn.
      pose proof (filter_len_le (fun p : Z * Z => negb (fst p =? next_tid s)) op). lia.
Qed.

Lemma clear_J s : J s -> J (clear_pair s) /\ (others (clear_pair s) <= others s + 1)%nat.
Proof.
  intros HJ. pose proof (len_le_others s HJ) as Hl. destruct HJ as (HF & _). unfold J, others, clear_pair. cbn. split; [split; [exact HF|exact I]|exact Hl].
Qed.

(** one step: ids stay fresh, and the number of remembered transactions other than the current keepalive transaction grows by at
    most one, and only when the selected pair is replaced or removed (the old pair's last keepalive transaction is left behind) *)
Lemma tx_step_J c s e : forget_prev c = true -> J s ->
  J (fst (step c s e)) /\ (others (fst (step c s e)) <= others s + (if reselects (what e) then 1 else 0))%nat.
Proof.
  intros Hfp HJ. unfold step. destruct (what e) as [m| |tid auth k fs|auth| | |h m| | | |st'] eqn:Ew; cbn [reselects].
  - destruct (keepalive_J c (time e) m false s Hfp HJ) as (A & B). split; [exact A|lia].
  - destruct (consent_tick_fn_cases c (time e) s) as [(_ & Hf & _)|(d' & _ & _ & Hf & _)]; rewrite Hf;
      (destruct (J_same s _ eq_refl eq_refl eq_refl HJ) as (A & B); split; [exact A|unfold others, forget in *; cbn in *; lia]).
  - destruct (answer_cases c (time e) tid auth k fs s) as [(_ & _ & Hf & _)|[(_ & _ & Hf & _)|(_ & _ & Hr)]]; cbv zeta in *.
    + rewrite Hf. destruct HJ as (HF & HC). unfold J, others, forget. cbn. split; [split|].
      * apply Forall_filter_keep. exact HF.
      * destruct (ka_tx s) as [t|]; [|exact I].
        pose proof (filter_filter_len_le (fun p => fst p =? t) (fun p => negb (fst p =? tid)) (outstanding s)). lia.
      * destruct (ka_tx s) as [t|].
        -- pose proof (filter_filter_len_le (fun p => negb (fst p =? t)) (fun p => negb (fst p =? tid)) (outstanding s)). unfold forget. lia.
        -- pose proof (filter_len_le (fun p => negb (fst p =? tid)) (outstanding s)). lia.
    + rewrite Hf. destruct (J_same s _ eq_refl eq_refl eq_refl HJ) as (A & B). split; [exact A|unfold others, forget in *; cbn in *; lia].
    + rewrite Hr. cbn [fst]. split; [exact HJ|lia].
  - destruct (negb auth); [cbn [fst]; split; [exact HJ|lia]|]. destruct (negb (local_consent s)); cbn [fst]; split; try exact HJ; lia.
  - destruct (negb (fresh c)); cbn [fst]; [split; [exact HJ|lia]|].
    destruct (J_same s _ eq_refl eq_refl eq_refl HJ) as (A & B). split; [exact A|unfold others, forget in *; cbn in *; lia].
  - destruct (selected s && negb (have s)); cbn [fst]; split; try exact HJ; lia.
  - destruct h.
    + destruct (clear_J s HJ) as (A & B).
      assert (A0 : J (set_pair (clear_pair s) true true 0 0 None) /\ others (set_pair (clear_pair s) true true 0 0 None) = others (clear_pair s))
        by (apply J_same; [reflexivity|reflexivity|reflexivity|exact A]).
      destruct A0 as (A0 & B0). destruct (keepalive_J c (time e) m true _ Hfp A0) as (A1 & B1). split; [exact A1|lia].
    + pose proof (api_states_fst s) as Ea. destruct (api_states s) as [s1 o1]. cbn [fst] in *. subst s1.
      destruct (clear_J s HJ) as (A & B).
      assert (A0 : J (set_pair (clear_pair (set_cst s READY)) true true 0 0 None) /\ others (set_pair (clear_pair (set_cst s READY)) true true 0 0 None) = others (clear_pair s))
        by (apply J_same; [reflexivity|reflexivity|reflexivity|exact A]).
      destruct A0 as (A0 & B0). split; [exact A0|lia].
  - cbn [fst]. destruct (clear_J s HJ) as (A & B). split; [exact A|lia].
  - rewrite signal_fst. destruct HJ as (HF & _). unfold J, others, forget. cbn. split; [split; [constructor|destruct (ka_tx s); [cbn; lia|exact I]]|].
    destruct (ka_tx s); cbn; lia.
  - cbn [fst]. destruct (J_same s (set_env s (local_consent s) true (outstanding s) (next_tid s)) eq_refl eq_refl eq_refl HJ) as (A & B). split; [exact A|lia].
  - rewrite signal_fst. destruct (J_same s (set_cst s st') eq_refl eq_refl eq_refl HJ) as (A & B). split; [exact A|lia].
Qed.

Fixpoint count_resel (evs : list event) : nat :=
  match evs with [] => O | e :: r => ((if reselects (what e) then 1 else 0) + count_resel r)%nat end.

Lemma count_resel_app a b : count_resel (a ++ b) = (count_resel a + count_resel b)%nat.
Proof. induction a as [|x a IH]; cbn; [reflexivity|]. rewrite IH. lia. Qed.

Lemma tx_run c : forget_prev c = true -> forall evs s, J s ->
  J (exec c s evs) /\ (others (exec c s evs) <= others s + count_resel evs)%nat.
Proof.
  intros Hfp. induction evs as [|e r IH]; intros s HJ; [cbn; split; [exact HJ|lia]|].
  destruct (tx_step_J c s e Hfp HJ) as (A & B). destruct (IH _ A) as (A' & B'). cbn [exec count_resel]. split; [exact A'|lia].
Qed.

(** the table of remembered transactions holds at most: what it held besides the keepalive transaction at the start, one id left
    behind by each replacement / removal of the selected pair, and the current keepalive transaction - however many answers are
    lost, however long the session *)
Theorem outstanding_bounded c s evs : forget_prev c = true -> J s ->
  (length (outstanding (exec c s evs)) <= others s + count_resel evs + 1)%nat.
Proof. intros Hfp HJ. destruct (tx_run c Hfp evs s HJ) as (A & B). pose proof (len_le_others _ A). lia. Qed.

Lemma valid_prefix L c : forall a s t0 b, valid L c s t0 (a ++ b) = true -> valid L c s t0 a = true.
Proof.
  induction a as [|x a IH]; intros s t0 b H; [reflexivity|]. cbn [app] in H. apply valid_cons in H. destruct H as (H0 & H1 & H2).
  cbn [valid]. rewrite (IH _ _ _ H2), H1. apply Z.leb_le in H0. rewrite H0. reflexivity.
Qed.

Lemma timer_alive_always c L : forget_prev c = true -> forall evs s t0,
  valid L c s t0 evs = true -> J s -> Z.of_nat (others s + count_resel evs) < MAX_SAVED_IDS -> ka_timer s <> None ->
  always (fun s e => ka_timer (fst (step c s e)) <> None) c s evs.
Proof.
  intros Hfp. induction evs as [|e r IH]; intros s t0 Hv HJ Hb Hka; [exact I|].
  apply valid_cons in Hv. destruct Hv as (H0 & H1 & H2). cbn [count_resel] in Hb.
  destruct (tx_step_J c s e Hfp HJ) as (A & B).
  assert (Hka' : ka_timer (fst (step c s e)) <> None).
  { intros Hn. destruct (keepalive_timer_stops_only_when_table_full c L s e H1 Hka Hn) as (Htf & _).
    unfold table_full in Htf. apply Z.leb_le in Htf. destruct (prep_len c s Hfp) as (Pl & _). rewrite Pl in Htf. lia. }
  split; [exact Hka'|]. apply (IH _ (time e)); [exact H2|exact A| |exact Hka']. lia.
Qed.

(** since the fix the keepalive timer is never stopped by lost answers: with fewer than STUN_AGENT_MAX_SAVED_IDS - 1 pair changes it
    runs for ever *)
Theorem keepalive_timer_never_stops c L s t0 evs : forget_prev c = true ->
  valid L c s t0 evs = true -> J s -> Z.of_nat (others s + count_resel evs) < MAX_SAVED_IDS -> ka_timer s <> None ->
  forall pre e post, evs = pre ++ e :: post -> ka_timer (fst (step c (exec c s pre) e)) <> None.
Proof.
  intros Hfp Hv HJ Hb Hka pre e post ->. pose proof (timer_alive_always c L Hfp _ _ _ Hv HJ Hb Hka) as H.
  apply always_split in H. destruct H as [H _]. exact H.
Qed.

Definition calm0 (c : cfg) (s : state) (e : event) : Prop :=
  transmits (snd (step c s e)) = false /\ reselects (what e) = false.

Lemma calm_from_calm0 c : forall evs s, always (calm0 c) c s evs -> always (fun s e => ka_timer (fst (step c s e)) <> None) c s evs ->
  always (calm c) c s evs.
Proof.
  induction evs as [|e r IH]; intros s H1 H2; [exact I|]. destruct H1 as [(A & B) H1]. destruct H2 as [C H2].
  split; [unfold calm; tauto|apply IH; assumption].
Qed.

Lemma calm0_no_resel c : forall evs s, always (calm0 c) c s evs -> count_resel evs = O.
Proof. induction evs as [|e r IH]; intros s H; [reflexivity|]. destruct H as [(_ & B) H]. cbn. rewrite B. cbn. eapply IH. exact H. Qed.

(** (5) SILENCE BOUND on the code since the fix: no side condition on the keepalive timer *)
Theorem silence_bound_fixed c L s t0 pre e1 mid e2 post :
  forget_prev c = true -> Inv c t0 s -> J s -> valid L c s t0 (pre ++ e1 :: mid ++ e2 :: post) = true ->
  Z.of_nat (others s + count_resel (pre ++ [e1])) < MAX_SAVED_IDS ->
  transmits (snd (step c (exec c s pre) e1)) = true ->
  always (calm0 c) c (fst (step c (exec c s pre) e1)) mid ->
  (has_check (snd (step c (exec c s pre) e1)) = true -> time e2 - time e1 < 6000000 + L) /\
  (has_check (snd (step c (exec c s pre) e1)) = false -> time e2 - time e1 <= 25000000 + L).
Proof.
  intros Hfp HI HJ Hv Hb Htx Hcalm.
  destruct (valid_split L c pre s t0 e1 (mid ++ e2 :: post) HI Hv) as (t1 & Hle & HI1 & Hok1 & Hv1).
  destruct (tx_step c L _ _ Hok1 Htx) as (Hs' & Hka' & _).
  destruct (tx_run c Hfp (pre ++ [e1]) s HJ) as (A & B). rewrite exec_app in A, B. cbn [exec] in A, B.
  apply (silence_bound c L s t0 pre e1 mid e2 post HI Hv Htx).
  apply calm_from_calm0; [exact Hcalm|].
  apply (timer_alive_always c L Hfp mid _ (time e1)); [eapply valid_prefix; exact Hv1|exact A| |rewrite Hka'; discriminate].
  rewrite (calm0_no_resel c mid _ Hcalm). lia.
Qed.
(* ---------------------------------------------------------------- concrete runs: the hypotheses are met, and what is NOT true *)
Definition cfgF : cfg := {| fresh := true; kcc := false; forget_prev := true |}.
(** the code before fix e9d3c51 *)
Definition cfgOld : cfg := {| fresh := true; kcc := false; forget_prev := false |}.
Definition ev (t : Z) (a : action) : event := {| time := t; what := a |}.

(** one 4 s keepalive cycle starting at t (the k-th check, transaction id k): the timer comes back after Ta and sleeps until the
    pair is due again; the check is answered or not *)
Definition cycle (t : Z) (k : Z) (a : option action) : list event :=
  (match a with Some x => [ev (t + 1000) x] | None => [] end) ++ [ev (t + 20001) (KeepaliveTick 800000); ev (t + 4000000) (KeepaliveTick 800000)].

Fixpoint cycles (n : nat) (t k : Z) (ans : Z -> option action) : list event :=
  match n with O => [] | S n' => cycle t k (ans k) ++ cycles n' (t + 4000000) (k + 1) ans end.

Definition s0 : state := init CONNECTING (Some 1000000).
Definition start : list event := [ev 1000000 (NewPair ByNomination 800000)].

(** a healthy session: every check answered; 100 s *)
Definition run_healthy : list event := start ++ cycles 25 1000000 1 (fun k => Some (Answer k true KSuccess true)) ++ [ev 101000500 Send].
(** answers stop after the first one *)
Definition run_blackout : list event :=
  start ++ cycles 7 1000000 1 (fun k => if k =? 1 then Some (Answer k true KSuccess true) else None)
        ++ [ev 29020001 (KeepaliveTick 800000); ev 31000999 Send; ev 31001001 ConsentTick; ev 31001002 Send; ev 31003000 Send; ev 31003001 (Answer 3 true KSuccess true); ev 31003002 Send].

Lemma run_healthy_valid : valid 1000 cfgF s0 1 run_healthy = true.
Proof. vm_compute. reflexivity. Qed.
Lemma run_healthy_gate : snd (step cfgF (exec cfgF s0 (removelast run_healthy)) (ev 101000500 Send)) = [OSend true].
Proof. vm_compute. reflexivity. Qed.

Lemma run_blackout_valid : valid 1000 cfgF s0 1 run_blackout = true.
Proof. vm_compute. reflexivity. Qed.
(** the last answer arrived at 1.001 s: FAILED at 31.001001 s, sends pass until then and are refused from then on, a late answer does not re-open the gate *)
Lemma run_blackout_outputs :
  filter (fun p => match snd p with [] => false | _ => negb (transmits (snd p)) end) (outputs cfgF s0 run_blackout)
  = [(31000999, [OSend true]); (31001001, [OState FAILED]); (31001002, [OSend false]); (31003000, [OSend false]); (31003002, [OSend false])].
Proof. vm_compute. reflexivity. Qed.

(** NOT TRUE on the code as it is: "without an authenticated success answer consent expires".  An error response carrying code
    401 (or 400, 438, 300) and NO valid MESSAGE-INTEGRITY, whose transaction id is that of an outstanding consent check, passes
    stun_agent_validate (credentials are ignored for these codes) and refreshes last_received like a success answer. *)
Definition run_unauth : list event :=
  start ++ cycles 25 1000000 1 (fun k => Some (Answer k false (KError 401) true)) ++ [ev 101000500 Send].
Lemma consent_needs_authenticated_answer_refuted :
  valid 1000 cfgF s0 1 run_unauth = true /\
  existsb (fun e => match what e with Answer _ true _ _ => true | _ => false end) run_unauth = false /\
  have (exec cfgF s0 run_unauth) = true /\ cst (exec cfgF s0 run_unauth) = CONNECTING /\
  snd (step cfgF (exec cfgF s0 (removelast run_unauth)) (ev 101000500 Send)) = [OSend true].
Proof. vm_compute. repeat split; reflexivity. Qed.

(** REGRESSION (the code before fix e9d3c51, cfgOld): "while a pair is selected and consent is held the pair is never silent for longer
    than the re-arm bound" was false.  The transaction of a consent check whose answer was lost was never forgotten; after
    STUN_AGENT_MAX_SAVED_IDS (200) of them over the life of the component the next check could not be built, the keepalive timer was
    stopped and nothing was sent any more, although the peer had answered within every 20 s: the last packet leaves at 997 s and at
    1011 s the pair is still selected, consent still held and sends still pass.  (Consent then expired 30 s after the last answer.)
    On the same loss pattern the code since the fix (cfgF) keeps sending, with never more than one transaction remembered. *)
Definition run_leak : list event :=
  start ++ cycles 250 1000000 1 (fun k => if k mod 5 =? 1 then Some (Answer k true KSuccess true) else None)
        ++ [ev 1005000000 Send; ev 1011000000 Send].
Definition last_tx (o : list (Z * list output)) : Z := fold_left (fun acc p => if transmits (snd p) then fst p else acc) o 0.
Lemma silence_bound_when_ids_leak_before_fix :
  valid 1000 cfgOld s0 1 run_leak = true /\
  selected (exec cfgOld s0 run_leak) = true /\ have (exec cfgOld s0 run_leak) = true /\
  ka_timer (exec cfgOld s0 run_leak) = None /\ table_full (exec cfgOld s0 run_leak) = true /\
  last_tx (outputs cfgOld s0 run_leak) = 997000000 /\
  snd (step cfgOld (exec cfgOld s0 (removelast run_leak)) (ev 1011000000 Send)) = [OSend true].
Proof. vm_compute. repeat split; reflexivity. Qed.

Definition run_leak_fixed : list event :=
  start ++ cycles 250 1000000 1 (fun k => if k mod 5 =? 1 then Some (Answer k true KSuccess true) else None) ++ [ev 1001000500 Send].
Lemma ids_do_not_leak_since_fix :
  valid 1000 cfgF s0 1 run_leak_fixed = true /\
  selected (exec cfgF s0 run_leak_fixed) = true /\ have (exec cfgF s0 run_leak_fixed) = true /\
  ka_timer (exec cfgF s0 run_leak_fixed) = Some 1001020000 /\ length (outstanding (exec cfgF s0 run_leak_fixed)) = 1%nat /\
  last_tx (outputs cfgF s0 run_leak_fixed) = 1001000000.
Proof. vm_compute. repeat split; reflexivity. Qed.

(** by design (documented in agent.h): an ICE restart gives local consent back, so "for ever" ends there *)
Lemma revocation_survives_restart_refuted :
  outputs cfgF s0 [ev 10 RevokeLocal; ev 20 (IncomingCheck true); ev 30 Restart; ev 40 (IncomingCheck true)]
  = [(10, [ORevoke true]); (20, [OAnswer 403]); (30, [OState GATHERING]); (40, [OAnswer 200])].
Proof. vm_compute. reflexivity. Qed.

(* ---------------------------------------------------------------- boolean forms of the run hypotheses (for concrete runs) *)
Fixpoint alwaysb (P : state -> event -> bool) (c : cfg) (s : state) (evs : list event) : bool :=
  match evs with [] => true | e :: r => P s e && alwaysb P c (fst (step c s e)) r end.

Lemma alwaysb_sound (P : state -> event -> bool) (Q : state -> event -> Prop) c :
  (forall s e, P s e = true -> Q s e) -> forall evs s, alwaysb P c s evs = true -> always Q c s evs.
Proof.
  intros HPQ. induction evs as [|e r IH]; intros s H; [exact I|]. cbn in H. apply andb_prop in H. destruct H as [H1 H2].
  split; [apply HPQ; exact H1|apply IH; exact H2].
Qed.

Definition fedb (c : cfg) (s : state) (e : event) : bool :=
  ((last_received s =? 0) || (time e - last_received s <=? tmo c)) && negb (forbids c s (what e)).
Definition quietb (c : cfg) (s : state) (e : event) : bool :=
  negb (refreshes c s (what e)) && negb (forbids c s (what e)) && negb (reselects (what e)).
Definition calmb (c : cfg) (s : state) (e : event) : bool :=
  negb (transmits (snd (step c s e))) && negb (reselects (what e)) && match ka_timer (fst (step c s e)) with Some _ => true | None => false end.

Lemma fedb_sound c s e : fedb c s e = true -> fed c s e.
Proof.
  unfold fedb, fed. intros H. apply andb_prop in H. destruct H as [H1 H2]. apply negb_true_iff in H2. split; [|exact H2].
  apply orb_prop in H1. destruct H1 as [H1|H1]; [left; apply Z.eqb_eq; exact H1|right; apply Z.leb_le; exact H1].
Qed.
Lemma quietb_sound c s e : quietb c s e = true -> quiet c s e.
Proof.
  unfold quietb, quiet. intros H. apply andb_prop in H. destruct H as [H H3]. apply andb_prop in H. destruct H as [H1 H2].
  apply negb_true_iff in H1. apply negb_true_iff in H2. apply negb_true_iff in H3. tauto.
Qed.
Lemma calmb_sound c s e : calmb c s e = true -> calm c s e.
Proof.
  unfold calmb, calm. intros H. apply andb_prop in H. destruct H as [H H3]. apply andb_prop in H. destruct H as [H1 H2].
  apply negb_true_iff in H1. apply negb_true_iff in H2. split; [exact H1|]. split; [exact H2|].
  destruct (ka_timer (fst (step c s e))); [discriminate|discriminate].
Qed.

Lemma J_s0 : J s0 /\ others s0 = O.
Proof. unfold J, others, s0, init; cbn. split; [split; [constructor|exact I]|reflexivity]. Qed.

Definition calm0b (c : cfg) (s : state) (e : event) : bool := negb (transmits (snd (step c s e))) && negb (reselects (what e)).
Lemma calm0b_sound c s e : calm0b c s e = true -> calm0 c s e.
Proof. unfold calm0b, calm0. intros H. apply andb_prop in H. destruct H as [H1 H2]. apply negb_true_iff in H1. apply negb_true_iff in H2. tauto. Qed.

Lemma Inv_s0 : Inv cfgF 1 s0.
Proof. unfold Inv, s0, init; cbn. split; [lia|]. split; [lia|]. split; [intros; discriminate|intros; discriminate]. Qed.

(** the hypotheses of (1) are met by the healthy 100 s run *)
Lemma healthy_fed : always (fed cfgF) cfgF s0 run_healthy.
Proof. apply (alwaysb_sound (fedb cfgF)); [apply fedb_sound|]. vm_compute. reflexivity. Qed.

(** the hypotheses of (2) are met by the blackout run, taken from the state right after the last answer (T = 1.001 s) *)
Definition blackout_head : list event := firstn 2 run_blackout.
Definition blackout_tail : list event := firstn 19 (skipn 2 run_blackout).
Lemma blackout_hyps :
  let s := exec cfgF s0 blackout_head in
  have s = true /\ ct_timer s = Some 31000000 /\ last_received s = 1001000 /\
  valid 1000 cfgF s 1001000 blackout_tail = true /\ always (quiet cfgF) cfgF s blackout_tail /\
  In (ev 31003000 Send) blackout_tail.
Proof.
  cbv zeta. split; [vm_compute; reflexivity|]. split; [vm_compute; reflexivity|]. split; [vm_compute; reflexivity|].
  split; [vm_compute; reflexivity|]. split.
  - apply (alwaysb_sound (quietb cfgF)); [apply quietb_sound|]. vm_compute. reflexivity.
  - vm_compute. tauto.
Qed.

(** the hypotheses of (5) are met between the first two checks of the healthy run *)
Lemma healthy_calm :
  run_healthy = [] ++ ev 1000000 (NewPair ByNomination 800000) :: firstn 2 (skipn 1 run_healthy) ++ ev 5000000 (KeepaliveTick 800000) :: skipn 4 run_healthy /\
  transmits (snd (step cfgF (exec cfgF s0 []) (ev 1000000 (NewPair ByNomination 800000)))) = true /\
  always (calm cfgF) cfgF (fst (step cfgF (exec cfgF s0 []) (ev 1000000 (NewPair ByNomination 800000)))) (firstn 2 (skipn 1 run_healthy)).
Proof.
  split; [vm_compute; reflexivity|]. split; [vm_compute; reflexivity|].
  apply (alwaysb_sound (calmb cfgF)); [apply calmb_sound|]. vm_compute. reflexivity.
Qed.

Lemma healthy_calm0 :
  always (calm0 cfgF) cfgF (fst (step cfgF (exec cfgF s0 []) (ev 1000000 (NewPair ByNomination 800000)))) (firstn 2 (skipn 1 run_healthy)) /\
  Z.of_nat (others s0 + count_resel ([] ++ [ev 1000000 (NewPair ByNomination 800000)])) < MAX_SAVED_IDS.
Proof. split; [apply (alwaysb_sound (calm0b cfgF)); [apply calm0b_sound|]; vm_compute; reflexivity|vm_compute; reflexivity]. Qed.
