(** Completion bookkeeping of a gathering run with server NAMES to resolve (agent/agent.c: stun_server_resolved_cb, turn_server_resolved_cb,
    agent_gathering_done, agent_signal_gathering_done; agent/discovery.c: discovery_schedule and the end of the discovery tick).

    The resolver answers land as callbacks in an order the agent does not control.  Each callback clears "its" pending mark, may add discovery items, and
    ends with the common tail [if (agent->discovery_unsched_items) discovery_schedule (agent); else agent_gathering_done (agent);].  The discovery tick,
    when nothing is left, frees the timer source and calls agent_gathering_done.  agent_gathering_done announces completion when no discovery timer runs,
    no component is resolving a TURN name and (since fix a7c512a) the STUN name is not being resolved.

    The discovery tick itself is abstracted to a counter machine (one step schedules one unscheduled item or finishes one item in flight; termination and
    the per-item behaviour are the subject of DiscoveryModel.v).  Two configuration flags keep the pre-fix code expressible for the regression theorems.
    No proofs in this file. *)
From Coq Require Import List Bool Arith.
Import ListNotations.

Record lcfg := {
  failed_lookup_runs_tail : bool;    (* a lookup that fails goes through the common tail (fix a7c512a); before: early return *)
  done_waits_for_stun : bool         (* agent_gathering_done tests agent->stun_resolving_list == NULL (fix a7c512a); before: only logged *)
}.
Definition cfg_fixed : lcfg := {| failed_lookup_runs_tail := true; done_waits_for_stun := true |}.
Definition cfg_before : lcfg := {| failed_lookup_runs_tail := false; done_waits_for_stun := false |}.

Record lstate := {
  stun_pending : bool;     (* agent->stun_resolving_list != NULL *)
  turn_pending : nat;      (* components for which nice_component_resolving_turn holds *)
  timer : bool;            (* agent->discovery_timer_source != NULL *)
  unsched : nat;           (* agent->discovery_unsched_items *)
  inflight : nat;          (* discovery items scheduled and not yet done *)
  gathering : bool;        (* stream->gathering *)
  dones : nat;             (* candidate-gathering-done announcements so far *)
  virgin : bool            (* ghost: no callback has run yet *)
}.

(** the state nice_agent_gather_candidates leaves behind when names are being resolved: nothing scheduled yet for those servers *)
Definition after_gather (stun : bool) (turns : nat) : lstate :=
  {| stun_pending := stun; turn_pending := turns; timer := false; unsched := 0; inflight := 0; gathering := true; dones := 0; virgin := true |}.

Inductive lev :=
| StunLanded (ok : bool) (items : nat)     (* stun_server_resolved_cb; [items] discovery items created (0 when the lookup failed) *)
| TurnLanded (ok : bool) (items : nat)     (* turn_server_resolved_cb of one component *)
| Tick.                                    (* one step of the discovery timer *)

Definition set_virgin (s : lstate) : lstate :=
  {| stun_pending := stun_pending s; turn_pending := turn_pending s; timer := timer s; unsched := unsched s; inflight := inflight s;
     gathering := gathering s; dones := dones s; virgin := false |}.

(** agent_gathering_done + agent_signal_gathering_done *)
Definition gathering_done (c : lcfg) (s : lstate) : lstate :=
  if negb (timer s) && Nat.eqb (turn_pending s) 0 && (negb (done_waits_for_stun c) || negb (stun_pending s)) then
    if gathering s then
      {| stun_pending := stun_pending s; turn_pending := turn_pending s; timer := timer s; unsched := unsched s; inflight := inflight s;
         gathering := false; dones := S (dones s); virgin := virgin s |}
    else s
  else s.

(** the common tail of the two callbacks *)
Definition tail (c : lcfg) (s : lstate) : lstate :=
  if Nat.ltb 0 (unsched s) then
    (* discovery_schedule: the timer source is created when there is none *)
    {| stun_pending := stun_pending s; turn_pending := turn_pending s; timer := true; unsched := unsched s; inflight := inflight s;
       gathering := gathering s; dones := dones s; virgin := virgin s |}
  else gathering_done c s.

Definition enabled (s : lstate) (e : lev) : bool :=
  match e with
  | StunLanded ok items => stun_pending s && (ok || Nat.eqb items 0)
  | TurnLanded ok items => Nat.ltb 0 (turn_pending s) && (ok || Nat.eqb items 0)
  | Tick => timer s
  end.

Definition lstep (c : lcfg) (s0 : lstate) (e : lev) : lstate :=
  let s := set_virgin s0 in
  match e with
  | StunLanded ok items =>
      let s1 := {| stun_pending := false; turn_pending := turn_pending s; timer := timer s; unsched := unsched s + items; inflight := inflight s;
                   gathering := gathering s; dones := dones s; virgin := false |} in
      if ok || failed_lookup_runs_tail c then tail c s1 else s1
  | TurnLanded ok items =>
      let s1 := {| stun_pending := stun_pending s; turn_pending := pred (turn_pending s); timer := timer s; unsched := unsched s + items;
                   inflight := inflight s; gathering := gathering s; dones := dones s; virgin := false |} in
      if ok || failed_lookup_runs_tail c then tail c s1 else s1
  | Tick =>
      let s1 := if Nat.ltb 0 (unsched s)
                then {| stun_pending := stun_pending s; turn_pending := turn_pending s; timer := timer s; unsched := pred (unsched s);
                        inflight := S (inflight s); gathering := gathering s; dones := dones s; virgin := false |}
                else {| stun_pending := stun_pending s; turn_pending := turn_pending s; timer := timer s; unsched := 0;
                        inflight := pred (inflight s); gathering := gathering s; dones := dones s; virgin := false |} in
      if Nat.eqb (unsched s1) 0 && Nat.eqb (inflight s1) 0 then
        (* not_done == 0: discovery_free (timer source gone), then agent_gathering_done *)
        gathering_done c {| stun_pending := stun_pending s1; turn_pending := turn_pending s1; timer := false; unsched := 0; inflight := 0;
                            gathering := gathering s1; dones := dones s1; virgin := false |}
      else s1
  end.

(** a run: events that are not enabled in the state they meet make the run invalid *)
Fixpoint lrun (c : lcfg) (s : lstate) (evs : list lev) : option lstate :=
  match evs with
  | [] => Some s
  | e :: r => if enabled s e then lrun c (lstep c s e) r else None
  end.

(** nothing more can happen: every lookup has landed and no discovery timer runs *)
Definition quiescent (s : lstate) : bool := negb (stun_pending s) && Nat.eqb (turn_pending s) 0 && negb (timer s).
