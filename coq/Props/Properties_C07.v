(** C07 — Whatever the STUN builder emits is bounded, well-formed and reads back equal.  Statements only. *)
From Coq Require Import ZArith List Bool.
From Nice Require Import Base.Bytes Stun.StunModel Stun.StunProofs1 Stun.StunProofs2 Stun.StunProofs3 Stun.StunAgentModel Stun.SoftwareProofs Stun.ReadBackProofs Gen.Utf8Skip.
Import ListNotations.
Local Open Scope Z_scope.

(** One append on a message under construction of current length L (InProgress): either it does not fit and
    nothing is returned (the caller keeps the message as it was), or it yields a buffer of the SAME capacity whose
    bytes below L (except the length field) and beyond the new end are unchanged, and which with the value written
    is again a message under construction of length L + 4 + alen + padding <= capacity.  Never a Fault, i.e. no
    write outside the caller's buffer. *)
Theorem C07_append_bounded_and_wellformed : forall c buf ty alen L,
  InProgress (negb (f_no_aligned c)) buf L -> 0 <= alen -> 0 <= ty < 65536 ->
  let padding := if f_no_aligned c then 0 else stun_padding alen in
  (len buf < L + 4 + alen + padding -> append c buf ty alen = Ok None) /\
  (L + 4 + alen + padding <= len buf -> L + 4 + alen + padding < 65536 ->
   exists b, append c buf ty alen = Ok (Some (b, L + 4)) /\
     len b = len buf /\
     (forall i, 0 <= i < L -> i <> 2 -> i <> 3 -> rd b i = rd buf i) /\
     (forall i, L + 4 + alen + padding <= i -> rd b i = rd buf i) /\
     (forall v, wfb v -> len v = alen ->
        InProgress (negb (f_no_aligned c)) (wr b (L + 4) v) (L + 4 + alen + padding))).
Proof. exact append_spec. Qed.

(** A freshly initialised message is under construction with length 20, in a buffer of unchanged capacity. *)
Theorem C07_init : forall padded buf cls m id b,
  wfb buf -> wfb id -> len id = 16 -> 0 <= cls < 4 -> 0 <= m < 4096 ->
  init_msg buf cls m id = Ok (Some b) -> InProgress padded b 20 /\ len b = len buf.
Proof. exact init_in_progress. Qed.

(** Any sequence of appends (any types, lengths, values; any capacity below 2^16): never a Fault, the capacity
    never changes, the message stays well-formed and only grows. *)
Theorem C07_any_append_sequence : forall c ops buf L,
  len buf < 65536 -> InProgress (negb (f_no_aligned c)) buf L -> Forall op_ok ops ->
  exists b L', do_appends c buf ops = Ok b /\ len b = len buf /\ InProgress (negb (f_no_aligned c)) b L' /\ L <= L'.
Proof. exact do_appends_spec. Qed.

(** What has been built is a well-formed message for the independent grammar (hence passes the length check). *)
Theorem C07_built_message_wellformed : forall padded buf L,
  InProgress padded buf L -> (padded = true -> stun_padding L = 0) ->
  (exists first, rd buf 0 = Some first /\ first / 64 = 0) ->
  WfMsg padded (firstn (Z.to_nat L) buf).
Proof. exact in_progress_wf. Qed.

Example C07_nonvacuous :
  let c := {| cf_compat := RFC3489; f_short_term := true; f_long_term := false; f_use_fpr := false; f_add_software := false;
              f_ignore_creds := false; f_no_ind_auth := false; f_force_validater := false; f_no_aligned := false; f_consent := false |} in
  let id := [1;2;3;4;5;6;7;8;9;10;11;12;13;14;15;16] in
  (* a 1-byte attribute needs 4 + 1 + 3 bytes: refused in a 25-byte buffer (the space check counts the padding), accepted in 28 *)
  (b <- init_msg (repeat 238 25) 0 1 id ;; match b with Some b => append_bytes c b 6 [97] | None => Fault end) = Ok FNoSpace /\
  (b <- init_msg (repeat 238 28) 0 1 id ;;
   match b with
   | Some b => r <- append_bytes c b 6 [97] ;; match r with FOk b' => v <- validate_len b' true ;; Ok (len b', v) | _ => Fault end
   | None => Fault end) = Ok (28, Len 28).
Proof. vm_compute. split; reflexivity. Qed.

(** SOFTWARE (stun_message_append_software, table utf8_skip_data regenerated from stun/stun5389.c): the appended value is a prefix of the
    configured string, holds at most 128 characters as the implementation counts them, and a string of up to 128 single-byte characters is
    appended whole. *)
Theorem C07_software_is_prefix : forall s, exists t, s = software_cut s ++ t.
Proof. exact software_cut_prefix. Qed.
Print Assumptions C07_software_is_prefix.

Theorem C07_software_at_most_128_chars : forall s, (chars SOFTWARE_MAX_CHARS (software_cut s) <= 128)%nat.
Proof. exact software_at_most_128_chars. Qed.
Print Assumptions C07_software_at_most_128_chars.

Theorem C07_software_single_byte_whole : forall s,
  Forall (fun x => 0 <= x < 192) s -> (length s <= 128)%nat -> software_cut s = s.
Proof. exact software_ascii_whole. Qed.
Print Assumptions C07_software_single_byte_whole.

Example C07_software_multibyte_kept_whole :
  let s := concat (repeat [195; 169] 130) in length (software_cut s) = 256%nat /\ software_cut s = firstn 256 s.
Proof. exact software_two_byte_chars. Qed.

(** READ-BACK.  One successful append (stun_message_append_bytes, on which every typed appender is built) adds exactly one attribute at
    the end of what the independent parser sees — earlier attributes keep type, offset and length, the header bytes other than the
    length field are untouched — and the value bytes in the message are the bytes given. *)
Theorem C07_append_reads_back : forall c buf ty v L,
  InProgress (negb (f_no_aligned c)) buf L -> wfb v -> 0 <= ty < 65536 ->
  let padding := if f_no_aligned c then 0 else stun_padding (len v) in
  let L' := L + 4 + len v + padding in
  L' <= len buf -> L' < 65536 ->
  exists b, append_bytes c buf ty v = Ok (FOk b) /\ len b = len buf /\
    InProgress (negb (f_no_aligned c)) b L' /\
    sub b (L + 4) (len v) = v /\
    (forall i, 0 <= i < L -> i <> 2 -> i <> 3 -> rd b i = rd buf i) /\
    (forall fuel, L' - 20 <= 4 * Z.of_nat fuel ->
       attrs_of fuel (negb (f_no_aligned c)) b 20 (L' - 20) =
       attrs_of fuel (negb (f_no_aligned c)) buf 20 (L - 20) ++ [(swap_oc2007 c ty, L + 4, len_field c buf (len v))]).
Proof. exact append_bytes_readback. Qed.

(** ... and through the implementation's own lookup (stun_message_find): the appended attribute is what a lookup of its type returns
    unless an earlier attribute has that type or ends the search (MESSAGE-INTEGRITY / FINGERPRINT), in which case the lookup answers
    what it answered before; every lookup that found something before finds the same thing afterwards. *)
Theorem C07_append_then_find : forall c buf ty v L,
  InProgress (negb (f_no_aligned c)) buf L -> wfb v -> 0 <= ty < 65536 ->
  let padding := if f_no_aligned c then 0 else stun_padding (len v) in
  L + 4 + len v + padding <= len buf -> L + 4 + len v + padding < 65536 ->
  exists b, append_bytes c buf ty v = Ok (FOk b) /\ sub b (L + 4) (len v) = v /\
    let old := attrs_of (length buf) (negb (f_no_aligned c)) buf 20 (L - 20) in
    find c buf ty = Ok (first_match (swap_oc2007 c ty) old) /\
    (forallb (passes (swap_oc2007 c ty)) old = true -> find c b ty = Ok (Some (L + 4, len_field c buf (len v)))) /\
    (forallb (passes (swap_oc2007 c ty)) old = false -> find c b ty = find c buf ty) /\
    (forall ty0 x, find c buf ty0 = Ok (Some x) -> find c b ty0 = Ok (Some x)).
Proof. exact append_then_find. Qed.

Example C07_read_back_nonvacuous :
  let c := {| cf_compat := RFC5389; f_short_term := true; f_long_term := false; f_use_fpr := false; f_add_software := false;
              f_ignore_creds := false; f_no_ind_auth := false; f_force_validater := false; f_no_aligned := false; f_consent := false |} in
  let id := [33;18;164;66;5;6;7;8;9;10;11;12;13;14;15;16] in
  (b <- init_msg (repeat 238 64) 0 1 id ;;
   match b with
   | Some b => r <- append_bytes c b 6 [97; 98; 99] ;;
     match r with
     | FOk b1 => r2 <- append_bytes c b1 36 [0; 0; 0; 7] ;;
       match r2 with FOk b2 => f1 <- find c b2 6 ;; f2 <- find c b2 36 ;; Ok (f1, f2, sub b2 24 3, sub b2 32 4) | _ => Fault end
     | _ => Fault end
   | None => Fault end) = Ok (Some (24, 3), Some (32, 4), [97; 98; 99], [0; 0; 0; 7]).
Proof. vm_compute. reflexivity. Qed.
