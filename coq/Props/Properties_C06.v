(** C06 — STUN framing and attribute lookup agree with the RFC grammar.  Statements only. *)
From Coq Require Import ZArith List Bool.
From Nice Require Stun.ErrorCodeProofs.
From Nice Require Import Base.Bytes Stun.StunModel Stun.StunProofs1 Stun.StunProofs2.
Import ListNotations.
Local Open Scope Z_scope.

(** The length check reports L exactly when the first L bytes are a well-formed message ([WfMsg]: first two bits
    zero, L = 20 + header length field, a multiple of four where padding applies, attributes tiling the body
    exactly), reports Incomplete exactly when the first two bits are zero and fewer bytes are present than an
    acceptable header announces, never faults. *)
Theorem C06_length_check_iff_grammar : forall buf padded, wfb buf ->
  exists r, validate_len buf padded = Ok r /\
  (forall L, r = Len L <-> (0 <= L <= len buf /\ WfMsg padded (firstn (Z.to_nat L) buf))) /\
  (r = Incomplete <->
     exists first, rd buf 0 = Some first /\ first / 64 = 0 /\
       (len buf < 4 \/ exists hi lo, rd buf 2 = Some hi /\ rd buf 3 = Some lo /\
          (padded = true -> stun_padding (be16 hi lo + 20) = 0) /\ len buf < be16 hi lo + 20)).
Proof. exact validate_len_spec. Qed.

(** The vectored pre-check gives the same answer for every way of splitting the bytes over buffers
    (empty buffers included) as for one contiguous buffer. *)
Theorem C06_precheck_split_independent : forall bufs total padded, wfb (concat bufs) ->
  validate_fast bufs total padded = validate_fast [concat bufs] total padded.
Proof. exact validate_fast_split_independent. Qed.

(** When the pre-check accepts a whole packet the full check returns the same length or Invalid. *)
Theorem C06_precheck_and_full_check_agree : forall buf padded n, wfb buf ->
  validate_fast [buf] (len buf) padded = Ok (Len n) ->
  validate_len buf padded = Ok (Len n) \/ validate_len buf padded = Ok Invalid.
Proof. exact demux_agree. Qed.

(** Lookup returns the first attribute of the requested type found by the independent parser [msg_attrs],
    nothing but FINGERPRINT after MESSAGE-INTEGRITY, nothing after FINGERPRINT (first_match), with the
    OC2007 REALM/NONCE swap. *)
Theorem C06_lookup_is_first_match : forall c m ty, wfb m -> len m < 65536 ->
  WfMsg (negb (f_no_aligned c)) m ->
  find c m ty = Ok (first_match (swap_oc2007 c ty) (msg_attrs (negb (f_no_aligned c)) m)).
Proof. exact find_spec. Qed.

(* non-vacuity: a concrete well-formed message with two attributes *)
Example C06_nonvacuous :
  let m := [0;1;0;12; 33;18;164;66; 1;2;3;4;5;6;7;8;9;10;11;12; 0;6;0;3;97;98;99;0; 0;37;0;0] in
  validate_len m true = Ok (Len 32) /\ validate_len (firstn 31 m) true = Ok Incomplete /\
  msg_attrs true m = [(6, 24, 3); (37, 32, 0)] /\
  find {| cf_compat := RFC5389; f_short_term := true; f_long_term := false; f_use_fpr := false; f_add_software := false;
          f_ignore_creds := false; f_no_ind_auth := false; f_force_validater := false; f_no_aligned := false; f_consent := false |}
       m 37 = Ok (Some (32, 0)).
Proof. vm_compute. repeat split; reflexivity. Qed.

(** ERROR-CODE (RFC 5389 15.6): an accepted code comes from an attribute of at least four bytes, class = low three bits of its third octet (3..6),
    number = fourth octet (0..99); the five reserved bits of the class octet are ignored *)
Theorem C06_error_code_decoding : forall c buf code,
  find_error c buf = Ok (FOk code) ->
  exists o l b2 b3, find c buf A_ERROR_CODE = Ok (Some (o, l)) /\ 4 <= l /\ rd buf (o + 2) = Some b2 /\ rd buf (o + 3) = Some b3 /\
    3 <= Z.land b2 7 <= 6 /\ b3 <= 99 /\ code = Z.land b2 7 * 100 + b3.
Proof. exact Nice.Stun.ErrorCodeProofs.find_error_decodes. Qed.

Theorem C06_error_class_ignores_reserved_bits : forall b2 r, 0 <= b2 < 8 -> 0 <= r < 32 -> Z.land (b2 + 8 * r) 7 = b2.
Proof. exact Nice.Stun.ErrorCodeProofs.error_class_ignores_reserved_bits. Qed.

(** ... and conversely: every ERROR-CODE attribute of class 3..6 and number 0..99 is accepted with the RFC value, one that is too short or out
    of range is INVALID, and NOT-FOUND means exactly that no such attribute is present *)
Theorem C06_error_code_accepts_wellformed : forall c buf o l b2 b3,
  find c buf A_ERROR_CODE = Ok (Some (o, l)) -> 4 <= l -> rd buf (o + 2) = Some b2 -> rd buf (o + 3) = Some b3 ->
  3 <= Z.land b2 7 <= 6 -> b3 <= 99 ->
  find_error c buf = Ok (FOk (Z.land b2 7 * 100 + b3)).
Proof. exact Nice.Stun.ErrorCodeProofs.find_error_accepts. Qed.

Theorem C06_error_code_rejects_malformed : forall c buf o l b2 b3,
  find c buf A_ERROR_CODE = Ok (Some (o, l)) -> rd buf (o + 2) = Some b2 -> rd buf (o + 3) = Some b3 ->
  (l < 4 \/ Z.land b2 7 < 3 \/ 6 < Z.land b2 7 \/ 99 < b3) ->
  find_error c buf = Ok FInvalid.
Proof. exact Nice.Stun.ErrorCodeProofs.find_error_rejects. Qed.

Theorem C06_error_code_not_found_iff : forall c buf,
  find_error c buf = Ok FNotFound <-> find c buf A_ERROR_CODE = Ok None.
Proof. exact Nice.Stun.ErrorCodeProofs.find_error_not_found_iff. Qed.
