(** C19 — STUN retransmission timers follow the configured schedule exactly.
    Only statements; every proof is [exact <lemma>] from Timer/TimerProofs.v. *)
From Coq Require Import ZArith List.
From Nice Require Import Timer.TimerModel Timer.TimerProofs.
Import ListNotations.
Local Open Scope Z_scope.

(** however often or late it is polled: any non-decreasing poll sequence yields at most
    max(N,1)-1 RETRANSMITs; once TIMEOUT is reported it is reported forever, and exactly
    max(N,1)-1 RETRANSMITs precede the first TIMEOUT. *)
Theorem C19_exact_retransmission_count : forall T N now0 ps,
  params_ok T N -> wf_now now0 -> sorted_from (us now0) ps ->
  let rs := fst (polls (timer_start now0 T N) ps) in
  count RETRANSMIT rs <= nmax N - 1 /\
  exists pre n, rs = pre ++ repeat TIMEOUT n /\ count TIMEOUT pre = 0 /\
                ((n > 0)%nat -> count RETRANSMIT pre = nmax N - 1).
Proof. exact run_from_start. Qed.

(** polled arbitrarily late (every poll at or after the running deadline): exactly
    RETRANSMIT^(max(N,1)-1) then TIMEOUT forever. *)
Theorem C19_late_polls_exact_sequence : forall T N now0 ps,
  params_ok T N -> wf_now now0 -> sorted_from (us now0) ps ->
  all_late (timer_start now0 T N) ps ->
  fst (polls (timer_start now0 T N) ps) =
  firstn (length ps) (repeat RETRANSMIT (Z.to_nat (nmax N - 1)) ++ repeat TIMEOUT (length ps)).
Proof. exact late_run_from_start. Qed.

(** the wait that is running is [wait T N k] where k-1 retransmissions were requested *)
Theorem C19_running_wait : forall T N now0 ps,
  params_ok T N -> wf_now now0 -> sorted_from (us now0) ps ->
  let t := snd (polls (timer_start now0 T N) ps) in
  maxr t = N /\ 1 <= retrans t <= nmax N /\ delay t = wait T N (retrans t) /\
  retrans t = 1 + count RETRANSMIT (fst (polls (timer_start now0 T N) ps)).
Proof. exact run_inv. Qed.

(** the schedule doubles, the last wait is half its predecessor; T, 2T, T for N = 3 *)
Theorem C19_wait_doubles : forall T N k, 1 <= k -> k + 1 < N -> wait T N (k + 1) = 2 * wait T N k.
Proof. exact wait_doubles. Qed.
Theorem C19_wait_last_halves : forall T N, 2 <= N -> wait T N N = wait T N (N - 1) / 2.
Proof. exact wait_last_halves. Qed.
Theorem C19_wait_header_example : forall T, 1 <= T ->
  wait T 3 1 = T /\ wait T 3 2 = 2 * T /\ wait T 3 3 = T /\
  wait T 1 1 = T /\ wait T 0 1 = T /\ wait T 2 1 = T /\ wait T 2 2 = T / 2.
Proof. exact wait_examples. Qed.

(** at any point of any run, for the next poll p (r = true remaining microseconds):
    never late (r <= 0 => expiry), at most 1 ms early, the new deadline is p + wait,
    remainder <= running wait and zero from the deadline on. *)
Theorem C19_expiry_window_and_remainder : forall T N now0 ps p,
  params_ok T N -> wf_now now0 -> sorted_from (us now0) (ps ++ [p]) ->
  let t := snd (polls (timer_start now0 T N) ps) in
  let r := us (deadline t) - us p in
  (snd (refresh t p) = SUCCESS -> 0 < r) /\
  (r <= 0 -> snd (refresh t p) <> SUCCESS) /\
  (snd (refresh t p) <> SUCCESS -> r < 1000) /\
  (snd (refresh t p) = RETRANSMIT ->
     us (deadline (fst (refresh t p))) = us p + delay (fst (refresh t p)) * 1000) /\
  0 <= remainder t p <= delay t /\ (r <= 0 -> remainder t p = 0).
Proof. exact step_window. Qed.

(** the reliable variant (stun_timer_start_reliable: STUN over TCP, TURN-TCP, checks on reliable sockets) never asks for a
    retransmission, however often or late it is polled: a single transmission, then TIMEOUT for ever *)
Theorem C19_reliable_single_transmission : forall T now0 ps,
  1 <= T <= 10000 -> wf_now now0 -> sorted_from (us now0) ps ->
  let rs := fst (polls (timer_start_reliable now0 T) ps) in
  count RETRANSMIT rs = 0 /\ exists pre n, rs = pre ++ repeat TIMEOUT n /\ count TIMEOUT pre = 0 /\ count RETRANSMIT pre = 0.
Proof. exact reliable_never_retransmits. Qed.
Print Assumptions C19_reliable_single_transmission.

(** non-vacuity: a concrete run meets the hypotheses and shows T, 2T, T for N = 3 *)
(** closed form of the whole schedule: the waits of transmissions 1..N add up to T*(2^(N-1) + 2^(N-3) - 1) ms
    (N >= 3), i.e. 15.8 s for libnice's defaults T = 200 ms, N = 7 and 4T for the header's N = 3 *)
Theorem C19_total_schedule : forall T N, 3 <= N ->
  sum_wait T N (Z.to_nat N) = T * (2 ^ (N - 1) + 2 ^ (N - 3) - 1).
Proof. exact sum_wait_total. Qed.
Theorem C19_partial_schedule : forall T N n, Z.of_nat n < N ->
  sum_wait T N n = T * (2 ^ Z.of_nat n - 1).
Proof. exact sum_wait_prefix. Qed.
Example C19_total_schedule_defaults : sum_wait 200 7 7 = 15800 /\ sum_wait 500 3 3 = 2000.
Proof. exact sum_wait_default. Qed.

(** never gives up early: whatever the polling pattern, a TIMEOUT is reported only after the whole schedule has
    elapsed since the first transmission, less the 1 ms per wait by which stun_timer_remainder rounds down *)
Theorem C19_no_early_timeout : forall T N now0 ps i p,
  params_ok T N -> wf_now now0 -> sorted_from (us now0) ps ->
  nth_error ps i = Some p -> nth_error (fst (polls (timer_start now0 T N) ps)) i = Some TIMEOUT ->
  us now0 + (sum_wait T N (Z.to_nat (nmax N)) - nmax N) * 1000 < us p.
Proof. exact no_early_timeout. Qed.
Example C19_no_early_timeout_nonvacuous :
  fst (polls (timer_start {| sec := 0; usec := 0 |} 500 3)
        [{| sec := 0; usec := 500000 |}; {| sec := 1; usec := 500000 |}; {| sec := 2; usec := 0 |}])
  = [RETRANSMIT; RETRANSMIT; TIMEOUT] /\ (sum_wait 500 3 (Z.to_nat (nmax 3)) - nmax 3) * 1000 = 1997000.
Proof. exact no_early_timeout_nonvacuous. Qed.

Example C19_nonvacuous :
  let now0 := {| sec := 5; usec := 999500 |} in
  let ps := [ {| sec := 6; usec := 98499 |}; {| sec := 6; usec := 99500 |}; {| sec := 6; usec := 299500 |};
              {| sec := 6; usec := 300000 |}; {| sec := 6; usec := 398499 |}; {| sec := 9; usec := 100000 |} ] in
  params_ok 100 3 /\ wf_now now0 /\ sorted_from (us now0) ps /\
  fst (polls (timer_start now0 100 3) ps) = [SUCCESS; RETRANSMIT; RETRANSMIT; SUCCESS; SUCCESS; TIMEOUT].
Proof. vm_compute. repeat split; try (intro H; discriminate H); reflexivity. Qed.
