(** C04 — STUN validation accepts exactly RFC-correct integrity, fingerprint and transaction id. *)
From Coq Require Import ZArith List Bool.
From Nice Require Stun.ForgetProofs.
From Nice Require Import Base.Bytes Crypto.Sha1 Crypto.Crc32 Stun.StunModel Stun.StunAgentModel Stun.StunProofs4.
Import ListNotations.
Local Open Scope Z_scope.

(** the CRC table in stun/stuncrc32.c (regenerated into Gen/Crc32Tab.v on every run) is the reflected
    0xEDB88320 polynomial table: a complete sweep of its 256 entries *)
Theorem C04_crc_table_is_the_polynomial_table : table_ok = true.
Proof. vm_compute. reflexivity. Qed.

(** SUCCESS for a request under short-term credentials: USERNAME and MESSAGE-INTEGRITY present, a key bound to
    that USERNAME by the validater, and for a non-empty key a 20-byte MESSAGE-INTEGRITY equal to HMAC-SHA1 of
    the RFC-defined prefix ([rfc_mi_input], per compatibility mode) under that key. *)
Theorem C04_request_integrity : forall a buf vd a' ms,
  f_short_term (a_cfg a) = true -> f_long_term (a_cfg a) = false -> f_ignore_creds (a_cfg a) = false ->
  msg_class buf = Ok 0 ->
  validate a buf vd = Ok (V_SUCCESS, a', ms) ->
  exists uo ul uname t k,
    find (a_cfg a) buf A_USERNAME = Ok (Some (uo, ul)) /\ rd_n buf uo (Z.to_nat ul) = Ok uname /\
    has_attr (a_cfg a) buf A_MI = Ok true /\
    vd = Some t /\ lookup_user t uname = Some k /\
    (0 < len k -> exists ho ml,
        find (a_cfg a) buf A_MI = Ok (Some (ho, 20)) /\ msg_length buf = Ok ml /\
        rd_n buf ho 20 = Ok (hmac_sha1 k (rfc_mi_input (cf_compat (a_cfg a)) buf ho ml))).
Proof. exact validate_success_request_integrity. Qed.

(** Where fingerprints are in use, anything that gets past the fingerprint stage carries a 4-byte FINGERPRINT equal
    to CRC-32 of the preceding bytes xor 0x5354554e (in MS-ICE2 mode the documented legacy-table disjunct of
    [MS-ICE2] 3.1.4.8.2 when no MS-IMPLEMENTATION-VERSION is present). *)
Theorem C04_fingerprint : forall a buf vd a' ms st,
  is5389 (a_cfg a) = true -> f_use_fpr (a_cfg a) = true ->
  validate a buf vd = Ok (st, a', ms) ->
  st <> V_NOT_STUN -> st <> V_INCOMPLETE -> st <> V_BAD_REQUEST ->
  exists fpr ml, find32 (a_cfg a) buf A_FPR = Ok (FOk fpr) /\ msg_length buf = Ok ml /\
    (fpr = rfc_fingerprint buf ml \/
     (cf_compat (a_cfg a) = MSICE2 /\ find (a_cfg a) buf A_MS_IMPL_VERSION = Ok None /\ fpr = fingerprint buf ml true)).
Proof. exact validate_success_fingerprint. Qed.

(** A response is accepted only while a request with the same transaction id and method is outstanding, and
    accepting it consumes exactly one such request. *)
Theorem C04_response_consumes_outstanding_request : forall a buf vd a' ms st cls meth,
  msg_class buf = Ok cls -> (cls = 2 \/ cls = 3) -> msg_method buf = Ok meth ->
  validate a buf vd = Ok (st, a', ms) -> st = V_SUCCESS ->
  (count_matching (a_sent a) (msg_id buf) meth > 0)%nat /\
  S (count_matching (a_sent a') (msg_id buf) meth) = count_matching (a_sent a) (msg_id buf) meth.
Proof. exact validate_response_needs_outstanding. Qed.

Theorem C04_response_without_outstanding_request_unmatched : forall a buf vd a' ms st cls meth,
  msg_class buf = Ok cls -> (cls = 2 \/ cls = 3) -> msg_method buf = Ok meth ->
  count_matching (a_sent a) (msg_id buf) meth = O ->
  validate a buf vd = Ok (st, a', ms) ->
  st = V_NOT_STUN \/ st = V_INCOMPLETE \/ st = V_BAD_REQUEST \/ st = V_UNMATCHED_RESPONSE.
Proof. exact validate_response_unmatched. Qed.

(** validation never creates an outstanding transaction (so accepted responses never outnumber finished requests) *)
Theorem C04_validation_never_adds_transactions : forall a buf vd a' ms st id m,
  validate a buf vd = Ok (st, a', ms) -> (count_matching (a_sent a') id m <= count_matching (a_sent a) id m)%nat.
Proof. exact validate_count_le. Qed.

(** giving up a transaction (stun_agent_forget_transaction, what conncheck.c / discovery.c / udp-turn.c do on time-out): the first saved transaction
    with that id is dropped wherever it sits in the table - also behind slots freed by answers -, the result says whether there was one, the table
    keeps its size ... *)
Theorem C04_forget_reports_and_removes_one : forall a id,
  snd (forget_transaction a id) = negb (Nat.eqb (Nice.Stun.ForgetProofs.count_id (a_sent a) id) 0) /\
  Nice.Stun.ForgetProofs.count_id (a_sent (fst (forget_transaction a id))) id = pred (Nice.Stun.ForgetProofs.count_id (a_sent a) id) /\
  length (a_sent (fst (forget_transaction a id))) = length (a_sent a).
Proof. exact Nice.Stun.ForgetProofs.forget_reports_and_removes_one. Qed.

(** ... and once the only transaction with an id has been given up, a late (or replayed, or forged) response carrying that id is never accepted *)
Theorem C04_forgotten_transaction_is_unmatched : forall a id buf vd a' ms st cls meth,
  Nice.Stun.ForgetProofs.count_id (a_sent a) id = 1%nat -> msg_id buf = id ->
  msg_class buf = Ok cls -> (cls = 2 \/ cls = 3) -> msg_method buf = Ok meth ->
  validate (fst (forget_transaction a id)) buf vd = Ok (st, a', ms) ->
  st = V_NOT_STUN \/ st = V_INCOMPLETE \/ st = V_BAD_REQUEST \/ st = V_UNMATCHED_RESPONSE.
Proof. exact Nice.Stun.ForgetProofs.forgotten_transaction_is_unmatched. Qed.
