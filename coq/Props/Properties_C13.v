(** C13 — consent expiry and keepalive arithmetic (proved kernel; the session-level behaviour is explored on the simulator). *)
From Coq Require Import ZArith List Bool.
From Nice Require Import Gen.Consent Agent.ConsentModel Agent.ConsentProofs.
Import ListNotations.
Local Open Scope Z_scope.

(** the constants the statements below are about (read from agent/agent-priv.h on every run) *)
Theorem C13_constants : T_CONSENT_TIMEOUT = 30000 /\ T_CONSENT_DEFAULT = 5000 /\ T_MIN_CONSENT_INTERVAL = 4000 /\ T_TR_DEFAULT = 25000.
Proof. repeat split; reflexivity. Qed.

(** Once answers stop (last one at [last]) the self re-arming consent tick announces FAILED strictly after last + timeout and at most
    L microseconds later, for every sequence of dispatch latencies in 1..L and from every moment the tick is armed. *)
Theorem C13_consent_expiry_detected_partial : forall fresh L lat, (forall k, 1 <= lat k <= L) ->
  forall now last k, now - last <= consent_timeout fresh ->
  exists fuel t, consent_run fuel fresh now last lat k = Some t /\ last + consent_timeout fresh < t <= last + consent_timeout fresh + L.
Proof. exact consent_expiry_detected. Qed.

(** ... and never while an answer is younger than the timeout *)
Theorem C13_consent_never_lost_early : forall fresh lat fuel now last k t,
  consent_run fuel fresh now last lat k = Some t -> consent_timeout fresh < t - last.
Proof. exact consent_never_early. Qed.

(** consent checks are re-armed 4 .. 6 s ahead (5 s x [0.8, 1.2), floor 4 s) *)
Theorem C13_keepalive_rearm_bounds : forall m, 800000 <= m < 1200000 -> 4000000 <= keepalive_delay_consent m < 6000000.
Proof. exact keepalive_delay_bounds. Qed.

(** the send gate: with a selected pair, sending is allowed exactly while consent is held *)
Theorem C13_send_gate : forall have, send_allowed true have = have.
Proof. destruct have; reflexivity. Qed.
