(** C13 — consent expiry and keepalive arithmetic (proved kernel; the session-level behaviour is explored on the simulator). *)
From Coq Require Import ZArith List Bool.
From Nice Require Import Gen.Consent Agent.ConsentModel Agent.ConsentProofs.
Import ListNotations.
Local Open Scope Z_scope.

(** the constants the statements below are about (read from agent/agent-priv.h on every run) *)
Theorem C13_constants : T_CONSENT_TIMEOUT = 30000 /\ T_CONSENT_DEFAULT = 5000 /\ T_MIN_CONSENT_INTERVAL = 4000 /\ T_TR_DEFAULT = 25000.
Proof. repeat split; reflexivity. Qed.

(** Once answers stop (last one at [last]) the self re-arming consent tick announces FAILED strictly after last + timeout and at most
    L microseconds later, for every sequence of dispatch latencies in 1..L and from every moment the tick is armed. *)
Theorem C13_consent_expiry_detected_partial : forall fresh L lat, (forall k, 1 <= lat k <= L) ->
  forall now last k, now - last <= consent_timeout fresh ->
  exists fuel t, consent_run fuel fresh now last lat k = Some t /\ last + consent_timeout fresh < t <= last + consent_timeout fresh + L.
Proof. exact consent_expiry_detected. Qed.

(** ... and never while an answer is younger than the timeout *)
Theorem C13_consent_never_lost_early : forall fresh lat fuel now last k t,
  consent_run fuel fresh now last lat k = Some t -> consent_timeout fresh < t - last.
Proof. exact consent_never_early. Qed.

(** consent checks are re-armed 4 .. 6 s ahead (5 s x [0.8, 1.2), floor 4 s) *)
Theorem C13_keepalive_rearm_bounds : forall m, 800000 <= m < 1200000 -> 4000000 <= keepalive_delay_consent m < 6000000.
Proof. exact keepalive_delay_bounds. Qed.

(** the send gate: with a selected pair, sending is allowed exactly while consent is held *)
Theorem C13_send_gate : forall have, send_allowed true have = have.
Proof. destruct have; reflexivity. Qed.

(** ------------------------------------------------------------------------------------------------------------------------
    SESSION LEVEL (Agent/ConsentSessionModel.v): one component, its selected pair, the consent timer, the agent-wide keepalive
    timer, local consent, the component state and the table of remembered STUN transactions, driven by ARBITRARY event
    sequences (keepalive ticks, consent ticks, answers of every kind, incoming checks, nice_agent_consent_lost, sends, new
    selected pairs, ICE restarts, ...).  [valid L c s t0 evs]: evs is a run from s at clock t0 in which every timer fires 1 .. L
    microseconds after it is due.  [Inv] holds in the initial state and is kept by every step of every run (step_inv). *)
From Coq Require Import Lia.
From Nice Require Import Gen.ConsentSession Gen.CompState Agent.KeepaliveModel Agent.ConsentSessionModel Agent.ConsentSessionProofs.

Theorem C13_session_invariant : forall c L t s e, Inv c t s -> t <= time e -> ev_ok L s e = true -> Inv c (time e) (fst (step c s e)).
Proof. exact step_inv. Qed.
Print Assumptions C13_session_invariant.

(** (1) STAYS USABLE.  [fed c s e]: when e happens the latest refresh of last_received (an accepted answer, or the first consent
    check on the pair) is at most the consent timeout (30 s) old, and e is not an effective 403.  If that holds at every event of
    a run - of any length, any interleaving, any latencies <= L - then after every event the send gate is open and no event
    other than the environment's own state changes announces FAILED. *)
Theorem C13_stays_usable : forall c L s t0 evs,
  Inv c t0 s -> valid L c s t0 evs = true -> (selected s = true -> have s = true) -> always (fed c) c s evs ->
  forall pre e post, evs = pre ++ e :: post ->
    let s1 := exec c s pre in
    send_allowed (selected (fst (step c s1 e))) (have (fst (step c s1 e))) = true /\
    (is_env (what e) = false -> ~ In (OState FAILED) (snd (step c s1 e))).
Proof. exact stays_usable. Qed.
Print Assumptions C13_stays_usable.

Example C13_stays_usable_nonvacuous :
  Inv cfgF 1 s0 /\ valid 1000 cfgF s0 1 run_healthy = true /\ always (fed cfgF) cfgF s0 run_healthy /\
  length run_healthy = 77%nat /\ snd (step cfgF (exec cfgF s0 (removelast run_healthy)) (ev 101000500 Send)) = [OSend true].
Proof. split; [exact Inv_s0|]. split; [exact run_healthy_valid|]. split; [exact healthy_fed|]. split; [reflexivity|exact run_healthy_gate]. Qed.

(** (2) EXPIRY.  From a state in which consent is held and the consent timer is armed (last_received s = T: the instant of the
    last accepted answer), if no later event refreshes last_received, is an effective 403, or replaces / removes the selected pair
    ([quiet]) and the run goes on beyond T + timeout + L, then some event e with T + timeout < time e <= T + timeout + L clears
    [have]; that step announces FAILED (unless the component was FAILED already) and leaves it FAILED; consent was held until
    then; and from then on [have] stays false and every Send is refused with the permission error. *)
Theorem C13_expiry : forall c L s t0 evs d,
  Inv c t0 s -> valid L c s t0 evs = true -> have s = true -> ct_timer s = Some d -> always (quiet c) c s evs ->
  (exists e', In e' evs /\ last_received s + tmo c + L < time e') ->
  exists pre e post, evs = pre ++ e :: post /\
    last_received s + tmo c < time e <= last_received s + tmo c + L /\
    have (exec c s pre) = true /\ have (fst (step c (exec c s pre) e)) = false /\
    (In (OState FAILED) (snd (step c (exec c s pre) e)) \/ cst (exec c s pre) = FAILED) /\
    cst (fst (step c (exec c s pre) e)) = FAILED /\
    (forall p2 e2 q2, post = p2 ++ e2 :: q2 ->
       have (exec c s (pre ++ e :: p2)) = false /\ (what e2 = Send -> snd (step c (exec c s (pre ++ e :: p2)) e2) = [OSend false])).
Proof. exact expiry. Qed.
Print Assumptions C13_expiry.

Example C13_expiry_nonvacuous :
  (let s := exec cfgF s0 blackout_head in
   have s = true /\ ct_timer s = Some 31000000 /\ last_received s = 1001000 /\
   valid 1000 cfgF s 1001000 blackout_tail = true /\ always (quiet cfgF) cfgF s blackout_tail /\ In (ev 31003000 Send) blackout_tail) /\
  tmo cfgF = 30000000 /\
  filter (fun p => match snd p with [] => false | _ => negb (transmits (snd p)) end) (outputs cfgF s0 run_blackout)
  = [(31000999, [OSend true]); (31001001, [OState FAILED]); (31001002, [OSend false]); (31003000, [OSend false]); (31003002, [OSend false])].
Proof. split; [exact blackout_hyps|]. split; [reflexivity|exact run_blackout_outputs]. Qed.

(** ... and the closed gate stays closed whatever happens (late answers, ticks, restarts, state changes), for ever: only a new
    selected pair (conn_check_update_selected_pair, nice_agent_set_selected_pair) or the removal of the pair changes that. *)
Theorem C13_gate_stays_closed : forall c s evs,
  selected s = true -> have s = false -> Forall (fun e => reselects (what e) = false) evs ->
  forall pre e post, evs = pre ++ e :: post ->
    selected (exec c s pre) = true /\ have (exec c s pre) = false /\ (what e = Send -> snd (step c (exec c s pre) e) = [OSend false]).
Proof. exact gate_stays_closed. Qed.
Print Assumptions C13_gate_stays_closed.

Theorem C13_gate_reopens_only_by_new_pair : forall c s e,
  selected s = true -> have s = false ->
  send_allowed (selected (fst (step c s e))) (have (fst (step c s e))) = true -> reselects (what e) = true.
Proof. exact reopen_only_by_new_pair. Qed.
Print Assumptions C13_gate_reopens_only_by_new_pair.

(** (3) 403.  [forbids c s a]: a is an answer with error code 403 whose transaction id is remembered, whose MESSAGE-INTEGRITY is
    good, under consent freshness, from the remote address of the selected pair. *)
Theorem C13_403_closes_at_once : forall c s e,
  forbids c s (what e) = true ->
  selected (fst (step c s e)) = true /\ have (fst (step c s e)) = false /\ ct_timer (fst (step c s e)) = None /\
  cst (fst (step c s e)) = FAILED /\ (In (OState FAILED) (snd (step c s e)) \/ cst s = FAILED) /\
  (forall e2, what e2 = Send -> snd (step c (fst (step c s e)) e2) = [OSend false]).
Proof. exact forbidden_closes. Qed.
Print Assumptions C13_403_closes_at_once.

Theorem C13_403_unauthenticated_or_unmatched_ignored : forall c s e tid auth fs,
  what e = Answer tid auth (KError 403) fs -> fresh c = true ->
  known tid s = false \/ auth = false \/ fs = false \/ selected s = false ->
  step c s e = (s, []).
Proof. exact forbidden_ineffective. Qed.
Print Assumptions C13_403_unauthenticated_or_unmatched_ignored.

Example C13_403_nonvacuous :
  let s := exec cfgF s0 [ev 1000000 (NewPair ByNomination 800000)] in
  forbids cfgF s (Answer 1 true (KError 403) true) = true /\
  snd (step cfgF s (ev 1001000 (Answer 1 true (KError 403) true))) = [OState FAILED] /\
  step cfgF s (ev 1001000 (Answer 1 false (KError 403) true)) = (s, []) /\
  step cfgF s (ev 1001000 (Answer 7 true (KError 403) true)) = (s, []).
Proof. vm_compute. repeat split; reflexivity. Qed.

(** (4) LOCAL REVOCATION: after nice_agent_consent_lost every authenticated check is answered 403 and never 200 - until an ICE
    restart, which gives consent back (nice_component_restart; documented) - and before it, 200. *)
Theorem C13_revoked_answers_403 : forall c s pre rev mid chk,
  fresh c = true -> what rev = RevokeLocal -> Forall (fun e => is_restart (what e) = false) mid -> what chk = IncomingCheck true ->
  snd (step c (exec c s (pre ++ rev :: mid)) chk) = [OAnswer 403].
Proof. exact revoked_answers_403. Qed.
Print Assumptions C13_revoked_answers_403.

Theorem C13_unrevoked_answers_200 : forall c s pre chk,
  local_consent s = true -> Forall (fun e => is_revoke (what e) = false) pre -> what chk = IncomingCheck true ->
  snd (step c (exec c s pre) chk) = [OAnswer 200].
Proof. exact unrevoked_answers_200. Qed.
Print Assumptions C13_unrevoked_answers_200.

Theorem C13_revocation_survives_restart_refuted :
  outputs cfgF s0 [ev 10 RevokeLocal; ev 20 (IncomingCheck true); ev 30 Restart; ev 40 (IncomingCheck true)]
  = [(10, [ORevoke true]); (20, [OAnswer 403]); (30, [OState GATHERING]); (40, [OAnswer 200])].
Proof. exact revocation_survives_restart_refuted. Qed.
Print Assumptions C13_revocation_survives_restart_refuted.

(** (5) SILENCE BOUND.  After an event e1 that transmits on the selected pair, as long as the events that follow neither transmit
    nor replace / remove the pair and the keepalive timer is not stopped ([calm]), the next event e2 of any kind - in particular
    the next transmission - comes less than 6 s + L after a consent check (re-arm 5 s x [0.8, 1.2), at least 4 s) and at most
    25 s + L after an indication (Tr).  (General form, for either value of forget_prev; see C13_silence_bound_since_fix below.) *)
Theorem C13_silence_bound : forall c L s t0 pre e1 mid e2 post,
  Inv c t0 s -> valid L c s t0 (pre ++ e1 :: mid ++ e2 :: post) = true ->
  transmits (snd (step c (exec c s pre) e1)) = true ->
  always (calm c) c (fst (step c (exec c s pre) e1)) mid ->
  (has_check (snd (step c (exec c s pre) e1)) = true -> time e2 - time e1 < 6000000 + L) /\
  (has_check (snd (step c (exec c s pre) e1)) = false -> time e2 - time e1 <= 25000000 + L).
Proof. exact silence_bound. Qed.
Print Assumptions C13_silence_bound.

Example C13_silence_bound_nonvacuous :
  run_healthy = [] ++ ev 1000000 (NewPair ByNomination 800000) :: firstn 2 (skipn 1 run_healthy) ++ ev 5000000 (KeepaliveTick 800000) :: skipn 4 run_healthy /\
  transmits (snd (step cfgF (exec cfgF s0 []) (ev 1000000 (NewPair ByNomination 800000)))) = true /\
  always (calm cfgF) cfgF (fst (step cfgF (exec cfgF s0 []) (ev 1000000 (NewPair ByNomination 800000)))) (firstn 2 (skipn 1 run_healthy)).
Proof. exact healthy_calm. Qed.

(** the keepalive timer is stopped by one thing only: a consent check is due and - after the previous keepalive transaction of the
    pair has been forgotten ([prep]) - the StunAgent of the component has no free slot (STUN_AGENT_MAX_SAVED_IDS) for its transaction *)
Theorem C13_keepalive_timer_stops_only_when_table_full : forall c L s e,
  ev_ok L s e = true -> ka_timer s <> None -> ka_timer (fst (step c s e)) = None ->
  table_full (prep c s) = true /\ do_cc c && creds s = true /\ exists m, what e = KeepaliveTick m.
Proof. exact keepalive_timer_stops_only_when_table_full. Qed.
Print Assumptions C13_keepalive_timer_stops_only_when_table_full.

(** ... which, since fix e9d3c51 (forget_prev c = true: the keepalive tick forgets the pair's previous keepalive transaction, answered or
    not, before it builds the next check), lost answers can no longer bring about.  [J]: transaction ids are fresh and the current
    keepalive transaction is remembered at most once (true initially, kept by every step); [others s]: remembered transactions other than
    the current keepalive transaction; [count_resel evs]: the NewPair / ClearPair events of evs (nice_component_clear_selected_pair memsets
    keepalive.has_transaction without forgetting the transaction: one id is left behind per pair change).
    The table never holds more than others s + pair changes + 1 ids, for runs of any length and any loss pattern: *)
Theorem C13_outstanding_bounded : forall c s evs, forget_prev c = true -> J s ->
  (length (outstanding (exec c s evs)) <= others s + count_resel evs + 1)%nat.
Proof. exact outstanding_bounded. Qed.
Print Assumptions C13_outstanding_bounded.

(** ... hence the keepalive timer is never stopped (with fewer than STUN_AGENT_MAX_SAVED_IDS ids left behind by pair changes): *)
Theorem C13_keepalive_timer_never_stops : forall c L s t0 evs, forget_prev c = true ->
  valid L c s t0 evs = true -> J s -> Z.of_nat (others s + count_resel evs) < MAX_SAVED_IDS -> ka_timer s <> None ->
  forall pre e post, evs = pre ++ e :: post -> ka_timer (fst (step c (exec c s pre) e)) <> None.
Proof. exact keepalive_timer_never_stops. Qed.
Print Assumptions C13_keepalive_timer_never_stops.

(** ... and (5) holds without the side condition on the timer: [calm0] = the event neither transmits nor replaces / removes the pair. *)
Theorem C13_silence_bound_since_fix : forall c L s t0 pre e1 mid e2 post,
  forget_prev c = true -> Inv c t0 s -> J s -> valid L c s t0 (pre ++ e1 :: mid ++ e2 :: post) = true ->
  Z.of_nat (others s + count_resel (pre ++ [e1])) < MAX_SAVED_IDS ->
  transmits (snd (step c (exec c s pre) e1)) = true ->
  always (calm0 c) c (fst (step c (exec c s pre) e1)) mid ->
  (has_check (snd (step c (exec c s pre) e1)) = true -> time e2 - time e1 < 6000000 + L) /\
  (has_check (snd (step c (exec c s pre) e1)) = false -> time e2 - time e1 <= 25000000 + L).
Proof. exact silence_bound_fixed. Qed.
Print Assumptions C13_silence_bound_since_fix.

Example C13_silence_bound_since_fix_nonvacuous :
  forget_prev cfgF = true /\ (J s0 /\ others s0 = O) /\
  always (calm0 cfgF) cfgF (fst (step cfgF (exec cfgF s0 []) (ev 1000000 (NewPair ByNomination 800000)))) (firstn 2 (skipn 1 run_healthy)) /\
  Z.of_nat (others s0 + count_resel ([] ++ [ev 1000000 (NewPair ByNomination 800000)])) < MAX_SAVED_IDS.
Proof. split; [reflexivity|]. split; [exact J_s0|exact healthy_calm0]. Qed.

(** REGRESSION.  On the code before the fix (cfgOld) a valid run in which the peer answers every fifth check (consent never older than
    20 s): after 200 lost answers the keepalive timer is stopped, the last packet leaves at 997 s, and at 1011 s the pair is still
    selected, consent held, sends pass - 14 s of silence.  On the same loss pattern the code since the fix (cfgF) keeps sending every
    4 s and remembers one transaction. *)
Theorem C13_silence_bound_when_ids_leak_before_fix :
  valid 1000 cfgOld s0 1 run_leak = true /\
  selected (exec cfgOld s0 run_leak) = true /\ have (exec cfgOld s0 run_leak) = true /\
  ka_timer (exec cfgOld s0 run_leak) = None /\ table_full (exec cfgOld s0 run_leak) = true /\
  last_tx (outputs cfgOld s0 run_leak) = 997000000 /\
  snd (step cfgOld (exec cfgOld s0 (removelast run_leak)) (ev 1011000000 Send)) = [OSend true].
Proof. exact silence_bound_when_ids_leak_before_fix. Qed.
Print Assumptions C13_silence_bound_when_ids_leak_before_fix.

Theorem C13_ids_do_not_leak_since_fix :
  valid 1000 cfgF s0 1 run_leak_fixed = true /\
  selected (exec cfgF s0 run_leak_fixed) = true /\ have (exec cfgF s0 run_leak_fixed) = true /\
  ka_timer (exec cfgF s0 run_leak_fixed) = Some 1001020000 /\ length (outstanding (exec cfgF s0 run_leak_fixed)) = 1%nat /\
  last_tx (outputs cfgF s0 run_leak_fixed) = 1001000000.
Proof. exact ids_do_not_leak_since_fix. Qed.
Print Assumptions C13_ids_do_not_leak_since_fix.

(** "consent expires unless AUTHENTICATED answers keep arriving" is false on the code: error responses 400 / 401 / 438 / 300 with a
    remembered transaction id pass stun_agent_validate without MESSAGE-INTEGRITY and refresh last_received.  A valid 100 s run
    whose only answers are unauthenticated 401s: consent held throughout, never FAILED, sends pass. *)
Theorem C13_consent_needs_authenticated_answer_refuted :
  valid 1000 cfgF s0 1 run_unauth = true /\
  existsb (fun e => match what e with Answer _ true _ _ => true | _ => false end) run_unauth = false /\
  have (exec cfgF s0 run_unauth) = true /\ cst (exec cfgF s0 run_unauth) = CONNECTING /\
  snd (step cfgF (exec cfgF s0 (removelast run_unauth)) (ev 101000500 Send)) = [OSend true].
Proof. exact consent_needs_authenticated_answer_refuted. Qed.
Print Assumptions C13_consent_needs_authenticated_answer_refuted.

(** (6) THE SEND GATE: in every state reached by any event sequence whatsoever, a send changes nothing and its result is the
    one-line specification [send_allowed selected have = negb (selected && negb have)]. *)
Theorem C13_send_gate_refines : forall c s pre e,
  what e = Send ->
  step c (exec c s pre) e = (exec c s pre, [OSend (send_allowed (selected (exec c s pre)) (have (exec c s pre)))]).
Proof. exact send_gate_refines. Qed.
Print Assumptions C13_send_gate_refines.
