(** C02 -- Application data arrives intact, whole and in order on every transport: the ICE-TCP data path.
    Statements only; every proof is [exact lemma].  Model: Data/FramingModel.v (sender: RFC 4571 framing loop of
    nice_agent_send_messages_nonblocking_internal; receiver: rfc4571 reassembly state, agent_recv_message_unlocked,
    agent_consume_next_rfc4571_chunk, append_buffer_to_input_messages, component_io_cb / nice_agent_recv_messages loops).
    [ctl] = the STUN demultiplexer consumed the frame, [gate] = the source address is a verified peer. *)
From Coq Require Import ZArith List Bool.
From Nice Require Import Stream.StreamBase Data.FramingModel Data.SendProofs Data.RecvProofs Data.RecvMsgProofs Data.E2EProofs Data.BytestreamProofs.
Import ListNotations.
Local Open Scope Z_scope.

(* ------------------------------------------------------------------ sender *)

(** For ALL message sizes and ALL scatter layouts (zero-length buffers included) the framing loop reads only inside the
    caller's buffers (no Fault), and the vectors it hands to the socket layer are, frame by frame, the 2-byte big-endian
    length followed by the next (at most 0xF800-byte) piece of the message, as header :: slices of the buffers.
    (Unconditional since fix f9b160b.) *)
Theorem C02_send_frames_correct : forall bufs, sumlen bufs < W64 ->
  exists vs, send_frames bufs = Some vs /\ map (@concat Z) vs = map SendProofs.frame_of (pieces (concat bufs)) /\
    Forall (fun v => exists p sl, v = hdr (lenZ p) :: sl /\ concat sl = p /\ 0 < lenZ p <= FMAX) vs.
Proof. exact send_frames_total. Qed.

(** Regression of the repaired defect: the copy loop as it was (MIN (size, packet_len) at buffer + offset_in_buffer)
    reads past the first buffer for [63488][100]; the repaired one takes nothing from it and 100 bytes from the next. *)
Theorem C02_send_copy_loop_regression :
  let bufs := [repZ 7 (Z.to_nat 63488); repZ 9 (Z.to_nat 100)] in
  (let '(oib, cur, rest) := find_buf bufs 63488 0 in (oib, cur, length rest)) = (63488, 63488, 2%nat) /\
  copy_loop_before_fix bufs 63488 100 = None /\
  (match copy_loop bufs 63488 100 with Some (sl, tot) => Some (map lenZ sl, tot) | None => None end) = Some ([0; 100], 100).
Proof. exact copy_loop_regression_boundary. Qed.

Theorem C02_send_frames_regression_boundary :
  (match send_frames [repZ 7 (Z.to_nat 63488); repZ 9 (Z.to_nat 100)] with Some vs => map (map lenZ) vs | None => [] end)
    = [[2; 63488; 0]; [2; 0; 100]].
Proof. exact send_frames_regression_boundary. Qed.

Theorem C02_send_frames_regression_inside :
  (match send_frames [repZ 1 (Z.to_nat 63000); repZ 2 (Z.to_nat 1000); repZ 3 (Z.to_nat 5000)] with
   | Some vs => map (map lenZ) vs | None => [] end) = [[2; 63000; 488; 0]; [2; 512; 5000]].
Proof. exact send_frames_regression_inside. Qed.

(** first frame sent unreliably (may be refused whole), the others reliably; a refused first frame hands nothing else over *)
Theorem C02_send_message_flags : forall bufs fs rs c e, sumlen bufs < W64 -> send_message bufs [] = Some (fs, rs, c, e) ->
  0 < sumlen bufs -> c = true /\ e = false /\ rs = [] /\
  (exists f0 rest, fs = f0 :: rest /\ f_reliable f0 = false /\ Forall (fun f => f_reliable f = true) rest) /\
  Forall (fun f => f_res f = SOk) fs.
Proof. exact send_message_flags. Qed.

Theorem C02_send_message_blocked : forall bufs resp, sumlen bufs < W64 -> 0 < sumlen bufs ->
  exists f, send_message bufs (SBlock :: resp) = Some ([f], resp, false, false) /\ f_res f = SBlock /\ f_reliable f = false.
Proof. exact send_message_blocked. Qed.

(** several messages in one call: all counted, the wire carries their frames in order *)
Theorem C02_send_api_all : forall bufss,
  Forall (fun b => sumlen b < W64 /\ 0 < sumlen b) bufss -> bufss <> [] ->
  exists fss, send_api bufss [] = Some (fss, Z.of_nat (length bufss)) /\
    concat (map wire_of fss) = concat (map (fun b => concat (map SendProofs.frame_of (pieces (concat b)))) bufss).
Proof. exact send_api_all. Qed.

Theorem C02_pieces_concat : forall d, concat (pieces d) = d.
Proof. exact pieces_concat. Qed.

Example C02_send_two_frames_nonvacuous :
  exists vs, send_frames [repZ 1 (Z.to_nat 10); repZ 2 (Z.to_nat 70000)] = Some vs /\ length vs = 2%nat.
Proof. exact send_frames_two_frames_ok. Qed.

(* ------------------------------------------------------------------ receiver: hand-out into the caller's buffers *)

(** append_buffer_to_input_messages' copy loop over any buffer layout (zero-length buffers included), from any legal
    iterator position: it never writes outside a buffer, copies min(data, free space) bytes, and the buffers read
    as one flat array afterwards are the old contents overwritten at the iterator's flat position. *)
Theorem C02_append_scatter_is_flat_copy : forall rest ib io data, pos_ok rest io -> sumlen rest < W64 ->
  let c := Z.min (lenZ data) (sumlen rest - io) in
  exists rest' ib' io',
    app_loop rest ib io data = Some (rest', ib', io', dropZ c data) /\
    concat rest' = takeZ io (concat rest) ++ takeZ c data ++ dropZ (io + c) (concat rest) /\
    map lenZ rest' = map lenZ rest /\
    (ib <= ib')%nat /\
    pos_ok (skipn (ib' - ib) rest') io' /\
    sumlen (skipn (ib' - ib) rest') - io' = sumlen rest - io - c.
Proof. exact app_loop_spec. Qed.

(* ------------------------------------------------------------------ receiver: the receive callback, all segmentations *)

(** No Fault for any byte stream and any script of kernel answers; the callbacks are the payloads of the complete frames
    read so far, one call per frame, in order, minus the frames the demultiplexer consumed. *)
Theorem C02_recv_cb_frames : forall ctl gate n stream sc, bytes_ok stream ->
  exists s' k' done e,
    cb_session false ctl gate n rst0 {| pend := stream; script := sc |} = Some (s', k', filter (keep ctl gate) done, e) /\
    Forall pl_ok done /\ stream = encode done ++ unc s' ++ pend k' /\ whole (unc s') = false /\
    (e = true -> In KClosed sc).
Proof. exact cb_session_frames. Qed.

(** Once the stream has been read: exactly the sent frames -- none lost, none merged, none split, in order. *)
Theorem C02_recv_cb_all : forall ctl gate n ps tail sc s' k' ds,
  Forall pl_ok ps -> bytes_ok tail -> whole tail = false ->
  cb_session false ctl gate n rst0 {| pend := encode ps ++ tail; script := sc |} = Some (s', k', ds, false) ->
  pend k' = [] ->
  ds = filter (keep ctl gate) ps /\ unc s' = tail.
Proof. exact cb_session_all. Qed.

(** Independence of the segmentation of the TCP stream into reads *)
Theorem C02_recv_cb_seg_independent : forall ctl gate n1 n2 stream sc1 sc2 s1 k1 ds1 s2 k2 ds2,
  bytes_ok stream ->
  cb_session false ctl gate n1 rst0 {| pend := stream; script := sc1 |} = Some (s1, k1, ds1, false) ->
  cb_session false ctl gate n2 rst0 {| pend := stream; script := sc2 |} = Some (s2, k2, ds2, false) ->
  pend k1 = [] -> pend k2 = [] ->
  ds1 = ds2 /\ unc s1 = unc s2.
Proof. exact cb_session_seg_independent. Qed.

(** ... and every segmentation is covered: any script of at least |stream| reads of at least one byte reads it all *)
Theorem C02_recv_cb_reads_all : forall ctl gate n stream sc, bytes_ok stream -> reads_only sc ->
  lenZ stream <= Z.of_nat (length sc) -> (length sc < n)%nat ->
  exists s' k' ds, cb_session false ctl gate n rst0 {| pend := stream; script := sc |} = Some (s', k', ds, false) /\
    pend k' = [] /\ script k' = [].
Proof. exact cb_session_reads_all. Qed.

Example C02_recv_cb_two_cuts_nonvacuous :
  let stream := [0; 3; 7; 8; 9; 0; 0; 0; 2; 65; 66; 0] in
  exists s1 k1 s2 k2,
    cb_session false ctl1 true 9 rst0 {| pend := stream; script := [KRead 1; KRead 1; KRead 2; KEmpty; KRead 2; KRead 1; KRead 100] |}
      = Some (s1, k1, [[7; 8; 9]; [65; 66]], false) /\ pend k1 = [] /\
    cb_session false ctl1 true 3 rst0 {| pend := stream; script := [KRead 100] |}
      = Some (s2, k2, [[7; 8; 9]; [65; 66]], false) /\ pend k2 = [] /\ unc s1 = [0] /\ unc s2 = [0].
Proof. exact cb_session_two_cuts. Qed.

(* ------------------------------------------------------------------ sender and receiver composed *)

Theorem C02_tcp_end_to_end : forall (ctl : bytes -> bool) (msgs : list (list bytes)),
  Forall (fun b => sumlen b < W64 /\ 0 < sumlen b /\ bytes_ok (concat b)) msgs -> msgs <> [] ->
  exists fss, send_api msgs [] = Some (fss, Z.of_nat (length msgs)) /\
    forall n sc s' k' ds,
      cb_session false ctl true n rst0 {| pend := concat (map wire_of fss); script := sc |} = Some (s', k', ds, false) ->
      pend k' = [] ->
      ds = filter (keep ctl true) (concat (map (fun b => pieces (concat b)) msgs)) /\ unc s' = [].
Proof. exact tcp_end_to_end. Qed.

Theorem C02_tcp_end_to_end_all_delivered : forall (ctl : bytes -> bool) (msgs : list (list bytes)),
  Forall (fun b => sumlen b < W64 /\ 0 < sumlen b /\ bytes_ok (concat b)) msgs -> msgs <> [] ->
  Forall (fun b => Forall (fun p => ctl p = false) (pieces (concat b))) msgs ->
  exists fss, send_api msgs [] = Some (fss, Z.of_nat (length msgs)) /\
    forall n sc s' k' ds,
      cb_session false ctl true n rst0 {| pend := concat (map wire_of fss); script := sc |} = Some (s', k', ds, false) ->
      pend k' = [] ->
      ds = concat (map (fun b => pieces (concat b)) msgs) /\
      map (@concat Z) (map (fun b => pieces (concat b)) msgs) = map (@concat Z) msgs.
Proof. exact tcp_end_to_end_all. Qed.

(* ------------------------------------------------------------------ nice_agent_recv_messages (one message per call) *)

(** One call: no Fault; it returns nothing or one frame (truncated to the message's capacity); the frames passed over are
    accounted for; [leaky]: frames of the dropped class may be skipped (normal path) or handed out (cached frame). *)
Theorem C02_recv_messages_one_call : forall ctl gate s k m, Inv s -> bytes_ok (pend k) -> sumlen (m_bufs m) < W64 ->
  exists s' k' m' r done out,
    recv_messages_call false ctl gate s k [m] = Some (s', k', [m'], r) /\
    Inv s' /\ bytes_ok (pend k') /\ (length (script k') <= length (script k))%nat /\
    unc s ++ pend k = encode done ++ unc s' ++ pend k' /\ Forall pl_ok done /\
    leaky ctl gate done out /\ got m m' r out.
Proof. exact recv1_call_spec. Qed.

(** A receive loop gets every data frame exactly once, whole and in order (what else it may get: see the witness below). *)
Theorem C02_recv_messages_loop_data_intact_except_ctl_leak : forall ctl gate n s k s' k' l, Inv s -> bytes_ok (pend k) ->
  recv_loop ctl gate n s k = Some (s', k', l) ->
  exists done, unc s ++ pend k = encode done ++ unc s' ++ pend k' /\ Forall pl_ok done /\
    filter (keep ctl gate) l = filter (keep ctl gate) done.
Proof. exact recv_loop_data_intact. Qed.

Theorem C02_recv_messages_loop_leaky : forall ctl gate n s k, Inv s -> bytes_ok (pend k) ->
  exists s' k' done l,
    recv_loop ctl gate n s k = Some (s', k', l) /\ Inv s' /\
    unc s ++ pend k = encode done ++ unc s' ++ pend k' /\ Forall pl_ok done /\ leaky ctl gate done l.
Proof. exact recv_loop_spec. Qed.

(** The defect (reproduced on the real code): a frame already complete in the reassembly buffer when the call starts is
    handed out without demultiplexing -- ICE control traffic reaches the application. *)
Theorem C02_recv_messages_ctl_leak_refuted :
  let stream := [0; 2; 65; 66; 0; 3; 1; 2; 3] in
  let k0 := {| pend := stream; script := [KRead 100] |} in
  ctl1 [1; 2; 3] = true /\
  (exists s k, cb_session false ctl1 true 2 rst0 k0 = Some (s, k, [[65; 66]], false)) /\
  exists s1 k1 m1 s2 k2 m2,
    recv_messages_call false ctl1 true rst0 k0 [small_msg] = Some (s1, k1, [m1], 1) /\ valid_bytes m1 = [65; 66] /\
    recv_messages_call false ctl1 true s1 k1 [small_msg] = Some (s2, k2, [m2], 1) /\ valid_bytes m2 = [1; 2; 3].
Proof. exact recv_messages_ctl_leak_refuted. Qed.

(* ------------------------------------------------------------------ one reassembly buffer for all connections of a component *)

(** The theorems above are about ONE connection feeding the component's reassembly state.  The defect (reproduced on the
    real code): reads from another TCP connection of the component (the pair's second connection, or a third party that
    connected to the passive candidate) are appended to a half-received frame. *)
Theorem C02_shared_reassembly_refuted :
  let k1 := {| pend := [0; 10; 11; 12; 13; 14; 15; 16; 17; 18; 19; 20]; script := [KRead 7; KRead 100] |} in
  let k2 := {| pend := [0; 3; 170; 187; 204]; script := [KRead 100] |} in
  exists s1 k1' ,
    recv_unlocked false ctl1 true rst0 k1 small_msg = Some (RWouldBlock, s1, k1', small_msg) /\
    (exists s2 k2' m s3 k3,
       recv_unlocked false ctl1 true s1 k2 small_msg = Some (RSuccess, s2, k2', m) /\
       valid_bytes m = [11; 12; 13; 14; 15; 0; 3; 170; 187; 204] /\
       recv_unlocked false ctl1 true s2 k1' small_msg = Some (RWouldBlock, s3, k3, small_msg) /\ r_fs s3 = 2 + (16 * 256 + 17)) /\
    (exists s2 k2' s3 k3,
       recv_unlocked false ctl1 false s1 k2 small_msg = Some (ROob, s2, k2', small_msg) /\
       recv_unlocked false ctl1 true s2 k1' small_msg = Some (RWouldBlock, s3, k3, small_msg) /\ r_fs s3 = 2 + (16 * 256 + 17)).
Proof. exact shared_reassembly_refuted. Qed.

(* ------------------------------------------------------------------ bytestream-tcp *)

(** After fix 163ebb1: a frame for the application is pending and the caller's remaining buffers -- any layout -- have
    zero total size: the inner loop of component_io_cb leaves with would-block after one call, whatever the fuel; nothing
    was consumed (the frame is still whole and unconsumed in the reassembly buffer), nothing was added for the caller. *)
Theorem C02_bytestream_zero_capacity_would_block : forall ctl gate s k bufs acc fuel,
  Inv s -> whole (unc s) = true -> dropped ctl gate (payload_of (unc s)) = false -> sumlen bufs = 0 ->
  exists s', rel_inner true ctl gate (S fuel) s k bufs acc = Some (s', k, acc, RWouldBlock) /\
    r_buf s' = r_buf s /\ r_fo s' = r_fo s /\ r_fs s' = r_fs s /\ r_cs s' = 0 /\ unc s' = unc s.
Proof. exact zero_capacity_would_block. Qed.

Example C02_bytestream_zero_capacity_regression : forall fuel,
  rel_inner true ctl_none true (S fuel) pending_s no_kern [[]; []] [] = Some (pending_s, no_kern, [], RWouldBlock).
Proof. exact zero_capacity_regression. Qed.
