(** C17 — Stream-based socket layers are independent of how TCP segments the bytes.
    Statements only; every proof is [exact <lemma>] from coq/Stream/*Proofs.v (non-vacuity examples and
    refutation witnesses are closed by [vm_compute]).

    Vocabulary (coq/Stream/StreamBase.v): [run body w cs] delivers the chunks [cs] as successive readable
    events to the layer whose one call of recv_messages is the program [body]; [feed body w s] is one
    readable event delivering [s]; [vis vis_msg] / [vis vis_str] project an event trace to what the layers
    above and below observe (upward messages resp. upward byte stream, downward sends, Fault/livelock);
    [weq] compares final states (liveness + layer state); [clean] = no strict handshake read came up
    short and no known-defective path was taken. *)
From Coq Require Import ZArith List Bool.
From Nice Require Import Stream.StreamBase Stream.StreamProofs
  Stream.TurnTcpModel Stream.TurnTcpProofs Stream.TcpQueueModel Stream.TcpQueueProofs.
Import ListNotations.
Local Open Scope Z_scope.

(** * (4) TURN over TCP, all compatibility modes *)

(** however the stream is cut, the messages delivered upward, a Fault, and the final state are those of
    delivering it in one piece — from the initial state and from every state the layer can be in *)
Theorem C17_seg_independent_turn : forall compat cs,
  let w0 := alive (turn_init compat) in
  weq (fst (run turn_body w0 cs)) (fst (feed turn_body w0 (concat cs))) /\
  vis vis_msg (snd (run turn_body w0 cs)) = vis vis_msg (snd (feed turn_body w0 (concat cs))).
Proof. intros compat cs. exact (turn_seg_independent (turn_init compat) cs (twf_init compat)). Qed.

Theorem C17_seg_independent_turn_any_state : forall s cs, twf s ->
  weq (fst (run turn_body (alive s) cs)) (fst (feed turn_body (alive s) (concat cs))) /\
  vis vis_msg (snd (run turn_body (alive s) cs)) = vis vis_msg (snd (feed turn_body (alive s) (concat cs))).
Proof. exact turn_seg_independent. Qed.

(** the one-step lemma: feed (feed st a) b ~ feed st (a ++ b) *)
Theorem C17_feed_app_turn : forall s a b, twf s ->
  vis vis_msg (snd (feed turn_body (alive s) a) ++ snd (feed turn_body (fst (feed turn_body (alive s) a)) b)) =
  vis vis_msg (snd (feed turn_body (alive s) (a ++ b))).
Proof. exact turn_feed_app. Qed.

(** no buffer index out of range and no spinning, for every stream and chunking in which no decoded frame
    header announces more than the 65536-byte recv_buf holds ... *)
Theorem C17_no_fault_turn_except_oversize : forall compat cs,
  Forall hdr_fits (snd (run turn_body (alive (turn_init compat)) cs)) ->
  ~ In EFault (snd (run turn_body (alive (turn_init compat)) cs)) /\
  ~ In ELive (snd (run turn_body (alive (turn_init compat)) cs)).
Proof. exact turn_no_fault_except_oversize. Qed.

(** ... and that exclusion is needed: a STUN-looking header announcing 65535 bytes makes the layer write past
    recv_buf (unchanged code; reproduced with ASan, see notes/C17.md) *)
Theorem C17_no_fault_turn_refuted : exists compat cs,
  In EFault (snd (run turn_body (alive (turn_init compat)) cs)).
Proof.
  exists RFC5766, [[0; 1; 255; 255] ++ repZ 7 65533].
  vm_compute. auto 10.
Qed.

(** * (5) the TCP send queue *)

(** for every operation sequence and every script of kernel accept counts (0..len per write) and EWOULDBLOCK:
    bytes handed to the kernel ++ bytes still queued = concatenation of the accepted frames, in order
    (so the kernel stream is a prefix of that concatenation and a frame is queued whole or not at all),
    as long as no partial write hits the offset defect characterised by [offbug] *)
Theorem C17_write_atomic_except_offset_bug : forall G ops sc s' tr,
  softs sc = true -> q_run G {| queue := []; script := sc |} ops = (s', tr) ->
  (forall r, In r tr -> no_trigger (snd r)) ->
  kernel_all tr ++ concat (queue s') = accepted_all tr.
Proof. intros G ops sc s' tr S R NT. exact (run_inv G ops {| queue := []; script := sc |} s' tr S R NT). Qed.

(** a frame that was not accepted (send returned 0 or -1) left no byte anywhere *)
Theorem C17_write_refused_whole : forall G s rel bufs s1 e,
  q_step G s (QSend rel bufs) = (s1, e) -> softs (script s) = true -> took e = false ->
  queue s1 = queue s /\ kernel_of e = [] \/ concat bufs = [].
Proof. exact refused_untouched. Qed.

(** the offset defect: buffers [2][10][10], 9 bytes accepted; the kernel finally gets 17 18 19 24..29 and four
    uninitialised bytes (G = 170) instead of 17..29 *)
Theorem C17_write_atomic_refuted : exists G ops sc,
  softs sc = true /\
  let '(s', tr) := q_run G {| queue := []; script := sc |} ops in
  kernel_all tr ++ concat (queue s') <> accepted_all tr.
Proof.
  exists 170, [QSend true [[0; 1]; [2; 3; 4; 5; 6; 7; 8; 9; 10; 11]; [12; 13; 14; 15; 16; 17; 18; 19; 20; 21]]; QDrain],
         [KAcc 9].
  vm_compute. split; [reflexivity | discriminate].
Qed.

(** non-vacuity: the hypotheses of the queue theorem are met by runs with partial writes *)
Example C17_write_atomic_nonvacuous :
  let '(s', tr) := q_run 170 {| queue := []; script := [KAcc 3; KWould; KAcc 1] |}
                     [QSend true [[1; 2]; [3; 4; 5]]; QSend true [[6]]; QWritable; QWritable; QDrain] in
  (forall r, In r tr -> no_trigger (snd r)) /\ kernel_all tr = [1; 2; 3; 4; 5; 6] /\ queue s' = [].
Proof.
  vm_compute. split; [|split; reflexivity].
  intros r H bufs off I.
  repeat (destruct H as [H|H]; [subst r; simpl in I; repeat (destruct I as [I|I]; [try discriminate I | ]); try contradiction|]);
    try contradiction.
  inversion I; subst. reflexivity.
Qed.

Example C17_turn_nonvacuous :
  vis vis_msg (snd (run turn_body (alive (turn_init GOOGLE)) [[0]; [3; 7]; [8; 9; 0; 1]; [5]])) =
  [OMsg [7; 8; 9] (-1); OMsg [5] (-1)].
Proof. vm_compute. reflexivity. Qed.
