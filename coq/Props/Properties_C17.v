(** C17 — Stream-based socket layers are independent of how TCP segments the bytes.
    Statements only; every proof is [exact <lemma>] from coq/Stream/*Proofs.v (examples are closed by [vm_compute]).
    The models follow the repaired code (fix commits 509c336 4b5b4ef a4cf846 bc18d98 b519949 9934485 fcd7bcb and the
    eighth fix: http.c hands out what is left in its ring buffer before reading the base socket again);
    the refutation witnesses of the defects those commits removed are kept below as regression
    examples: the same inputs now give the intended result.

    Vocabulary (coq/Stream/StreamBase.v): [run body w cs] delivers the chunks [cs] as successive readable
    events to the layer whose one call of recv_messages is the program [body]; [feed body w s] is one
    readable event delivering [s]; [vis vis_msg] / [vis vis_str] project an event trace to what the layers
    above and below observe (upward messages resp. upward byte stream, downward sends, Fault/livelock);
    [weq] compares final states (liveness + layer state). *)
From Coq Require Import ZArith List Bool.
From Nice Require Data.FramingModel Data.RecvProofs Data.WakeProofs.
From Nice Require Import Stream.StreamBase Stream.StreamProofs
  Stream.TurnTcpModel Stream.TurnTcpProofs Stream.TcpQueueModel Stream.TcpQueueProofs
  Stream.PsslModel Stream.PsslProofs Stream.Socks5Model Stream.Socks5Proofs Stream.HttpModel Stream.HttpProofs
  Stream.HttpSegProofs.
Import ListNotations.
Local Open Scope Z_scope.

(** * (4) TURN over TCP, all compatibility modes *)

(** however the stream is cut, the messages delivered upward, a Fault, and the final state are those of
    delivering it in one piece — from the initial state and from every state the layer can be in *)
Theorem C17_seg_independent_turn : forall compat cs,
  let w0 := alive (turn_init compat) in
  weq (fst (run turn_body w0 cs)) (fst (feed turn_body w0 (concat cs))) /\
  vis vis_msg (snd (run turn_body w0 cs)) = vis vis_msg (snd (feed turn_body w0 (concat cs))).
Proof. intros compat cs. exact (turn_seg_independent (turn_init compat) cs (twf_init compat)). Qed.

Theorem C17_seg_independent_turn_any_state : forall s cs, twf s ->
  weq (fst (run turn_body (alive s) cs)) (fst (feed turn_body (alive s) (concat cs))) /\
  vis vis_msg (snd (run turn_body (alive s) cs)) = vis vis_msg (snd (feed turn_body (alive s) (concat cs))).
Proof. exact turn_seg_independent. Qed.

(** the one-step lemma: feed (feed st a) b ~ feed st (a ++ b) *)
Theorem C17_feed_app_turn : forall s a b, twf s ->
  vis vis_msg (snd (feed turn_body (alive s) a) ++ snd (feed turn_body (fst (feed turn_body (alive s) a)) b)) =
  vis vis_msg (snd (feed turn_body (alive s) (a ++ b))).
Proof. exact turn_feed_app. Qed.

(** no buffer index out of range and no spinning, for every stream and every chunking: recv_buf (65556 bytes)
    holds the largest frame a header can announce *)
Theorem C17_no_fault_turn : forall compat cs,
  ~ In EFault (snd (run turn_body (alive (turn_init compat)) cs)) /\
  ~ In ELive (snd (run turn_body (alive (turn_init compat)) cs)).
Proof. exact turn_no_fault. Qed.

(** regression (4b5b4ef): the STUN-looking header announcing 65535 bytes that used to write past recv_buf
    is now received whole *)
Example C17_turn_oversize_regression :
  let r := run turn_body (alive (turn_init RFC5766)) [[0; 1; 255; 255] ++ repZ 7 65533; repZ 7 23] in
  negb (existsb (fun e => match e with EFault => true | _ => false end) (snd r)) = true /\
  map (fun o => match o with OMsg m z => lenZ m | _ => -1 end) (vis vis_msg (snd r)) = [65556].
Proof. vm_compute. split; reflexivity. Qed.

(** tunnel transparency in Google mode: whatever message the layer frames on the send side comes out, after any
    segmentation of those bytes, as exactly that message on the receive side *)
Theorem C17_tunnel_transparent_turn_google : forall bufs cs,
  0 < lenZ (concat bufs) <= 65535 -> concat cs = turn_frame GOOGLE bufs ->
  vis vis_msg (snd (run turn_body (alive (turn_init GOOGLE)) cs)) = [OMsg (concat bufs) (-1)].
Proof. exact turn_roundtrip_google. Qed.

(** ... and in the RFC 5766 / draft-9 modes, where the layer adds only padding: a STUN message or ChannelData frame
    whose own length field is consistent ([rfc_consistent]) is delivered whole, with its padding *)
Theorem C17_tunnel_transparent_turn_rfc5766 : forall c bufs cs, is_rfc c = true ->
  rfc_consistent (concat bufs) -> concat cs = turn_frame c bufs ->
  vis vis_msg (snd (run turn_body (alive (turn_init c)) cs)) = [OMsg (turn_frame c bufs) (-1)].
Proof. exact turn_roundtrip_rfc. Qed.

Example C17_turn_nonvacuous :
  vis vis_msg (snd (run turn_body (alive (turn_init GOOGLE)) [[0]; [3; 7]; [8; 9; 0; 1]; [5]])) =
  [OMsg [7; 8; 9] (-1); OMsg [5] (-1)].
Proof. vm_compute. reflexivity. Qed.

(** * (5) the TCP send queue *)

(** for every operation sequence and every script of kernel accept counts (0..len per write) and EWOULDBLOCK:
    bytes handed to the kernel ++ bytes still queued = concatenation of the accepted frames, in order
    (so the kernel stream is a prefix of that concatenation and a frame is queued whole or not at all) *)
Theorem C17_write_atomic : forall G ops sc s' tr,
  softs sc = true -> q_run G {| queue := []; script := sc |} ops = (s', tr) ->
  kernel_all tr ++ concat (queue s') = accepted_all tr.
Proof. intros G ops sc s' tr S R. exact (run_inv G ops {| queue := []; script := sc |} s' tr S R). Qed.

(** a frame that was not accepted (send returned 0 or -1) left no byte anywhere *)
Theorem C17_write_refused_whole : forall G s rel bufs s1 e,
  q_step G s (QSend rel bufs) = (s1, e) -> softs (script s) = true -> took e = false ->
  queue s1 = queue s /\ kernel_of e = [] \/ concat bufs = [].
Proof. exact refused_untouched. Qed.

(** regression (509c336): buffers [2][10][10], 9 bytes accepted — the kernel now gets 0..21 in order *)
Example C17_write_atomic_offset_regression :
  let '(s', tr) := q_run 170 {| queue := []; script := [KAcc 9] |}
      [QSend true [[0; 1]; [2; 3; 4; 5; 6; 7; 8; 9; 10; 11]; [12; 13; 14; 15; 16; 17; 18; 19; 20; 21]]; QDrain] in
  kernel_all tr = [0; 1; 2; 3; 4; 5; 6; 7; 8; 9; 10; 11; 12; 13; 14; 15; 16; 17; 18; 19; 20; 21] /\ queue s' = [].
Proof. vm_compute. split; reflexivity. Qed.

Example C17_write_atomic_nonvacuous :
  let '(s', tr) := q_run 170 {| queue := []; script := [KAcc 3; KWould; KAcc 1] |}
                     [QSend true [[1; 2]; [3; 4; 5]]; QSend true [[6]]; QWritable; QWritable; QDrain] in
  kernel_all tr = [1; 2; 3; 4; 5; 6] /\ queue s' = [].
Proof. vm_compute. split; reflexivity. Qed.

(** * (3) pseudo-SSL *)

(** segmentation independence for every stream and every chunking (the server hello is collected across reads) *)
Theorem C17_seg_independent_pssl : forall compat cs,
  let w0 := alive (pssl_init compat) in
  weq (fst (run pssl_body w0 cs)) (fst (feed pssl_body w0 (concat cs))) /\
  vis vis_str (snd (run pssl_body w0 cs)) = vis vis_str (snd (feed pssl_body w0 (concat cs))).
Proof. intros compat cs. apply pssl_seg_independent. apply pinv_init. Qed.

(** regression (fcd7bcb): the Google server hello cut after 10 bytes no longer kills the connection *)
Example C17_pssl_split_hello_regression :
  vis vis_str (snd (run pssl_body (alive (pssl_init PS_GOOGLE)) [takeZ 10 SSL_SERVER_GOOGLE; dropZ 10 SSL_SERVER_GOOGLE; [1; 2]])) =
  [OByte 1; OByte 2].
Proof. vm_compute. reflexivity. Qed.

Theorem C17_tunnel_transparent_pssl : forall s cs rel bufs, p_hs s = true -> p_base s = true ->
  fst (run pssl_body (alive s) cs) = alive s /\
  vis vis_str (snd (run pssl_body (alive s) cs)) = map OByte (concat cs) /\
  pssl_send s rel bufs = (s, [Dn (concat bufs); Snd 1]).
Proof.
  intros s cs rel bufs H B. destruct (pssl_tunnel_transparent s cs H B). repeat split; auto.
  exact (pssl_send_transparent s rel bufs H B).
Qed.

Theorem C17_no_fault_pssl : forall compat cs,
  ~ In EFault (snd (run pssl_body (alive (pssl_init compat)) cs)) /\
  ~ In ELive (snd (run pssl_body (alive (pssl_init compat)) cs)).
Proof. intros compat cs. apply pssl_no_fault. apply pinv_init. Qed.

Example C17_pssl_nonvacuous :
  vis vis_str (snd (run pssl_body (alive (pssl_init PS_GOOGLE)) [SSL_SERVER_GOOGLE ++ [7]; [8; 9]])) =
  [OByte 7; OByte 8; OByte 9].
Proof. vm_compute. reflexivity. Qed.

(** * (2) SOCKS5 *)

(** segmentation independence for every stream and every chunking (each reply is collected across reads) *)
Theorem C17_seg_independent_socks5 : forall user pass addr cs,
  let w0 := alive (socks_init user pass addr) in
  weq (fst (run socks_body w0 cs)) (fst (feed socks_body w0 (concat cs))) /\
  vis vis_str (snd (run socks_body w0 cs)) = vis vis_str (snd (feed socks_body w0 (concat cs))).
Proof. intros user pass addr cs. apply socks_seg_independent. apply sinv_init. Qed.

(** regression (9934485): the connect reply split between its 4-byte head and the bound address opens the
    tunnel, and a partially received bound address no longer leaks into the tunnel *)
Example C17_socks5_split_reply_regression :
  vis vis_str (snd (run socks_body (alive (socks_init None None [1; 2; 3; 4; 31; 144]))
                        [[5; 0]; [5; 0; 0; 1]; [127; 0; 0; 1; 31; 144]; [9; 9]])) =
  [ODn [5; 1; 0; 1; 1; 2; 3; 4; 31; 144]; OByte 9; OByte 9] /\
  vis vis_str (snd (run socks_body (alive (socks_init None None [1; 2; 3; 4; 31; 144]))
                        [[5; 0]; [5; 0; 0; 1; 127; 0]; [0; 1; 31; 144; 9; 9]])) =
  [ODn [5; 1; 0; 1; 1; 2; 3; 4; 31; 144]; OByte 9; OByte 9].
Proof. vm_compute. split; reflexivity. Qed.

Theorem C17_tunnel_transparent_socks5 : forall s cs rel bufs, s_state s = SK_CONNECTED -> s_base s = true ->
  fst (run socks_body (alive s) cs) = alive s /\
  vis vis_str (snd (run socks_body (alive s) cs)) = map OByte (concat cs) /\
  socks_send s rel bufs = (s, [Dn (concat bufs); Snd 1]).
Proof.
  intros s cs rel bufs H B. destruct (socks_tunnel_transparent s cs H B). repeat split; auto.
  exact (socks_send_transparent s rel bufs H B).
Qed.

Theorem C17_no_fault_socks5 : forall user pass addr cs,
  ~ In EFault (snd (run socks_body (alive (socks_init user pass addr)) cs)) /\
  ~ In ELive (snd (run socks_body (alive (socks_init user pass addr)) cs)).
Proof. intros user pass addr cs. apply socks_no_fault. apply sinv_init. Qed.

Example C17_socks5_nonvacuous :
  let cs := [[5; 2]; [1; 0]; [5; 0; 0; 1; 127; 0; 0; 1; 31; 144; 9]; [8; 7]] in
  let r := run socks_body (alive (socks_init (Some [117]) (Some [112]) [1; 2; 3; 4; 31; 144])) cs in
  vis vis_str (snd r) = [ODn [1; 1; 117; 1; 112]; ODn [5; 1; 0; 1; 1; 2; 3; 4; 31; 144]; OByte 9; OByte 8; OByte 7].
Proof. vm_compute. reflexivity. Qed.

(** * (1) HTTP CONNECT *)

Definition HTTP_OK : list Z := [72; 84; 84; 80; 47; 49; 46; 48; 32; 50; 48; 48; 32; 79; 75; 13; 10; 13; 10].
Definition HTTP_CL_HEAD : list Z := [72; 84; 84; 80; 47; 49; 46; 48; 32; 50; 48; 48; 32; 79; 75; 13; 10; 67; 111; 110; 116; 101; 110; 116; 45; 76; 101; 110; 103; 116; 104; 58; 32; 51].
Definition HTTP_REPLY_CL : list Z := [72; 84; 84; 80; 47; 49; 46; 49; 32; 50; 48; 48; 32; 79; 75; 13; 10; 86; 105; 97; 58; 32; 120; 13; 10; 67; 111; 110; 116; 101; 110; 116; 45; 76; 101; 110; 103; 116; 104; 58; 32; 51; 13; 10; 13; 10; 97; 98; 99].
Definition HTTP_CL_TAIL : list Z := [13; 10; 13; 10; 97; 98; 99].

(** [http_spec q T] is a function of the byte stream alone (the reply parser run over the whole stream as a
    list; [q] = sends queued before the handshake): what is seen upward and downward, and whether the socket
    is alive.  A run is a list of readable events [(cap, chunk)]: the chunk TCP delivered, and the size of the
    caller's receive buffer during that event ([caps_ok]: every size is at least 1); within an event the
    layer is called until it would block (the agent's read loop).

    EVERY chunking of a stream, with ANY caller buffer sizes, yields exactly [http_spec] — no side condition:
    hence any two deliveries of the same stream agree, whatever their chunkings and buffer sizes. *)
Theorem C17_seg_independent_http : forall G q cs, caps_ok cs ->
  vis vis_str (snd (http_run G (alive (http_start q)) cs)) = fst (http_spec q (stream_of cs)) /\
  dead (fst (http_run G (alive (http_start q)) cs)) = snd (http_spec q (stream_of cs)).
Proof. exact http_seg_independent. Qed.

Corollary C17_seg_independent_http_two_chunkings : forall G q cs cs', stream_of cs = stream_of cs' ->
  caps_ok cs -> caps_ok cs' ->
  vis vis_str (snd (http_run G (alive (http_start q)) cs)) =
  vis vis_str (snd (http_run G (alive (http_start q)) cs')) /\
  dead (fst (http_run G (alive (http_start q)) cs)) = dead (fst (http_run G (alive (http_start q)) cs')).
Proof.
  intros G q cs cs' E C C'. destruct (http_seg_independent G q cs C) as [A B].
  destruct (http_seg_independent G q cs' C') as [A' B']. rewrite A, B, A', B', E. split; reflexivity.
Qed.

(** regression (eighth fix): 10 bytes follow the reply in the same read, the caller's buffer holds 4 (what
    udp-turn-over-tcp on top of this layer asks for): all 10 come out, in order, over three calls; then the
    next chunk.  Before the fix bytes 5..10 stayed in the ring buffer for good. *)
Example C17_http_small_buffer_regression :
  vis vis_str (snd (http_run 190 (alive http_init) [(4, HTTP_OK ++ [1; 2; 3; 4; 5; 6; 7; 8; 9; 10]); (4, [11; 12])])) =
  map OByte [1; 2; 3; 4; 5; 6; 7; 8; 9; 10; 11; 12].
Proof. vm_compute. reflexivity. Qed.

(** regressions (a4cf846, b519949, bc18d98): bytes following the reply in the same read are delivered; a
    reply cut right after a Content-Length digit parses; a header line longer than the free space (ring
    grown while wrapped) gives the same result whatever the uninitialised heap bytes are *)
Example C17_http_trailing_regression :
  vis vis_str (snd (http_run 190 (alive http_init) [(UPCAP, HTTP_OK ++ [1; 2])])) = [OByte 1; OByte 2].
Proof. vm_compute. reflexivity. Qed.
Example C17_http_digit_regression :
  vis vis_str (snd (http_run 190 (alive http_init) [(UPCAP, HTTP_CL_HEAD); (UPCAP, HTTP_CL_TAIL); (UPCAP, [1; 2])])) = [OByte 1; OByte 2].
Proof. vm_compute. reflexivity. Qed.
Example C17_http_grow_wrapped_regression :
  let cs := [(UPCAP, [72; 84; 84; 80; 47; 49; 46; 48; 32; 50; 48; 48; 32; 79; 75; 13; 10; 88; 45; 76; 111; 110; 103; 58; 32] ++ repZ 113 1100 ++ [13; 10; 13; 10]); (UPCAP, [1; 2])] in
  vis vis_str (snd (http_run 190 (alive http_init) cs)) = [OByte 1; OByte 2] /\
  vis vis_str (snd (http_run 13 (alive http_init) cs)) = [OByte 1; OByte 2].
Proof. vm_compute. split; reflexivity. Qed.

(** the specification is the intended meaning: reply, body skipped, the rest is tunnelled *)
Example C17_http_spec_example :
  http_spec [[9]] (HTTP_REPLY_CL ++ [1; 2]) = ([ODn [9]; OByte 1; OByte 2], 0) /\
  http_spec [] (HTTP_OK ++ [7]) = ([OByte 7], 0) /\
  snd (http_spec [] [72; 84; 84; 80; 47; 49; 46; 49; 32; 52; 48; 55; 32; 120; 13; 10]) = 1.
Proof. vm_compute. repeat split; reflexivity. Qed.

Example C17_http_seg_nonvacuous :
  let cs := [(16, takeZ 5 HTTP_REPLY_CL); (1, takeZ 20 (dropZ 5 HTTP_REPLY_CL)); (2, dropZ 25 HTTP_REPLY_CL ++ [1; 2; 3]); (UPCAP, [4])] in
  vis vis_str (snd (http_run 190 (alive (http_start [[9]])) cs)) = [ODn [9]; OByte 1; OByte 2; OByte 3; OByte 4].
Proof. vm_compute. reflexivity. Qed.

Theorem C17_tunnel_transparent_http : forall G s cs rel bufs, h_state s = HT_CONNECTED -> hinv s -> h_fill s = 0 ->
  caps_ok cs ->
  fst (http_run G (alive s) cs) = alive s /\
  vis vis_str (snd (http_run G (alive s) cs)) = map OByte (stream_of cs) /\
  http_send s rel bufs = (s, [Dn (concat bufs); Snd 1]).
Proof.
  intros G s cs rel bufs H I F C. destruct (http_tunnel_transparent G s H I F cs C). repeat split; auto.
  destruct I as (_ & _ & _ & _ & B). exact (http_send_transparent s rel bufs H (B H)).
Qed.

(** no byte stream, however cut and whatever the caller's buffer sizes, makes the HTTP layer index outside its
    ring buffer, fail one of its assertions, run a parser loop out of its bound, or spin without progress
    (in particular every readable event ends: the read-until-would-block loop terminates) *)
Theorem C17_no_fault_http : forall G cs, caps_ok cs ->
  ~ In EFault (snd (http_run G (alive http_init) cs)) /\
  ~ In ELive (snd (http_run G (alive http_init) cs)).
Proof. exact http_no_fault. Qed.

(** ICE-TCP frames (RFC 4571) read through the component's GSource: after agent_consume_next_rfc4571_chunk has handed out a frame,
    rfc4571_wakeup_needed is set exactly when a complete next frame is already in the reassembly buffer (so a frame that arrived in the same
    read as its predecessor, even one ending on the last buffered byte, wakes the reader), and always after a partial hand-out in
    byte-stream mode.  Model: Data/FramingModel.v (next_frame / consume), statements checked against agent.c on every run. *)
Theorem C17_rfc4571_wakeup_iff_whole_frame_buffered : forall s s',
  Nice.Data.RecvProofs.bytes_ok (Nice.Data.FramingModel.r_buf s) -> Nice.Data.FramingModel.next_frame s = Some s' ->
  Nice.Data.FramingModel.r_wake s' = negb (Nice.Data.FramingModel.missing s').
Proof. exact Nice.Data.WakeProofs.next_frame_wake. Qed.

Theorem C17_rfc4571_consume_wakes_reader : forall bs s tgt s' r,
  Nice.Data.RecvProofs.bytes_ok (Nice.Data.FramingModel.r_buf s) -> Nice.Data.FramingModel.consume bs s tgt = Some (s', r) ->
  Nice.Data.FramingModel.r_wake s' = negb (Nice.Data.FramingModel.missing s') \/
  (Nice.Data.FramingModel.r_wake s' = true /\ Nice.Data.FramingModel.r_fs s' = Nice.Data.FramingModel.r_fs s /\
   Nice.Data.FramingModel.r_fo s' = Nice.Data.FramingModel.r_fo s /\ Nice.Data.FramingModel.r_buf s' = Nice.Data.FramingModel.r_buf s).
Proof. exact Nice.Data.WakeProofs.consume_wake. Qed.

(** no stall: whatever one call of the TCP branch of agent_recv_message_unlocked leaves behind (frame handed out, ICE control consumed, would-block, error),
    a complete frame in the reassembly buffer comes with the wake flag set - for every state, kernel script, pending bytes and destination message *)
Theorem C17_rfc4571_complete_frame_never_left_without_wakeup : forall bs ctl gate s k m st s' k' m',
  Nice.Data.RecvProofs.bytes_ok (Nice.Data.FramingModel.r_buf s) -> Nice.Data.RecvProofs.bytes_ok (Nice.Data.FramingModel.pend k) ->
  Nice.Data.FramingModel.recv_unlocked bs ctl gate s k m = Some (st, s', k', m') ->
  Nice.Data.FramingModel.missing s' = false -> Nice.Data.FramingModel.r_wake s' = true.
Proof. exact Nice.Data.WakeProofs.recv_unlocked_no_stall. Qed.
