(** C09 — Pseudo-TCP always makes progress.  Proved part: the clock interface names a finite deadline
    at most 4 s away while the socket is not closed (1 ms in TIME-WAIT).  The liveness clauses are not
    theorems (DESIGN.md): they are exercised by the correspondence runs as counterexample search only. *)
From Coq Require Import ZArith List Bool.
From Nice Require Import Base.Bytes Ptcp.PtcpModel Ptcp.PtcpProofs.
Local Open Scope Z_scope.

Theorem C09_finite_deadline_while_open_partial : forall timeout now s ev,
  shutdown s = SD_NONE -> state s <> CLOSED -> 0 <= now -> now + 4000 < M32 ->
  exists t, get_next_clock timeout now s ev = Ok (Some t, s, ev) /\ t <= now + 4000.
Proof. exact get_next_clock_deadline. Qed.

Theorem C09_time_wait_deadline_partial : forall timeout now s ev,
  shutdown s = SD_NONE -> state s = TIME_WAIT -> support_fin_ack s = true -> 0 <= now -> now + 1 < M32 ->
  exists t, get_next_clock timeout now s ev = Ok (Some t, s, ev) /\ t <= now + 1.
Proof. exact get_next_clock_time_wait. Qed.
