(** C09 — Pseudo-TCP always makes progress: completes, or fails with an error, never hangs.
    Proved on the bit-exact model (coq/Ptcp/PtcpModel.v), all statements partial-correctness w.r.t. [Fault] (a failed g_assert
    of the implementation; C10's subject):
      1. the clock interface names a finite deadline while the socket is open (4 s; 1 ms in TIME-WAIT);
      2. TIMER ARMED, over every sequence of API calls / received byte strings / clock values from every configuration:
         unacknowledged sequence numbers in flight => the retransmission timer is armed, the clock interface names its expiry,
         and [notify_clock] acts on it (re-send of the head segment, count + 1, re-arm; or error closure); dually a closed peer
         window is probed every rx_rto (doubling) and -- the recorded finding -- aborted 15 s after the last received segment;
         a pending delayed ACK is flushed after ack_delay;
      3. SILENCE => ERROR: from every reachable state with data in flight (this includes SYN-SENT after connect), if nothing is
         ever received and the owner follows the clock interface, then after at most [silence_rounds] = 9216 rounds (explicit
         decreasing measure [mu]; the concrete runs below need 30 and 152) the socket is CLOSED and the Closed callback has
         reported a non-zero error;
      4. BACK-OFF SHAPE of such a run (open peer window): after k time-out retransmissions rx_rto = min (60000, rto0 * 2^k) once
         established, = 1000 while connecting; each of them re-sends the head segment of the send queue;
      5. WINDOW UPDATE: a reader that drains a closed receive window by min (rbuf/2, mss) makes [recv] emit at once a pure ACK
         advertising the new window when nothing of the socket's own is waiting to be sent; refuted in general: Nagle can hold
         back the only segment that would carry the update ([C09_window_update_withheld_by_nagle_refuted], same on pseudotcp.c).
    NOT proved: completion (all data readable, both CLOSED) within a bound after the network heals; that the head of the send
    queue is the segment at snd_una (a data-path invariant, C08); absence of [Fault] along the runs.
    No-wrap hypotheses are explicit: [nowrap s H] / [H + 120000 < 2^31]; clock value 0 is excluded (0 means "timer off"). *)
From Coq Require Import ZArith List Bool.
From Nice Require Ptcp.PtcpModel Ptcp.PtcpHoare Ptcp.ProcessPhases Ptcp.FinAckProofs.
From Nice Require Import Base.Bytes Ptcp.PtcpModel Ptcp.PtcpProofs Ptcp.TimerInvProofs Ptcp.TimerReachProofs Ptcp.SendSpecs
  Ptcp.SilenceArith Ptcp.SilenceProofs Ptcp.ClockRound Ptcp.SilenceRun Ptcp.BackoffProofs Ptcp.C09Theorems Ptcp.WindowUpdateProofs Ptcp.C09Examples.
Import ListNotations.
Local Open Scope Z_scope.

Theorem C09_finite_deadline_while_open_partial : forall timeout now s ev,
  shutdown s = SD_NONE -> state s <> CLOSED -> 0 <= now -> now + 4000 < M32 ->
  exists t, get_next_clock timeout now s ev = Ok (Some t, s, ev) /\ t <= now + 4000.
Proof. exact get_next_clock_deadline. Qed.

Theorem C09_time_wait_deadline_partial : forall timeout now s ev,
  shutdown s = SD_NONE -> state s = TIME_WAIT -> support_fin_ack s = true -> 0 <= now -> now + 1 < M32 ->
  exists t, get_next_clock timeout now s ev = Ok (Some t, s, ev) /\ t <= now + 1.
Proof. exact get_next_clock_time_wait. Qed.

(** ---- 2. the timer invariant over all operation sequences ----
    [reach c now s]: [s] is reached from the fresh socket of configuration [c] (conversation, Nagle, ack delay, FIN-ACK and window-scale
    support) by some sequence of connect / send / recv / notify_packet (ANY bytes) / notify_clock / get_next_clock / notify_mtu / shutdown /
    close / buffer-size / write-limit operations at non-decreasing clock values in (0, 2^32), the last at [now].
    [TI ad now s] := (snd_una <> snd_nxt -> rto_base <> 0) /\ 1000 <= rx_rto <= 60000 /\ rto_base, lastsend, lastrecv, t_ack in [0, now] /\ ack_delay = ad *)
Theorem C09_timer_invariant : forall c now s, reach c now s -> TI (c_ack_delay c) now s.
Proof. exact reach_TI. Qed.
Print Assumptions C09_timer_invariant.

(* the same for operation lists run as a program *)
Theorem C09_operation_sequences_are_reachable : forall c l t0 s s' evs,
  reach c t0 s -> clock_mono t0 l -> run_ops l s = Some (s', evs) -> reach c (last_time t0 l) s'.
Proof. exact run_ops_reach. Qed.

Theorem C09_timer_armed : forall c now s, reach c now s -> snd_una s <> snd_nxt s -> rto_base s <> 0.
Proof. exact timer_armed. Qed.
Print Assumptions C09_timer_armed.

(* ... the clock interface names the expiry of every armed timer ... *)
Theorem C09_armed_timer_is_named : forall c t0 s now H ev,
  reach c t0 s -> 0 <= c_ack_delay c <= 60000 -> t0 <= now -> 0 < now <= H -> nowrap s H ->
  snd_una s <> snd_nxt s -> state s <> CLOSED -> (support_fin_ack s = true -> state s <> TIME_WAIT) -> shutdown s = SD_NONE ->
  rto_base s <> 0 /\
  exists t, get_next_clock 0 now s ev = Ok (Some t, s, ev) /\ t <= now + 4000 /\ t <= rto_base s + rx_rto s /\
            (snd_wnd s = 0 -> t <= lastsend s + rx_rto s) /\ (t_ack s <> 0 -> t <= t_ack s + ack_delay s).
Proof. exact armed_and_named. Qed.
Print Assumptions C09_armed_timer_is_named.

(* ... and notify_clock acts at rto_base + rx_rto ([hdx] / [hdseq]: transmission count / sequence number of the head of the send queue;
   [closed_err s' ev'] := state s' = CLOSED /\ exists e <> 0, In (EvClosed e) ev';  [plain_open]: not CLOSED, and with FIN-ACK support
   neither TIME-WAIT nor LAST-ACK, whose preludes in notify_clock are covered by the silence theorem) *)
Theorem C09_armed_timer_fires : forall c t0 s now H s' ev',
  reach c t0 s -> 0 <= c_ack_delay c <= 60000 -> t0 <= now -> 0 < now <= H -> nowrap s H ->
  snd_una s <> snd_nxt s -> plain_open s -> rto_base s + rx_rto s <= now ->
  notify_clock now s [] = Ok (tt, s', ev') ->
  closed_err s' ev' \/
  (rto_base s' = now /\ hdx (slist s) < xlimit s /\ hdx (slist s') = (hdx (slist s) + 1) mod 256 /\
   hdseq (slist s') = hdseq (slist s) /\
   (24 <= wr_limit s -> exists p, In (EvPacket p) ev' /\ pkt_has_seq (conv s) (hdseq (slist s)) p)).
Proof. exact armed_timer_fires. Qed.
Print Assumptions C09_armed_timer_fires.

(* zero window: probe at lastsend + rx_rto, time-out doubled; 15 s after the last received segment the socket aborts instead
   (known finding zero-window-probe-gives-up-after-15s) *)
Theorem C09_closed_window_probed_or_aborted_after_15s : forall c t0 s now H s' ev',
  reach c t0 s -> 0 <= c_ack_delay c <= 60000 -> t0 <= now -> 0 < now <= H -> nowrap s H ->
  plain_open s -> (rto_base s = 0 \/ now < rto_base s + rx_rto s) ->
  snd_wnd s = 0 -> lastsend s + rx_rto s <= now ->
  notify_clock now s [] = Ok (tt, s', ev') ->
  (15000 <= now - lastrecv s /\ closed_err s' ev' /\ In (EvClosed ECONNABORTED) ev') \/
  (now - lastrecv s < 15000 /\ state s' = state s /\ rx_rto s' = Z.min 60000 (2 * rx_rto s) /\
   (24 <= wr_limit s -> exists p, In (EvPacket p) ev')).
Proof. exact closed_window_probed. Qed.
Print Assumptions C09_closed_window_probed_or_aborted_after_15s.

Theorem C09_pending_delayed_ack_flushed : forall c t0 s now H s' ev',
  reach c t0 s -> 0 <= c_ack_delay c <= 60000 -> t0 <= now -> 0 < now <= H -> nowrap s H ->
  plain_open s -> t_ack s <> 0 -> t_ack s + ack_delay s <= now ->
  notify_clock now s [] = Ok (tt, s', ev') ->
  closed_err s' ev' \/ (t_ack s' = 0 /\ (24 <= wr_limit s -> exists p, In (EvPacket p) ev')).
Proof. exact pending_ack_flushed. Qed.
Print Assumptions C09_pending_delayed_ack_flushed.

(* the no-wrap hypothesis holds for every horizon below 2^31 - 120 s *)
Theorem C09_nowrap_below_half : forall c t0 s H, reach c t0 s -> H + 120000 < HALF -> nowrap s H.
Proof. exact nowrap_below_half. Qed.

(** ---- 3. silence => error ----
    [silent_run H s now n s' now' evs]: n rounds of { get_next_clock 0 = Some t ; notify_clock at any now'' with now <= now'', t <= now'' <= H },
    nothing received; [evs] all events.  [G s now H]: not CLOSED, not TIME-WAIT, shutdown = SD_NONE, rto_base <> 0, time-outs in range,
    time stamps in the past and no wrap up to H.  [mu] is the decreasing measure. *)
Theorem C09_silent_round_decreases_measure : forall H s now n s' now' evs,
  silent_run H s now n s' now' evs -> G s now H ->
  closed_err s' evs \/ (G s' now' H /\ mu s' now' + Z.of_nat n <= mu s now).
Proof. exact silent_run_measure. Qed.
Print Assumptions C09_silent_round_decreases_measure.

Theorem C09_measure_bounded : forall s now H, G s now H -> 0 <= mu s now <= 9215.
Proof. exact mu_bounds. Qed.

Theorem C09_silence_gives_error : forall c t0 s now H n s' now' evs,
  reach c t0 s -> 0 <= c_ack_delay c <= 60000 -> t0 <= now -> 0 < now <= H -> nowrap s H ->
  snd_una s <> snd_nxt s -> state s <> CLOSED -> state s <> TIME_WAIT -> shutdown s = SD_NONE ->
  silent_run H s now n s' now' evs -> silence_rounds <= Z.of_nat n ->
  state s' = CLOSED /\ exists e, e <> 0 /\ In (EvClosed e) evs.
Proof. exact silence_error_reachable. Qed.
Print Assumptions C09_silence_gives_error.

(* the same from any state with an armed timer, reachable or not *)
Theorem C09_silence_gives_error_from_armed_state : forall H s now n s' now' evs,
  G s now H -> silent_run H s now n s' now' evs -> silence_rounds <= Z.of_nat n -> closed_err s' evs.
Proof. exact silence_gives_error. Qed.
Print Assumptions C09_silence_gives_error_from_armed_state.

Theorem C09_open_silent_runs_are_short : forall H s now n s' now' evs,
  G s now H -> silent_run H s now n s' now' evs -> state s' <> CLOSED -> Z.of_nat n < silence_rounds.
Proof. exact silent_run_open_bounded. Qed.

(** ---- 4. back-off shape ---- ([silent_run_k]: a silent run counting the rounds in which rto_base + rx_rto was reached) *)
Theorem C09_backoff_shape : forall c t0 s now H k s' now' evs,
  reach c t0 s -> 0 <= c_ack_delay c <= 60000 -> t0 <= now -> 0 < now <= H -> nowrap s H ->
  snd_una s <> snd_nxt s -> plain_open s -> state s <> TIME_WAIT -> shutdown s = SD_NONE -> snd_wnd s <> 0 ->
  silent_run_k H s now k s' now' evs -> state s' <> CLOSED ->
  rx_rto s' = backoff (rto_cap s) (rx_rto s) k /\
  hdseq (slist s') = hdseq (slist s) /\
  (24 <= wr_limit s -> has_packets (conv s) (hdseq (slist s)) k evs).
Proof. exact backoff_reachable. Qed.
Print Assumptions C09_backoff_shape.

Theorem C09_backoff_established : forall r k, 1000 <= r <= 60000 -> backoff 60000 r k = Z.min 60000 (r * 2 ^ Z.of_nat k).
Proof. exact backoff_established. Qed.
Theorem C09_backoff_connecting : forall r k, 1000 <= r -> backoff 1000 r (S k) = 1000.
Proof. exact backoff_connecting. Qed.

(** ---- 5. window update ---- *)
Theorem C09_window_update_sent_partial : forall n now s,
  ((support_fin_ack s = true /\ shutdown_reads s = false) \/ (support_fin_ack s = false /\ state s = ESTABLISHED)) ->
  0 < n -> rcv_wnd s = 0 -> 0 < rb_n (rbuf s) ->
  let got := Z.min n (rb_n (rbuf s)) in
  let after := rb_cap (rbuf s) - (rb_n (rbuf s) - got) in
  0 <= after < 18446744073709551616 -> Z.min (rbuf_len s / 2) (mss s) <= after ->
  0 <= mss s -> sbuf_n s <= w32 (snd_nxt s - snd_una s) -> 24 <= wr_limit s ->
  forall r s' ev', recv n now s [] = Ok (r, s', ev') ->
    fst r = got /\ rcv_wnd s' = after /\
    exists p, ev' = [EvPacket p] /\ pkt_len p = 24 /\
      pkt_wnd p = (Z.shiftr after (rwnd_scale s)) mod 65536 /\ pkt_ack p = w32 (rcv_nxt s).
Proof. exact window_update_sent_elim. Qed.
Print Assumptions C09_window_update_sent_partial.

(* full statement (FALSE on the model and on pseudotcp.c): "whenever recv re-opens a closed window it emits a packet".
   Witness: B with Nagle, 100 bytes in flight and 10 bytes held back; the read re-opens 0 -> 1024 and emits no event. *)
Theorem C09_window_update_withheld_by_nagle_refuted : wu_scenario true = (3, 0, 110, 100, 1024, 0%nat).
Proof. exact window_update_withheld_by_nagle. Qed.

(** ---- the hypotheses are met by concrete, non-trivial reachable states (evaluated with vm_compute) ---- *)
(* connecting: [ex_s1] = fresh socket after connect at t = 1000 ms; it is reachable, in SYN-SENT with the connect segment in flight,
   and satisfies G (so every hypothesis of C09_silence_gives_error / C09_armed_timer_is_named holds with now = 1000, H = 40000) *)
Example C09_example_connecting_state :
  reach ex_cfg 1000 ex_s1 /\ G ex_s1 1000 40000 /\
  state ex_s1 = SYN_SENT /\ snd_una ex_s1 = 0 /\ snd_nxt ex_s1 = 7 /\ rto_base ex_s1 = 1000 /\ rx_rto ex_s1 = 1000 /\
  shutdown ex_s1 = SD_NONE /\ snd_wnd ex_s1 = 7 /\ t_ack ex_s1 = 0.
Proof. exact (conj ex_s1_reach (conj ex_s1_G ex_s1_facts)). Qed.

(* its silent run under the ideal owner: 30 rounds, closed with ETIMEDOUT at t = 31000 ms (bound of the theorem: 9216 rounds) *)
Example C09_example_connecting_run :
  exists s' evs, ideal_run 30 ex_s1 1000 = Some (s', 31000, evs) /\ state s' = CLOSED /\ In (EvClosed ETIMEDOUT) evs.
Proof. exact ex_run1_silent. Qed.
Example C09_example_ideal_runs_are_silent_runs : forall H n s now s' now' evs,
  ideal_run n s now = Some (s', now', evs) -> now' <= H -> silent_run H s now n s' now' evs.
Proof. exact ideal_run_sound. Qed.

(* established: [ex_s2] = A after connect, the peer's connect segment, and a write of 500 bytes; reachable, ESTABLISHED, 500 bytes
   in flight, G holds; the silent run closes with ETIMEDOUT after 152 rounds at t = 604030 ms; after 12 rounds 5 retransmissions have
   happened and rx_rto = 32000 = backoff 60000 1000 5 *)
Example C09_example_established_state :
  reach ex_cfg 1030 ex_s2 /\ G ex_s2 1030 1000000 /\
  state ex_s2 = ESTABLISHED /\ snd_una ex_s2 = 7 /\ snd_nxt ex_s2 = 507 /\ rto_base ex_s2 = 1030 /\ rx_rto ex_s2 = 1000 /\
  shutdown ex_s2 = SD_NONE /\ snd_wnd ex_s2 = 61440 /\ hdx (slist ex_s2) = 1 /\ hdseq (slist ex_s2) = 7 /\ wr_limit ex_s2 = 65535.
Proof. exact (conj ex_s2_reach (conj ex_s2_G ex_s2_facts)). Qed.
Example C09_example_established_run :
  exists s' evs, ideal_run 152 ex_s2 1030 = Some (s', 604030, evs) /\ state s' = CLOSED /\ In (EvClosed ETIMEDOUT) evs.
Proof. exact ex_run2_silent. Qed.
Example C09_example_backoff :   (* ex_run2_12 := ideal_run 12 ex_s2 1030 *)
  match ex_run2_12 with
  | Some (s', now', evs) => st_num (state s') = 3 /\ now' = 44030 /\ rx_rto s' = backoff 60000 1000 5 /\ rx_rto s' = 32000 /\
                            hdx (slist s') = 6 /\ length (ex_packets evs) = 5%nat
  | None => False
  end.
Proof. exact ex_run2_12_result. Qed.

(** fix 6cefc93 (process()): the segment that completes the stream up to the peer's FIN is acknowledged at once whatever the delayed-ACK setting -
    the flag handed to attempt_send is sfImmediateAck for every socket state, receive buffer content and out-of-order list.  Before the fix a
    data-bearing segment got sfDelayedAck; a socket in FIN-WAIT-2 then left TIME-WAIT (1 ms) before the ACK was due and the peer, stuck in CLOSING,
    was reset a minute later (witness: corpus case hK9 of props/ptcp_common.py). *)
Theorem C09_fin_completing_segment_acked_at_once : forall seg s seq1 data1 ev,
  Nice.Ptcp.PtcpModel.g_seq seg = Nice.Ptcp.PtcpModel.rcv_nxt s ->
  Nice.Ptcp.PtcpHoare.wp (Nice.Ptcp.ProcessPhases.data_phase seg true s seq1 data1) s ev
    (fun r _ _ => fst r = Nice.Ptcp.PtcpModel.sfImmediateAck).
Proof. exact Nice.Ptcp.FinAckProofs.data_phase_fin_acked_at_once. Qed.
