(** C16 — TURN relaying is transparent: payload and peer address survive wrap/unwrap.
    Only statements; every proof is [exact <lemma>] from coq/Turn/*Proofs.v.
    Model of socket/udp-turn.c: Turn/TurnModel.v (tied to the code by differential execution on every run).
    Relay specification written from RFC 5766 / draft-08 / MS-TURN: Turn/Relay.v. *)
From Coq Require Import ZArith List Bool.
From Nice Require Import Timer.TimerModel.
From Nice Require Import Turn.TurnModel Turn.Relay Turn.TurnBytes Turn.WrapProofs Turn.FaultProofs Turn.UnwrapProofs Turn.QueueProofs.
Import ListNotations.
Local Open Scope Z_scope.

(** ** Outgoing: what the socket emits decodes at the relay to exactly (peer, payload).
    For every payload up to 65000 bytes, IPv4/IPv6 peer ([wf_addr]: 4 or 16 address bytes), every
    compatibility mode, with a channel bound for the peer ([find_binding] succeeds) or not.
    [relay_of s] is the relay holding the bindings the client believes to hold ([chan_table_ok]).
    Excluded, each refuted below on the unchanged code's model:
      - GOOGLE/MSN Send request with a payload length not divisible by 4 (the DATA length is written aligned),
      - GOOGLE/MSN Send request while 200 earlier requests are unanswered (payload leaves un-relayed);
    raw data on a locked GOOGLE/MSN/OC2007 channel must not itself be a TURN message of that dialect. *)
Theorem C16_wrap_except_padded_length_and_saved_ids : forall s peer p,
  wf_addr peer -> blen p <= 65000 ->
  blen (c_user (cf s)) <= 256 /\ blen (ms_realm s) <= 128 /\ (forall id, ms_conn s = Some id -> blen id = 20) ->
  chan_table_ok s -> old_single s ->
  (short_term (c_compat (cf s)) = true -> find_binding (channels s) peer = None ->
     (length (ids s) < MAX_SAVED_IDS)%nat /\ blen p mod 4 = 0) ->
  (is_rfc (c_compat (cf s)) = false -> find_binding (channels s) peer <> None ->
     old_turn_message (negb (no_aligned (c_compat (cf s)))) p = None) ->
  exists s' b, (wrap s peer p = (s', WMsg b) \/ wrap s peer p = (s', WRaw b)) /\
               relay_decode (relay_of s) b = Some (peer, p).
Proof. exact wrap_transparent_stmt. Qed.

(* RFC 5766 and draft-09 need none of the exclusions *)
Theorem C16_wrap_rfc : forall s peer p,
  is_rfc (c_compat (cf s)) = true -> wf_addr peer -> blen p <= 65000 -> chan_table_ok s ->
  exists s' b, wrap s peer p = (s', WMsg b) /\ relay_decode (relay_of s) b = Some (peer, p).
Proof. exact wrap_rfc_stmt. Qed.

Theorem C16_wrap_refuted_padded_send_request :
  exists s peer p, wf_addr peer /\ blen p <= 65000 /\ (length (ids s) < MAX_SAVED_IDS)%nat /\
    exists s' b, wrap s peer p = (s', WMsg b) /\ relay_decode (relay_of s) b = Some (peer, p ++ [0; 0; 0]).
Proof. exact wrap_padded_refuted. Qed.
Theorem C16_wrap_refuted_saved_ids_exhausted :
  exists s peer p s', wf_addr peer /\ blen p mod 4 = 0 /\ length (ids s) = MAX_SAVED_IDS /\ wrap s peer p = (s', WPass p).
Proof. exact wrap_ids_exhausted_refuted. Qed.

(** ** Incoming: what the relay encodes for a datagram from [peer] is handed up as (payload, peer).
    Data indication (RFC 5766 / 0x0115 of the old dialects), ChannelData when the relay has a channel for the
    peer, raw data from the active destination of the old dialects (which must not be a valid STUN message
    for this agent).  [id16]: the 16 header bytes the relay chooses. *)
Theorem C16_unwrap : forall s id16 peer p,
  wf_addr peer -> blen p <= 65000 -> length id16 = 16%nat ->
  (is_rfc (c_compat (cf s)) = true -> firstn 4 id16 = cookie_bytes /\ chan_table_ok s) ->
  (is_rfc (c_compat (cf s)) = false -> old_single s /\
     (forall bd, channels s = [bd] -> b_peer bd = peer ->
        bytes_ok p /\ forall ids', validate (cf s) (ids s) p <> Ok (V_SUCCESS, ids'))) ->
  exists s' o, recv s (c_server (cf s)) (relay_encode (relay_of s) id16 peer p)
               = Ok (s', o, RxData {| h_data := p; h_from := peer; h_sock := true |}).
Proof. exact unwrap_transparent_stmt. Qed.

(** ** The permission queue: a refinement to per-peer FIFOs.
    [Run s0 es s o acc]: the events [es] (sends, packets from anywhere -- success / error / 401 / 438 answers
    included --, clock advances with retransmissions and time-outs, channel binds) lead from [s0] to [s],
    hand the datagrams [o] to the base socket, and the socket accepted the wrapped datagrams [acc];
    no CreatePermission request failed to be built on the way ([sent_pending_ok], i.e. fewer than 200
    transactions outstanding).  For every peer X: what X's relay was handed so far, followed by what is still
    held for X, is exactly what was accepted for X, in order -- nothing dropped, duplicated or reordered. *)
Theorem C16_queue : forall c es s o acc, Run (init_state c) es s o acc ->
  forall X, data_for X o ++ q_get (queues s) X = accepted_for X acc.
Proof. exact queue_fifo_stmt. Qed.
Theorem C16_queue_from_any_state : forall s es s' o acc, Run s es s' o acc -> Inv s -> Q0 s ->
  Inv s' /\ forall X, data_for X o ++ q_get (queues s') X = q_get (queues s) X ++ accepted_for X acc.
Proof. exact run_fifo. Qed.
(* data is held only while a CreatePermission request for that peer is outstanding ... *)
Theorem C16_queue_held_only_while_requested : forall c es s o acc, Run (init_state c) es s o acc ->
  forall X, q_get (queues s) X <> [] -> exists pm, In pm (pending_permissions s) /\ pm_peer pm = X.
Proof. exact held_only_while_requested_stmt. Qed.
(* ... and when that request is answered (success, or an error that does not ask for re-authentication) or
   times out, everything held for the peer goes to the base socket in the original order *)
Theorem C16_queue_flushed_when_answered : forall s before after p is_response s' o,
  Inv s -> pending_permissions s = before ++ p :: after -> cp_done s before after p is_response = (s', o) ->
  data_for (pm_peer p) o = q_get (queues s) (pm_peer p) /\ q_get (queues s') (pm_peer p) = [] /\
  in_list (permissions s') (pm_peer p) = true.
Proof. exact answered_flushes. Qed.
Theorem C16_queue_flushed_on_timeout : forall s before after p s' o,
  Inv s -> pending_permissions s = before ++ p :: after ->
  snd (refresh (pm_timer p) (tv_of (now s))) = TIMEOUT -> cp_tick_one s before after p = (s', o) ->
  data_for (pm_peer p) o = q_get (queues s) (pm_peer p) /\ q_get (queues s') (pm_peer p) = [] /\
  in_list (permissions s') (pm_peer p) = true.
Proof. exact timeout_flushes. Qed.

(** ** No packet makes the socket read outside it.
    Every read of the model goes through [rd], which answers [Fault] outside the packet; [recv] never
    answers [Fault], for every byte string, source address and socket state.  (Before /repo commit 7dada38 the
    [recv:] path took a ChannelData header from packets too short for it and believed its length field;
    the minimised triggers stay in the corpus of props/C16.py.) *)
Theorem C16_no_fault : forall s from b, bytes_ok b -> exists r, recv s from b = Ok r.
Proof. exact recv_never_faults. Qed.

(** ** Non-vacuity *)
Example C16_wrap_nonvacuous :
  wrap_pre (init_state (ex_cfg RFC5766)) ex_peer6 [1; 2; 3] /\ wrap_pre (init_state (ex_cfg DRAFT9)) ex_peer4 [] /\
  wrap_pre (init_state (ex_cfg GOOGLE)) ex_peer4 [1; 2; 3; 4] /\ wrap_pre (init_state (ex_cfg MSN)) ex_peer6 [] /\
  wrap_pre (init_state (ex_cfg OC2007)) ex_peer4 [1; 2; 3; 4; 5] /\
  wrap_pre (ex_bound RFC5766 ex_peer4) ex_peer4 [1; 2; 3; 4; 5] /\ wrap_pre (ex_bound GOOGLE ex_peer6) ex_peer6 [128; 1; 2] /\
  wrap_pre (ex_bound OC2007 ex_peer4) ex_peer4 [0; 1; 0; 0].
Proof. exact wrap_pre_examples. Qed.
Example C16_unwrap_nonvacuous :
  unwrap_pre (init_state (ex_cfg RFC5766)) ex_id_rfc ex_peer6 [1; 2; 3] /\
  unwrap_pre (ex_bound DRAFT9 ex_peer4) ex_id_rfc ex_peer4 [0; 1; 0; 0; 33] /\
  unwrap_pre (init_state (ex_cfg GOOGLE)) ex_id_old ex_peer4 [] /\
  unwrap_pre (init_state (ex_cfg OC2007)) ex_id_old ex_peer6 [1; 2; 3; 4; 5] /\
  unwrap_pre (ex_bound MSN ex_peer4) ex_id_old ex_peer4 [128; 1; 2].
Proof. exact unwrap_pre_examples. Qed.
(* two peers, a 401 round, a success answer, a time-out: 4 + 1 datagrams, all delivered, in order *)
Example C16_queue_nonvacuous :
  exists s o acc, Run (init_state qx_cfg) qx_events s o acc /\
    queues s = [] /\ length (data_for qx_A o) = 4%nat /\ length (data_for qx_B o) = 1%nat /\
    data_for qx_A o = accepted_for qx_A acc /\ data_for qx_B o = accepted_for qx_B acc /\
    in_list (permissions s) qx_A = true /\ in_list (permissions s) qx_B = true.
Proof. exact queue_run_example. Qed.
(* a well-formed ChannelData packet is unwrapped; a lying length field and 1-2 byte packets are passed through *)
Example C16_no_fault_nonvacuous :
  recv FaultProofs.ex_state FaultProofs.ex_server [64; 0; 0; 2; 7; 8]
    = Ok (FaultProofs.ex_state, [], RxData {| h_data := [7; 8]; h_from := FaultProofs.ex_peer; h_sock := true |}) /\
  recv FaultProofs.ex_state FaultProofs.ex_server [64; 0; 0; 100; 170; 187; 204; 221]
    = Ok (FaultProofs.ex_state, [], RxData {| h_data := [64; 0; 0; 100; 170; 187; 204; 221]; h_from := FaultProofs.ex_server; h_sock := false |}) /\
  recv FaultProofs.ex_state FaultProofs.ex_peer [64; 0]
    = Ok (FaultProofs.ex_state, [], RxData {| h_data := [64; 0]; h_from := FaultProofs.ex_peer; h_sock := false |}) /\
  recv FaultProofs.ex_state FaultProofs.ex_server [64]
    = Ok (FaultProofs.ex_state, [], RxData {| h_data := [64]; h_from := FaultProofs.ex_server; h_sock := false |}).
Proof. exact no_fault_examples. Qed.
