(** C14 — ICE restart: credentials and what is forgotten (proved kernel; re-convergence is explored on the simulator as in C01). *)
From Coq Require Import ZArith List Bool.
From Nice Require Import Gen.IceChars Agent.CredModel Agent.CredProofs.
Import ListNotations.
Local Open Scope Z_scope.

(** the table read from random/random.c holds 64 distinct ice-chars *)
Theorem C14_table : forallb is_ice_char ice_chars = true /\ NoDup ice_chars /\ length ice_chars = 64%nat.
Proof. exact table_ok. Qed.

(** whatever the RNG draws (in the range nice_rng_generate_int is asked for), the new credentials are well-formed per the ICE grammar *)
Theorem C14_restart_credentials_wellformed : forall s draws, in_range draws -> enough draws ->
  wf_ufrag (l_ufrag (restart s draws)) = true /\ wf_pwd (l_pwd (restart s draws)) = true.
Proof. exact restart_creds_wellformed. Qed.

(** "different from all earlier ones" holds exactly up to the RNG: equal credentials force the 26 draws to have been equal.
    (The unconditional statement is false of any implementation fed by a repeating RNG; it is a probabilistic claim, 64^-26.) *)
Theorem C14_restart_credentials_fresh_partial : forall s s0 d0 draws, in_range draws -> in_range d0 -> enough draws -> enough d0 ->
  l_ufrag (restart s draws) = l_ufrag (restart s0 d0) -> l_pwd (restart s draws) = l_pwd (restart s0 d0) ->
  take (DEF_UFRAG_LEN + DEF_PWD_LEN) draws = take (DEF_UFRAG_LEN + DEF_PWD_LEN) d0.
Proof. exact restart_creds_fresh. Qed.

(** a restart forgets the remote credentials, the remote candidates and every check, and announces each component GATHERING *)
Theorem C14_restart_forgets : forall s draws,
  let s' := restart s draws in
  r_ufrag s' = [] /\ r_pwd s' = [] /\ r_cands s' = [] /\ checks s' = [] /\ ibr s' = false /\
  length (cstates s') = length (cstates s) /\ Forall (fun st => st = 1%nat) (cstates s').
Proof. exact restart_forgets. Qed.

(** inbound checks are validated against the current local password only *)
Theorem C14_validater_uses_current_password : forall s draws uname k,
  validater (restart s draws) uname = Some k -> k = l_pwd (restart s draws).
Proof. exact restart_validater_current. Qed.

(** a check whose USERNAME starts with any other ufrag of the default length — in particular the pre-restart one — is handed no password,
    so it cannot be authenticated; the current ufrag is always accepted *)
Theorem C14_validater_rejects_other_ufrag : forall s draws u0 rest, enough draws ->
  length u0 = DEF_UFRAG_LEN -> u0 <> l_ufrag (restart s draws) ->
  validater (restart s draws) (u0 ++ rest) = None.
Proof. exact restart_rejects_other_ufrag. Qed.

Theorem C14_validater_accepts_current_ufrag : forall s draws rest, enough draws ->
  validater (restart s draws) (l_ufrag (restart s draws) ++ rest) = Some (l_pwd (restart s draws)).
Proof. exact restart_accepts_current_ufrag. Qed.
