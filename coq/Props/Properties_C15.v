(** C15 — Candidate and pair priorities follow RFC 8445 and order the check list.
    The priority functions are the definitions *generated from /repo's candidate.c, agent.c,
    conncheck.c* (Gen/Candidate.v, regenerated on every run); statements only, proofs in Prio/PrioProofs.v. *)
From Coq Require Import ZArith List Bool Sorting.Permutation.
From Nice Require Import Base.CSem Gen.Candidate Prio.CheckListModel Prio.PrioProofs.
Import ListNotations.
Local Open Scope Z_scope.

(** candidate priority = 2^24*type + 2^8*local + (256 - component), no 32-bit wrap *)
Theorem C15_candidate_formula : forall tp lp c,
  0 <= tp <= 126 -> 0 <= lp <= 65535 -> 1 <= c <= 256 ->
  nice_candidate_ice_priority_full tp lp c = Some (2 ^ 24 * tp + 2 ^ 8 * lp + (256 - c)).
Proof. exact candidate_formula. Qed.

Theorem C15_candidate_priority_range : forall tp lp c v,
  0 <= tp <= 126 -> 0 <= lp <= 65535 -> 1 <= c <= 256 ->
  nice_candidate_ice_priority_full tp lp c = Some v -> 0 <= v < 2147483648.
Proof. exact candidate_formula_range. Qed.

(** a higher type preference always wins, whatever local preference / component *)
Theorem C15_type_dominates : forall tp lp c tp' lp' c',
  0 <= tp <= 126 -> 0 <= lp <= 65535 -> 1 <= c <= 256 ->
  0 <= tp' <= 126 -> 0 <= lp' <= 65535 -> 1 <= c' <= 256 ->
  tp < tp' -> oget (nice_candidate_ice_priority_full tp lp c) < oget (nice_candidate_ice_priority_full tp' lp' c').
Proof. exact candidate_formula_monotone. Qed.

(** host > peer-reflexive > server-reflexive > relayed for every reliability, transport, nat-assist and relay type;
    all type preferences within 0..126 *)
Theorem C15_type_rank : forall reliable nat turn_type transport,
  exists h p s r,
    tpref reliable nat turn_type transport c_NICE_CANDIDATE_TYPE_HOST = Some h /\
    tpref reliable nat turn_type transport c_NICE_CANDIDATE_TYPE_PEER_REFLEXIVE = Some p /\
    tpref reliable nat turn_type transport c_NICE_CANDIDATE_TYPE_SERVER_REFLEXIVE = Some s /\
    tpref reliable nat turn_type transport c_NICE_CANDIDATE_TYPE_RELAYED = Some r /\
    126 >= h /\ h > p /\ p > s /\ s > r /\ r >= 0.
Proof. exact type_rank. Qed.

Theorem C15_type_pref_range : forall reliable nat turn_type transport ty v,
  tpref reliable nat turn_type transport ty = Some v -> 0 <= v <= 126.
Proof. exact type_pref_range. Qed.

(** local preference: packed injectively into 16 bits inside the asserted ranges, Fault (g_assert) outside *)
Theorem C15_local_pref_formula : forall d t o, 0 <= d -> 0 <= t -> 0 <= o ->
  nice_candidate_ice_local_preference_full d t o =
  if (o <? c_NICE_CANDIDATE_MAX_LOCAL_ADDRESSES) && (t <? c_NICE_CANDIDATE_MAX_TURN_SERVERS) && (d <? 8)
  then Some (d * 8192 + t * 64 + o) else None.
Proof. exact local_pref_formula. Qed.

Theorem C15_local_pref_injective : forall d t o d' t' o' v,
  0 <= d -> 0 <= t -> 0 <= o -> 0 <= d' -> 0 <= t' -> 0 <= o' ->
  nice_candidate_ice_local_preference_full d t o = Some v ->
  nice_candidate_ice_local_preference_full d' t' o' = Some v ->
  d = d' /\ t = t' /\ o = o' /\ 0 <= v <= 65535.
Proof. exact local_pref_injective. Qed.

(** pair priority = 2^32*min + 2*max + (G>D) for ALL 32-bit G, D (mod 2^64; exact whenever the RFC value
    fits 64 bits, i.e. unless both priorities exceed 2^32-3) *)
Theorem C15_pair_formula_all_32bit : forall G D, u32 G -> u32 D ->
  nice_candidate_pair_priority G D = Some (pair_formula G D mod 2 ^ 64).
Proof. exact pair_priority_mod. Qed.

Theorem C15_pair_formula_exact : forall G D, u32 G -> u32 D -> Z.min G D <= 4294967293 ->
  nice_candidate_pair_priority G D = Some (pair_formula G D).
Proof. intros G D HG HD Hm. apply pair_priority_exact; auto. apply pair_formula_fits; auto. Qed.

(** both agents compute the same value for the same pair *)
Theorem C15_role_symmetry : forall x y,
  agent_candidate_pair_priority 1 x y = agent_candidate_pair_priority 0 y x.
Proof. exact role_symmetry. Qed.

Theorem C15_agent_pair_priority : forall c l r, u32 l -> u32 r ->
  agent_candidate_pair_priority c l r =
  Some ((if negb (c =? 0) then pair_formula l r else pair_formula r l) mod 2 ^ 64).
Proof. exact agent_pair_priority_spec. Qed.

Theorem C15_pair_order_is_rfc_order : forall G D G' D',
  u31 G -> u31 D -> u31 G' -> u31 D' ->
  (Z.min G D < Z.min G' D' \/ (Z.min G D = Z.min G' D' /\ Z.max G D < Z.max G' D')) ->
  pair_formula G D < pair_formula G' D'.
Proof. exact pair_formula_order. Qed.

(** pair priorities separate pairs: in the 31-bit range every candidate priority has (C15_candidate_priority_range)
    two different (G, D) couples never share a pair priority, so the descending order of the check list is total;
    outside that range the RFC formula itself collides *)
Theorem C15_pair_priority_injective : forall G D G' D',
  u31 G -> u31 D -> u31 G' -> u31 D' ->
  pair_formula G D = pair_formula G' D' -> G = G' /\ D = D'.
Proof. exact pair_formula_injective. Qed.

Theorem C15_pair_priority_injective_refuted_beyond_31_bits :
  exists G D G' D', u32 G /\ u32 D /\ u32 G' /\ u32 D' /\ (G, D) <> (G', D') /\
    pair_formula G D = pair_formula G' D'.
Proof. exact pair_formula_not_injective_u32. Qed.

(** the same two candidates seen from the two roles differ by exactly the tie-break bit *)
Theorem C15_pair_priority_swap : forall G D, G <> D ->
  pair_formula G D = pair_formula D G + (if G >? D then 1 else -1).
Proof. exact pair_formula_swap. Qed.

(** the check list is in descending pair-priority order at all times, including after a role switch,
    and every stored priority is the one of the current role; a role switch loses no pair *)
Theorem C15_check_list_sorted_always : forall c ops,
  let s := run ops {| controlling := c; clist := [] |} in
  desc (clist s) /\ (forall p, In p (clist s) -> prio p = pair_prio (controlling s) (lprio p) (rprio p)).
Proof. intros c ops. exact (run_inv ops _ (init_inv c)). Qed.

Theorem C15_role_switch_keeps_pairs : forall s c,
  Permutation (map id (clist s)) (map id (clist (step s (SetRole c)))).
Proof. exact setrole_perm. Qed.

Example C15_nonvacuous :
  clist (run [Add 1 100 200; Add 2 300 50; Add 3 100 200; SetRole false; Remove 1%nat; Add 4 7 7]
             {| controlling := true; clist := [] |})
  = [ {| id := 3; lprio := 100; rprio := 200; prio := 429496730001 |};
      {| id := 2; lprio := 300; rprio := 50; prio := 214748365400 |};
      {| id := 4; lprio := 7; rprio := 7; prio := 30064771086 |} ].
Proof. vm_compute. reflexivity. Qed.
