(** C10 — Hostile or foreign segments cannot corrupt, crash or overrun a pseudo-TCP socket.
    Proved part (the rest of the claim rests on the correspondence + ASan/UBSan, see DESIGN.md). *)
From Coq Require Import ZArith List Bool.
From RecordUpdate Require Import RecordSet.
From Nice Require Ptcp.PtcpModel Ptcp.PtcpHoare Ptcp.ResizeProofs.
From Nice Require Import Base.Bytes Ptcp.PtcpModel Ptcp.PtcpProofs Ptcp.ReassemblyProofs Ptcp.FifoBoundProofs.
Import ListNotations.
Local Open Scope Z_scope.

(** packets carrying a different conversation number change nothing and produce nothing — any state, any bytes *)
Theorem C10_foreign_conversation_changes_nothing : forall p now s ev seg,
  len p <= MAX_PACKET -> parse_packet p = Some seg -> g_conv seg <> conv s ->
  notify_packet p now s ev = Ok (false, s, ev).
Proof. exact notify_packet_foreign. Qed.

(** packets shorter than the header or longer than 65532 bytes only set the error code *)
Theorem C10_malformed_length_changes_nothing : forall p now s ev,
  (len p < 24 \/ len p > MAX_PACKET) ->
  exists s', notify_packet p now s ev = Ok (false, s', ev) /\ same_but_error s s'.
Proof. exact notify_packet_malformed. Qed.

(** FULL STATEMENT (not proved): for every state satisfying the socket invariant and every byte string,
    notify_packet does not Fault, re-establishes the invariant, keeps rb_n <= rb_cap and never transmits new
    data beyond snd_una + snd_wnd.  The window clause is REFUTED for the unchanged code by the FIN flush: *)
Theorem C10_window_refuted_by_fin_flush :
  exists wnd inflight wnd' inflight',
    fin_flush_scenario = Some (wnd, inflight, wnd', inflight') /\ inflight <= wnd /\ wnd' = wnd /\ inflight' > wnd'.
Proof. exists 1024, 1024, 1024, 3001. vm_compute. repeat split; congruence. Qed.

(** The receive FIFO cannot be overrun: for EVERY sequence of offset writes (any payload, any non-negative offset — the offset comes from a
    peer-chosen sequence number), commits and reads, the readable data stays within the capacity, the cached length is exact, and no stored
    extent ends beyond the free space; the capacity never changes.  ([None] = the commit-beyond-free-space assertion, excluded by the statement.) *)
Theorem C10_receive_fifo_never_overrun : forall ops f f', fifo_inv f -> Forall op_ok ops -> frun f ops = Some f' ->
  fifo_inv f' /\ rb_cap f' = rb_cap f.
Proof. exact fifo_never_overrun. Qed.

(** a single offset write stores at most what fits beyond the offset, never more than offered, and leaves the readable data alone *)
Theorem C10_offset_write_bounded : forall f d off, fifo_inv f -> 0 <= off ->
  let '(f', copied) := rb_write_offset f d off in
  0 <= copied <= len d /\ off + copied <= Z.max off (rb_cap f - rb_n f) /\ rb_n f' = rb_n f /\ rb_data f' = rb_data f.
Proof. exact write_offset_bounded. Qed.

(** positions of the window that no stored extent covers read as zero, not as stale memory *)
Theorem C10_uncovered_positions_read_zero : forall S fut total n i, 0 <= total -> Forall (consistent S) fut -> (i < n)%nat ->
  coveredb fut (total + Z.of_nat i) = false -> nth i (fut_bytes fut total n) 0 = 0.
Proof. exact uncovered_reads_zero. Qed.

(** receive-buffer bookkeeping: resize_receive_buffer (reached by the rcv-buf property and by every CONNECT segment's window-scale option, hostile ones
    included) changes the size the socket computes its window from and the capacity of the receive FIFO together or not at all, and never below the
    buffered data; the two values are observed equal after every operation of every explored program (summary fields rbuf_len / rbuf_cap) *)
Theorem C10_resize_keeps_bookkeeping_and_fifo_together : forall n s ev,
  Nice.Ptcp.PtcpModel.rbuf_len s = Nice.Ptcp.PtcpModel.rb_cap (Nice.Ptcp.PtcpModel.rbuf s) ->
  Nice.Ptcp.PtcpHoare.wp (Nice.Ptcp.PtcpModel.resize_receive_buffer n) s ev
    (fun _ s' _ => Nice.Ptcp.PtcpModel.rbuf_len s' = Nice.Ptcp.PtcpModel.rb_cap (Nice.Ptcp.PtcpModel.rbuf s') /\
                   Nice.Ptcp.PtcpModel.rb_buffered s' <= Nice.Ptcp.PtcpModel.rb_cap (Nice.Ptcp.PtcpModel.rbuf s') \/ s' = s).
Proof. exact Nice.Ptcp.ResizeProofs.resize_keeps_bookkeeping_and_fifo_together. Qed.
