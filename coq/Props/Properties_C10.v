(** C10 — Hostile or foreign segments cannot corrupt, crash or overrun a pseudo-TCP socket.
    Proved part (the rest of the claim rests on the correspondence + ASan/UBSan, see DESIGN.md). *)
From Coq Require Import ZArith List Bool.
From RecordUpdate Require Import RecordSet.
From Nice Require Import Base.Bytes Ptcp.PtcpModel Ptcp.PtcpProofs.
Import ListNotations.
Local Open Scope Z_scope.

(** packets carrying a different conversation number change nothing and produce nothing — any state, any bytes *)
Theorem C10_foreign_conversation_changes_nothing : forall p now s ev seg,
  len p <= MAX_PACKET -> parse_packet p = Some seg -> g_conv seg <> conv s ->
  notify_packet p now s ev = Ok (false, s, ev).
Proof. exact notify_packet_foreign. Qed.

(** packets shorter than the header or longer than 65532 bytes only set the error code *)
Theorem C10_malformed_length_changes_nothing : forall p now s ev,
  (len p < 24 \/ len p > MAX_PACKET) ->
  exists s', notify_packet p now s ev = Ok (false, s', ev) /\ same_but_error s s'.
Proof. exact notify_packet_malformed. Qed.

(** FULL STATEMENT (not proved): for every state satisfying the socket invariant and every byte string,
    notify_packet does not Fault, re-establishes the invariant, keeps rb_n <= rb_cap and never transmits new
    data beyond snd_una + snd_wnd.  The window clause is REFUTED for the unchanged code by the FIN flush: *)
Theorem C10_window_refuted_by_fin_flush :
  exists wnd inflight wnd' inflight',
    fin_flush_scenario = Some (wnd, inflight, wnd', inflight') /\ inflight <= wnd /\ wnd' = wnd /\ inflight' > wnd'.
Proof. exists 1024, 1024, 1024, 3001. vm_compute. repeat split; congruence. Qed.
