(** C11 — Component states follow the documented machine and agree with other signals.
    Proved part: the choke point over the whitelist regenerated from agent/agent.c, its agreement with
    docs/reference/libnice/states.gv (regenerated too), the legality of the call-site programs, the call-site
    inventory.  The cross-signal clauses (selected pair before CONNECTED/READY, gathering-done once, nothing after
    remove_stream) are checked on simulator traces only (DESIGN.md). *)
From Coq Require Import List Bool String.
From Nice Require Import Gen.CompState Agent.CompStateModel Agent.CompStateProofs.
Import ListNotations.

Theorem C11_announced_sequence_never_repeats_and_is_whitelisted : forall rs cur fin ann,
  requests cur rs = Some (fin, ann) -> chain_ok cur ann /\ fin = last ann cur.
Proof. exact requests_chain. Qed.

Theorem C11_every_documented_edge_is_accepted : forallb (fun p => allowed (fst p) (snd p)) doc_edges = true.
Proof. exact doc_edges_allowed. Qed.

Theorem C11_every_accepted_transition_is_documented :
  forallb (fun o => forallb (fun n => implb (allowed o n && negb (cs_eqb o n)) (documented o n)) all_states) all_states = true.
Proof. exact allowed_documented. Qed.

Theorem C11_call_sites_with_sufficient_guards :
  accepted (progress_to_ready 1) = true /\ accepted site_mark_nominated = true /\ accepted site_pair_added = true /\
  accepted site_triggered = true /\ accepted site_prune_socket = true /\ accepted site_gather = true /\
  accepted (fun _ => [FAILED]) = true /\ accepted (fun _ => [GATHERING]) = true.
Proof. exact sites_always_legal. Qed.

(** the nominated-success site of conncheck.c: its guard alone used not to be enough (FAILED -> CONNECTED would abort; found on the real
    code by the C12 API programs and repaired by fix 363c416); it is now legal whatever state the component is in *)
Theorem C11_nominated_success_site_legal : accepted site_nominated_success = true.
Proof. exact nominated_success_site. Qed.

Theorem C11_call_site_inventory : map (fun x => (fst (fst x), snd x)) call_sites = expected_sites.
Proof. exact inventory. Qed.

(** ... and the guard in front of each of those calls is the one the call-site programs above were written from *)
Theorem C11_call_site_guards : call_site_guards = expected_guards.
Proof. exact guards. Qed.
