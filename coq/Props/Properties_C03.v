(** C03 — Only authenticated peers influence the agent or reach the application (proved kernels; the agent glue
    around them is explored with an attacker in the deterministic simulator, see DESIGN.md). *)
From Coq Require Import ZArith List Bool.
From Nice Require Import Base.Bytes Crypto.Sha1 Stun.StunModel Stun.StunAgentModel Stun.StunProofs4 Stun.StunProofs6
                         Agent.GateModel Agent.GateProofs.
Import ListNotations.
Local Open Scope Z_scope.

(** A binding REQUEST accepted by a component's STUN agent (short-term credentials, as conncheck.c configures it) carries USERNAME and
    a 20-byte MESSAGE-INTEGRITY equal to HMAC-SHA1 under the password the validater binds to that USERNAME: whoever built it knew the password. *)
Theorem C03_accepted_request_proves_password : forall a buf vd a' ms,
  f_short_term (a_cfg a) = true -> f_long_term (a_cfg a) = false -> f_ignore_creds (a_cfg a) = false ->
  msg_class buf = Ok 0 -> validate a buf vd = Ok (V_SUCCESS, a', ms) ->
  exists uo ul uname t k,
    find (a_cfg a) buf A_USERNAME = Ok (Some (uo, ul)) /\ rd_n buf uo (Z.to_nat ul) = Ok uname /\
    has_attr (a_cfg a) buf A_MI = Ok true /\ vd = Some t /\ lookup_user t uname = Some k /\
    (0 < len k -> exists ho ml, find (a_cfg a) buf A_MI = Ok (Some (ho, 20)) /\ msg_length buf = Ok ml /\
        rd_n buf ho 20 = Ok (hmac_sha1 k (rfc_mi_input (cf_compat (a_cfg a)) buf ho ml))).
Proof. exact validate_success_request_integrity. Qed.

(** An accepted RESPONSE answers a transaction that is still outstanding and, when that request was sent with the (non-empty) password,
    is authenticated under it — or is one of the error codes RFC 5389 leaves unauthenticated (400/401/438/300). *)
Theorem C03_accepted_response_proves_transaction_and_password : forall a buf vd a' ms cls meth,
  f_short_term (a_cfg a) = true -> f_long_term (a_cfg a) = false -> f_ignore_creds (a_cfg a) = false ->
  f_force_validater (a_cfg a) = false ->
  msg_class buf = Ok cls -> (cls = 2 \/ cls = 3) -> msg_method buf = Ok meth ->
  validate a buf vd = Ok (V_SUCCESS, a', ms) ->
  exists i s, find_sent (a_sent a) (msg_id buf) meth 0 = Some (i, s) /\
    forall k, s_key s = Some k -> 0 < len k ->
      (exists ho ml, find (a_cfg a) buf A_MI = Ok (Some (ho, 20)) /\ msg_length buf = Ok ml /\
                     rd_n buf ho 20 = Ok (hmac_sha1 k (rfc_mi_input (cf_compat (a_cfg a)) buf ho ml))) \/
      (cls = 3 /\ exists e, find_error (a_cfg a) buf = Ok e /\ is_err_in e [400; 401; 438; 300] = true).
Proof. exact validate_success_response_integrity. Qed.

(** with no outstanding request of that id and method a response is never accepted *)
Theorem C03_unsolicited_response_rejected : forall a buf vd a' ms st cls meth,
  msg_class buf = Ok cls -> (cls = 2 \/ cls = 3) -> msg_method buf = Ok meth ->
  count_matching (a_sent a) (msg_id buf) meth = O -> validate a buf vd = Ok (st, a', ms) ->
  st = V_NOT_STUN \/ st = V_INCOMPLETE \/ st = V_BAD_REQUEST \/ st = V_UNMATCHED_RESPONSE.
Proof. exact validate_response_unmatched. Qed.

(** a rejected message changes nothing in the STUN agent: no pending transaction is consumed *)
Theorem C03_rejected_message_changes_nothing : forall a buf vd a' ms st,
  validate a buf vd = Ok (st, a', ms) ->
  st = V_NOT_STUN \/ st = V_INCOMPLETE \/ st = V_BAD_REQUEST \/ st = V_UNAUTHORIZED \/
  st = V_UNAUTHORIZED_BAD_REQUEST \/ st = V_UNMATCHED_RESPONSE -> a' = a.
Proof. exact validate_rejected_unchanged. Qed.

(** the source-address gate: whatever sequence of authenticated checks and datagrams, a datagram reaches the application only if its
    source address completed an authenticated check earlier *)
Theorem C03_data_only_from_authenticated_sources : forall pre t a post,
  nth_error (snd (grun [] (pre ++ Data t a :: post))) (length pre) = Some (Some true) ->
  exists c, In (Auth c) pre /\ c_addr c = a.
Proof. exact gate_delivers_only_authenticated. Qed.

Theorem C03_gate_list_bounded : forall ops l, Z.of_nat (length l) <= MAXV + 1 -> Z.of_nat (length (fst (grun l ops))) <= MAXV + 1.
Proof. exact gate_bounded. Qed.
