(** C01 — ICE converges: proved part (role resolution).  Convergence to READY on mirrored pairs under every fair
    schedule is NOT a theorem: it is explored on the deterministic simulator (DESIGN.md). *)
From Coq Require Import ZArith List Bool.
From Coq Require Import Permutation.
From Nice Require Import Agent.RoleModel Agent.RoleProofs Agent.SelectModel Agent.SelectProofs.
Import ListNotations.
Local Open Scope Z_scope.

(** Whatever honest messages — checks carrying the sender's role at send time and its tie-breaker, 487 answers —
    are delivered, in any order, any number of times, stale or fresh, interleaved with new checks: every role change
    moves the agent with the larger tie-breaker towards controlling or the other towards controlled, never back. *)
Theorem C01_role_changes_are_monotone_partial : forall ta tb, tb < ta -> forall acts c,
  Forall (honest ta tb) (snd c) ->
  toward (fst c) (fst (run ta tb c acts)) /\ Forall (honest ta tb) (snd (run ta tb c acts)).
Proof. exact run_monotone. Qed.

Theorem C01_complementary_roles_are_stable_partial : forall ta tb acts pool, tb < ta -> Forall (honest ta tb) pool ->
  let s := fst (run ta tb ({| a_ctl := true; b_ctl := false |}, pool) acts) in a_ctl s = true /\ b_ctl s = false.
Proof. exact roles_stable. Qed.

(** starting both-controlling or both-controlled, one completed check exchange (including its 487 answer, if any)
    leaves exactly one controller: the holder of the larger tie-breaker *)
Theorem C01_one_exchange_resolves_a_conflict_partial : forall ta tb ra, tb < ta ->
  let s0 := {| a_ctl := ra; b_ctl := ra |} in
  (let '(s1, out) := step ta tb s0 (emit_a ta s0) in
   let s2 := match out with m :: _ => fst (step ta tb s1 m) | [] => s1 end in a_ctl s2 = true /\ b_ctl s2 = false) /\
  (let '(s1, out) := step ta tb s0 (emit_b tb s0) in
   let s2 := match out with m :: _ => fst (step ta tb s1 m) | [] => s1 end in a_ctl s2 = true /\ b_ctl s2 = false).
Proof. exact conflict_exchange_resolves. Qed.

(** the selected pair is only ever replaced by a nominated pair of strictly higher priority *)
Theorem C01_selected_pair_only_improves_partial : forall l s p, p_prio s <= p_prio (update (fold_left update l s) p) /\
  (update (fold_left update l s) p <> fold_left update l s -> p_prio (fold_left update l s) < p_prio p).
Proof. exact selected_only_improves. Qed.

(** once quiet, the selected pair is a nominated pair of maximal priority ... *)
Theorem C01_selected_pair_is_the_best_nominated_partial : forall l, l <> [] -> (forall q, In q l -> 0 < p_prio q) ->
  In (select l) l /\ forall q, In q l -> p_prio q <= p_prio (select l).
Proof. exact select_is_max. Qed.

(** ... and with pairwise distinct priorities it does not depend on the order in which the nominations arrived: two agents holding the
    same (mirrored) set of nominated pairs, whose priorities agree by the symmetric formula of C15, select mirror images *)
Theorem C01_selection_is_order_independent_partial : forall l l', Permutation l l' -> l <> [] -> (forall q, In q l -> 0 < p_prio q) ->
  (forall a b, In a l -> In b l -> p_prio a = p_prio b -> a = b) -> select l = select l'.
Proof. exact select_order_independent. Qed.
