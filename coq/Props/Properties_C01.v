(** C01 — ICE converges: proved part (role resolution).  Convergence to READY on mirrored pairs under every fair
    schedule is NOT a theorem: it is explored on the deterministic simulator (DESIGN.md). *)
From Coq Require Import ZArith List Bool.
From Nice Require Import Agent.RoleModel Agent.RoleProofs.
Import ListNotations.
Local Open Scope Z_scope.

(** Whatever honest messages — checks carrying the sender's role at send time and its tie-breaker, 487 answers —
    are delivered, in any order, any number of times, stale or fresh, interleaved with new checks: every role change
    moves the agent with the larger tie-breaker towards controlling or the other towards controlled, never back. *)
Theorem C01_role_changes_are_monotone_partial : forall ta tb, tb < ta -> forall acts c,
  Forall (honest ta tb) (snd c) ->
  toward (fst c) (fst (run ta tb c acts)) /\ Forall (honest ta tb) (snd (run ta tb c acts)).
Proof. exact run_monotone. Qed.

Theorem C01_complementary_roles_are_stable_partial : forall ta tb acts pool, tb < ta -> Forall (honest ta tb) pool ->
  let s := fst (run ta tb ({| a_ctl := true; b_ctl := false |}, pool) acts) in a_ctl s = true /\ b_ctl s = false.
Proof. exact roles_stable. Qed.

(** starting both-controlling or both-controlled, one completed check exchange (including its 487 answer, if any)
    leaves exactly one controller: the holder of the larger tie-breaker *)
Theorem C01_one_exchange_resolves_a_conflict_partial : forall ta tb ra, tb < ta ->
  let s0 := {| a_ctl := ra; b_ctl := ra |} in
  (let '(s1, out) := step ta tb s0 (emit_a ta s0) in
   let s2 := match out with m :: _ => fst (step ta tb s1 m) | [] => s1 end in a_ctl s2 = true /\ b_ctl s2 = false) /\
  (let '(s1, out) := step ta tb s0 (emit_b tb s0) in
   let s2 := match out with m :: _ => fst (step ta tb s1 m) | [] => s1 end in a_ctl s2 = true /\ b_ctl s2 = false).
Proof. exact conflict_exchange_resolves. Qed.
