(** C01 — ICE converges: proved part (role resolution).  Convergence to READY on mirrored pairs under every fair
    schedule is NOT a theorem: it is explored on the deterministic simulator (DESIGN.md). *)
From Coq Require Import ZArith List Bool.
From Coq Require Import Permutation.
From Nice Require Import Agent.RoleModel Agent.RoleProofs Agent.SelectModel Agent.SelectProofs.
Import ListNotations.
Local Open Scope Z_scope.

(** Whatever honest messages — checks carrying the sender's role at send time and its tie-breaker, 487 answers —
    are delivered, in any order, any number of times, stale or fresh, interleaved with new checks: every role change
    moves the agent with the larger tie-breaker towards controlling or the other towards controlled, never back. *)
Theorem C01_role_changes_are_monotone_partial : forall ta tb, tb < ta -> forall acts c,
  Forall (honest ta tb) (snd c) ->
  toward (fst c) (fst (run ta tb c acts)) /\ Forall (honest ta tb) (snd (run ta tb c acts)).
Proof. exact run_monotone. Qed.

Theorem C01_complementary_roles_are_stable_partial : forall ta tb acts pool, tb < ta -> Forall (honest ta tb) pool ->
  let s := fst (run ta tb ({| a_ctl := true; b_ctl := false |}, pool) acts) in a_ctl s = true /\ b_ctl s = false.
Proof. exact roles_stable. Qed.

(** starting both-controlling or both-controlled, one completed check exchange (including its 487 answer, if any)
    leaves exactly one controller: the holder of the larger tie-breaker *)
Theorem C01_one_exchange_resolves_a_conflict_partial : forall ta tb ra, tb < ta ->
  let s0 := {| a_ctl := ra; b_ctl := ra |} in
  (let '(s1, out) := step ta tb s0 (emit_a ta s0) in
   let s2 := match out with m :: _ => fst (step ta tb s1 m) | [] => s1 end in a_ctl s2 = true /\ b_ctl s2 = false) /\
  (let '(s1, out) := step ta tb s0 (emit_b tb s0) in
   let s2 := match out with m :: _ => fst (step ta tb s1 m) | [] => s1 end in a_ctl s2 = true /\ b_ctl s2 = false).
Proof. exact conflict_exchange_resolves. Qed.

(** the selected pair is only ever replaced by a nominated pair of strictly higher priority *)
Theorem C01_selected_pair_only_improves_partial : forall l s p, p_prio s <= p_prio (update (fold_left update l s) p) /\
  (update (fold_left update l s) p <> fold_left update l s -> p_prio (fold_left update l s) < p_prio p).
Proof. exact selected_only_improves. Qed.

(** once quiet, the selected pair is a nominated pair of maximal priority ... *)
Theorem C01_selected_pair_is_the_best_nominated_partial : forall l, l <> [] -> (forall q, In q l -> 0 < p_prio q) ->
  In (select l) l /\ forall q, In q l -> p_prio q <= p_prio (select l).
Proof. exact select_is_max. Qed.

(** ... and with pairwise distinct priorities it does not depend on the order in which the nominations arrived: two agents holding the
    same (mirrored) set of nominated pairs, whose priorities agree by the symmetric formula of C15, select mirror images *)
Theorem C01_selection_is_order_independent_partial : forall l l', Permutation l l' -> l <> [] -> (forall q, In q l -> 0 < p_prio q) ->
  (forall a b, In a l -> In b l -> p_prio a = p_prio b -> a = b) -> select l = select l'.
Proof. exact select_order_independent. Qed.

(** * The check-list kernel of agent/conncheck.c (model Agent/CheckListModel.v, tied to the real static functions by
    harness/checklist_h.c on every run, compared inside Coq).  All statements are for ALL check lists (any length, any number of
    streams and components).  What the code does NOT guarantee is kept as [..._refuted] witnesses at the end. *)
From Nice Require Import Agent.CheckListModel Agent.CheckListProofs.

(** ** unfreezing (RFC 8445 6.1.2.6, 6.1.4.2 step 2, 7.2.5.3.3) *)
(** priv_conn_check_unfreeze_next changes nothing but the state of some FROZEN pairs, to WAITING *)
Theorem C01_checklist_unfreeze_next_only_thaws_partial : forall ss, Forall2 (Forall2 thaw_rel) ss (snd (unfreeze_next ss)).
Proof. exact unfreeze_next_only_thaws. Qed.
Print Assumptions C01_checklist_unfreeze_next_only_thaws_partial.
Theorem C01_checklist_unfreeze_related_only_thaws_partial : forall ss ok, Forall2 (Forall2 thaw_rel) ss (unfreeze_related ss ok).
Proof. exact unfreeze_related_only_thaws. Qed.
Print Assumptions C01_checklist_unfreeze_related_only_thaws_partial.
(** after conn_check_unfreeze_related no pair of the succeeded pair's foundation is left FROZEN, in any stream *)
Theorem C01_checklist_unfreeze_related_exact_partial : forall ss ok l p, In l (unfreeze_related ss ok) -> In p l ->
  ~ (p_state p = Frozen /\ fnd p = fnd ok).
Proof. exact unfreeze_related_exact. Qed.
Print Assumptions C01_checklist_unfreeze_related_exact_partial.
Theorem C01_checklist_unfreeze_maybe_only_thaws_partial : forall ss id,
  (forall l p, In l ss -> In p l -> p_id p = id -> p_state p = Frozen) ->
  Forall2 (Forall2 thaw_rel) ss (unfreeze_maybe ss id).
Proof. exact unfreeze_maybe_only_thaws. Qed.
Print Assumptions C01_checklist_unfreeze_maybe_only_thaws_partial.
(** the exact rule of priv_conn_check_unfreeze_next: with no WAITING pair in the agent, the k-th pair (streams in order, lists in order) is
    thawed iff it is FROZEN and no FROZEN pair before it has its foundation; IN_PROGRESS pairs are ignored (deviation from RFC 8445, below) *)
Theorem C01_checklist_unfreeze_next_rule_partial : forall ss l1 p l2, any_waiting ss = false -> concat ss = l1 ++ p :: l2 ->
  nth_error (concat (snd (unfreeze_next ss))) (length l1) =
  Some (if is_state Frozen p && negb (existsb (fun q => is_state Frozen q && fnd_eqb q p) l1) then set_state p Waiting else p).
Proof. exact unfreeze_next_rule. Qed.
Print Assumptions C01_checklist_unfreeze_next_rule_partial.
Theorem C01_checklist_one_waiting_pair_per_foundation_partial : forall ss, any_waiting ss = false ->
  NoDup (map fnd (filter (is_state Waiting) (concat (snd (unfreeze_next ss))))).
Proof. exact unfreeze_next_one_waiting_per_foundation. Qed.
Print Assumptions C01_checklist_one_waiting_pair_per_foundation_partial.
(** progress: whenever a pair is WAITING or FROZEN the function returns TRUE and a WAITING pair exists afterwards; when it returns FALSE
    nothing changed and no pair is WAITING or FROZEN *)
Theorem C01_checklist_unfreeze_next_progress_partial : forall ss,
  (exists l p, In l ss /\ In p l /\ (p_state p = Waiting \/ p_state p = Frozen)) ->
  fst (unfreeze_next ss) = true /\ any_waiting (snd (unfreeze_next ss)) = true.
Proof. exact unfreeze_next_progress. Qed.
Print Assumptions C01_checklist_unfreeze_next_progress_partial.
Theorem C01_checklist_unfreeze_next_false_partial : forall ss, fst (unfreeze_next ss) = false ->
  snd (unfreeze_next ss) = ss /\ forall l p, In l ss -> In p l -> p_state p <> Waiting /\ p_state p <> Frozen.
Proof. exact unfreeze_next_false. Qed.
Print Assumptions C01_checklist_unfreeze_next_false_partial.
Theorem C01_checklist_unfreeze_next_idempotent_partial : forall ss, snd (unfreeze_next (snd (unfreeze_next ss))) = snd (unfreeze_next ss).
Proof. exact unfreeze_next_idempotent. Qed.
Print Assumptions C01_checklist_unfreeze_next_idempotent_partial.

(** ** which pair is checked next (RFC 8445 6.1.4.2 step 3) *)
(** an ordinary check goes to the first WAITING pair of the stream after the unfreezing step; the list being sorted by priority, to a
    WAITING pair of maximal priority (ties: the first in list order, not the lowest component id - see the witness below) *)
Theorem C01_checklist_next_check_is_best_waiting_partial : forall ss si p ss', ordinary_select ss si = (Some p, ss') ->
  Forall2 (Forall2 thaw_rel) ss ss' /\ In p (nth si ss' []) /\ p_state p = Waiting /\
  (sorted_desc (nth si ss' []) -> forall q, In q (nth si ss' []) -> p_state q = Waiting -> p_prio q <= p_prio p).
Proof. exact ordinary_select_picks_best_waiting. Qed.
Print Assumptions C01_checklist_next_check_is_best_waiting_partial.
Theorem C01_checklist_next_check_exact_partial : forall ss si,
  ordinary_select ss si = (find_next_waiting (nth si (snd (unfreeze_next ss)) []), snd (unfreeze_next ss)).
Proof. exact ordinary_select_eq. Qed.
Print Assumptions C01_checklist_next_check_exact_partial.
(** the scheduler cannot stall: with credentials known and a working socket, the ordinary-check step of the Ta tick starts a check whenever
    some pair of some stream is WAITING or FROZEN (whatever else is IN_PROGRESS); otherwise it does nothing at all *)
Theorem C01_checklist_scheduler_progress_partial : forall rfc ctl ss, Forall (fun s => s_creds s = true) ss ->
  (exists s p, In s ss /\ In p (s_pairs s) /\ (p_state p = Waiting \/ p_state p = Frozen)) ->
  exists ss' o, ordinary_agent rfc ctl (fun _ => true) ss = Some (true, ss', o).
Proof. exact ordinary_agent_progress. Qed.
Print Assumptions C01_checklist_scheduler_progress_partial.
Theorem C01_checklist_scheduler_idle_partial : forall rfc ctl ok ss,
  (forall s p, In s ss -> In p (s_pairs s) -> p_state p <> Waiting /\ p_state p <> Frozen) ->
  ordinary_agent rfc ctl ok ss = Some (false, ss, []).
Proof. exact ordinary_agent_idle. Qed.
Print Assumptions C01_checklist_scheduler_idle_partial.

(** ** pruning after a nomination (priv_prune_pending_checks, RFC 5245 8.1.2) *)
(** the function is a filter and a map: [prunable] pairs are deleted, [touch] is applied to the others, [blocking] pairs are counted *)
Theorem C01_checklist_prune_exact_partial : forall cid sel l,
  prune cid sel l = (Z.of_nat (length (filter (blocking cid sel) l)), map (touch cid sel) (filter (fun p => negb (prunable cid sel p)) l)).
Proof. exact prune_spec. Qed.
Print Assumptions C01_checklist_prune_exact_partial.
Theorem C01_checklist_prune_deletes_exactly_partial : forall cid sel p, prunable cid sel p = true <->
  p_comp p = cid /\ ((p_trig p = true /\ p_state p <> InProgress /\ p_prio p < sel) \/
                     (p_trig p = false /\ (p_state p = Frozen \/ p_state p = Waiting))).
Proof. exact prunable_true_iff. Qed.
Print Assumptions C01_checklist_prune_deletes_exactly_partial.
Theorem C01_checklist_prune_counts_exactly_partial : forall cid sel p, blocking cid sel p = true <->
  p_comp p = cid /\ sel <= p_prio p /\ (p_state p = InProgress \/ p_trig p = true).
Proof. exact blocking_true_iff. Qed.
Print Assumptions C01_checklist_prune_counts_exactly_partial.
Theorem C01_checklist_prune_spares_other_components_partial : forall cid sel l,
  filter (fun p => negb (p_comp p =? cid)) (snd (prune cid sel l)) = filter (fun p => negb (p_comp p =? cid)) l.
Proof. exact prune_other_components. Qed.
Print Assumptions C01_checklist_prune_spares_other_components_partial.
(** never deleted: a SUCCEEDED / DISCOVERED / FAILED pair whose priority is at least the selected pair's (the selected nominated pair itself),
    or that is not queued for a triggered check *)
Theorem C01_checklist_prune_keeps_selected_partial : forall cid sel l p, In p l -> sel <= p_prio p \/ p_trig p = false ->
  p_state p = Succeeded \/ p_state p = Discovered \/ p_state p = Failed -> In p (snd (prune cid sel l)).
Proof. exact prune_keeps_completed. Qed.
Print Assumptions C01_checklist_prune_keeps_selected_partial.
Theorem C01_checklist_prune_keeps_sorted_partial : forall cid sel l, sorted_desc l -> sorted_desc (snd (prune cid sel l)).
Proof. exact prune_sorted. Qed.
Print Assumptions C01_checklist_prune_keeps_sorted_partial.
Theorem C01_checklist_prune_idempotent_partial : forall cid sel l, prune cid sel (snd (prune cid sel l)) = prune cid sel l.
Proof. exact prune_idempotent. Qed.
Print Assumptions C01_checklist_prune_idempotent_partial.

(** ** the READY and FAILED decisions (conn_check_update_check_list_state_for_ready as of e3eeaf1: with no selected pair - local == NULL - the
    first valid nominated pair of the component takes over before the pruning step; [takeover l c] is the component after that step and the
    new-selected-pair announcement, if any; a result None = the g_assert (priority > 0) of the pruning step fails, the process aborts) *)
Theorem C01_checklist_takeover_partial : forall l c, let c1 := fst (takeover l c) in
  c_id c1 = c_id c /\ c_state c1 = c_state c /\ c_remote c1 = c_remote c /\ c_sel c <= c_sel c1 /\
  (c_sel_local c <> 0 -> takeover l c = (c, [])) /\
  (forall b, best_nominated_valid (c_id c) l = Some b -> c_sel_local c = 0 ->
     c_sel c1 = Z.max (c_sel c) (p_prio b) /\
     (c_sel c < p_prio b -> c_sel_local c1 = p_local b /\ c_sel_remote c1 = p_remote b /\ snd (takeover l c) = [sg_SELECTED]) /\
     (p_prio b <= c_sel c -> takeover l c = (c, []))).
Proof. exact takeover_spec. Qed.
Print Assumptions C01_checklist_takeover_partial.
(** the pair that takes over is the FIRST valid nominated pair of the component in list order *)
Theorem C01_checklist_takeover_pair_is_first_partial : forall cid l b, best_nominated_valid cid l = Some b ->
  p_comp b = cid /\ p_valid b = true /\ p_nom b = true /\
  exists l1 l2, l = l1 ++ b :: l2 /\ has_nominated_valid cid l1 = false.
Proof. exact best_nv_some. Qed.
Print Assumptions C01_checklist_takeover_pair_is_first_partial.
(** the assertion of the pruning step can no longer fail inside the READY decision: pair priorities being positive, and the selected pair - when
    there is one - having a positive priority, the decision always returns *)
Theorem C01_checklist_ready_decision_never_asserts_partial : forall l c,
  (c_sel_local c <> 0 -> 0 < c_sel c) ->
  (forall p, In p l -> p_comp p = c_id c -> p_valid p = true -> p_nom p = true -> 0 < p_prio p) ->
  for_ready l c <> None.
Proof. exact for_ready_never_asserts. Qed.
Print Assumptions C01_checklist_ready_decision_never_asserts_partial.
Theorem C01_checklist_ready_decision_without_selected_pair_partial : forall l c, c_sel_local c = 0 ->
  (forall p, In p l -> p_comp p = c_id c -> p_valid p = true -> p_nom p = true -> 0 < p_prio p) -> for_ready l c <> None.
Proof. exact for_ready_no_selected_pair. Qed.
Print Assumptions C01_checklist_ready_decision_without_selected_pair_partial.
Theorem C01_checklist_ready_decision_asserts_iff_partial : forall l c, for_ready l c = None <-> faults l c = true.
Proof. exact for_ready_asserts_iff. Qed.
Print Assumptions C01_checklist_ready_decision_asserts_iff_partial.
Theorem C01_checklist_ready_only_if_partial : forall l c l' c' o, for_ready l c = Some (l', c', o) -> In st_READY o ->
  (exists p, In p l /\ p_comp p = c_id c /\ p_valid p = true /\ p_nom p = true) /\
  (forall q, In q l -> p_comp q = c_id c -> c_sel (fst (takeover l c)) <= p_prio q -> p_state q <> InProgress /\ p_trig q = false).
Proof. exact ready_only_if. Qed.
Print Assumptions C01_checklist_ready_only_if_partial.
Theorem C01_checklist_ready_if_partial : forall l c, (exists p, In p l /\ p_comp p = c_id c /\ p_valid p = true /\ p_nom p = true) ->
  (forall q, In q l -> p_comp q = c_id c -> c_sel (fst (takeover l c)) <= p_prio q -> p_state q <> InProgress /\ p_trig q = false) ->
  0 < c_sel (fst (takeover l c)) ->
  exists l' c' o, for_ready l c = Some (l', c', o) /\
  c_state c' = st_READY /\ l' = snd (prune (c_id c) (c_sel (fst (takeover l c))) l) /\ (c_state c <> st_READY -> last o 0 = st_READY).
Proof. exact ready_if. Qed.
Print Assumptions C01_checklist_ready_if_partial.
Theorem C01_checklist_failed_iff_partial : forall disc l cs cid st, In (cid, st) (snd (failed_components disc l cs)) <->
  st = st_FAILED /\ l <> [] /\ disc = false /\
  exists c, In c cs /\ c_id c = cid /\ c_state c <> st_FAILED /\ c_remote c = true /\
    forall p, In p l -> p_comp p = cid -> (p_state p = Failed \/ p_state p = Succeeded \/ p_state p = Discovered) /\ p_nom p = false.
Proof. exact failed_iff. Qed.
Print Assumptions C01_checklist_failed_iff_partial.
Theorem C01_checklist_ready_excludes_failed_partial : forall l c c2, c_id c2 = c_id c -> goes_ready l c = true -> fails l c2 = false.
Proof. exact ready_excludes_failed. Qed.
Print Assumptions C01_checklist_ready_excludes_failed_partial.
Theorem C01_checklist_failed_excludes_ready_partial : forall l c c2, c_id c2 = c_id c -> fails l c2 = true -> for_ready l c = Some (l, c, []).
Proof. exact failed_excludes_ready. Qed.
Print Assumptions C01_checklist_failed_excludes_ready_partial.
(** (candidate pointers of pairs are never NULL; without a selected pair the selected priority is 0: nice_component_clear_selected_pair) *)
Theorem C01_checklist_ready_decision_idempotent_partial : forall l c l1 c1 o1, (forall p, In p l -> p_local p <> 0) -> (c_sel_local c = 0 -> c_sel c = 0) ->
  for_ready l c = Some (l1, c1, o1) -> for_ready l1 c1 = Some (l1, c1, []).
Proof. exact for_ready_idempotent. Qed.
Print Assumptions C01_checklist_ready_decision_idempotent_partial.
Theorem C01_checklist_failed_decision_idempotent_partial : forall disc l cs,
  failed_components disc l (fst (failed_components disc l cs)) = (fst (failed_components disc l cs), []).
Proof. exact failed_components_idempotent. Qed.
Print Assumptions C01_checklist_failed_decision_idempotent_partial.

(** ** nomination by the peer (priv_mark_pair_nominated) *)
Theorem C01_checklist_nomination_ignored_when_controlling_partial : forall l c lc rc, mark_nominated true true l c lc rc = Some (false, l, c, []).
Proof. exact mark_nominated_controlling_rfc. Qed.
Print Assumptions C01_checklist_nomination_ignored_when_controlling_partial.
Theorem C01_checklist_nomination_without_pair_partial : forall rfc ctl l c lc rc, Forall (fun p => matches lc rc p = false) l ->
  mark_nominated rfc ctl l c lc rc = Some (false, l, c, []).
Proof. exact mark_nominated_no_match. Qed.
Print Assumptions C01_checklist_nomination_without_pair_partial.
(** RFC 5245 agents never nominate a pair that is not valid: the request is remembered for the response of the check in flight, or dropped *)
Theorem C01_checklist_nomination_needs_valid_partial : forall p res L c out t0,
  find_id (if is_state Succeeded p && negb (p_disc p =? 0) then p_disc p else p_id p) L = Some t0 ->
  p_valid t0 = false -> p_nom t0 = false ->
  mark_body true p (res, L, c, out) =
  Some (res || (p_trig t0 || is_state InProgress t0),
        if p_trig t0 || is_state InProgress t0 then update_id (p_id t0) (fun q => set_mnora q true) L else L, c, out ++ []).
Proof. exact mark_body_rfc_not_valid. Qed.
Print Assumptions C01_checklist_nomination_needs_valid_partial.
Theorem C01_checklist_nomination_of_valid_pair_partial : forall rfc p res L c out t0,
  find_id (if is_state Succeeded p && negb (p_disc p =? 0) then p_disc p else p_id p) L = Some t0 -> p_valid t0 = true ->
  mark_body rfc p (res, L, c, out) =
  let '(c2, o2) := comp_step c t0 in
  match for_ready (nominate_target rfc t0 L) c2 with
  | None => None
  | Some (L3, c3, o3) => Some (true, L3, c3, out ++ o2 ++ o3)
  end.
Proof. exact mark_body_valid. Qed.
Print Assumptions C01_checklist_nomination_of_valid_pair_partial.
(** the selected priority only grows; FAILED and CONNECTING components end CONNECTED before the READY decision, others keep their state *)
Theorem C01_checklist_nomination_component_step_partial : forall c t0, let c2 := fst (comp_step c t0) in
  c_sel c2 = Z.max (c_sel c) (p_prio t0) /\ c_id c2 = c_id c /\ c_remote c2 = c_remote c /\
  (c_state c = st_FAILED \/ c_state c = st_CONNECTING -> c_state c2 = st_CONNECTED) /\
  (c_state c <> st_FAILED -> c_state c <> st_CONNECTING ->
     c_state c2 = c_state c /\ snd (comp_step c t0) = if c_sel c <? p_prio t0 then [sg_SELECTED] else []) /\
  (c_sel c < p_prio t0 -> c_sel_local c2 = p_local t0 /\ c_sel_remote c2 = p_remote t0) /\
  (p_prio t0 <= c_sel c -> c_sel_local c2 = c_sel_local c /\ c_sel_remote c2 = c_sel_remote c).
Proof. exact comp_step_spec. Qed.
Print Assumptions C01_checklist_nomination_component_step_partial.
(** the function neither aborts nor reads freed memory (the model yields None where the C code does either): neither the link under the cursor nor a
    discovered_pair it follows is deleted by the pruning the body triggers, provided no pair of the nominated candidates - nor the pair
    discovered by it - is FROZEN, WAITING or queued for a triggered check, and discovered_pair does not dangle at entry.
    The two witnesses at the end show lists outside this condition on which the real function reads freed memory (ASan-confirmed) *)
Theorem C01_checklist_nomination_loop_memory_safe_partial : forall rfc ctl l c lc rc,
  (forall p, In p l -> matches lc rc p = true -> safe p /\ exists t, In t l /\ p_id t = tid p /\ safe t) ->
  (c_sel_local c <> 0 -> 0 < c_sel c) -> (forall q, In q l -> 0 < p_prio q) ->
  mark_nominated rfc ctl l c lc rc <> None.
Proof. exact mark_nominated_memory_safe. Qed.
Print Assumptions C01_checklist_nomination_loop_memory_safe_partial.

(** ** witnesses: natural statements the code does not satisfy, and satisfiability of the hypotheses above *)
Example C01_checklist_rfc8445_frozen_waits_for_in_progress_refuted :
  unfreeze_next [[mk 1 1 7 7 20 InProgress false false false; mk 2 2 7 7 10 Frozen false false false]]
  = (true, [[mk 1 1 7 7 20 InProgress false false false; mk 2 2 7 7 10 Waiting false false false]]).
Proof. exact rfc8445_frozen_waits_for_in_progress_refuted. Qed.
Example C01_checklist_rfc8445_equal_priority_lowest_component_refuted :
  let l := [mk 1 2 1 1 50 Waiting false false false; mk 2 1 2 2 50 Waiting false false false] in
  sorted_desc l /\ option_map p_comp (find_next_waiting l) = Some 2.
Proof. exact rfc8445_equal_priority_lowest_component_refuted. Qed.
Example C01_checklist_ready_needs_succeeded_pair_refuted :
  for_ready [mk 1 1 1 1 50 Failed true true false] (mkComp 1 st_CONNECTED 50 1 1 true)
  = Some ([mk 1 1 1 1 50 Failed true true false], mkComp 1 st_READY 50 1 1 true, [st_READY]).
Proof. exact ready_with_failed_nominated_pair_refuted. Qed.
Example C01_checklist_ready_waits_for_better_pairs_refuted :
  for_ready [mk 1 1 1 1 90 Frozen false false false; mk 2 1 2 2 50 Succeeded true true false] (mkComp 1 st_CONNECTED 50 2 2 true)
  = Some ([mk 2 1 2 2 50 Succeeded true true false], mkComp 1 st_READY 50 2 2 true, [st_READY]).
Proof. exact ready_discards_untried_better_pair. Qed.
Example C01_checklist_prune_never_removes_nominated_refuted :
  prune 1 80 [mk 1 1 1 1 80 Succeeded true true false; mk 2 1 2 2 50 Succeeded true true true]
  = (0, [mk 1 1 1 1 80 Succeeded true true false]).
Proof. exact prune_never_removes_nominated_refuted. Qed.
Example C01_checklist_failed_means_all_pairs_failed_refuted :
  failed_components false [mk 1 1 1 1 50 Succeeded false true false] [mkComp 1 st_CONNECTED 0 0 0 true]
  = ([mkComp 1 st_FAILED 0 0 0 true], [(1, st_FAILED)]).
Proof. exact failed_with_valid_pairs_refuted. Qed.
Example C01_checklist_nomination_loop_cursor_freed :
  mark_nominated false false [mk 1 1 1 1 80 Succeeded true true false; mk 2 1 2 2 50 Waiting false false true] (mkComp 1 st_READY 80 1 1 true) 2 2 = None.
Proof. exact mark_nominated_cursor_freed. Qed.
Example C01_checklist_dangling_discovered_pair_after_prune :
  let parent := mkPair 1 1 1 1 1 1 90 Succeeded false false false false false false false 2 in
  let disc := mkPair 2 1 3 1 3 1 40 Discovered true true false false false false true 0 in
  let best := mk 3 1 5 5 80 Succeeded true true false in
  prune 1 80 [parent; best; disc] = (0, [parent; best]) /\
  mark_nominated false false [parent; best] (mkComp 1 st_READY 80 5 5 true) 1 1 = None.
Proof. exact dangling_discovered_pair_after_prune. Qed.
(** regression witness of e3eeaf1 (no selected pair, one valid nominated pair: the pruning step used to be entered with priority 0) *)
Example C01_checklist_ready_decision_without_selected_pair_regression :
  let l := [mk 1 1 1 1 50 Succeeded true true false] in
  prune_chk 1 0 l = None /\
  for_ready l (mkComp 1 st_CONNECTED 0 0 0 true) = Some (l, mkComp 1 st_READY 50 1 1 true, [sg_SELECTED; st_READY]).
Proof. exact for_ready_without_selected_pair_regression. Qed.
Example C01_checklist_unfreeze_progress_example :
  unfreeze_next [[mk 1 1 7 7 30 Frozen false false false; mk 2 2 7 7 20 Frozen false false false]; [mk 3 1 8 7 10 Frozen false false false]]
  = (true, [[mk 1 1 7 7 30 Waiting false false false; mk 2 2 7 7 20 Frozen false false false]; [mk 3 1 8 7 10 Waiting false false false]]).
Proof. exact unfreeze_progress_example. Qed.
