(** C08 — Pseudo-TCP delivers exactly the bytes written, in order, then end-of-stream.
    Proved: the building blocks of the data path on the bit-exact model, and SENDER HONESTY over every sequence of socket
    operations (C08_sender_honesty), RECEIVER SOUNDNESS over every sequence of socket operations with honest segments
    (C08_receiver_soundness) and their COMPOSITION for two sockets and a network that only delivers emitted packets
    (C08_two_way_prefix; its remaining hypotheses -- connect segments whole, FIN at the end of the stream, no future timestamp echo on
    connect segments, receive buffers of 7 bytes or more, no sequence wrap -- are explicit).  End of stream is proved on the receive side
    for CLOSE_WAIT (C08_receiver_eos_close_wait: in CLOSE_WAIT every byte of the peer has been delivered or is buffered, so a recv that
    returns 0 there comes after all of them; C08_receiver_eos_partial: the FIN is never consumed before the data that precedes it); the
    other closing states and the two-socket form rest on the correspondence (model = code) plus the implementation-side prefix/EOS oracle.
    C08_receiver_needs_more_than_honest_data_refuted and C08_two_way_prefix_needs_whole_connect_segments_refuted are concrete runs showing
    that two of the explicit hypotheses cannot be dropped (both are findings about process(), see E2ESafetyProofs.v / E2EFindingProofs.v). *)
From Coq Require Import ZArith List Bool.
From Nice Require Import Base.Bytes Ptcp.PtcpModel Ptcp.PtcpProofs Ptcp.ReassemblyProofs Ptcp.SockOps Ptcp.SenderInvProofs Ptcp.E2ESafetyProofs.
From Nice Require Import Ptcp.ReceiverInvProofs Ptcp.ReceiverSoundProofs Ptcp.E2EComposeProofs Ptcp.E2ECausalProofs Ptcp.E2EExample Ptcp.E2EFindingProofs Ptcp.ReceiverEosProofs Ptcp.ReceiverCloseWaitProofs.
Import ListNotations.
Local Open Scope Z_scope.

(** every payload the socket emits is the slice [offset, offset+len) of its send buffer *)
Theorem C08_payload_is_slice_of_send_buffer_partial : forall seq flags offset ln now s ev w s' ev',
  packet seq flags offset ln now s ev = Ok (w, s', ev') ->
  ev' = ev \/ exists p, ev' = ev ++ [EvPacket p] /\ pkt_payload p = sub (sbuf s) offset ln.
Proof. exact packet_payload_is_slice. Qed.

(** an in-sequence segment that fits is appended to the receive buffer exactly, whatever stale extents exist *)
Theorem C08_in_order_segment_appended_exactly_partial : forall f d,
  rb_n f = len (rb_data f) -> rb_n f + len d <= rb_cap f -> 0 < len d ->
  let '(f1, copied) := rb_write_offset f d 0 in
  copied = len d /\
  exists f2, rb_commit f1 (len d) = Ok f2 /\ rb_data f2 = rb_data f ++ d /\ rb_n f2 = len (rb_data f2) /\
             rb_cap f2 = rb_cap f /\ rb_total f2 = rb_total f + len d.
Proof. exact rbuf_in_order_append. Qed.

(** Receive-side reassembly, for EVERY arrival order, duplication and overlap of the segments: if each stored extent carries the stream's
    own bytes at its position ([consistent]) and the positions being committed are covered, the bytes that become readable are exactly the
    stream's bytes at those positions. *)
Theorem C08_reassembly_delivers_the_stream_partial : forall S fut total n,
  0 <= total -> total + Z.of_nat n <= len S -> Forall (consistent S) fut ->
  (forall i, (i < n)%nat -> coveredb fut (total + Z.of_nat i) = true) ->
  fut_bytes fut total n = firstn n (skipn (Z.to_nat total) S).
Proof. exact reassembly_delivers_the_stream. Qed.

(** ... lifted to the receive FIFO: a commit of covered bytes appends the stream's next bytes to the readable data *)
Theorem C08_commit_appends_the_stream_partial : forall S f n f2,
  0 <= rb_total f -> 0 <= n -> rb_total f + n <= len S -> Forall (consistent S) (rb_fut f) ->
  (forall i, (i < Z.to_nat n)%nat -> coveredb (rb_fut f) (rb_total f + Z.of_nat i) = true) ->
  rb_commit f n = Ok f2 ->
  rb_data f2 = rb_data f ++ firstn (Z.to_nat n) (skipn (Z.to_nat (rb_total f)) S) /\ rb_total f2 = rb_total f + n.
Proof. exact rb_commit_appends_stream. Qed.

(** SENDER HONESTY.  [run (start s0) ops] applies ANY sequence of operations (connect / send / recv / notify_packet with any bytes /
    notify_clock and get_next_clock at any times / notify_mtu / shutdown / close / buffer sizes) to a socket that starts in LISTEN with
    nothing queued; [t_written] is the concatenation of the prefixes [send] accepted, [t_ev] every event so far.  If the model does not
    Fault and fewer than 2^31 - 8 bytes were accepted (no sequence-number wrap), there is an offset c <= 7 (the length of the connect
    message) such that EVERY data packet ever emitted (non-empty payload, no CTL flag; first transmissions, retransmissions, MTU-driven
    re-segmentations alike) carries exactly the accepted bytes at position seq - c. *)
Theorem C08_sender_honesty : forall s0 ops t,
  init_ok s0 -> run (start s0) ops = Ok t -> len (t_written t) < NW - 8 ->
  exists c, 0 <= c <= 7 /\
    forall p, In (EvPacket p) (t_ev t) -> data_packet p ->
      c <= pkt_seq p /\ pkt_seq p - c + len (pkt_payload p) <= len (t_written t) /\
      pkt_payload p = sub (t_written t) (pkt_seq p - c) (len (pkt_payload p)).
Proof. exact sender_honesty. Qed.
Print Assumptions C08_sender_honesty.

(** the hypotheses are satisfiable: the default socket is an initial socket ... *)
Theorem C08_sender_honesty_initial_socket : forall cv, init_ok (sock_init cv).
Proof. exact sock_init_ok. Qed.
Print Assumptions C08_sender_honesty_initial_socket.

(** ... and a concrete run (connect, the peer's answer, 25 bytes written, MTU lowered to 126, two retransmission time-outs, 3 more
    bytes written) emits the first transmission and two re-segmented retransmissions, all at sequence number 7 *)
Example C08_sender_honesty_nonvacuous :
  match run (start (sock_init 7)) ops_sender with
  | Ok t => (t_written t, data_pkts (t_ev t))
  | Fault => ([], [])
  end = (msg25 ++ [1; 2; 3], [(7, msg25); (7, firstn 10 msg25); (7, firstn 10 msg25)]).
Proof. exact sender_run_nontrivial. Qed.

(** FINDING (receiver side): every data segment fed below is the slice of the peer's stream at its sequence number, yet [recv] returns
    bytes that are not a prefix of the peer's application bytes (65..74): the first connect segment carries a timestamp echo from the
    future, is rejected AFTER it moved the socket to ESTABLISHED, and rcv_nxt stays 0 (see E2ESafetyProofs.v). *)
Theorem C08_receiver_needs_more_than_honest_data_refuted :
  match run (start (sock_init 7)) ops_bad_timestamp with
  | Ok t => (t_read t, state (t_sock t))
  | Fault => ([], CLOSED)
  end = ([65; 66; 67; 68; 0; 0; 0; 65; 66; 67], ESTABLISHED) /\
  forall k, [65; 66; 67; 68; 0; 0; 0; 65; 66; 67] <> firstn k peer_app.
Proof. exact (conj honest_data_bad_timestamp_corrupts_the_stream corrupted_not_a_prefix). Qed.
Print Assumptions C08_receiver_needs_more_than_honest_data_refuted.

(** RECEIVER SOUNDNESS.  [S] is everything the peer queued (its connect message of [cl] bytes, then its application's bytes).  From any
    socket that starts in LISTEN with nothing received and a receive buffer of at least [cl] bytes, after ANY sequence of operations in
    which every segment fed to [notify_packet] is honest ([honest_op] / [honest]: a payload is the slice of [S] at the segment's sequence
    number -- in any order, duplicated, overlapping, re-segmented, truncated; a connect segment carries the connect message whole and does
    not echo a timestamp ahead of the clock; a FIN sits at the end of [S]), and as long as [S] is shorter than 2^31 - 2: the bytes [recv]
    has handed to the application are a prefix of the peer's application bytes -- never altered, duplicated or reordered. *)
Theorem C08_receiver_soundness : forall S cl s0 ops t,
  rinit cl s0 -> len S + 2 < NW -> 0 <= cl <= len S -> cl <= 61440 ->
  Forall (honest_op S cl) ops -> run (start s0) ops = Ok t ->
  exists k, t_read t = firstn k (skipn (Z.to_nat cl) S).
Proof. exact receiver_soundness. Qed.
Print Assumptions C08_receiver_soundness.

(** COMPOSITION.  Two sockets A and B; [sys_run] interleaves application calls on either side ([SA], [SB]) with deliveries ([SAB p now]:
    the network hands [p] to B).  [net_ok]: the network only delivers packets the other socket emitted (any subset, order, multiplicity,
    delay), application calls are well-typed, and no delivered connect segment echoes a timestamp ahead of the receiver's clock.
    [sender_discipline] (NOT derived, see E2EComposeProofs.v): connect segments are emitted whole, FIN segments at the end of the stream.
    Then the bytes read on each side are a prefix of the bytes written on the other side. *)
Theorem C08_two_way_prefix : forall a0 b0 l tA tB,
  init_ok a0 -> init_ok b0 -> rinit 7 a0 -> rinit 7 b0 ->
  sys_run (start a0, start b0) l = Ok (tA, tB) -> Forall (net_ok tA tB) l ->
  len (t_written tA) < NW - 10 -> len (t_written tB) < NW - 10 ->
  sender_discipline tA -> sender_discipline tB ->
  (exists k, t_read tB = firstn k (t_written tA)) /\ (exists k, t_read tA = firstn k (t_written tB)).
Proof. exact two_way_prefix. Qed.
Print Assumptions C08_two_way_prefix.

(** the hypotheses of the composition (hence those of receiver soundness, which it instantiates) hold for a concrete run: A connects,
    B answers, A writes "hello world" (its data segment is delivered twice), B writes 3 bytes back, both sides read everything *)
Example C08_two_way_prefix_nonvacuous :
  init_ok (sock_init 7) /\ rinit 7 (sock_init 7) /\
  sys_run (start (sock_init 7), start (sock_init 7)) ex_l = Ok (ex_A, ex_B) /\ Forall (net_ok ex_A ex_B) ex_l /\
  len (t_written ex_A) < NW - 10 /\ len (t_written ex_B) < NW - 10 /\ sender_discipline ex_A /\ sender_discipline ex_B /\
  t_written ex_A = hello /\ t_read ex_B = hello /\ t_written ex_B = [1; 2; 3] /\ t_read ex_A = [1; 2; 3].
Proof. exact two_way_prefix_nonvacuous. Qed.

(** ... and with a CAUSAL network: [sys_valid] checks, step by step, that a delivered packet had ALREADY been emitted by the other socket
    when it is delivered (events only accumulate: EventMonoProofs.v). *)
Theorem C08_two_way_prefix_causal : forall a0 b0 l tA tB,
  init_ok a0 -> init_ok b0 -> rinit 7 a0 -> rinit 7 b0 ->
  sys_valid (start a0, start b0) l -> sys_run (start a0, start b0) l = Ok (tA, tB) ->
  len (t_written tA) < NW - 10 -> len (t_written tB) < NW - 10 ->
  sender_discipline tA -> sender_discipline tB ->
  (exists k, t_read tB = firstn k (t_written tA)) /\ (exists k, t_read tA = firstn k (t_written tB)).
Proof. exact two_way_prefix_causal. Qed.
Print Assumptions C08_two_way_prefix_causal.

(** a causal run with a graceful shutdown satisfying the hypotheses: the FIN segment (seq 18 = 7 + 11) overtakes the data and is delivered
    again after it; B reads all 11 bytes, ends in CLOSE_WAIT, and its next [recv] returns 0 *)
Example C08_two_way_prefix_causal_nonvacuous :
  sys_run st0 fin_l = Ok (fin_A, fin_B) /\ sys_valid st0 fin_l /\ sender_discipline fin_A /\ sender_discipline fin_B /\
  map (fun p => (pkt_seq p, pkt_flags p, len (pkt_payload p))) (pkts (t_ev fin_A)) = [(0, 2, 7); (7, 0, 11); (18, 1, 0)] /\
  t_written fin_A = hello /\ t_read fin_B = hello /\ state (t_sock fin_B) = CLOSE_WAIT /\
  (match recv 100 1010 (t_sock fin_B) (t_ev fin_B) with Ok (r, _, _) => Some r | Fault => None end) = Some (0, []).
Proof. exact fin_run_nonvacuous. Qed.

(** FINDING: the "connect segments whole" half of [sender_discipline] cannot be dropped.  Two honest sockets, a causal network that loses
    one packet, well-typed application calls (B lowers its MTU to 119 while its connect message is unacknowledged): B wrote 65..74, A reads
    65 66 67 0 65 66 67 68 69 70 (see E2EFindingProofs.v for the schedule). *)
Theorem C08_two_way_prefix_needs_whole_connect_segments_refuted :
  (sys_run st0 split_l = Ok (split_A, split_B) /\ sys_valid st0 split_l /\
   t_written split_B = abc /\ t_read split_A = [65; 66; 67; 0; 65; 66; 67; 68; 69; 70] /\
   map (fun p => (pkt_seq p, pkt_flags p, len (pkt_payload p))) (pkts (t_ev split_B)) =
     [(0, 2, 7); (7, 0, 0); (7, 0, 10); (0, 2, 3); (3, 2, 3); (6, 2, 1); (7, 0, 3)]) /\
  forall k, [65; 66; 67; 0; 65; 66; 67; 68; 69; 70] <> firstn k abc.
Proof. exact (conj split_connect_message_corrupts_the_stream split_not_a_prefix). Qed.
Print Assumptions C08_two_way_prefix_needs_whole_connect_segments_refuted.

(** END OF STREAM (partial).  Under the hypotheses of receiver soundness: once the socket has consumed the peer's FIN (rcv_nxt stands one
    past the end of the peer's stream; FIN-ACK mode), every byte the peer's application wrote has been handed to [recv] or sits, in order,
    in the receive buffer -- the FIN is never consumed before the data that precedes it.  Missing for the full clause: the link between
    what the application observes ([recv] returning 0 / the states reached through a received FIN) and "the FIN has been consumed". *)
Theorem C08_receiver_eos_partial : forall S cl s0 ops t,
  rinit cl s0 -> len S + 2 < NW -> 0 <= cl <= len S -> cl <= 61440 ->
  Forall (honest_op S cl) ops -> run (start s0) ops = Ok t ->
  support_fin_ack (t_sock t) = true -> rcv_nxt (t_sock t) = len S + 1 ->
  t_read t ++ rb_data (rbuf (t_sock t)) = skipn (Z.to_nat cl) S.
Proof. exact receiver_eos_partial. Qed.
Print Assumptions C08_receiver_eos_partial.

(** END OF STREAM in CLOSE_WAIT.  Under the hypotheses of receiver soundness: whenever the socket is in CLOSE_WAIT (the peer closed its
    sending side gracefully, we have not closed ours; FIN-ACK mode), every byte the peer's application wrote has been handed to [recv] or
    sits, in order, in the receive buffer.  ([recv] returns 0 in that state only when the buffer is empty: then all the peer's bytes were
    read.)  CLOSE_WAIT is only ever entered by the FIN handling of process() on a FIN whose predecessor data is complete. *)
Theorem C08_receiver_eos_close_wait : forall S cl s0 ops t,
  rinit cl s0 -> len S + 2 < NW -> 0 <= cl <= len S -> cl <= 61440 ->
  Forall (honest_op S cl) ops -> run (start s0) ops = Ok t ->
  support_fin_ack (t_sock t) = true -> state (t_sock t) = CLOSE_WAIT ->
  t_read t ++ rb_data (rbuf (t_sock t)) = skipn (Z.to_nat cl) S.
Proof. exact receiver_eos_close_wait. Qed.
Print Assumptions C08_receiver_eos_close_wait.
