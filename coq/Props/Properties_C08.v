(** C08 — Pseudo-TCP delivers exactly the bytes written, in order, then end-of-stream.
    Proved part: the building blocks of the data path on the bit-exact model.  The two-socket prefix /
    end-of-stream theorem over all schedules is NOT proved (DESIGN.md); that clause rests on the
    correspondence (model = code) plus the implementation-side prefix/EOS oracle as counterexample search. *)
From Coq Require Import ZArith List Bool.
From Nice Require Import Base.Bytes Ptcp.PtcpModel Ptcp.PtcpProofs Ptcp.ReassemblyProofs.
Import ListNotations.
Local Open Scope Z_scope.

(** every payload the socket emits is the slice [offset, offset+len) of its send buffer *)
Theorem C08_payload_is_slice_of_send_buffer_partial : forall seq flags offset ln now s ev w s' ev',
  packet seq flags offset ln now s ev = Ok (w, s', ev') ->
  ev' = ev \/ exists p, ev' = ev ++ [EvPacket p] /\ pkt_payload p = sub (sbuf s) offset ln.
Proof. exact packet_payload_is_slice. Qed.

(** an in-sequence segment that fits is appended to the receive buffer exactly, whatever stale extents exist *)
Theorem C08_in_order_segment_appended_exactly_partial : forall f d,
  rb_n f = len (rb_data f) -> rb_n f + len d <= rb_cap f -> 0 < len d ->
  let '(f1, copied) := rb_write_offset f d 0 in
  copied = len d /\
  exists f2, rb_commit f1 (len d) = Ok f2 /\ rb_data f2 = rb_data f ++ d /\ rb_n f2 = len (rb_data f2) /\
             rb_cap f2 = rb_cap f /\ rb_total f2 = rb_total f + len d.
Proof. exact rbuf_in_order_append. Qed.

(** Receive-side reassembly, for EVERY arrival order, duplication and overlap of the segments: if each stored extent carries the stream's
    own bytes at its position ([consistent]) and the positions being committed are covered, the bytes that become readable are exactly the
    stream's bytes at those positions. *)
Theorem C08_reassembly_delivers_the_stream_partial : forall S fut total n,
  0 <= total -> total + Z.of_nat n <= len S -> Forall (consistent S) fut ->
  (forall i, (i < n)%nat -> coveredb fut (total + Z.of_nat i) = true) ->
  fut_bytes fut total n = firstn n (skipn (Z.to_nat total) S).
Proof. exact reassembly_delivers_the_stream. Qed.

(** ... lifted to the receive FIFO: a commit of covered bytes appends the stream's next bytes to the readable data *)
Theorem C08_commit_appends_the_stream_partial : forall S f n f2,
  0 <= rb_total f -> 0 <= n -> rb_total f + n <= len S -> Forall (consistent S) (rb_fut f) ->
  (forall i, (i < Z.to_nat n)%nat -> coveredb (rb_fut f) (rb_total f + Z.of_nat i) = true) ->
  rb_commit f n = Ok f2 ->
  rb_data f2 = rb_data f ++ firstn (Z.to_nat n) (skipn (Z.to_nat (rb_total f)) S) /\ rb_total f2 = rb_total f + n.
Proof. exact rb_commit_appends_stream. Qed.
