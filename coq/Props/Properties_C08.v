(** C08 — Pseudo-TCP delivers exactly the bytes written, in order, then end-of-stream.
    Proved: the building blocks of the data path on the bit-exact model, and SENDER HONESTY over every sequence of socket
    operations (C08_sender_honesty).  The receiver-side invariant and the two-socket prefix / end-of-stream theorem over all
    schedules are NOT proved here (DESIGN.md; coq/Ptcp/ReceiverInvProofs.v holds the proved receive-side lemmas); that clause rests
    on the correspondence (model = code) plus the implementation-side prefix/EOS oracle as counterexample search.
    C08_receiver_needs_more_than_honest_data_refuted is a concrete run showing that honesty of the data segments alone is not enough. *)
From Coq Require Import ZArith List Bool.
From Nice Require Import Base.Bytes Ptcp.PtcpModel Ptcp.PtcpProofs Ptcp.ReassemblyProofs Ptcp.SockOps Ptcp.SenderInvProofs Ptcp.E2ESafetyProofs.
Import ListNotations.
Local Open Scope Z_scope.

(** every payload the socket emits is the slice [offset, offset+len) of its send buffer *)
Theorem C08_payload_is_slice_of_send_buffer_partial : forall seq flags offset ln now s ev w s' ev',
  packet seq flags offset ln now s ev = Ok (w, s', ev') ->
  ev' = ev \/ exists p, ev' = ev ++ [EvPacket p] /\ pkt_payload p = sub (sbuf s) offset ln.
Proof. exact packet_payload_is_slice. Qed.

(** an in-sequence segment that fits is appended to the receive buffer exactly, whatever stale extents exist *)
Theorem C08_in_order_segment_appended_exactly_partial : forall f d,
  rb_n f = len (rb_data f) -> rb_n f + len d <= rb_cap f -> 0 < len d ->
  let '(f1, copied) := rb_write_offset f d 0 in
  copied = len d /\
  exists f2, rb_commit f1 (len d) = Ok f2 /\ rb_data f2 = rb_data f ++ d /\ rb_n f2 = len (rb_data f2) /\
             rb_cap f2 = rb_cap f /\ rb_total f2 = rb_total f + len d.
Proof. exact rbuf_in_order_append. Qed.

(** Receive-side reassembly, for EVERY arrival order, duplication and overlap of the segments: if each stored extent carries the stream's
    own bytes at its position ([consistent]) and the positions being committed are covered, the bytes that become readable are exactly the
    stream's bytes at those positions. *)
Theorem C08_reassembly_delivers_the_stream_partial : forall S fut total n,
  0 <= total -> total + Z.of_nat n <= len S -> Forall (consistent S) fut ->
  (forall i, (i < n)%nat -> coveredb fut (total + Z.of_nat i) = true) ->
  fut_bytes fut total n = firstn n (skipn (Z.to_nat total) S).
Proof. exact reassembly_delivers_the_stream. Qed.

(** ... lifted to the receive FIFO: a commit of covered bytes appends the stream's next bytes to the readable data *)
Theorem C08_commit_appends_the_stream_partial : forall S f n f2,
  0 <= rb_total f -> 0 <= n -> rb_total f + n <= len S -> Forall (consistent S) (rb_fut f) ->
  (forall i, (i < Z.to_nat n)%nat -> coveredb (rb_fut f) (rb_total f + Z.of_nat i) = true) ->
  rb_commit f n = Ok f2 ->
  rb_data f2 = rb_data f ++ firstn (Z.to_nat n) (skipn (Z.to_nat (rb_total f)) S) /\ rb_total f2 = rb_total f + n.
Proof. exact rb_commit_appends_stream. Qed.

(** SENDER HONESTY.  [run (start s0) ops] applies ANY sequence of operations (connect / send / recv / notify_packet with any bytes /
    notify_clock and get_next_clock at any times / notify_mtu / shutdown / close / buffer sizes) to a socket that starts in LISTEN with
    nothing queued; [t_written] is the concatenation of the prefixes [send] accepted, [t_ev] every event so far.  If the model does not
    Fault and fewer than 2^31 - 8 bytes were accepted (no sequence-number wrap), there is an offset c <= 7 (the length of the connect
    message) such that EVERY data packet ever emitted (non-empty payload, no CTL flag; first transmissions, retransmissions, MTU-driven
    re-segmentations alike) carries exactly the accepted bytes at position seq - c. *)
Theorem C08_sender_honesty : forall s0 ops t,
  init_ok s0 -> run (start s0) ops = Ok t -> len (t_written t) < NW - 8 ->
  exists c, 0 <= c <= 7 /\
    forall p, In (EvPacket p) (t_ev t) -> data_packet p ->
      c <= pkt_seq p /\ pkt_seq p - c + len (pkt_payload p) <= len (t_written t) /\
      pkt_payload p = sub (t_written t) (pkt_seq p - c) (len (pkt_payload p)).
Proof. exact sender_honesty. Qed.
Print Assumptions C08_sender_honesty.

(** the hypotheses are satisfiable: the default socket is an initial socket ... *)
Theorem C08_sender_honesty_initial_socket : forall cv, init_ok (sock_init cv).
Proof. exact sock_init_ok. Qed.
Print Assumptions C08_sender_honesty_initial_socket.

(** ... and a concrete run (connect, the peer's answer, 25 bytes written, MTU lowered to 126, two retransmission time-outs, 3 more
    bytes written) emits the first transmission and two re-segmented retransmissions, all at sequence number 7 *)
Example C08_sender_honesty_nonvacuous :
  match run (start (sock_init 7)) ops_sender with
  | Ok t => (t_written t, data_pkts (t_ev t))
  | Fault => ([], [])
  end = (msg25 ++ [1; 2; 3], [(7, msg25); (7, firstn 10 msg25); (7, firstn 10 msg25)]).
Proof. exact sender_run_nontrivial. Qed.

(** FINDING (receiver side): every data segment fed below is the slice of the peer's stream at its sequence number, yet [recv] returns
    bytes that are not a prefix of the peer's application bytes (65..74): the first connect segment carries a timestamp echo from the
    future, is rejected AFTER it moved the socket to ESTABLISHED, and rcv_nxt stays 0 (see E2ESafetyProofs.v). *)
Theorem C08_receiver_needs_more_than_honest_data_refuted :
  match run (start (sock_init 7)) ops_bad_timestamp with
  | Ok t => (t_read t, state (t_sock t))
  | Fault => ([], CLOSED)
  end = ([65; 66; 67; 68; 0; 0; 0; 65; 66; 67], ESTABLISHED) /\
  forall k, [65; 66; 67; 68; 0; 0; 0; 65; 66; 67] <> firstn k peer_app.
Proof. exact (conj honest_data_bad_timestamp_corrupts_the_stream corrupted_not_a_prefix). Qed.
Print Assumptions C08_receiver_needs_more_than_honest_data_refuted.
