(** C05 — No byte string makes the STUN message code misbehave (model part: no Fault, extents inside the packet). *)
From Coq Require Import ZArith List Bool.
From Nice Require Import Base.Bytes Stun.StunModel Stun.StunAgentModel Stun.StunProofs1 Stun.StunProofs2 Stun.StunProofs5.
Import ListNotations.
Local Open Scope Z_scope.

(** In the models every buffer access goes through a checked read and every assert is explicit, so
    "= Ok r" means: no access outside the packet, no failed assertion. *)
Theorem C05_length_checks_never_fault : forall buf padded, wfb buf -> exists r, validate_len buf padded = Ok r.
Proof. exact validate_len_no_fault. Qed.

Theorem C05_vectored_precheck_never_faults : forall bufs total padded, wfb (concat bufs) ->
  exists r, validate_fast bufs total padded = Ok r.
Proof. exact validate_fast_no_fault. Qed.

(** validation of ANY byte string (up to 65535 bytes), any compatibility mode, flags, validater and agent state *)
Theorem C05_validate_never_faults : forall a buf vd, wfb buf -> len buf < 65536 -> exists r, validate a buf vd = Ok r.
Proof. exact validate_no_fault. Qed.

(** anything an accessor returns lies inside the packet, after the header *)
Theorem C05_lookup_extent_inside_packet : forall c m ty o a, wfb m -> len m < 65536 ->
  WfMsg (negb (f_no_aligned c)) m -> find c m ty = Ok (Some (o, a)) -> 24 <= o /\ 0 <= a /\ o + a <= len m.
Proof. exact find_extent. Qed.

(** typed accessors never fault on a validated message *)
Theorem C05_accessors_never_fault : forall c m, wfb m -> len m < 65536 -> WfMsg (negb (f_no_aligned c)) m ->
  (forall ty, exists r, find_flag c m ty = Ok r) /\ (forall ty, exists r, find32 c m ty = Ok r) /\
  (forall ty, exists r, find64 c m ty = Ok r) /\ (forall ty n, exists r, find_string c m ty n = Ok r) /\
  (forall ty n, exists r, find_addr c m ty n = Ok r) /\ (forall ty n k, exists r, find_xor_addr_full c m ty n k = Ok r) /\
  (exists r, find_error c m = Ok r).
Proof.
  intros c m W Hlt HW. repeat split; intros.
  - apply find_flag_ok; assumption. - apply find32_ok; assumption. - apply find64_ok; assumption.
  - apply find_string_ok; assumption. - apply find_addr_ok; assumption. - apply find_xor_addr_ok; assumption.
  - apply find_error_ok; assumption.
Qed.
