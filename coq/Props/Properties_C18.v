(** C18 — SDP and address text forms round-trip and reject garbage safely.
    Statements only; proofs in Sdp/AddrProofs.v, Sdp/Addr6Proofs.v, Sdp/SdpProofs.v.  The models are
    Sdp/SdpModel.v (agent.c:7174-7590 + GLib) and Sdp/AddrModel.v (address.c + glibc inet_ntop /
    getaddrinfo(AI_NUMERICHOST)); the IPv4 classifiers are the definitions GENERATED from /repo's
    address.c (Gen/Address.v).  Strings are lists of byte values.

    Specification vocabulary (defined next to the proofs):
      wf_cand c      the C types' ranges: type, transport in 0..3, priority and component 32-bit, foundation of at
                     most 32 characters without ' ', [addr] valid, addresses well formed (any IPv4 / IPv6, any port)
      rt_image c     c with port 0 written as 9 in [addr] and [base], scope ids dropped, and [base] kept only when
                     it is valid and differs from [addr] (nice_address_equal) — what the property says comes back
      strip a        a without port and scope id (what a text form carries)
      parsed_ok c    valid address, ports / priority / component / type / transport in range, foundation <= 32 *)
From Coq Require Import ZArith List Bool Lia.
From Nice Require Import Base.CSem Gen.Address Sdp.AddrModel Sdp.SdpModel Sdp.AddrProofs Sdp.Addr6Proofs Sdp.SdpProofs.
Import ListNotations.
Local Open Scope Z_scope.

(** ** SDP candidate line *)
(* for EVERY candidate: 4 types x 4 transports x any 32-bit priority x any 32-bit component x any foundation of
   0..32 characters without a space x any IPv4/IPv6 address x any port x any base address (or none);
   [false] = no GLib CRITICAL on the way *)
Theorem C18_sdp_roundtrip : forall c, wf_cand c ->
  parse_candidate_full (gen_candidate c) = PCand (rt_image c) false.
Proof. exact candidate_roundtrip. Qed.

(* the same, field by field *)
Theorem C18_sdp_roundtrip_fields : forall c, wf_cand c ->
  exists c', parse_candidate (gen_candidate c) = Some c' /\
    c_found c' = c_found c /\ c_comp c' = c_comp c /\ c_transport c' = c_transport c /\ c_prio c' = c_prio c /\
    c_type c' = c_type c /\
    c_addr c' = norm_addr (c_addr c) /\
    c_base c' = (if addr_valid (c_base c) && negb (addr_equal (c_addr c) (c_base c)) then norm_addr (c_base c) else AUnspec).
Proof.
  intros c H. exists (rt_image c). split; [exact (candidate_roundtrip_opt c H)|]. repeat split.
Qed.

(* "%d" of a 32-bit value (negative text from 2^31 on) is read back by g_ascii_strtoull + (guint32) as the value *)
Theorem C18_priority_text_roundtrip : forall x, 0 <= x < 4294967296 ->
  g_strtoull10 (print_d32 x) mod 4294967296 = x.
Proof. exact d32_roundtrip. Qed.

(** ** parser totality *)
(* any string: never a NULL dereference (PFault), and a returned candidate has a valid address and in-range fields *)
Theorem C18_parse_total : forall s,
  parse_candidate_full s <> PFault /\
  forall c crit, parse_candidate_full s = PCand c crit -> parsed_ok c.
Proof. exact parse_total. Qed.

(* the only way to a GLib CRITICAL (g_ascii_strcasecmp (NULL, "so")) is transport "TCP" without tcptype; the
   candidate then comes out as TCP_SO *)
Theorem C18_parse_critical_only_null_tcptype : forall s c,
  parse_candidate_full s = PCand c true -> c_transport c = 3.
Proof. exact parse_critical_only_null_tcptype. Qed.

(** ** stream and agent level *)
Theorem C18_stream_roundtrip : forall st, wf_stream st ->
  parse_remote_stream_sdp (gen_stream st)
  = (Some (s_lufrag st), Some (s_lpwd st), rev (map rt_image (concat (s_comps st)))).
Proof. exact stream_roundtrip. Qed.

(* agent A: any number >= 1 of streams (named or not) with their credentials and candidates; agent B with the
   same stream/component layout: credentials reproduced, every candidate handed over as rt_image, return value =
   number of candidates that priv_add_remote_candidate accepts *)
Theorem C18_agent_sdp_roundtrip : forall sts, sts <> [] -> Forall wf_stream sts ->
  parse_remote_sdp (map recv_init sts) (gen_sdp sts)
  = (accepted_count (flat_map (fun s => concat (s_comps s)) sts), map recv_filled sts).
Proof. exact sdp_roundtrip. Qed.

(** ** address text *)
Theorem C18_addr_v4 : forall ip p, 0 <= ip < 4294967296 -> from_string (to_string (A4 ip p)) = Some (A4 ip 0).
Proof. exact from_to_string_v4. Qed.

(* all 2^128 IPv6 addresses: plain, "::"-compressed and both embedded-IPv4 forms of inet_ntop *)
Theorem C18_addr_v6 : forall ws p sc, wf_words ws -> from_string (to_string (A6 ws p sc)) = Some (A6 ws 0 0).
Proof. exact from_to_string_v6. Qed.

Theorem C18_addr : forall a, wf_addr a -> addr_valid a = true -> from_string (to_string a) = Some (strip a).
Proof. exact from_to_string. Qed.

(* ... and to_string is the inverse of from_string on the printed forms *)
Theorem C18_to_from_string : forall a, wf_addr a -> addr_valid a = true ->
  option_map to_string (from_string (to_string a)) = Some (to_string a).
Proof. exact to_from_string. Qed.

(* the text determines the IP *)
Theorem C18_to_string_injective : forall a b, wf_addr a -> wf_addr b -> addr_valid a = true -> addr_valid b = true ->
  (to_string a = to_string b <-> strip a = strip b).
Proof. exact to_string_inj. Qed.

(** ** equality (scope id 0, DESIGN.md §6) *)
Theorem C18_equal_refl : forall a, addr_valid a = true -> addr_equal a a = true.
Proof. exact addr_equal_refl. Qed.
Theorem C18_equal_sym : forall a b, addr_equal a b = addr_equal b a.
Proof. exact addr_equal_sym. Qed.
Theorem C18_equal_trans : forall a b c, scope0 a -> scope0 b -> scope0 c ->
  addr_equal a b = true -> addr_equal b c = true -> addr_equal a c = true.
Proof. exact addr_equal_trans. Qed.
Theorem C18_equal_iff_text : forall a b, wf_addr a -> wf_addr b -> scope0 a -> scope0 b ->
  (addr_equal a b = true <-> to_string a = to_string b /\ addr_port a = addr_port b).
Proof. exact equal_iff_text_and_port. Qed.
Theorem C18_equal_no_port_iff_text : forall a b, wf_addr a -> wf_addr b -> scope0 a -> scope0 b ->
  (addr_equal_no_port a b = true <-> to_string a = to_string b).
Proof. exact equal_no_port_iff_text. Qed.

(** ** classification = RFC ranges, for all addresses *)
Theorem C18_private4 : forall ip, 0 <= ip < 4294967296 ->
  is_private4 ip = in_range 167772160 184549375 ip        (* 10/8 *)
                || in_range 2886729728 2887778303 ip      (* 172.16/12 *)
                || in_range 3232235520 3232301055 ip      (* 192.168/16 *)
                || in_range 2851995648 2852061183 ip      (* 169.254/16 *)
                || in_range 2130706432 2147483647 ip.     (* 127/8 *)
Proof. exact is_private4_ranges. Qed.
Theorem C18_linklocal4 : forall ip, 0 <= ip < 4294967296 -> is_linklocal4 ip = in_range 2851995648 2852061183 ip.
Proof. exact is_linklocal4_range. Qed.
Theorem C18_private6 : forall ws, wf_words ws ->
  is_private6 ws = in_range 65152 65215 (nth 0 ws 0)      (* fe80::/10 *)
                || in_range 64512 65023 (nth 0 ws 0)      (* fc00::/7 *)
                || zlist_eqb ws loopback6.                (* ::1 *)
Proof. exact is_private6_ranges. Qed.
Theorem C18_linklocal6 : forall ws, wf_words ws -> is_linklocal6 ws = in_range 65152 65215 (nth 0 ws 0).
Proof. exact is_linklocal6_range. Qed.

(** ** non-vacuity: concrete values, by computation *)
Definition ex_cand : cand :=
  mkCand 1 2 (A6 [65152; 0; 0; 0; 0; 0; 0; 1] 0 7) (A4 2130706433 77) 4294967295 256 [97; 98; 99].

(* "a=candidate:abc 256 TCP -1 fe80::1 9 typ srflx raddr 127.0.0.1 rport 77 tcptype passive" *)
Example C18_ex_generate : gen_candidate ex_cand =
  [97; 61; 99; 97; 110; 100; 105; 100; 97; 116; 101; 58; 97; 98; 99; 32; 50; 53; 54; 32; 84; 67; 80; 32; 45; 49; 32; 102; 101; 56; 48;
   58; 58; 49; 32; 57; 32; 116; 121; 112; 32; 115; 114; 102; 108; 120; 32; 114; 97; 100; 100; 114; 32; 49; 50; 55; 46; 48; 46; 48;
   46; 49; 32; 114; 112; 111; 114; 116; 32; 55; 55; 32; 116; 99; 112; 116; 121; 112; 101; 32; 112; 97; 115; 115; 105; 118; 101].
Proof. vm_compute. reflexivity. Qed.

Example C18_ex_roundtrip : parse_candidate_full (gen_candidate ex_cand) =
  PCand (mkCand 1 2 (A6 [65152; 0; 0; 0; 0; 0; 0; 1] 9 0) (A4 2130706433 77) 4294967295 256 [97; 98; 99]) false.
Proof. vm_compute. reflexivity. Qed.

Example C18_ex_wf : wf_cand ex_cand.
Proof.
  unfold wf_cand, ex_cand; cbn [c_type c_transport c_prio c_comp c_found c_addr c_base wf_addr wf_words length].
  repeat split; try lia; repeat constructor; try lia; try discriminate.
Qed.

(* "a=candidate:1 1 TCP 5 1.2.3.4 5 typ host": no tcptype -> TCP_SO with a CRITICAL *)
Example C18_ex_null_tcptype :
  parse_candidate_full [97; 61; 99; 97; 110; 100; 105; 100; 97; 116; 101; 58; 49; 32; 49; 32; 84; 67; 80; 32; 53; 32; 49; 46; 50; 46; 51;
                        46; 52; 32; 53; 32; 116; 121; 112; 32; 104; 111; 115; 116]
  = PCand (mkCand 0 3 (A4 16909060 5) AUnspec 5 1 [49]) true.
Proof. vm_compute. reflexivity. Qed.

(* the boundary of the round-trip statement: a space inside the foundation splits the token ("a b" comes back as "a",
   the line no longer parses as intended) — foundations are ice-chars, DESIGN.md §3 C18 states the theorem without ' ' *)
Example C18_ex_space_in_foundation :
  parse_candidate (gen_candidate (mkCand 0 0 (A4 16909060 5) AUnspec 5 1 [97; 32; 98])) = None.
Proof. vm_compute. reflexivity. Qed.

(* garbage: "a=candidate:x" and "a=candidate:1 1 UDP 1 999.1.1.1 1 typ host" *)
Example C18_ex_garbage :
  parse_candidate_full [97; 61; 99; 97; 110; 100; 105; 100; 97; 116; 101; 58; 120] = PNone /\
  parse_candidate_full [97; 61; 99; 97; 110; 100; 105; 100; 97; 116; 101; 58; 49; 32; 49; 32; 85; 68; 80; 32; 49; 32; 57; 57; 57; 46; 49;
                        46; 49; 46; 49; 32; 49; 32; 116; 121; 112; 32; 104; 111; 115; 116] = PNone.
Proof. vm_compute. split; reflexivity. Qed.

(* 192.168.1.1 ; ::ffff:1.2.3.4 ; 1::2:3:0:0:4 *)
Example C18_ex_addr_text :
  to_string (A4 3232235777 5) = [49; 57; 50; 46; 49; 54; 56; 46; 49; 46; 49] /\
  to_string (A6 [0; 0; 0; 0; 0; 65535; 258; 772] 0 0) = [58; 58; 102; 102; 102; 102; 58; 49; 46; 50; 46; 51; 46; 52] /\
  to_string (A6 [1; 0; 0; 2; 3; 0; 0; 4] 0 0) = [49; 58; 58; 50; 58; 51; 58; 48; 58; 48; 58; 52] /\
  from_string [49; 58; 58; 50; 58; 51; 58; 48; 58; 48; 58; 52] = Some (A6 [1; 0; 0; 2; 3; 0; 0; 4] 0 0) /\
  from_string [48; 120; 55; 102; 46; 49] = Some (A4 2130706433 0) /\          (* "0x7f.1" *)
  from_string [49; 46; 50; 46; 51; 46; 50; 53; 54] = None.                     (* "1.2.3.256" *)
Proof. vm_compute. repeat split; reflexivity. Qed.

(* one address inside and one just outside each range *)
Example C18_ex_classes :
  is_private4 167772160 = true /\ is_private4 184549376 = false /\ is_private4 2887778303 = true /\ is_private4 2887778304 = false /\
  is_private4 3232301055 = true /\ is_private4 3232301056 = false /\ is_private4 2130706433 = true /\ is_private4 2147483648 = false /\
  is_linklocal4 2851995648 = true /\ is_linklocal4 2851995647 = false /\
  is_linklocal6 [65215; 0; 0; 0; 0; 0; 0; 1] = true /\ is_linklocal6 [65216; 0; 0; 0; 0; 0; 0; 1] = false /\
  is_private6 [64768; 0; 0; 0; 0; 0; 0; 1] = true /\ is_private6 [65024; 0; 0; 0; 0; 0; 0; 1] = false /\
  is_private6 loopback6 = true /\ is_private6 [0; 0; 0; 0; 0; 0; 0; 2] = false.
Proof. vm_compute. repeat split; reflexivity. Qed.

Example C18_ex_equal :
  addr_equal (A4 1 2) (A4 1 2) = true /\ addr_equal (A4 1 2) (A4 1 3) = false /\ addr_equal_no_port (A4 1 2) (A4 1 3) = true /\
  addr_equal (A6 loopback6 5 0) (A4 1 5) = false.
Proof. vm_compute. repeat split; reflexivity. Qed.

(* two streams, agent level *)
Definition ex_streams : list stream :=
  [mkStream (Some [97; 117; 100; 105; 111]) [117; 102] [112; 119]
     [[mkCand 1 2 (A6 [65152; 0; 0; 0; 0; 0; 0; 1] 0 7) (A4 2130706433 77) 4294967295 1 [97; 98; 99]]; []];
   mkStream None [117; 50] [112; 50] [[mkCand 0 0 (A4 16909060 5000) AUnspec 100 1 [102; 49]]]].
Example C18_ex_agent_sdp :
  parse_remote_sdp (map recv_init ex_streams) (gen_sdp ex_streams) = (2, map recv_filled ex_streams).
Proof. vm_compute. reflexivity. Qed.
