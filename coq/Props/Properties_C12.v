(** C12 — the part of "never spins" that is arithmetic: re-arming of the keepalive timer (proved); memory safety, leak freedom and the
    other timers are explored by running random API programs under ASan/UBSan/LSan in the simulator (DESIGN.md). *)
From Coq Require Import ZArith List Bool.
From Nice Require Import Gen.Consent Agent.KeepaliveModel Agent.KeepaliveProofs.
Import ListNotations.
Local Open Scope Z_scope.

(** a tick that sends a keepalive comes back after Ta = 20 ms, and only a pair that was due is served *)
Theorem C12_keepalive_tick_paced : forall fresh now ps k d, rearm fresh now ps = (Some k, d) ->
  d = T_TA_DEFAULT /\ 0 < d /\ exists nt, nth_error ps k = Some nt /\ (nt = 0 \/ nt <= now).
Proof. exact rearm_sent. Qed.

(** a tick with nothing due goes back to sleep: the unsigned subtraction does not wrap, the interval never passes the earliest pending
    keepalive nor the period, and it is zero only when a keepalive is due within the next millisecond (no busy loop beyond that) *)
Theorem C12_keepalive_tick_sleeps : forall fresh now ps d, 0 <= now < 2 ^ 62 -> Forall (fun nt => 0 <= nt < 2 ^ 62) ps ->
  rearm fresh now ps = (None, d) ->
  Forall (fun nt => now < nt) ps /\ 0 <= d /\ d * 1000 <= base_next fresh now - now /\
  Forall (fun nt => now + d * 1000 <= nt) ps /\ (d = 0 -> exists nt, In nt ps /\ nt - now < 1000).
Proof. exact rearm_idle. Qed.
