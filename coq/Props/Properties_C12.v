(** C12 — the part of "never spins" that is arithmetic: re-arming of the keepalive timer (proved); memory safety, leak freedom and the
    other timers are explored by running random API programs under ASan/UBSan/LSan in the simulator (DESIGN.md). *)
From Coq Require Import ZArith List Bool.
From Nice Require Import Gen.Consent Agent.KeepaliveModel Agent.KeepaliveProofs.
Import ListNotations.
Local Open Scope Z_scope.

(** a tick that sends a keepalive comes back after Ta = 20 ms, and only a pair that was due is served *)
Theorem C12_keepalive_tick_paced : forall fresh now ps k d, rearm fresh now ps = (Some k, d) ->
  d = T_TA_DEFAULT /\ 0 < d /\ exists nt, nth_error ps k = Some nt /\ (nt = 0 \/ nt <= now).
Proof. exact rearm_sent. Qed.

(** a tick with nothing due goes back to sleep: the unsigned subtraction does not wrap, the interval never passes the earliest pending
    keepalive nor the period, and it is zero only when a keepalive is due within the next millisecond (no busy loop beyond that) *)
Theorem C12_keepalive_tick_sleeps : forall fresh now ps d, 0 <= now < 2 ^ 62 -> Forall (fun nt => 0 <= nt < 2 ^ 62) ps ->
  rearm fresh now ps = (None, d) ->
  Forall (fun nt => now < nt) ps /\ 0 <= d /\ d * 1000 <= base_next fresh now - now /\
  Forall (fun nt => now + d * 1000 <= nt) ps /\ (d = 0 -> exists nt, In nt ps /\ nt - now < 1000).
Proof. exact rearm_idle. Qed.

(** ------------------------------------------------------------------------------------------------------------------------------
    The reference graph of a component (coq/Agent/OwnModel.v, tied to agent/component.c, discovery.c, conncheck.c by harness/own_h.c):
    WF s = every pointer stored in any container or object (selected pair, pair.local/remote/sockptr, candidate.sockptr, TURN socket's
    base socket, incoming checks, socket sources, discovery and refresh items, check list, triggered queue) refers to a live object.
    "fault" = 1 after a use of a freed object, 2 after a failed g_assert.  The theorems hold for ALL states (any number of objects). *)
From Nice Require Import Agent.OwnModel Agent.OwnProofs.

(** conn_check_prune_socket, for every well-formed state and every socket: no use after free, no assertion (given that a nominated pair
    implies a selected pair of non-zero priority), WF is kept, only pairs / check list / triggered queue / component state change, no pair
    is invented, a pair is unlinked from the check list only by being freed, pairs of other components and pairs not on the list are
    untouched, and afterwards NO pair of this component on the check list uses the socket (neither through its local or remote
    candidate's sockptr nor through its own) *)
Theorem C12_prune_socket_sound : forall s sk, WF s -> fault s = 0 -> cstate_ok s -> (no_nominated s \/ sel_prio s > 0) ->
  let s' := conn_check_prune_socket s sk in
  WF s' /\ fault s' = 0 /\ cstate_ok s' /\ frameP s s' /\
  (forall x, In x (pairs s') -> In x (pairs s)) /\
  (forall i, In i (clist s') -> In i (clist s)) /\
  (forall x, In x (pairs s') -> In (p_id x) (clist s) -> In (p_id x) (clist s')) /\
  (forall x, In x (pairs s) -> ~ In (p_id x) (clist s) -> In x (pairs s')) /\
  (forall x, In x (pairs s) -> p_comp x <> cid s -> In x (pairs s') /\ (In (p_id x) (clist s) -> In (p_id x) (clist s'))) /\
  (forall pr, In pr (pairs s') -> In (p_id pr) (clist s') -> p_comp pr = cid s' -> pair_touches s' pr sk = Some false).
Proof. exact ccps_spec. Qed.
Print Assumptions C12_prune_socket_sound.

(** nice_component_detach_socket (which closes and frees the socket) is sound exactly when nothing but the candidate about to be freed still
    points to the socket: then every other reference in the state is still live, the incoming checks received on it and its source are gone *)
Theorem C12_detach_socket_sound : forall s k c, WF s -> fault s = 0 -> In k (sources s) ->
  (forall x, In x (socks s) -> sk_base x <> Some k) -> (forall x, In x (cands s) -> c_sock x = Some k -> c_id x = c) ->
  (forall p, In p (pairs s) -> p_sock p <> k) -> (forall r, In r (refrs s) -> r_sock r <> k) -> (forall d, In d (discs s) -> d_sock d <> k) ->
  WFx (Some c) (detach_socket s k) /\ fault (detach_socket s k) = 0 /\
  detach_socket s k = set_socks (set_sources (set_ichecks s (filter (fun i => negb (i_sock i =? k)) (ichecks s))) (remove1 k (sources s))) (filter (fun x => negb (sk_id x =? k)) (socks s)).
Proof. exact detach_spec. Qed.
Print Assumptions C12_detach_socket_sound.

(** freeing a candidate and unlinking it from its list restores full well-formedness once no pair, refresh, selected pair or turn_candidate
    refers to it *)
Theorem C12_free_candidate_sound : forall s c loc, WFx (Some c) s -> fault s = 0 -> live_cand s c ->
  (loc = true -> ~ In c (rcands s)) -> (loc = false -> ~ In c (lcands s)) ->
  (forall p, In p (pairs s) -> p_local p <> c /\ p_remote p <> c) -> (forall r, In r (refrs s) -> r_cand r <> c) ->
  sel_l s <> Some c -> sel_r s <> Some c -> turn_cand s <> Some c ->
  WF (drop_cand s c loc) /\ fault (drop_cand s c loc) = 0 /\
  drop_cand s c loc = (if loc then set_lcands (set_cands s (filter (fun x => negb (c_id x =? c)) (cands s))) (remove1 c (lcands s))
                       else set_rcands (set_cands s (filter (fun x => negb (c_id x =? c)) (cands s))) (remove1 c (rcands s))).
Proof. exact drop_spec. Qed.
Print Assumptions C12_free_candidate_sound.

(** refresh_prune_candidate: WF is kept, no fault, only the refresh containers change, every refresh of the candidate that was on
    agent->refresh_list is gone, every other refresh stays (and stays listed) *)
Theorem C12_refresh_prune_candidate_sound : forall s c, WF s -> fault s = 0 ->
  WF (refresh_prune_candidate s c) /\ fault (refresh_prune_candidate s c) = 0 /\ frameR s (refresh_prune_candidate s c) /\
  (forall x, In x (refrs (refresh_prune_candidate s c)) -> In x (refrs s) /\ (In (r_id x) (rlist s) -> r_cand x <> c)) /\
  (forall x, In x (refrs s) -> r_cand x <> c -> In x (refrs (refresh_prune_candidate s c))) /\
  (forall i, In i (rlist s) -> live_refr (refresh_prune_candidate s c) i -> In i (rlist (refresh_prune_candidate s c))).
Proof. exact refresh_prune_candidate_spec. Qed.
Print Assumptions C12_refresh_prune_candidate_sound.

(** once no pair of the check list touches a socket, no pair at all refers to a candidate of this component that sits on that socket: the
    candidate can be freed (the argument nice_component_remove_socket relies on between conn_check_prune_socket and nice_candidate_free) *)
Theorem C12_pruned_candidate_unreferenced : forall s ns sk cd, WF s -> Pre s ns -> touches_none s sk -> In cd (cands s) -> c_sock cd = Some sk ->
  In (c_id cd) (lcands s) \/ In (c_id cd) (rcands s) -> forall p, In p (pairs s) -> p_local p <> c_id cd /\ p_remote p <> c_id cd.
Proof. exact untouched_cand. Qed.
Print Assumptions C12_pruned_candidate_unreferenced.

(** tear-down (conn_check_prune_stream, discovery_prune_stream, nice_component_close), from ANY state, well-formed or not: every container of
    the component is empty afterwards and no selected pair / turn candidate is left *)
Theorem C12_teardown_empties : forall s, let s' := teardown s in
  lcands s' = [] /\ rcands s' = [] /\ sources s' = [] /\ ichecks s' = [] /\ clist s' = [] /\ discs s' = [] /\
  sel_l s' = None /\ sel_r s' = None /\ turn_cand s' = None.
Proof. exact teardown_empties. Qed.
Print Assumptions C12_teardown_empties.

(** nice_component_remove_socket, from ANY state: no incoming check received on the removed socket is left *)
Theorem C12_remove_socket_drops_incoming_checks : forall s ns i, In i (ichecks (remove_socket s ns)) -> i_sock i <> ns.
Proof. exact remove_socket_ichecks. Qed.
Print Assumptions C12_remove_socket_drops_incoming_checks.

(** nice_component_remove_socket is NOT sound for every well-formed state: four states (all with a TURN socket layered on the socket that
    goes) on which the faithful model, and the real function under ASan (harness/own_h.c), misbehave *)
Theorem C12_remove_socket_shared_turn_socket_refuted : fault w1 = 0 /\ fault (remove_socket w1 0) = 1.
Proof. exact remove_socket_shared_turn_socket_refuted. Qed.
Print Assumptions C12_remove_socket_shared_turn_socket_refuted.
Theorem C12_remove_socket_prflx_on_turn_socket_refuted :
  let s' := remove_socket w2 0 in
  fault s' = 0 /\ exists c, In c (cands s') /\ In (c_id c) (rcands s') /\ c_sock c = Some 1 /\ ~ live_sock s' 1.
Proof. exact remove_socket_prflx_on_turn_socket_refuted. Qed.
Print Assumptions C12_remove_socket_prflx_on_turn_socket_refuted.
Theorem C12_remove_socket_turn_candidate_refuted :
  let s' := remove_socket w3 0 in
  fault s' = 0 /\ turn_cand s' = Some 9 /\ sel_l s' = Some 9 /\ In (mk_cand 9 (Some 2) true) (cands s') /\ In (mk_sock 2 (Some 0)) (socks s') /\ In 2 (sources s') /\ ~ live_sock s' 0.
Proof. exact remove_socket_turn_candidate_refuted. Qed.
Print Assumptions C12_remove_socket_turn_candidate_refuted.
Theorem C12_remove_socket_assert_refuted : fault w4 = 0 /\ fault (remove_socket w4 0) = 2.
Proof. exact remove_socket_assert_refuted. Qed.
Print Assumptions C12_remove_socket_assert_refuted.

(** non-vacuity: a concrete state (two plain sockets, a TURN socket with its relayed candidate on socket 0, a peer-reflexive remote learnt on
    socket 0, four pairs, triggered queue, incoming checks, discoveries, a refresh, the selected pair on socket 0, READY): socket 0 goes *)
Example C12_remove_socket_example :
  let s' := remove_socket ex_state 0 in
  fault s' = 0 /\ map sk_id (socks s') = [1] /\ map c_id (cands s') = [11; 20] /\ lcands s' = [11] /\ rcands s' = [20] /\ sources s' = [1] /\
  clist s' = [31] /\ map p_id (pairs s') = [31] /\ trig s' = [] /\ map i_id (ichecks s') = [41] /\ map d_id (discs s') = [52] /\ refrs s' = [] /\ rlist s' = [] /\
  sel_l s' = None /\ sel_r s' = None /\ cstate s' = 5 /\ verdict s' = 0.
Proof. exact remove_socket_example. Qed.
