(** C20 — candidate gathering: proved kernels (redundancy elimination, transaction duration); the gathering session
    against scripted servers is explored on the simulator. *)
From Coq Require Import ZArith List Bool Lia.
From Nice Require Import Timer.TimerModel Timer.TimerProofs Agent.GatherModel Agent.GatherProofs.
Import ListNotations.
Local Open Scope Z_scope.

(** whatever candidates discovery supplies, in whatever order: the local candidate list never holds a candidate redundant with an
    earlier one (same address+base+transport, or a second srflx / relay on the same IP) ... *)
Theorem C20_no_redundant_candidates : forall xs, clean (snd (add_all [] xs)).
Proof. intros xs. apply add_all_clean. exact I. Qed.

(** ... in particular none twice (each accepted candidate is announced once) ... *)
Theorem C20_each_candidate_once : forall xs, NoDup (snd (add_all [] xs)).
Proof. intros xs. apply clean_nodup, add_all_clean. exact I. Qed.

(** ... and none that no discovery result supplied *)
Theorem C20_no_invented_candidate : forall xs c, In c (snd (add_all [] xs)) -> In c xs.
Proof. intros xs c H. destruct (add_all_supplied xs [] c H) as [[]|H']; exact H'. Qed.

(** a candidate is refused only because an earlier one is redundant with it *)
Theorem C20_refusal_has_a_reason : forall l x, fst (add_pruned l x) = false -> exists c, In c l /\ redundant c x = true.
Proof. exact add_pruned_refused. Qed.

(** a host candidate for a new local transport address is always kept *)
Theorem C20_host_candidates_kept : forall l x, k_type x = 0 -> (forall c, In c l -> same_cand c x = false) -> fst (add_pruned l x) = true.
Proof. exact host_kept. Qed.

(** with the default timer (N = 3 transmissions) an unanswered discovery transaction is given up after exactly 4 x RTO of waiting
    (500 + 1000 + 500 ms by default) — the per-item term of the gathering time bound; exact retransmission instants: C19 *)
Theorem C20_unanswered_transaction_waits : forall T, 1 <= T -> wait T 3 1 + wait T 3 2 + wait T 3 3 = 4 * T.
Proof. intros T HT. destruct (wait_examples T HT) as (-> & -> & -> & _). lia. Qed.
