(** C20 — candidate gathering: proved kernels (redundancy elimination, transaction duration); the gathering session
    against scripted servers is explored on the simulator. *)
From Coq Require Import ZArith List Bool Lia.
From Nice Require Agent.LookupModel Agent.LookupProofs.
From Nice Require Import Timer.TimerModel Timer.TimerProofs Agent.GatherModel Agent.GatherProofs.
Import ListNotations.
Local Open Scope Z_scope.

(** whatever candidates discovery supplies, in whatever order: the local candidate list never holds a candidate redundant with an
    earlier one (same address+base+transport, or a second srflx / relay on the same IP) ... *)
Theorem C20_no_redundant_candidates : forall xs, clean (snd (add_all [] xs)).
Proof. intros xs. apply add_all_clean. exact I. Qed.

(** ... in particular none twice (each accepted candidate is announced once) ... *)
Theorem C20_each_candidate_once : forall xs, NoDup (snd (add_all [] xs)).
Proof. intros xs. apply clean_nodup, add_all_clean. exact I. Qed.

(** ... and none that no discovery result supplied *)
Theorem C20_no_invented_candidate : forall xs c, In c (snd (add_all [] xs)) -> In c xs.
Proof. intros xs c H. destruct (add_all_supplied xs [] c H) as [[]|H']; exact H'. Qed.

(** a candidate is refused only because an earlier one is redundant with it *)
Theorem C20_refusal_has_a_reason : forall l x, fst (add_pruned l x) = false -> exists c, In c l /\ redundant c x = true.
Proof. exact add_pruned_refused. Qed.

(** a host candidate for a new local transport address is always kept *)
Theorem C20_host_candidates_kept : forall l x, k_type x = 0 -> (forall c, In c l -> same_cand c x = false) -> fst (add_pruned l x) = true.
Proof. exact host_kept. Qed.

(** with the default timer (N = 3 transmissions) an unanswered discovery transaction is given up after exactly 4 x RTO of waiting
    (500 + 1000 + 500 ms by default) — the per-item term of the gathering time bound; exact retransmission instants: C19 *)
Theorem C20_unanswered_transaction_waits : forall T, 1 <= T -> wait T 3 1 + wait T 3 2 + wait T 3 3 = 4 * T.
Proof. intros T HT. destruct (wait_examples T HT) as (-> & -> & -> & _). lia. Qed.

(** ------------------------------------------------------------------------------------------------------------------
    Candidate gathering ALWAYS completes, exactly once, in bounded time (Agent.DiscoveryModel: the discovery list, the tick
    priv_discovery_tick_unlocked, the answer handlers of agent/conncheck.c, discovery_free / agent_gathering_done; tied to the source
    text and, by differential execution compared inside Coq, to the running code by props/c20_discovery.py).
    A run = [EStart t0] followed by ANY list of events: timer firings at adversary-chosen instants, answers of any kind (success, every
    error class, 401/438 with any realm, alternate server, validated-but-invalid) for any item and any transaction id (current, stale,
    never used), duplicates, request creations / sends that fail; silence = no event.  NO hypothesis restricts the answers.
    Assumptions about time, all explicit below: every instant is a well-formed timeval ([wf_now]: 0 <= usec < 10^6), the clock is
    monotone and the timer fires at most [G] microseconds after its previous firing ([driven]); seconds are unbounded integers (no
    32-bit wrap of time_t; the unsigned arithmetic of the STUN timer itself is modelled with its wrap); all clock reads of one tick
    return the same instant; timer parameters within [params_ok] (1 <= RTO <= 10000 ms, limit <= 16). *)
From Nice Require Import Agent.DiscoveryModel Agent.DiscoveryProofs Gen.Discovery.

(** (1) TERMINATION WITH A BOUND, whatever the servers do.  n = number of items, A = c_maxauth (NICE_DISCOVERY_MAX_AUTH_RETRIES),
    MR = c_maxredir (NICE_DISCOVERY_MAX_REDIRECTS), TX = sum over k = 1..max(N,1) of (wait_k + 1 ms + G) = one transaction with the tick
    period G added to each wait, round = G + TX.  Once the last timer firing is more than
        T(n) = n * ((A + 1) * round + MR * n * TX)      microseconds
    after the start, the list is freed, the streams are no longer gathering, the timer is gone and completion was announced once.
    (Each item runs at most A + 1 rounds of its own and follows at most MR redirections; a redirection followed by a TURN allocation
    also re-queues its siblings without counting against them, hence n * TX per redirection and n * MR redirections in all.) *)
Theorem C20_gathering_terminates : forall c G l0 t0 fails es,
  params_ok (c_T c) (c_N c) -> 0 <= c_maxauth c -> 0 <= c_maxredir c -> 0 <= G -> wf_now t0 -> Forall fresh l0 -> driven G (us t0) es ->
  bound c G (Z.of_nat (length l0)) < last_tick (us t0) es - us t0 ->
  completed (fst (run c (init l0) (EStart t0 fails :: es))) /\ n_gd (snd (run c (init l0) (EStart t0 fails :: es))) = 1.
Proof. exact terminates. Qed.
Print Assumptions C20_gathering_terminates.

(** (1) read the other way: while the timer source exists or a stream is still gathering, the last timer firing is no later than
    T(n) after the start *)
Theorem C20_gathering_open_only_within_bound : forall c G l0 t0 fails es,
  params_ok (c_T c) (c_N c) -> 0 <= c_maxauth c -> 0 <= c_maxredir c -> 0 <= G -> wf_now t0 -> Forall fresh l0 -> driven G (us t0) es ->
  ds_timer (fst (run c (init l0) (EStart t0 fails :: es))) = true \/ ds_gathering (fst (run c (init l0) (EStart t0 fails :: es))) = true ->
  last_tick (us t0) es - us t0 <= bound c G (Z.of_nat (length l0)).
Proof. exact open_only_within_bound. Qed.
Print Assumptions C20_gathering_open_only_within_bound.

(** ... in timer firings: when the timer also never fires earlier than Ta after its previous firing, more than T(n)/Ta firings
    cannot happen without completion (K = T(n) / Ta + 1) *)
Theorem C20_gathering_terminates_in_ticks : forall c Ta G l0 t0 fails es,
  params_ok (c_T c) (c_N c) -> 0 <= c_maxauth c -> 0 <= c_maxredir c -> 0 <= Ta -> 0 <= G -> wf_now t0 -> Forall fresh l0 -> driven2 Ta G (us t0) es ->
  bound c G (Z.of_nat (length l0)) < Ta * ticks es ->
  completed (fst (run c (init l0) (EStart t0 fails :: es))) /\ n_gd (snd (run c (init l0) (EStart t0 fails :: es))) = 1.
Proof. exact terminates_ticks. Qed.
Print Assumptions C20_gathering_terminates_in_ticks.

(** the bound spelled out for a limit of 3 transmissions (the default): TX = 4 RTO + 3 x (1 ms + G) *)
Theorem C20_time_bound_three_transmissions : forall c G n, c_N c = 3 -> 1 <= c_T c ->
  bound c G n = n * ((c_maxauth c + 1) * (G + 4000 * c_T c + 3 * (1000 + G)) + c_maxredir c * (n * (4000 * c_T c + 3 * (1000 + G)))).
Proof. exact bound_three. Qed.
Print Assumptions C20_time_bound_three_transmissions.

(** the explicit decreasing measure behind (1): while the timer is armed, potential + elapsed time never exceeds the potential at the
    start ([Phi] = sum over the items of [phi]: the item's remaining worst-case time plus n x TX for every redirection it may still
    follow); no answer of any kind raises it, every tick that returns TRUE lowers it by the time elapsed *)
Theorem C20_measure_decreases : forall c G, params_ok (c_T c) (c_N c) -> 0 <= G -> forall es s clk,
  Forall (inv2 c clk) (ds_items s) -> ds_timer s = true -> driven G clk es ->
  let nn := Z.of_nat (length (ds_items s)) in
  let s' := fst (run c s es) in
  completed s' \/
  (ds_timer s' = true /\ Forall (inv2 c (last_tick clk es)) (ds_items s') /\
   Phi c G nn (last_tick clk es) (ds_items s') + (last_tick clk es - clk) <= Phi c G nn clk (ds_items s)).
Proof. exact run_phi. Qed.
Print Assumptions C20_measure_decreases.

(** why NICE_DISCOVERY_MAX_REDIRECTS is needed (regression of the defect fixed by /repo 1878027, where the limit did not exist): with
    the limit set to k - for EVERY k - a STUN server that answers every Binding request with 300 + ALTERNATE-SERVER (as does every server
    it names) keeps the discovery open for k timer periods; without a limit no function of n and of the timer parameters bounds the
    gathering time *)
Theorem C20_gathering_time_grows_with_redirect_limit : forall k : nat,
  let c := cfg_limit (Z.of_nat k) in
  let es := adversary c [fresh_item Srflx 1 1] (answer_cur 0 (KAlternate 2)) k in
  let r := run c (init [fresh_item Srflx 1 1]) (EStart (at_ms 0) [] :: es) in
  driven 20000 (us (at_ms 0)) es /\ last_tick (us (at_ms 0)) es - us (at_ms 0) = 20000 * Z.of_nat k /\
  ds_gathering (fst r) = true /\ ds_timer (fst r) = true /\ n_gd (snd r) = 0.
Proof. exact gathering_time_grows_with_redirect_limit. Qed.
Print Assumptions C20_gathering_time_grows_with_redirect_limit.

(** (2) EXACTLY ONCE.  Whatever happens (no assumption on time or on the events), the number of announcements of a run is 1 if the
    streams are no longer gathering at its end and 0 otherwise - never two; with (1): exactly one. *)
Theorem C20_completion_announced_at_most_once : forall c l0 es, Forall fresh l0 ->
  n_gd (snd (run c (init l0) es)) = 1 - b2z (ds_gathering (fst (run c (init l0) es))) /\ 0 <= n_gd (snd (run c (init l0) es)) <= 1.
Proof. exact announced_at_most_once. Qed.
Print Assumptions C20_completion_announced_at_most_once.

(** ... and never before every item is done: an announcement is made by a tick whose loop left every item of the list done (or by
    the start when there is nothing to discover) *)
Theorem C20_completion_only_when_all_done : forall c s e, Forall sok (ds_items s) -> In EvGatheringDone (snd (step c s e)) ->
  ds_gathering s = true /\ ds_gathering (fst (step c s e)) = false /\
  ((exists now fails, e = EStart now fails /\ ds_unsched s <= 0 /\ ds_timer s = false) \/
   (exists now fails l' st o', (e = EStart now fails \/ e = ETick now fails) /\
      tick_loop c now fails 0 (ds_nid s) (ds_items s) = (l', 0, st, o') /\ all_done l' /\ ds_items (fst (step c s e)) = [])).
Proof. exact completion_only_when_all_done. Qed.
Print Assumptions C20_completion_only_when_all_done.

(** [sok], the structural invariant the step theorems assume, holds in every state a run can reach *)
Theorem C20_reachable_states_are_sound : forall c l0 es, Forall fresh l0 -> Forall sok (ds_items (fst (run c (init l0) es))).
Proof. exact reachable_sok. Qed.
Print Assumptions C20_reachable_states_are_sound.

(** (3) a candidate is produced only by a SUCCESS answer that carries the item's CURRENT transaction id, still remembered by the item's
    StunAgent (so not a duplicate, not an answer to an earlier transaction), while the item is not done ... *)
Theorem C20_candidate_only_from_matching_success : forall c s e i, Forall sok (ds_items s) -> In (EvCand i) (snd (step c s e)) ->
  exists t it, e = EAnswer i t KSuccess /\ nth_error (ds_items s) i = Some it /\
    d_buf it = true /\ d_live it = true /\ d_tid it = t /\ d_done it = false /\ d_pending it = true /\
    nth_error (ds_items (fst (step c s e))) i = Some (it_finish it) /\ snd (step c s e) = [EvCand i].
Proof. exact candidate_only_from_matching_success. Qed.
Print Assumptions C20_candidate_only_from_matching_success.

(** ... and at most one per item over a whole run, whatever the events *)
Theorem C20_at_most_one_candidate_per_item : forall c l0 es i, Forall fresh l0 -> 0 <= n_cand i (snd (run c (init l0) es)) <= 1.
Proof. exact one_candidate_per_item. Qed.
Print Assumptions C20_at_most_one_candidate_per_item.

(** (4) a done item is never re-activated: it stays exactly as it is until the list is freed; no request is sent and no candidate
    produced for its position for the rest of the run *)
Theorem C20_done_item_is_final : forall c j es s x, Forall sok (ds_items s) -> (nth_error (ds_items s) j = Some x /\ d_done x = true \/ ds_items s = []) ->
  (nth_error (ds_items (fst (run c s es))) j = Some x \/ ds_items (fst (run c s es)) = []) /\
  n_send j (snd (run c s es)) = 0 /\ n_cand j (snd (run c s es)) = 0.
Proof. exact done_is_final. Qed.
Print Assumptions C20_done_item_is_final.

(** the hypotheses are met by concrete, non-trivial runs (constants as generated from the source: Gen/Discovery.v) *)
Example C20_discovery_defaults_are_the_sources :
  cfg_default = {| c_T := D_TIMER_DEFAULT_TIMEOUT; c_N := D_TIMER_DEFAULT_MAX_RETRANSMISSIONS; c_maxauth := D_MAX_AUTH_RETRIES; c_maxredir := D_MAX_REDIRECTS |} /\
  20000 = D_TA_DEFAULT * 1000 /\ params_ok (c_T cfg_default) (c_N cfg_default).
Proof. repeat split; vm_compute; congruence. Qed.

(** regression of the endless-redirect defect: the server that redirects for ever is followed five times, the sixth answer ends the
    item - still gathering after 5 periods, completed (once, 6 requests, no candidate) after 6; and T(1) = 22.813 s is exceeded by 24 s
    of firings with the run completed *)
Example C20_endless_redirect_server_is_given_up :
  (let r := run cfg_default (init [fresh_item Srflx 1 1]) (EStart (at_ms 0) [] :: redirect_es 5) in ds_gathering (fst r) = true /\ n_gd (snd r) = 0) /\
  (let r := run cfg_default (init [fresh_item Srflx 1 1]) (EStart (at_ms 0) [] :: redirect_es 6) in completed (fst r) /\ n_gd (snd r) = 1 /\ n_send 0 (snd r) = 6 /\ n_cand 0 (snd r) = 0) /\
  (let r := run cfg_default (init [fresh_item Srflx 1 1]) (EStart (at_ms 0) [] :: redirect_es 1200) in
   driven 20000 (us (at_ms 0)) (redirect_es 1200) /\ bound cfg_default 20000 1 = 22813000 /\ last_tick (us (at_ms 0)) (redirect_es 1200) - us (at_ms 0) = 24000000 /\
   completed (fst r) /\ n_gd (snd r) = 1 /\ n_send 0 (snd r) = 6).
Proof. exact example_endless_redirect_server. Qed.

(** three items, a hostile server: endless 438 (answered twice each time) for both TURN allocations, a success answer for a
    transaction never used and a garbage-class answer for the STUN discovery: 132 s of firings every 20 ms exceed T(3) = 130.329 s;
    completion once, no candidate, 1 + 5 requests per allocation *)
Example C20_nonvacuous_hostile_server :
  let r := run cfg_default (init l3) (EStart (at_ms 0) [] :: es_hostile) in
  Forall fresh l3 /\ driven 20000 (us (at_ms 0)) es_hostile /\
  bound cfg_default 20000 3 = 130329000 /\ last_tick (us (at_ms 0)) es_hostile - us (at_ms 0) = 132000000 /\
  completed (fst r) /\ n_gd (snd r) = 1 /\ n_cand 0 (snd r) = 0 /\ n_cand 1 (snd r) = 0 /\ n_cand 2 (snd r) = 0 /\
  n_send 0 (snd r) = 3 /\ n_send 1 (snd r) = 6 /\ n_send 2 (snd r) = 6.
Proof. exact example_hostile. Qed.

(** a redirect chain of three servers then success, and a TURN server that asks for credentials then allocates: one candidate each *)
Example C20_nonvacuous_redirect_chain :
  let r := run cfg_default (init l2) (EStart (at_ms 0) [] :: es_chain) in
  Forall fresh l2 /\ driven 20000 (us (at_ms 0)) es_chain /\
  bound cfg_default 20000 2 = 66256000 /\ last_tick (us (at_ms 0)) es_chain - us (at_ms 0) = 68000000 /\
  completed (fst r) /\ n_gd (snd r) = 1 /\ n_cand 0 (snd r) = 1 /\ n_cand 1 (snd r) = 1 /\ n_send 0 (snd r) = 4 /\ n_send 1 (snd r) = 2.
Proof. exact example_chain. Qed.

(** silent servers: still gathering after the firing at 2.00 s, completed (once, 3 transmissions per item) by the one at 2.02 s *)
Example C20_nonvacuous_silence :
  (let r := run cfg_default (init l2) (EStart (at_ms 0) [] :: es_silent 100) in ds_gathering (fst r) = true /\ n_gd (snd r) = 0) /\
  (let r := run cfg_default (init l2) (EStart (at_ms 0) [] :: es_silent 101) in completed (fst r) /\ n_gd (snd r) = 1 /\ n_send 0 (snd r) = 3 /\ n_send 1 (snd r) = 3) /\
  (let r := run cfg_default (init l2) (EStart (at_ms 0) [] :: es_silent 1300) in completed (fst r) /\ n_gd (snd r) = 1).
Proof. exact example_silent. Qed.

(** * Servers given by NAME (agent.c: the two resolver callbacks, agent_gathering_done; `Agent/LookupModel.v`, statements checked against the source
    on every run).  The resolver answers land in an order the agent does not control.  From the state nice_agent_gather_candidates leaves behind, for EVERY
    number of lookups, every order in which they land, succeed or fail, and every interleaving with the discovery timer: *)
Theorem C20_lookups_completion_at_most_once : forall stun turns evs s',
  Nice.Agent.LookupModel.lrun Nice.Agent.LookupModel.cfg_fixed (Nice.Agent.LookupModel.after_gather stun turns) evs = Some s' ->
  (Nice.Agent.LookupModel.dones s' <= 1)%nat.
Proof. exact Nice.Agent.LookupProofs.completion_at_most_once. Qed.

(** completion is announced only after every lookup has landed and the discovery has finished ... *)
Theorem C20_lookups_completion_not_early : forall stun turns evs s',
  Nice.Agent.LookupModel.lrun Nice.Agent.LookupModel.cfg_fixed (Nice.Agent.LookupModel.after_gather stun turns) evs = Some s' ->
  Nice.Agent.LookupModel.dones s' = 1%nat ->
  Nice.Agent.LookupModel.stun_pending s' = false /\ Nice.Agent.LookupModel.turn_pending s' = 0%nat /\ Nice.Agent.LookupModel.timer s' = false /\
  Nice.Agent.LookupModel.unsched s' = 0%nat /\ Nice.Agent.LookupModel.inflight s' = 0%nat.
Proof. exact Nice.Agent.LookupProofs.completion_not_early. Qed.

(** ... and it HAS been announced whenever nothing more can happen (all lookups landed - resolved or failed -, no discovery timer) *)
Theorem C20_lookups_completion_by_quiescence : forall stun turns evs s',
  Nice.Agent.LookupModel.lrun Nice.Agent.LookupModel.cfg_fixed (Nice.Agent.LookupModel.after_gather stun turns) evs = Some s' ->
  evs <> [] -> Nice.Agent.LookupModel.quiescent s' = true -> Nice.Agent.LookupModel.dones s' = 1%nat.
Proof. exact Nice.Agent.LookupProofs.completion_by_quiescence. Qed.

Theorem C20_lookups_completion_is_final : forall stun turns evs s',
  Nice.Agent.LookupModel.lrun Nice.Agent.LookupModel.cfg_fixed (Nice.Agent.LookupModel.after_gather stun turns) evs = Some s' ->
  Nice.Agent.LookupModel.dones s' = 1%nat -> forall e, Nice.Agent.LookupModel.enabled s' e = false.
Proof. exact Nice.Agent.LookupProofs.completion_is_final. Qed.

(** the code before fix a7c512a: a failed lookup as the last outstanding item never completes; a TURN lookup landing first announces completion while
    the STUN name is still being resolved *)
Theorem C20_lookups_before_fix_failed_lookup_never_completes :
  exists s, Nice.Agent.LookupModel.lrun Nice.Agent.LookupModel.cfg_before (Nice.Agent.LookupModel.after_gather false 1)
              [Nice.Agent.LookupModel.TurnLanded false 0] = Some s /\
            Nice.Agent.LookupModel.quiescent s = true /\ Nice.Agent.LookupModel.dones s = 0%nat.
Proof. exact Nice.Agent.LookupProofs.before_fix_failed_lookup_never_completes. Qed.

Theorem C20_lookups_before_fix_completion_precedes_stun_discovery :
  exists s, Nice.Agent.LookupModel.lrun Nice.Agent.LookupModel.cfg_before (Nice.Agent.LookupModel.after_gather true 1)
              [Nice.Agent.LookupModel.TurnLanded true 0] = Some s /\
            Nice.Agent.LookupModel.dones s = 1%nat /\ Nice.Agent.LookupModel.stun_pending s = true /\
  exists s2, Nice.Agent.LookupModel.lrun Nice.Agent.LookupModel.cfg_before s
               [Nice.Agent.LookupModel.StunLanded true 2; Nice.Agent.LookupModel.Tick; Nice.Agent.LookupModel.Tick] = Some s2 /\
             Nice.Agent.LookupModel.inflight s2 = 2%nat.
Proof. exact Nice.Agent.LookupProofs.before_fix_completion_precedes_stun_discovery. Qed.
