(** C02 -- nice_agent_recv_messages on an ICE-TCP component (message mode), one message per call
    (= nice_agent_recv_nonblocking): what a receive loop gets. *)
From Coq Require Import ZArith List Bool Lia.
From Nice Require Import Stream.StreamBase Stream.StreamProofs Data.FramingModel Data.RecvProofs.
Import ListNotations.
Local Open Scope Z_scope.
Ltac Zify.zify_post_hook ::= Z.div_mod_to_equations.

Local Opaque scratch.

Section RecvMessages.
Variable ctl : bytes -> bool.
Variable gate : bool.

Notation dropped := (dropped ctl gate).
Notation keep := (keep ctl gate).

(** the cached-frame short cut of nice_agent_recv_messages: the frame is handed out as it is, whatever it is *)
Lemma try_consume_cached s m : Inv s -> whole (unc s) = true -> sumlen (m_bufs m) < W64 ->
  exists s' m', try_consume false s [m] iter0 = Some (Some (s', [m'], {| it_m := 1; it_b := 0; it_o := 0 |})) /\
    Inv s' /\ unc s' = after_frame (unc s) /\ filled m m' (payload_of (unc s)).
Proof.
  intros I Hw Hm.
  destruct (unc s) as [|hi [|lo t]] eqn:Eu; cbn [whole] in Hw; try discriminate.
  apply Z.leb_le in Hw.
  destruct (consume_whole s m hi lo t I Eu Hw Hm) as (s3 & m' & I3 & Hu3 & Hfill & _ & Hfs & Hul & _ & Hc1).
  cbn [payload_of after_frame].
  pose proof (unc_ok s I) as Hok. rewrite Eu in Hok.
  pose proof (be16_range hi lo (Forall_inv Hok) (Forall_inv (Forall_inv_tail Hok))) as Hr.
  pose proof (headroom_unc s I) as Hh. rewrite Hul in Hh.
  pose proof (lenZ_nonneg t) as Htn.
  unfold try_consume.
  replace (r_fs s =? 0) with false by (symmetry; apply Z.eqb_neq; lia).
  replace (headroom s <? r_fs s) with false by (symmetry; apply Z.ltb_ge; lia).
  rewrite Hc1. exists s3, m'. auto.
Qed.

(** a receive loop sees the frames of the stream in order, each whole, except that frames the demultiplexer
    would have consumed may be missing (dropped on the normal path) or present (handed out from the cache) *)
Inductive leaky : list bytes -> list bytes -> Prop :=
| leaky_nil : leaky [] []
| leaky_same p a b : leaky a b -> leaky (p :: a) (p :: b)
| leaky_skip p a b : dropped p = true -> leaky a b -> leaky (p :: a) b.

Lemma leaky_app a b c d : leaky a b -> leaky c d -> leaky (a ++ c) (b ++ d).
Proof. intros H. induction H; intros Hc; cbn [app]; [exact Hc | constructor; auto | apply leaky_skip; auto]. Qed.

Lemma leaky_dropped a : Forall (fun p => dropped p = true) a -> leaky a [].
Proof. intros H. induction H; [constructor | apply leaky_skip; assumption]. Qed.

Lemma leaky_Forall (P : bytes -> Prop) a b : leaky a b -> Forall P a -> Forall P b.
Proof.
  intros H. induction H as [|p a b _ IH|p a b _ _ IH]; intros Ha; [constructor | |].
  - constructor; [exact (Forall_inv Ha) | apply IH; exact (Forall_inv_tail Ha)].
  - apply IH. exact (Forall_inv_tail Ha).
Qed.

(** every data frame arrives exactly once and in order; what else arrives is a frame of the stream too *)
Lemma leaky_keep a b : leaky a b -> filter keep b = filter keep a.
Proof.
  intros H. induction H as [|p a b _ IH|p a b Hd _ IH]; cbn [filter]; [reflexivity | rewrite IH; reflexivity |].
  unfold RecvProofs.keep at 2. rewrite Hd. cbn [negb]. exact IH.
Qed.

(** one dispatch of component_io_cb for a pending nice_agent_recv_messages with ONE message *)
Lemma rm1_dispatch_spec : forall fuel s k m, Inv s -> bytes_ok (pend k) -> sumlen (m_bufs m) < W64 ->
  mu s k + 1 < Z.of_nat fuel ->
  exists s' k' skipped,
    Inv s' /\ bytes_ok (pend k') /\ Forall (fun p => dropped p = true) skipped /\ Forall pl_ok skipped /\
    (length (script k') <= length (script k))%nat /\
    ((exists e, rm_dispatch false ctl gate fuel s k [m] 0 = Some (s', k', [m], O, e) /\
        unc s ++ pend k = encode skipped ++ unc s' ++ pend k' /\ whole (unc s') = false)
     \/
     (exists m' p, rm_dispatch false ctl gate fuel s k [m] 0 = Some (s', k', [m'], 1%nat, false) /\
        dropped p = false /\ pl_ok p /\ filled m m' p /\
        unc s ++ pend k = encode (skipped ++ [p]) ++ unc s' ++ pend k')).
Proof.
  induction fuel as [|f IH]; intros s k m I Hpk Hm Hmu.
  { unfold mu in Hmu. pose proof (lenZ_nonneg (unc s)). pose proof (lenZ_nonneg (pend k)). lia. }
  cbn [rm_dispatch length Nat.eqb nth_error].
  pose proof (recv_spec ctl gate s k m I Hpk Hm) as Hstep.
  pose proof (astep_stream (unc s) k) as Hstr. pose proof (astep_script (unc s) k) as Hscr.
  pose proof (astep_ok (unc s) k (unc_ok s I) Hpk) as Hok.
  destruct (astep (unc s) k) as [[u1 k1] closed].
  destruct Hok as [Hu1ok Hk1ok].
  destruct (whole u1) eqn:Ew1.
  - destruct Hstep as (s2 & m' & I2 & Hu2 & Hfill & Hrun).
    destruct (whole_split u1 Hu1ok Ew1) as (Hsplit & Hpl & Haok & Hshr).
    set (p := payload_of u1) in *.
    assert (Hmu2 : mu s2 k1 + 1 < Z.of_nat f).
    { unfold mu in *. rewrite Hu2.
      assert (lenZ u1 + lenZ (pend k1) = lenZ (unc s) + lenZ (pend k)) by (rewrite <- !lenZ_app; f_equal; exact Hstr).
      lia. }
    rewrite Hrun. destruct (RecvProofs.dropped ctl gate p) eqn:Edr.
    + (* consumed by the demultiplexer: go on *)
      destruct (IH s2 k1 m I2 Hk1ok Hm Hmu2) as (s' & k' & sk & I' & Hpk' & Hsk & Hskok & Hl' & Hres).
      exists s', k', (p :: sk). split; [exact I'|]. split; [exact Hpk'|].
      split; [constructor; assumption|]. split; [constructor; assumption|]. split; [lia|].
      destruct Hres as [(e & Hd & Hs & Hw)|(m2 & q & Hd & Hq & Hqok & Hf & Hs)].
      * left. exists e. split; [exact Hd|]. split; [|exact Hw].
        rewrite <- Hstr. rewrite Hsplit at 1. cbn [encode map concat]. fold (encode sk).
        rewrite <- !app_assoc. f_equal. rewrite <- Hu2. exact Hs.
      * right. exists m2, q. split; [exact Hd|]. split; [exact Hq|]. split; [exact Hqok|]. split; [exact Hf|].
        rewrite <- Hstr. rewrite Hsplit at 1. cbn [app encode map concat]. fold (encode (sk ++ [q])).
        rewrite <- !app_assoc. f_equal. rewrite <- Hu2. rewrite Hs. reflexivity.
    + (* handed out: the message array is full, the loop ends *)
      cbn [set_nth]. destruct f as [|f']; [unfold mu in Hmu; pose proof (lenZ_nonneg (unc s)); pose proof (lenZ_nonneg (pend k)); lia|]. cbn [rm_dispatch length Nat.eqb].
      exists s2, k1, []. split; [exact I2|]. split; [exact Hk1ok|]. split; [constructor|]. split; [constructor|].
      split; [exact Hscr|]. right. exists m', p. split; [reflexivity|]. split; [exact Edr|]. split; [exact Hpl|].
      split; [exact Hfill|].
      rewrite <- Hstr. rewrite Hsplit at 1. cbn [app encode map concat]. rewrite app_nil_r.
      rewrite <- !app_assoc. rewrite Hu2. reflexivity.
  - destruct Hstep as (s2 & I2 & Hu2 & Hrun). rewrite Hrun.
    exists s2, k1, []. split; [exact I2|]. split; [exact Hk1ok|]. split; [constructor|]. split; [constructor|].
    split; [exact Hscr|]. left. exists closed. split; [destruct closed; reflexivity|].
    cbn [encode map concat app]. split; [rewrite Hu2; symmetry; exact Hstr | rewrite Hu2; exact Ew1].
Qed.

Lemma rm_iterate_full n s k (msgs : list imsg) :
  rm_iterate false ctl gate n s k msgs (length msgs) = Some (s, k, msgs, length msgs).
Proof. destruct n; cbn [rm_iterate]; [reflexivity|]. rewrite Nat.eqb_refl. reflexivity. Qed.

(** one call of nice_agent_recv_messages_nonblocking with one message of any layout.  [out] is what the caller
    gets: nothing (would block), or one frame, truncated to the message's capacity. *)
Definition got (m m' : imsg) (r : Z) (out : list bytes) : Prop :=
  (r = -1 /\ out = [] /\ m' = m) \/ (r = 1 /\ exists p, out = [p] /\ filled m m' p).

Lemma recv1_call_spec s k m : Inv s -> bytes_ok (pend k) -> sumlen (m_bufs m) < W64 ->
  exists s' k' m' r done out,
    recv_messages_call false ctl gate s k [m] = Some (s', k', [m'], r) /\
    Inv s' /\ bytes_ok (pend k') /\ (length (script k') <= length (script k))%nat /\
    unc s ++ pend k = encode done ++ unc s' ++ pend k' /\ Forall pl_ok done /\
    leaky done out /\ got m m' r out.
Proof.
  intros I Hpk Hm. unfold recv_messages_call.
  destruct (whole (unc s)) eqn:Ew.
  - (* the short cut *)
    destruct (try_consume_cached s m I Ew Hm) as (s1 & m1 & Htc & I1 & Hu1 & Hfill).
    rewrite Htc. replace (n_valid {| it_m := 1; it_b := 0; it_o := 0 |}) with 1 by reflexivity.
    destruct (whole_split (unc s) (unc_ok s I) Ew) as (Hsplit & Hpl & _ & _).
    exists s1, k, m1, 1, [payload_of (unc s)], [payload_of (unc s)].
    split; [reflexivity|]. split; [exact I1|]. split; [exact Hpk|]. split; [lia|]. split.
    { rewrite Hsplit at 1. cbn [encode map concat]. rewrite app_nil_r, Hu1, <- app_assoc. reflexivity. }
    split; [constructor; [exact Hpl | constructor]|]. split; [repeat constructor|].
    right. split; [reflexivity|]. exists (payload_of (unc s)). auto.
  - assert (Htc : try_consume false s [m] iter0 = Some None).
    { unfold try_consume. pose proof (missing_whole s I) as Hmw. rewrite Ew in Hmw. cbn [negb] in Hmw.
      unfold missing in Hmw. destruct (r_fs s =? 0); [reflexivity|]. cbn [orb] in Hmw. rewrite Hmw. reflexivity. }
    rewrite Htc. cbn [rm_iterate length Nat.eqb].
    destruct (script k) as [|x sc] eqn:Esc.
    + exists s, k, m, (-1), [], []. cbn [Nat.eqb encode map concat app].
      split; [reflexivity|]. split; [exact I|]. split; [exact Hpk|]. split; [rewrite Esc; cbn [length]; lia|]. split; [reflexivity|].
      split; [constructor|]. split; [constructor|]. left. auto.
    + rewrite <- Esc.
      assert (Hmu : mu s k + 1 < Z.of_nat (S (dispatch_fuel s k))).
      { pose proof (dispatch_fuel_enough s k I) as H0. rewrite Nat2Z.inj_succ. lia. }
      destruct (rm1_dispatch_spec (S (dispatch_fuel s k)) s k m I Hpk Hm Hmu)
        as (s1 & k1 & sk & I1 & Hpk1 & Hsk & Hskok & Hl1 & Hres).
      destruct Hres as [(e & Hd & Hs & Hw)|(m1 & p & Hd & Hp & Hpok & Hf & Hs)].
      * rewrite Hd. rewrite Nat.eqb_refl. rewrite orb_true_r. cbn [Nat.eqb].
        exists s1, k1, m, (-1), sk, [].
        split; [reflexivity|]. split; [exact I1|]. split; [exact Hpk1|]. split; [exact Hl1|]. split; [exact Hs|].
        split; [exact Hskok|]. split; [apply leaky_dropped; exact Hsk|]. left. auto.
      * rewrite Hd. cbn [orb Nat.eqb].
        (* the next main-context iteration finds the array full *)
        pose proof (rm_iterate_full (length (script k)) s1 k1 [m1]) as Hfull. cbn [length] in Hfull. rewrite Hfull.
        cbn [Nat.eqb Z.of_nat Pos.of_succ_nat].
        exists s1, k1, m1, 1, (sk ++ [p]), [p].
        split; [reflexivity|]. split; [exact I1|]. split; [exact Hpk1|]. split; [exact Hl1|]. split; [exact Hs|].
        split; [apply Forall_app; split; [exact Hskok | constructor; [exact Hpok | constructor]]|].
        split. { rewrite <- (app_nil_l [p]) at 2. apply leaky_app; [apply leaky_dropped; exact Hsk | repeat constructor]. }
        right. split; [reflexivity|]. exists p. auto.
Qed.

(** a receive loop: [n] calls, each with a fresh message of one 65535-byte buffer *)
Fixpoint recv_loop (n : nat) (s : rst) (k : kern) : option (rst * kern * list bytes) :=
  match n with
  | O => Some (s, k, [])
  | S n' =>
    match recv_messages_call false ctl gate s k [scratch] with
    | Some (s', k', [m'], r) =>
      match recv_loop n' s' k' with
      | Some (s'', k'', l) => Some (s'', k'', (if 0 <? r then [valid_bytes m'] else []) ++ l)
      | None => None
      end
    | _ => None
    end
  end.

Theorem recv_loop_spec : forall n s k, Inv s -> bytes_ok (pend k) ->
  exists s' k' done l,
    recv_loop n s k = Some (s', k', l) /\ Inv s' /\
    unc s ++ pend k = encode done ++ unc s' ++ pend k' /\ Forall pl_ok done /\ leaky done l.
Proof.
  induction n as [|n IH]; intros s k I Hpk.
  - exists s, k, [], []. cbn [recv_loop encode map concat app].
    split; [reflexivity|]. split; [exact I|]. split; [reflexivity|]. split; constructor.
  - cbn [recv_loop].
    assert (Hsc : sumlen (m_bufs scratch) < W64) by (rewrite scratch_cap; reflexivity).
    destruct (recv1_call_spec s k scratch I Hpk Hsc) as (s1 & k1 & m1 & r & d1 & o1 & Hc & I1 & Hpk1 & _ & Hs1 & Hok1 & Hlk1 & Hgot).
    rewrite Hc. destruct (IH s1 k1 I1 Hpk1) as (s' & k' & d2 & l2 & Hl & I' & Hs2 & Hok2 & Hlk2).
    rewrite Hl. exists s', k', (d1 ++ d2), (o1 ++ l2).
    split.
    { f_equal. f_equal. f_equal. destruct Hgot as [(-> & -> & _)|(-> & p & -> & Hf)]; [reflexivity|].
      cbn [Z.ltb Z.compare]. f_equal.
      assert (Hp : pl_ok p) by exact (Forall_inv (leaky_Forall _ _ _ Hlk1 Hok1)).
      apply (filled_whole scratch m1 p Hf). rewrite scratch_cap. apply Hp. }
    split; [exact I'|]. split; [rewrite Hs1, Hs2, encode_app, <- !app_assoc; reflexivity|].
    split; [apply Forall_app; split; assumption|]. apply leaky_app; assumption.
Qed.

(** ... in particular every data frame is received exactly once, whole and in order *)
Corollary recv_loop_data_intact n s k s' k' l : Inv s -> bytes_ok (pend k) ->
  recv_loop n s k = Some (s', k', l) ->
  exists done, unc s ++ pend k = encode done ++ unc s' ++ pend k' /\ Forall pl_ok done /\
    filter keep l = filter keep done.
Proof.
  intros I Hpk Hr. destruct (recv_loop_spec n s k I Hpk) as (s2 & k2 & done & l2 & Hl & _ & Hs & Hok & Hlk).
  rewrite Hr in Hl. inversion Hl; subst. exists done. split; [exact Hs|]. split; [exact Hok|].
  apply leaky_keep. exact Hlk.
Qed.

End RecvMessages.
