(** C02 -- receiver half of the model (see FramingModel.v for the header).  No proofs in this file. *)
From Coq Require Import ZArith List Bool.
From Nice Require Import Stream.StreamBase Data.FramingModel.
Import ListNotations.
Local Open Scope Z_scope.

(* ------------------------------------------------------------------------------------------------ *)
(** * Receiver *)

Record rst := { r_buf : bytes; r_fo : Z; r_fs : Z; r_cs : Z; r_wake : bool }.
Definition rst0 : rst := {| r_buf := []; r_fo := 0; r_fs := 0; r_cs := 0; r_wake := false |}.

(* nice_component_compute_rfc4571_headroom: guint arithmetic *)
Definition headroom (s : rst) : Z := w32 (lenZ (r_buf s) - r_fo s).

Definition rd16 (b : bytes) (off : Z) : option Z :=
  match mreadn b off 2 with
  | Some [hi; lo] => Some (hi * 256 + lo)
  | _ => None
  end.

Record imsg := { m_bufs : list bytes; m_len : Z }.
Record iter := { it_m : nat; it_b : nat; it_o : Z }.
Definition iter0 : iter := {| it_m := O; it_b := O; it_o := 0 |}.

(** the [for] loop of append_buffer_to_input_messages over the buffers from iter->buffer on.
    Result: those buffers after the copies, iter->buffer, iter->offset, the data not copied. *)
Fixpoint app_loop (rest : list bytes) (ib : nat) (io : Z) (data : bytes)
  : option (list bytes * nat * Z * bytes) :=
  match rest with
  | [] => Some ([], ib, io, data)
  | v :: vs =>
      let l := Z.min (lenZ data) (w64 (lenZ v - io)) in
      match mwrite v io (takeZ l data) with
      | None => None
      | Some v' =>
        let data' := dropZ l data in
        if lenZ data' =? 0 then Some (v' :: vs, ib, io + l, data')
        else match app_loop vs (S ib) 0 data' with
             | None => None
             | Some (vs', ib', io', d') => Some (v' :: vs', ib', io', d')
             end
      end
  end.

Fixpoint set_nth {A} (l : list A) (n : nat) (x : A) : list A :=
  match l, n with
  | [], _ => []
  | _ :: t, O => x :: t
  | h :: t, S k => h :: set_nth t k x
  end.

(* nice_input_message_iter_get_message_capacity *)
Definition capacity (msgs : list imsg) (it : iter) : option Z :=
  if Nat.eqb (it_m it) (length msgs) then Some 0 else
  match nth_error msgs (it_m it) with
  | None => None
  | Some m => Some (w64 (sumlen (skipn (it_b it) (m_bufs m)) - it_o it))
  end.

Definition append_buffer (bs_mode : bool) (msgs : list imsg) (it : iter) (data : bytes)
  : option (list imsg * iter * Z) :=
  match nth_error msgs (it_m it) with
  | None => None                          (* messages[iter->message] lies outside the array *)
  | Some m =>
    let len0 := if Nat.eqb (it_b it) 0 && (it_o it =? 0) then 0 else m_len m in
    match app_loop (skipn (it_b it) (m_bufs m)) (it_b it) (it_o it) data with
    | None => None
    | Some (rest', ib', io', lft) =>
      let copied := lenZ data - lenZ lft in
      let m' := {| m_bufs := firstn (it_b it) (m_bufs m) ++ rest'; m_len := len0 + copied |} in
      let msgs' := set_nth msgs (it_m it) m' in
      let it1 := {| it_m := it_m it; it_b := ib'; it_o := io' |} in
      match (if bs_mode then capacity msgs' it1 else Some 0) with
      | None => None
      | Some cap =>
        let it2 := if negb bs_mode || (cap =? 0)
                   then {| it_m := S (it_m it); it_b := O; it_o := 0 |} else it1 in
        Some (msgs', it2, copied)
      end
    end
  end.

(** agent_consume_next_rfc4571_chunk; [tgt = None] is the call with messages == NULL *)
Definition next_frame (s : rst) : option rst :=
  let fo := w32 (r_fo s + r_fs s) in
  let h := w32 (lenZ (r_buf s) - fo) in
  if 2 <=? h then
    match rd16 (r_buf s) fo with
    | None => None
    | Some v => Some {| r_buf := r_buf s; r_fo := fo; r_fs := 2 + v; r_cs := 0; r_wake := (2 + v <=? h) |}
    end
  else Some {| r_buf := r_buf s; r_fo := fo; r_fs := 0; r_cs := 0; r_wake := false |}.

Definition consume (bs_mode : bool) (s : rst) (tgt : option (list imsg * iter))
  : option (rst * option (list imsg * iter)) :=
  match tgt with
  | None => match next_frame s with None => None | Some s' => Some (s', None) end
  | Some (msgs, it) =>
    let unc := w64 (r_fs s - 2 - r_cs s) in
    match mreadn (r_buf s) (r_fo s + r_fs s - unc) unc with
    | None => None
    | Some data =>
      match append_buffer bs_mode msgs it data with
      | None => None
      | Some (msgs', it', copied) =>
        if (copied =? unc) || negb bs_mode then
          match next_frame s with None => None | Some s' => Some (s', Some (msgs', it')) end
        else
          Some ({| r_buf := r_buf s; r_fo := r_fo s; r_fs := r_fs s; r_cs := w32 (r_cs s + copied); r_wake := true |},
                Some (msgs', it'))
      end
    end
  end.

Inductive kev := KRead (cap : Z) | KEmpty | KClosed.
Record kern := { pend : bytes; script : list kev }.

Inductive rstatus := RSuccess | ROob | RWouldBlock | RError.

Section Demux.
Variable bs_mode : bool.            (* agent->bytestream_tcp *)
Variable ctl : bytes -> bool.       (* the frame is consumed as ICE control (STUN) *)
Variable gate : bool.               (* nice_component_verify_remote_candidate (component, from, nicesock) *)

(** the TCP_BSD branch of agent_recv_message_unlocked for one call with the caller's message [m], in three
    phases: the read into the reassembly buffer, the decoding of the length field, the hand-out. *)
Definition missing (s : rst) : bool := (r_fs s =? 0) || (headroom s <? r_fs s).

(* agent.c:4680-4738; result: sockret, state, headroom, kernel *)
Definition read_phase (s : rst) (k : kern) : option (Z * rst * Z * kern) :=
  let h := headroom s in
  if missing s then
    match script k with
    | [] => Some (0, s, h, k)
    | KEmpty :: sc => Some (0, s, h, {| pend := pend k; script := sc |})
    | KClosed :: sc => Some (-1, s, h, {| pend := pend k; script := sc |})
    | KRead cap :: sc =>
        if lenZ (pend k) =? 0 then Some (0, s, h, {| pend := pend k; script := sc |}) else
        if BUFSZ <? h then None else
        match mreadn (r_buf s) (r_fo s) h with        (* memmove of the cached bytes to the front *)
        | None => None
        | Some keep =>
          let d := takeZ (Z.min cap (BUFSZ - h)) (pend k) in
          let s1 := {| r_buf := keep ++ d; r_fo := 0; r_fs := r_fs s; r_cs := r_cs s; r_wake := r_wake s |} in
          Some ((if lenZ d =? 0 then 0 else 1), s1, w32 (h + lenZ d),
                {| pend := dropZ (Z.min cap (BUFSZ - h)) (pend k); script := sc |})
        end
    end
  else Some (0, s, h, k).

(* agent.c:4740-4745 *)
Definition len_phase (was_missing : bool) (s1 : rst) (h1 : Z) : option rst :=
  if was_missing && (r_fs s1 =? 0) && (2 <=? h1) then
    match rd16 (r_buf s1) (r_fo s1) with
    | None => None
    | Some v => Some {| r_buf := r_buf s1; r_fo := r_fo s1; r_fs := 2 + v; r_cs := r_cs s1; r_wake := r_wake s1 |}
    end
  else Some s1.

(* agent.c:4748-4927 *)
Definition deliver_phase (s2 : rst) (h1 sockret : Z) (k1 : kern) (m : imsg) : option (rstatus * rst * kern * imsg) :=
  if negb (r_fs s2 =? 0) && (r_fs s2 <=? h1) then
    (* have_whole_frame *)
    match mreadn (r_buf s2) (r_fo s2 + 2) (r_fs s2 - 2) with
    | None => None
    | Some payload =>
      if (lenZ payload =? 0) || ctl payload || negb gate then
        match consume bs_mode s2 None with
        | None => None
        | Some (s3, _) => Some (ROob, s3, k1, m)
        end
      else
        match consume bs_mode s2 (Some ([m], iter0)) with
        | Some (s3, Some ([m'], _)) => Some (RSuccess, s3, k1, m')
        | _ => None
        end
    end
  else if sockret <? 0 then Some (RError, s2, k1, m)
  else Some (RWouldBlock, s2, k1, m).

Definition recv_unlocked (s : rst) (k : kern) (m : imsg) : option (rstatus * rst * kern * imsg) :=
  match read_phase s k with
  | None => None
  | Some (sockret, s1, h1, k1) =>
    match len_phase (missing s) s1 h1 with
    | None => None
    | Some s2 => deliver_phase s2 h1 sockret k1 m
    end
  end.

(** agent_try_consume_next_rfc4571_chunk *)
Definition try_consume (s : rst) (msgs : list imsg) (it : iter) : option (option (rst * list imsg * iter)) :=
  if r_fs s =? 0 then Some None
  else if headroom s <? r_fs s then Some None
  else match consume bs_mode s (Some (msgs, it)) with
       | Some (s', Some (msgs', it')) => Some (Some (s', msgs', it'))
       | _ => None
       end.

(** what the application sees *)
Definition valid_bytes (m : imsg) : bytes := takeZ (m_len m) (concat (m_bufs m)).

(** component_io_cb, branch "has_io_callback, agent not reliable" (agent.c:6404-6443): one dispatch.
    The scratch message is component->recv_buffer. *)
Definition scratch : imsg := {| m_bufs := [repZ 0 (Z.to_nat RECVBUF)]; m_len := 0 |}.

Fixpoint cb_dispatch (fuel : nat) (s : rst) (k : kern) : option (rst * kern * list bytes * bool) :=
  match fuel with
  | O => None
  | S f =>
    match recv_unlocked s k scratch with
    | None => None
    | Some (RWouldBlock, s', k', _) => Some (s', k', [], false)
    | Some (RError, s', k', _) => Some (s', k', [], true)
    | Some (RSuccess, s', k', m') =>
        match cb_dispatch f s' k' with
        | None => None
        | Some (s'', k'', ds, e) =>
            Some (s'', k'', (if 0 <? m_len m' then [valid_bytes m'] else []) ++ ds, e)
        end
    | Some (ROob, s', k', _) => cb_dispatch f s' k'
    end
  end.

Definition dispatch_fuel (s : rst) (k : kern) : nat :=
  S (length (script k)) + Z.to_nat (lenZ (r_buf s) + lenZ (pend k)).

(** [n] dispatches in a row (the socket source is level triggered: more dispatches than needed change nothing) *)
Fixpoint cb_session (n : nat) (s : rst) (k : kern) : option (rst * kern * list bytes * bool) :=
  match n with
  | O => Some (s, k, [], false)
  | S n' =>
    match cb_dispatch (dispatch_fuel s k) s k with
    | None => None
    | Some (s', k', ds, true) => Some (s', k', ds, true)
    | Some (s', k', ds, false) =>
      match cb_session n' s' k' with
      | None => None
      | Some (s'', k'', ds', e) => Some (s'', k'', ds ++ ds', e)
      end
    end
  end.

(** component_io_cb, branch "agent reliable, socket reliable" (agent.c:6302-6403), with the I/O callback
    attached: one dispatch.  Each callback emission is one element of the result. *)
Definition advance_bufs (bufs : list bytes) (n : Z) : list bytes :=
  (* agent.c:6356-6375: drop what the last chunk filled *)
  (fix go (bufs : list bytes) (n : Z) : list bytes :=
     match bufs with
     | [] => []
     | b :: t =>
        if 0 <? n then
          let consumed := Z.min n (lenZ b) in
          if 0 <? lenZ b - consumed then dropZ consumed b :: t
          else go t (n - lenZ b)
        else bufs
     end) bufs n.

(* the do { } while (n_bufs > 0) loop; [acc] = bytes received into msg so far *)
Fixpoint rel_inner (fuel : nat) (s : rst) (k : kern) (bufs : list bytes) (acc : bytes)
  : option (rst * kern * bytes * rstatus) :=
  match fuel with
  | O => None
  | S f =>
    match recv_unlocked s k {| m_bufs := bufs; m_len := 0 |} with
    | None => None
    | Some (RWouldBlock, s', k', _) => Some (s', k', acc, RWouldBlock)
    | Some (RError, s', k', _) => Some (s', k', acc, RError)
    | Some (ROob, s', k', _) =>
        if Nat.ltb 0 (length bufs) then rel_inner f s' k' bufs acc else Some (s', k', acc, ROob)
    | Some (RSuccess, s', k', m') =>
        let acc' := acc ++ valid_bytes m' in
        if negb bs_mode then Some (s', k', acc', RSuccess)
        else
          let bufs' := advance_bufs bufs (m_len m') in
          if Nat.ltb 0 (length bufs') then rel_inner f s' k' bufs' acc' else Some (s', k', acc', RSuccess)
    end
  end.

Fixpoint rel_dispatch (fuel : nat) (s : rst) (k : kern) : option (rst * kern * list bytes * bool) :=
  match fuel with
  | O => None
  | S f =>
    match rel_inner (dispatch_fuel s k) s k (m_bufs scratch) [] with
    | None => None
    | Some (s', k', acc, st) =>
      let out := if 0 <? lenZ acc then [acc] else [] in
      match st with
      | RWouldBlock => Some (s', k', out, false)
      | RError => Some (s', k', out, true)
      | _ => match rel_dispatch f s' k' with
             | None => None
             | Some (s'', k'', ds, e) => Some (s'', k'', out ++ ds, e)
             end
      end
    end
  end.

Fixpoint rel_session (n : nat) (s : rst) (k : kern) : option (rst * kern * list bytes * bool) :=
  match n with
  | O => Some (s, k, [], false)
  | S n' =>
    match rel_dispatch (dispatch_fuel s k) s k with
    | None => None
    | Some (s', k', ds, true) => Some (s', k', ds, true)
    | Some (s', k', ds, false) =>
      match rel_session n' s' k' with
      | None => None
      | Some (s'', k'', ds', e) => Some (s'', k'', ds ++ ds', e)
      end
    end
  end.

(** nice_agent_recv_messages_nonblocking on a non-reliable agent (component_io_cb branch agent.c:6444-6485).
    [msgs] are the caller's messages (each at least 1280 bytes of buffer: smaller ones are replaced by the API),
    the iterator starts at 0. *)
Definition at_end (msgs : list imsg) (it : iter) : bool :=
  Nat.eqb (it_m it) (length msgs) && Nat.eqb (it_b it) 0 && (it_o it =? 0).
Definition n_valid (it : iter) : Z :=
  if Nat.eqb (it_b it) 0 && (it_o it =? 0) then Z.of_nat (it_m it) else Z.of_nat (it_m it) + 1.

Fixpoint rm_dispatch (fuel : nat) (s : rst) (k : kern) (msgs : list imsg) (im : nat)
  : option (rst * kern * list imsg * nat * bool) :=
  match fuel with
  | O => None
  | S f =>
    if Nat.eqb im (length msgs) then Some (s, k, msgs, im, false) else
    match nth_error msgs im with
    | None => None
    | Some m =>
      match recv_unlocked s k m with
      | None => None
      | Some (RWouldBlock, s', k', _) => Some (s', k', msgs, im, false)
      | Some (RError, s', k', _) => Some (s', k', msgs, im, true)
      | Some (ROob, s', k', _) => rm_dispatch f s' k' msgs im
      | Some (RSuccess, s', k', m') => rm_dispatch f s' k' (set_nth msgs im m') (S im)
      end
    end
  end.

(** one API call: the cached-frame short cut, else main-context iterations (one dispatch each while the
    socket is readable) until the messages are full or an iteration changes nothing.
    Result: state, kernel, messages, return value (-1 = would block / error). *)
Fixpoint rm_iterate (n : nat) (s : rst) (k : kern) (msgs : list imsg) (im : nat)
  : option (rst * kern * list imsg * nat) :=
  match n with
  | O => Some (s, k, msgs, im)
  | S n' =>
    if Nat.eqb im (length msgs) then Some (s, k, msgs, im) else
    match script k with
    | [] => Some (s, k, msgs, im)                 (* the socket is not readable: no dispatch *)
    | _ =>
      match rm_dispatch (dispatch_fuel s k) s k msgs im with
      | None => None
      | Some (s', k', msgs', im', err) =>
        if err || Nat.eqb im' im then Some (s', k', msgs', im') else rm_iterate n' s' k' msgs' im'
      end
    end
  end.

Definition recv_messages_call (s : rst) (k : kern) (msgs : list imsg)
  : option (rst * kern * list imsg * Z) :=
  match try_consume s msgs iter0 with
  | None => None
  | Some (Some (s', msgs', it')) => Some (s', k, msgs', n_valid it')
  | Some None =>
    match rm_iterate (S (length (script k))) s k msgs O with
    | None => None
    | Some (s', k', msgs', im) => Some (s', k', msgs', if Nat.eqb im 0 then -1 else Z.of_nat im)
    end
  end.

End Demux.
