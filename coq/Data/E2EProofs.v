(** C02 -- sender and receiver composed; witnesses of the receive-side defects. *)
From Coq Require Import ZArith List Bool Lia.
From Nice Require Import Stream.StreamBase Stream.StreamProofs Data.FramingModel Data.SendProofs Data.RecvProofs.
Import ListNotations.
Local Open Scope Z_scope.
Ltac Zify.zify_post_hook ::= Z.div_mod_to_equations.

Lemma frame_of_same p : SendProofs.frame_of p = RecvProofs.frame_of p.
Proof. reflexivity. Qed.

Lemma chunks_ok : forall fuel d, bytes_ok d -> Forall bytes_ok (chunks fuel d).
Proof.
  induction fuel as [|f IH]; intros d Hd; cbn [chunks]; [constructor|].
  destruct (lenZ d <=? 0); [constructor|].
  destruct (lenZ d >? FMAX).
  - constructor; [apply bytes_ok_takeZ; exact Hd | apply IH; apply bytes_ok_dropZ; exact Hd].
  - constructor; [exact Hd | constructor].
Qed.

Lemma pieces_pl_ok d : bytes_ok d -> Forall pl_ok (pieces d).
Proof.
  intros Hd. pose proof (pieces_bound d) as Hb. pose proof (chunks_ok (S (Z.to_nat (lenZ d / FMAX))) d Hd) as Ho.
  fold (pieces d) in Ho. revert Hb Ho. generalize (pieces d). intros l Hb Ho.
  induction l as [|p l IH]; [constructor|].
  constructor.
  - split; [exact (Forall_inv Ho)|]. pose proof (Forall_inv Hb) as H. cbn beta in H. rewrite FMAX_val in H. lia.
  - apply IH; [exact (Forall_inv_tail Hb) | exact (Forall_inv_tail Ho)].
Qed.

Lemma pieces_nonempty d : Forall (fun p => lenZ p <> 0) (pieces d).
Proof.
  pose proof (pieces_bound d) as Hb. induction Hb as [|p l Hp _ IH]; constructor; [lia | exact IH].
Qed.

Lemma encode_concat_map (f : list bytes -> list bytes) (l : list (list bytes)) :
  concat (map (fun b => concat (map SendProofs.frame_of (f b))) l) = encode (concat (map f l)).
Proof.
  unfold encode. induction l as [|b l IH]; cbn [map concat]; [reflexivity|].
  rewrite map_app, concat_app, IH. reflexivity.
Qed.

(** * End to end over one TCP connection

    Messages of any sizes with any scatter layouts, sent in one API call (all accepted), the resulting
    byte stream cut into kernel reads in ANY way: the
    receive callback gets, in order and one call each, the 0xF800-byte pieces of the messages, minus
    those the STUN demultiplexer takes for ICE control.  In particular nothing is lost, merged across
    a message boundary, split elsewhere, or reordered. *)
Theorem tcp_end_to_end (ctl : bytes -> bool) (msgs : list (list bytes)) :
  Forall (fun b => sumlen b < W64 /\ 0 < sumlen b /\ bytes_ok (concat b)) msgs -> msgs <> [] ->
  exists fss, send_api msgs [] = Some (fss, Z.of_nat (length msgs)) /\
    forall n sc s' k' ds,
      cb_session false ctl true n rst0 {| pend := concat (map wire_of fss); script := sc |} = Some (s', k', ds, false) ->
      pend k' = [] ->
      ds = filter (keep ctl true) (concat (map (fun b => pieces (concat b)) msgs)) /\ unc s' = [].
Proof.
  intros Hall Hne.
  assert (H1 : Forall (fun b => sumlen b < W64 /\ 0 < sumlen b) msgs).
  { eapply Forall_impl; [|exact Hall]. cbn beta. intros b (Ha & Hb & _). auto. }
  destruct (send_api_all msgs H1 Hne) as (fss & Hsend & Hwire).
  exists fss. split; [exact Hsend|].
  intros n sc s' k' ds Hrun Hp.
  assert (Henc : concat (map wire_of fss) = encode (concat (map (fun b => pieces (concat b)) msgs))).
  { rewrite Hwire. exact (encode_concat_map (fun b => pieces (concat b)) msgs). }
  rewrite Henc in Hrun.
  set (ps := concat (map (fun b => pieces (concat b)) msgs)) in *.
  assert (Hps : Forall pl_ok ps).
  { unfold ps. clear - Hall. induction Hall as [|b l (_ & _ & Hok) _ IH]; cbn [map concat]; [constructor|].
    apply Forall_app. split; [apply pieces_pl_ok; exact Hok | exact IH]. }
  rewrite <- (app_nil_r (encode ps)) in Hrun.
  apply (cb_session_all ctl true n ps [] sc s' k' ds Hps (Forall_nil _) eq_refl Hrun Hp).
Qed.

(** if no piece is taken for ICE control, every piece is delivered *)
Corollary tcp_end_to_end_all (ctl : bytes -> bool) (msgs : list (list bytes)) :
  Forall (fun b => sumlen b < W64 /\ 0 < sumlen b /\ bytes_ok (concat b)) msgs -> msgs <> [] ->
  Forall (fun b => Forall (fun p => ctl p = false) (pieces (concat b))) msgs ->
  exists fss, send_api msgs [] = Some (fss, Z.of_nat (length msgs)) /\
    forall n sc s' k' ds,
      cb_session false ctl true n rst0 {| pend := concat (map wire_of fss); script := sc |} = Some (s', k', ds, false) ->
      pend k' = [] ->
      ds = concat (map (fun b => pieces (concat b)) msgs) /\ map (@concat Z) (map (fun b => pieces (concat b)) msgs) = map (@concat Z) msgs.
Proof.
  intros Hall Hne Hctl.
  destruct (tcp_end_to_end ctl msgs Hall Hne) as (fss & Hs & Hr).
  exists fss. split; [exact Hs|]. intros n sc s' k' ds Hrun Hp.
  destruct (Hr n sc s' k' ds Hrun Hp) as [Hds _]. split.
  - rewrite Hds. clear - Hctl. induction Hctl as [|b l Hb _ IH]; cbn [map concat]; [reflexivity|].
    rewrite filter_app, IH. f_equal.
    pose proof (pieces_nonempty (concat b)) as Hn. revert Hb Hn. generalize (pieces (concat b)). intros ps Hb Hn.
    induction ps as [|p ps IHp]; [reflexivity|]. cbn [filter].
    pose proof (Forall_inv Hb) as Hc. pose proof (Forall_inv Hn) as Hz. cbn beta in Hc, Hz.
    unfold keep, dropped. rewrite Hc. replace (lenZ p =? 0) with false by (symmetry; apply Z.eqb_neq; exact Hz).
    cbn [orb negb]. f_equal. apply IHp; [exact (Forall_inv_tail Hb) | exact (Forall_inv_tail Hn)].
  - rewrite map_map. apply map_ext. intros b. apply pieces_concat.
Qed.

(* ------------------------------------------------------------------------------------------------ *)
(** * Witnesses of the receive-side defects (by computation on the model; reproduced on the real code) *)

Definition ctl1 (p : bytes) : bool := match p with 1 :: _ => true | _ => false end.
Definition small_msg : imsg := {| m_bufs := [repZ 0 1500]; m_len := 0 |}.

(** nice_agent_recv_messages hands out a cached frame without demultiplexing: the stream carries the data frame
    "AB" and an ICE control frame; the callback API delivers "AB" only, two recv_messages calls deliver both. *)
Theorem recv_messages_ctl_leak_refuted :
  let stream := [0; 2; 65; 66; 0; 3; 1; 2; 3] in
  let k0 := {| pend := stream; script := [KRead 100] |} in
  ctl1 [1; 2; 3] = true /\
  (exists s k, cb_session false ctl1 true 2 rst0 k0 = Some (s, k, [[65; 66]], false)) /\
  exists s1 k1 m1 s2 k2 m2,
    recv_messages_call false ctl1 true rst0 k0 [small_msg] = Some (s1, k1, [m1], 1) /\ valid_bytes m1 = [65; 66] /\
    recv_messages_call false ctl1 true s1 k1 [small_msg] = Some (s2, k2, [m2], 1) /\ valid_bytes m2 = [1; 2; 3].
Proof.
  cbv zeta. split; [reflexivity|]. split.
  - eexists _, _. vm_compute. reflexivity.
  - eexists _, _, _, _, _, _. split; [vm_compute; reflexivity|]. split; [vm_compute; reflexivity|].
    split; [vm_compute; reflexivity|]. vm_compute. reflexivity.
Qed.

(** The reassembly state is per component, not per connection.  Connection 1 delivers the first 7 bytes of the frame
    of the 10-byte message 11..20; then bytes 00 03 aa bb cc arrive on another connection of the component;
    then the rest of connection 1.  (a) the other connection is the pair's second, verified one: the application gets
    11 12 13 14 15 0 3 170 187 204 instead of 11..20; (b) it is a third party's (source not verified): the message is
    dropped; in both cases the next "length field" is 16 17 and the stream stays out of step. *)
Theorem shared_reassembly_refuted :
  let k1 := {| pend := [0; 10; 11; 12; 13; 14; 15; 16; 17; 18; 19; 20]; script := [KRead 7; KRead 100] |} in
  let k2 := {| pend := [0; 3; 170; 187; 204]; script := [KRead 100] |} in
  exists s1 k1' ,
    recv_unlocked false ctl1 true rst0 k1 small_msg = Some (RWouldBlock, s1, k1', small_msg) /\
    (exists s2 k2' m s3 k3,
       recv_unlocked false ctl1 true s1 k2 small_msg = Some (RSuccess, s2, k2', m) /\
       valid_bytes m = [11; 12; 13; 14; 15; 0; 3; 170; 187; 204] /\
       recv_unlocked false ctl1 true s2 k1' small_msg = Some (RWouldBlock, s3, k3, small_msg) /\ r_fs s3 = 2 + (16 * 256 + 17)) /\
    (exists s2 k2' s3 k3,
       recv_unlocked false ctl1 false s1 k2 small_msg = Some (ROob, s2, k2', small_msg) /\
       recv_unlocked false ctl1 true s2 k1' small_msg = Some (RWouldBlock, s3, k3, small_msg) /\ r_fs s3 = 2 + (16 * 256 + 17)).
Proof.
  cbv zeta. eexists _, _. split; [vm_compute; reflexivity|]. split.
  - eexists _, _, _, _, _. split; [vm_compute; reflexivity|]. split; [vm_compute; reflexivity|].
    split; [vm_compute; reflexivity|]. vm_compute. reflexivity.
  - eexists _, _, _, _. split; [vm_compute; reflexivity|]. split; [vm_compute; reflexivity|]. vm_compute. reflexivity.
Qed.

(** non-vacuity of the segmentation theorems: one stream, two different cuts (one of them inside both headers), same result *)
Example cb_session_two_cuts :
  let stream := [0; 3; 7; 8; 9; 0; 0; 0; 2; 65; 66; 0] in
  exists s1 k1 s2 k2,
    cb_session false ctl1 true 9 rst0 {| pend := stream; script := [KRead 1; KRead 1; KRead 2; KEmpty; KRead 2; KRead 1; KRead 100] |}
      = Some (s1, k1, [[7; 8; 9]; [65; 66]], false) /\ pend k1 = [] /\
    cb_session false ctl1 true 3 rst0 {| pend := stream; script := [KRead 100] |}
      = Some (s2, k2, [[7; 8; 9]; [65; 66]], false) /\ pend k2 = [] /\ unc s1 = [0] /\ unc s2 = [0].
Proof.
  cbv zeta. eexists _, _, _, _. split; [vm_compute; reflexivity|]. split; [vm_compute; reflexivity|].
  split; [vm_compute; reflexivity|]. split; [vm_compute; reflexivity|]. split; vm_compute; reflexivity.
Qed.
