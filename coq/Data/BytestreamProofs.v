(** C02 -- bytestream-tcp: the inner receive loop of component_io_cb (agent.c:6339-6383) when the caller's remaining
    buffers have no room at all (after fix 163ebb1). *)
From Coq Require Import ZArith List Bool Lia.
From Nice Require Import Stream.StreamBase Stream.StreamProofs Data.FramingModel Data.RecvProofs.
Import ListNotations.
Local Open Scope Z_scope.
Ltac Zify.zify_post_hook ::= Z.div_mod_to_equations.

Section ZeroCapacity.
Variable ctl : bytes -> bool.
Variable gate : bool.

(** A frame for the application is pending (complete in the reassembly buffer), the remaining receive buffers -- ANY
    layout: none, one or several zero-length buffers -- have zero total size.  One call of the loop body "succeeds" with
    0 bytes; the loop then leaves with would-block: it terminates whatever the fuel, nothing was consumed (the frame is
    still whole in the buffer, no byte of it is marked consumed), nothing was added to what the caller has got. *)
Theorem zero_capacity_would_block s k bufs acc fuel :
  Inv s -> whole (unc s) = true -> dropped ctl gate (payload_of (unc s)) = false -> sumlen bufs = 0 ->
  exists s', rel_inner true ctl gate (S fuel) s k bufs acc = Some (s', k, acc, RWouldBlock) /\
    r_buf s' = r_buf s /\ r_fo s' = r_fo s /\ r_fs s' = r_fs s /\ r_cs s' = 0 /\ unc s' = unc s.
Proof.
  intros I Hw Hdr Hcap.
  destruct (unc s) as [|hi [|lo t]] eqn:Eu; cbn [whole] in Hw; try discriminate.
  apply Z.leb_le in Hw. cbn [payload_of] in Hdr.
  set (m := {| m_bufs := bufs; m_len := 0 |}).
  assert (Hm : sumlen (m_bufs m) < W64) by (cbn [m m_bufs]; rewrite Hcap; reflexivity).
  destruct (consume_whole s m hi lo t I Eu Hw Hm) as (s3 & m3 & _ & _ & _ & Hpay & Hfs & Hul & _ & _).
  set (n := hi * 256 + lo) in *. set (p := takeZ n t) in *.
  pose proof (unc_ok s I) as Hok. rewrite Eu in Hok.
  pose proof (be16_range hi lo (Forall_inv Hok) (Forall_inv (Forall_inv_tail Hok))) as Hr. fold n in Hr.
  pose proof (lenZ_nonneg t) as Htn.
  assert (Hlp : lenZ p = n) by (unfold p; rewrite lenZ_takeZ; lia).
  assert (Hn0 : n <> 0).
  { unfold dropped in Hdr. apply orb_false_iff in Hdr. destruct Hdr as [Hdr _]. apply orb_false_iff in Hdr.
    destruct Hdr as [Hdr _]. apply Z.eqb_neq in Hdr. lia. }
  pose proof (missing_whole s I) as Hmiss. rewrite Eu in Hmiss. cbn [whole] in Hmiss.
  replace (hi * 256 + lo <=? lenZ t) with true in Hmiss by (symmetry; apply Z.leb_le; exact Hw). cbn [negb] in Hmiss.
  pose proof (headroom_unc s I) as Hh. rewrite Hul in Hh.
  pose proof (inv_cs s I) as Hcs.
  (* the copy into buffers without room *)
  assert (Hpos : pos_ok bufs 0).
  { destruct bufs as [|v vs]; cbn [pos_ok]; [reflexivity|]. pose proof (lenZ_nonneg v). lia. }
  destruct (app_loop_spec bufs O 0 p Hpos ltac:(rewrite Hcap; reflexivity)) as (rest' & ib' & io' & Hrun & Hcat & Hlen & _ & _ & Hleft).
  rewrite Hcap in Hrun, Hcat, Hleft. pose proof (lenZ_nonneg p) as Hpn.
  replace (Z.min (lenZ p) (0 - 0)) with 0 in Hrun, Hcat, Hleft by lia.
  rewrite (dropZ_nonpos 0) in Hrun by lia. rewrite Nat.sub_0_r in Hleft.
  set (s' := {| r_buf := r_buf s; r_fo := r_fo s; r_fs := r_fs s; r_cs := 0; r_wake := true |}).
  set (m' := {| m_bufs := rest'; m_len := 0 |}).
  assert (Hrecv : recv_unlocked true ctl gate s k m = Some (RSuccess, s', k, m')).
  { unfold recv_unlocked, read_phase. rewrite Hmiss. unfold len_phase. cbn [andb].
    unfold deliver_phase. rewrite Hh.
    replace (negb (r_fs s =? 0) && (r_fs s <=? 2 + lenZ t)) with true
      by (symmetry; apply andb_true_iff; split; [apply negb_true_iff; apply Z.eqb_neq; lia | apply Z.leb_le; lia]).
    rewrite Hpay. fold p. fold (dropped ctl gate p). rewrite Hdr.
    unfold consume. rewrite Hcs.
    replace (w64 (r_fs s - 2 - 0)) with n by (rewrite w64_id; [lia | pose proof W64_big; lia]).
    replace (r_fo s + r_fs s - n) with (r_fo s + 2) by lia.
    replace n with (r_fs s - 2) at 1 by lia. rewrite Hpay.
    unfold append_buffer. cbn [it_m it_b it_o iter0 nth_error skipn firstn app Nat.eqb andb m m_bufs m_len].
    rewrite Z.eqb_refl. rewrite Hrun. cbn [set_nth].
    replace (lenZ p - lenZ p) with 0 by lia.
    unfold capacity. cbn [it_m it_b it_o length Nat.eqb nth_error m_bufs].
    rewrite Hleft. replace (0 - 0 - 0) with 0 by lia. rewrite (w64_id 0) by (pose proof W64_big; lia).
    rewrite (Z.eqb_refl 0). cbn [negb orb].
    replace (0 =? n) with false by (symmetry; apply Z.eqb_neq; lia). cbn [orb].
    rewrite (w32_id (0 + 0)) by lia. rewrite !Z.add_0_l. reflexivity. }
  exists s'. split.
  - cbn [rel_inner]. fold m. rewrite Hrecv. cbn [negb m_len m' Z.eqb].
    unfold valid_bytes. cbn [m_len m']. rewrite takeZ_nonpos by lia. rewrite app_nil_r. reflexivity.
  - cbn [s' r_buf r_fo r_fs r_cs]. repeat split; try reflexivity. unfold unc. cbn [r_buf r_fo]. exact Eu.
Qed.

End ZeroCapacity.

(** the two layouts that made nice_agent_recv_messages spin before the fix: [0][0] with one frame pending ... *)
Definition ctl_none (p : bytes) : bool := false.
Definition pending_s : rst := {| r_buf := [0; 2; 65; 66]; r_fo := 0; r_fs := 4; r_cs := 0; r_wake := true |}.
Definition no_kern : kern := {| pend := []; script := [] |}.

Example zero_capacity_regression : forall fuel,
  rel_inner true ctl_none true (S fuel) pending_s no_kern [[]; []] [] = Some (pending_s, no_kern, [], RWouldBlock).
Proof.
  intros fuel. cbn [rel_inner].
  assert (H : recv_unlocked true ctl_none true pending_s no_kern {| m_bufs := [[]; []]; m_len := 0 |}
              = Some (RSuccess, pending_s, no_kern, {| m_bufs := [[]; []]; m_len := 0 |})) by (vm_compute; reflexivity).
  rewrite H. reflexivity.
Qed.
