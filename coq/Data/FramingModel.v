(** C02 -- executable model of the ICE-TCP data path of agent/agent.c.  No proofs in this file.

    Sender: the RFC 4571 framing loop of nice_agent_send_messages_nonblocking_internal
    (agent.c:5759-5850): 2-byte big-endian length prefix, messages above 0xF800 bytes cut into
    consecutive frames, the walk over the caller's scatter buffers with offset / current_offset /
    offset_in_buffer written out as the C does it (after fix f9b160b: the vector of the buffer a frame
    starts in has size MIN (size - offset_in_buffer, packet_len)).  An output vector is (pointer, size);
    the socket layer reads [size] bytes at the pointer: [mreadn] is a checked read, so a vector that runs
    past the end of the caller's buffer is a Fault ([None]), not a silently truncated slice.

    Receiver: the per-component reassembly state rfc4571_buffer / _buffer_offset / _frame_offset /
    _frame_size / _consumed_size / _wakeup_needed, the TCP branch of agent_recv_message_unlocked
    (agent.c:4666-4768, 4774-4927), agent_consume_next_rfc4571_chunk, agent_try_consume_next_rfc4571_chunk,
    append_buffer_to_input_messages, nice_input_message_iter_get_message_capacity, and the loops of
    component_io_cb / nice_agent_recv_messages that call them.  The buffer is modelled by its valid
    part (the first rfc4571_buffer_offset bytes); every read is checked against it.

    The kernel is an input: the bytes still to come ([pend]) and a script of answers ([KRead cap]: the
    read returns min(cap, bytes asked, bytes pending); [KEmpty]: FIONREAD says 0 although bytes may be
    on their way; [KClosed]).  An exhausted script means "nothing readable now".

    The STUN / data demultiplexing decision (fast length check, full validation,
    conn_check_handle_inbound_stun) is a parameter [ctl : bytes -> bool]; [gate] is the result of
    nice_component_verify_remote_candidate for the socket. *)
From Coq Require Import ZArith List Bool.
From Nice Require Import Stream.StreamBase.
Import ListNotations.
Local Open Scope Z_scope.

Definition bytes := list Z.

Definition FMAX : Z := 63488.        (* 0xF800 *)
Definition BUFSZ : Z := 65537.       (* rfc4571_buffer_size = sizeof (guint16) + G_MAXUINT16 *)
Definition RECVBUF : Z := 65535.     (* component->recv_buffer_size *)

Definition hdr (n : Z) : bytes := [(n / 256) mod 256; n mod 256].     (* htons, as bytes on the wire *)

Fixpoint sumlen (bufs : list bytes) : Z := match bufs with [] => 0 | b :: t => lenZ b + sumlen t end.

(* ------------------------------------------------------------------------------------------------ *)
(** * Sender *)

(** The caller's vector: [arr] is the array as it sits in memory (NULL buffer pointer = [None]),
    [n_buffers] the count or -1.  Result: the n_bufs buffers the framing loop walks.  Reading past the
    array, or a NULL pointer with a count that includes it, is a Fault. *)
Fixpoint until_null (arr : list (option bytes)) : option (list bytes) :=
  match arr with
  | [] => None                                   (* no terminator: the walk leaves the array *)
  | None :: _ => Some []
  | Some b :: t => match until_null t with None => None | Some r => Some (b :: r) end
  end.
Fixpoint first_n (n : nat) (arr : list (option bytes)) : option (list bytes) :=
  match n with
  | O => Some []
  | S k => match arr with
           | Some b :: t => match first_n k t with None => None | Some r => Some (b :: r) end
           | _ => None
           end
  end.
Definition vec_of (n_buffers : Z) (arr : list (option bytes)) : option (list bytes) :=
  if n_buffers =? -1 then until_null arr
  else if n_buffers <? 0 then None else first_n (Z.to_nat n_buffers) arr.

(** agent.c:5805-5814: find the buffer to start from.  Result: offset_in_buffer, current_offset and
    the buffers from index j on. *)
Fixpoint find_buf (bufs : list bytes) (offset cur : Z) : Z * Z * list bytes :=
  match bufs with
  | [] => (0, cur, [])
  | b :: bs =>
      if lenZ b <? w64 (offset - cur)
      then find_buf bs offset (w64 (cur + lenZ b))
      else (w64 (offset - cur), offset, bufs)
  end.

(** agent.c:5817-5825: one output vector per remaining buffer; result: the bytes the socket layer
    reads through each vector and the total size (what [offset] advances by). *)
Fixpoint copy_loop (bufs : list bytes) (oib plen : Z) : option (list bytes * Z) :=
  match bufs with
  | [] => Some ([], 0)
  | b :: bs =>
      let sz := Z.min (w64 (lenZ b - oib)) plen in      (* MIN (size - offset_in_buffer, packet_len), gsize arithmetic *)
      match mreadn b oib sz with
      | None => None
      | Some s =>
        match copy_loop bs 0 (w16 (plen - sz)) with
        | None => None
        | Some (r, tot) => Some (s :: r, sz + tot)
        end
      end
  end.

Inductive sres := SOk | SBlock | SErr.      (* nice_socket_send_messages(_reliable) returned 1 / 0 / <0 *)

Record frame := { f_reliable : bool; f_vec : list bytes; f_res : sres }.

Definition next_resp (resp : list sres) : sres * list sres :=
  match resp with [] => (SOk, []) | r :: t => (r, t) end.

(** the [while (message_len > 0)] loop for one message.  Result: frames handed to the socket, unused
    socket answers, "n_sent was incremented", "a negative return was seen". *)
Fixpoint frame_loop (fuel : nat) (bufs : list bytes) (mlen offset : Z) (resp : list sres)
  : option (list frame * list sres * bool * bool) :=
  if mlen <=? 0 then Some ([], resp, false, false) else
  match fuel with
  | O => None
  | S fuel' =>
    let plen := if mlen >? FMAX then FMAX else w16 mlen in
    let mlen' := mlen - plen in
    let '(oib, cur, rest) := find_buf bufs offset 0 in
    match copy_loop rest oib plen with
    | None => None
    | Some (vec, adv) =>
      let '(r, resp') := next_resp resp in
      let fr := {| f_reliable := negb (cur =? 0); f_vec := hdr plen :: vec; f_res := r |} in
      match r with
      | SOk =>
          if mlen' =? 0 then Some ([fr], resp', true, false)
          else match frame_loop fuel' bufs mlen' (w64 (offset + adv)) resp' with
               | None => None
               | Some (fs, rs, c, e) => Some (fr :: fs, rs, c, e)
               end
      | SBlock => Some ([fr], resp', false, false)
      | SErr => Some ([fr], resp', false, true)
      end
    end
  end.

Definition send_message (bufs : list bytes) (resp : list sres) :=
  let total := sumlen bufs in
  frame_loop (S (Z.to_nat (total / FMAX))) bufs total 0 resp.

(** the [for (i = 0; i < n_messages; i++)] loop; [n] is n_sent *)
Fixpoint send_loop (msgs : list (list bytes)) (resp : list sres) (n : Z) : option (list (list frame) * Z) :=
  match msgs with
  | [] => Some ([], n)
  | m :: ms =>
    match send_message m resp with
    | None => None
    | Some (fs, resp', counted, err) =>
      let n1 := if err && (n =? 0) then -1 else n in
      let n2 := if counted then n1 + 1 else n1 in
      match send_loop ms resp' n2 with
      | None => None
      | Some (r, n') => Some (fs :: r, n')
      end
    end
  end.

(** return value of nice_agent_send_messages_nonblocking: number of messages, or -1 (error / would block) *)
Definition send_api (msgs : list (list bytes)) (resp : list sres) : option (list (list frame) * Z) :=
  match send_loop msgs resp 0 with
  | None => None
  | Some (fs, n) => Some (fs, if n <=? 0 then -1 else n)
  end.

(** the bytes a frame puts on the wire when the socket takes it *)
Definition frame_bytes (f : frame) : bytes := concat (f_vec f).
Definition accepted (fs : list frame) : list frame :=
  filter (fun f => match f_res f with SOk => true | _ => false end) fs.
Definition wire_of (fs : list frame) : bytes := concat (map frame_bytes (accepted fs)).

(** all answers SOk: the frames of one message *)
Definition send_frames (bufs : list bytes) : option (list (list bytes)) :=
  match send_message bufs [] with
  | None => None
  | Some (fs, _, _, _) => Some (map f_vec fs)
  end.

(* ------------------------------------------------------------------------------------------------ *)
(** * Receiver *)

Record rst := { r_buf : bytes; r_fo : Z; r_fs : Z; r_cs : Z; r_wake : bool }.
Definition rst0 : rst := {| r_buf := []; r_fo := 0; r_fs := 0; r_cs := 0; r_wake := false |}.

(* nice_component_compute_rfc4571_headroom: guint arithmetic *)
Definition headroom (s : rst) : Z := w32 (lenZ (r_buf s) - r_fo s).

Definition rd16 (b : bytes) (off : Z) : option Z :=
  match mreadn b off 2 with
  | Some [hi; lo] => Some (hi * 256 + lo)
  | _ => None
  end.

Record imsg := { m_bufs : list bytes; m_len : Z }.
Record iter := { it_m : nat; it_b : nat; it_o : Z }.
Definition iter0 : iter := {| it_m := O; it_b := O; it_o := 0 |}.

(** the [for] loop of append_buffer_to_input_messages over the buffers from iter->buffer on.
    Result: those buffers after the copies, iter->buffer, iter->offset, the data not copied. *)
Fixpoint app_loop (rest : list bytes) (ib : nat) (io : Z) (data : bytes)
  : option (list bytes * nat * Z * bytes) :=
  match rest with
  | [] => Some ([], ib, io, data)
  | v :: vs =>
      let l := Z.min (lenZ data) (w64 (lenZ v - io)) in
      match mwrite v io (takeZ l data) with
      | None => None
      | Some v' =>
        let data' := dropZ l data in
        if lenZ data' =? 0 then Some (v' :: vs, ib, io + l, data')
        else match app_loop vs (S ib) 0 data' with
             | None => None
             | Some (vs', ib', io', d') => Some (v' :: vs', ib', io', d')
             end
      end
  end.

Fixpoint set_nth {A} (l : list A) (n : nat) (x : A) : list A :=
  match l, n with
  | [], _ => []
  | _ :: t, O => x :: t
  | h :: t, S k => h :: set_nth t k x
  end.

(* nice_input_message_iter_get_message_capacity *)
Definition capacity (msgs : list imsg) (it : iter) : option Z :=
  if Nat.eqb (it_m it) (length msgs) then Some 0 else
  match nth_error msgs (it_m it) with
  | None => None
  | Some m => Some (w64 (sumlen (skipn (it_b it) (m_bufs m)) - it_o it))
  end.

Definition append_buffer (bs_mode : bool) (msgs : list imsg) (it : iter) (data : bytes)
  : option (list imsg * iter * Z) :=
  match nth_error msgs (it_m it) with
  | None => None                          (* messages[iter->message] lies outside the array *)
  | Some m =>
    let len0 := if Nat.eqb (it_b it) 0 && (it_o it =? 0) then 0 else m_len m in
    match app_loop (skipn (it_b it) (m_bufs m)) (it_b it) (it_o it) data with
    | None => None
    | Some (rest', ib', io', lft) =>
      let copied := lenZ data - lenZ lft in
      let m' := {| m_bufs := firstn (it_b it) (m_bufs m) ++ rest'; m_len := len0 + copied |} in
      let msgs' := set_nth msgs (it_m it) m' in
      let it1 := {| it_m := it_m it; it_b := ib'; it_o := io' |} in
      match (if bs_mode then capacity msgs' it1 else Some 0) with
      | None => None
      | Some cap =>
        let it2 := if negb bs_mode || (cap =? 0)
                   then {| it_m := S (it_m it); it_b := O; it_o := 0 |} else it1 in
        Some (msgs', it2, copied)
      end
    end
  end.

(** agent_consume_next_rfc4571_chunk; [tgt = None] is the call with messages == NULL *)
Definition next_frame (s : rst) : option rst :=
  let fo := w32 (r_fo s + r_fs s) in
  let h := w32 (lenZ (r_buf s) - fo) in
  if 2 <=? h then
    match rd16 (r_buf s) fo with
    | None => None
    | Some v => Some {| r_buf := r_buf s; r_fo := fo; r_fs := 2 + v; r_cs := 0; r_wake := (2 + v <=? h) |}
    end
  else Some {| r_buf := r_buf s; r_fo := fo; r_fs := 0; r_cs := 0; r_wake := false |}.

Definition consume (bs_mode : bool) (s : rst) (tgt : option (list imsg * iter))
  : option (rst * option (list imsg * iter)) :=
  match tgt with
  | None => match next_frame s with None => None | Some s' => Some (s', None) end
  | Some (msgs, it) =>
    let unc := w64 (r_fs s - 2 - r_cs s) in
    match mreadn (r_buf s) (r_fo s + r_fs s - unc) unc with
    | None => None
    | Some data =>
      match append_buffer bs_mode msgs it data with
      | None => None
      | Some (msgs', it', copied) =>
        if (copied =? unc) || negb bs_mode then
          match next_frame s with None => None | Some s' => Some (s', Some (msgs', it')) end
        else
          Some ({| r_buf := r_buf s; r_fo := r_fo s; r_fs := r_fs s; r_cs := w32 (r_cs s + copied); r_wake := true |},
                Some (msgs', it'))
      end
    end
  end.

Inductive kev := KRead (cap : Z) | KEmpty | KClosed.
Record kern := { pend : bytes; script : list kev }.

Inductive rstatus := RSuccess | ROob | RWouldBlock | RError.

Section Demux.
Variable bs_mode : bool.            (* agent->bytestream_tcp *)
Variable ctl : bytes -> bool.       (* the frame is consumed as ICE control (STUN) *)
Variable gate : bool.               (* nice_component_verify_remote_candidate (component, from, nicesock) *)

(** the TCP_BSD branch of agent_recv_message_unlocked for one call with the caller's message [m], in three
    phases: the read into the reassembly buffer, the decoding of the length field, the hand-out. *)
Definition missing (s : rst) : bool := (r_fs s =? 0) || (headroom s <? r_fs s).

(* agent.c:4680-4738; result: sockret, state, headroom, kernel *)
Definition read_phase (s : rst) (k : kern) : option (Z * rst * Z * kern) :=
  let h := headroom s in
  if missing s then
    match script k with
    | [] => Some (0, s, h, k)
    | KEmpty :: sc => Some (0, s, h, {| pend := pend k; script := sc |})
    | KClosed :: sc => Some (-1, s, h, {| pend := pend k; script := sc |})
    | KRead cap :: sc =>
        if lenZ (pend k) =? 0 then Some (0, s, h, {| pend := pend k; script := sc |}) else
        if BUFSZ <? h then None else
        match mreadn (r_buf s) (r_fo s) h with        (* memmove of the cached bytes to the front *)
        | None => None
        | Some keep =>
          let d := takeZ (Z.min cap (BUFSZ - h)) (pend k) in
          let s1 := {| r_buf := keep ++ d; r_fo := 0; r_fs := r_fs s; r_cs := r_cs s; r_wake := r_wake s |} in
          Some ((if lenZ d =? 0 then 0 else 1), s1, w32 (h + lenZ d),
                {| pend := dropZ (Z.min cap (BUFSZ - h)) (pend k); script := sc |})
        end
    end
  else Some (0, s, h, k).

(* agent.c:4740-4745 *)
Definition len_phase (was_missing : bool) (s1 : rst) (h1 : Z) : option rst :=
  if was_missing && (r_fs s1 =? 0) && (2 <=? h1) then
    match rd16 (r_buf s1) (r_fo s1) with
    | None => None
    | Some v => Some {| r_buf := r_buf s1; r_fo := r_fo s1; r_fs := 2 + v; r_cs := r_cs s1; r_wake := r_wake s1 |}
    end
  else Some s1.

(* agent.c:4748-4927 *)
Definition deliver_phase (s2 : rst) (h1 sockret : Z) (k1 : kern) (m : imsg) : option (rstatus * rst * kern * imsg) :=
  if negb (r_fs s2 =? 0) && (r_fs s2 <=? h1) then
    (* have_whole_frame *)
    match mreadn (r_buf s2) (r_fo s2 + 2) (r_fs s2 - 2) with
    | None => None
    | Some payload =>
      if (lenZ payload =? 0) || ctl payload || negb gate then
        match consume bs_mode s2 None with
        | None => None
        | Some (s3, _) => Some (ROob, s3, k1, m)
        end
      else
        match consume bs_mode s2 (Some ([m], iter0)) with
        | Some (s3, Some ([m'], _)) => Some (RSuccess, s3, k1, m')
        | _ => None
        end
    end
  else if sockret <? 0 then Some (RError, s2, k1, m)
  else Some (RWouldBlock, s2, k1, m).

Definition recv_unlocked (s : rst) (k : kern) (m : imsg) : option (rstatus * rst * kern * imsg) :=
  match read_phase s k with
  | None => None
  | Some (sockret, s1, h1, k1) =>
    match len_phase (missing s) s1 h1 with
    | None => None
    | Some s2 => deliver_phase s2 h1 sockret k1 m
    end
  end.

(** agent_try_consume_next_rfc4571_chunk *)
Definition try_consume (s : rst) (msgs : list imsg) (it : iter) : option (option (rst * list imsg * iter)) :=
  if r_fs s =? 0 then Some None
  else if headroom s <? r_fs s then Some None
  else match consume bs_mode s (Some (msgs, it)) with
       | Some (s', Some (msgs', it')) => Some (Some (s', msgs', it'))
       | _ => None
       end.

(** what the application sees *)
Definition valid_bytes (m : imsg) : bytes := takeZ (m_len m) (concat (m_bufs m)).

(** component_io_cb, branch "has_io_callback, agent not reliable" (agent.c:6404-6443): one dispatch.
    The scratch message is component->recv_buffer. *)
Definition scratch : imsg := {| m_bufs := [repZ 0 (Z.to_nat RECVBUF)]; m_len := 0 |}.

Fixpoint cb_dispatch (fuel : nat) (s : rst) (k : kern) : option (rst * kern * list bytes * bool) :=
  match fuel with
  | O => None
  | S f =>
    match recv_unlocked s k scratch with
    | None => None
    | Some (RWouldBlock, s', k', _) => Some (s', k', [], false)
    | Some (RError, s', k', _) => Some (s', k', [], true)
    | Some (RSuccess, s', k', m') =>
        match cb_dispatch f s' k' with
        | None => None
        | Some (s'', k'', ds, e) =>
            Some (s'', k'', (if 0 <? m_len m' then [valid_bytes m'] else []) ++ ds, e)
        end
    | Some (ROob, s', k', _) => cb_dispatch f s' k'
    end
  end.

Definition dispatch_fuel (s : rst) (k : kern) : nat :=
  S (length (script k)) + Z.to_nat (lenZ (r_buf s) + lenZ (pend k)).

(** [n] dispatches in a row (the socket source is level triggered: more dispatches than needed change nothing) *)
Fixpoint cb_session (n : nat) (s : rst) (k : kern) : option (rst * kern * list bytes * bool) :=
  match n with
  | O => Some (s, k, [], false)
  | S n' =>
    match cb_dispatch (dispatch_fuel s k) s k with
    | None => None
    | Some (s', k', ds, true) => Some (s', k', ds, true)
    | Some (s', k', ds, false) =>
      match cb_session n' s' k' with
      | None => None
      | Some (s'', k'', ds', e) => Some (s'', k'', ds ++ ds', e)
      end
    end
  end.

(** component_io_cb, branch "agent reliable, socket reliable" (agent.c:6302-6403), with the I/O callback
    attached: one dispatch.  Each callback emission is one element of the result. *)
Definition advance_bufs (bufs : list bytes) (n : Z) : list bytes :=
  (* agent.c:6356-6375: drop what the last chunk filled *)
  (fix go (bufs : list bytes) (n : Z) : list bytes :=
     match bufs with
     | [] => []
     | b :: t =>
        if 0 <? n then
          let consumed := Z.min n (lenZ b) in
          if 0 <? lenZ b - consumed then dropZ consumed b :: t
          else go t (n - lenZ b)
        else bufs
     end) bufs n.

(* the do { } while (n_bufs > 0) loop; [acc] = bytes received into msg so far *)
Fixpoint rel_inner (fuel : nat) (s : rst) (k : kern) (bufs : list bytes) (acc : bytes)
  : option (rst * kern * bytes * rstatus) :=
  match fuel with
  | O => None
  | S f =>
    match recv_unlocked s k {| m_bufs := bufs; m_len := 0 |} with
    | None => None
    | Some (RWouldBlock, s', k', _) => Some (s', k', acc, RWouldBlock)
    | Some (RError, s', k', _) => Some (s', k', acc, RError)
    | Some (ROob, s', k', _) =>
        if Nat.ltb 0 (length bufs) then rel_inner f s' k' bufs acc else Some (s', k', acc, ROob)
    | Some (RSuccess, s', k', m') =>
        let acc' := acc ++ valid_bytes m' in
        if negb bs_mode then Some (s', k', acc', RSuccess)
        else if m_len m' =? 0 then Some (s', k', acc', RWouldBlock)     (* no room left in the caller's buffers *)
        else
          let bufs' := advance_bufs bufs (m_len m') in
          if Nat.ltb 0 (length bufs') then rel_inner f s' k' bufs' acc' else Some (s', k', acc', RSuccess)
    end
  end.

Fixpoint rel_dispatch (fuel : nat) (s : rst) (k : kern) : option (rst * kern * list bytes * bool) :=
  match fuel with
  | O => None
  | S f =>
    match rel_inner (dispatch_fuel s k) s k (m_bufs scratch) [] with
    | None => None
    | Some (s', k', acc, st) =>
      let out := if 0 <? lenZ acc then [acc] else [] in
      match st with
      | RWouldBlock => Some (s', k', out, false)
      | RError => Some (s', k', out, true)
      | _ => match rel_dispatch f s' k' with
             | None => None
             | Some (s'', k'', ds, e) => Some (s'', k'', out ++ ds, e)
             end
      end
    end
  end.

Fixpoint rel_session (n : nat) (s : rst) (k : kern) : option (rst * kern * list bytes * bool) :=
  match n with
  | O => Some (s, k, [], false)
  | S n' =>
    match rel_dispatch (dispatch_fuel s k) s k with
    | None => None
    | Some (s', k', ds, true) => Some (s', k', ds, true)
    | Some (s', k', ds, false) =>
      match rel_session n' s' k' with
      | None => None
      | Some (s'', k'', ds', e) => Some (s'', k'', ds ++ ds', e)
      end
    end
  end.

(** nice_agent_recv_messages_nonblocking on a non-reliable agent (component_io_cb branch agent.c:6444-6485).
    [msgs] are the caller's messages (each at least 1280 bytes of buffer: smaller ones are replaced by the API),
    the iterator starts at 0. *)
Definition at_end (msgs : list imsg) (it : iter) : bool :=
  Nat.eqb (it_m it) (length msgs) && Nat.eqb (it_b it) 0 && (it_o it =? 0).
Definition n_valid (it : iter) : Z :=
  if Nat.eqb (it_b it) 0 && (it_o it =? 0) then Z.of_nat (it_m it) else Z.of_nat (it_m it) + 1.

Fixpoint rm_dispatch (fuel : nat) (s : rst) (k : kern) (msgs : list imsg) (im : nat)
  : option (rst * kern * list imsg * nat * bool) :=
  match fuel with
  | O => None
  | S f =>
    if Nat.eqb im (length msgs) then Some (s, k, msgs, im, false) else
    match nth_error msgs im with
    | None => None
    | Some m =>
      match recv_unlocked s k m with
      | None => None
      | Some (RWouldBlock, s', k', _) => Some (s', k', msgs, im, false)
      | Some (RError, s', k', _) => Some (s', k', msgs, im, true)
      | Some (ROob, s', k', _) => rm_dispatch f s' k' msgs im
      | Some (RSuccess, s', k', m') => rm_dispatch f s' k' (set_nth msgs im m') (S im)
      end
    end
  end.

(** one API call: the cached-frame short cut, else main-context iterations (one dispatch each while the
    socket is readable) until the messages are full or an iteration changes nothing.
    Result: state, kernel, messages, return value (-1 = would block / error). *)
Fixpoint rm_iterate (n : nat) (s : rst) (k : kern) (msgs : list imsg) (im : nat)
  : option (rst * kern * list imsg * nat) :=
  match n with
  | O => Some (s, k, msgs, im)
  | S n' =>
    if Nat.eqb im (length msgs) then Some (s, k, msgs, im) else
    match script k with
    | [] => Some (s, k, msgs, im)                 (* the socket is not readable: no dispatch *)
    | _ =>
      match rm_dispatch (S (dispatch_fuel s k)) s k msgs im with
      | None => None
      | Some (s', k', msgs', im', err) =>
        if err || Nat.eqb im' im then Some (s', k', msgs', im') else rm_iterate n' s' k' msgs' im'
      end
    end
  end.

Definition recv_messages_call (s : rst) (k : kern) (msgs : list imsg)
  : option (rst * kern * list imsg * Z) :=
  match try_consume s msgs iter0 with
  | None => None
  | Some (Some (s', msgs', it')) => Some (s', k, msgs', n_valid it')
  | Some None =>
    match rm_iterate (S (length (script k))) s k msgs O with
    | None => None
    | Some (s', k', msgs', im) => Some (s', k', msgs', if Nat.eqb im 0 then -1 else Z.of_nat im)
    end
  end.

End Demux.
