(** C02 -- executable model of the ICE-TCP data path of agent/agent.c.  No proofs in this file.

    Sender: the RFC 4571 framing loop of nice_agent_send_messages_nonblocking_internal
    (agent.c:5759-5850): 2-byte big-endian length prefix, messages above 0xF800 bytes cut into
    consecutive frames, the walk over the caller's scatter buffers with offset / current_offset /
    offset_in_buffer written out as the C does it.  An output vector is (pointer, size); the socket
    layer reads [size] bytes at the pointer: [mreadn] is a checked read, so a vector that runs past
    the end of the caller's buffer is a Fault ([None]), not a silently truncated slice.

    Receiver: the per-component reassembly state rfc4571_buffer / _buffer_offset / _frame_offset /
    _frame_size / _consumed_size / _wakeup_needed, the TCP branch of agent_recv_message_unlocked
    (agent.c:4666-4768, 4774-4927), agent_consume_next_rfc4571_chunk, agent_try_consume_next_rfc4571_chunk,
    append_buffer_to_input_messages, nice_input_message_iter_get_message_capacity, and the loops of
    component_io_cb / nice_agent_recv_messages that call them.  The buffer is modelled by its valid
    part (the first rfc4571_buffer_offset bytes); every read is checked against it.

    The kernel is an input: the bytes still to come ([pend]) and a script of answers ([KRead cap]: the
    read returns min(cap, bytes asked, bytes pending); [KEmpty]: FIONREAD says 0 although bytes may be
    on their way; [KClosed]).  An exhausted script means "nothing readable now".

    The STUN / data demultiplexing decision (fast length check, full validation,
    conn_check_handle_inbound_stun) is a parameter [ctl : bytes -> bool]; [gate] is the result of
    nice_component_verify_remote_candidate for the socket. *)
From Coq Require Import ZArith List Bool.
From Nice Require Import Stream.StreamBase.
Import ListNotations.
Local Open Scope Z_scope.

Definition bytes := list Z.

Definition FMAX : Z := 63488.        (* 0xF800 *)
Definition BUFSZ : Z := 65537.       (* rfc4571_buffer_size = sizeof (guint16) + G_MAXUINT16 *)
Definition RECVBUF : Z := 65535.     (* component->recv_buffer_size *)

Definition hdr (n : Z) : bytes := [(n / 256) mod 256; n mod 256].     (* htons, as bytes on the wire *)

Fixpoint sumlen (bufs : list bytes) : Z := match bufs with [] => 0 | b :: t => lenZ b + sumlen t end.

(* ------------------------------------------------------------------------------------------------ *)
(** * Sender *)

(** The caller's vector: [arr] is the array as it sits in memory (NULL buffer pointer = [None]),
    [n_buffers] the count or -1.  Result: the n_bufs buffers the framing loop walks.  Reading past the
    array, or a NULL pointer with a count that includes it, is a Fault. *)
Fixpoint until_null (arr : list (option bytes)) : option (list bytes) :=
  match arr with
  | [] => None                                   (* no terminator: the walk leaves the array *)
  | None :: _ => Some []
  | Some b :: t => match until_null t with None => None | Some r => Some (b :: r) end
  end.
Fixpoint first_n (n : nat) (arr : list (option bytes)) : option (list bytes) :=
  match n with
  | O => Some []
  | S k => match arr with
           | Some b :: t => match first_n k t with None => None | Some r => Some (b :: r) end
           | _ => None
           end
  end.
Definition vec_of (n_buffers : Z) (arr : list (option bytes)) : option (list bytes) :=
  if n_buffers =? -1 then until_null arr
  else if n_buffers <? 0 then None else first_n (Z.to_nat n_buffers) arr.

(** agent.c:5805-5814: find the buffer to start from.  Result: offset_in_buffer, current_offset and
    the buffers from index j on. *)
Fixpoint find_buf (bufs : list bytes) (offset cur : Z) : Z * Z * list bytes :=
  match bufs with
  | [] => (0, cur, [])
  | b :: bs =>
      if lenZ b <? w64 (offset - cur)
      then find_buf bs offset (w64 (cur + lenZ b))
      else (w64 (offset - cur), offset, bufs)
  end.

(** agent.c:5817-5825: one output vector per remaining buffer; result: the bytes the socket layer
    reads through each vector and the total size (what [offset] advances by). *)
Fixpoint copy_loop (bufs : list bytes) (oib plen : Z) : option (list bytes * Z) :=
  match bufs with
  | [] => Some ([], 0)
  | b :: bs =>
      let sz := Z.min (lenZ b) plen in
      match mreadn b oib sz with
      | None => None
      | Some s =>
        match copy_loop bs 0 (w16 (plen - sz)) with
        | None => None
        | Some (r, tot) => Some (s :: r, sz + tot)
        end
      end
  end.

Inductive sres := SOk | SBlock | SErr.      (* nice_socket_send_messages(_reliable) returned 1 / 0 / <0 *)

Record frame := { f_reliable : bool; f_vec : list bytes; f_res : sres }.

Definition next_resp (resp : list sres) : sres * list sres :=
  match resp with [] => (SOk, []) | r :: t => (r, t) end.

(** the [while (message_len > 0)] loop for one message.  Result: frames handed to the socket, unused
    socket answers, "n_sent was incremented", "a negative return was seen". *)
Fixpoint frame_loop (fuel : nat) (bufs : list bytes) (mlen offset : Z) (resp : list sres)
  : option (list frame * list sres * bool * bool) :=
  if mlen <=? 0 then Some ([], resp, false, false) else
  match fuel with
  | O => None
  | S fuel' =>
    let plen := if mlen >? FMAX then FMAX else w16 mlen in
    let mlen' := mlen - plen in
    let '(oib, cur, rest) := find_buf bufs offset 0 in
    match copy_loop rest oib plen with
    | None => None
    | Some (vec, adv) =>
      let '(r, resp') := next_resp resp in
      let fr := {| f_reliable := negb (cur =? 0); f_vec := hdr plen :: vec; f_res := r |} in
      match r with
      | SOk =>
          if mlen' =? 0 then Some ([fr], resp', true, false)
          else match frame_loop fuel' bufs mlen' (w64 (offset + adv)) resp' with
               | None => None
               | Some (fs, rs, c, e) => Some (fr :: fs, rs, c, e)
               end
      | SBlock => Some ([fr], resp', false, false)
      | SErr => Some ([fr], resp', false, true)
      end
    end
  end.

Definition send_message (bufs : list bytes) (resp : list sres) :=
  let total := sumlen bufs in
  frame_loop (S (Z.to_nat (total / FMAX))) bufs total 0 resp.

(** the [for (i = 0; i < n_messages; i++)] loop; [n] is n_sent *)
Fixpoint send_loop (msgs : list (list bytes)) (resp : list sres) (n : Z) : option (list (list frame) * Z) :=
  match msgs with
  | [] => Some ([], n)
  | m :: ms =>
    match send_message m resp with
    | None => None
    | Some (fs, resp', counted, err) =>
      let n1 := if err && (n =? 0) then -1 else n in
      let n2 := if counted then n1 + 1 else n1 in
      match send_loop ms resp' n2 with
      | None => None
      | Some (r, n') => Some (fs :: r, n')
      end
    end
  end.

(** return value of nice_agent_send_messages_nonblocking: number of messages, or -1 (error / would block) *)
Definition send_api (msgs : list (list bytes)) (resp : list sres) : option (list (list frame) * Z) :=
  match send_loop msgs resp 0 with
  | None => None
  | Some (fs, n) => Some (fs, if n <=? 0 then -1 else n)
  end.

(** the bytes a frame puts on the wire when the socket takes it *)
Definition frame_bytes (f : frame) : bytes := concat (f_vec f).
Definition accepted (fs : list frame) : list frame :=
  filter (fun f => match f_res f with SOk => true | _ => false end) fs.
Definition wire_of (fs : list frame) : bytes := concat (map frame_bytes (accepted fs)).

(** all answers SOk: the frames of one message *)
Definition send_frames (bufs : list bytes) : option (list (list bytes)) :=
  match send_message bufs [] with
  | None => None
  | Some (fs, _, _, _) => Some (map f_vec fs)
  end.

