(** C02 -- proofs about the receiver half of the model (FramingModel.v). *)
From Coq Require Import ZArith List Bool Lia.
From Nice Require Import Stream.StreamBase Stream.StreamProofs Data.FramingModel.
Import ListNotations.
Local Open Scope Z_scope.
Ltac Zify.zify_post_hook ::= Z.div_mod_to_equations.

(* ------------------------------------------------------------------------------------------------ *)
(** * Small facts *)

Definition byte_ok (b : Z) : Prop := 0 <= b < 256.
Definition bytes_ok (l : bytes) : Prop := Forall byte_ok l.

Lemma bytes_ok_app a b : bytes_ok (a ++ b) <-> bytes_ok a /\ bytes_ok b.
Proof. apply Forall_app. Qed.

Lemma bytes_ok_takeZ n l : bytes_ok l -> bytes_ok (takeZ n l).
Proof.
  intros H. revert n. induction H as [|x l Hx Hl IH]; intros n; cbn [takeZ]; [constructor|].
  destruct (n <=? 0); [constructor | constructor; [exact Hx | apply IH]].
Qed.

Lemma bytes_ok_dropZ n l : bytes_ok l -> bytes_ok (dropZ n l).
Proof.
  intros H. revert n. induction H as [|x l Hx Hl IH]; intros n; cbn [dropZ]; [constructor|].
  destruct (n <=? 0); [constructor; [exact Hx | exact Hl] | apply IH].
Qed.

Lemma w32_id x : 0 <= x < 4294967296 -> w32 x = x.
Proof. intros H. unfold w32. apply Z.mod_small. exact H. Qed.

Lemma w64_id x : 0 <= x < W64 -> w64 x = x.
Proof. intros H. unfold w64. apply Z.mod_small. exact H. Qed.

Lemma W64_big : 4294967296 < W64. Proof. reflexivity. Qed.
Lemma BUFSZ_val : BUFSZ = 65537. Proof. reflexivity. Qed.
Lemma RECVBUF_val : RECVBUF = 65535. Proof. reflexivity. Qed.

Lemma mreadn_ok b off n : 0 <= off -> 0 <= n -> off + n <= lenZ b ->
  mreadn b off n = Some (takeZ n (dropZ off b)).
Proof.
  intros H1 H2 H3. unfold mreadn. rewrite fits_spec.
  replace (0 <=? off) with true by (symmetry; apply Z.leb_le; lia).
  replace (0 <=? n) with true by (symmetry; apply Z.leb_le; lia).
  replace (off + n <=? lenZ b) with true by (symmetry; apply Z.leb_le; lia).
  reflexivity.
Qed.

Lemma mreadn_inv b off n d : mreadn b off n = Some d ->
  0 <= off /\ 0 <= n /\ off + n <= lenZ b /\ d = takeZ n (dropZ off b).
Proof.
  unfold mreadn. rewrite fits_spec. intros H.
  destruct (0 <=? off) eqn:E1; cbn [andb] in H; [|discriminate].
  destruct (0 <=? n) eqn:E2; cbn [andb] in H; [|discriminate].
  destruct (off + n <=? lenZ b) eqn:E3; [|discriminate].
  apply Z.leb_le in E1, E2, E3. inversion H. repeat split; auto.
Qed.

Lemma sumlen_concat bufs : sumlen bufs = lenZ (concat bufs).
Proof.
  induction bufs as [|b t IH]; cbn [sumlen concat]; [reflexivity|].
  rewrite lenZ_app, IH. reflexivity.
Qed.

Lemma sumlen_nonneg bufs : 0 <= sumlen bufs.
Proof. rewrite sumlen_concat. apply lenZ_nonneg. Qed.

Lemma sumlen_app a b : sumlen (a ++ b) = sumlen a + sumlen b.
Proof. rewrite !sumlen_concat, concat_app, lenZ_app. reflexivity. Qed.

Lemma takeZ_takeZ n m l : takeZ n (takeZ m l) = takeZ (Z.min n m) l.
Proof.
  revert n m. induction l as [|x t IH]; intros n m; cbn [takeZ]; [reflexivity|].
  destruct (m <=? 0) eqn:Em.
  - cbn [takeZ]. apply Z.leb_le in Em.
    replace (Z.min n m <=? 0) with true by (symmetry; apply Z.leb_le; lia). reflexivity.
  - apply Z.leb_gt in Em. cbn [takeZ]. destruct (n <=? 0) eqn:En.
    + apply Z.leb_le in En. replace (Z.min n m <=? 0) with true by (symmetry; apply Z.leb_le; lia). reflexivity.
    + apply Z.leb_gt in En. replace (Z.min n m <=? 0) with false by (symmetry; apply Z.leb_gt; lia).
      rewrite IH. f_equal. f_equal. lia.
Qed.

Lemma takeZ_app_exact a b : takeZ (lenZ a) (a ++ b) = a.
Proof. rewrite takeZ_app_l by lia. apply takeZ_all. lia. Qed.

Lemma dropZ_app_exact a b : dropZ (lenZ a) (a ++ b) = b.
Proof. rewrite dropZ_app_r by lia. rewrite Z.sub_diag. apply dropZ_nonpos. lia. Qed.

(* ------------------------------------------------------------------------------------------------ *)
(** * append_buffer_to_input_messages: scattering into the caller's buffers is a flat copy *)

(** position of the iterator inside the remaining buffers is legal *)
Definition pos_ok (rest : list bytes) (io : Z) : Prop :=
  match rest with [] => io = 0 | v :: _ => 0 <= io <= lenZ v end.

Lemma app_loop_spec : forall rest ib io data, pos_ok rest io -> sumlen rest < W64 ->
  let c := Z.min (lenZ data) (sumlen rest - io) in
  exists rest' ib' io',
    app_loop rest ib io data = Some (rest', ib', io', dropZ c data) /\
    concat rest' = takeZ io (concat rest) ++ takeZ c data ++ dropZ (io + c) (concat rest) /\
    map lenZ rest' = map lenZ rest /\
    (ib <= ib')%nat /\
    pos_ok (skipn (ib' - ib) rest') io' /\
    sumlen (skipn (ib' - ib) rest') - io' = sumlen rest - io - c.
Proof.
  induction rest as [|v vs IH]; intros ib io data Hpos Hsz c.
  - cbn [pos_ok] in Hpos. subst io. cbn [app_loop sumlen concat] in *.
    assert (Hc : c = Z.min (lenZ data) 0) by (unfold c; f_equal).
    exists [], ib, 0. pose proof (lenZ_nonneg data) as Hd.
    assert (c = 0) by lia. rewrite H. rewrite dropZ_nonpos by lia.
    rewrite Nat.sub_diag. cbn [skipn sumlen concat pos_ok map]. rewrite !takeZ_nonpos by lia. rewrite dropZ_nil.
    cbn [app]. repeat split; auto.
  - cbn [pos_ok] in Hpos. cbn [sumlen] in Hsz, c. cbn [app_loop].
    pose proof (lenZ_nonneg data) as Hd. pose proof (lenZ_nonneg v) as Hv. pose proof (sumlen_nonneg vs) as Hvs.
    rewrite w64_id by lia.
    set (l := Z.min (lenZ data) (lenZ v - io)).
    assert (Hl : 0 <= l <= lenZ v - io) by (unfold l; lia).
    assert (Hlt : lenZ (takeZ l data) = l) by (rewrite lenZ_takeZ; unfold l; lia).
    rewrite mwrite_some by (rewrite ?Hlt; lia).
    rewrite Hlt.
    destruct (lenZ (dropZ l data) =? 0) eqn:Eall.
    + (* everything copied *)
      apply Z.eqb_eq in Eall. rewrite lenZ_dropZ in Eall.
      assert (Hld : l = lenZ data) by lia.
      assert (Hc : c = lenZ data) by (unfold c; lia).
      exists ((takeZ io v ++ takeZ l data ++ dropZ (io + l) v) :: vs), ib, (io + l).
      rewrite Nat.sub_diag. cbn [skipn]. rewrite Hc, <- Hld.
      split; [reflexivity|]. split.
      { cbn [concat]. rewrite takeZ_app_l by lia. rewrite <- !app_assoc. f_equal. f_equal.
        rewrite dropZ_app_l by lia. reflexivity. }
      split.
      { cbn [map]. f_equal. rewrite !lenZ_app, Hlt, lenZ_takeZ, lenZ_dropZ. lia. }
      split; [lia|]. split.
      { cbn [pos_ok]. rewrite !lenZ_app, Hlt, lenZ_takeZ, lenZ_dropZ. lia. }
      cbn [sumlen]. rewrite !lenZ_app, Hlt, lenZ_takeZ, lenZ_dropZ. lia.
    + (* this buffer is full, go on with the next *)
      apply Z.eqb_neq in Eall. rewrite lenZ_dropZ in Eall.
      assert (Hlv : l = lenZ v - io) by lia.
      assert (Hpos' : pos_ok vs 0). { destruct vs as [|w ws]; cbn [pos_ok]; [reflexivity|]. pose proof (lenZ_nonneg w). lia. }
      destruct (IH (S ib) 0 (dropZ l data) Hpos' ltac:(lia)) as (vs' & ib' & io' & Hrun & Hcat & Hlen & Hib & Hp & Hcap).
      rewrite Hrun. rewrite Z.sub_0_r in *.
      rewrite lenZ_dropZ in *.
      assert (Hc : c = l + Z.min (lenZ data - Z.max 0 (Z.min l (lenZ data))) (sumlen vs)) by (unfold c; lia).
      set (c2 := Z.min (lenZ data - Z.max 0 (Z.min l (lenZ data))) (sumlen vs)) in *.
      assert (Hc2 : 0 <= c2) by (unfold c2; lia).
      exists ((takeZ io v ++ takeZ l data ++ dropZ (io + l) v) :: vs'), ib', io'.
      split. { rewrite dropZ_dropZ by lia. rewrite Hc. reflexivity. }
      split.
      { cbn [concat]. rewrite Hcat. rewrite takeZ_app_l by lia.
        replace (io + l) with (lenZ v) by lia. rewrite (dropZ_all (lenZ v) v) by lia. rewrite app_nil_r.
        rewrite (takeZ_nonpos 0) by lia. cbn [app].
        rewrite <- !app_assoc. f_equal.
        rewrite Hc. rewrite (takeZ_dropZ_split l c2 data) by lia. rewrite <- !app_assoc. f_equal. f_equal.
        rewrite dropZ_app_r by lia. f_equal. lia. }
      split. { cbn [map]. f_equal; [|exact Hlen]. rewrite !lenZ_app, Hlt, lenZ_takeZ, lenZ_dropZ. lia. }
      split; [lia|].
      replace (ib' - ib)%nat with (S (ib' - S ib)) by lia. cbn [skipn].
      split; [exact Hp|]. rewrite Hcap. cbn [sumlen]. lia.
Qed.

(* ------------------------------------------------------------------------------------------------ *)
(** * The reassembly state: invariant and abstraction *)

(** bytes received and not yet handed out *)
Definition unc (s : rst) : bytes := dropZ (r_fo s) (r_buf s).
Definition fs_of (u : bytes) : Z := match u with hi :: lo :: _ => 2 + (hi * 256 + lo) | _ => 0 end.
Definition whole (u : bytes) : bool := match u with hi :: lo :: t => hi * 256 + lo <=? lenZ t | _ => false end.
Definition payload_of (u : bytes) : bytes := match u with hi :: lo :: t => takeZ (hi * 256 + lo) t | _ => [] end.
Definition after_frame (u : bytes) : bytes := match u with hi :: lo :: t => dropZ (hi * 256 + lo) t | _ => u end.

Record Inv (s : rst) : Prop := {
  inv_fo : 0 <= r_fo s <= lenZ (r_buf s);
  inv_sz : lenZ (r_buf s) <= BUFSZ;
  inv_ok : bytes_ok (r_buf s);
  inv_cs : r_cs s = 0;
  inv_fs : r_fs s = fs_of (unc s) }.

Lemma Inv0 : Inv rst0.
Proof.
  constructor; cbn [rst0 r_buf r_fo r_fs r_cs]; rewrite ?lenZ_nil0, ?BUFSZ_val; try lia; try reflexivity.
  constructor.
Qed.

Lemma two_bytes (l : bytes) : 2 <= lenZ l -> exists hi lo t, l = hi :: lo :: t.
Proof.
  destruct l as [|a [|b t]]; intros H.
  - rewrite lenZ_nil0 in H. lia.
  - rewrite lenZ_cons, lenZ_nil0 in H. lia.
  - eauto.
Qed.

Lemma lenZ_2 hi lo (t : bytes) : lenZ (hi :: lo :: t) = 2 + lenZ t.
Proof. rewrite !lenZ_cons. lia. Qed.

Lemma be16_range hi lo : byte_ok hi -> byte_ok lo -> 0 <= hi * 256 + lo <= 65535.
Proof. unfold byte_ok. lia. Qed.

Lemma unc_len s : Inv s -> lenZ (unc s) = lenZ (r_buf s) - r_fo s.
Proof. intros I. unfold unc. rewrite lenZ_dropZ. destruct I. lia. Qed.

Lemma unc_ok s : Inv s -> bytes_ok (unc s).
Proof. intros I. apply bytes_ok_dropZ. apply I. Qed.

Lemma headroom_unc s : Inv s -> headroom s = lenZ (unc s).
Proof.
  intros I. unfold headroom. rewrite (unc_len s I). destruct I as [Hfo Hsz _ _ _].
  apply w32_id. rewrite BUFSZ_val in Hsz. lia.
Qed.

Lemma fs_of_range u : bytes_ok u -> fs_of u = 0 \/ 2 <= fs_of u <= 65537.
Proof.
  intros H. destruct u as [|hi [|lo t]]; cbn [fs_of]; auto.
  inversion H as [|? ? Hhi H1]; subst. inversion H1 as [|? ? Hlo H2]; subst.
  pose proof (be16_range hi lo Hhi Hlo). lia.
Qed.

Lemma whole_test s : Inv s ->
  (negb (r_fs s =? 0) && (r_fs s <=? lenZ (unc s))) = whole (unc s).
Proof.
  intros I. rewrite (inv_fs s I). pose proof (unc_ok s I) as Hok.
  destruct (unc s) as [|hi [|lo t]]; cbn [fs_of whole]; try reflexivity.
  inversion Hok as [|? ? Hhi H1]; subst. inversion H1 as [|? ? Hlo H2]; subst.
  pose proof (be16_range hi lo Hhi Hlo) as Hr.
  rewrite lenZ_2.
  replace (2 + (hi * 256 + lo) =? 0) with false by (symmetry; apply Z.eqb_neq; lia).
  cbn [negb andb].
  destruct (hi * 256 + lo <=? lenZ t) eqn:E.
  - apply Z.leb_le in E. apply Z.leb_le. lia.
  - apply Z.leb_gt in E. apply Z.leb_gt. lia.
Qed.

Lemma missing_whole s : Inv s -> missing s = negb (whole (unc s)).
Proof.
  intros I. rewrite <- (whole_test s I). unfold missing. rewrite (headroom_unc s I).
  destruct (r_fs s =? 0); cbn [negb andb orb]; [reflexivity|].
  rewrite Z.ltb_antisym. reflexivity.
Qed.

Lemma rd16_at b off hi lo t : 0 <= off -> dropZ off b = hi :: lo :: t -> rd16 b off = Some (hi * 256 + lo).
Proof.
  intros Hoff Hd. unfold rd16.
  assert (Hlen : off + 2 <= lenZ b).
  { pose proof (lenZ_dropZ off b) as H. rewrite Hd, lenZ_2 in H. pose proof (lenZ_nonneg t). lia. }
  rewrite mreadn_ok by lia. rewrite Hd.
  rewrite takeZ_cons by lia. rewrite takeZ_cons by lia. rewrite takeZ_nonpos by lia. reflexivity.
Qed.

Lemma fs_of_app u d : 2 <= lenZ u -> fs_of (u ++ d) = fs_of u.
Proof. intros H. destruct (two_bytes u H) as (hi & lo & t & ->). reflexivity. Qed.

Lemma fs_of_short u : lenZ u < 2 -> fs_of u = 0.
Proof.
  destruct u as [|a [|b t]]; intros H; try reflexivity.
  rewrite lenZ_2 in H. pose proof (lenZ_nonneg t). lia.
Qed.

Lemma fs_of_zero u : bytes_ok u -> fs_of u = 0 -> lenZ u < 2.
Proof.
  intros Hok H. destruct u as [|hi [|lo t]].
  - rewrite lenZ_nil0. lia.
  - rewrite lenZ_cons, lenZ_nil0. lia.
  - cbn [fs_of] in H. inversion Hok as [|? ? Hhi H1]; subst. inversion H1 as [|? ? Hlo H2]; subst.
    pose proof (be16_range hi lo Hhi Hlo). lia.
Qed.

(** agent_consume_next_rfc4571_chunk's bookkeeping: step over the current frame *)
Lemma next_frame_spec s : 0 <= r_fo s -> 0 <= r_fs s -> r_fo s + r_fs s <= lenZ (r_buf s) ->
  lenZ (r_buf s) <= BUFSZ -> bytes_ok (r_buf s) ->
  exists s', next_frame s = Some s' /\ Inv s' /\ r_buf s' = r_buf s /\ r_fo s' = r_fo s + r_fs s.
Proof.
  intros H1 H2 H3 H4 Hok. unfold next_frame. rewrite BUFSZ_val in H4.
  rewrite (w32_id (r_fo s + r_fs s)) by lia.
  rewrite (w32_id (lenZ (r_buf s) - (r_fo s + r_fs s))) by lia.
  destruct (2 <=? lenZ (r_buf s) - (r_fo s + r_fs s)) eqn:E.
  - apply Z.leb_le in E.
    assert (Hl : 2 <= lenZ (dropZ (r_fo s + r_fs s) (r_buf s))) by (rewrite lenZ_dropZ; lia).
    destruct (two_bytes _ Hl) as (hi & lo & t & Hd).
    rewrite (rd16_at _ _ hi lo t) by (auto; lia).
    eexists. split; [reflexivity|]. split; [|split; reflexivity].
    constructor; cbn [r_buf r_fo r_fs r_cs]; try lia; auto.
    unfold unc; cbn [r_buf r_fo]. rewrite Hd. reflexivity.
  - apply Z.leb_gt in E.
    eexists. split; [reflexivity|]. split; [|split; reflexivity].
    constructor; cbn [r_buf r_fo r_fs r_cs]; try lia; auto.
    unfold unc; cbn [r_buf r_fo]. symmetry. apply fs_of_short. rewrite lenZ_dropZ. lia.
Qed.

(** what a caller's message holds after one frame was copied into it from its beginning *)
Definition filled (m m' : imsg) (p : bytes) : Prop :=
  let c := Z.min (lenZ p) (sumlen (m_bufs m)) in
  m_len m' = c /\
  map lenZ (m_bufs m') = map lenZ (m_bufs m) /\
  concat (m_bufs m') = takeZ c p ++ dropZ c (concat (m_bufs m)).

Lemma filled_valid m m' p : filled m m' p -> valid_bytes m' = takeZ (sumlen (m_bufs m)) p.
Proof.
  intros (Hl & _ & Hc). unfold valid_bytes. rewrite Hl, Hc.
  pose proof (lenZ_nonneg p) as Hp. pose proof (sumlen_nonneg (m_bufs m)) as Hs.
  set (c := Z.min (lenZ p) (sumlen (m_bufs m))).
  assert (Hlt : lenZ (takeZ c p) = c) by (rewrite lenZ_takeZ; unfold c; lia).
  rewrite <- Hlt at 1. rewrite takeZ_app_exact.
  destruct (Z.le_ge_cases (lenZ p) (sumlen (m_bufs m))) as [Hle|Hge].
  - rewrite (takeZ_all (sumlen (m_bufs m))) by lia. apply takeZ_all. unfold c. lia.
  - f_equal. unfold c. lia.
Qed.

Lemma filled_whole m m' p : filled m m' p -> lenZ p <= sumlen (m_bufs m) -> valid_bytes m' = p.
Proof. intros H Hle. rewrite (filled_valid m m' p H). apply takeZ_all. exact Hle. Qed.

(** agent_consume_next_rfc4571_chunk on a whole cached frame, message mode: the payload goes to the caller's message
    (truncated to its capacity), the state steps over the frame *)
Lemma consume_whole s2 m hi lo t :
  Inv s2 -> unc s2 = hi :: lo :: t -> hi * 256 + lo <= lenZ t -> sumlen (m_bufs m) < W64 ->
  let p := takeZ (hi * 256 + lo) t in
  exists s3 m', Inv s3 /\ unc s3 = dropZ (hi * 256 + lo) t /\ filled m m' p /\
    mreadn (r_buf s2) (r_fo s2 + 2) (r_fs s2 - 2) = Some p /\
    r_fs s2 = 2 + (hi * 256 + lo) /\ lenZ (unc s2) = 2 + lenZ t /\
    consume false s2 None = Some (s3, None) /\
    consume false s2 (Some ([m], iter0)) = Some (s3, Some ([m'], {| it_m := 1; it_b := 0; it_o := 0 |})).
Proof.
  intros I Hu Hn Hm p. pose proof (unc_ok s2 I) as Hok. rewrite Hu in Hok.
  pose proof (Forall_inv Hok) as Hhi. pose proof (Forall_inv (Forall_inv_tail Hok)) as Hlo.
  pose proof (be16_range hi lo Hhi Hlo) as Hr. set (n := hi * 256 + lo) in *.
  pose proof (unc_len s2 I) as Hbl. rewrite Hu, lenZ_2 in Hbl.
  assert (Hul : lenZ (unc s2) = 2 + lenZ t) by (rewrite Hu; apply lenZ_2).
  destruct I as [Hfo Hsz Hbok Hcs Hfs]. rewrite Hu in Hfs. cbn [fs_of] in Hfs. fold n in Hfs.
  pose proof (lenZ_nonneg t) as Htn.
  assert (Hd2 : dropZ (r_fo s2 + 2) (r_buf s2) = t).
  { rewrite <- dropZ_dropZ by lia. fold (unc s2). rewrite Hu.
    rewrite dropZ_cons by lia. rewrite dropZ_cons by lia. apply dropZ_nonpos. lia. }
  assert (Hpay : mreadn (r_buf s2) (r_fo s2 + 2) (r_fs s2 - 2) = Some p).
  { rewrite mreadn_ok by lia. rewrite Hd2. unfold p. f_equal. f_equal. lia. }
  destruct (next_frame_spec s2 ltac:(lia) ltac:(lia) ltac:(lia) Hsz Hbok) as (s3 & Hnf & I3 & Hb3 & Hf3).
  assert (Hu3 : unc s3 = dropZ n t).
  { unfold unc. rewrite Hb3, Hf3, Hfs. replace (r_fo s2 + (2 + n)) with ((r_fo s2 + 2) + n) by lia.
    rewrite <- dropZ_dropZ by lia. rewrite Hd2. reflexivity. }
  (* the copy into the caller's message *)
  assert (Hpos : pos_ok (m_bufs m) 0).
  { destruct (m_bufs m) as [|v vs]; cbn [pos_ok]; [reflexivity|]. pose proof (lenZ_nonneg v). lia. }
  destruct (app_loop_spec (m_bufs m) O 0 p Hpos Hm) as (rest' & ib' & io' & Hrun & Hcat & Hlen & _ & _ & _).
  rewrite Z.sub_0_r in Hrun, Hcat. rewrite Z.add_0_l in Hcat. rewrite (takeZ_nonpos 0) in Hcat by lia. cbn [app] in Hcat.
  set (c := Z.min (lenZ p) (sumlen (m_bufs m))) in *.
  pose proof (lenZ_nonneg p) as Hpn. pose proof (sumlen_nonneg (m_bufs m)) as Hsn.
  set (m' := {| m_bufs := rest'; m_len := c |}).
  exists s3, m'. split; [exact I3|]. split; [exact Hu3|]. split.
  { unfold filled. cbn [m_bufs m_len m']. fold c. auto. }
  split; [exact Hpay|]. split; [exact Hfs|]. split; [exact Hul|]. split.
  - unfold consume. rewrite Hnf. reflexivity.
  - unfold consume. rewrite Hcs.
    replace (w64 (r_fs s2 - 2 - 0)) with n by (rewrite w64_id; [lia | pose proof W64_big; lia]).
    replace (r_fo s2 + r_fs s2 - n) with (r_fo s2 + 2) by lia.
    replace n with (r_fs s2 - 2) at 1 by lia. rewrite Hpay.
    unfold append_buffer. cbn [it_m it_b it_o iter0 nth_error skipn firstn app Nat.eqb andb].
    rewrite Z.eqb_refl. rewrite Hrun. cbn [negb orb set_nth].
    rewrite lenZ_dropZ.
    replace (lenZ p - (lenZ p - Z.max 0 (Z.min c (lenZ p)))) with c by (unfold c; lia).
    rewrite Hnf. fold m'. rewrite Z.add_0_l. fold m'.
    destruct (c =? n); reflexivity.
Qed.

(** abstract view of the read of one call: what the unconsumed bytes and the kernel become *)
Definition astep (u : bytes) (k : kern) : bytes * kern * bool :=
  if whole u then (u, k, false) else
  match script k with
  | [] => (u, k, false)
  | KEmpty :: sc => (u, {| pend := pend k; script := sc |}, false)
  | KClosed :: sc => (u, {| pend := pend k; script := sc |}, true)
  | KRead cap :: sc =>
      if lenZ (pend k) =? 0 then (u, {| pend := pend k; script := sc |}, false)
      else let q := Z.min cap (BUFSZ - lenZ u) in
           (u ++ takeZ q (pend k), {| pend := dropZ q (pend k); script := sc |}, false)
  end.

Lemma astep_stream u k : let '(u1, k1, _) := astep u k in u1 ++ pend k1 = u ++ pend k.
Proof.
  unfold astep. destruct (whole u); [reflexivity|].
  destruct (script k) as [|[cap| |] sc]; cbn [pend]; try reflexivity.
  destruct (lenZ (pend k) =? 0); cbn [pend]; [reflexivity|].
  rewrite <- app_assoc. rewrite takeZ_dropZ. reflexivity.
Qed.

Lemma astep_script u k : let '(_, k1, _) := astep u k in (length (script k1) <= length (script k))%nat.
Proof.
  unfold astep. destruct (whole u); [lia|].
  destruct (script k) as [|[cap| |] sc] eqn:Esc; cbn [script length]; rewrite ?Esc; cbn [length]; try lia.
  destruct (lenZ (pend k) =? 0); cbn [script]; lia.
Qed.

Definition frame_of (p : bytes) : bytes := hdr (lenZ p) ++ p.
Definition encode (ps : list bytes) : bytes := concat (map frame_of ps).
Definition pl_ok (p : bytes) : Prop := bytes_ok p /\ lenZ p <= 65535.
Lemma hdr_be16 hi lo : byte_ok hi -> byte_ok lo -> hdr (hi * 256 + lo) = [hi; lo].
Proof. unfold byte_ok, hdr. intros H1 H2. f_equal; [|f_equal]; lia. Qed.

Lemma hdr_ok n : bytes_ok (hdr n).
Proof. unfold hdr. repeat constructor; unfold byte_ok; lia. Qed.

Lemma hdr_val n : 0 <= n <= 65535 -> exists hi lo, hdr n = [hi; lo] /\ hi * 256 + lo = n /\ byte_ok hi /\ byte_ok lo.
Proof. intros H. unfold hdr, byte_ok. eexists _, _. split; [reflexivity|]. lia. Qed.

Lemma whole_split u : bytes_ok u -> whole u = true ->
  u = frame_of (payload_of u) ++ after_frame u /\ pl_ok (payload_of u) /\ bytes_ok (after_frame u) /\
  lenZ (after_frame u) + 2 <= lenZ u.
Proof.
  intros Hok Hw. destruct u as [|hi [|lo t]]; cbn [whole] in Hw; try discriminate.
  apply Z.leb_le in Hw. cbn [payload_of after_frame].
  inversion Hok as [|? ? Hhi H1]; subst. inversion H1 as [|? ? Hlo Ht]; subst.
  pose proof (be16_range hi lo Hhi Hlo) as Hr. set (n := hi * 256 + lo) in *.
  assert (Hlp : lenZ (takeZ n t) = n) by (rewrite lenZ_takeZ; lia).
  split.
  { unfold frame_of. rewrite Hlp. unfold n. rewrite hdr_be16 by assumption. cbn [app].
    rewrite takeZ_dropZ. reflexivity. }
  split. { split; [apply bytes_ok_takeZ; exact Ht | lia]. }
  split. { apply bytes_ok_dropZ. exact Ht. }
  rewrite lenZ_2, lenZ_dropZ. lia.
Qed.

Lemma whole_frame p x : pl_ok p -> whole (frame_of p ++ x) = true.
Proof.
  intros [Hok Hl]. pose proof (lenZ_nonneg p) as Hp.
  destruct (hdr_val (lenZ p) ltac:(lia)) as (hi & lo & Hh & Hv & _ & _).
  unfold frame_of. rewrite Hh. cbn [app whole]. rewrite Hv. apply Z.leb_le. rewrite lenZ_app.
  pose proof (lenZ_nonneg x). lia.
Qed.

Lemma frame_split p x : pl_ok p ->
  payload_of (frame_of p ++ x) = p /\ after_frame (frame_of p ++ x) = x.
Proof.
  intros [Hok Hl]. pose proof (lenZ_nonneg p) as Hp.
  destruct (hdr_val (lenZ p) ltac:(lia)) as (hi & lo & Hh & Hv & _ & _).
  unfold frame_of. rewrite Hh. cbn [app payload_of after_frame]. rewrite Hv.
  split; [apply takeZ_app_exact | apply dropZ_app_exact].
Qed.

Lemma scratch_cap : sumlen (m_bufs scratch) = 65535.
Proof.
  unfold scratch. cbn [m_bufs sumlen]. rewrite lenZ_repZ. rewrite Z2Nat.id by (rewrite RECVBUF_val; lia).
  rewrite RECVBUF_val. lia.
Qed.

Local Opaque scratch.

Lemma astep_ok u k : bytes_ok u -> bytes_ok (pend k) ->
  let '(u1, k1, _) := astep u k in bytes_ok u1 /\ bytes_ok (pend k1).
Proof.
  intros Hu Hp. unfold astep. destruct (whole u); [auto|].
  destruct (script k) as [|[cap| |] sc]; cbn [pend]; auto.
  destruct (lenZ (pend k) =? 0); cbn [pend]; auto.
  split; [apply bytes_ok_app; split; [exact Hu | apply bytes_ok_takeZ; exact Hp] | apply bytes_ok_dropZ; exact Hp].
Qed.

(** progress of the read: a consumed script entry, unless a whole frame was cached or the script is empty *)
Lemma astep_consumes u k : whole u = false -> script k <> [] ->
  let '(_, k1, _) := astep u k in (length (script k1) < length (script k))%nat.
Proof.
  intros Hw Hs. unfold astep. rewrite Hw.
  destruct (script k) as [|[cap| |] sc] eqn:Esc; [congruence| | |]; cbn [script length]; try lia.
  destruct (lenZ (pend k) =? 0); cbn [script]; lia.
Qed.

Lemma astep_closed u k : let '(_, _, c) := astep u k in c = true -> In KClosed (script k).
Proof.
  unfold astep. destruct (whole u); [discriminate|].
  destruct (script k) as [|[cap| |] sc] eqn:Esc; try discriminate.
  - destruct (lenZ (pend k) =? 0); discriminate.
  - intros _. rewrite ?Esc. left. reflexivity.
Qed.

Lemma astep_sub u k : let '(_, k1, _) := astep u k in forall x, In x (script k1) -> In x (script k).
Proof.
  unfold astep. destruct (whole u); [auto|].
  destruct (script k) as [|[cap| |] sc] eqn:Esc; cbn [script]; rewrite ?Esc.
  - auto.
  - destruct (lenZ (pend k) =? 0); cbn [script]; intros x Hx; right; exact Hx.
  - intros x Hx; right; exact Hx.
  - intros x Hx; right; exact Hx.
Qed.

Lemma partial_short u : bytes_ok u -> whole u = false -> lenZ u < BUFSZ.
Proof.
  intros Hok Hw. rewrite BUFSZ_val. destruct u as [|hi [|lo t]].
  - rewrite lenZ_nil0. lia.
  - rewrite lenZ_cons, lenZ_nil0. lia.
  - cbn [whole] in Hw. apply Z.leb_gt in Hw. rewrite lenZ_2.
    inversion Hok as [|? ? Hhi H1]; subst. inversion H1 as [|? ? Hlo Ht]; subst.
    pose proof (be16_range hi lo Hhi Hlo). lia.
Qed.

(** all script entries are reads of at least one byte *)
Definition reads_only (sc : list kev) : Prop := forall x, In x sc -> exists c, x = KRead c /\ 1 <= c.

Lemma astep_reads u k : bytes_ok u -> reads_only (script k) ->
  let '(_, k1, _) := astep u k in
  lenZ (pend k1) = 0 \/
  lenZ (pend k1) + Z.of_nat (length (script k)) <= lenZ (pend k) + Z.of_nat (length (script k1)).
Proof.
  intros Hok Hro. unfold astep. destruct (whole u) eqn:Ew; [lia|].
  destruct (script k) as [|[cap| |] sc] eqn:Esc; cbn [pend script]; rewrite ?Esc.
  - lia.
  - destruct (lenZ (pend k) =? 0) eqn:Ep; cbn [pend script].
    + apply Z.eqb_eq in Ep. lia.
    + apply Z.eqb_neq in Ep. pose proof (lenZ_nonneg (pend k)).
      destruct (Hro (KRead cap)) as (c & Hc & Hc1); [rewrite ?Esc; left; reflexivity|]. inversion Hc; subst c.
      pose proof (partial_short u Hok Ew). rewrite lenZ_dropZ. cbn [length]. lia.
  - destruct (Hro KEmpty) as (c & Hc & _); [rewrite ?Esc; left; reflexivity | discriminate].
  - destruct (Hro KClosed) as (c & Hc & _); [rewrite ?Esc; left; reflexivity | discriminate].
Qed.

Lemma astep_mono u k : let '(_, k1, _) := astep u k in lenZ (pend k1) <= lenZ (pend k).
Proof.
  unfold astep. destruct (whole u); [lia|].
  destruct (script k) as [|[cap| |] sc]; cbn [pend]; try lia.
  destruct (lenZ (pend k) =? 0); cbn [pend]; [lia|]. rewrite lenZ_dropZ. pose proof (lenZ_nonneg (pend k)). lia.
Qed.

Definition mu (s : rst) (k : kern) : Z := Z.of_nat (length (script k)) + lenZ (unc s) + lenZ (pend k).

Lemma dispatch_fuel_enough s k : Inv s -> mu s k < Z.of_nat (dispatch_fuel s k).
Proof.
  intros I. unfold mu, dispatch_fuel. pose proof (unc_len s I) as Hu. destruct I as [Hfo _ _ _ _].
  pose proof (lenZ_nonneg (r_buf s)). pose proof (lenZ_nonneg (pend k)).
  rewrite Nat2Z.inj_add, Nat2Z.inj_succ, Z2Nat.id by lia. lia.
Qed.

Lemma encode_app a b : encode (a ++ b) = encode a ++ encode b.
Proof. unfold encode. rewrite map_app, concat_app. reflexivity. Qed.

(** the decomposition of a byte stream into frames is unique *)
Lemma encode_unique : forall a b x y, Forall pl_ok a -> Forall pl_ok b ->
  whole x = false -> whole y = false -> encode a ++ x = encode b ++ y -> a = b /\ x = y.
Proof.
  induction a as [|p a IH]; intros b x y Ha Hb Hx Hy E.
  - destruct b as [|q b]; cbn [encode map concat app] in E.
    + auto.
    + pose proof (Forall_inv Hb) as Hq. fold (encode b) in E. rewrite <- app_assoc in E.
      rewrite E in Hx. rewrite (whole_frame q _ Hq) in Hx. discriminate.
  - pose proof (Forall_inv Ha) as Hp. pose proof (Forall_inv_tail Ha) as Ha'.
    destruct b as [|q b]; cbn [encode map concat app] in E.
    + fold (encode a) in E. rewrite <- app_assoc in E. rewrite <- E in Hy.
      rewrite (whole_frame p _ Hp) in Hy. discriminate.
    + pose proof (Forall_inv Hb) as Hq. pose proof (Forall_inv_tail Hb) as Hb'.
      fold (encode a) in E. fold (encode b) in E.
      rewrite <- !app_assoc in E.
      pose proof (frame_split p (encode a ++ x) Hp) as [Hp1 Hp2].
      pose proof (frame_split q (encode b ++ y) Hq) as [Hq1 Hq2].
      rewrite E in Hp1, Hp2. rewrite Hq1 in Hp1. rewrite Hq2 in Hp2. subst q.
      destruct (IH b x y Ha' Hb' Hx Hy (eq_sym Hp2)) as [Hab Hxy]. subst b y. auto.
Qed.


Section MessageMode.
Variable ctl : bytes -> bool.
Variable gate : bool.

(** the frame is not handed to the application: zero length, ICE control, or unverified source *)
Definition dropped (p : bytes) : bool := (lenZ p =? 0) || ctl p || negb gate.

Lemma deliver_whole s2 sockret k1 m hi lo t :
  Inv s2 -> unc s2 = hi :: lo :: t -> hi * 256 + lo <= lenZ t -> sumlen (m_bufs m) < W64 ->
  let p := takeZ (hi * 256 + lo) t in
  exists s3 m', Inv s3 /\ unc s3 = dropZ (hi * 256 + lo) t /\ filled m m' p /\
    deliver_phase false ctl gate s2 (lenZ (unc s2)) sockret k1 m =
      Some (if dropped p then (ROob, s3, k1, m) else (RSuccess, s3, k1, m')).
Proof.
  intros I Hu Hn Hm p.
  destruct (consume_whole s2 m hi lo t I Hu Hn Hm) as (s3 & m' & I3 & Hu3 & Hfill & Hpay & Hfs & Hul & Hc0 & Hc1).
  exists s3, m'. split; [exact I3|]. split; [exact Hu3|]. split; [exact Hfill|].
  pose proof (unc_ok s2 I) as Hok. rewrite Hu in Hok.
  pose proof (be16_range hi lo (Forall_inv Hok) (Forall_inv (Forall_inv_tail Hok))) as Hr.
  pose proof (lenZ_nonneg t) as Htn.
  unfold deliver_phase. rewrite Hul.
  replace (negb (r_fs s2 =? 0) && (r_fs s2 <=? 2 + lenZ t)) with true.
  2:{ symmetry. apply andb_true_iff. split; [apply negb_true_iff; apply Z.eqb_neq; lia | apply Z.leb_le; lia]. }
  rewrite Hpay. fold p. fold (dropped p).
  destruct (dropped p); [rewrite Hc0 | rewrite Hc1]; reflexivity.
Qed.

(** One call of agent_recv_message_unlocked in message mode (bytestream-tcp off), for any caller message *)
Lemma recv_spec s k m : Inv s -> bytes_ok (pend k) -> sumlen (m_bufs m) < W64 ->
  let '(u1, k1, closed) := astep (unc s) k in
  if whole u1 then
    exists s' m', Inv s' /\ unc s' = after_frame u1 /\ filled m m' (payload_of u1) /\
      recv_unlocked false ctl gate s k m =
        Some (if dropped (payload_of u1) then (ROob, s', k1, m) else (RSuccess, s', k1, m'))
  else
    exists s', Inv s' /\ unc s' = u1 /\
      recv_unlocked false ctl gate s k m = Some ((if closed then RError else RWouldBlock), s', k1, m).
Proof.
  intros I Hpk Hm. unfold astep.
  pose proof (missing_whole s I) as Hmiss. pose proof (headroom_unc s I) as Hh.
  pose proof (unc_ok s I) as Huok.
  destruct (whole (unc s)) eqn:Ew.
  - (* a whole frame is cached: no read *)
    rewrite Ew. cbn [negb] in Hmiss.
    destruct (unc s) as [|hi [|lo t]] eqn:Eu; cbn [whole] in Ew; try discriminate.
    apply Z.leb_le in Ew.
    destruct (deliver_whole s 0 k m hi lo t I Eu Ew Hm) as (s3 & m' & I3 & Hu3 & Hfill & Hdel).
    exists s3, m'. cbn [after_frame payload_of]. split; [exact I3|]. split; [exact Hu3|]. split; [exact Hfill|].
    unfold recv_unlocked, read_phase. rewrite Hmiss. unfold len_phase. cbn [andb].
    rewrite Hh, <- Eu. exact Hdel.
  - cbn [negb] in Hmiss.
    (* the state after a read that brought nothing: unchanged *)
    assert (Hnoread : forall sockret k1, sockret = 0 \/ sockret = -1 ->
      match len_phase true s (headroom s) with
      | None => None
      | Some s2 => deliver_phase false ctl gate s2 (headroom s) sockret k1 m
      end = Some ((if sockret <? 0 then RError else RWouldBlock), s, k1, m)).
    { intros sockret k1 Hsr. unfold len_phase. cbn [andb].
      assert (Hlp : (r_fs s =? 0) && (2 <=? headroom s) = false).
      { destruct (r_fs s =? 0) eqn:E0; [|reflexivity]. apply Z.eqb_eq in E0. cbn [andb].
        rewrite (inv_fs s I) in E0. apply (fs_of_zero _ Huok) in E0. apply Z.leb_gt. lia. }
      rewrite Hlp. unfold deliver_phase. rewrite Hh, (whole_test s I), Ew. destruct (sockret <? 0); reflexivity. }
    destruct (script k) as [|[cap| |] sc] eqn:Esc.
    + rewrite Ew. exists s. split; [exact I|]. split; [reflexivity|].
      unfold recv_unlocked, read_phase. rewrite Hmiss, Esc. rewrite (Hnoread 0 k) by auto. reflexivity.
    + destruct (lenZ (pend k) =? 0) eqn:Ep.
      * rewrite Ew. exists s. split; [exact I|]. split; [reflexivity|].
        unfold recv_unlocked, read_phase. rewrite Hmiss, Esc, Ep. rewrite (Hnoread 0) by auto. reflexivity.
      * (* a real read *)
        set (q := Z.min cap (BUFSZ - lenZ (unc s))).
        set (d := takeZ q (pend k)). set (u1 := unc s ++ d).
        pose proof (unc_len s I) as Hul. destruct I as [Hfo Hsz Hbok Hcs Hfs].
        pose proof (lenZ_nonneg (unc s)) as Hun.
        assert (Hdl : 0 <= lenZ d <= BUFSZ - lenZ (unc s)).
        { unfold d. rewrite lenZ_takeZ. unfold q. pose proof (lenZ_nonneg (pend k)). lia. }
        assert (Hkeep : mreadn (r_buf s) (r_fo s) (headroom s) = Some (unc s)).
        { rewrite mreadn_ok by lia. fold (unc s). rewrite Hh. f_equal. apply takeZ_all. lia. }
        set (s1 := {| r_buf := u1; r_fo := 0; r_fs := r_fs s; r_cs := r_cs s; r_wake := r_wake s |}).
        assert (Hh1 : w32 (headroom s + lenZ d) = lenZ u1).
        { rewrite Hh. unfold u1. rewrite lenZ_app. apply w32_id. rewrite BUFSZ_val in *. lia. }
        assert (Hu1ok : bytes_ok u1).
        { unfold u1. apply bytes_ok_app. split; [exact Huok|]. unfold d. apply bytes_ok_takeZ. exact Hpk. }
        (* the state after the length field was decoded *)
        assert (Hu1n : 0 <= lenZ u1) by apply lenZ_nonneg.
        assert (Hu1sz : lenZ u1 <= BUFSZ) by (unfold u1; rewrite lenZ_app; lia).
        assert (Hd0 : forall l : bytes, dropZ 0 l = l) by (intros l; apply dropZ_nonpos; lia).
        assert (Hlen : exists s2, len_phase true s1 (lenZ u1) = Some s2 /\ Inv s2 /\ unc s2 = u1).
        { unfold len_phase. cbn [andb r_fs r_buf r_fo s1].
          destruct (r_fs s =? 0) eqn:E0; cbn [andb].
          - apply Z.eqb_eq in E0. destruct (2 <=? lenZ u1) eqn:E2.
            + apply Z.leb_le in E2. destruct (two_bytes u1 E2) as (hi & lo & t & Hu1).
              rewrite (rd16_at u1 0 hi lo t) by (try lia; rewrite Hd0; exact Hu1).
              eexists. split; [reflexivity|]. split.
              * constructor; unfold unc; cbn [r_buf r_fo r_fs r_cs]; rewrite ?Hd0;
                  [lia | exact Hu1sz | exact Hu1ok | exact Hcs | rewrite Hu1; reflexivity].
              * unfold unc; cbn [r_buf r_fo]. apply Hd0.
            + apply Z.leb_gt in E2. exists s1. split; [reflexivity|]. split.
              * constructor; unfold unc; cbn [r_buf r_fo r_fs r_cs s1]; rewrite ?Hd0;
                  [lia | exact Hu1sz | exact Hu1ok | exact Hcs | rewrite E0; symmetry; apply fs_of_short; exact E2].
              * unfold unc; cbn [r_buf r_fo s1]. apply Hd0.
          - apply Z.eqb_neq in E0. exists s1. split; [reflexivity|]. split.
            + constructor; unfold unc; cbn [r_buf r_fo r_fs r_cs s1]; rewrite ?Hd0;
                [lia | exact Hu1sz | exact Hu1ok | exact Hcs | ].
              unfold u1. rewrite fs_of_app; [exact Hfs|].
              destruct (Z.lt_ge_cases (lenZ (unc s)) 2) as [Hlt|Hge]; [|lia].
              apply fs_of_short in Hlt. lia.
            + unfold unc; cbn [r_buf r_fo s1]. apply Hd0. }
        destruct Hlen as (s2 & Hlp & I2 & Hu2).
        assert (Hread : read_phase s k = Some ((if lenZ d =? 0 then 0 else 1), s1, lenZ u1,
                          {| pend := dropZ q (pend k); script := sc |})).
        { unfold read_phase. rewrite Hmiss, Esc, Ep.
          replace (BUFSZ <? headroom s) with false by (symmetry; apply Z.ltb_ge; lia).
          rewrite Hkeep. replace (Z.min cap (BUFSZ - headroom s)) with q by (unfold q; rewrite Hh; reflexivity).
          fold d. fold u1. fold s1. rewrite Hh1. reflexivity. }
        destruct (whole u1) eqn:Ew1.
        -- destruct u1 as [|hi [|lo t]] eqn:Eu1; cbn [whole] in Ew1; try discriminate.
           apply Z.leb_le in Ew1.
           destruct (deliver_whole s2 (if lenZ d =? 0 then 0 else 1) {| pend := dropZ q (pend k); script := sc |} m hi lo t I2 Hu2 Ew1 Hm)
             as (s3 & m' & I3 & Hu3 & Hfill & Hdel).
           exists s3, m'. cbn [after_frame payload_of]. split; [exact I3|]. split; [exact Hu3|]. split; [exact Hfill|].
           unfold recv_unlocked. rewrite Hread, Hmiss, Hlp. rewrite Hu2 in Hdel. exact Hdel.
        -- exists s2. split; [exact I2|]. split; [exact Hu2|].
           unfold recv_unlocked. rewrite Hread, Hmiss, Hlp.
           unfold deliver_phase. rewrite <- Hu2 at 1. rewrite (whole_test s2 I2), Hu2, Ew1.
           destruct (lenZ d =? 0); reflexivity.
    + rewrite Ew. exists s. split; [exact I|]. split; [reflexivity|].
      unfold recv_unlocked, read_phase. rewrite Hmiss, Esc. rewrite (Hnoread 0) by auto. reflexivity.
    + rewrite Ew. exists s. split; [exact I|]. split; [reflexivity|].
      unfold recv_unlocked, read_phase. rewrite Hmiss, Esc. rewrite (Hnoread (-1)) by auto. reflexivity.
Qed.

(* ------------------------------------------------------------------------------------------------ *)
(** * Frames on the wire *)

Definition keep (p : bytes) : bool := negb (dropped p).

(** One dispatch of component_io_cb (I/O callback attached, message mode): it hands out, in order and each in
    one piece, the frames [done] that are complete in what was cached plus what the kernel delivered during the
    dispatch, except those the demultiplexer consumed; afterwards no whole frame is left in the cache. *)
Lemma cb_dispatch_spec : forall fuel s k, Inv s -> bytes_ok (pend k) -> mu s k < Z.of_nat fuel ->
  exists s' k' done e,
    cb_dispatch false ctl gate fuel s k = Some (s', k', filter keep done, e) /\
    Inv s' /\ bytes_ok (pend k') /\
    unc s ++ pend k = encode done ++ unc s' ++ pend k' /\
    Forall pl_ok done /\ whole (unc s') = false /\
    (length (script k') <= length (script k))%nat /\
    (whole (unc s) = false -> script k <> [] -> (length (script k') < length (script k))%nat) /\
    (e = true -> In KClosed (script k)) /\
    (forall x, In x (script k') -> In x (script k)) /\
    lenZ (pend k') <= lenZ (pend k) /\
    (reads_only (script k) -> lenZ (pend k') = 0 \/
       lenZ (pend k') + Z.of_nat (length (script k)) <= lenZ (pend k) + Z.of_nat (length (script k'))).
Proof.
  induction fuel as [|f IH]; intros s k I Hpk Hmu.
  { unfold mu in Hmu. pose proof (lenZ_nonneg (unc s)). pose proof (lenZ_nonneg (pend k)). lia. }
  cbn [cb_dispatch].
  assert (Hsc : sumlen (m_bufs scratch) < W64) by (rewrite scratch_cap; reflexivity).
  pose proof (recv_spec s k scratch I Hpk Hsc) as Hstep.
  pose proof (astep_stream (unc s) k) as Hstr. pose proof (astep_script (unc s) k) as Hscr.
  pose proof (astep_ok (unc s) k (unc_ok s I) Hpk) as Hok.
  pose proof (astep_consumes (unc s) k) as Hcons. pose proof (astep_closed (unc s) k) as Hcl.
  pose proof (astep_sub (unc s) k) as Hsub. pose proof (astep_reads (unc s) k (unc_ok s I)) as Hrd. pose proof (astep_mono (unc s) k) as Hmono.
  destruct (astep (unc s) k) as [[u1 k1] closed].
  destruct Hok as [Hu1ok Hk1ok].
  destruct (whole u1) eqn:Ew1.
  - (* a frame is processed *)
    destruct Hstep as (s2 & m' & I2 & Hu2 & Hfill & Hrun).
    destruct (whole_split u1 Hu1ok Ew1) as (Hsplit & Hpl & Haok & Hshr).
    set (p := payload_of u1) in *.
    assert (Hmu2 : mu s2 k1 < Z.of_nat f).
    { unfold mu in *. rewrite Hu2.
      assert (lenZ u1 + lenZ (pend k1) = lenZ (unc s) + lenZ (pend k)) by (rewrite <- !lenZ_app; f_equal; exact Hstr).
      lia. }
    destruct (IH s2 k1 I2 Hk1ok Hmu2) as (s' & k' & done & e & Hd & I' & Hpk' & Hstr' & Hall & Hw' & Hl' & _ & He' & Hsub' & Hmono' & Hrd').
    exists s', k', (p :: done), e.
    split.
    { rewrite Hrun. cbn [filter]. unfold keep at 1. destruct (dropped p) eqn:Edr; cbn [negb].
      - exact Hd.
      - rewrite Hd.
        pose proof Hfill as (Hml & _ & _). rewrite Hml.
        assert (Hpos : 0 < lenZ p).
        { unfold dropped in Edr. apply orb_false_iff in Edr. destruct Edr as [Edr _].
          apply orb_false_iff in Edr. destruct Edr as [Edr _]. apply Z.eqb_neq in Edr.
          pose proof (lenZ_nonneg p). lia. }
        pose proof Hpl as [_ Hple]. rewrite scratch_cap.
        replace (0 <? Z.min (lenZ p) 65535) with true by (symmetry; apply Z.ltb_lt; lia).
        rewrite (filled_whole scratch m' p Hfill) by (rewrite scratch_cap; exact Hple).
        reflexivity. }
    split; [exact I'|]. split; [exact Hpk'|]. split.
    { rewrite <- Hstr. rewrite Hsplit at 1. unfold encode. cbn [map concat]. fold (encode done).
      rewrite <- !app_assoc. f_equal. rewrite <- Hu2. exact Hstr'. }
    split; [constructor; [exact Hpl | exact Hall]|]. split; [exact Hw'|].
    split; [lia|]. split.
    { intros Hw Hne. specialize (Hcons Hw Hne). lia. }
    split. { intros E. apply Hsub. apply He'. exact E. }
    split. { intros x Hx. apply Hsub. apply Hsub'. exact Hx. }
    split; [lia|].
    intros Hro. specialize (Hrd Hro).
    assert (Hro1 : reads_only (script k1)) by (intros x Hx; apply Hro; apply Hsub; exact Hx).
    specialize (Hrd' Hro1). pose proof (lenZ_nonneg (pend k')). lia.
  - destruct Hstep as (s2 & I2 & Hu2 & Hrun).
    exists s2, k1, [], closed. rewrite Hrun. cbn [filter encode map concat app].
    split. { destruct closed; reflexivity. }
    split; [exact I2|]. split; [exact Hk1ok|]. split; [rewrite Hu2; symmetry; exact Hstr|].
    split; [constructor|]. split; [rewrite Hu2; exact Ew1|]. split; [exact Hscr|]. split; [exact Hcons|].
    split; [exact Hcl|]. split; [exact Hsub|].
    split; [exact Hmono|].
    intros Hro. exact (Hrd Hro).
Qed.

Lemma filter_app_keep a b : filter keep (a ++ b) = filter keep a ++ filter keep b.
Proof. apply filter_app. Qed.

(** [n] dispatches in a row *)
Lemma cb_session_spec : forall n s k, Inv s -> bytes_ok (pend k) -> whole (unc s) = false ->
  exists s' k' done e,
    cb_session false ctl gate n s k = Some (s', k', filter keep done, e) /\
    Inv s' /\ bytes_ok (pend k') /\
    unc s ++ pend k = encode done ++ unc s' ++ pend k' /\
    Forall pl_ok done /\ whole (unc s') = false /\
    (e = true -> In KClosed (script k)) /\
    (e = false -> (length (script k') <= length (script k) - n)%nat) /\
    (forall x, In x (script k') -> In x (script k)) /\
    lenZ (pend k') <= lenZ (pend k) /\
    (length (script k') <= length (script k))%nat /\
    (reads_only (script k) -> lenZ (pend k') = 0 \/
       lenZ (pend k') + Z.of_nat (length (script k)) <= lenZ (pend k) + Z.of_nat (length (script k'))).
Proof.
  induction n as [|n IH]; intros s k I Hpk Hw.
  - exists s, k, [], false. cbn [cb_session filter encode map concat app].
    repeat (split; [solve [auto | constructor | discriminate | lia]|]). intros _. right. lia.
  - cbn [cb_session].
    destruct (cb_dispatch_spec (dispatch_fuel s k) s k I Hpk (dispatch_fuel_enough s k I))
      as (s1 & k1 & d1 & e1 & Hd & I1 & Hpk1 & Hstr1 & Hall1 & Hw1 & Hl1 & Hlt1 & He1 & Hsub1 & Hmono1 & Hrd1).
    rewrite Hd. destruct e1.
    + exists s1, k1, d1, true.
      repeat (split; [solve [auto | discriminate]|]). exact Hrd1.
    + destruct (IH s1 k1 I1 Hpk1 Hw1) as (s' & k' & d2 & e & Hs & I' & Hpk' & Hstr' & Hall' & Hw' & He' & Hl' & Hsub' & Hmono' & Hle' & Hrd').
      rewrite Hs. exists s', k', (d1 ++ d2), e.
      split; [rewrite filter_app_keep; reflexivity|].
      split; [exact I'|]. split; [exact Hpk'|].
      split. { rewrite Hstr1, Hstr', encode_app, <- !app_assoc. reflexivity. }
      split; [apply Forall_app; split; assumption|]. split; [exact Hw'|].
      split. { intros E. apply Hsub1. apply He'. exact E. }
      split.
      { intros E. specialize (Hl' E).
        destruct (script k) as [|x sc] eqn:Esc.
        - cbn [length] in *. lia.
        - assert (Hne : x :: sc <> []) by discriminate. specialize (Hlt1 Hw Hne). cbn [length] in *. lia. }
      split. { intros x Hx. apply Hsub1. apply Hsub'. exact Hx. }
      split; [lia|]. split; [lia|].
      intros Hro. specialize (Hrd1 Hro).
      assert (Hro1 : reads_only (script k1)) by (intros x Hx; apply Hro; apply Hsub1; exact Hx).
      specialize (Hrd' Hro1). pose proof (lenZ_nonneg (pend k')). lia.
Qed.

(** ** Main results for the receive callback (message mode) *)

(** A session that starts with an empty reassembly buffer, on a kernel that will deliver [stream] cut up in any
    way ([sc]), never faults; what it hands to the application is, in order and one callback per frame, the
    payloads of the frames that are complete in the bytes read so far, minus those the demultiplexer consumed. *)
Theorem cb_session_frames : forall n stream sc, bytes_ok stream ->
  exists s' k' done e,
    cb_session false ctl gate n rst0 {| pend := stream; script := sc |} = Some (s', k', filter keep done, e) /\
    Forall pl_ok done /\ stream = encode done ++ unc s' ++ pend k' /\ whole (unc s') = false /\
    (e = true -> In KClosed sc).
Proof.
  intros n stream sc Hok.
  destruct (cb_session_spec n rst0 {| pend := stream; script := sc |} Inv0 Hok eq_refl)
    as (s' & k' & done & e & Hs & _ & _ & Hstr & Hall & Hw & He & _).
  exists s', k', done, e. cbn [pend script unc rst0 r_fo r_buf dropZ app] in *. auto.
Qed.

(** ... hence, once the whole stream has been read, exactly the sent frames: none lost, none merged, none split,
    in order, whatever the segmentation. *)
Theorem cb_session_all : forall n ps tail sc s' k' ds,
  Forall pl_ok ps -> bytes_ok tail -> whole tail = false ->
  cb_session false ctl gate n rst0 {| pend := encode ps ++ tail; script := sc |} = Some (s', k', ds, false) ->
  pend k' = [] ->
  ds = filter keep ps /\ unc s' = tail.
Proof.
  intros n ps tail sc s' k' ds Hps Htl Hwt Hrun Hp.
  assert (Hok : bytes_ok (encode ps ++ tail)).
  { apply bytes_ok_app. split; [|exact Htl]. unfold encode. clear - Hps.
    induction Hps as [|p l [Hp _] _ IH]; cbn [map concat]; [constructor|].
    apply bytes_ok_app. split; [|exact IH]. unfold frame_of. apply bytes_ok_app. split; [apply hdr_ok | exact Hp]. }
  destruct (cb_session_frames n _ sc Hok) as (s2 & k2 & done & e & Hs & Hall & Hstr & Hw & _).
  rewrite Hrun in Hs. inversion Hs; subst s2 k2 e. rewrite Hp, app_nil_r in Hstr.
  destruct (encode_unique ps done tail (unc s') Hps Hall Hwt Hw Hstr) as [-> ->]. auto.
Qed.

(** Segmentation independence: two runs over the same byte stream, cut differently, that have both read all of
    it, hand out the same messages and end with the same unconsumed bytes. *)
Theorem cb_session_seg_independent : forall n1 n2 stream sc1 sc2 s1 k1 ds1 s2 k2 ds2,
  bytes_ok stream ->
  cb_session false ctl gate n1 rst0 {| pend := stream; script := sc1 |} = Some (s1, k1, ds1, false) ->
  cb_session false ctl gate n2 rst0 {| pend := stream; script := sc2 |} = Some (s2, k2, ds2, false) ->
  pend k1 = [] -> pend k2 = [] ->
  ds1 = ds2 /\ unc s1 = unc s2.
Proof.
  intros n1 n2 stream sc1 sc2 s1 k1 ds1 s2 k2 ds2 Hok H1 H2 Hp1 Hp2.
  destruct (cb_session_frames n1 stream sc1 Hok) as (a1 & b1 & d1 & e1 & Hs1 & Hall1 & Hstr1 & Hw1 & _).
  destruct (cb_session_frames n2 stream sc2 Hok) as (a2 & b2 & d2 & e2 & Hs2 & Hall2 & Hstr2 & Hw2 & _).
  rewrite H1 in Hs1. rewrite H2 in Hs2.
  assert (Hx1 : a1 = s1 /\ b1 = k1 /\ filter keep d1 = ds1) by (inversion Hs1; auto). destruct Hx1 as (-> & -> & <-).
  assert (Hx2 : a2 = s2 /\ b2 = k2 /\ filter keep d2 = ds2) by (inversion Hs2; auto). destruct Hx2 as (-> & -> & <-).
  rewrite Hp1, app_nil_r in Hstr1. rewrite Hp2, app_nil_r in Hstr2.
  rewrite Hstr1 in Hstr2 at 1.
  destruct (encode_unique d1 d2 _ _ Hall1 Hall2 Hw1 Hw2 Hstr2) as [-> ->]. auto.
Qed.

(** Every segmentation is covered: a script of [m >= |stream|] reads of at least one byte each, run for more than
    [m] dispatches, reads everything and ends without error. *)
Theorem cb_session_reads_all : forall n stream sc, bytes_ok stream -> reads_only sc ->
  lenZ stream <= Z.of_nat (length sc) -> (length sc < n)%nat ->
  exists s' k' ds, cb_session false ctl gate n rst0 {| pend := stream; script := sc |} = Some (s', k', ds, false) /\
    pend k' = [] /\ script k' = [].
Proof.
  intros n stream sc Hok Hro Hlen Hn.
  destruct (cb_session_spec n rst0 {| pend := stream; script := sc |} Inv0 Hok eq_refl)
    as (s' & k' & done & e & Hs & _ & _ & _ & _ & _ & He & Hl & _ & _ & _ & Hrd).
  cbn [pend script] in *.
  destruct e.
  { destruct (Hro KClosed (He eq_refl)) as (c & Hc & _). discriminate. }
  exists s', k', (filter keep done). split; [exact Hs|].
  specialize (Hl eq_refl). specialize (Hrd Hro).
  assert (Hsc : script k' = []) by (destruct (script k'); [reflexivity | cbn [length] in Hl; lia]).
  split; [|exact Hsc]. rewrite Hsc in Hrd. cbn [length] in Hrd.
  apply lenZ_nil. pose proof (lenZ_nonneg (pend k')). lia.
Qed.

End MessageMode.
