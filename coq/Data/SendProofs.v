(** C02 -- proofs about the sender half of FramingModel.v (RFC 4571 framing loop of
    nice_agent_send_messages_nonblocking_internal). *)
From Coq Require Import ZArith List Bool Lia.
From Nice Require Import Stream.StreamBase Stream.StreamProofs Data.FramingModel.
Import ListNotations.
Local Open Scope Z_scope.
Ltac Zify.zify_post_hook ::= Z.div_mod_to_equations.

(* ------------------------------------------------------------------------------------------------ *)
(** * Statements' vocabulary *)

Fixpoint chunks (fuel : nat) (d : bytes) : list bytes :=
  match fuel with
  | O => []
  | S f => if lenZ d <=? 0 then [] else if lenZ d >? FMAX then takeZ FMAX d :: chunks f (dropZ FMAX d) else [d]
  end.
Definition pieces (d : bytes) : list bytes := chunks (S (Z.to_nat (lenZ d / FMAX))) d.
Definition frame_of (p : bytes) : bytes := hdr (lenZ p) ++ p.

(* ------------------------------------------------------------------------------------------------ *)
(** * Numbers *)

Lemma FMAX_val : FMAX = 63488. Proof. reflexivity. Qed.
Lemma W64_big : 65536 < W64. Proof. reflexivity. Qed.
Local Opaque FMAX W64.

Lemma w64_id x : 0 <= x < W64 -> w64 x = x.
Proof. intros H. unfold w64. apply Z.mod_small. exact H. Qed.
Lemma w16_id x : 0 <= x < 65536 -> w16 x = x.
Proof. intros H. unfold w16. apply Z.mod_small. exact H. Qed.

Lemma plen_eq mlen : 0 < mlen -> (if mlen >? FMAX then FMAX else w16 mlen) = Z.min FMAX mlen.
Proof.
  intros H. rewrite Z.gtb_ltb. destruct (Z.ltb_spec FMAX mlen) as [H1|H1].
  - lia.
  - rewrite w16_id; [lia|]. rewrite FMAX_val in H1. lia.
Qed.

(* ------------------------------------------------------------------------------------------------ *)
(** * Lists of buffers *)

Lemma sumlen_concat bufs : sumlen bufs = lenZ (concat bufs).
Proof.
  induction bufs as [|b t IH]; cbn [sumlen concat].
  - reflexivity.
  - rewrite lenZ_app, IH. reflexivity.
Qed.
Lemma sumlen_app a b : sumlen (a ++ b) = sumlen a + sumlen b.
Proof.
  induction a as [|x t IH]; cbn [sumlen app].
  - lia.
  - rewrite IH. lia.
Qed.
Lemma sumlen_nonneg bufs : 0 <= sumlen bufs.
Proof. rewrite sumlen_concat. apply lenZ_nonneg. Qed.

Lemma mreadn_ok b off n : 0 <= off -> 0 <= n -> off + n <= lenZ b ->
  mreadn b off n = Some (takeZ n (dropZ off b)).
Proof.
  intros H1 H2 H3. unfold mreadn. rewrite fits_spec.
  destruct (Z.leb_spec 0 off) as [A|A]; [|lia].
  destruct (Z.leb_spec 0 n) as [B|B]; [|lia].
  destruct (Z.leb_spec (off + n) (lenZ b)) as [C|C]; [|lia].
  reflexivity.
Qed.
Lemma mreadn_fail b off n : lenZ b < off + n -> mreadn b off n = None.
Proof.
  intros H. unfold mreadn. rewrite fits_spec.
  destruct (Z.leb_spec (off + n) (lenZ b)) as [C|C]; [lia|].
  rewrite andb_false_r. reflexivity.
Qed.
Lemma mreadn_some_iff b off n s : mreadn b off n = Some s <->
  (0 <= off /\ 0 <= n /\ off + n <= lenZ b /\ s = takeZ n (dropZ off b)).
Proof.
  split.
  - intros H. unfold mreadn in H. rewrite fits_spec in H.
    destruct (Z.leb_spec 0 off) as [A|A]; [|discriminate H].
    destruct (Z.leb_spec 0 n) as [B|B]; [|discriminate H].
    destruct (Z.leb_spec (off + n) (lenZ b)) as [C|C]; [|discriminate H].
    cbn [andb] in H. injection H as H. subst s. repeat split; assumption.
  - intros [H1 [H2 [H3 H4]]]. subst s. apply mreadn_ok; assumption.
Qed.

(* ------------------------------------------------------------------------------------------------ *)
(** * copy_loop *)

(* from the start of a buffer: never a Fault, the slices are the next [plen] bytes *)
Lemma copy_loop_zero : forall bufs plen, sumlen bufs < W64 -> 0 <= plen <= 65535 ->
  exists sl, copy_loop bufs 0 plen = Some (sl, Z.min plen (sumlen bufs)) /\
             concat sl = takeZ plen (concat bufs) /\ length sl = length bufs.
Proof.
  induction bufs as [|b t IH]; intros plen Hw Hp.
  - exists []. cbn [copy_loop sumlen concat]. rewrite Z.min_r by lia. rewrite takeZ_nil.
    repeat split; reflexivity.
  - cbn [copy_loop sumlen concat]. cbn [sumlen] in Hw.
    pose proof (lenZ_nonneg b) as Hb. pose proof (sumlen_nonneg t) as Ht.
    rewrite Z.sub_0_r. rewrite w64_id by lia.
    set (sz := Z.min (lenZ b) plen).
    assert (Hsz : 0 <= sz <= lenZ b /\ sz <= plen) by (unfold sz; lia).
    rewrite mreadn_ok by lia. rewrite dropZ_nonpos by lia.
    rewrite w16_id by lia.
    destruct (IH (plen - sz)) as [sl [Hc [Hs Hl]]]; [lia|lia|].
    rewrite Hc. exists (takeZ sz b :: sl). split; [|split].
    + f_equal. f_equal. unfold sz. lia.
    + cbn [concat]. rewrite Hs. unfold sz. destruct (Z.le_gt_cases (lenZ b) plen) as [H1|H1].
      * rewrite Z.min_l by lia. rewrite takeZ_all by lia. rewrite takeZ_app_r by lia. reflexivity.
      * rewrite Z.min_r by lia. rewrite takeZ_app_l by lia. replace (plen - plen) with 0 by lia.
        rewrite (takeZ_nonpos 0) by lia. rewrite app_nil_r. reflexivity.
    + cbn [length]. rewrite Hl. reflexivity.
Qed.

(* from any position inside (or at the very end of) the first buffer: never a Fault either -- only the
   [lenZ b - oib] bytes that are left of that buffer are asked for *)
Lemma copy_loop_from (b : bytes) (post : list bytes) oib plen :
  sumlen (b :: post) < W64 -> 0 <= oib <= lenZ b -> 0 <= plen <= 65535 ->
  exists sl, copy_loop (b :: post) oib plen = Some (sl, Z.min plen (sumlen (b :: post) - oib)) /\
             concat sl = takeZ plen (dropZ oib (concat (b :: post))) /\ length sl = S (length post).
Proof.
  intros Hw Ho Hp. cbn [copy_loop sumlen concat]. cbn [sumlen] in Hw.
  pose proof (lenZ_nonneg b) as Hb. pose proof (sumlen_nonneg post) as Ht.
  rewrite w64_id by lia.
  set (sz := Z.min (lenZ b - oib) plen).
  assert (Hsz : 0 <= sz <= lenZ b - oib /\ sz <= plen) by (unfold sz; lia).
  rewrite mreadn_ok by lia. rewrite w16_id by lia.
  destruct (copy_loop_zero post (plen - sz)) as [sl [Hc [Hs Hl]]]; [lia|lia|].
  rewrite Hc. exists (takeZ sz (dropZ oib b) :: sl). split; [|split].
  - f_equal. f_equal. unfold sz. lia.
  - cbn [concat]. rewrite Hs. rewrite dropZ_app_l by lia.
    assert (Hld : lenZ (dropZ oib b) = lenZ b - oib) by (rewrite lenZ_dropZ; lia).
    unfold sz. destruct (Z.le_gt_cases (lenZ b - oib) plen) as [H1|H1].
    + rewrite Z.min_l by lia. rewrite (takeZ_all (lenZ b - oib)) by lia.
      rewrite takeZ_app_r by lia. rewrite Hld. reflexivity.
    + rewrite Z.min_r by lia. rewrite takeZ_app_l by lia. replace (plen - plen) with 0 by lia.
      rewrite (takeZ_nonpos 0) by lia. rewrite app_nil_r. reflexivity.
  - cbn [length]. rewrite Hl. reflexivity.
Qed.

(* ------------------------------------------------------------------------------------------------ *)
(** * find_buf *)

Lemma find_buf_zero (b : bytes) (bs : list bytes) : find_buf (b :: bs) 0 0 = (0, 0, b :: bs).
Proof.
  cbn [find_buf]. pose proof W64_big as HW. pose proof (lenZ_nonneg b) as Hb.
  replace (0 - 0) with 0 by lia. rewrite w64_id by lia.
  destruct (Z.ltb_spec (lenZ b) 0) as [A|A]; [lia|]. reflexivity.
Qed.

Lemma find_buf_spec : forall (pre : list bytes) (b : bytes) (post : list bytes) off cur, 0 <= cur -> off < W64 ->
  cur + sumlen pre < off -> off <= cur + sumlen pre + lenZ b ->
  find_buf (pre ++ b :: post) off cur = (off - cur - sumlen pre, off, b :: post).
Proof.
  induction pre as [|a pre IH]; intros b post off cur Hc Hw Hlt Hle.
  - cbn [app find_buf sumlen] in *. rewrite w64_id by lia.
    destruct (Z.ltb_spec (lenZ b) (off - cur)) as [A|A]; [lia|].
    replace (off - cur - 0) with (off - cur) by lia. reflexivity.
  - cbn [app find_buf sumlen] in *. pose proof (sumlen_nonneg pre) as Hp. pose proof (lenZ_nonneg a) as Ha.
    rewrite w64_id by lia.
    destruct (Z.ltb_spec (lenZ a) (off - cur)) as [A|A]; [|lia].
    rewrite w64_id by lia. rewrite IH by lia.
    replace (off - (cur + lenZ a) - sumlen pre) with (off - cur - (lenZ a + sumlen pre)) by lia. reflexivity.
Qed.

Lemma split_at : forall bufs off, 0 < off <= sumlen bufs ->
  exists pre b post, bufs = pre ++ b :: post /\ sumlen pre < off /\ off <= sumlen pre + lenZ b.
Proof.
  induction bufs as [|b t IH]; intros off H; cbn [sumlen] in H.
  - lia.
  - destruct (Z.le_gt_cases off (lenZ b)) as [A|A].
    + exists [], b, t. cbn [app sumlen]. repeat split; lia.
    + destruct (IH (off - lenZ b)) as [pre [b' [post [E [H1 H2]]]]]; [lia|].
      exists (b :: pre), b', post. cbn [app sumlen]. rewrite E. repeat split; lia.
Qed.

(* ------------------------------------------------------------------------------------------------ *)
(** * One iteration of the [while (message_len > 0)] loop *)

Ltac fmx := rewrite ?FMAX_val in *; lia.

(* what one iteration does once the vector (header :: sl) has been built without a Fault *)
Definition step_res (fuel' : nat) (bufs : list bytes) (mlen offset : Z) (resp : list sres) (plen : Z)
  (sl : list bytes) : option (list frame * list sres * bool * bool) :=
  let '(r, resp') := next_resp resp in
  let fr := {| f_reliable := negb (offset =? 0); f_vec := hdr plen :: sl; f_res := r |} in
  match r with
  | SOk => if mlen - plen =? 0 then Some ([fr], resp', true, false)
           else match frame_loop fuel' bufs (mlen - plen) (offset + plen) resp' with
                | None => None
                | Some (fs, rs, c, e) => Some (fr :: fs, rs, c, e)
                end
  | SBlock => Some ([fr], resp', false, false)
  | SErr => Some ([fr], resp', false, true)
  end.

Lemma frame_loop_unfold fuel' bufs mlen offset resp oib cur rest :
  0 < mlen -> find_buf bufs offset 0 = (oib, cur, rest) ->
  frame_loop (S fuel') bufs mlen offset resp =
  match copy_loop rest oib (Z.min FMAX mlen) with
  | None => None
  | Some (vec, adv) =>
      let '(r, resp') := next_resp resp in
      let fr := {| f_reliable := negb (cur =? 0); f_vec := hdr (Z.min FMAX mlen) :: vec; f_res := r |} in
      match r with
      | SOk => if mlen - Z.min FMAX mlen =? 0 then Some ([fr], resp', true, false)
          else match frame_loop fuel' bufs (mlen - Z.min FMAX mlen) (w64 (offset + adv)) resp' with
               | None => None
               | Some (fs, rs, c, e) => Some (fr :: fs, rs, c, e)
               end
      | SBlock => Some ([fr], resp', false, false)
      | SErr => Some ([fr], resp', false, true)
      end
  end.
Proof.
  intros Hm Hf. cbn [frame_loop]. destruct (Z.leb_spec mlen 0) as [A|A]; [lia|].
  rewrite (plen_eq mlen Hm). rewrite Hf. reflexivity.
Qed.

Lemma frame_loop_done fuel bufs mlen offset resp : mlen <= 0 ->
  frame_loop fuel bufs mlen offset resp = Some ([], resp, false, false).
Proof.
  intros H. destruct fuel as [|f]; cbn [frame_loop]; destruct (Z.leb_spec mlen 0) as [A|A]; try lia; reflexivity.
Qed.

Lemma frame_step_ok fuel' bufs mlen offset resp :
  sumlen bufs < W64 -> 0 < mlen -> 0 <= offset -> offset + mlen = sumlen bufs ->
  exists sl, concat sl = takeZ (Z.min FMAX mlen) (dropZ offset (concat bufs)) /\
    frame_loop (S fuel') bufs mlen offset resp = step_res fuel' bufs mlen offset resp (Z.min FMAX mlen) sl.
Proof.
  intros Hw Hm Ho Hsum. set (plen := Z.min FMAX mlen) in *.
  assert (Hp : 0 < plen <= 65535 /\ plen <= mlen) by (unfold plen; rewrite FMAX_val; lia).
  pose proof W64_big as HW.
  destruct (Z.eq_dec offset 0) as [H0|NZ].
  - subst offset. destruct bufs as [|b t]; [cbn [sumlen] in Hsum; lia|].
    destruct (copy_loop_zero (b :: t) plen) as [sl [Hc [Hs _]]]; [lia|lia|].
    exists sl. split.
    + rewrite dropZ_nonpos by lia. exact Hs.
    + rewrite (frame_loop_unfold fuel' (b :: t) mlen 0 resp 0 0 (b :: t) Hm (find_buf_zero b t)).
      change (Z.min FMAX mlen) with plen. rewrite Hc. rewrite Z.min_l by lia. unfold step_res.
      destruct (next_resp resp) as [r resp']. rewrite w64_id by lia. reflexivity.
  - destruct (split_at bufs offset) as [pre [b [post [E [H1 H2]]]]]; [lia|].
    pose proof (sumlen_nonneg pre) as Hpre. pose proof (lenZ_nonneg b) as Hb.
    assert (Hlp : lenZ (concat pre) = sumlen pre) by (symmetry; apply sumlen_concat).
    assert (Hsp : sumlen bufs = sumlen pre + sumlen (b :: post)) by (rewrite E; apply sumlen_app).
    destruct (copy_loop_from b post (offset - 0 - sumlen pre) plen) as [sl [Hc [Hs _]]]; [lia|lia|lia|].
    exists sl. split.
    + rewrite Hs. rewrite E. rewrite concat_app.
      rewrite (dropZ_app_r offset) by lia. rewrite Hlp.
      replace (offset - 0 - sumlen pre) with (offset - sumlen pre) by lia. reflexivity.
    + rewrite (frame_loop_unfold fuel' bufs mlen offset resp (offset - 0 - sumlen pre) offset (b :: post) Hm).
      2:{ rewrite E. apply find_buf_spec; lia. }
      change (Z.min FMAX mlen) with plen. rewrite Hc. rewrite Z.min_l by lia.
      unfold step_res. destruct (next_resp resp) as [r resp'].
      rewrite w64_id by lia. reflexivity.
Qed.

(* ------------------------------------------------------------------------------------------------ *)
(** * chunks / pieces *)

Lemma chunks_concat : forall fuel d, lenZ d < Z.of_nat fuel * FMAX -> concat (chunks fuel d) = d.
Proof.
  induction fuel as [|f IH]; intros d H; pose proof (lenZ_nonneg d) as Hd.
  - fmx.
  - cbn [chunks]. destruct (Z.leb_spec (lenZ d) 0) as [A|A].
    + cbn [concat]. symmetry. apply lenZ_nil. lia.
    + rewrite Z.gtb_ltb. destruct (Z.ltb_spec FMAX (lenZ d)) as [B|B].
      * cbn [concat]. rewrite IH; [apply takeZ_dropZ|]. rewrite lenZ_dropZ. fmx.
      * cbn [concat]. apply app_nil_r.
Qed.

Lemma chunks_bound : forall fuel d, Forall (fun p => 0 < lenZ p <= FMAX) (chunks fuel d).
Proof.
  induction fuel as [|f IH]; intros d.
  - constructor.
  - cbn [chunks]. destruct (Z.leb_spec (lenZ d) 0) as [A|A]; [constructor|].
    rewrite Z.gtb_ltb. destruct (Z.ltb_spec FMAX (lenZ d)) as [B|B].
    + constructor; [|apply IH]. rewrite lenZ_takeZ. fmx.
    + constructor; [lia|constructor].
Qed.

Lemma fuel_ok t : 0 <= t -> t < Z.of_nat (S (Z.to_nat (t / FMAX))) * FMAX.
Proof. intros H. rewrite FMAX_val. lia. Qed.

Lemma pieces_concat d : concat (pieces d) = d.
Proof. unfold pieces. apply chunks_concat. apply fuel_ok. apply lenZ_nonneg. Qed.
Lemma pieces_bound d : Forall (fun p => 0 < lenZ p <= FMAX) (pieces d).
Proof. unfold pieces. apply chunks_bound. Qed.
Lemma pieces_small d : 0 < lenZ d <= FMAX -> pieces d = [d].
Proof.
  intros H. unfold pieces. cbn [chunks].
  destruct (Z.leb_spec (lenZ d) 0) as [A|A]; [lia|].
  rewrite Z.gtb_ltb. destruct (Z.ltb_spec FMAX (lenZ d)) as [B|B]; [lia|]. reflexivity.
Qed.
Lemma pieces_nil d : lenZ d <= 0 -> pieces d = [].
Proof.
  intros H. unfold pieces. cbn [chunks].
  destruct (Z.leb_spec (lenZ d) 0) as [A|A]; [reflexivity|lia].
Qed.

(* ------------------------------------------------------------------------------------------------ *)
(** * The whole loop, every socket answer SOk *)

Definition shape_ok (v : list bytes) : Prop :=
  exists p sl, v = hdr (lenZ p) :: sl /\ concat sl = p /\ 0 < lenZ p <= FMAX.

Lemma lenZ_drop_concat bufs offset : 0 <= offset <= sumlen bufs ->
  lenZ (dropZ offset (concat bufs)) = sumlen bufs - offset.
Proof. intros H. rewrite lenZ_dropZ, <- sumlen_concat. lia. Qed.

Lemma frame_loop_ok : forall fuel bufs mlen offset,
  sumlen bufs < W64 -> 0 <= offset -> offset + mlen = sumlen bufs -> 0 < mlen ->
  mlen < Z.of_nat fuel * FMAX ->
  exists fs, frame_loop fuel bufs mlen offset [] = Some (fs, [], true, false) /\
    map frame_bytes fs = map frame_of (chunks fuel (dropZ offset (concat bufs))) /\
    Forall (fun f => f_res f = SOk) fs /\
    (exists f0 rest, fs = f0 :: rest /\ f_reliable f0 = negb (offset =? 0) /\
                     Forall (fun f => f_reliable f = true) rest) /\
    Forall (fun f => shape_ok (f_vec f)) fs.
Proof.
  induction fuel as [|fuel' IH]; intros bufs mlen offset Hw Hoff Hsum Hm Hfuel.
  - fmx.
  - destruct (frame_step_ok fuel' bufs mlen offset [] Hw Hm Hoff Hsum) as [sl [Hsl Hstep]].
    rewrite Hstep. unfold step_res. cbn [next_resp].
    assert (Hlen : lenZ (dropZ offset (concat bufs)) = mlen) by (rewrite lenZ_drop_concat; fmx).
    set (dd := dropZ offset (concat bufs)) in *.
    cbn [chunks]. rewrite Hlen.
    destruct (Z.leb_spec mlen 0) as [A|_]; [lia|].
    rewrite Z.gtb_ltb.
    destruct (Z.ltb_spec FMAX mlen) as [Big|Small].
    + (* more frames follow *)
      assert (Hpl : Z.min FMAX mlen = FMAX) by lia. rewrite Hpl in *.
      destruct (Z.eqb_spec (mlen - FMAX) 0) as [A|_]; [fmx|].
      destruct (IH bufs (mlen - FMAX) (offset + FMAX))
        as [fs [Hfl [Hby [Hres [[f0 [rest [Efs [Hr0 Hrest]]]] Hshape]]]]]; try fmx.
      rewrite Hfl.
      eexists. split; [reflexivity|]. split; [|split; [|split]].
      * cbn [map]. f_equal.
        -- unfold frame_bytes, frame_of. cbn [f_vec concat]. rewrite Hsl. rewrite lenZ_takeZ, Hlen.
           replace (Z.max 0 (Z.min FMAX mlen)) with FMAX by fmx. reflexivity.
        -- rewrite Hby. unfold dd. rewrite dropZ_dropZ by fmx. reflexivity.
      * constructor; [reflexivity | exact Hres].
      * eexists _, _. split; [reflexivity|]. split; [reflexivity|]. rewrite Efs.
        constructor; [|exact Hrest]. rewrite Hr0.
        destruct (Z.eqb_spec (offset + FMAX) 0) as [B|_]; [fmx | reflexivity].
      * constructor; [|exact Hshape]. cbn [f_vec]. exists (takeZ FMAX dd), sl.
        rewrite lenZ_takeZ, Hlen. replace (Z.max 0 (Z.min FMAX mlen)) with FMAX by fmx.
        split; [reflexivity|]. split; [exact Hsl|fmx].
    + (* last frame *)
      assert (Hpl : Z.min FMAX mlen = mlen) by lia. rewrite Hpl in *.
      destruct (Z.eqb_spec (mlen - mlen) 0) as [_|A]; [|lia].
      assert (Hdd : takeZ mlen dd = dd) by (apply takeZ_all; lia).
      eexists. split; [reflexivity|]. split; [|split; [|split]].
      * cbn [map]. f_equal. unfold frame_bytes, frame_of. cbn [f_vec concat].
        rewrite Hsl, Hlen, Hdd. reflexivity.
      * constructor; [reflexivity | constructor].
      * eexists _, _. split; [reflexivity|]. split; [reflexivity|constructor].
      * constructor; [|constructor]. cbn [f_vec]. exists dd, sl. rewrite Hlen.
        split; [reflexivity|]. split; [rewrite Hsl; exact Hdd | lia].
Qed.

(* ------------------------------------------------------------------------------------------------ *)
(** * One message *)

Lemma send_message_empty bufs resp : sumlen bufs <= 0 ->
  send_message bufs resp = Some ([], resp, false, false).
Proof. intros H. unfold send_message. apply frame_loop_done. exact H. Qed.

Lemma send_message_ok bufs : sumlen bufs < W64 -> 0 < sumlen bufs ->
  exists fs, send_message bufs [] = Some (fs, [], true, false) /\
    map frame_bytes fs = map frame_of (pieces (concat bufs)) /\
    Forall (fun f => f_res f = SOk) fs /\
    (exists f0 rest, fs = f0 :: rest /\ f_reliable f0 = false /\
                     Forall (fun f => f_reliable f = true) rest) /\
    Forall (fun f => shape_ok (f_vec f)) fs.
Proof.
  intros Hw Hpos. unfold send_message, pieces. rewrite <- sumlen_concat.
  destruct (frame_loop_ok (S (Z.to_nat (sumlen bufs / FMAX))) bufs (sumlen bufs) 0) as [fs H]; try lia.
  - apply fuel_ok. lia.
  - rewrite dropZ_nonpos in H by lia. exists fs. exact H.
Qed.

Lemma send_frames_of_message bufs fs rs c e :
  send_message bufs [] = Some (fs, rs, c, e) -> send_frames bufs = Some (map f_vec fs).
Proof. intros H. unfold send_frames. rewrite H. reflexivity. Qed.

Lemma Forall_map_intro {A B} (P : B -> Prop) (f : A -> B) l :
  Forall (fun x => P (f x)) l -> Forall P (map f l).
Proof.
  induction 1 as [|x t Hx Ht IH]; cbn [map]; constructor; assumption.
Qed.

(** S1: for every size and every scatter layout the framing loop reads only inside the caller's buffers, and the
    vectors handed to the socket are exactly the RFC 4571 frames of the message *)
Theorem send_frames_total bufs : sumlen bufs < W64 ->
  exists vs, send_frames bufs = Some vs /\ map (@concat Z) vs = map frame_of (pieces (concat bufs)) /\
    Forall (fun v => exists p sl, v = hdr (lenZ p) :: sl /\ concat sl = p /\ 0 < lenZ p <= FMAX) vs.
Proof.
  intros Hw. destruct (Z.le_gt_cases (sumlen bufs) 0) as [Z0|Pos].
  - exists []. split; [|split].
    + apply (send_frames_of_message bufs [] [] false false). apply send_message_empty. exact Z0.
    + rewrite pieces_nil by (rewrite <- sumlen_concat; exact Z0). reflexivity.
    + constructor.
  - destruct (send_message_ok bufs Hw Pos) as [fs [E [Hby [_ [_ Hsh]]]]].
    exists (map f_vec fs). split; [exact (send_frames_of_message _ _ _ _ _ E)|]. split.
    + rewrite map_map. exact Hby.
    + apply Forall_map_intro. exact Hsh.
Qed.

Theorem send_frames_correct bufs vs : sumlen bufs < W64 ->
  send_frames bufs = Some vs -> map (@concat Z) vs = map frame_of (pieces (concat bufs)).
Proof.
  intros Hw H. destruct (send_frames_total bufs Hw) as [vs' [E [Hc _]]]. rewrite E in H. injection H as <-. exact Hc.
Qed.

(** every vector is: 2-byte header, then one slice per remaining caller buffer *)
Theorem send_frames_shape bufs vs : sumlen bufs < W64 -> send_frames bufs = Some vs ->
  Forall (fun v => exists p sl, v = hdr (lenZ p) :: sl /\ concat sl = p /\ 0 < lenZ p <= FMAX) vs.
Proof.
  intros Hw H. destruct (send_frames_total bufs Hw) as [vs' [E [_ Hs]]]. rewrite E in H. injection H as <-. exact Hs.
Qed.

(** the first frame is sent unreliably, all later ones reliably; with all answers SOk n_sent is incremented *)
Theorem send_message_flags bufs fs rs c e : sumlen bufs < W64 -> send_message bufs [] = Some (fs, rs, c, e) ->
  0 < sumlen bufs -> c = true /\ e = false /\ rs = [] /\
  (exists f0 rest, fs = f0 :: rest /\ f_reliable f0 = false /\ Forall (fun f => f_reliable f = true) rest) /\
  Forall (fun f => f_res f = SOk) fs.
Proof.
  intros Hw E Pos.
  destruct (send_message_ok bufs Hw Pos) as [fs' [E' [_ [Hres [Hrel _]]]]].
  rewrite E' in E. injection E as E1 E2 E3 E4. subst fs' rs c e.
  split; [reflexivity|]. split; [reflexivity|]. split; [reflexivity|]. split; [exact Hrel|exact Hres].
Qed.

(** a refused first frame: nothing else is handed over, the message is not counted *)
Theorem send_message_blocked bufs resp : sumlen bufs < W64 -> 0 < sumlen bufs ->
  exists f, send_message bufs (SBlock :: resp) = Some ([f], resp, false, false) /\ f_res f = SBlock /\ f_reliable f = false.
Proof.
  intros Hw Pos. unfold send_message.
  destruct (frame_step_ok (Z.to_nat (sumlen bufs / FMAX)) bufs (sumlen bufs) 0 (SBlock :: resp) Hw Pos)
    as [sl [_ Hstep]]; [lia | lia |].
  rewrite Hstep. unfold step_res. cbn [next_resp].
  eexists. split; [reflexivity|]. split; reflexivity.
Qed.

(** same for a negative return: the error flag is raised instead *)
Theorem send_message_error bufs resp : sumlen bufs < W64 -> 0 < sumlen bufs ->
  exists f, send_message bufs (SErr :: resp) = Some ([f], resp, false, true) /\ f_res f = SErr /\ f_reliable f = false.
Proof.
  intros Hw Pos. unfold send_message.
  destruct (frame_step_ok (Z.to_nat (sumlen bufs / FMAX)) bufs (sumlen bufs) 0 (SErr :: resp) Hw Pos)
    as [sl [_ Hstep]]; [lia | lia |].
  rewrite Hstep. unfold step_res. cbn [next_resp].
  eexists. split; [reflexivity|]. split; reflexivity.
Qed.

(* ------------------------------------------------------------------------------------------------ *)
(** * Several messages in one call *)

Lemma accepted_all fs : Forall (fun f => f_res f = SOk) fs -> accepted fs = fs.
Proof.
  unfold accepted. induction 1 as [|f l Hf Hl IH]; cbn [filter].
  - reflexivity.
  - rewrite Hf, IH. reflexivity.
Qed.

Lemma send_loop_all : forall bufss n,
  Forall (fun b => sumlen b < W64 /\ 0 < sumlen b) bufss ->
  exists fss, send_loop bufss [] n = Some (fss, n + Z.of_nat (length bufss)) /\
    map wire_of fss = map (fun b => concat (map frame_of (pieces (concat b)))) bufss /\
    Forall (fun fs => Forall (fun f => f_res f = SOk) fs) fss.
Proof.
  induction bufss as [|m ms IH]; intros n HF.
  - exists []. cbn [send_loop length map]. split; [|split].
    + f_equal. f_equal. lia.
    + reflexivity.
    + constructor.
  - inversion HF as [|m' ms' [Hw Hpos] HF' Eq]. subst m' ms'.
    destruct (send_message_ok m Hw Hpos) as [fs [E [Hby [Hres _]]]].
    destruct (IH (n + 1) HF') as [fss [El [Hwire Hall]]].
    cbn [send_loop]. rewrite E. cbn [andb]. rewrite El.
    exists (fs :: fss). split; [|split].
    + f_equal. f_equal. cbn [length]. lia.
    + cbn [map]. f_equal; [|exact Hwire]. unfold wire_of. rewrite accepted_all by exact Hres.
      rewrite Hby. reflexivity.
    + constructor; assumption.
Qed.

(** several messages in one call, every answer SOk, every message non-empty: all are counted,
    the wire carries their frames in order *)
Theorem send_api_all bufss :
  Forall (fun b => sumlen b < W64 /\ 0 < sumlen b) bufss -> bufss <> [] ->
  exists fss, send_api bufss [] = Some (fss, Z.of_nat (length bufss)) /\
    concat (map wire_of fss) = concat (map (fun b => concat (map frame_of (pieces (concat b)))) bufss).
Proof.
  intros HF Hne. unfold send_api.
  destruct (send_loop_all bufss 0 HF) as [fss [E [Hwire _]]].
  rewrite E. exists fss. split.
  - assert (Hlen : 0 < Z.of_nat (length bufss)).
    { destruct bufss as [|m ms]; [contradiction|]. cbn [length]. lia. }
    destruct (Z.leb_spec (0 + Z.of_nat (length bufss)) 0) as [A|A]; [lia|].
    f_equal; f_equal; lia.
  - rewrite Hwire. reflexivity.
Qed.

(* ------------------------------------------------------------------------------------------------ *)
(** * Regression: the copy loop before fix f9b160b

    It asked for MIN (size, packet_len) bytes at [buffer + offset_in_buffer]: for a message above 0xF800 bytes whose
    second frame does not end inside the buffer it starts in, that is a read past the end of the caller's buffer
    (ASan: heap-buffer-overflow READ of 100 bytes for the buffers [63488][100]).  The repaired loop reads nothing from
    the exhausted buffer and the 100 bytes from the next one. *)
Fixpoint copy_loop_before_fix (bufs : list bytes) (oib plen : Z) : option (list bytes * Z) :=
  match bufs with
  | [] => Some ([], 0)
  | b :: bs =>
      let sz := Z.min (lenZ b) plen in
      match mreadn b oib sz with
      | None => None
      | Some s =>
        match copy_loop_before_fix bs 0 (w16 (plen - sz)) with
        | None => None
        | Some (r, tot) => Some (s :: r, sz + tot)
        end
      end
  end.

Local Transparent FMAX W64.

Example copy_loop_regression_boundary :
  let bufs := [repZ 7 (Z.to_nat 63488); repZ 9 (Z.to_nat 100)] in
  (let '(oib, cur, rest) := find_buf bufs 63488 0 in (oib, cur, length rest)) = (63488, 63488, 2%nat) /\
  copy_loop_before_fix bufs 63488 100 = None /\
  (match copy_loop bufs 63488 100 with Some (sl, tot) => Some (map lenZ sl, tot) | None => None end) = Some ([0; 100], 100).
Proof. cbv zeta. split; [vm_compute; reflexivity|]. split; vm_compute; reflexivity. Qed.

(* the layouts that used to fault: split point at a buffer boundary, and strictly inside the second of three buffers *)
Example send_frames_regression_boundary :
  (match send_frames [repZ 7 (Z.to_nat 63488); repZ 9 (Z.to_nat 100)] with Some vs => map (map lenZ) vs | None => [] end)
    = [[2; 63488; 0]; [2; 0; 100]].
Proof. vm_compute. reflexivity. Qed.

Example send_frames_regression_inside :
  (match send_frames [repZ 1 (Z.to_nat 63000); repZ 2 (Z.to_nat 1000); repZ 3 (Z.to_nat 5000)] with
   | Some vs => map (map lenZ) vs | None => [] end) = [[2; 63000; 488; 0]; [2; 512; 5000]].
Proof. vm_compute. reflexivity. Qed.

(** two-frame messages *)
Example send_frames_two_frames_ok :
  exists vs, send_frames [repZ 1 (Z.to_nat 10); repZ 2 (Z.to_nat 70000)] = Some vs /\ length vs = 2%nat.
Proof.
  assert (E : (match send_frames [repZ 1 (Z.to_nat 10); repZ 2 (Z.to_nat 70000)] with
               | Some vs => Nat.eqb (length vs) 2 | None => false end) = true) by (vm_compute; reflexivity).
  destruct (send_frames [repZ 1 (Z.to_nat 10); repZ 2 (Z.to_nat 70000)]) as [vs|]; [|discriminate E].
  exists vs. split; [reflexivity|]. apply Nat.eqb_eq. exact E.
Qed.

(* three buffers: the first vector has one slice per buffer, the second starts in the third buffer *)
Example send_frames_three_buffers_ok :
  exists vs, send_frames [repZ 1 (Z.to_nat 10); repZ 2 (Z.to_nat 20); repZ 3 (Z.to_nat 70000)] = Some vs /\
             map (map lenZ) vs = [[2; 10; 20; 63458]; [2; 6542]].
Proof.
  assert (E : (match send_frames [repZ 1 (Z.to_nat 10); repZ 2 (Z.to_nat 20); repZ 3 (Z.to_nat 70000)] with
               | Some vs => map (map lenZ) vs | None => [] end) = [[2; 10; 20; 63458]; [2; 6542]])
    by (vm_compute; reflexivity).
  destruct (send_frames [repZ 1 (Z.to_nat 10); repZ 2 (Z.to_nat 20); repZ 3 (Z.to_nat 70000)]) as [vs|];
    [|discriminate E].
  exists vs. split; [reflexivity|exact E].
Qed.
