(** agent_consume_next_rfc4571_chunk (agent.c:4938-5004): after a frame has been consumed, rfc4571_wakeup_needed says exactly whether a
    complete next frame is already in the reassembly buffer.  The component's GSource (component_source_prepare) reports ready when the flag
    is set; the socket itself is no longer readable for bytes that have already been read, so the flag is the only thing that wakes a reader
    for a frame that arrived in the same read as its predecessor. *)
From Coq Require Import ZArith List Bool Lia.
From Nice Require Import Stream.StreamBase Stream.StreamProofs Data.FramingModel Data.RecvProofs.
Import ListNotations.
Local Open Scope Z_scope.

Lemma rd16_range b off v : bytes_ok b -> rd16 b off = Some v -> 0 <= v < 65536.
Proof.
  intros Hb H. unfold rd16 in H.
  destruct (mreadn b off 2) as [d|] eqn:E; [|discriminate].
  apply mreadn_inv in E. destruct E as (_ & _ & _ & Hd).
  assert (Hok : bytes_ok d) by (subst d; apply bytes_ok_takeZ, bytes_ok_dropZ; exact Hb).
  destruct d as [|hi [|lo [|x t]]]; try discriminate.
  inversion H; subst v.
  inversion Hok as [|? ? Hhi Hr]; subst. inversion Hr as [|? ? Hlo _]; subst.
  unfold byte_ok in *. lia.
Qed.

(** the new frame state: the flag is set iff a whole frame is buffered (frame size known, not more than the buffered bytes) *)
Theorem next_frame_wake s s' :
  bytes_ok (r_buf s) -> next_frame s = Some s' -> r_wake s' = negb (missing s').
Proof.
  intros Hb H. unfold next_frame in H.
  set (fo := w32 (r_fo s + r_fs s)) in *.
  set (h := w32 (lenZ (r_buf s) - fo)) in *.
  destruct (2 <=? h) eqn:Eh.
  - destruct (rd16 (r_buf s) fo) as [v|] eqn:Ev; [|discriminate].
    pose proof (rd16_range _ _ _ Hb Ev) as Hv.
    inversion H; subst s'; clear H.
    unfold missing, headroom; cbn [r_fs r_buf r_fo r_wake]. fold h.
    destruct (2 + v =? 0) eqn:E0; [apply Z.eqb_eq in E0; lia|].
    cbn [orb]. destruct (2 + v <=? h) eqn:E1, (h <? 2 + v) eqn:E2; try reflexivity.
    + apply Z.leb_le in E1. apply Z.ltb_lt in E2. lia.
    + apply Z.leb_gt in E1. apply Z.ltb_ge in E2. lia.
  - inversion H; subst s'; clear H.
    unfold missing; cbn [r_fs r_wake]. reflexivity.
Qed.

(** a reader that was handed a whole message (or the end of one in byte-stream mode) is woken again iff the next frame is already complete;
    one that was handed part of a frame (byte-stream mode, destination full) is always woken again *)
Theorem consume_wake bs s tgt s' r :
  bytes_ok (r_buf s) -> consume bs s tgt = Some (s', r) ->
  r_wake s' = negb (missing s') \/ (r_wake s' = true /\ r_fs s' = r_fs s /\ r_fo s' = r_fo s /\ r_buf s' = r_buf s).
Proof.
  intros Hb H. unfold consume in H.
  destruct tgt as [[msgs it]|].
  - destruct (mreadn (r_buf s) (r_fo s + r_fs s - w64 (r_fs s - 2 - r_cs s)) (w64 (r_fs s - 2 - r_cs s))) as [data|]; [|discriminate].
    destruct (append_buffer bs msgs it data) as [[[msgs' it'] copied]|]; [|discriminate].
    destruct ((copied =? w64 (r_fs s - 2 - r_cs s)) || negb bs).
    + destruct (next_frame s) as [s1|] eqn:E; [|discriminate]. inversion H; subst. left. eapply next_frame_wake; eauto.
    + inversion H; subst. right. cbn. repeat split; reflexivity.
  - destruct (next_frame s) as [s1|] eqn:E; [|discriminate]. inversion H; subst. left. eapply next_frame_wake; eauto.
Qed.

(** two frames that arrived in one read, the second ending exactly where the buffered bytes end: the flag is set after the first is consumed *)
Example wake_on_exact_boundary :
  let s := {| r_buf := [0; 1; 65; 0; 2; 66; 67]; r_fo := 0; r_fs := 3; r_cs := 0; r_wake := false |} in
  option_map (fun s' => (r_wake s', r_fs s', headroom s')) (next_frame s) = Some (true, 4, 4).
Proof. vm_compute. reflexivity. Qed.
