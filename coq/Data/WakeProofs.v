(** agent_consume_next_rfc4571_chunk (agent.c:4938-5004): after a frame has been consumed, rfc4571_wakeup_needed says exactly whether a
    complete next frame is already in the reassembly buffer.  The component's GSource (component_source_prepare) reports ready when the flag
    is set; the socket itself is no longer readable for bytes that have already been read, so the flag is the only thing that wakes a reader
    for a frame that arrived in the same read as its predecessor. *)
From Coq Require Import ZArith List Bool Lia.
From Nice Require Import Stream.StreamBase Stream.StreamProofs Data.FramingModel Data.RecvProofs.
Import ListNotations.
Local Open Scope Z_scope.

Lemma rd16_range b off v : bytes_ok b -> rd16 b off = Some v -> 0 <= v < 65536.
Proof.
  intros Hb H. unfold rd16 in H.
  destruct (mreadn b off 2) as [d|] eqn:E; [|discriminate].
  apply mreadn_inv in E. destruct E as (_ & _ & _ & Hd).
  assert (Hok : bytes_ok d) by (subst d; apply bytes_ok_takeZ, bytes_ok_dropZ; exact Hb).
  destruct d as [|hi [|lo [|x t]]]; try discriminate.
  inversion H; subst v.
  inversion Hok as [|? ? Hhi Hr]; subst. inversion Hr as [|? ? Hlo _]; subst.
  unfold byte_ok in *. lia.
Qed.

(** the new frame state: the flag is set iff a whole frame is buffered (frame size known, not more than the buffered bytes) *)
Theorem next_frame_wake s s' :
  bytes_ok (r_buf s) -> next_frame s = Some s' -> r_wake s' = negb (missing s').
Proof.
  intros Hb H. unfold next_frame in H.
  set (fo := w32 (r_fo s + r_fs s)) in *.
  set (h := w32 (lenZ (r_buf s) - fo)) in *.
  destruct (2 <=? h) eqn:Eh.
  - destruct (rd16 (r_buf s) fo) as [v|] eqn:Ev; [|discriminate].
    pose proof (rd16_range _ _ _ Hb Ev) as Hv.
    inversion H; subst s'; clear H.
    unfold missing, headroom; cbn [r_fs r_buf r_fo r_wake]. fold h.
    destruct (2 + v =? 0) eqn:E0; [apply Z.eqb_eq in E0; lia|].
    cbn [orb]. destruct (2 + v <=? h) eqn:E1, (h <? 2 + v) eqn:E2; try reflexivity.
    + apply Z.leb_le in E1. apply Z.ltb_lt in E2. lia.
    + apply Z.leb_gt in E1. apply Z.ltb_ge in E2. lia.
  - inversion H; subst s'; clear H.
    unfold missing; cbn [r_fs r_wake]. reflexivity.
Qed.

(** a reader that was handed a whole message (or the end of one in byte-stream mode) is woken again iff the next frame is already complete;
    one that was handed part of a frame (byte-stream mode, destination full) is always woken again *)
Theorem consume_wake bs s tgt s' r :
  bytes_ok (r_buf s) -> consume bs s tgt = Some (s', r) ->
  r_wake s' = negb (missing s') \/ (r_wake s' = true /\ r_fs s' = r_fs s /\ r_fo s' = r_fo s /\ r_buf s' = r_buf s).
Proof.
  intros Hb H. unfold consume in H.
  destruct tgt as [[msgs it]|].
  - destruct (mreadn (r_buf s) (r_fo s + r_fs s - w64 (r_fs s - 2 - r_cs s)) (w64 (r_fs s - 2 - r_cs s))) as [data|]; [|discriminate].
    destruct (append_buffer bs msgs it data) as [[[msgs' it'] copied]|]; [|discriminate].
    destruct ((copied =? w64 (r_fs s - 2 - r_cs s)) || negb bs).
    + destruct (next_frame s) as [s1|] eqn:E; [|discriminate]. inversion H; subst. left. eapply next_frame_wake; eauto.
    + inversion H; subst. right. cbn. repeat split; reflexivity.
  - destruct (next_frame s) as [s1|] eqn:E; [|discriminate]. inversion H; subst. left. eapply next_frame_wake; eauto.
Qed.

(** two frames that arrived in one read, the second ending exactly where the buffered bytes end: the flag is set after the first is consumed *)
Example wake_on_exact_boundary :
  let s := {| r_buf := [0; 1; 65; 0; 2; 66; 67]; r_fo := 0; r_fs := 3; r_cs := 0; r_wake := false |} in
  option_map (fun s' => (r_wake s', r_fs s', headroom s')) (next_frame s) = Some (true, 4, 4).
Proof. vm_compute. reflexivity. Qed.

(** * No stall: whatever one call of agent_recv_message_unlocked (TCP branch) leaves behind, a complete frame in the reassembly buffer always comes
    with the wake flag set.  The component's GSource is ready when the socket is readable or the flag is set; bytes already read no longer make the socket
    readable, so this is what guarantees that a reader driven by the source alone is handed every frame. *)
Section NoStall.
Variable bs_mode : bool.
Variable ctl : bytes -> bool.
Variable gate : bool.

Lemma mreadn_len b off n d : mreadn b off n = Some d -> lenZ d = n.
Proof.
  intros H. apply mreadn_inv in H. destruct H as (Ho & Hn & Hl & ->).
  rewrite lenZ_takeZ, lenZ_dropZ. lia.
Qed.

(** the headroom the read phase reports is the headroom of the state it returns, and the bytes stay bytes *)
Lemma read_phase_headroom s k sockret s1 h1 k1 :
  bytes_ok (r_buf s) -> bytes_ok (pend k) ->
  read_phase s k = Some (sockret, s1, h1, k1) ->
  headroom s1 = h1 /\ bytes_ok (r_buf s1) /\ r_fs s1 = r_fs s.
Proof.
  intros Hb Hp H. unfold read_phase in H.
  destruct (missing s).
  2:{ inversion H; subst. auto. }
  destruct (script k) as [|ev sc].
  { inversion H; subst. auto. }
  destruct ev as [cap| |].
  - destruct (lenZ (pend k) =? 0). { inversion H; subst. auto. }
    destruct (BUFSZ <? headroom s) eqn:Eb; [discriminate|].
    destruct (mreadn (r_buf s) (r_fo s) (headroom s)) as [keep|] eqn:Ek; [|discriminate].
    inversion H; subst; clear H. cbn [r_buf r_fo r_fs].
    pose proof (mreadn_len _ _ _ _ Ek) as Hk.
    apply mreadn_inv in Ek. destruct Ek as (_ & _ & _ & Hkeep).
    split; [|split; [|reflexivity]].
    + unfold headroom at 1; cbn [r_buf r_fo]. rewrite lenZ_app, Hk, Z.sub_0_r. reflexivity.
    + apply bytes_ok_app. split.
      * rewrite Hkeep. apply bytes_ok_takeZ, bytes_ok_dropZ, Hb.
      * apply bytes_ok_takeZ, Hp.
  - inversion H; subst. auto.
  - inversion H; subst. auto.
Qed.

Lemma len_phase_same wm s1 h1 s2 :
  len_phase wm s1 h1 = Some s2 -> r_buf s2 = r_buf s1 /\ r_fo s2 = r_fo s1 /\ (r_fs s1 <> 0 -> r_fs s2 = r_fs s1).
Proof.
  unfold len_phase. intros H.
  destruct (wm && (r_fs s1 =? 0) && (2 <=? h1)) eqn:E.
  - destruct (rd16 (r_buf s1) (r_fo s1)); [|discriminate]. inversion H; subst; cbn.
    repeat split; auto. intros Hn. apply andb_prop in E. destruct E as [E _]. apply andb_prop in E. destruct E as [_ E].
    apply Z.eqb_eq in E. contradiction.
  - inversion H; subst. auto.
Qed.

Theorem recv_unlocked_no_stall s k m st s' k' m' :
  bytes_ok (r_buf s) -> bytes_ok (pend k) ->
  recv_unlocked bs_mode ctl gate s k m = Some (st, s', k', m') ->
  missing s' = false -> r_wake s' = true.
Proof.
  intros Hb Hp H Hm. unfold recv_unlocked in H.
  destruct (read_phase s k) as [[[[sockret s1] h1] k1]|] eqn:Er; [|discriminate].
  destruct (read_phase_headroom _ _ _ _ _ _ Hb Hp Er) as (Hh & Hb1 & _).
  destruct (len_phase (missing s) s1 h1) as [s2|] eqn:El; [|discriminate].
  destruct (len_phase_same _ _ _ _ El) as (Hbuf & Hfo & _).
  assert (Hh2 : headroom s2 = h1) by (unfold headroom in *; rewrite Hbuf, Hfo; exact Hh).
  assert (Hb2 : bytes_ok (r_buf s2)) by (rewrite Hbuf; exact Hb1).
  unfold deliver_phase in H.
  destruct (negb (r_fs s2 =? 0) && (r_fs s2 <=? h1)) eqn:Ew.
  - destruct (mreadn (r_buf s2) (r_fo s2 + 2) (r_fs s2 - 2)) as [payload|]; [|discriminate].
    destruct ((lenZ payload =? 0) || ctl payload || negb gate).
    + destruct (consume bs_mode s2 None) as [[s3 r]|] eqn:Ec; [|discriminate].
      inversion H; subst; clear H.
      destruct (consume_wake _ _ _ _ _ Hb2 Ec) as [Hw | (Hw & _)]; [rewrite Hw, Hm; reflexivity | exact Hw].
    + destruct (consume bs_mode s2 (Some ([m], iter0))) as [[s3 r]|] eqn:Ec; [|discriminate].
      destruct r as [[ms it]|]; [|discriminate].
      destruct ms as [|m1 [|m2 ms]]; try discriminate.
      inversion H; subst; clear H.
      destruct (consume_wake _ _ _ _ _ Hb2 Ec) as [Hw | (Hw & _)]; [rewrite Hw, Hm; reflexivity | exact Hw].
  - (* nothing handed out: the state is s2, which holds no complete frame *)
    assert (Hs : s' = s2) by (destruct (sockret <? 0); inversion H; reflexivity).
    subst s'. exfalso. unfold missing in Hm. rewrite Hh2 in Hm.
    apply orb_false_elim in Hm. destruct Hm as [H0 H1].
    rewrite H0 in Ew. cbn [negb andb] in Ew.
    apply Z.leb_gt in Ew. apply Z.ltb_ge in H1. lia.
Qed.
End NoStall.

(** two frames brought by one kernel read, the second ending on the last byte read: the first call hands out the first frame and leaves the flag set *)
Example no_stall_two_frames_one_read :
  let s0 := {| r_buf := []; r_fo := 0; r_fs := 0; r_cs := 0; r_wake := false |} in
  let k0 := {| pend := [0; 1; 65; 0; 2; 66; 67]; script := [KRead 65536] |} in
  let m0 := {| m_bufs := [repeat 0 16]; m_len := 0 |} in
  match recv_unlocked false (fun _ => false) true s0 k0 m0 with
  | Some (RSuccess, s1, k1, m1) => (valid_bytes m1, r_wake s1, missing s1, pend k1) = ([65], true, false, [])
  | _ => False
  end.
Proof. vm_compute. reflexivity. Qed.
