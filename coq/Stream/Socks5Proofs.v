(** Proofs about the SOCKS5 model. *)
From Coq Require Import ZArith List Bool Lia.
From Nice Require Import Stream.StreamBase Stream.StreamProofs Stream.TcpQueueModel Stream.PsslModel Stream.Socks5Model Stream.ProxyProofs.
Import ListNotations.
Local Open Scope Z_scope.

Definition sinv (s : sst) : Prop := s_state s = SK_CONNECTED -> s_base s = true.

Ltac walk := repeat first
  [ apply flush_queue_strict | apply flush_queue_leaves | apply flush_queue_safe
  | match goal with
    | |- strict_only (if ?b then _ else _) => destruct b
    | |- strict_only (match ?x with _ => _ end) => destruct x
    | |- strict_only (let _ := _ in _) => cbv zeta
    | |- leaves _ (if ?b then _ else _) => destruct b eqn:?
    | |- leaves _ (match ?x with _ => _ end) => destruct x
    | |- leaves _ (let _ := _ in _) => cbv zeta
    end
  | constructor | intro ].

Lemma socks_strict G s : s_state s <> SK_CONNECTED -> strict_only (socks_body G s).
Proof.
  intros N. unfold socks_body. destruct (Z.eqb_spec (s_state s) SK_CONNECTED); [contradiction|].
  unfold read_into, at_, socks_error, send_connect. walk.
Qed.

Lemma socks_inv_step G s kb s1 r k e : sinv s -> exec (socks_body G s) kb = (Some (s1, r), k, e) -> 0 <= r -> sinv s1.
Proof.
  intros I E R. revert R.
  apply (leaves_exec (fun s1 r => 0 <= r -> sinv s1) (socks_body G s)) with (kb := kb) (k := k) (e := e); auto.
  clear E. unfold socks_body.
  destruct (Z.eqb_spec (s_state s) SK_CONNECTED) as [C|C].
  - destruct (s_base s) eqn:B; [|constructor; intros; lia].
    unfold passthrough. constructor. intros d. destruct (lenZ d =? 0); repeat constructor; intros _ _; exact B.
  - unfold read_into, at_, socks_error, send_connect, set_state, sinv.
    walk; simpl; try lia; try discriminate; auto.
Qed.

Lemma socks_resume G : resume_ok (socks_body G) vis_str sinv.
Proof.
  intros s a b o1 e1 I NA NB E F C.
  destruct (Z.eq_dec (s_state s) SK_CONNECTED) as [H|H].
  - left. apply passthrough_transparent. unfold socks_body. rewrite H. simpl. rewrite (I H). reflexivity.
  - exfalso. pose proof (strict_clean_full _ (socks_strict G s H) _ _ _ _ E C). congruence.
Qed.

Theorem socks_seg_independent_except G s cs : sinv s ->
  clean (snd (run (socks_body G) (alive s) cs)) = true ->
  weq (fst (run (socks_body G) (alive s) cs)) (fst (feed (socks_body G) (alive s) (concat cs))) /\
  vis vis_str (snd (run (socks_body G) (alive s) cs)) = vis vis_str (snd (feed (socks_body G) (alive s) (concat cs))).
Proof.
  intros I C.
  exact (run_seg_independent (socks_body G) vis_str sinv (socks_inv_step G) (socks_resume G) cs (alive s) I C).
Qed.

Theorem socks_tunnel_transparent G s cs : s_state s = SK_CONNECTED -> s_base s = true ->
  fst (run (socks_body G) (alive s) cs) = alive s /\
  vis vis_str (snd (run (socks_body G) (alive s) cs)) = map OByte (concat cs).
Proof.
  intros H B. apply transparent_run. apply passthrough_transparent. unfold socks_body. rewrite H, B. reflexivity.
Qed.

Lemma socks_send_transparent s rel bufs : s_state s = SK_CONNECTED -> s_base s = true ->
  socks_send s rel bufs = (s, [Dn (concat bufs); Snd 1]).
Proof. intros H B. unfold socks_send. rewrite H, B. reflexivity. Qed.

(** ** no Fault, no spinning *)
Lemma read_into_safe G cap n k : 0 <= n <= cap ->
  (forall d data, lenZ d <= n -> lenZ data = cap -> safe (k d data)) -> safe (read_into G cap n k).
Proof.
  intros R H. unfold read_into. constructor. intros d Ld. pose proof (lenZ_nonneg d).
  assert (LR : lenZ (repZ G (Z.to_nat cap)) = cap) by (rewrite lenZ_repZ; lia).
  rewrite mwrite_some by lia. apply H; [lia|].
  rewrite !lenZ_app, lenZ_takeZ, lenZ_dropZ. lia.
Qed.
Lemma at_safe data i k : 0 <= i < lenZ data -> (forall v, safe (k v)) -> safe (at_ data i k).
Proof. intros R H. unfold at_. destruct (mread_some data i R) as [v M]. rewrite M. apply H. Qed.

Ltac walks := repeat first
  [ apply flush_queue_safe
  | match goal with
    | |- safe (if ?b then _ else _) => destruct b
    | |- safe (let _ := _ in _) => cbv zeta
    | |- safe (socks_error _) => unfold socks_error
    | |- safe (send_connect _) => unfold send_connect
    | |- safe (at_ _ _ _) => apply at_safe; [lia|intro]
    end
  | constructor ].

Lemma socks_safe G s : safe (socks_body G s).
Proof.
  unfold socks_body.
  destruct (s_state s =? SK_CONNECTED).
  { destruct (s_base s); [|constructor]. unfold passthrough. constructor. intros d _. destruct (lenZ d =? 0); repeat constructor. }
  destruct (s_state s =? SK_INIT).
  { destruct (s_base s); [|constructor]. apply read_into_safe; [lia|]. intros d data Ld L2. walks. }
  destruct (s_state s =? SK_AUTH).
  { destruct (s_base s); [|constructor]. apply read_into_safe; [lia|]. intros d data Ld L2. walks. }
  destruct (s_state s =? SK_CONNECT); [|walks].
  destruct (s_base s); [|constructor]. apply read_into_safe; [lia|]. intros d data Ld L2. walks.
  all: intros t Lt; pose proof (lenZ_nonneg t); rewrite mwrite_some by lia; walks.
Qed.

Lemma socks_call_ok G s kb o k e : sinv s -> kb <> [] -> exec (socks_body G s) kb = (o, k, e) -> Forall (fun _ => True) e ->
  match o with None => False | Some (s1, r) => 0 <= r -> sinv s1 /\ lenZ k < lenZ kb end.
Proof.
  intros I N E _. destruct o as [[s1 r]|].
  2:{ exact (safe_exec _ (socks_safe G s) _ _ _ E). }
  intros R. split; [eapply socks_inv_step; eauto|].
  pose proof (lenZ_pos kb N) as Lk.
  unfold socks_body in E.
  destruct (Z.eqb_spec (s_state s) SK_CONNECTED) as [C|C].
  { rewrite (I C) in E. rewrite exec_passthrough in E by auto. inversion E; subst. rewrite lenZ_dropZ. unfold UPCAP. lia. }
  destruct (s_state s =? SK_INIT).
  { destruct (s_base s); [|simpl in E; inversion E; subst; lia]. unfold read_into in E. eapply read_progress; [| |exact E]; auto; lia. }
  destruct (s_state s =? SK_AUTH).
  { destruct (s_base s); [|simpl in E; inversion E; subst; lia]. unfold read_into in E. eapply read_progress; [| |exact E]; auto; lia. }
  destruct (s_state s =? SK_CONNECT).
  { destruct (s_base s); [|simpl in E; inversion E; subst; lia]. unfold read_into in E. eapply read_progress; [| |exact E]; auto; lia. }
  unfold socks_error in E. simpl in E. inversion E; subst; lia.
Qed.

Theorem socks_no_fault G s cs : sinv s ->
  ~ In EFault (snd (run (socks_body G) (alive s) cs)) /\ ~ In ELive (snd (run (socks_body G) (alive s) cs)).
Proof.
  intros I.
  destruct (run_ok (socks_body G) sinv (fun _ => True) (socks_call_ok G) cs (alive s)
              (fun _ => I) ltac:(discriminate) ltac:(discriminate)) as (A & B & _); auto.
  apply Forall_forall. auto.
Qed.

Lemma sinv_init u p a : sinv (socks_init u p a).
Proof. unfold sinv, socks_init; simpl. discriminate. Qed.
