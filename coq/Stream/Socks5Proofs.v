(** Proofs about the SOCKS5 model (replies collected across reads by socks5_fill). *)
From Coq Require Import ZArith List Bool Lia.
From Nice Require Import Stream.StreamBase Stream.StreamProofs Stream.TcpQueueModel Stream.PsslModel Stream.Socks5Model Stream.ProxyProofs.
Import ListNotations.
Local Open Scope Z_scope.

Lemma w64s x : 0 <= x < W64 -> w64 x = x.
Proof. intros; unfold w64; apply Z.mod_small; lia. Qed.

(* the read issued by socks5_fill when bytes are missing *)
Definition rd (s : sst) (want : Z) (kd : sst -> prog sst) : prog sst :=
  PRead false (w64 (want - s_rlen s)) (fill_k s want kd).
Definition more (s : sst) (rb : list Z) (n : Z) : sst := upd s (s_state s) (s_queue s) rb (s_rlen s + n).

Lemma fill_rd s want kd kneg : want <= 22 -> s_rlen s < want -> s_base s = true -> fill s want kd kneg = rd s want kd.
Proof.
  intros W L B. unfold fill, rd. destruct (Z.ltb_spec 22 want); [lia|]. destruct (Z.leb_spec want (s_rlen s)); [lia|].
  rewrite B. reflexivity.
Qed.

Lemma fill_k_app s want kd a x : a <> [] -> x <> [] -> s_rlen s + lenZ a < want ->
  fill_k s want kd (a ++ x) =
  match mwrite (s_rbuf s) (s_rlen s) a with
  | None => PFault
  | Some rb => fill_k (more s rb (lenZ a)) want kd x
  end.
Proof.
  intros NA NX SH. pose proof (lenZ_pos a NA) as La. pose proof (lenZ_pos x NX) as Lx.
  unfold fill_k at 1. rewrite lenZ_app. destruct (Z.eqb_spec (lenZ a + lenZ x) 0); [lia|].
  rewrite mwrite_app. destruct (mwrite (s_rbuf s) (s_rlen s) a) as [rb|]; [|reflexivity].
  unfold fill_k, more, upd. cbn [s_rbuf s_rlen s_state s_queue s_base s_user s_pass s_addr].
  destruct (Z.eqb_spec (lenZ x) 0); [lia|].
  destruct (mwrite rb (s_rlen s + lenZ a) x); [|reflexivity].
  replace (s_rlen s + (lenZ a + lenZ x)) with (s_rlen s + lenZ a + lenZ x) by lia. reflexivity.
Qed.

(** a fill read that came up short resumes *)
Lemma rd_short s want kd a b : 0 <= s_rlen s -> want <= 22 -> s_rlen s + lenZ a < want -> b <> [] ->
  exists o1 e1, exec (rd s want kd) a = (o1, [], e1) /\
    exists o2 k2 e2, exec (rd s want kd) (a ++ b) = (o2, k2, e2) /\
      match o1 with
      | None => o2 = None /\ vis vis_str e2 = vis vis_str e1
      | Some (s1, r1) => r1 = 0 /\ (s1 = s \/ exists rb, s1 = more s rb (lenZ a)) /\ s_rlen s1 = s_rlen s + lenZ a /\
                         (forall i, 0 <= i < s_rlen s -> mread (s_rbuf s1) i = mread (s_rbuf s) i) /\
                         (lenZ (s_rbuf s) = 22 -> lenZ (s_rbuf s1) = 22) /\
                         exists e2', exec (rd s1 want kd) b = (o2, k2, e2') /\
                                     vis vis_str (e1 ++ e2') = vis vis_str e2 /\ lenZ k2 < lenZ b
      end.
Proof.
  intros L0 W SH NB. pose proof (lenZ_nonneg a) as La. pose proof (lenZ_pos b NB) as Lb.
  unfold rd. rewrite !exec_read. rewrite w64s by (unfold W64; lia).
  set (req := want - s_rlen s).
  rewrite (takeZ_all req a) by (unfold req; lia). rewrite (dropZ_all req a) by (unfold req; lia).
  rewrite (takeZ_app_r req a b) by (unfold req; lia). rewrite (dropZ_app_r req a b) by (unfold req; lia).
  set (x := takeZ (req - lenZ a) b). set (rest := dropZ (req - lenZ a) b).
  assert (Lx : 1 <= lenZ x) by (unfold x, req; rewrite lenZ_takeZ; lia).
  assert (NX : x <> []) by (intros X; rewrite X, lenZ_nil0 in Lx; lia).
  assert (Lrest : lenZ rest < lenZ b) by (unfold rest, req; rewrite lenZ_dropZ; lia).
  destruct a as [|y a'].
  - (* nothing obtained: the call returns 0 and nothing changed *)
    simpl app. unfold fill_k at 1. rewrite lenZ_nil0. change (0 =? 0) with true. cbv iota. simpl exec.
    eexists _, _. split; [reflexivity|].
    destruct (exec (fill_k s want kd x) rest) as [[o2 k2] e2] eqn:E2.
    exists o2, k2, (Rd false req (lenZ x) :: e2). split; [reflexivity|].
    split; [reflexivity|]. split; [left; reflexivity|]. split; [change (lenZ []) with 0; lia|].
    split; [auto|]. split; [auto|].
    rewrite w64s by (unfold W64; lia). fold req.
    assert (X0 : req - lenZ [] = req) by (rewrite lenZ_nil0; lia).
    unfold x, rest in *. rewrite X0 in *. rewrite E2.
    eexists. split; [reflexivity|]. split; [reflexivity|]. pose proof (exec_suffix _ _ _ _ _ E2). lia.
  - assert (NA : y :: a' <> []) by discriminate.
    rewrite fill_k_app by auto.
    unfold fill_k at 1. destruct (Z.eqb_spec (lenZ (y :: a')) 0); [lz; pose proof (lenZ_nonneg a'); lia|].
    destruct (mwrite (s_rbuf s) (s_rlen s) (y :: a')) as [rb|] eqn:MW.
    + cbn [s_rlen upd]. destruct (Z.leb_spec want (s_rlen s + lenZ (y :: a'))); [lia|]. simpl exec.
      eexists _, _. split; [reflexivity|].
      destruct (exec (fill_k (more s rb (lenZ (y :: a'))) want kd x) rest) as [[o2 k2] e2] eqn:E2.
      exists o2, k2, (Rd false req (lenZ ((y :: a') ++ x)) :: e2). split; [reflexivity|].
      split; [reflexivity|]. split; [right; exists rb; reflexivity|]. split; [reflexivity|].
      split.
      { intros i Hi. cbn [s_rbuf upd]. destruct (mwrite_inv _ _ _ _ MW).
        rewrite (mread_mwrite _ _ _ _ i MW) by lia.
        destruct (Z.leb_spec (s_rlen s) i); [lia|]. reflexivity. }
      split. { intros LB. cbn [s_rbuf upd]. rewrite (mwrite_len _ _ _ _ MW). exact LB. }
      change (upd s (s_state s) (s_queue s) rb (s_rlen s + lenZ (y :: a'))) with (more s rb (lenZ (y :: a'))).
      change (s_rlen (more s rb (lenZ (y :: a')))) with (s_rlen s + lenZ (y :: a')).
      rewrite w64s by (unfold W64; lia).
      replace (want - (s_rlen s + lenZ (y :: a'))) with (req - lenZ (y :: a')) by (unfold req; lia).
      fold x. fold rest. rewrite E2.
      eexists. split; [reflexivity|]. split; [reflexivity|]. pose proof (exec_suffix _ _ _ _ _ E2). lia.
    + simpl exec. eexists _, _. split; [reflexivity|]. eexists None, rest, _. split; [reflexivity|]. split; reflexivity.
Qed.

(** a fill read that obtained everything it asked for, followed by read-free code, contains no short read *)
Lemma rd_full_readfree s want kd a o k e : 0 <= s_rlen s -> want <= 22 -> s_rlen s < want ->
  (forall s', readfree (kd s')) -> want - s_rlen s <= lenZ a ->
  exec (rd s want kd) a = (o, k, e) -> all_full e = true.
Proof.
  intros L0 W LT RF FU E. unfold rd in E. rewrite exec_read in E. rewrite w64s in E by (unfold W64; lia).
  destruct (exec (fill_k s want kd (takeZ (want - s_rlen s) a)) (dropZ (want - s_rlen s) a)) as [[o' k'] e'] eqn:E'.
  inversion E; subst. simpl. rewrite lenZ_takeZ.
  destruct (Z.leb_spec (want - s_rlen s) (Z.max 0 (Z.min (want - s_rlen s) (lenZ a)))); [|lia]. simpl.
  assert (R : readfree (fill_k s want kd (takeZ (want - s_rlen s) a))).
  { unfold fill_k. destruct (_ =? 0); [constructor|]. destruct (mwrite _ _ _); [|constructor].
    destruct (_ <=? _); [apply RF | constructor]. }
  exact (readfree_full _ R _ _ _ _ E').
Qed.

Lemma resume_via_rd s want kd a b o1 e1 : 0 <= s_rlen s -> want <= 22 -> s_rlen s < want -> b <> [] ->
  (forall s', readfree (kd s')) ->
  exec (rd s want kd) a = (o1, [], e1) -> all_full e1 = false ->
  (forall s1, s_rlen s1 = s_rlen s + lenZ a -> (s1 = s \/ exists rb, s1 = more s rb (lenZ a)) ->
     (forall i, 0 <= i < s_rlen s -> mread (s_rbuf s1) i = mread (s_rbuf s) i) -> socks_body s1 = rd s1 want kd) ->
  exists o2 k2 e2, exec (rd s want kd) (a ++ b) = (o2, k2, e2) /\
    match o1 with
    | None => o2 = None /\ vis vis_str e2 = vis vis_str e1
    | Some (s1, r1) => 0 <= r1 /\ exists e2', exec (socks_body s1) b = (o2, k2, e2') /\
                       vis vis_str (e1 ++ e2') = vis vis_str e2 /\ lenZ k2 < lenZ b
    end.
Proof.
  intros L0 W LT NB RF E F BODY.
  assert (SH : s_rlen s + lenZ a < want).
  { destruct (Z.lt_ge_cases (s_rlen s + lenZ a) want); auto. exfalso.
    rewrite (rd_full_readfree s want kd a _ _ _ L0 W LT RF ltac:(lia) E) in F. discriminate. }
  destruct (rd_short s want kd a b L0 W SH NB) as (o1' & e1' & E1 & o2 & k2 & e2 & E2 & M).
  rewrite E in E1. inversion E1; subst o1' e1'. clear E1.
  exists o2, k2, e2. split; [exact E2|].
  destruct o1 as [[s1 r1]|]; [|exact M].
  destruct M as (R0 & SS & RL & MR & _ & e2' & E3 & V & LK).
  split; [lia|]. exists e2'. rewrite (BODY s1 RL SS MR). auto.
Qed.

(** ** invariant and shape of the body in each state *)
Definition head_want (rb : list Z) : option Z :=
  match mread rb 0, mread rb 1, mread rb 2, mread rb 3 with
  | Some a, Some b, Some c, Some d => head_class a b c d
  | _, _, _, _ => None
  end.
Lemma head_class_cases a b c d w : head_class a b c d = Some w -> w = 10 \/ w = 22.
Proof.
  unfold head_class. destruct (a =? 5); [|discriminate]. destruct (b =? 0); [|discriminate]. destruct (c =? 0); [|discriminate].
  destruct (d =? 1); [intros E; inversion E; auto|]. destruct (d =? 4); [intros E; inversion E; auto | discriminate].
Qed.
Lemma head_want_cases rb w : head_want rb = Some w -> w = 10 \/ w = 22.
Proof.
  unfold head_want. destruct (mread rb 0); [|discriminate]. destruct (mread rb 1); [|discriminate].
  destruct (mread rb 2); [|discriminate]. destruct (mread rb 3); [|discriminate]. apply head_class_cases.
Qed.

(* the base socket is only ever dropped together with the move to the error state *)
Definition sinv (s : sst) : Prop :=
  lenZ (s_rbuf s) = 22 /\ 0 <= s_rlen s /\ (s_base s = true \/ s_state s = SK_ERROR) /\
  (s_state s = SK_INIT \/ s_state s = SK_AUTH -> s_rlen s < 2) /\
  (s_state s = SK_CONNECT -> s_rlen s < 4 \/ exists w, head_want (s_rbuf s) = Some w /\ 4 <= s_rlen s < w).

Lemma body_init s : s_state s = SK_INIT -> s_base s = true -> s_rlen s < 2 -> socks_body s = rd s 2 socks_init_done.
Proof. intros S B L. unfold socks_body. rewrite S. simpl. apply fill_rd; auto; lia. Qed.
Lemma body_auth s : s_state s = SK_AUTH -> s_base s = true -> s_rlen s < 2 -> socks_body s = rd s 2 socks_auth_done.
Proof. intros S B L. unfold socks_body. rewrite S. simpl. apply fill_rd; auto; lia. Qed.
Lemma body_head s : s_state s = SK_CONNECT -> s_base s = true -> s_rlen s < 4 -> socks_body s = rd s 4 socks_head_done.
Proof. intros S B L. unfold socks_body. rewrite S. simpl. apply fill_rd; auto; lia. Qed.
Lemma head_done_tail s w : head_want (s_rbuf s) = Some w -> s_base s = true -> s_rlen s < w ->
  socks_head_done s = rd s w socks_tail_done.
Proof.
  intros H B L. unfold socks_head_done, at_. unfold head_want in H.
  destruct (mread (s_rbuf s) 0); [|discriminate]. destruct (mread (s_rbuf s) 1); [|discriminate].
  destruct (mread (s_rbuf s) 2); [|discriminate]. destruct (mread (s_rbuf s) 3); [|discriminate].
  rewrite H. apply fill_rd; auto. destruct (head_class_cases _ _ _ _ _ H); lia.
Qed.
Lemma body_tail s w : s_state s = SK_CONNECT -> s_base s = true -> head_want (s_rbuf s) = Some w -> 4 <= s_rlen s < w ->
  socks_body s = rd s w socks_tail_done.
Proof.
  intros S B H L. unfold socks_body. rewrite S. simpl. unfold fill.
  change (22 <? 4) with false. cbv iota. destruct (Z.leb_spec 4 (s_rlen s)); [|lia].
  apply head_done_tail; auto; lia.
Qed.

Lemma rf_error s : readfree (socks_error s).
Proof. constructor. Qed.
Lemma rf_connect s : readfree (send_connect s).
Proof. repeat constructor. Qed.
Lemma rf_init_done s : readfree (socks_init_done s).
Proof.
  unfold socks_init_done, at_. cbv zeta. destruct (mread _ 0); [|constructor]. destruct (mread _ 1); [|constructor].
  destruct (_ =? 5); [|apply rf_error]. destruct (_ =? 2).
  - destruct (has_auth _); [|apply rf_error]. destruct (255 <? _); [apply rf_error|]. destruct (255 <? _); [apply rf_error|].
    repeat constructor.
  - destruct (_ =? 0); [apply rf_connect | apply rf_error].
Qed.
Lemma rf_auth_done s : readfree (socks_auth_done s).
Proof.
  unfold socks_auth_done, at_. cbv zeta. destruct (mread _ 0); [|constructor]. destruct (mread _ 1); [|constructor].
  destruct (_ && _); [apply rf_connect | apply rf_error].
Qed.
Lemma rf_tail_done s : readfree (socks_tail_done s).
Proof. unfold socks_tail_done. apply readfree_flush. constructor. Qed.

Lemma head_want_more s1 s : (forall i, 0 <= i < 4 -> mread (s_rbuf s1) i = mread (s_rbuf s) i) ->
  head_want (s_rbuf s1) = head_want (s_rbuf s).
Proof. intros H. unfold head_want. rewrite !H by lia. reflexivity. Qed.

Lemma fill_nobase s want kd kneg : s_base s = false -> readfree kneg -> readfree (kd s) -> readfree (fill s want kd kneg).
Proof.
  intros B R1 R2. unfold fill. destruct (22 <? want); [constructor|]. destruct (want <=? s_rlen s); auto. rewrite B. auto.
Qed.
Lemma head_done_nobase s : s_base s = false -> readfree (socks_head_done s).
Proof.
  intros B. unfold socks_head_done, at_. destruct (mread _ 0); [|constructor]. destruct (mread _ 1); [|constructor].
  destruct (mread _ 2); [|constructor]. destruct (mread _ 3); [|constructor].
  destruct (head_class _ _ _ _); [|apply rf_error]. apply fill_nobase; auto using rf_error, rf_tail_done.
Qed.
Lemma body_nobase s : s_base s = false -> readfree (socks_body s).
Proof.
  intros B. unfold socks_body. cbv zeta. destruct (_ =? SK_CONNECTED); [rewrite B; constructor|].
  destruct (_ =? SK_INIT); [apply fill_nobase; auto using rf_init_done; constructor|].
  destruct (_ =? SK_AUTH); [apply fill_nobase; auto using rf_auth_done; constructor|].
  destruct (_ =? SK_CONNECT); [apply fill_nobase; auto using head_done_nobase; constructor|].
  apply rf_error.
Qed.

Lemma same_ctl s s1 n : (s1 = s \/ exists rb, s1 = more s rb n) -> s_state s1 = s_state s /\ s_base s1 = s_base s.
Proof. intros [->|[rb ->]]; auto. Qed.

Lemma socks_resume : resume_ok socks_body vis_str sinv.
Proof.
  intros s a b o1 e1 (LB & L0 & CB & IA & CT) NA NB E F _. pose proof (lenZ_nonneg a) as La.
  destruct (Z.eq_dec (s_state s) SK_CONNECTED) as [SC|SC].
  { left. apply passthrough_transparent. unfold socks_body. rewrite SC. simpl.
    destruct CB as [->|X]; [reflexivity | rewrite SC in X; discriminate X]. }
  right.
  destruct (s_base s) eqn:B.
  2:{ exfalso. rewrite (readfree_full _ (body_nobase s B) _ _ _ _ E) in F. discriminate. }
  destruct (Z.eq_dec (s_state s) SK_INIT) as [S0|S0].
  { specialize (IA (or_introl S0)). rewrite body_init in * by auto.
    apply (resume_via_rd s 2 socks_init_done a b o1 e1 L0 ltac:(lia) IA NB rf_init_done E F).
    intros s1 RL SS _. destruct (same_ctl _ _ _ SS) as [X Y]. apply body_init; try congruence.
    destruct (Z.lt_ge_cases (s_rlen s + lenZ a) 2); [lia|]. exfalso.
    rewrite (rd_full_readfree s 2 _ a _ _ _ L0 ltac:(lia) IA rf_init_done ltac:(lia) E) in F. discriminate. }
  destruct (Z.eq_dec (s_state s) SK_AUTH) as [S1|S1].
  { specialize (IA (or_intror S1)). rewrite body_auth in * by auto.
    apply (resume_via_rd s 2 socks_auth_done a b o1 e1 L0 ltac:(lia) IA NB rf_auth_done E F).
    intros s1 RL SS _. destruct (same_ctl _ _ _ SS) as [X Y]. apply body_auth; try congruence.
    destruct (Z.lt_ge_cases (s_rlen s + lenZ a) 2); [lia|]. exfalso.
    rewrite (rd_full_readfree s 2 _ a _ _ _ L0 ltac:(lia) IA rf_auth_done ltac:(lia) E) in F. discriminate. }
  destruct (Z.eq_dec (s_state s) SK_CONNECT) as [S2|S2].
  2:{ exfalso. unfold socks_body in E. destruct (Z.eqb_spec (s_state s) SK_CONNECTED); [contradiction|].
      destruct (Z.eqb_spec (s_state s) SK_INIT); [contradiction|]. destruct (Z.eqb_spec (s_state s) SK_AUTH); [contradiction|].
      destruct (Z.eqb_spec (s_state s) SK_CONNECT); [contradiction|]. simpl in E. inversion E; subst. contradiction. }
  destruct (CT S2) as [L4|(w & HW & LW)].
  2:{ (* the bound address is being collected *)
      destruct (head_want_cases _ _ HW) as [W|W];
      (rewrite (body_tail s w S2 B HW LW) in *;
       apply (resume_via_rd s w socks_tail_done a b o1 e1 L0 ltac:(lia) ltac:(lia) NB rf_tail_done E F);
       intros s1 RL SS MR; destruct (same_ctl _ _ _ SS) as [X Y]; apply body_tail; try congruence;
       [ rewrite <- HW; apply head_want_more; intros i Hi; apply MR; lia
       | destruct (Z.lt_ge_cases (s_rlen s + lenZ a) w); [lia|]; exfalso;
         rewrite (rd_full_readfree s w _ a _ _ _ L0 ltac:(lia) ltac:(lia) rf_tail_done ltac:(lia) E) in F; discriminate ]). }
  (* the 4-byte head is being collected *)
  rewrite body_head in * by auto.
  destruct (Z.lt_ge_cases (s_rlen s + lenZ a) 4) as [SH|FU].
  { (* ... and is still incomplete *)
    destruct (rd_short s 4 socks_head_done a b L0 ltac:(lia) SH NB) as (o1' & e1' & E1 & o2 & k2 & e2 & E2 & M).
    rewrite E in E1. inversion E1; subst o1' e1'. exists o2, k2, e2. split; [exact E2|].
    destruct o1 as [[s1 r1]|]; [|exact M].
    destruct M as (R0 & SS & RL & MR & _ & e2' & E3 & V & LK).
    split; [lia|]. exists e2'. destruct (same_ctl _ _ _ SS) as [X Y].
    rewrite (body_head s1) by (try congruence; lia). auto. }
  (* the head is complete with this read; the short read is the one for the bound address *)
  unfold rd in E |- *. rewrite exec_read in *. rewrite w64s in * by (unfold W64; lia).
  set (req := 4 - s_rlen s) in *.
  rewrite (takeZ_app_l req a b) by (unfold req; lia). rewrite (dropZ_app_l req a b) by (unfold req; lia).
  set (d := takeZ req a) in *. set (a' := dropZ req a) in *.
  assert (Ld : lenZ d = req) by (unfold d, req; rewrite lenZ_takeZ; lia).
  pose proof (lenZ_nonneg a') as La'.
  destruct (exec (fill_k s 4 socks_head_done d) a') as [[o' k'] e'] eqn:E'.
  inversion E; subst o' k' e1. clear E.
  assert (F' : all_full e' = false).
  { simpl in F. rewrite Ld in F. rewrite Z.leb_refl in F. exact F. }
  unfold fill_k in E' |- *. destruct (Z.eqb_spec (lenZ d) 0); [unfold req in *; lia|].
  destruct (mwrite (s_rbuf s) (s_rlen s) d) as [rb|] eqn:MW.
  2:{ simpl in E'. inversion E'; subst. discriminate. }
  cbn [s_rlen upd] in *. destruct (Z.leb_spec 4 (s_rlen s + lenZ d)); [|unfold req in *; lia].
  set (s' := upd s (s_state s) (s_queue s) rb (s_rlen s + lenZ d)) in *.
  assert (RL' : s_rlen s' = 4) by (unfold s'; cbn [s_rlen upd]; unfold req in Ld; lia).
  destruct (head_want (s_rbuf s')) as [w|] eqn:HW.
  2:{ (* refused or malformed: no further read, so no short read at all *)
      exfalso. assert (RF : readfree (socks_head_done s')).
      { unfold socks_head_done, at_. unfold head_want in HW.
        destruct (mread _ 0); [|constructor]. destruct (mread _ 1); [|constructor].
        destruct (mread _ 2); [|constructor]. destruct (mread _ 3); [|constructor]. rewrite HW. apply rf_error. }
      rewrite (readfree_full _ RF _ _ _ _ E') in F'. discriminate. }
  assert (B' : s_base s' = true) by exact B.
  destruct (head_want_cases _ _ HW) as [W|W];
  (rewrite (head_done_tail s' w HW B' ltac:(lia)) in *;
   destruct (resume_via_rd s' w socks_tail_done a' b o1 e' ltac:(lia) ltac:(lia) ltac:(lia) NB rf_tail_done E' F')
     as (o2 & k2 & e2 & E2 & M);
   [ intros s1 RL SS MR; destruct (same_ctl _ _ _ SS) as [X Y]; apply body_tail;
     [ rewrite X; exact S2 | rewrite Y; exact B
     | rewrite <- HW; apply head_want_more; intros i Hi; apply MR; lia
     | destruct (Z.lt_ge_cases (s_rlen s' + lenZ a') w); [lia|]; exfalso;
       rewrite (rd_full_readfree s' w _ a' _ _ _ ltac:(lia) ltac:(lia) ltac:(lia) rf_tail_done ltac:(lia) E') in F'; discriminate ]
   | rewrite E2; exists o2, k2, (Rd false req (lenZ d) :: e2); split; [reflexivity|];
     destruct o1 as [[s1 r1]|]; [|destruct M as [-> V]; split; auto];
     destruct M as (R0 & e2' & E3 & V & LK); split; auto; exists e2'; split; [exact E3|]; split; auto ]).
Qed.

(** ** the invariant is preserved *)
Definition sP (s1 : sst) (r : Z) : Prop := 0 <= r -> sinv s1.

Lemma lv_fill_k s want kd : lenZ (s_rbuf s) = 22 -> 0 <= s_rlen s -> want <= 22 -> sinv s ->
  (forall rb n, lenZ rb = 22 -> 0 <= n -> s_rlen s + n = want ->
     (forall i, 0 <= i < s_rlen s -> mread rb i = mread (s_rbuf s) i) -> bok sP (kd (more s rb n))) ->
  (forall rb n, lenZ rb = 22 -> 0 <= n -> s_rlen s + n < want ->
     (forall i, 0 <= i < s_rlen s -> mread rb i = mread (s_rbuf s) i) -> sinv (more s rb n)) ->
  forall d, lenZ d <= want - s_rlen s -> bok sP (fill_k s want kd d).
Proof.
  intros LB L0 W22 I KD KN d BD. unfold fill_k. pose proof (lenZ_nonneg d) as Ld.
  destruct (lenZ d =? 0); [constructor; intros _; exact I|].
  destruct (mwrite (s_rbuf s) (s_rlen s) d) as [rb|] eqn:MW; [|rewrite mwrite_some in MW by lia; discriminate MW].
  assert (LR : lenZ rb = 22) by (rewrite (mwrite_len _ _ _ _ MW); exact LB).
  assert (MR : forall i, 0 <= i < s_rlen s -> mread rb i = mread (s_rbuf s) i).
  { intros i Hi. destruct (mwrite_inv _ _ _ _ MW). rewrite (mread_mwrite _ _ _ _ i MW) by lia.
    destruct (Z.leb_spec (s_rlen s) i); [lia|]. reflexivity. }
  cbn [s_rlen upd]. fold (more s rb (lenZ d)).
  destruct (Z.leb_spec want (s_rlen s + lenZ d)).
  - apply KD; auto. lia.
  - constructor. intros _. apply KN; auto.
Qed.

Lemma bl_rd s want kd : 0 <= s_rlen s -> want <= 22 -> s_rlen s < want ->
  (forall d, lenZ d <= want - s_rlen s -> bok sP (fill_k s want kd d)) -> bok sP (rd s want kd).
Proof.
  intros L0 W LT H. unfold rd. rewrite w64s by (unfold W64; lia). constructor. intros d Hd. apply H. lia.
Qed.

Lemma lv_error s : bok sP (socks_error s).
Proof. constructor. intros H; lia. Qed.

Lemma sinv_upd0 s st q rb : lenZ rb = 22 -> s_base s = true -> sinv (upd s st q rb 0).
Proof.
  intros LR B. unfold sinv, upd; cbn [s_rbuf s_rlen s_state s_base]. repeat split; auto; try lia.
Qed.

Lemma lv_connect s : lenZ (s_rbuf s) = 22 -> s_rlen s = 0 -> s_base s = true -> bok sP (send_connect s).
Proof.
  intros LB R0 B. unfold send_connect. apply bk_dn. apply bk_done. intros _. rewrite R0. apply sinv_upd0; auto.
Qed.
Lemma lv_tail_done s : lenZ (s_rbuf s) = 22 -> s_base s = true -> bok sP (socks_tail_done s).
Proof.
  intros LB B. unfold socks_tail_done. apply flush_queue_bok. constructor. intros _. apply sinv_upd0; auto.
Qed.

(* the code that runs once the 4-byte head is there *)
Lemma lv_head_done s : lenZ (s_rbuf s) = 22 -> s_base s = true -> s_state s = SK_CONNECT ->
  (forall w, head_want (s_rbuf s) = Some w -> 4 <= s_rlen s < w \/ s_rlen s = 4) -> bok sP (socks_head_done s).
Proof.
  intros LB B ST HR. unfold socks_head_done, at_.
  destruct (mread_some (s_rbuf s) 0 ltac:(lia)) as [d0 M0]. destruct (mread_some (s_rbuf s) 1 ltac:(lia)) as [d1 M1].
  destruct (mread_some (s_rbuf s) 2 ltac:(lia)) as [d2 M2]. destruct (mread_some (s_rbuf s) 3 ltac:(lia)) as [d3 M3].
  rewrite M0, M1, M2, M3.
  destruct (head_class d0 d1 d2 d3) as [w|] eqn:HC; [|apply lv_error].
  assert (HW : head_want (s_rbuf s) = Some w) by (unfold head_want; rewrite M0, M1, M2, M3; exact HC).
  assert (W : w = 10 \/ w = 22) by (eapply head_class_cases; eauto).
  assert (LT : 4 <= s_rlen s < w) by (destruct (HR w HW); lia).
  rewrite (fill_rd s w) by (auto; lia). apply bl_rd; try lia.
  assert (I : sinv s).
  { unfold sinv. repeat split; auto; try lia.
    - intros [X|X]; rewrite ST in X; discriminate X.
    - intros _. right. exists w. auto. }
  apply lv_fill_k; auto; try lia.
  - intros rb n LR N0 WN MR. apply lv_tail_done; auto.
  - intros rb n LR N0 WN MR. unfold sinv, more, upd; cbn [s_rbuf s_rlen s_state s_base].
    repeat split; auto; try lia.
    + intros [X|X]; rewrite ST in X; discriminate X.
    + intros _. right. exists w. split; [|lia]. rewrite <- HW. unfold head_want. rewrite !MR by lia. reflexivity.
Qed.

Lemma socks_leaves s : sinv s -> bok sP (socks_body s).
Proof.
  intros I. pose proof I as (LB & L0 & CB & IA & CT).
  unfold socks_body. cbv zeta.
  destruct (Z.eqb_spec (s_state s) SK_CONNECTED) as [SC|SC].
  { destruct (s_base s); [|constructor; intros H; lia]. unfold passthrough. constructor. intros d _.
    destruct (_ =? 0); repeat (apply bk_up || apply bk_done); intros _; exact I. }
  destruct (Z.eqb_spec (s_state s) SK_INIT) as [S0|S0].
  { destruct CB as [B|X]; [|rewrite S0 in X; discriminate X]. specialize (IA (or_introl S0)).
    rewrite fill_rd by (auto; lia). apply bl_rd; try lia. apply lv_fill_k; auto; try lia.
    - intros rb n LR N0 WN MR. unfold socks_init_done, at_. cbv zeta. cbn [s_rbuf more upd].
      destruct (mread_some rb 0 ltac:(lia)) as [d0 ->]. destruct (mread_some rb 1 ltac:(lia)) as [d1 ->].
      destruct (_ =? 5); [|apply lv_error]. destruct (_ =? 2).
      + destruct (has_auth _); [|apply lv_error]. destruct (255 <? _); [apply lv_error|]. destruct (255 <? _); [apply lv_error|].
        apply bk_dn. apply bk_done. intros _. apply sinv_upd0; auto.
      + destruct (_ =? 0); [|apply lv_error]. apply lv_connect; auto.
    - intros rb n LR N0 WN MR. unfold sinv, more, upd; cbn [s_rbuf s_rlen s_state s_base].
      repeat split; auto; try lia; try (intros X; rewrite S0 in X; discriminate X). }
  destruct (Z.eqb_spec (s_state s) SK_AUTH) as [S1|S1].
  { destruct CB as [B|X]; [|rewrite S1 in X; discriminate X]. specialize (IA (or_intror S1)).
    rewrite fill_rd by (auto; lia). apply bl_rd; try lia. apply lv_fill_k; auto; try lia.
    - intros rb n LR N0 WN MR. unfold socks_auth_done, at_. cbv zeta. cbn [s_rbuf more upd].
      destruct (mread_some rb 0 ltac:(lia)) as [d0 ->]. destruct (mread_some rb 1 ltac:(lia)) as [d1 ->].
      destruct (_ && _); [|apply lv_error]. apply lv_connect; auto.
    - intros rb n LR N0 WN MR. unfold sinv, more, upd; cbn [s_rbuf s_rlen s_state s_base].
      repeat split; auto; try lia; try (intros X; rewrite S1 in X; discriminate X). }
  destruct (Z.eqb_spec (s_state s) SK_CONNECT) as [S2|S2]; [|apply lv_error].
  destruct CB as [B|X]; [|rewrite S2 in X; discriminate X].
  destruct (CT S2) as [L4|(w & HW & LW)].
  - rewrite fill_rd by (auto; lia). apply bl_rd; try lia. apply lv_fill_k; auto; try lia.
    + intros rb n LR N0 WN MR. apply lv_head_done; auto; intros w HW; right; cbn [s_rlen more upd]; lia.
    + intros rb n LR N0 WN MR. unfold sinv, more, upd; cbn [s_rbuf s_rlen s_state s_base].
      repeat split; auto; try lia; try (intros [X|X]; rewrite S2 in X; discriminate X).
  - unfold fill. change (22 <? 4) with false. cbv iota. destruct (Z.leb_spec 4 (s_rlen s)); [|lia].
    apply lv_head_done; auto. intros w' HW'. left. rewrite HW in HW'. inversion HW'; subst. exact LW.
Qed.

Lemma socks_inv_step s kb s1 r k e : sinv s -> exec (socks_body s) kb = (Some (s1, r), k, e) -> 0 <= r -> sinv s1.
Proof. intros I E R. destruct (bok_exec sP _ (socks_leaves s I) _ _ _ _ E) as (s' & r' & X & Y). inversion X; subst. auto. Qed.

Lemma sinv_init u p a : sinv (socks_init u p a).
Proof.
  unfold sinv, socks_init; cbn [s_rbuf s_rlen s_state s_base]. rewrite lenZ_repZ.
  repeat split; auto; try lia; try (intros X; discriminate X).
Qed.

(** every read of the layer is resumable, no defective path exists: every run is clean *)
Lemma socks_lax s : lax (socks_body s).
Proof.
  assert (ER : forall x, lax (socks_error x)) by (intros; constructor).
  assert (SC : forall x, lax (send_connect x)) by (intros; repeat constructor).
  assert (TD : forall x, lax (socks_tail_done x)) by (intros; unfold socks_tail_done; apply flush_queue_lax; constructor).
  assert (FK : forall x want kd, (forall y, lax (kd y)) -> forall d, lax (fill_k x want kd d)).
  { intros. unfold fill_k. destruct (_ =? 0); [constructor|]. destruct (mwrite _ _ _); [|constructor]. destruct (_ <=? _); [auto | constructor]. }
  assert (FL : forall x want kd kneg, (forall y, lax (kd y)) -> lax kneg -> lax (fill x want kd kneg)).
  { intros. unfold fill. destruct (22 <? want); [constructor|]. destruct (_ <=? _); auto. destruct (s_base x); auto.
    constructor. apply FK; auto. }
  assert (ID : forall x, lax (socks_init_done x)).
  { intros. unfold socks_init_done, at_. cbv zeta. destruct (mread _ 0); [|constructor]. destruct (mread _ 1); [|constructor].
    destruct (_ =? 5); auto. destruct (_ =? 2).
    - destruct (has_auth _); auto. destruct (255 <? _); auto. destruct (255 <? _); auto. repeat constructor.
    - destruct (_ =? 0); auto. }
  assert (AD : forall x, lax (socks_auth_done x)).
  { intros. unfold socks_auth_done, at_. cbv zeta. destruct (mread _ 0); [|constructor]. destruct (mread _ 1); [|constructor].
    destruct (_ && _); auto. }
  assert (HD : forall x, lax (socks_head_done x)).
  { intros. unfold socks_head_done, at_. destruct (mread _ 0); [|constructor]. destruct (mread _ 1); [|constructor].
    destruct (mread _ 2); [|constructor]. destruct (mread _ 3); [|constructor]. destruct (head_class _ _ _ _); auto. }
  unfold socks_body. cbv zeta. destruct (_ =? SK_CONNECTED).
  { destruct (s_base s); [apply passthrough_lax | constructor]. }
  destruct (_ =? SK_INIT); [apply FL; auto; constructor|].
  destruct (_ =? SK_AUTH); [apply FL; auto; constructor|].
  destruct (_ =? SK_CONNECT); [apply FL; auto; constructor|]. auto.
Qed.

Theorem socks_seg_independent s cs : sinv s ->
  weq (fst (run socks_body (alive s) cs)) (fst (feed socks_body (alive s) (concat cs))) /\
  vis vis_str (snd (run socks_body (alive s) cs)) = vis vis_str (snd (feed socks_body (alive s) (concat cs))).
Proof.
  intros I.
  apply (run_seg_independent socks_body vis_str sinv socks_inv_step socks_resume cs (alive s) I).
  apply run_clean. intros s0 kb o k e E. exact (lax_clean _ (socks_lax s0) _ _ _ _ E).
Qed.

Theorem socks_tunnel_transparent s cs : s_state s = SK_CONNECTED -> s_base s = true ->
  fst (run socks_body (alive s) cs) = alive s /\
  vis vis_str (snd (run socks_body (alive s) cs)) = map OByte (concat cs).
Proof.
  intros H B. apply transparent_run. apply passthrough_transparent. unfold socks_body. rewrite H, B. reflexivity.
Qed.

Lemma socks_send_transparent s rel bufs : s_state s = SK_CONNECTED -> s_base s = true ->
  socks_send s rel bufs = (s, [Dn (concat bufs); Snd 1]).
Proof. intros H B. unfold socks_send. rewrite H, B. reflexivity. Qed.

(** ** no Fault, no spinning *)
Lemma socks_call_ok s kb o k e : sinv s -> kb <> [] -> exec (socks_body s) kb = (o, k, e) -> Forall (fun _ => True) e ->
  match o with None => False | Some (s1, r) => 0 <= r -> sinv s1 /\ lenZ k < lenZ kb end.
Proof.
  intros I N E _. destruct (bok_exec sP _ (socks_leaves s I) _ _ _ _ E) as (s1 & r & -> & P).
  intros R. split; [exact (P R)|].
  pose proof I as (LB & L0 & CB & IA & CT). pose proof (lenZ_pos kb N) as Lk.
  destruct (Z.eq_dec (s_state s) SK_CONNECTED) as [SC|SC].
  { unfold socks_body in E. rewrite SC in E. simpl in E.
    destruct CB as [B|X]; [|rewrite SC in X; discriminate X]. rewrite B in E.
    rewrite exec_passthrough in E by auto. inversion E; subst. rewrite lenZ_dropZ. unfold UPCAP. lia. }
  destruct (s_base s) eqn:B.
  2:{ (* error state *)
      destruct CB as [X|X]; [discriminate X|]. unfold socks_body in E. rewrite X in E. simpl in E. inversion E; subst. lia. }
  assert (RDP : forall want kd, want <= 22 -> s_rlen s < want -> exec (rd s want kd) kb = (Some (s1, r), k, e) -> lenZ k < lenZ kb).
  { intros want kd W LT EX. unfold rd in EX. eapply read_progress; [| |exact EX]; auto. rewrite w64s by (unfold W64; lia). lia. }
  destruct (Z.eq_dec (s_state s) SK_INIT) as [S0|S0].
  { specialize (IA (or_introl S0)). rewrite body_init in E by auto. eapply RDP; [| |exact E]; lia. }
  destruct (Z.eq_dec (s_state s) SK_AUTH) as [S1|S1].
  { specialize (IA (or_intror S1)). rewrite body_auth in E by auto. eapply RDP; [| |exact E]; lia. }
  destruct (Z.eq_dec (s_state s) SK_CONNECT) as [S2|S2].
  - destruct (CT S2) as [L4|(w & HW & LW)].
    + rewrite body_head in E by auto. eapply RDP; [| |exact E]; lia.
    + rewrite (body_tail s w) in E by auto. destruct (head_want_cases _ _ HW); eapply RDP; [| |exact E| | |exact E]; lia.
  - unfold socks_body in E. destruct (Z.eqb_spec (s_state s) SK_CONNECTED); [contradiction|].
    destruct (Z.eqb_spec (s_state s) SK_INIT); [contradiction|]. destruct (Z.eqb_spec (s_state s) SK_AUTH); [contradiction|].
    destruct (Z.eqb_spec (s_state s) SK_CONNECT); [contradiction|]. simpl in E. inversion E; subst. lia.
Qed.

Theorem socks_no_fault s cs : sinv s ->
  ~ In EFault (snd (run socks_body (alive s) cs)) /\ ~ In ELive (snd (run socks_body (alive s) cs)).
Proof.
  intros I.
  destruct (run_ok socks_body sinv (fun _ => True) socks_call_ok cs (alive s)
              (fun _ => I) ltac:(discriminate) ltac:(discriminate)) as (A & B & _); auto.
  apply Forall_forall. auto.
Qed.
