(** Segmentation independence of the HTTP CONNECT model (for runs in which the hand-over fits the caller's buffer;
    HttpSmallProofs.v removes that proviso for streams of at most UPCAP bytes).
    Stage A: every definite decision of the reply parser (consume n bytes / error) persists when the ring holds
    more bytes that extend the same content (prefix stability). *)
From Coq Require Import ZArith List Bool Lia.
From Nice Require Import Stream.StreamBase Stream.StreamProofs Stream.TcpQueueModel Stream.PsslModel Stream.HttpModel
  Stream.ProxyProofs Stream.HttpProofs.
Import ListNotations.
Local Open Scope Z_scope.

Section Ext.
(* two rings; the second one shows the same bytes on [0, fill) and possibly more *)
Variables (buf : list Z) (L pos fill : Z) (buf' : list Z) (L' pos' fill' : Z).
Hypothesis Lpos : 0 < L.  Hypothesis Lbuf : lenZ buf = L.
Hypothesis Lpos' : 0 < L'. Hypothesis Lbuf' : lenZ buf' = L'.
Hypothesis FF : fill <= fill'.
Hypothesis VIEW : forall p, 0 <= p < fill -> gb buf L pos p = gb buf' L' pos' p.

Lemma eat_ws_ext : forall fuel fuel' p q, 0 <= p -> (Z.to_nat (fill' - p) < fuel')%nat ->
  eat_ws buf L pos fill fuel p = PrOk q -> eat_ws buf' L' pos' fill' fuel' p = PrOk q.
Proof.
  induction fuel as [|f IH]; intros fuel' p q P F' E; [discriminate|]. simpl in E.
  destruct (Z.ltb_spec p fill); [|discriminate].
  destruct fuel' as [|f']; [lia|]. simpl.
  destruct (Z.ltb_spec p fill'); [|lia]. rewrite <- VIEW by lia.
  destruct (gb buf L pos p) as [c|]; [|discriminate].
  destruct (c =? 32); [|exact E]. eapply IH; eauto; lia.
Qed.

Lemma skip_line_ext : forall fuel fuel' p q, 0 <= p -> (Z.to_nat (fill' - p) < fuel')%nat ->
  skip_line buf L pos fill fuel p = PrOk q -> q + 1 < fill -> skip_line buf' L' pos' fill' fuel' p = PrOk q.
Proof.
  induction fuel as [|f IH]; intros fuel' p q P F' E Q; [discriminate|]. simpl in E.
  destruct fuel' as [|f']; [lia|]. simpl.
  destruct (Z.ltb_spec (p + 1) fill).
  - destruct (Z.ltb_spec (p + 1) fill'); [|lia]. rewrite <- !VIEW by lia.
    destruct (gb buf L pos p) as [c|]; [|discriminate]. destruct (c =? 13); [exact E|].
    destruct (gb buf L pos (p + 1)) as [c'|]; [|discriminate]. destruct (c' =? 10); [exact E|].
    eapply IH; eauto; lia.
  - inversion E; subst. lia.
Qed.

Lemma match_exact_ext : forall pat p b, 0 <= p -> p + lenZ pat <= fill ->
  match_exact buf L pos p pat = PrOk b -> match_exact buf' L' pos' p pat = PrOk b.
Proof.
  induction pat as [|c t IH]; intros p b P Q E; simpl in *; auto. lz.
  pose proof (lenZ_nonneg t). rewrite <- VIEW by lia.
  destruct (gb buf L pos p) as [x|]; [|discriminate]. destruct (x =? c); [|exact E]. apply IH; auto; lia.
Qed.
Lemma match_ci_ext : forall pat p b, 0 <= p -> p + lenZ pat <= fill ->
  match_ci buf L pos p pat = PrOk b -> match_ci buf' L' pos' p pat = PrOk b.
Proof.
  induction pat as [|c t IH]; intros p b P Q E; simpl in *; auto. lz.
  pose proof (lenZ_nonneg t). rewrite <- VIEW by lia.
  destruct (gb buf L pos p) as [x|]; [|discriminate].
  destruct ((x =? c) || ((97 <=? c) && (c <=? 122) && (x =? c - 32))); [|exact E]. apply IH; auto; lia.
Qed.

(** a digit loop that did not touch a stale slot and came to a decision decides the same with more bytes *)
Lemma digits_ext : forall fuel fuel' p cl r, 0 <= p -> (Z.to_nat (fill' + 1 - p) < fuel')%nat ->
  digits buf L pos fill fuel p cl false = (r, false) ->
  match r with DNeed _ | DFault => True | _ => digits buf' L' pos' fill' fuel' p cl false = (r, false) end.
Proof.
  induction fuel as [|f IH]; intros fuel' p cl r P F' E.
  { simpl in E. inversion E; subst; auto. }
  simpl in E. destruct (Z.leb_spec fill p) as [ST|ST]; simpl in E.
  { (* this read was stale: the flag is true from here on *)
    exfalso. clear IH.
    assert (T : forall f0 p0 cl0, snd (digits buf L pos fill f0 p0 cl0 true) = true).
    { induction f0; intros; simpl; auto. destruct (gb buf L pos p0); simpl; auto.
      destruct (z =? 13); simpl; auto. destruct (negb (is_digit z)); simpl; auto.
      destruct (_ || _); simpl; auto. destruct (fill <=? p0 + 1); simpl; auto. }
    destruct (gb buf L pos p) as [c|]; [|inversion E].
    destruct (c =? 13); [inversion E|]. destruct (negb (is_digit c)); [inversion E|].
    destruct (_ || _); [inversion E|]. destruct (fill <=? p + 1); [inversion E|].
    pose proof (T f (p + 1) (cl * 10 + (c - 48))) as T'. rewrite E in T'. discriminate T'. }
  destruct fuel' as [|f']; [lia|]. simpl.
  destruct (Z.leb_spec fill' p); [lia|]. simpl. rewrite <- VIEW by lia.
  destruct (gb buf L pos p) as [c|]; [|inversion E; subst; auto].
  destruct (c =? 13); [inversion E; subst; reflexivity|].
  destruct (negb (is_digit c)); [inversion E; subst; reflexivity|].
  destruct ((MAXSIZE / 10 <? cl) || (MAXSIZE - (c - 48) <? cl * 10)); [inversion E; subst; reflexivity|].
  destruct (Z.leb_spec fill (p + 1)); [inversion E; subst; exact I|].
  destruct (Z.leb_spec fill' (p + 1)); [lia|].
  apply (IH f' (p + 1)); auto; lia.
Qed.

Lemma fuel_ok' p : 0 <= p -> (Z.to_nat (fill' - p) < fuel_of fill')%nat.
Proof. intros. unfold fuel_of. lia. Qed.

Lemma hdr_finish_ext p cl st n cl1 st1 : 0 <= p ->
  hdr_finish buf L pos fill p cl st = (PrOk n, cl1, st1) -> hdr_finish buf' L' pos' fill' p cl st = (PrOk n, cl1, st1).
Proof.
  intros P E. unfold hdr_finish in *.
  destruct (skip_line buf L pos fill (fuel_of fill) p) as [| | |p4] eqn:S; try (inversion E; fail).
  destruct (Z.leb_spec fill (p4 + 1)); [inversion E|]. inversion E; subst n cl1 st1.
  rewrite (skip_line_ext _ _ p p4 P (fuel_ok' p P) S) by lia.
  destruct (Z.leb_spec fill' (p4 + 1)); [lia|]. reflexivity.
Qed.
Lemma skip_line_shape : forall fuel p, match skip_line buf L pos fill fuel p with PrErr | PrNeed => False | _ => True end.
Proof.
  induction fuel as [|f IH]; intros p; simpl; auto.
  destruct (p + 1 <? fill); auto. destruct (gb buf L pos p) as [c|]; auto. destruct (c =? 13); auto.
  destruct (gb buf L pos (p + 1)) as [c'|]; auto. destruct (c' =? 10); auto. apply IH.
Qed.
Lemma eat_ws_shape : forall fuel p, eat_ws buf L pos fill fuel p <> PrErr.
Proof.
  induction fuel as [|f IH]; intros p; simpl; [discriminate|].
  destruct (p <? fill); [|discriminate]. destruct (gb buf L pos p) as [c|]; [|discriminate].
  destruct (c =? 32); [apply IH | discriminate].
Qed.
Lemma match_exact_shape : forall pat p, match match_exact buf L pos p pat with PrErr | PrNeed => False | _ => True end.
Proof.
  induction pat as [|c t IH]; intros p; simpl; auto.
  destruct (gb buf L pos p) as [x|]; auto. destruct (x =? c); auto. apply IH.
Qed.
Lemma match_ci_shape : forall pat p, match match_ci buf L pos p pat with PrErr | PrNeed => False | _ => True end.
Proof.
  induction pat as [|c t IH]; intros p; simpl; auto.
  destruct (gb buf L pos p) as [x|]; auto. destruct (_ || _); auto. apply IH.
Qed.
Lemma hdr_finish_no_err p cl st cl1 st1 : hdr_finish buf L pos fill p cl st <> (PrErr, cl1, st1).
Proof.
  unfold hdr_finish. pose proof (skip_line_shape (fuel_of fill) p) as S.
  destruct (skip_line buf L pos fill (fuel_of fill) p) as [| | |p4]; try contradiction; try discriminate.
  destruct (fill <=? p4 + 1); discriminate.
Qed.

Lemma parse_init_ext r : parse_init buf L pos fill = r ->
  match r with PrOk _ | PrErr => parse_init buf' L' pos' fill' = r | _ => True end.
Proof.
  intros E. unfold parse_init in E.
  pose proof (eat_ws_shape (fuel_of fill) 0) as SH0.
  destruct (eat_ws buf L pos fill (fuel_of fill) 0) as [| | |p0] eqn:E0; try (subst r; exact I); try (exfalso; exact (SH0 eq_refl)).
  pose proof (eat_ws_ok buf L pos fill Lpos Lbuf (fuel_of fill) 0 ltac:(lia) ltac:(unfold fuel_of; lia)) as B0.
  rewrite E0 in B0.
  assert (E0' := eat_ws_ext _ _ 0 p0 ltac:(lia) (fuel_ok' 0 ltac:(lia)) E0).
  unfold parse_init. rewrite E0'.
  destruct (Z.ltb_spec fill (p0 + 7)); [subst r; exact I|].
  destruct (Z.ltb_spec fill' (p0 + 7)); [lia|].
  pose proof (match_exact_shape [72; 84; 84; 80; 47; 49; 46] p0) as SHM.
  destruct (match_exact buf L pos p0 [72; 84; 84; 80; 47; 49; 46]) as [| | |b] eqn:M; try (subst r; exact I); try contradiction.
  assert (Q7 : p0 + lenZ [72; 84; 84; 80; 47; 49; 46] <= fill) by (change (lenZ [72; 84; 84; 80; 47; 49; 46]) with 7; lia).
  assert (Q0 : 0 <= p0) by lia.
  rewrite (match_exact_ext _ p0 b Q0 Q7 M).
  destruct b; [|subst r; reflexivity].
  destruct (Z.leb_spec fill (p0 + 7)); [subst r; exact I|].
  destruct (Z.leb_spec fill' (p0 + 7)); [lia|].
  rewrite <- VIEW by lia.
  destruct (gb buf L pos (p0 + 7)) as [v|]; [|subst r; exact I].
  destruct (negb (v =? 48) && negb (v =? 49)); [subst r; reflexivity|].
  destruct (Z.leb_spec fill (p0 + 7 + 1)); [subst r; exact I|].
  destruct (Z.leb_spec fill' (p0 + 7 + 1)); [lia|].
  rewrite <- VIEW by lia.
  destruct (gb buf L pos (p0 + 7 + 1)) as [sp|]; [|subst r; exact I].
  destruct (negb (sp =? 32)); [subst r; reflexivity|].
  pose proof (eat_ws_shape (fuel_of fill) (p0 + 7 + 1)) as SH3.
  destruct (eat_ws buf L pos fill (fuel_of fill) (p0 + 7 + 1)) as [| | |p3] eqn:E3; try (subst r; exact I); try (exfalso; exact (SH3 eq_refl)).
  assert (Q1 : 0 <= p0 + 7 + 1) by lia.
  pose proof (eat_ws_ok buf L pos fill Lpos Lbuf (fuel_of fill) _ Q1 ltac:(unfold fuel_of; lia)) as B3.
  rewrite E3 in B3.
  rewrite (eat_ws_ext _ _ _ p3 Q1 (fuel_ok' _ Q1) E3).
  destruct (Z.ltb_spec fill (p3 + 3)); [subst r; exact I|].
  destruct (Z.ltb_spec fill' (p3 + 3)); [lia|].
  rewrite <- !VIEW by lia.
  destruct (gb buf L pos p3) as [a|]; [|subst r; exact I].
  destruct (gb buf L pos (p3 + 1)) as [b|]; [|subst r; exact I].
  destruct (gb buf L pos (p3 + 2)) as [c|]; [|subst r; exact I].
  destruct (negb (a =? 50) || negb (is_digit b) || negb (is_digit c)); [subst r; reflexivity|].
  pose proof (skip_line_shape (fuel_of fill) p3) as SHS.
  destruct (skip_line buf L pos fill (fuel_of fill) p3) as [| | |p4] eqn:S; try (subst r; exact I); try contradiction.
  destruct (Z.leb_spec fill (p4 + 1)); [subst r; exact I|].
  assert (Q3 : 0 <= p3) by lia.
  rewrite (skip_line_ext _ _ p3 p4 Q3 (fuel_ok' p3 Q3) S) by lia.
  destruct (Z.leb_spec fill' (p4 + 1)); [lia|]. subst r. reflexivity.
Qed.

Lemma skip_line_stop : forall fuel p q, skip_line buf L pos fill fuel p = PrOk q -> q + 1 < fill ->
  p <= q /\ (gb buf L pos q = Some 13 \/ gb buf L pos (q + 1) = Some 10).
Proof.
  induction fuel as [|f IH]; intros p q E Q; [discriminate|]. simpl in E.
  destruct (Z.ltb_spec (p + 1) fill).
  - destruct (gb buf L pos p) as [c|] eqn:G1; [|discriminate].
    destruct (Z.eqb_spec c 13); [inversion E; subst q c; split; [lia|auto]|].
    destruct (gb buf L pos (p + 1)) as [c'|] eqn:G2; [|discriminate].
    destruct (Z.eqb_spec c' 10); [inversion E; subst q c'; split; [lia|auto]|].
    destruct (IH _ _ E Q). split; [lia|auto].
  - inversion E; subst q. lia.
Qed.

Definition ci_ok (x c : Z) : bool := (x =? c) || ((97 <=? c) && (c <=? 122) && (x =? c - 32)).
Lemma match_ci_pos : forall pat p q x, match_ci buf' L' pos' p pat = PrOk true -> p <= q < p + lenZ pat ->
  gb buf' L' pos' q = Some x -> exists c, In c pat /\ ci_ok x c = true.
Proof.
  induction pat as [|c t IH]; intros p q x M Q G; simpl in M; lz; [lia|].
  destruct (gb buf' L' pos' p) as [y|] eqn:Gp; [|discriminate].
  destruct ((y =? c) || ((97 <=? c) && (c <=? 122) && (y =? c - 32))) eqn:B; [|discriminate].
  destruct (Z.eq_dec q p).
  - subst q. rewrite Gp in G. inversion G; subst y. exists c. split; [left; auto | exact B].
  - destruct (IH (p + 1) q x M ltac:(lia) G) as (c0 & I0 & B0). exists c0. split; [right; auto | auto].
Qed.
Lemma cl_no_eol x : x = 13 \/ x = 10 -> forall c, In c CONTENT_LENGTH -> ci_ok x c = false.
Proof.
  intros X c I. unfold CONTENT_LENGTH in I. simpl in I.
  destruct X; subst x; repeat (destruct I as [I|I]; [subst c; reflexivity|]); contradiction.
Qed.

Lemma parse_header_ext cl r cl1 : parse_header buf L pos fill cl = (r, cl1, false) ->
  match r with PrOk _ | PrErr => parse_header buf' L' pos' fill' cl = (r, cl1, false) | _ => True end.
Proof.
  intros E. unfold parse_header in *. cbv zeta in *.
  assert (FIN : forall p c st, 0 <= p -> hdr_finish buf L pos fill p c st = (r, cl1, false) ->
            match r with PrOk _ | PrErr => hdr_finish buf' L' pos' fill' p c st = (r, cl1, false) | _ => True end).
  { intros p c st P H. destruct r as [| | |n]; auto.
    - exfalso. exact (hdr_finish_no_err _ _ _ _ _ H).
    - exact (hdr_finish_ext _ _ _ _ _ _ P H). }
  destruct (Z.ltb_spec 15 fill) as [F15|F15].
  - destruct (Z.ltb_spec 15 fill'); [|lia].
    pose proof (match_ci_shape CONTENT_LENGTH 0) as SHM.
    destruct (match_ci buf L pos 0 CONTENT_LENGTH) as [| | |b] eqn:M; try contradiction.
    { inversion E; subst r; exact I. }
    assert (Q15 : 0 + lenZ CONTENT_LENGTH <= fill) by (change (lenZ CONTENT_LENGTH) with 15; lia).
    rewrite (match_ci_ext _ 0 b ltac:(lia) Q15 M).
    destruct b; [|apply FIN; [lia | exact E]].
    pose proof (eat_ws_shape (fuel_of fill) 15) as SH.
    destruct (eat_ws buf L pos fill (fuel_of fill) 15) as [| | |p] eqn:EW;
      try (inversion E; subst r; exact I); try (exfalso; exact (SH eq_refl)).
    assert (Q : 0 <= 15) by lia.
    pose proof (eat_ws_ok buf L pos fill Lpos Lbuf (fuel_of fill) 15 Q ltac:(unfold fuel_of; lia)) as B.
    rewrite EW in B.
    rewrite (eat_ws_ext _ _ 15 p Q (fuel_ok' 15 Q) EW).
    destruct (digits buf L pos fill (fuel_of fill) p 0 false) as [dr st] eqn:D.
    assert (st = false).
    { destruct dr; try (inversion E; auto; fail).
      unfold hdr_finish in E. destruct (skip_line buf L pos fill (fuel_of fill) p0); try (inversion E; auto; fail).
      destruct (fill <=? a + 1); inversion E; auto. }
    subst st.
    assert (Pp : 0 <= p) by lia.
    assert (FU : (Z.to_nat (fill' + 1 - p) < fuel_of fill')%nat) by (unfold fuel_of; lia).
    pose proof (digits_ext (fuel_of fill) (fuel_of fill') p 0 dr Pp FU D) as DE.
    pose proof (digits_ok buf L pos fill Lpos Lbuf (fuel_of fill) p 0 false ltac:(lia) ltac:(lia) ltac:(unfold fuel_of; lia)) as DK.
    rewrite D in DK. simpl in DK.
    destruct dr as [p' cl'|cl'| |].
    + rewrite DE. apply FIN; [lia | exact E].
    + inversion E; subst r; exact I.
    + rewrite DE. inversion E; subst r cl1. reflexivity.
    + inversion E; subst r; exact I.
  - (* at most 15 bytes: the line is searched from its start *)
    destruct r as [| | |n]; auto.
    { exfalso. exact (hdr_finish_no_err _ _ _ _ _ E). }
    assert (Z0 : 0 <= 0) by lia.
    destruct (Z.ltb_spec 15 fill') as [F15'|F15']; [|exact (hdr_finish_ext 0 _ _ _ _ _ Z0 E)].
    pose proof (match_ci_ok buf' L' pos' Lpos' Lbuf' CONTENT_LENGTH 0) as MK.
    destruct (match_ci buf' L' pos' 0 CONTENT_LENGTH) as [| | |b] eqn:M'; try contradiction.
    destruct b; [|exact (hdr_finish_ext 0 _ _ _ _ _ Z0 E)].
    exfalso. unfold hdr_finish in E.
    destruct (skip_line buf L pos fill (fuel_of fill) 0) as [| | |p4] eqn:S; try (inversion E; fail).
    destruct (Z.leb_spec fill (p4 + 1)); [inversion E|].
    assert (Q4 : p4 + 1 < fill) by lia.
    destruct (skip_line_stop _ _ _ S Q4) as [P4 [G|G]].
    + rewrite VIEW in G by lia.
      assert (R4 : 0 <= p4 < 0 + lenZ CONTENT_LENGTH) by (change (lenZ CONTENT_LENGTH) with 15; lia).
      destruct (match_ci_pos CONTENT_LENGTH 0 p4 13 M' R4 G) as (c & I & B).
      rewrite (cl_no_eol 13 (or_introl eq_refl) c I) in B. discriminate.
    + rewrite VIEW in G by lia.
      assert (R4 : 0 <= p4 + 1 < 0 + lenZ CONTENT_LENGTH) by (change (lenZ CONTENT_LENGTH) with 15; lia).
      destruct (match_ci_pos CONTENT_LENGTH 0 (p4 + 1) 10 M' R4 G) as (c & I & B).
      rewrite (cl_no_eol 10 (or_intror eq_refl) c I) in B. discriminate.
Qed.
End Ext.

(** * Stage B: the ring buffer as a list.  [ring_u buf pos fill] is the logical content of the ring. *)
Definition ring_u (buf : list Z) (pos fill : Z) : list Z := takeZ fill (dropZ pos buf ++ buf).

Lemma lenZ_ring_u buf pos fill : 0 <= pos -> pos <= lenZ buf -> 0 <= fill <= lenZ buf -> lenZ (ring_u buf pos fill) = fill.
Proof.
  intros. unfold ring_u. rewrite lenZ_takeZ, lenZ_app, lenZ_dropZ. lia.
Qed.

(** what GET_BYTE sees is the logical content *)
Lemma gb_ring buf L pos fill p : lenZ buf = L -> 0 <= pos < L -> 0 <= fill <= L -> 0 <= p < fill ->
  gb buf L pos p = mread (ring_u buf pos fill) p.
Proof.
  intros LB P F Pp. unfold gb, ring_u. rewrite mread_takeZ by lia.
  assert (LD : lenZ (dropZ pos buf) = L - pos) by (rewrite lenZ_dropZ; lia).
  destruct (Z.lt_ge_cases (p + pos) L).
  - rewrite Z.mod_small by lia. rewrite mread_app_l by lia. rewrite mread_dropZ by lia. f_equal. lia.
  - assert (E : (p + pos) mod L = p + pos - L) by (symmetry; apply Z.mod_unique with 1; lia).
    rewrite E. rewrite mread_app_r by lia. f_equal. lia.
Qed.

(** the list ring: a ring that holds exactly [U], unwrapped *)
Lemma gb_lring U p : 0 <= p < lenZ U -> gb (U ++ [0]) (lenZ U + 1) 0 p = mread U p.
Proof.
  intros. unfold gb. rewrite Z.add_0_r. rewrite Z.mod_small by lia. apply mread_app_l. lia.
Qed.

(** consuming n bytes *)
Lemma ring_consume buf L pos fill n : lenZ buf = L -> 0 <= pos < L -> 0 <= fill <= L -> 0 <= n <= fill ->
  ring_u buf ((pos + n) mod L) (fill - n) = dropZ n (ring_u buf pos fill).
Proof.
  intros LB P F N. unfold ring_u. rewrite dropZ_takeZ by lia.
  assert (LD : lenZ (dropZ pos buf) = L - pos) by (rewrite lenZ_dropZ; lia).
  destruct (Z.lt_ge_cases (pos + n) L).
  - rewrite Z.mod_small by lia. rewrite dropZ_app_l by lia. rewrite dropZ_dropZ by lia. reflexivity.
  - assert (E : (pos + n) mod L = pos + n - L) by (symmetry; apply Z.mod_unique with 1; lia).
    rewrite E. rewrite (dropZ_app_r n) by lia. rewrite LD.
    replace (n - (L - pos)) with (pos + n - L) by lia.
    rewrite takeZ_app_l; [reflexivity|]. rewrite lenZ_dropZ. lia.
Qed.

(** appending the bytes of a read to the ring (the two-vector write of socket_recv_messages) *)
Lemma ring_write buf L pos fill d b1 b2 :
  lenZ buf = L -> 0 <= pos < L -> 0 <= fill -> fill + lenZ d <= L ->
  let wrapped := L <? pos + fill in
  let off0 := if wrapped then (pos + fill) mod L else pos + fill in
  let size0 := if wrapped then L - fill else L - (pos + fill) in
  mwrite buf off0 (takeZ size0 d) = Some b1 -> mwrite b1 0 (dropZ size0 d) = Some b2 ->
  ring_u b2 pos (fill + lenZ d) = ring_u buf pos fill ++ d.
Proof.
  intros LB P F FD wrapped off0 size0 W1 W2.
  pose proof (lenZ_nonneg d) as Ld.
  assert (L1 : lenZ b1 = L) by (rewrite (mwrite_len _ _ _ _ W1); exact LB).
  assert (L2 : lenZ b2 = L) by (rewrite (mwrite_len _ _ _ _ W2); exact L1).
  apply list_ext_mread.
  { rewrite lenZ_app, !lenZ_ring_u by lia. reflexivity. }
  rewrite lenZ_ring_u by lia. intros i Hi.
  rewrite <- (gb_ring b2 L pos (fill + lenZ d) i) by lia. unfold gb.
  set (j := (i + pos) mod L).
  assert (Hj : 0 <= j < L) by (apply Z.mod_pos_bound; lia).
  rewrite (mread_mwrite _ _ _ _ j W2) by lia. rewrite (mread_mwrite _ _ _ _ j W1) by lia.
  assert (RHS : mread (ring_u buf pos fill ++ d) i =
                if i <? fill then mread buf j else mread d (i - fill)).
  { destruct (Z.ltb_spec i fill).
    - rewrite mread_app_l by (rewrite lenZ_ring_u by lia; lia).
      rewrite <- (gb_ring buf L pos fill i) by lia. reflexivity.
    - rewrite mread_app_r by (rewrite lenZ_ring_u by lia; lia). rewrite lenZ_ring_u by lia. reflexivity. }
  rewrite RHS. clear RHS.
  subst wrapped off0 size0. cbv beta in *.
  destruct (Z.ltb_spec L (pos + fill)) as [WR|NW].
  - (* wrapped *)
    assert (E0 : (pos + fill) mod L = pos + fill - L) by (symmetry; apply Z.mod_unique with 1; lia).
    rewrite E0 in *.
    rewrite (takeZ_all (L - fill) d) in * by lia. rewrite (dropZ_all (L - fill) d) in * by lia.
    rewrite lenZ_nil0. replace ((0 <=? j) && (j <? 0 + 0)) with false by (destruct (0 <=? j); simpl; auto; symmetry; apply Z.ltb_ge; lia).
    destruct (Z.ltb_spec i fill).
    + replace ((pos + fill - L <=? j) && (j <? pos + fill - L + lenZ d)) with false; [reflexivity|].
      symmetry. apply andb_false_iff. unfold j.
      destruct (Z.lt_ge_cases (i + pos) L).
      * rewrite Z.mod_small by lia. right. apply Z.ltb_ge. lia.
      * assert (E : (i + pos) mod L = i + pos - L) by (symmetry; apply Z.mod_unique with 1; lia).
        rewrite E. left. apply Z.leb_gt. lia.
    + assert (E : j = i + pos - L) by (unfold j; symmetry; apply Z.mod_unique with 1; lia).
      rewrite E. destruct (Z.leb_spec (pos + fill - L) (i + pos - L)); [|lia].
      destruct (Z.ltb_spec (i + pos - L) (pos + fill - L + lenZ d)); [|lia]. simpl. f_equal. lia.
  - (* not wrapped *)
    set (size0 := L - (pos + fill)) in *.
    assert (LT : lenZ (takeZ size0 d) = Z.min size0 (lenZ d)) by (rewrite lenZ_takeZ; unfold size0; lia).
    assert (LD : lenZ (dropZ size0 d) = lenZ d - Z.min size0 (lenZ d)) by (rewrite lenZ_dropZ; unfold size0; lia).
    rewrite LT, LD.
    destruct (Z.ltb_spec i fill).
    + assert (E : j = i + pos) by (unfold j; apply Z.mod_small; lia). rewrite E.
      replace ((0 <=? i + pos) && (i + pos <? 0 + (lenZ d - Z.min size0 (lenZ d)))) with false.
      2:{ symmetry. apply andb_false_iff. right. apply Z.ltb_ge. unfold size0. lia. }
      replace ((pos + fill <=? i + pos) && (i + pos <? pos + fill + Z.min size0 (lenZ d))) with false; [reflexivity|].
      symmetry. apply andb_false_iff. left. apply Z.leb_gt. lia.
    + destruct (Z.lt_ge_cases (i - fill) size0).
      * assert (E : j = i + pos) by (unfold j; apply Z.mod_small; unfold size0 in *; lia). rewrite E.
        replace ((0 <=? i + pos) && (i + pos <? 0 + (lenZ d - Z.min size0 (lenZ d)))) with false.
        2:{ symmetry. apply andb_false_iff. right. apply Z.ltb_ge. unfold size0 in *. lia. }
        destruct (Z.leb_spec (pos + fill) (i + pos)); [|lia].
        destruct (Z.ltb_spec (i + pos) (pos + fill + Z.min size0 (lenZ d))); [|unfold size0 in *; lia]. simpl.
        rewrite mread_takeZ by lia. f_equal. lia.
      * assert (E : j = i + pos - L) by (unfold j; symmetry; apply Z.mod_unique with 1; unfold size0 in *; lia).
        rewrite E.
        destruct (Z.leb_spec 0 (i + pos - L)); [|unfold size0 in *; lia].
        destruct (Z.ltb_spec (i + pos - L) (0 + (lenZ d - Z.min size0 (lenZ d)))); [|unfold size0 in *; lia]. simpl.
        rewrite mread_dropZ by (unfold size0 in *; lia). f_equal. unfold size0. lia.
Qed.

(** growing keeps the content: the new block starts with the old content, linearised *)
Lemma ring_u_zero buf fill : 0 <= fill <= lenZ buf -> ring_u buf 0 fill = takeZ fill buf.
Proof.
  intros. unfold ring_u. rewrite dropZ_nonpos by lia. apply takeZ_app_l. lia.
Qed.
Lemma grow_content G s buf pos : hinv s -> http_grow G s = Some (buf, pos) -> ring_u buf pos (h_fill s) = ring_u (h_buf s) (h_pos s) (h_fill s).
Proof.
  intros (P & F & PL & C & CB). unfold http_grow. cbv zeta.
  destruct (Z.eqb_spec (h_fill s) (lenZ (h_buf s))) as [GR|NG]; [|intros E; inversion E; reflexivity].
  destruct (Z.ltb_spec 0 (h_fill s)).
  2:{ intros E; inversion E; subst. assert (h_fill s = 0) by lia. unfold ring_u. rewrite H0. rewrite !takeZ_nonpos by lia. reflexivity. }
  rewrite Z.min_r by lia.
  unfold mreadn. rewrite !fits_spec.
  destruct (Z.leb_spec 0 (h_pos s)); [|lia]. destruct (Z.leb_spec 0 (lenZ (h_buf s) - h_pos s)); [|lia].
  destruct (Z.leb_spec (h_pos s + (lenZ (h_buf s) - h_pos s)) (lenZ (h_buf s))); [|lia].
  destruct (Z.leb_spec 0 0); [|lia]. destruct (Z.leb_spec 0 (h_fill s - (lenZ (h_buf s) - h_pos s))); [|lia].
  destruct (Z.leb_spec (0 + (h_fill s - (lenZ (h_buf s) - h_pos s))) (lenZ (h_buf s))); [|lia].
  cbn [andb]. intros E; inversion E; subst buf pos. clear E.
  assert (LD : lenZ (dropZ (h_pos s) (h_buf s)) = lenZ (h_buf s) - h_pos s) by (rewrite lenZ_dropZ; lia).
  rewrite (takeZ_all (lenZ (h_buf s) - h_pos s)) by lia. rewrite (dropZ_nonpos 0) by lia.
  set (d1 := dropZ (h_pos s) (h_buf s)) in *. set (d2 := takeZ (h_fill s - (lenZ (h_buf s) - h_pos s)) (h_buf s)).
  assert (L2 : lenZ d2 = h_fill s - (lenZ (h_buf s) - h_pos s)) by (unfold d2; rewrite lenZ_takeZ; lia).
  rewrite ring_u_zero by (rewrite !lenZ_app, lenZ_repZ; pose proof (lenZ_nonneg (repZ G 0)); lia).
  rewrite app_assoc. rewrite takeZ_app_l by (rewrite lenZ_app; lia). rewrite takeZ_all by (rewrite lenZ_app; lia).
  unfold ring_u. fold d1. rewrite takeZ_app_r by lia. rewrite LD. reflexivity.
Qed.

(** * Stage C: the retry loop of the parser on the logical content (a list), and its stability *)
Inductive ares := ANeed (st cl : Z) (U : list Z) | AErr | AConn (cl : Z) (rest : list Z) | AFuel.

Definition l_init (U : list Z) : pr Z := parse_init (U ++ [0]) (lenZ U + 1) 0 (lenZ U).
Definition l_header (U : list Z) (cl : Z) : pr Z * Z * bool := parse_header (U ++ [0]) (lenZ U + 1) 0 (lenZ U) cl.

(* result and "some header parse touched a stale slot" *)
Fixpoint aparse (fuel : nat) (st cl : Z) (U : list Z) : ares * bool :=
  match fuel with
  | O => (AFuel, false)
  | Datatypes.S f =>
    if st =? HT_INIT then
      match l_init U with
      | PrOk n => aparse f HT_HEADERS 0 (dropZ n U)
      | PrNeed => (ANeed st cl U, false)
      | PrErr => (AErr, false)
      | PrFault => (AFuel, false)
      end
    else if st =? HT_HEADERS then
      match l_header U cl with
      | (PrOk n, cl', stale) =>
          let '(r, s2) := aparse f (if n =? 2 then HT_BODY else HT_HEADERS) cl' (dropZ n U) in (r, stale || s2)
      | (PrNeed, cl', stale) => (ANeed HT_HEADERS cl' U, stale)
      | (PrErr, _, stale) => (AErr, stale)
      | (PrFault, _, stale) => (AFuel, stale)
      end
    else if st =? HT_BODY then
      if cl =? 0 then aparse f HT_CONNECTED cl U
      else if lenZ U =? 0 then (ANeed st cl U, false)
      else let c := Z.min cl (lenZ U) in aparse f HT_BODY (cl - c) (dropZ c U)
    else if st =? HT_CONNECTED then (AConn cl U, false)
    else (AErr, false)
  end.

(** the list ring and its extension by more bytes *)
Lemma lring_len U : lenZ (U ++ [0]) = lenZ U + 1.
Proof. rewrite lenZ_app. reflexivity. Qed.
Lemma lring_pos U : 0 < lenZ U + 1.
Proof. pose proof (lenZ_nonneg U). lia. Qed.
Lemma lring_view U V p : 0 <= p < lenZ U ->
  gb (U ++ [0]) (lenZ U + 1) 0 p = gb ((U ++ V) ++ [0]) (lenZ (U ++ V) + 1) 0 p.
Proof.
  intros. rewrite !gb_lring by (rewrite ?lenZ_app; pose proof (lenZ_nonneg V); lia).
  symmetry. apply mread_app_l. lia.
Qed.

Lemma l_init_ext U V r : l_init U = r -> match r with PrOk _ | PrErr => l_init (U ++ V) = r | _ => True end.
Proof.
  intros E. unfold l_init in *.
  apply (parse_init_ext (U ++ [0]) (lenZ U + 1) 0 (lenZ U) ((U ++ V) ++ [0]) (lenZ (U ++ V) + 1) 0 (lenZ (U ++ V))
           (lring_pos U) (lring_len U) (lring_pos (U ++ V)) (lring_len (U ++ V))); auto.
  - rewrite lenZ_app. pose proof (lenZ_nonneg V). lia.
  - intros p Hp. apply lring_view. exact Hp.
Qed.
Lemma l_header_ext U V cl r cl1 : l_header U cl = (r, cl1, false) ->
  match r with PrOk _ | PrErr => l_header (U ++ V) cl = (r, cl1, false) | _ => True end.
Proof.
  intros E. unfold l_header in *.
  apply (parse_header_ext (U ++ [0]) (lenZ U + 1) 0 (lenZ U) ((U ++ V) ++ [0]) (lenZ (U ++ V) + 1) 0 (lenZ (U ++ V))
           (lring_pos U) (lring_len U) (lring_pos (U ++ V)) (lring_len (U ++ V))); auto.
  - rewrite lenZ_app. pose proof (lenZ_nonneg V). lia.
  - intros p Hp. apply lring_view. exact Hp.
Qed.

Lemma l_init_ok U : match l_init U with PrFault => False | PrOk n => 2 <= n <= lenZ U | _ => True end.
Proof. unfold l_init. apply parse_init_ok; [apply lring_pos | apply lring_len]. Qed.
Lemma l_header_ok U cl : 0 <= cl ->
  match l_header U cl with (PrFault, _, _) => False | (PrOk n, cl', _) => 2 <= n <= lenZ U /\ 0 <= cl' | (_, cl', _) => 0 <= cl' end.
Proof. intros. unfold l_header. apply parse_header_ok; auto; [apply lring_pos | apply lring_len]. Qed.

Definition suff (g : nat) (st : Z) (W : list Z) : Prop := (length W + rank st < g)%nat.

Lemma length_dropZ n (U : list Z) : 0 <= n <= lenZ U -> (length (dropZ n U) = length U - Z.to_nat n)%nat.
Proof. intros. pose proof (lenZ_dropZ n U). rewrite !lenZ_length in *. lia. Qed.

Lemma rank_le st : (1 <= rank st <= 4)%nat.
Proof. unfold rank. destruct (_ =? _); [lia|]. destruct (_ =? _); [lia|]. destruct (_ =? _); lia. Qed.
Lemma rank_init : rank HT_INIT = 4%nat. Proof. reflexivity. Qed.
Lemma rank_headers : rank HT_HEADERS = 3%nat. Proof. reflexivity. Qed.
Lemma rank_body : rank HT_BODY = 2%nat. Proof. reflexivity. Qed.
Lemma rank_connected : rank HT_CONNECTED = 1%nat. Proof. reflexivity. Qed.

(** enough fuel: the loop never runs out *)
Lemma aparse_suff : forall f st cl U, 0 <= cl -> suff f st U -> fst (aparse f st cl U) <> AFuel.
Proof.
  induction f as [|f IH]; intros st cl U C S; [unfold suff in S; lia|]. unfold suff in *. simpl.
  pose proof (lenZ_nonneg U) as LU. pose proof (lenZ_length U) as LL.
  destruct (Z.eqb_spec st HT_INIT) as [E0|E0].
  { subst st. rewrite rank_init in S. pose proof (l_init_ok U) as K.
    destruct (l_init U) as [| | |n]; try contradiction; simpl; try discriminate.
    apply IH; [lia|]. unfold suff. rewrite rank_headers, length_dropZ by lia. lia. }
  destruct (Z.eqb_spec st HT_HEADERS) as [E1|E1].
  { subst st. rewrite rank_headers in S. pose proof (l_header_ok U cl C) as K.
    destruct (l_header U cl) as [[r cl'] stale]. destruct r as [| | |n]; try contradiction; simpl; try discriminate.
    destruct K as [K1 K2].
    assert (X : fst (aparse f (if n =? 2 then HT_BODY else HT_HEADERS) cl' (dropZ n U)) <> AFuel).
    { apply IH; auto. unfold suff. rewrite length_dropZ by lia. destruct (n =? 2); rewrite ?rank_body, ?rank_headers; lia. }
    destruct (aparse f (if n =? 2 then HT_BODY else HT_HEADERS) cl' (dropZ n U)). exact X. }
  destruct (Z.eqb_spec st HT_BODY) as [E2|E2].
  { subst st. rewrite rank_body in S. destruct (Z.eqb_spec cl 0).
    - apply IH; auto. unfold suff. rewrite rank_connected. lia.
    - destruct (Z.eqb_spec (lenZ U) 0); simpl; [discriminate|].
      apply IH; [lia|]. unfold suff. rewrite rank_body, length_dropZ by lia. lia. }
  destruct (st =? HT_CONNECTED); simpl; discriminate.
Qed.

(** more fuel changes nothing *)
Lemma aparse_mono : forall f g st cl U r b, (f <= g)%nat -> aparse f st cl U = (r, b) -> r <> AFuel ->
  aparse g st cl U = (r, b).
Proof.
  induction f as [|f IH]; intros g st cl U r b FG E N; [simpl in E; inversion E; subst; congruence|].
  destruct g as [|g]; [lia|]. simpl in *.
  destruct (st =? HT_INIT).
  { destruct (l_init U); auto. apply IH; auto; lia. }
  destruct (st =? HT_HEADERS).
  { destruct (l_header U cl) as [[pr cl'] stale]. destruct pr as [| | |n]; auto.
    destruct (aparse f (if n =? 2 then HT_BODY else HT_HEADERS) cl' (dropZ n U)) as [r1 s1] eqn:A.
    inversion E; subst r b. rewrite (IH g _ _ _ r1 s1 ltac:(lia) A N). reflexivity. }
  destruct (st =? HT_BODY).
  { destruct (cl =? 0); [apply IH; auto; lia|]. destruct (lenZ U =? 0); auto. apply IH; auto; lia. }
  exact E.
Qed.

Lemma aparse_fuel_eq f g st cl U : 0 <= cl -> suff f st U -> suff g st U -> aparse f st cl U = aparse g st cl U.
Proof.
  intros C Sf Sg. destruct (aparse f st cl U) as [r b] eqn:Ef. destruct (aparse g st cl U) as [r' b'] eqn:Eg.
  pose proof (aparse_suff f st cl U C Sf) as Nf. rewrite Ef in Nf. simpl in Nf.
  pose proof (aparse_suff g st cl U C Sg) as Ng. rewrite Eg in Ng. simpl in Ng.
  destruct (Nat.le_ge_cases f g).
  - rewrite (aparse_mono f g _ _ _ _ _ H Ef Nf) in Eg. congruence.
  - rewrite (aparse_mono g f _ _ _ _ _ H Eg Ng) in Ef. congruence.
Qed.

(** ** content_length is irrelevant while a Content-Length header line is being received *)
Definition cli (U : list Z) : Prop :=
  15 < lenZ U /\ match_ci (U ++ [0]) (lenZ U + 1) 0 0 CONTENT_LENGTH = PrOk true.
Definition aeq (st c1 c2 : Z) (U : list Z) : Prop := c1 = c2 \/ (st = HT_HEADERS /\ cli U).
Definition rrel (r1 r2 : ares * bool) : Prop :=
  snd r1 = snd r2 /\
  match fst r1, fst r2 with
  | ANeed s1 c1 U1, ANeed s2 c2 U2 => s1 = s2 /\ U1 = U2 /\ aeq s1 c1 c2 U1
  | AErr, AErr => True
  | AConn c1 x1, AConn c2 x2 => c1 = c2 /\ x1 = x2
  | AFuel, AFuel => True
  | _, _ => False
  end.
Lemma rrel_refl r : rrel r r.
Proof. destruct r as [[st cl U| |c x|] b]; unfold rrel, aeq; simpl; auto. Qed.

Lemma cli_ext U V : cli U -> cli (U ++ V).
Proof.
  intros [L M]. split; [rewrite lenZ_app; pose proof (lenZ_nonneg V); lia|].
  apply (match_ci_ext (U ++ [0]) (lenZ U + 1) 0 (lenZ U) ((U ++ V) ++ [0]) (lenZ (U ++ V) + 1) 0
           (fun p Hp => lring_view U V p Hp) CONTENT_LENGTH 0 true); auto; [lia|].
  change (lenZ CONTENT_LENGTH) with 15. lia.
Qed.

(* with the header name matched, the input content_length only survives in a "need more" answer *)
Lemma header_insens U c1 c2 : cli U ->
  exists r x1 x2 s, l_header U c1 = (r, x1, s) /\ l_header U c2 = (r, x2, s) /\ (r <> PrNeed -> x1 = x2).
Proof.
  intros [L M]. unfold l_header, parse_header. cbv zeta.
  destruct (Z.ltb_spec 15 (lenZ U)); [|lia]. rewrite M.
  pose proof (eat_ws_shape (U ++ [0]) (lenZ U + 1) 0 (lenZ U) (fuel_of (lenZ U)) 15) as SH.
  pose proof (eat_ws_ok (U ++ [0]) (lenZ U + 1) 0 (lenZ U) (lring_pos U) (lring_len U) (fuel_of (lenZ U)) 15
                ltac:(lia) ltac:(unfold fuel_of; lia)) as OK.
  destruct (eat_ws (U ++ [0]) (lenZ U + 1) 0 (lenZ U) (fuel_of (lenZ U)) 15) as [| | |p]; try contradiction.
  - eexists _, _, _, _. split; [reflexivity|]. split; [reflexivity|]. congruence.
  - destruct (digits (U ++ [0]) (lenZ U + 1) 0 (lenZ U) (fuel_of (lenZ U)) p 0 false) as [[p' cl'|cl'| |] st].
    + destruct (hdr_finish (U ++ [0]) (lenZ U + 1) 0 (lenZ U) p' cl' st) as [[r x] s].
      eexists _, _, _, _. split; [reflexivity|]. split; [reflexivity|]. auto.
    + eexists _, _, _, _. split; [reflexivity|]. split; [reflexivity|]. auto.
    + eexists _, _, _, _. split; [reflexivity|]. split; [reflexivity|]. auto.
    + eexists _, _, _, _. split; [reflexivity|]. split; [reflexivity|]. auto.
Qed.

(* a "need more" answer either leaves content_length alone or comes from a matched Content-Length line *)
Lemma need_cl U cl cl' st : l_header U cl = (PrNeed, cl', st) -> cl' = cl \/ cli U.
Proof.
  unfold l_header, parse_header. cbv zeta. intros E.
  assert (FIN : forall p c s, hdr_finish (U ++ [0]) (lenZ U + 1) 0 (lenZ U) p c s = (PrNeed, cl', st) -> cl' = c).
  { intros p c s H. unfold hdr_finish in H.
    destruct (skip_line (U ++ [0]) (lenZ U + 1) 0 (lenZ U) (fuel_of (lenZ U)) p); try (inversion H; auto; fail).
    destruct (lenZ U <=? a + 1); inversion H; auto. }
  destruct (Z.ltb_spec 15 (lenZ U)); [|left; eapply FIN; eauto].
  destruct (match_ci (U ++ [0]) (lenZ U + 1) 0 0 CONTENT_LENGTH) as [| | |[|]] eqn:M;
    try (inversion E; auto; fail); [|left; eapply FIN; eauto].
  right. split; auto.
Qed.

Lemma aparse_insens : forall f st c1 c2 U, aeq st c1 c2 U -> rrel (aparse f st c1 U) (aparse f st c2 U).
Proof.
  intros f st c1 c2 U [E|[S C]]; [subst; apply rrel_refl|]. subst st.
  destruct f as [|f]; [apply rrel_refl|]. simpl.
  change (HT_HEADERS =? HT_INIT) with false. change (HT_HEADERS =? HT_HEADERS) with true. cbv iota.
  destruct (header_insens U c1 c2 C) as (r & x1 & x2 & s & E1 & E2 & X). rewrite E1, E2.
  destruct r as [| | |n].
  - apply rrel_refl.
  - unfold rrel, aeq; simpl. repeat split; auto.
  - apply rrel_refl.
  - rewrite (X ltac:(discriminate)). apply rrel_refl.
Qed.

(** ** body skipping is additive *)
Lemma body_char : forall f cl W, 0 <= cl -> suff f HT_BODY W ->
  aparse f HT_BODY cl W =
  if cl <=? lenZ W then (AConn 0 (dropZ cl W), false) else (ANeed HT_BODY (cl - lenZ W) [], false).
Proof.
  intros f cl W C S. unfold suff in S. rewrite rank_body in S. pose proof (lenZ_nonneg W) as LW.
  pose proof (lenZ_length W) as LL.
  destruct f as [|f]; [lia|]. simpl.
  change (HT_BODY =? HT_INIT) with false. change (HT_BODY =? HT_HEADERS) with false. change (HT_BODY =? HT_BODY) with true. cbv iota.
  destruct (Z.eqb_spec cl 0).
  - subst cl. destruct f as [|f]; [lia|]. simpl. destruct (Z.leb_spec 0 (lenZ W)); [|lia]. rewrite dropZ_nonpos by lia. reflexivity.
  - destruct (Z.eqb_spec (lenZ W) 0).
    + destruct (Z.leb_spec cl (lenZ W)); [lia|]. rewrite e, Z.sub_0_r. rewrite (lenZ_nil W e). reflexivity.
    + destruct f as [|f]; [lia|]. simpl.
      change (HT_BODY =? HT_INIT) with false. change (HT_BODY =? HT_HEADERS) with false. change (HT_BODY =? HT_BODY) with true. cbv iota.
      destruct (Z.leb_spec cl (lenZ W)).
      * rewrite Z.min_l by lia. replace (cl - cl) with 0 by lia. change (0 =? 0) with true. cbv iota.
        destruct f as [|f]; [lia|]. reflexivity.
      * rewrite Z.min_r by lia. destruct (Z.eqb_spec (cl - lenZ W) 0); [lia|].
        rewrite (dropZ_all (lenZ W) W) by lia. rewrite lenZ_nil0. reflexivity.
Qed.

(** ** the loop's outcome on a prefix determines its outcome on any extension *)
Lemma suff_pos g st W : suff g st W -> exists g1, g = Datatypes.S g1.
Proof. unfold suff. pose proof (rank_le st). destruct g; [lia|eauto]. Qed.

Lemma aparse_S_init g cl W : aparse (Datatypes.S g) HT_INIT cl W =
  match l_init W with
  | PrOk n => aparse g HT_HEADERS 0 (dropZ n W) | PrNeed => (ANeed HT_INIT cl W, false)
  | PrErr => (AErr, false) | PrFault => (AFuel, false) end.
Proof. reflexivity. Qed.
Lemma aparse_S_headers g cl W : aparse (Datatypes.S g) HT_HEADERS cl W =
  match l_header W cl with
  | (PrOk n, cl', stale) =>
      let '(r, s2) := aparse g (if n =? 2 then HT_BODY else HT_HEADERS) cl' (dropZ n W) in (r, stale || s2)
  | (PrNeed, cl', stale) => (ANeed HT_HEADERS cl' W, stale)
  | (PrErr, _, stale) => (AErr, stale) | (PrFault, _, stale) => (AFuel, stale) end.
Proof. reflexivity. Qed.
Lemma aparse_S_other g st cl W : st <> HT_INIT -> st <> HT_HEADERS -> st <> HT_BODY ->
  aparse (Datatypes.S g) st cl W = if st =? HT_CONNECTED then (AConn cl W, false) else (AErr, false).
Proof.
  intros. simpl. destruct (Z.eqb_spec st HT_INIT); [contradiction|]. destruct (Z.eqb_spec st HT_HEADERS); [contradiction|].
  destruct (Z.eqb_spec st HT_BODY); [contradiction|]. reflexivity.
Qed.

Lemma aparse_stable : forall f st cl U r, 0 <= cl -> aparse f st cl U = (r, false) -> r <> AFuel ->
  forall V g, suff g st (U ++ V) ->
  match r with
  | ANeed st' cl' U' => forall g', suff g' st' (U' ++ V) -> rrel (aparse g st cl (U ++ V)) (aparse g' st' cl' (U' ++ V))
  | AErr => aparse g st cl (U ++ V) = (AErr, false)
  | AConn c rest => aparse g st cl (U ++ V) = (AConn c (rest ++ V), false)
  | AFuel => True
  end.
Proof.
  induction f as [|f IH]; intros st cl U r C E N V g SG.
  { simpl in E. inversion E; subst. congruence. }
  destruct (suff_pos _ _ _ SG) as [g1 ->].
  pose proof (lenZ_nonneg U) as LU. pose proof (lenZ_nonneg V) as LV.
  pose proof (lenZ_length U) as LLU. pose proof (lenZ_length V) as LLV.
  unfold suff in SG. rewrite app_length in SG.
  destruct (Z.eq_dec st HT_INIT) as [E0|E0].
  { subst st. rewrite rank_init in SG. rewrite aparse_S_init in E. rewrite !aparse_S_init. pose proof (l_init_ok U) as K.
    pose proof (l_init_ext U V _ eq_refl) as X.
    destruct (l_init U) as [| | |n]; try contradiction.
    - inversion E; subst r. intros g' SG'. rewrite <- (aparse_S_init g1 cl (U ++ V)). rewrite (aparse_fuel_eq g' (Datatypes.S g1)); auto.
      + apply rrel_refl.
      + unfold suff. rewrite app_length, rank_init. lia.
    - inversion E; subst r. rewrite X. reflexivity.
    - rewrite X. rewrite dropZ_app_l by lia.
      assert (Z00 : 0 <= 0) by lia.
      apply (IH HT_HEADERS 0 (dropZ n U) r Z00 E N V g1). unfold suff. rewrite app_length, rank_headers, length_dropZ by lia. lia. }
  destruct (Z.eq_dec st HT_HEADERS) as [E1|E1].
  { subst st. rewrite rank_headers in SG. rewrite aparse_S_headers in E. rewrite !aparse_S_headers.
    pose proof (l_header_ok U cl C) as K.
    destruct (l_header U cl) as [[pr cl'] stale] eqn:LH.
    destruct pr as [| | |n]; try contradiction.
    - (* need more *)
      inversion E; subst r stale. intros g' SG'. rewrite <- (aparse_S_headers g1 cl (U ++ V)).
      rewrite (aparse_fuel_eq g' (Datatypes.S g1)); auto.
      2:{ unfold suff. rewrite app_length, rank_headers. lia. }
      apply aparse_insens. destruct (need_cl _ _ _ _ LH) as [->|CL]; [left; reflexivity|].
      right. split; auto. apply cli_ext. exact CL.
    - inversion E; subst r stale. pose proof (l_header_ext U V cl _ _ LH) as X. simpl in X. rewrite X. reflexivity.
    - destruct K as [K1 K2].
      destruct (aparse f (if n =? 2 then HT_BODY else HT_HEADERS) cl' (dropZ n U)) as [r0 s2] eqn:A.
      inversion E; subst r0. destruct stale; [discriminate|]. simpl in H1. subst s2.
      pose proof (l_header_ext U V cl _ _ LH) as X. simpl in X. rewrite X. rewrite dropZ_app_l by lia.
      assert (SG1 : suff g1 (if n =? 2 then HT_BODY else HT_HEADERS) (dropZ n U ++ V)).
      { unfold suff. rewrite app_length, length_dropZ by lia. destruct (n =? 2); rewrite ?rank_body, ?rank_headers; lia. }
      pose proof (IH _ _ _ _ K2 A N V g1 SG1) as R.
      destruct (aparse g1 (if n =? 2 then HT_BODY else HT_HEADERS) cl' (dropZ n U ++ V)) as [r' s'] eqn:A'.
      simpl orb. destruct r as [st' c' U'| |c rest|]; auto. }
  destruct (Z.eq_dec st HT_BODY) as [E2|E2].
  { subst st. rewrite rank_body in SG.
    set (F := Nat.max (Datatypes.S f) (Datatypes.S (length U + 3))).
    assert (EF : aparse F HT_BODY cl U = (r, false)) by (apply (aparse_mono (Datatypes.S f)); auto; unfold F; lia).
    rewrite body_char in EF by (auto; unfold suff, F; rewrite rank_body; lia).
    rewrite (body_char (Datatypes.S g1) cl (U ++ V)) by (auto; unfold suff; rewrite app_length, rank_body; lia).
    rewrite lenZ_app.
    destruct (Z.leb_spec cl (lenZ U)).
    - inversion EF; subst r. destruct (Z.leb_spec cl (lenZ U + lenZ V)); [|lia]. rewrite dropZ_app_l by lia. reflexivity.
    - inversion EF; subst r. intros g' SG'. simpl app in *.
      rewrite (body_char g' (cl - lenZ U) V) by (auto; lia).
      destruct (Z.leb_spec cl (lenZ U + lenZ V)); destruct (Z.leb_spec (cl - lenZ U) (lenZ V)); try lia.
      + rewrite dropZ_app_r by lia. apply rrel_refl.
      + replace (cl - (lenZ U + lenZ V)) with (cl - lenZ U - lenZ V) by lia. apply rrel_refl. }
  rewrite aparse_S_other in E by auto. rewrite !aparse_S_other by auto.
  destruct (st =? HT_CONNECTED); inversion E; subst r; reflexivity.
Qed.

(** * Stage C': two rings with the same fill and the same visible bytes parse alike *)
Section Same.
Variables (buf : list Z) (L pos : Z) (buf' : list Z) (L' pos' fill : Z).
Hypothesis Lpos : 0 < L.  Hypothesis Lbuf : lenZ buf = L.
Hypothesis Lpos' : 0 < L'. Hypothesis Lbuf' : lenZ buf' = L'.
Hypothesis VIEW : forall p, 0 <= p < fill -> gb buf L pos p = gb buf' L' pos' p.

Lemma eat_ws_same : forall fuel p, 0 <= p -> eat_ws buf L pos fill fuel p = eat_ws buf' L' pos' fill fuel p.
Proof.
  induction fuel as [|f IH]; intros p P; simpl; auto.
  destruct (Z.ltb_spec p fill); auto. rewrite <- VIEW by lia.
  destruct (gb buf L pos p) as [c|]; auto. destruct (c =? 32); auto. apply IH. lia.
Qed.
Lemma skip_line_same : forall fuel p, 0 <= p -> skip_line buf L pos fill fuel p = skip_line buf' L' pos' fill fuel p.
Proof.
  induction fuel as [|f IH]; intros p P; simpl; auto.
  destruct (Z.ltb_spec (p + 1) fill); auto. rewrite <- !VIEW by lia.
  destruct (gb buf L pos p) as [c|]; auto. destruct (c =? 13); auto.
  destruct (gb buf L pos (p + 1)) as [c'|]; auto. destruct (c' =? 10); auto. apply IH. lia.
Qed.
Lemma match_ci_same : forall pat p, 0 <= p -> p + lenZ pat <= fill ->
  match_ci buf L pos p pat = match_ci buf' L' pos' p pat.
Proof.
  induction pat as [|c t IH]; intros p P Q; simpl; auto. rewrite lenZ_cons in Q. pose proof (lenZ_nonneg t).
  rewrite <- VIEW by lia. destruct (gb buf L pos p) as [x|]; auto.
  destruct ((x =? c) || ((97 <=? c) && (c <=? 122) && (x =? c - 32))); auto. apply IH; lia.
Qed.
Lemma digits_same : forall fuel p cl r, 0 <= p ->
  digits buf L pos fill fuel p cl false = (r, false) -> digits buf' L' pos' fill fuel p cl false = (r, false).
Proof.
  induction fuel as [|f IH]; intros p cl r P E; simpl in *; auto.
  destruct (Z.leb_spec fill p) as [ST|ST]; simpl in *.
  { exfalso.
    assert (T : forall f0 p0 cl0, snd (digits buf L pos fill f0 p0 cl0 true) = true).
    { induction f0; intros; simpl; auto. destruct (gb buf L pos p0); simpl; auto.
      destruct (z =? 13); simpl; auto. destruct (negb (is_digit z)); simpl; auto.
      destruct (_ || _); simpl; auto. destruct (fill <=? p0 + 1); simpl; auto. }
    destruct (gb buf L pos p) as [c|]; [|inversion E].
    destruct (c =? 13); [inversion E|]. destruct (negb (is_digit c)); [inversion E|].
    destruct (_ || _); [inversion E|]. destruct (fill <=? p + 1); [inversion E|].
    pose proof (T f (p + 1) (cl * 10 + (c - 48))) as T'. rewrite E in T'. discriminate T'. }
  rewrite <- VIEW by lia. destruct (gb buf L pos p) as [c|]; auto.
  destruct (c =? 13); auto. destruct (negb (is_digit c)); auto.
  destruct ((MAXSIZE / 10 <? cl) || (MAXSIZE - (c - 48) <? cl * 10)); auto.
  destruct (fill <=? p + 1); auto. apply IH; auto; lia.
Qed.
Lemma hdr_finish_same p cl st : 0 <= p ->
  hdr_finish buf L pos fill p cl st = hdr_finish buf' L' pos' fill p cl st.
Proof. intros. unfold hdr_finish. rewrite skip_line_same by auto. reflexivity. Qed.

Lemma parse_header_same cl r cl1 : parse_header buf L pos fill cl = (r, cl1, false) ->
  parse_header buf' L' pos' fill cl = (r, cl1, false).
Proof.
  unfold parse_header. cbv zeta. intros E.
  destruct (Z.ltb_spec 15 fill); [|rewrite <- hdr_finish_same by lia; exact E].
  rewrite <- (match_ci_same CONTENT_LENGTH 0) by (change (lenZ CONTENT_LENGTH) with 15; lia).
  destruct (match_ci buf L pos 0 CONTENT_LENGTH) as [| | |[|]]; auto; [|rewrite <- hdr_finish_same by lia; exact E].
  rewrite <- eat_ws_same by lia.
  pose proof (eat_ws_ok buf L pos fill Lpos Lbuf (fuel_of fill) 15 ltac:(lia) ltac:(unfold fuel_of; lia)) as B.
  destruct (eat_ws buf L pos fill (fuel_of fill) 15) as [| | |p]; auto.
  destruct (digits buf L pos fill (fuel_of fill) p 0 false) as [dr st] eqn:D.
  assert (st = false).
  { destruct dr; try (inversion E; auto; fail).
    unfold hdr_finish in E. destruct (skip_line buf L pos fill (fuel_of fill) p0); try (inversion E; auto; fail).
    destruct (fill <=? a + 1); inversion E; auto. }
  subst st. assert (Pp : 0 <= p) by lia. rewrite (digits_same (fuel_of fill) p 0 dr Pp D).
  destruct dr; auto. rewrite <- hdr_finish_same; auto.
  pose proof (digits_ok buf L pos fill Lpos Lbuf (fuel_of fill) p 0 false ltac:(lia) ltac:(lia) ltac:(unfold fuel_of; lia)) as DK.
  rewrite D in DK. simpl in DK. lia.
Qed.
End Same.

Lemma parse_init_same buf L pos buf' L' pos' fill :
  0 < L -> lenZ buf = L -> 0 < L' -> lenZ buf' = L' ->
  (forall p, 0 <= p < fill -> gb buf L pos p = gb buf' L' pos' p) ->
  parse_init buf L pos fill = parse_init buf' L' pos' fill.
Proof.
  intros A B A' B' V.
  pose proof (parse_init_ext buf L pos fill buf' L' pos' fill A B A' B' (Z.le_refl _) V _ eq_refl) as X.
  assert (V' : forall p, 0 <= p < fill -> gb buf' L' pos' p = gb buf L pos p) by (intros; symmetry; auto).
  pose proof (parse_init_ext buf' L' pos' fill buf L pos fill A' B' A B (Z.le_refl _) V' _ eq_refl) as Y.
  pose proof (parse_init_ok buf L pos fill A B) as K. pose proof (parse_init_ok buf' L' pos' fill A' B') as K'.
  destruct (parse_init buf L pos fill); destruct (parse_init buf' L' pos' fill); try contradiction; auto; congruence.
Qed.

(** * Stage C'': the concrete retry loop computes the abstract one *)
Definition Uof (s : hst) : list Z := ring_u (h_buf s) (h_pos s) (h_fill s).

Lemma hring_facts s : hring s ->
  0 < lenZ (h_buf s) /\ 0 <= h_pos s < lenZ (h_buf s) /\ 0 <= h_fill s <= lenZ (h_buf s) /\ 0 <= h_cl s /\ h_base s = true /\
  lenZ (Uof s) = h_fill s.
Proof.
  intros ((P & F & PL & C & CB) & L0 & PL' & B). repeat split; try lia; auto.
  unfold Uof. apply lenZ_ring_u; lia.
Qed.

Lemma hring_view s : hring s -> forall p, 0 <= p < h_fill s ->
  gb (h_buf s) (lenZ (h_buf s)) (h_pos s) p = gb (Uof s ++ [0]) (lenZ (Uof s) + 1) 0 p.
Proof.
  intros R p Hp. destruct (hring_facts s R) as (A & B & C & D & E & F).
  rewrite gb_lring by lia. unfold Uof. apply gb_ring; auto; lia.
Qed.

Lemma readfree_handover cap s : readfree (http_handover cap s).
Proof.
  unfold http_handover. cbv zeta.
  destruct (0 <? h_fill s); [|apply readfree_flush; constructor].
  destruct (ring_pop cap s) as [[[data pos'] fill']|]; [|constructor].
  apply readfree_flush; repeat constructor.
Qed.
Lemma readfree_parse cap : forall fuel s, readfree (http_parse cap fuel s).
Proof.
  induction fuel as [|f IH]; intros s; simpl; [constructor|]. cbv zeta.
  destruct (_ =? HT_INIT).
  { destruct (parse_init _ _ _ _); auto; try constructor. }
  destruct (_ =? HT_HEADERS).
  { destruct (parse_header _ _ _ _ _) as [[r c] st]. unfold mark_if.
    assert (X : readfree match r with
       | PrFault => PFault | PrNeed => PDone (with_ring s HT_HEADERS (h_pos s) (h_fill s) c) 0
       | PrErr => http_error (with_ring s HT_HEADERS (h_pos s) (h_fill s) c)
       | PrOk n => http_parse cap f (with_ring s (if n =? 2 then HT_BODY else HT_HEADERS) ((h_pos s + n) mod lenZ (h_buf s)) (h_fill s - n) c) end).
    { destruct r; auto; constructor. }
    destruct st; [constructor|]; exact X. }
  destruct (_ =? HT_BODY).
  { destruct (_ =? 0); auto. destruct (_ =? 0); auto. constructor. }
  destruct (_ =? HT_CONNECTED); [apply readfree_handover | constructor].
Qed.

Lemma vis_map_dn q : vis vis_str (map Dn q) = map ODn q.
Proof. induction q; simpl; auto. unfold vis in *. simpl. rewrite IHq. reflexivity. Qed.

(** popping off the ring = taking a prefix of its content; what is left is the rest *)
Lemma ring_pop_spec cap s : hinv s -> 0 < h_fill s -> 1 <= cap ->
  exists pos', ring_pop cap s = Some (takeZ cap (Uof s), pos', h_fill s - Z.min cap (h_fill s)) /\
    0 <= pos' < lenZ (h_buf s) /\
    ring_u (h_buf s) pos' (h_fill s - Z.min cap (h_fill s)) = dropZ cap (Uof s).
Proof.
  intros HI F0 CP. pose proof HI as (P & F & PL & C & CB).
  assert (L0 : 0 < lenZ (h_buf s)) by lia.
  assert (PL' : h_pos s < lenZ (h_buf s)) by lia.
  destruct (ring_pop_ok cap s HI F0 CP) as (data & pos' & RP & PR & PE).
  exists pos'.
  assert (LU : lenZ (Uof s) = h_fill s) by (unfold Uof; apply lenZ_ring_u; lia).
  assert (DR : ring_u (h_buf s) pos' (h_fill s - Z.min cap (h_fill s)) = dropZ cap (Uof s)).
  { rewrite PE. rewrite (ring_consume (h_buf s) (lenZ (h_buf s)) (h_pos s) (h_fill s) (Z.min cap (h_fill s))) by lia.
    fold (Uof s). destruct (Z.le_gt_cases cap (h_fill s)).
    - rewrite Z.min_l by lia. reflexivity.
    - rewrite Z.min_r by lia. rewrite !dropZ_all by lia. reflexivity. }
  split; [|split; [exact PR|exact DR]].
  rewrite RP. f_equal. f_equal. f_equal.
  (* the bytes *)
  unfold ring_pop in RP. cbv zeta in RP.
  assert (LD : lenZ (dropZ (h_pos s) (h_buf s)) = lenZ (h_buf s) - h_pos s) by (rewrite lenZ_dropZ; lia).
  unfold Uof, ring_u. rewrite takeZ_takeZ.
  destruct (Z.ltb_spec (lenZ (h_buf s)) (h_pos s + h_fill s)).
  - set (len1 := Z.min (lenZ (h_buf s) - h_pos s) cap) in *.
    destruct (mreadn (h_buf s) (h_pos s) len1) as [d1|] eqn:M1; [|discriminate].
    set (len2 := Z.min (h_fill s - len1) (cap - len1)) in *.
    destruct (mreadn (h_buf s) 0 len2) as [d2|] eqn:M2; [|discriminate].
    inversion RP; subst data.
    unfold mreadn in M1, M2. rewrite fits_spec in M1, M2.
    destruct (Z.leb_spec 0 (h_pos s)); [|lia]. destruct (Z.leb_spec 0 len1); [|unfold len1 in *; lia].
    destruct (Z.leb_spec (h_pos s + len1) (lenZ (h_buf s))); [|unfold len1 in *; lia].
    destruct (Z.leb_spec 0 0); [|lia]. destruct (Z.leb_spec 0 len2); [|unfold len2, len1 in *; lia].
    destruct (Z.leb_spec (0 + len2) (lenZ (h_buf s))); [|unfold len2, len1 in *; lia]. cbn [andb] in M1, M2.
    inversion M1; inversion M2; subst d1 d2.
    rewrite (dropZ_nonpos 0) by lia.
    destruct (Z.le_gt_cases cap (lenZ (h_buf s) - h_pos s)).
    + assert (E1 : len1 = cap) by (unfold len1; lia). assert (E2 : len2 = 0) by (unfold len2; lia).
      rewrite E1, E2. rewrite (takeZ_nonpos 0) by lia. rewrite app_nil_r.
      rewrite Z.min_l by lia. rewrite takeZ_app_l by lia. reflexivity.
    + assert (E1 : len1 = lenZ (h_buf s) - h_pos s) by (unfold len1; lia).
      rewrite E1. rewrite (takeZ_all (lenZ (h_buf s) - h_pos s)) by lia.
      rewrite takeZ_app_r by lia. rewrite LD. f_equal. f_equal. unfold len2. lia.
  - set (len := Z.min (h_fill s) cap) in *.
    destruct (mreadn (h_buf s) (h_pos s) len) as [d1|] eqn:M1; [|discriminate].
    inversion RP; subst data.
    unfold mreadn in M1. rewrite fits_spec in M1.
    destruct (Z.leb_spec 0 (h_pos s)); [|lia]. destruct (Z.leb_spec 0 len); [|unfold len in *; lia].
    destruct (Z.leb_spec (h_pos s + len) (lenZ (h_buf s))); [|unfold len in *; lia]. cbn [andb] in M1. inversion M1; subst d1.
    rewrite takeZ_app_l by lia. f_equal. unfold len. lia.
Qed.

(* the hand-over at the end of the handshake: what is in the ring, as far as the caller's buffer goes; the
   rest stays in the ring (and is handed out by the following calls) *)
Lemma handover_exec cap s kb o k e : 1 <= cap -> hring s -> exec (http_handover cap s) kb = (o, k, e) ->
  exists s' ret, o = Some (s', ret) /\ 0 <= ret /\ (ret = 0 -> h_fill s' = 0) /\
    h_state s' = HT_CONNECTED /\ h_base s' = true /\ hinv s' /\ Uof s' = dropZ cap (Uof s) /\
    vis vis_str e = map ODn (h_queue s) ++ map OByte (takeZ cap (Uof s)).
Proof.
  intros CP R E. destruct (hring_facts s R) as (A & B & C & D & Bs & F).
  pose proof (proj1 R) as HI. pose proof HI as (P1 & P2 & P3 & P4 & P5).
  unfold http_handover in E. cbv zeta in E.
  destruct (Z.ltb_spec 0 (h_fill s)).
  - destruct (ring_pop_spec cap s HI ltac:(lia) CP) as (pos' & RP & PR & DR). rewrite RP in E.
    rewrite exec_flush_queue in E. simpl in E. inversion E; subst. eexists _, 1.
    split; [reflexivity|]. split; [lia|]. split; [intros X; discriminate X|]. simpl.
    split; [reflexivity|]. split; [exact Bs|]. split.
    { unfold hinv; simpl. repeat split; try lia; auto. }
    split; [exact DR|].
    rewrite vis_app, vis_map_dn. unfold vis. simpl. rewrite !app_nil_r. reflexivity.
  - assert (F0 : h_fill s = 0) by lia.
    assert (U0 : Uof s = []) by (apply lenZ_nil; lia).
    rewrite exec_flush_queue in E. simpl in E. inversion E; subst. eexists _, 0.
    split; [reflexivity|]. split; [lia|]. split; [intros _; simpl; exact F0|]. simpl.
    split; [reflexivity|]. split; [exact Bs|]. split.
    { unfold hinv; simpl. repeat split; try lia; auto. }
    split.
    { unfold Uof; simpl. fold (Uof s). rewrite U0. rewrite dropZ_nil. reflexivity. }
    rewrite vis_app, vis_map_dn. rewrite U0, takeZ_nil. simpl. rewrite !app_nil_r. reflexivity.
Qed.

Lemma Uof_step s st n cl' : hring s -> 0 <= n <= h_fill s ->
  Uof (with_ring s st ((h_pos s + n) mod lenZ (h_buf s)) (h_fill s - n) cl') = dropZ n (Uof s).
Proof.
  intros R N. destruct (hring_facts s R) as (A & B & C & D & E & F).
  unfold Uof, with_ring; simpl. apply ring_consume; auto.
Qed.

Lemma exec_done {S} (s : S) r kb : exec (PDone s r) kb = (Some (s, r), kb, [Ret r]).
Proof. reflexivity. Qed.

(** a run of the concrete retry loop is the abstract loop on the ring's content *)
Lemma parse_conc cap : 1 <= cap -> forall fuel s kb o k e, hring s -> suff fuel (h_state s) (Uof s) ->
  exec (http_parse cap fuel s) kb = (o, k, e) ->
  k = kb /\ exists r, aparse fuel (h_state s) (h_cl s) (Uof s) = (r, false) /\
    match r with
    | ANeed st' cl' U' => exists s', o = Some (s', 0) /\ hring s' /\ h_state s' = st' /\ h_cl s' = cl' /\ Uof s' = U' /\
                                      h_queue s' = h_queue s /\ h_buf s' = h_buf s /\ vis vis_str e = []
    | AErr => exists s', o = Some (s', -1) /\ vis vis_str e = []
    | AConn c rest => exists s' ret, o = Some (s', ret) /\ 0 <= ret /\ (ret = 0 -> h_fill s' = 0) /\
                                      h_state s' = HT_CONNECTED /\ h_base s' = true /\ hinv s' /\ Uof s' = dropZ cap rest /\
                                      vis vis_str e = map ODn (h_queue s) ++ map OByte (takeZ cap rest)
    | AFuel => False
    end.
Proof.
  intros CP. induction fuel as [|fuel IH]; intros s kb o k e R SF E.
  { unfold suff in SF. lia. }
  split; [exact (readfree_exec _ (readfree_parse cap _ s) _ _ _ _ E)|].
  destruct (hring_facts s R) as (A & B & C & D & Bs & F).
  pose proof (lenZ_length (Uof s)) as LLU.
  assert (VW : forall p, 0 <= p < h_fill s -> gb (h_buf s) (lenZ (h_buf s)) (h_pos s) p = gb (Uof s ++ [0]) (h_fill s + 1) 0 p)
    by (intros p Hp; rewrite (hring_view s R p Hp), F; reflexivity).
  assert (LR : lenZ (Uof s ++ [0]) = h_fill s + 1) by (rewrite lring_len; lia).
  assert (LP : 0 < h_fill s + 1) by lia.
  unfold suff in SF.
  simpl http_parse in E. cbv zeta in E.
  destruct (Z.eq_dec (h_state s) HT_INIT) as [S0|S0].
  { rewrite S0 in *. rewrite rank_init in SF. change (HT_INIT =? HT_INIT) with true in E. cbv iota in E.
    rewrite aparse_S_init. unfold l_init. rewrite F.
    rewrite (parse_init_same (h_buf s) (lenZ (h_buf s)) (h_pos s) (Uof s ++ [0]) (h_fill s + 1) 0 (h_fill s)
               A eq_refl LP LR VW) in E.
    pose proof (l_init_ok (Uof s)) as K. unfold l_init in K. rewrite F in K.
    destruct (parse_init (Uof s ++ [0]) (h_fill s + 1) 0 (h_fill s)) as [| | |n]; try contradiction.
    - rewrite exec_done in E. inversion E; subst. eexists. split; [reflexivity|].
      exists s. split; [reflexivity|]. split; [exact R|]. split; [exact S0|]. repeat (split; [reflexivity|]). reflexivity.
    - unfold http_error in E. rewrite exec_done in E. inversion E; subst. eexists. split; [reflexivity|]. eexists. split; reflexivity.
    - assert (R1 := hring_step s HT_HEADERS n 0 R ltac:(lia) ltac:(lia)).
      assert (U1 := Uof_step s HT_HEADERS n 0 R ltac:(lia)).
      destruct (IH _ _ _ _ _ R1 ltac:(unfold suff; rewrite U1; simpl h_state; rewrite rank_headers, length_dropZ by lia; lia) E)
        as [_ (r & AP & M)].
      simpl h_state in AP. simpl h_cl in AP. rewrite U1 in AP.
      exists r. split; [exact AP|].
      destruct r as [st' cl' U'| |c rest|]; auto. }
  destruct (Z.eq_dec (h_state s) HT_HEADERS) as [S1|S1].
  { rewrite S1 in *. rewrite rank_headers in SF.
    change (HT_HEADERS =? HT_INIT) with false in E. change (HT_HEADERS =? HT_HEADERS) with true in E. cbv iota in E.
    rewrite aparse_S_headers. unfold l_header. rewrite F.
    destruct (parse_header (h_buf s) (lenZ (h_buf s)) (h_pos s) (h_fill s) (h_cl s)) as [[pr cl'] stale] eqn:PH.
    pose proof (parse_header_nostale (h_buf s) (lenZ (h_buf s)) (h_pos s) (h_fill s) A eq_refl (h_cl s)) as NS.
    rewrite PH in NS. simpl in NS. subst stale.
    unfold mark_if in E.
    assert (PH' := parse_header_same (h_buf s) (lenZ (h_buf s)) (h_pos s) (Uof s ++ [0]) (h_fill s + 1) 0 (h_fill s)
                     A eq_refl VW _ _ _ PH).
    rewrite PH'.
    pose proof (l_header_ok (Uof s) (h_cl s) D) as K. unfold l_header in K. rewrite F, PH' in K.
    destruct pr as [| | |n]; try contradiction.
    - rewrite exec_done in E. inversion E; subst. eexists. split; [reflexivity|].
      eexists. split; [reflexivity|].
      assert (R' : hring (with_ring s HT_HEADERS (h_pos s) (h_fill s) cl')).
      { destruct R as ((P1 & P2 & P3 & P4 & P5) & Q1 & Q2 & Q3). unfold hring, hinv, with_ring; simpl.
        repeat split; auto; try lia; try (intros X; discriminate X). }
      split; [exact R'|]. repeat (split; [reflexivity|]). reflexivity.
    - unfold http_error in E. rewrite exec_done in E. inversion E; subst. eexists. split; [reflexivity|]. eexists. split; reflexivity.
    - destruct K as [K1 K2].
      set (st1 := if n =? 2 then HT_BODY else HT_HEADERS) in *.
      assert (R1 := hring_step s st1 n cl' R ltac:(lia) K2).
      assert (U1 := Uof_step s st1 n cl' R ltac:(lia)).
      assert (SF1 : suff fuel (h_state (with_ring s st1 ((h_pos s + n) mod lenZ (h_buf s)) (h_fill s - n) cl'))
                         (Uof (with_ring s st1 ((h_pos s + n) mod lenZ (h_buf s)) (h_fill s - n) cl'))).
      { unfold suff. rewrite U1. simpl h_state. rewrite length_dropZ by lia. unfold st1.
        destruct (n =? 2); rewrite ?rank_body, ?rank_headers; lia. }
      destruct (IH _ _ _ _ _ R1 SF1 E) as [_ (r & AP & M)].
      simpl h_state in AP. simpl h_cl in AP. rewrite U1 in AP. rewrite AP.
      exists r. split; [reflexivity|].
      destruct r as [st' c' U'| |c rest|]; auto. }
  destruct (Z.eq_dec (h_state s) HT_BODY) as [S2|S2].
  { rewrite S2 in *. rewrite rank_body in SF.
    change (HT_BODY =? HT_INIT) with false in E. change (HT_BODY =? HT_HEADERS) with false in E.
    change (HT_BODY =? HT_BODY) with true in E. cbv iota in E.
    simpl aparse.
    change (HT_BODY =? HT_INIT) with false. change (HT_BODY =? HT_HEADERS) with false. change (HT_BODY =? HT_BODY) with true. cbv iota.
    rewrite F.
    destruct (Z.eqb_spec (h_cl s) 0) as [C0|C0].
    - assert (R1 : hring (with_ring s HT_CONNECTED (h_pos s) (h_fill s) (h_cl s))).
      { destruct R as ((P1 & P2 & P3 & P4 & P5) & Q1 & Q2 & Q3). unfold hring, hinv, with_ring; simpl. repeat split; auto; lia. }
      assert (U1 : Uof (with_ring s HT_CONNECTED (h_pos s) (h_fill s) (h_cl s)) = Uof s) by reflexivity.
      destruct (IH _ _ _ _ _ R1 ltac:(unfold suff; rewrite U1; simpl h_state; rewrite rank_connected; lia) E) as [_ (r & AP & M)].
      simpl h_state in AP. simpl h_cl in AP. rewrite U1 in AP. exists r. split; [exact AP|].
      destruct r as [st' c' U'| |c rest|]; auto.
    - destruct (Z.eqb_spec (h_fill s) 0) as [F0|F0].
      + rewrite exec_done in E. inversion E; subst. eexists. split; [reflexivity|]. exists s.
        split; [reflexivity|]. split; [exact R|]. split; [exact S2|]. repeat (split; [reflexivity|]). reflexivity.
      + set (c := Z.min (h_cl s) (h_fill s)) in *.
        assert (Cc : 1 <= c <= h_fill s) by (unfold c; lia).
        assert (R1 := hring_step s HT_BODY c (h_cl s - c) R ltac:(lia) ltac:(unfold c; lia)).
        assert (U1 := Uof_step s HT_BODY c (h_cl s - c) R ltac:(lia)).
        destruct (IH _ _ _ _ _ R1 ltac:(unfold suff; rewrite U1; simpl h_state; rewrite rank_body, length_dropZ by lia; lia) E)
          as [_ (r & AP & M)].
        simpl h_state in AP. simpl h_cl in AP. rewrite U1 in AP. exists r. split; [exact AP|].
        destruct r as [st' c' U'| |c0 rest|]; auto. }
  rewrite aparse_S_other by auto.
  destruct (Z.eqb_spec (h_state s) HT_INIT); [contradiction|]. destruct (Z.eqb_spec (h_state s) HT_HEADERS); [contradiction|].
  destruct (Z.eqb_spec (h_state s) HT_BODY); [contradiction|].
  destruct (Z.eqb_spec (h_state s) HT_CONNECTED) as [S3|S3].
  - destruct (handover_exec cap s kb o k e CP R E) as (s' & ret & O & R0 & RZ & ST & BS & HI & UD & V0).
    eexists. split; [reflexivity|].
    exists s', ret. refine (conj O (conj R0 (conj RZ (conj ST (conj BS (conj HI (conj UD V0))))))).
  - unfold http_error in E. rewrite exec_done in E. inversion E; subst. eexists. split; [reflexivity|]. eexists. split; reflexivity.
Qed.

(** * Stage D: calls, readable events, runs *)
Definition hs_inv (s : hst) : Prop :=
  hinv s /\ h_base s = true /\ (h_state s = HT_INIT \/ h_state s = HT_HEADERS \/ h_state s = HT_BODY).

Lemma Uof_len s : hinv s -> lenZ (Uof s) = h_fill s.
Proof.
  intros (P & F & PL & C & CB). unfold Uof. apply lenZ_ring_u; lia.
Qed.

Lemma aparse_need_state : forall f st cl U st' cl' U' b, aparse f st cl U = (ANeed st' cl' U', b) ->
  st' = HT_INIT \/ st' = HT_HEADERS \/ st' = HT_BODY.
Proof.
  induction f as [|f IH]; intros st cl U st' cl' U' b E; simpl in E; [discriminate|].
  destruct (Z.eqb_spec st HT_INIT).
  { destruct (l_init U); try discriminate; [inversion E; subst; auto | eapply IH; eauto]. }
  destruct (Z.eqb_spec st HT_HEADERS).
  { destruct (l_header U cl) as [[pr c] s0]. destruct pr; try discriminate; [inversion E; subst; auto|].
    destruct (aparse f _ c _) as [r s2] eqn:A. inversion E; subst. eapply IH; eauto. }
  destruct (Z.eqb_spec st HT_BODY).
  { destruct (cl =? 0); [eapply IH; eauto|]. destruct (lenZ U =? 0); [inversion E; subst; auto | eapply IH; eauto]. }
  destruct (st =? HT_CONNECTED); discriminate.
Qed.

(** one call of recv_messages in a handshake state: the bytes it reads are appended to the logical
    content and the abstract loop decides *)
Lemma call_conc cap G s kb o k e : 1 <= cap -> hs_inv s -> kb <> [] ->
  exec (http_body cap G s) kb = (o, k, e) ->
  exists d, kb = d ++ k /\ d <> [] /\
  exists F r, suff F (h_state s) (Uof s ++ d) /\ aparse F (h_state s) (h_cl s) (Uof s ++ d) = (r, false) /\
    match r with
    | ANeed st' cl' U' => exists s', o = Some (s', 0) /\ hs_inv s' /\ h_state s' = st' /\ h_cl s' = cl' /\ Uof s' = U' /\
                                      h_queue s' = h_queue s /\ vis vis_str e = []
    | AErr => exists s', o = Some (s', -1) /\ vis vis_str e = []
    | AConn c rest => exists s' ret, o = Some (s', ret) /\ 0 <= ret /\ (ret = 0 -> h_fill s' = 0) /\
                                      h_state s' = HT_CONNECTED /\ h_base s' = true /\ hinv s' /\ Uof s' = dropZ cap rest /\
                                      vis vis_str e = map ODn (h_queue s) ++ map OByte (takeZ cap rest)
    | AFuel => False
    end.
Proof.
  intros CP (HI & Bs & ST) NK E. pose proof HI as (P & F & PL & C & CB).
  pose proof (lenZ_pos kb NK) as Lk.
  unfold http_body in E.
  destruct (Z.eqb_spec (h_state s) HT_CONNECTED) as [SC|SC].
  { exfalso. destruct ST as [X|[X|X]]; rewrite X in SC; discriminate. }
  destruct (grow_ok G s HI) as (buf & pos & GR & LL1 & LL2 & LL3 & LL4).
  pose proof (grow_content G s buf pos HI GR) as U0. fold (Uof s) in U0.
  rewrite GR in E. cbv zeta in E. rewrite Bs in E.
  set (L := lenZ buf) in *.
  assert (RV : ring_valid L pos (h_fill s) = true) by (apply ring_valid_spec; lia).
  rewrite RV in E. change (negb true) with false in E. cbv iota in E.
  set (wrapped := L <? pos + h_fill s) in *.
  set (off0 := if wrapped then (pos + h_fill s) mod L else pos + h_fill s) in *.
  set (size0 := if wrapped then L - h_fill s else L - (pos + h_fill s)) in *.
  set (size1 := if wrapped then 0 else pos) in *.
  assert (GEO : 0 <= off0 /\ 0 <= size0 /\ off0 + size0 <= L /\ 0 <= size1 <= L /\ size0 + size1 = L - h_fill s).
  { unfold off0, size0, size1, wrapped. destruct (Z.ltb_spec L (pos + h_fill s)).
    - assert (E0 : (pos + h_fill s) mod L = pos + h_fill s - L) by (symmetry; apply Z.mod_unique with 1; lia).
      rewrite E0. lia.
    - lia. }
  rewrite exec_read in E.
  set (req := size0 + size1) in *.
  set (d := takeZ req kb) in *. set (rest := dropZ req kb) in *.
  assert (Ld : 1 <= lenZ d <= req) by (unfold d; rewrite lenZ_takeZ; lia).
  destruct (Z.eqb_spec (lenZ d) 0); [lia|].
  assert (T0 : lenZ (takeZ size0 d) <= size0) by (rewrite lenZ_takeZ; lia).
  assert (T1 : lenZ (dropZ size0 d) <= size1) by (rewrite lenZ_dropZ; lia).
  pose proof (lenZ_nonneg (takeZ size0 d)). pose proof (lenZ_nonneg (dropZ size0 d)).
  destruct (mwrite buf off0 (takeZ size0 d)) as [b1|] eqn:W1.
  2:{ rewrite mwrite_some in W1 by (fold L; lia). discriminate. }
  assert (L1 : lenZ b1 = L) by (rewrite (mwrite_len _ _ _ _ W1); reflexivity).
  destruct (mwrite b1 0 (dropZ size0 d)) as [b2|] eqn:W2.
  2:{ rewrite mwrite_some in W2 by lia. discriminate. }
  assert (L2 : lenZ b2 = L) by (rewrite (mwrite_len _ _ _ _ W2); exact L1).
  assert (RV' : ring_valid L pos (h_fill s + lenZ d) = true) by (apply ring_valid_spec; lia).
  rewrite RV' in E. change (negb true) with false in E. cbv iota in E.
  set (s2 := {| h_state := h_state s; h_base := true; h_queue := h_queue s; h_buf := b2;
                h_pos := pos; h_fill := h_fill s + lenZ d; h_cl := h_cl s |}) in *.
  assert (R2 : hring s2).
  { unfold hring, hinv, s2; simpl. rewrite L2. repeat split; try lia; auto. }
  assert (U2 : Uof s2 = Uof s ++ d).
  { unfold Uof at 1. unfold s2; simpl. rewrite <- U0.
    apply (ring_write buf L pos (h_fill s) d b1 b2 eq_refl ltac:(lia) ltac:(lia) ltac:(lia) W1 W2). }
  set (fuel := Datatypes.S (Datatypes.S (Datatypes.S (Datatypes.S (Datatypes.S (Z.to_nat (h_fill s + lenZ d))))))) in *.
  destruct (exec (http_parse cap fuel s2) rest) as [[o' k'] e'] eqn:EP.
  inversion E; subst o' k' e. clear E.
  assert (SF : suff fuel (h_state s2) (Uof s2)).
  { unfold suff. pose proof (hring_facts s2 R2) as (_ & _ & _ & _ & _ & X). pose proof (lenZ_length (Uof s2)).
    pose proof (rank_le (h_state s2)). unfold fuel. simpl h_fill in X. lia. }
  destruct (parse_conc cap CP fuel s2 rest o k e' R2 SF EP) as [KK (r & AP & M)].
  subst k. exists d. split; [unfold d, rest; symmetry; apply takeZ_dropZ|].
  split; [intros X; rewrite X, lenZ_nil0 in Ld; lia|].
  exists fuel, r. rewrite <- U2. split; [exact SF|]. split; [exact AP|].
  destruct r as [st' cl' U'| |c rs|]; auto.
  destruct M as (s' & O & R' & S1 & S2 & S3 & S4 & S5 & S6). exists s'.
  split; [exact O|]. split.
  { split; [exact (proj1 R')|]. split; [exact (proj2 (proj2 (proj2 R')))|]. rewrite S1. eapply aparse_need_state; eauto. }
  repeat (split; auto).
Qed.

Lemma aeq_sym st c1 c2 U : aeq st c1 c2 U -> aeq st c2 c1 U.
Proof. intros [E|X]; [left; auto | right; auto]. Qed.
Lemma aeq_trans st c1 c2 c3 U : aeq st c1 c2 U -> aeq st c2 c3 U -> aeq st c1 c3 U.
Proof. intros [E|X] [E'|X']; subst; unfold aeq; auto. Qed.
Lemma aeq_ext st c1 c2 U V : aeq st c1 c2 U -> aeq st c1 c2 (U ++ V).
Proof. intros [E|[X Y]]; [left; auto | right; split; auto; apply cli_ext; auto]. Qed.
Lemma rrel_sym a b : rrel a b -> rrel b a.
Proof.
  destruct a as [[s1 c1 U1| |c1 x1|] b1]; destruct b as [[s2 c2 U2| |c2 x2|] b2]; unfold rrel; simpl; intros [E M]; try contradiction; split; auto.
  - destruct M as (A & B & C). subst. repeat split; auto. apply aeq_sym; auto.
  - destruct M; subst; auto.
Qed.
Lemma rrel_trans a b c : rrel a b -> rrel b c -> rrel a c.
Proof.
  destruct a as [[s1 c1 U1| |c1 x1|] b1]; destruct b as [[s2 c2 U2| |c2 x2|] b2]; destruct c as [[s3 c3 U3| |c3 x3|] b3];
    unfold rrel; simpl; intros [E M] [E' M']; try contradiction; (split; [congruence|]); auto.
  - destruct M as (A & B & C). destruct M' as (A' & B' & C'). subst. repeat split; auto. eapply aeq_trans; eauto.
  - destruct M, M'; subst; auto.
Qed.

(** what a concrete result must look like for an abstract outcome [r] *)
Definition spec_ok (q : list (list Z)) (r : ares) (w : wst hst) (e : list ev) : Prop :=
  match r with
  | ANeed st' cl' U' => dead w = 0 /\ hs_inv (inner w) /\ h_state (inner w) = st' /\ Uof (inner w) = U' /\
                        aeq st' (h_cl (inner w)) cl' U' /\ h_queue (inner w) = q /\ vis vis_str e = []
  | AErr => dead w = 1 /\ vis vis_str e = []
  | AConn c rest => dead w = 0 /\ h_state (inner w) = HT_CONNECTED /\ h_base (inner w) = true /\ hinv (inner w) /\
                    h_fill (inner w) = 0 /\ vis vis_str e = map ODn q ++ map OByte rest
  | AFuel => False
  end.

Lemma spec_ok_rrel q r r' w e : rrel (r, false) (r', false) -> spec_ok q r' w e -> spec_ok q r w e.
Proof.
  unfold rrel; simpl. intros [_ M].
  destruct r as [s1 c1 U1| |c1 x1|]; destruct r' as [s2 c2 U2| |c2 x2|]; try contradiction; simpl; auto.
  - destruct M as (A & B & C). subst. intros (D1 & D2 & D3 & D4 & D5 & D6 & D7).
    refine (conj D1 (conj D2 (conj D3 (conj D4 (conj _ (conj D6 D7)))))).
    eapply aeq_trans; eauto. apply aeq_sym; auto.
  - destruct M; subst; auto.
Qed.

Definition big (st : Z) (W : list Z) : nat := Datatypes.S (length W + rank st).
Lemma big_suff st W : suff (big st W) st W.
Proof. unfold suff, big. lia. Qed.

Lemma vis_up d : vis vis_str [Up d (-1); Ret 1] = map OByte d.
Proof. unfold vis. simpl. rewrite !app_nil_r. reflexivity. Qed.
Lemma vis_rd_up st a b d : vis vis_str [Rd st a b; Up d (-1); Ret 1] = map OByte d.
Proof. unfold vis. simpl. rewrite !app_nil_r. reflexivity. Qed.

(** a readable event on a connected socket: what is left in the ring comes out first, then the chunk; at the
    end of the event (the call that would block) the ring is empty *)
Lemma conn_drainw cap G : 1 <= cap -> forall fu s kb more w e,
  h_state s = HT_CONNECTED -> hinv s -> (hmeas s kb < fu)%nat ->
  (kb <> [] \/ more = true \/ h_fill s = 0) ->
  drainw (http_body cap G) fu s kb more = (w, e) ->
  dead w = 0 /\ h_state (inner w) = HT_CONNECTED /\ h_base (inner w) = true /\ hinv (inner w) /\ h_fill (inner w) = 0 /\
  vis vis_str e = map OByte (Uof s ++ kb) /\ (h_fill s = 0 -> inner w = s).
Proof.
  intros CP. induction fu as [|fu IH]; intros s kb more w e SC HI LF ST D; [lia|].
  pose proof HI as (P & F & PL & C & CB). pose proof (CB SC) as Bs.
  assert (LU : lenZ (Uof s) = h_fill s) by (unfold Uof; apply lenZ_ring_u; lia).
  simpl drainw in D.
  destruct (match kb with [] => negb more | _ :: _ => false end) eqn:STOP.
  { destruct kb; [|discriminate]. destruct more; [discriminate|].
    destruct ST as [X|[X|X]]; try congruence.
    inversion D; subst; simpl. assert (U0 : Uof s = []) by (apply lenZ_nil; lia). rewrite U0.
    refine (conj eq_refl (conj SC (conj Bs (conj HI (conj X (conj eq_refl (fun _ => eq_refl))))))). }
  clear STOP. pose proof (lenZ_nonneg kb) as K0'.
  destruct (Z.ltb_spec 0 (h_fill s)) as [FP|FZ].
  - destruct (ring_pop_spec cap s HI FP CP) as (pos' & RP & PR & DR).
    set (s1 := with_ring s HT_CONNECTED pos' (h_fill s - Z.min cap (h_fill s)) (h_cl s)) in *.
    assert (EX : exec (http_body cap G s) kb = (Some (s1, 1), kb, [Up (takeZ cap (Uof s)) (-1); Ret 1])).
    { unfold http_body. rewrite SC. change (HT_CONNECTED =? HT_CONNECTED) with true. cbv iota.
      destruct (Z.ltb_spec 0 (h_fill s)); [|lia]. rewrite RP. reflexivity. }
    rewrite EX in D. change (1 <? 0) with false in D. change (1 =? 0) with false in D. simpl andb in D. cbv iota in D.
    destruct (drainw (http_body cap G) fu s1 kb (0 <? 1)) as [w' e'] eqn:D'. injection D as DW DE. subst w e.
    assert (HI1 : hinv s1) by (unfold hinv, s1, with_ring; simpl; repeat split; try lia; auto).
    assert (LF1 : (hmeas s1 kb < fu)%nat) by (unfold hmeas in *; unfold s1, with_ring; cbn [h_fill]; lia).
    destruct (IH s1 kb (0 <? 1) w' e' eq_refl HI1 LF1 (or_intror (or_introl eq_refl)) D') as (A1 & A2 & A3 & A4 & A5 & A6 & _).
    refine (conj A1 (conj A2 (conj A3 (conj A4 (conj A5 (conj _ _)))))); [|intros X; lia].
    change (?x :: ?y :: e') with ([x; y] ++ e').
    rewrite vis_app, vis_up, A6. unfold Uof at 2. unfold s1, with_ring; simpl. rewrite DR.
    rewrite <- map_app. f_equal. rewrite app_assoc, takeZ_dropZ. reflexivity.
  - assert (F0 : h_fill s = 0) by lia. assert (U0 : Uof s = []) by (apply lenZ_nil; lia).
    pose proof (lenZ_takeZ cap kb) as LT. pose proof (lenZ_dropZ cap kb) as LD. pose proof (lenZ_nonneg kb) as K0.
    assert (EX : exec (http_body cap G s) kb =
                 if lenZ (takeZ cap kb) =? 0 then (Some (s, 0), dropZ cap kb, [Rd false cap (lenZ (takeZ cap kb)); Ret 0])
                 else (Some (s, 1), dropZ cap kb, [Rd false cap (lenZ (takeZ cap kb)); Up (takeZ cap kb) (-1); Ret 1])).
    { unfold http_body. rewrite SC. change (HT_CONNECTED =? HT_CONNECTED) with true. cbv iota.
      destruct (Z.ltb_spec 0 (h_fill s)); [lia|]. rewrite Bs. unfold passthrough_cap. rewrite exec_read.
      destruct (lenZ (takeZ cap kb) =? 0); reflexivity. }
    rewrite EX in D.
    destruct (Z.eqb_spec (lenZ (takeZ cap kb)) 0) as [D0|D0].
    + assert (KN : kb = []) by (apply lenZ_nil; lia). subst kb.
      simpl in D. injection D as DW DE. subst w e. simpl. rewrite U0.
      refine (conj eq_refl (conj SC (conj Bs (conj HI (conj F0 (conj eq_refl (fun _ => eq_refl))))))).
    + change (1 <? 0) with false in D. change (1 =? 0) with false in D. simpl andb in D. cbv iota in D.
      destruct (drainw (http_body cap G) fu s (dropZ cap kb) (0 <? 1)) as [w' e'] eqn:D'. injection D as DW DE. subst w e.
      assert (LF1 : (hmeas s (dropZ cap kb) < fu)%nat) by (unfold hmeas in *; lia).
      destruct (IH s (dropZ cap kb) (0 <? 1) w' e' SC HI LF1 (or_intror (or_introl eq_refl)) D') as (A1 & A2 & A3 & A4 & A5 & A6 & A7).
      refine (conj A1 (conj A2 (conj A3 (conj A4 (conj A5 (conj _ A7)))))).
      change (?x :: ?y :: ?z :: e') with ([x; y; z] ++ e').
      rewrite vis_app, vis_rd_up, A6, U0. simpl app. rewrite <- map_app, takeZ_dropZ. reflexivity.
Qed.

Lemma drainw_step {S} (body : S -> prog S) fu s kb more : kb <> [] ->
  drainw body (Datatypes.S fu) s kb more =
  let '(o, kb1, e1) := exec (body s) kb in
  match o with
  | None => ({| inner := s; dead := 2 |}, e1)
  | Some (s1, r) =>
      if r <? 0 then ({| inner := s1; dead := 1 |}, e1)
      else if (r =? 0) && (lenZ kb1 =? lenZ kb) then ({| inner := s1; dead := 3 |}, e1 ++ [ELive])
      else let '(w, e2) := drainw body fu s1 kb1 (0 <? r) in (w, e1 ++ e2)
  end.
Proof. intros N. destruct kb; [congruence|]. reflexivity. Qed.
Lemma drainw_nil {S} (body : S -> prog S) fu s : drainw body fu s [] false = ({| inner := s; dead := 0 |}, []).
Proof. destruct fu; reflexivity. Qed.

(** a readable event in a handshake state *)
Lemma drainw_conc cap G : 1 <= cap -> forall n kb, (length kb <= n)%nat -> kb <> [] -> forall s fu w e,
  hs_inv s -> (hmeas s kb < fu)%nat -> drainw (http_body cap G) fu s kb false = (w, e) ->
  forall F, suff F (h_state s) (Uof s ++ kb) ->
  exists r0, aparse F (h_state s) (h_cl s) (Uof s ++ kb) = (r0, false) /\ spec_ok (h_queue s) r0 w e.
Proof.
  intros CP. induction n as [|n IH]; intros kb Ln NK s fu w e HS LF D F SF.
  { destruct kb; [congruence | simpl in Ln; lia]. }
  destruct fu as [|fu]; [lia|].
  rewrite drainw_step in D by exact NK.
  destruct (exec (http_body cap G s) kb) as [[o k] e1] eqn:E1.
  destruct (call_conc cap G s kb o k e1 CP HS NK E1) as (d & KB & ND & F1 & r1 & SF1 & AP1 & M).
  pose proof (http_call_okw cap G CP s kb o k e1 (proj1 HS) E1) as OKW.
  pose proof (lenZ_pos d ND) as Ld.
  assert (NP : (lenZ k =? lenZ kb) = false).
  { apply Z.eqb_neq. rewrite KB, lenZ_app. lia. }
  assert (NP' : forall r, (r =? 0) && (lenZ k =? lenZ kb) = false) by (intros; rewrite NP; apply andb_false_r).
  assert (HSc : 0 <= h_cl s) by (destruct HS as ((_ & _ & _ & X & _) & _); exact X).
  assert (LK : (length k < length kb)%nat).
  { rewrite KB, app_length. pose proof (lenZ_length d). lia. }
  assert (MD : forall s1 r, o = Some (s1, r) -> 0 <= r -> (hmeas s1 k < fu)%nat).
  { intros s1 r -> R. destruct (OKW R) as [_ [(_ & X & _)|(_ & X)]]; [apply Z.eqb_neq in NP; contradiction|lia]. }
  rewrite KB in SF. rewrite app_assoc in SF.
  destruct r1 as [st' cl' U'| |c rs|]; try contradiction.
  - (* the parser wants more *)
    destruct M as (s' & O & HS' & S1 & S2 & S3 & S4 & V1).
    pose proof (MD _ _ O ltac:(lia)) as LF'. subst o.
    change (0 <? 0) with false in D. cbv iota in D. rewrite NP' in D.
    destruct (drainw (http_body cap G) fu s' k false) as [w' e2] eqn:D2. injection D as DW DE. subst w e.
    rewrite KB. rewrite app_assoc.
    pose proof (aparse_stable F1 _ _ _ _ HSc AP1 ltac:(discriminate) k F SF) as ST. simpl in ST.
    destruct k as [|x k'].
    + (* nothing left: the event is over *)
      rewrite drainw_nil in D2. injection D2 as DW DE. subst w' e2.
      specialize (ST (big st' (U' ++ [])) (big_suff _ _)).
      rewrite app_nil_r in *.
      assert (Cc' : 0 <= cl').
      { subst cl'. destruct HS' as ((_ & _ & _ & X & _) & _); exact X. }
      rewrite (aparse_fuel_eq F F1) by auto. rewrite AP1. eexists. split; [reflexivity|].
      simpl. rewrite S4, app_nil_r. refine (conj eq_refl (conj HS' (conj S1 (conj S3 (conj _ (conj eq_refl V1)))))). left; auto.
    + assert (NK' : x :: k' <> []) by discriminate.
      assert (HSc' : 0 <= h_cl s') by (destruct HS' as ((_ & _ & _ & X & _) & _); exact X).
      destruct (IH (x :: k') ltac:(lia) NK' s' fu w' e2 HS' LF' D2 (big st' (U' ++ x :: k'))
                  ltac:(rewrite S1, S3; apply big_suff)) as (r0' & AP' & OK').
      rewrite S1, S2, S3 in AP'.
      specialize (ST (big st' (U' ++ x :: k')) (big_suff _ _)). rewrite AP' in ST.
      destruct (aparse F (h_state s) (h_cl s) ((Uof s ++ d) ++ x :: k')) as [r0 b0] eqn:AP0.
      assert (b0 = false) by (destruct ST as [X _]; exact X). subst b0.
      exists r0. split; [reflexivity|].
      apply (spec_ok_rrel _ r0 r0' _ _ ST).
      rewrite S4 in OK'.
      destruct r0' as [a1 a2 a3| |a1 a2|]; simpl in *; auto.
      * destruct OK' as (B1 & B2 & B3 & B4 & B5 & B6 & B7).
        refine (conj B1 (conj B2 (conj B3 (conj B4 (conj B5 (conj B6 _)))))). rewrite vis_app, V1, B7. reflexivity.
      * destruct OK' as (B1 & B7). split; auto. rewrite vis_app, V1, B7. reflexivity.
      * destruct OK' as (B1 & B2 & B3 & B4 & B5 & B7).
        refine (conj B1 (conj B2 (conj B3 (conj B4 (conj B5 _))))). rewrite vis_app, V1, B7. reflexivity.
  - (* the proxy refused / the reply is malformed *)
    destruct M as (s' & O & V1). subst o. change (-1 <? 0) with true in D. cbv iota in D. injection D as DW DE. subst w e.
    rewrite KB, app_assoc.
    pose proof (aparse_stable F1 _ _ _ _ HSc AP1 ltac:(discriminate) k F SF) as ST. simpl in ST.
    rewrite ST. eexists. split; [reflexivity|]. simpl. auto.
  - (* connected: what followed the reply in this read is handed over as far as the caller's buffer goes, the
       following calls hand out the rest of the ring and then the rest of the chunk *)
    destruct M as (s' & ret & O & R0 & RZ & SC & BS & HI & UD & V1).
    pose proof (MD _ _ O R0) as LF'. subst o.
    destruct (Z.ltb_spec ret 0); [lia|]. rewrite NP' in D.
    destruct (drainw (http_body cap G) fu s' k (0 <? ret)) as [w' e2] eqn:D2. injection D as DW DE. subst w e.
    assert (ST' : k <> [] \/ (0 <? ret) = true \/ h_fill s' = 0).
    { destruct (Z.eq_dec ret 0) as [Z0|Z0]; [right; right; auto|right; left; apply Z.ltb_lt; lia]. }
    destruct (conn_drainw cap G CP fu s' k (0 <? ret) w' e2 SC HI LF' ST' D2) as (A1 & A2 & A3 & A4 & A5 & A6 & _).
    rewrite KB, app_assoc.
    pose proof (aparse_stable F1 _ _ _ _ HSc AP1 ltac:(discriminate) k F SF) as ST. simpl in ST.
    rewrite ST. eexists. split; [reflexivity|]. simpl.
    refine (conj A1 (conj A2 (conj A3 (conj A4 (conj A5 _))))).
    rewrite vis_app, V1, A6, UD. rewrite <- app_assoc, <- map_app. f_equal. f_equal.
    rewrite app_assoc, takeZ_dropZ. reflexivity.
Qed.

(** * the specification: what a stream means, independent of any chunking and of the caller's buffer sizes *)
Definition http_start (q : list (list Z)) : hst :=
  {| h_state := HT_INIT; h_base := true; h_queue := q; h_buf := []; h_pos := 0; h_fill := 0; h_cl := 0 |}.

(* (what the layers above and below see, liveness) after the whole stream [T] *)
Definition http_spec (q : list (list Z)) (T : list Z) : list obs * Z :=
  match fst (aparse (big HT_INIT T) HT_INIT 0 T) with
  | ANeed _ _ _ => ([], 0)
  | AErr => ([], 1)
  | AConn _ rest => (map ODn q ++ map OByte rest, 0)
  | AFuel => ([], 2)
  end.

(* the byte stream of a run *)
Definition stream_of (cs : list (Z * list Z)) : list Z := concat (map snd cs).

Definition Inv (q : list (list Z)) (T : list Z) (w : wst hst) (e : list ev) : Prop :=
  exists r0, aparse (big HT_INIT T) HT_INIT 0 T = (r0, false) /\ spec_ok q r0 w e.

Lemma Inv_start q : Inv q [] (alive (http_start q)) [].
Proof.
  exists (ANeed HT_INIT 0 []). split; [reflexivity|]. simpl.
  refine (conj eq_refl (conj _ (conj eq_refl (conj eq_refl (conj (or_introl eq_refl) (conj eq_refl eq_refl)))))).
  unfold hs_inv, hinv, http_start; simpl. rewrite lenZ_nil0. repeat split; auto; try lia; try discriminate.
Qed.

Lemma Inv_feed cap G q T w e0 c w' e' : 1 <= cap -> Inv q T w e0 -> http_feed cap G w c = (w', e') ->
  Inv q (T ++ c) w' (e0 ++ e').
Proof.
  intros CP (r0 & AP & OK) FD. unfold Inv.
  assert (Z00 : 0 <= 0) by lia.
  pose proof (aparse_stable _ _ _ _ _ Z00 AP) as ST.
  destruct r0 as [st' cl' U'| |c0 rest|]; simpl in OK; try contradiction.
  - destruct OK as (D0 & HS & S1 & S3 & AQ & Q & V0).
    specialize (ST ltac:(discriminate) c (big HT_INIT (T ++ c)) (big_suff _ _)). cbv beta iota in ST.
    unfold http_feed in FD. rewrite D0 in FD. change (0 =? 0) with true in FD. cbv iota in FD.
    destruct c as [|x c'].
    + rewrite drainw_nil in FD. injection FD as DW DE. subst w' e'. rewrite !app_nil_r.
      exists (ANeed st' cl' U'). split; [exact AP|]. simpl.
      refine (conj eq_refl (conj HS (conj S1 (conj S3 (conj AQ (conj Q V0)))))).
    + assert (NK : x :: c' <> []) by discriminate.
      destruct (drainw_conc cap G CP (length (x :: c')) (x :: c') (le_n _) NK (inner w) _ w' e' HS (http_fuel_ok _ _) FD
                  (big st' (U' ++ x :: c')) ltac:(rewrite S1, S3; apply big_suff)) as (r1 & AP1 & OK1).
      rewrite S1, S3 in AP1.
      specialize (ST (big st' (U' ++ x :: c')) (big_suff _ _)).
      pose proof (aparse_insens (big st' (U' ++ x :: c')) st' (h_cl (inner w)) cl' (U' ++ x :: c') (aeq_ext _ _ _ _ _ AQ)) as INS.
      rewrite AP1 in INS.
      pose proof (rrel_trans _ _ _ ST (rrel_sym _ _ INS)) as RR.
      destruct (aparse (big HT_INIT (T ++ x :: c')) HT_INIT 0 (T ++ x :: c')) as [r2 b2] eqn:AP2.
      assert (b2 = false) by (destruct RR as [X _]; exact X). subst b2.
      exists r2. split; [reflexivity|].
      rewrite Q in OK1. pose proof (spec_ok_rrel _ _ _ _ _ RR OK1) as OK2.
      destruct r2 as [a1 a2 a3| |a1 a2|]; simpl in *; auto.
      * destruct OK2 as (B1 & B2 & B3 & B4 & B5 & B6 & B7).
        refine (conj B1 (conj B2 (conj B3 (conj B4 (conj B5 (conj B6 _)))))). rewrite vis_app, V0, B7. reflexivity.
      * destruct OK2 as (B1 & B7). split; auto. rewrite vis_app, V0, B7. reflexivity.
      * destruct OK2 as (B1 & B2 & B3 & B4 & B5 & B7).
        refine (conj B1 (conj B2 (conj B3 (conj B4 (conj B5 _))))). rewrite vis_app, V0, B7. reflexivity.
  - destruct OK as (D1 & V0).
    specialize (ST ltac:(discriminate) c (big HT_INIT (T ++ c)) (big_suff _ _)). cbv beta iota in ST.
    unfold http_feed in FD. rewrite D1 in FD. change (1 =? 0) with false in FD. cbv iota in FD. injection FD as DW DE. subst w' e'.
    exists AErr. split; [exact ST|]. simpl. rewrite app_nil_r. auto.
  - destruct OK as (D0 & SC & BS & HI & F0 & V0).
    specialize (ST ltac:(discriminate) c (big HT_INIT (T ++ c)) (big_suff _ _)). cbv beta iota in ST.
    unfold http_feed in FD. rewrite D0 in FD. change (0 =? 0) with true in FD. cbv iota in FD.
    destruct (conn_drainw cap G CP _ (inner w) c false w' e' SC HI (http_fuel_ok _ _) (or_intror (or_intror F0)) FD)
      as (A1 & A2 & A3 & A4 & A5 & A6 & _).
    assert (U0 : Uof (inner w) = []).
    { apply lenZ_nil. rewrite (Uof_len _ HI). exact F0. }
    exists (AConn c0 (rest ++ c)). split; [exact ST|]. simpl.
    refine (conj A1 (conj A2 (conj A3 (conj A4 (conj A5 _))))).
    rewrite vis_app, V0, A6, U0. simpl app. rewrite map_app, app_assoc. reflexivity.
Qed.

Lemma Inv_run G q : forall cs T w e0, caps_ok cs -> Inv q T w e0 ->
  Inv q (T ++ stream_of cs) (fst (http_run G w cs)) (e0 ++ snd (http_run G w cs)).
Proof.
  induction cs as [|[cap c] cs IH]; intros T w e0 CO I; simpl in *.
  - unfold stream_of; simpl. rewrite !app_nil_r. exact I.
  - inversion CO as [|? ? C1 C2]; subst. simpl in C1.
    destruct (http_feed cap G w c) as [w1 e1] eqn:FD. destruct (http_run G w1 cs) as [w2 e2] eqn:RN. simpl in *.
    pose proof (Inv_feed cap G q T w e0 c w1 e1 C1 I FD) as I1.
    specialize (IH (T ++ c) w1 (e0 ++ e1) C2 I1). rewrite RN in IH. simpl in IH.
    unfold stream_of in *. simpl. rewrite <- !app_assoc in IH. exact IH.
Qed.

(** every delivery of a stream, however it is cut and whatever the sizes (>= 1) of the caller's receive buffer
    in the successive readable events, shows exactly what the specification says *)
Theorem http_seg_independent G q cs : caps_ok cs ->
  vis vis_str (snd (http_run G (alive (http_start q)) cs)) = fst (http_spec q (stream_of cs)) /\
  dead (fst (http_run G (alive (http_start q)) cs)) = snd (http_spec q (stream_of cs)).
Proof.
  intros CO. pose proof (Inv_run G q cs [] _ [] CO (Inv_start q)) as (r0 & AP & OK).
  simpl app in *. unfold http_spec. rewrite AP. simpl fst.
  destruct r0 as [a1 a2 a3| |a1 a2|]; simpl in *.
  - destruct OK as (B1 & _ & _ & _ & _ & _ & B7). auto.
  - destruct OK as (B1 & B7). auto.
  - destruct OK as (B1 & _ & _ & _ & _ & B7). auto.
  - contradiction.
Qed.

(** an established tunnel (nothing left in the ring) stays one and hands every byte upward *)
Theorem http_tunnel_transparent G s : h_state s = HT_CONNECTED -> hinv s -> h_fill s = 0 -> forall cs, caps_ok cs ->
  fst (http_run G (alive s) cs) = alive s /\
  vis vis_str (snd (http_run G (alive s) cs)) = map OByte (stream_of cs).
Proof.
  intros SC HI F0. assert (U0 : Uof s = []) by (apply lenZ_nil; rewrite (Uof_len _ HI); exact F0).
  induction cs as [|[cap c] cs IH]; intros CO; simpl; auto.
  inversion CO as [|? ? C1 C2]; subst. simpl in C1.
  destruct (http_feed cap G (alive s) c) as [w1 e1] eqn:FD.
  unfold http_feed in FD. simpl in FD.
  destruct (conn_drainw cap G C1 _ s c false w1 e1 SC HI (http_fuel_ok _ _) (or_intror (or_intror F0)) FD)
    as (A1 & A2 & A3 & A4 & A5 & A6 & A7).
  assert (W1 : w1 = alive s) by (destruct w1 as [i d]; simpl in *; unfold alive; f_equal; auto).
  subst w1. specialize (IH C2).
  destruct (http_run G (alive s) cs) as [w2 e2]. simpl in *. destruct IH as [-> V2].
  split; auto. rewrite vis_app, A6, V2, U0. unfold stream_of. simpl. rewrite map_app. reflexivity.
Qed.
