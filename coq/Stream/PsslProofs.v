(** Proofs about the pseudo-SSL model. *)
From Coq Require Import ZArith List Bool Lia.
From Nice Require Import Stream.StreamBase Stream.StreamProofs Stream.TcpQueueModel Stream.PsslModel Stream.ProxyProofs.
Import ListNotations.
Local Open Scope Z_scope.

(** the handshake flag is only ever set while the base socket is there *)
Definition pinv (s : pst) : Prop := p_hs s = true -> p_base s = true.

Lemma pssl_valid_some G c d : lenZ d <= 83 -> exists b, pssl_valid G c d = Some b.
Proof.
  intros L. pose proof (lenZ_nonneg d). unfold pssl_valid.
  assert (L83 : lenZ (repZ G 83) = 83) by (rewrite lenZ_repZ; reflexivity).
  rewrite mwrite_some by lia.
  set (data := takeZ 0 (repZ G 83) ++ d ++ dropZ (0 + lenZ d) (repZ G 83)).
  assert (Ld : lenZ data = 83).
  { unfold data. rewrite !lenZ_app, lenZ_takeZ, lenZ_dropZ. lia. }
  assert (R32 : lenZ (repZ 0 32) = 32) by (rewrite lenZ_repZ; reflexivity).
  destruct (c =? PS_MSOC).
  - destruct (lenZ d =? 83); eauto.
    rewrite (mwrite_some data 11) by lia.
    set (d1 := takeZ 11 data ++ repZ 0 32 ++ dropZ (11 + lenZ (repZ 0 32)) data).
    assert (L1 : lenZ d1 = 83).
    { unfold d1. rewrite !lenZ_app, lenZ_takeZ, lenZ_dropZ. lia. }
    rewrite (mwrite_some d1 44) by lia.
    set (d2 := takeZ 44 d1 ++ repZ 0 32 ++ dropZ (44 + lenZ (repZ 0 32)) d1).
    assert (L2 : lenZ d2 = 83).
    { unfold d2. rewrite !lenZ_app, lenZ_takeZ, lenZ_dropZ. lia. }
    unfold mreadn. rewrite fits_spec. simpl. destruct (Z.leb_spec (0 + 83) (lenZ d2)); [eauto | lia].
  - destruct (lenZ d =? 79); eauto.
    unfold mreadn. rewrite fits_spec. simpl. destruct (Z.leb_spec (0 + 79) (lenZ data)); [eauto | lia].
Qed.

Lemma pssl_hello_len_range c : 79 <= pssl_hello_len c <= 83.
Proof. unfold pssl_hello_len. destruct (c =? PS_MSOC); lia. Qed.

(** shape of one handshake call *)
Lemma pssl_handshake_exec G s kb : p_hs s = false -> p_base s = true -> kb <> [] ->
  exists o e, exec (pssl_body G s) kb = (o, dropZ (pssl_hello_len (p_compat s)) kb, e) /\
    (o = Some ({| p_compat := p_compat s; p_hs := true; p_base := true; p_queue := [] |}, 0) \/
     (exists s1, o = Some (s1, -1))).
Proof.
  intros H B N. unfold pssl_body. rewrite H, B. simpl exec.
  set (n := pssl_hello_len (p_compat s)). pose proof (pssl_hello_len_range (p_compat s)). fold n in H0.
  set (d := takeZ n kb).
  assert (Ld : 0 < lenZ d <= 83).
  { unfold d. rewrite lenZ_takeZ. pose proof (lenZ_pos kb N). lia. }
  destruct (Z.eqb_spec (lenZ d) 0); [lia|].
  destruct (pssl_valid_some G (p_compat s) d ltac:(lia)) as [bb V]. rewrite V.
  destruct bb.
  - rewrite exec_flush_queue. simpl. eexists _, _. split; [reflexivity|]. left. reflexivity.
  - simpl. eexists _, _. split; [reflexivity|]. right. eexists. reflexivity.
Qed.

Lemma pssl_inv_step G s kb s1 r k e : pinv s -> exec (pssl_body G s) kb = (Some (s1, r), k, e) -> 0 <= r -> pinv s1.
Proof.
  intros I E R. unfold pssl_body in E.
  destruct (p_hs s) eqn:H.
  - rewrite (I H) in E. unfold passthrough in E. simpl in E.
    destruct (lenZ (takeZ UPCAP kb) =? 0); simpl in E; inversion E; subst; unfold pinv; rewrite H; auto.
  - destruct (p_base s) eqn:B.
    + simpl in E. destruct (lenZ (takeZ (pssl_hello_len (p_compat s)) kb) =? 0).
      * simpl in E. inversion E; subst. unfold pinv. rewrite H. discriminate.
      * destruct (pssl_valid G (p_compat s) (takeZ (pssl_hello_len (p_compat s)) kb)) as [[|]|].
        -- rewrite exec_flush_queue in E. simpl in E. inversion E; subst. unfold pinv; simpl; auto.
        -- simpl in E. inversion E; subst. lia.
        -- simpl in E. inversion E.
    + simpl in E. inversion E; subst. lia.
Qed.

Lemma pssl_strict G s : p_hs s = false -> strict_only (pssl_body G s).
Proof.
  intros H. unfold pssl_body. rewrite H. destruct (p_base s); [|constructor].
  constructor. intros d. destruct (lenZ d =? 0); [constructor|].
  destruct (pssl_valid G (p_compat s) d) as [[|]|]; try constructor.
  apply flush_queue_strict. constructor.
Qed.

Lemma pssl_resume G : resume_ok (pssl_body G) vis_str pinv.
Proof.
  intros s a b o1 e1 I NA NB E F C.
  destruct (p_hs s) eqn:H.
  - left. apply passthrough_transparent. unfold pssl_body. rewrite H, (I H). reflexivity.
  - exfalso. pose proof (strict_clean_full _ (pssl_strict G s H) _ _ _ _ E C). congruence.
Qed.

Theorem pssl_seg_independent_except G s cs : pinv s ->
  clean (snd (run (pssl_body G) (alive s) cs)) = true ->
  weq (fst (run (pssl_body G) (alive s) cs)) (fst (feed (pssl_body G) (alive s) (concat cs))) /\
  vis vis_str (snd (run (pssl_body G) (alive s) cs)) = vis vis_str (snd (feed (pssl_body G) (alive s) (concat cs))).
Proof.
  intros I C.
  exact (run_seg_independent (pssl_body G) vis_str pinv (pssl_inv_step G) (pssl_resume G) cs (alive s) I C).
Qed.

Theorem pssl_tunnel_transparent G s cs : p_hs s = true -> p_base s = true ->
  fst (run (pssl_body G) (alive s) cs) = alive s /\
  vis vis_str (snd (run (pssl_body G) (alive s) cs)) = map OByte (concat cs).
Proof.
  intros H B. apply transparent_run. apply passthrough_transparent. unfold pssl_body. rewrite H, B. reflexivity.
Qed.

Lemma pssl_send_transparent s rel bufs : p_hs s = true -> p_base s = true ->
  pssl_send s rel bufs = (s, [Dn (concat bufs); Snd 1]).
Proof. intros H B. unfold pssl_send. rewrite H, B. reflexivity. Qed.

(** no Fault, no spinning *)
Lemma pssl_call_ok G s kb o k e : pinv s -> kb <> [] -> exec (pssl_body G s) kb = (o, k, e) -> Forall (fun _ => True) e ->
  match o with None => False | Some (s1, r) => 0 <= r -> pinv s1 /\ lenZ k < lenZ kb end.
Proof.
  intros I N E _. pose proof (lenZ_pos kb N) as Lk.
  destruct (p_hs s) eqn:H.
  - unfold pssl_body in E. rewrite H, (I H) in E. rewrite exec_passthrough in E by auto. inversion E; subst.
    intros _. split; auto. rewrite lenZ_dropZ. unfold UPCAP. lia.
  - destruct (p_base s) eqn:B.
    + destruct (pssl_handshake_exec G s kb H B N) as (o' & e' & E' & [O|[s1 O]]); rewrite E' in E; inversion E; subst.
      * intros _. split; [unfold pinv; simpl; auto|]. rewrite lenZ_dropZ. pose proof (pssl_hello_len_range (p_compat s)). lia.
      * lia.
    + unfold pssl_body in E. rewrite H, B in E. simpl in E. inversion E; subst. lia.
Qed.

Theorem pssl_no_fault G s cs : pinv s ->
  ~ In EFault (snd (run (pssl_body G) (alive s) cs)) /\ ~ In ELive (snd (run (pssl_body G) (alive s) cs)).
Proof.
  intros I.
  destruct (run_ok (pssl_body G) pinv (fun _ => True) (pssl_call_ok G) cs (alive s)
              (fun _ => I) ltac:(discriminate) ltac:(discriminate)) as (A & B & _); auto.
  apply Forall_forall. auto.
Qed.
