(** Proofs about the pseudo-SSL model (the server hello is collected across reads). *)
From Coq Require Import ZArith List Bool Lia.
From Nice Require Import Stream.StreamBase Stream.StreamProofs Stream.TcpQueueModel Stream.PsslModel Stream.ProxyProofs.
Import ListNotations.
Local Open Scope Z_scope.

Lemma w64_small' x : 0 <= x < W64 -> w64 x = x.
Proof. intros; unfold w64; apply Z.mod_small; lia. Qed.

Lemma pssl_hello_len_range c : 79 <= pssl_hello_len c <= 83.
Proof. unfold pssl_hello_len. destruct (c =? PS_MSOC); lia. Qed.

Definition pinv (s : pst) : Prop :=
  lenZ (p_hbuf s) = 83 /\ 0 <= p_hlen s /\ (p_hs s = true -> p_base s = true) /\
  (p_hs s = false -> p_base s = true -> p_hlen s < pssl_hello_len (p_compat s)).

Lemma pinv_init c : pinv (pssl_init c).
Proof.
  unfold pinv, pssl_init; cbn [p_hbuf p_hlen p_hs p_base p_compat]. pose proof (pssl_hello_len_range c).
  rewrite lenZ_repZ. repeat split; try lia; try discriminate.
Qed.

Lemma pssl_valid_some c hb len : lenZ hb = 83 -> exists b hb', pssl_valid c hb len = Some (b, hb') /\ lenZ hb' = 83.
Proof.
  intros L. unfold pssl_valid.
  assert (R32 : lenZ (repZ 0 32) = 32) by (rewrite lenZ_repZ; reflexivity).
  destruct (c =? PS_MSOC).
  - destruct (len =? 83); [|eauto].
    rewrite (mwrite_some hb 11) by lia.
    set (d1 := takeZ 11 hb ++ repZ 0 32 ++ dropZ (11 + lenZ (repZ 0 32)) hb).
    assert (L1 : lenZ d1 = 83) by (unfold d1; rewrite !lenZ_app, lenZ_takeZ, lenZ_dropZ; lia).
    rewrite (mwrite_some d1 44) by lia.
    set (d2 := takeZ 44 d1 ++ repZ 0 32 ++ dropZ (44 + lenZ (repZ 0 32)) d1).
    assert (L2 : lenZ d2 = 83) by (unfold d2; rewrite !lenZ_app, lenZ_takeZ, lenZ_dropZ; lia).
    destruct (mreadn_some d2 83 ltac:(lia)) as [x ->]. eauto.
  - destruct (len =? 79); [|eauto].
    destruct (mreadn_some hb 79 ltac:(lia)) as [x ->]. eauto.
Qed.

(** the continuation of the hello read absorbs bytes piecewise *)
Lemma hello_k_app s a x : a <> [] -> x <> [] -> p_hlen s + lenZ a < pssl_hello_len (p_compat s) ->
  pssl_hello_k s (a ++ x) =
  match mwrite (p_hbuf s) (p_hlen s) a with
  | None => PFault
  | Some hb => pssl_hello_k {| p_compat := p_compat s; p_hs := false; p_base := true; p_queue := p_queue s;
                               p_hbuf := hb; p_hlen := p_hlen s + lenZ a |} x
  end.
Proof.
  intros NA NX SH. pose proof (lenZ_pos a NA) as La. pose proof (lenZ_pos x NX) as Lx.
  unfold pssl_hello_k at 1. rewrite lenZ_app. destruct (Z.eqb_spec (lenZ a + lenZ x) 0); [lia|].
  rewrite mwrite_app. destruct (mwrite (p_hbuf s) (p_hlen s) a) as [hb|]; [|reflexivity].
  unfold pssl_hello_k. cbn [p_hbuf p_hlen p_compat p_queue].
  destruct (Z.eqb_spec (lenZ x) 0); [lia|].
  destruct (mwrite hb (p_hlen s + lenZ a) x); [|reflexivity].
  replace (p_hlen s + (lenZ a + lenZ x)) with (p_hlen s + lenZ a + lenZ x) by lia. reflexivity.
Qed.

Lemma pssl_inv_step s kb s1 r k e : pinv s -> exec (pssl_body s) kb = (Some (s1, r), k, e) -> 0 <= r -> pinv s1.
Proof.
  intros (LB & L0 & HB & HL) E R. unfold pssl_body in E.
  destruct (p_hs s) eqn:H.
  - rewrite (HB eq_refl) in E. unfold passthrough in E. simpl in E.
    destruct (lenZ (takeZ UPCAP kb) =? 0); simpl in E; inversion E; subst; unfold pinv; rewrite H; auto.
  - destruct (p_base s) eqn:B; [|simpl in E; inversion E; subst; lia].
    specialize (HL eq_refl eq_refl). pose proof (pssl_hello_len_range (p_compat s)) as N.
    rewrite exec_read in E. rewrite w64_small' in E by (unfold W64; lia).
    set (d := takeZ (pssl_hello_len (p_compat s) - p_hlen s) kb) in *.
    assert (Ld : 0 <= lenZ d <= pssl_hello_len (p_compat s) - p_hlen s) by (unfold d; rewrite lenZ_takeZ; pose proof (lenZ_nonneg kb); lia).
    unfold pssl_hello_k in E.
    destruct (Z.eqb_spec (lenZ d) 0).
    { simpl in E. inversion E; subst. unfold pinv. rewrite H, B. repeat split; auto; discriminate. }
    rewrite mwrite_some in E by lia.
    set (hb := takeZ (p_hlen s) (p_hbuf s) ++ d ++ dropZ (p_hlen s + lenZ d) (p_hbuf s)) in *.
    assert (LH : lenZ hb = 83) by (unfold hb; rewrite !lenZ_app, lenZ_takeZ, lenZ_dropZ; lia).
    destruct (Z.ltb_spec (p_hlen s + lenZ d) (pssl_hello_len (p_compat s))).
    { simpl in E. inversion E; subst. unfold pinv; simpl. repeat split; auto; try lia; discriminate. }
    destruct (pssl_valid_some (p_compat s) hb (p_hlen s + lenZ d) LH) as (bb & hb' & V & LH'). rewrite V in E.
    destruct bb.
    + rewrite exec_flush_queue in E. simpl in E. inversion E; subst. unfold pinv; simpl. repeat split; auto; try lia; discriminate.
    + simpl in E. inversion E; subst. lia.
Qed.

Lemma pssl_resume : resume_ok pssl_body vis_str pinv.
Proof.
  intros s a b o1 e1 (LB & L0 & HB & HL) NA NB E F _.
  destruct (p_hs s) eqn:H.
  { left. apply passthrough_transparent. unfold pssl_body. rewrite H, (HB eq_refl). reflexivity. }
  right. unfold pssl_body in E |- *. rewrite H in *.
  destruct (p_base s) eqn:B.
  2:{ simpl in E. inversion E; subst. contradiction. }
  specialize (HL eq_refl eq_refl). pose proof (pssl_hello_len_range (p_compat s)) as N.
  rewrite exec_read in *. rewrite w64_small' in * by (unfold W64; lia).
  set (req := pssl_hello_len (p_compat s) - p_hlen s) in *.
  pose proof (lenZ_pos a NA) as La. pose proof (lenZ_pos b NB) as Lb.
  destruct (exec (pssl_hello_k s (takeZ req a)) (dropZ req a)) as [[o' k'] e'] eqn:E'.
  inversion E; subst o' k' e1. clear E.
  (* the read was short: every later step of the call is read-free *)
  assert (SH : lenZ a < req).
  { destruct (Z.lt_ge_cases (lenZ a) req); auto. exfalso.
    simpl in F. rewrite lenZ_takeZ in F. destruct (Z.leb_spec req (Z.max 0 (Z.min req (lenZ a)))); [|lia]. simpl in F.
    unfold pssl_hello_k in E'. destruct (lenZ (takeZ req a) =? 0); [simpl in E'; inversion E'; subst; discriminate|].
    destruct (mwrite _ _ _); [|simpl in E'; inversion E'; subst; discriminate].
    destruct (_ <? _); [simpl in E'; inversion E'; subst; discriminate|].
    destruct (pssl_valid _ _ _) as [[[|] hb']|]; [rewrite exec_flush_queue in E'| |]; simpl in E'; inversion E'; subst;
      try discriminate.
    rewrite all_full_app in F. simpl in F. rewrite andb_true_r in F.
    clear -F. induction (p_queue s); simpl in *; auto; discriminate. }
  rewrite (takeZ_all req a) in * by lia. rewrite (dropZ_all req a) in * by lia.
  rewrite (takeZ_app_r req a b) by lia. rewrite (dropZ_app_r req a b) by lia.
  set (x := takeZ (req - lenZ a) b). set (rest := dropZ (req - lenZ a) b).
  assert (Lx : 1 <= lenZ x) by (unfold x; rewrite lenZ_takeZ; lia).
  assert (NX : x <> []) by (intros X; rewrite X, lenZ_nil0 in Lx; lia).
  assert (Lrest : lenZ rest < lenZ b) by (unfold rest; rewrite lenZ_dropZ; lia).
  rewrite hello_k_app by (auto; unfold req in SH; lia).
  unfold pssl_hello_k in E' at 1. destruct (Z.eqb_spec (lenZ a) 0); [lia|].
  destruct (mwrite (p_hbuf s) (p_hlen s) a) as [hb|].
  - destruct (Z.ltb_spec (p_hlen s + lenZ a) (pssl_hello_len (p_compat s))); [|unfold req in SH; lia].
    simpl in E'. inversion E'; subst o1 e'. clear E'.
    set (s1 := {| p_compat := p_compat s; p_hs := false; p_base := true; p_queue := p_queue s; p_hbuf := hb; p_hlen := p_hlen s + lenZ a |}).
    destruct (exec (pssl_hello_k s1 x) rest) as [[o2 k2] e2] eqn:E2.
    exists o2, k2, (Rd false req (lenZ (a ++ x)) :: e2). split; [reflexivity|]. split; [lia|].
    cbn [p_hs p_base p_compat p_hlen s1]. rewrite exec_read. rewrite w64_small' by (unfold W64, req in *; lia).
    replace (pssl_hello_len (p_compat s) - (p_hlen s + lenZ a)) with (req - lenZ a) by (unfold req; lia).
    fold x. fold rest. fold s1. rewrite E2.
    eexists. split; [reflexivity|]. split; [reflexivity|].
    pose proof (exec_suffix _ _ _ _ _ E2). lia.
  - simpl in E'. inversion E'; subst. eexists None, rest, _. split; [reflexivity|]. split; reflexivity.
Qed.

Lemma exec_pssl_clean s kb o k e : exec (pssl_body s) kb = (o, k, e) -> clean e = true.
Proof.
  unfold pssl_body. destruct (p_hs s).
  { destruct (p_base s); [|intros E; inversion E; reflexivity]. unfold passthrough. simpl.
    destruct (_ =? 0); intros E; inversion E; reflexivity. }
  destruct (p_base s); [|intros E; inversion E; reflexivity].
  rewrite exec_read. unfold pssl_hello_k.
  destruct (_ =? 0); [intros E; inversion E; reflexivity|].
  destruct (mwrite _ _ _); [|intros E; inversion E; reflexivity].
  destruct (_ <? _); [intros E; inversion E; reflexivity|].
  destruct (pssl_valid _ _ _) as [[[|] hb']|]; [rewrite exec_flush_queue| |]; simpl; intros E; inversion E; subst; try reflexivity.
  simpl. rewrite clean_app. simpl. rewrite andb_true_r. clear. induction (p_queue s); simpl; auto.
Qed.

Theorem pssl_seg_independent s cs : pinv s ->
  weq (fst (run pssl_body (alive s) cs)) (fst (feed pssl_body (alive s) (concat cs))) /\
  vis vis_str (snd (run pssl_body (alive s) cs)) = vis vis_str (snd (feed pssl_body (alive s) (concat cs))).
Proof.
  intros I.
  apply (run_seg_independent pssl_body vis_str pinv pssl_inv_step pssl_resume cs (alive s) I).
  apply run_clean. intros. eapply exec_pssl_clean; eauto.
Qed.

Theorem pssl_tunnel_transparent s cs : p_hs s = true -> p_base s = true ->
  fst (run pssl_body (alive s) cs) = alive s /\
  vis vis_str (snd (run pssl_body (alive s) cs)) = map OByte (concat cs).
Proof.
  intros H B. apply transparent_run. apply passthrough_transparent. unfold pssl_body. rewrite H, B. reflexivity.
Qed.

Lemma pssl_send_transparent s rel bufs : p_hs s = true -> p_base s = true ->
  pssl_send s rel bufs = (s, [Dn (concat bufs); Snd 1]).
Proof. intros H B. unfold pssl_send. rewrite H, B. reflexivity. Qed.

(** no Fault, no spinning *)
Lemma pssl_call_ok s kb o k e : pinv s -> kb <> [] -> exec (pssl_body s) kb = (o, k, e) -> Forall (fun _ => True) e ->
  match o with None => False | Some (s1, r) => 0 <= r -> pinv s1 /\ lenZ k < lenZ kb end.
Proof.
  intros I N E _. pose proof I as (LB & L0 & HB & HL). pose proof (lenZ_pos kb N) as Lk.
  destruct o as [[s1 r]|].
  - intros R. split; [eapply pssl_inv_step; eauto|].
    unfold pssl_body in E. destruct (p_hs s) eqn:H.
    + rewrite (HB eq_refl) in E. rewrite exec_passthrough in E by auto. inversion E; subst. rewrite lenZ_dropZ. unfold UPCAP. lia.
    + destruct (p_base s) eqn:B; [|simpl in E; inversion E; subst; lia].
      specialize (HL eq_refl eq_refl). eapply read_progress; [| |exact E]; auto.
      rewrite w64_small' by (pose proof (pssl_hello_len_range (p_compat s)); unfold W64; lia). lia.
  - unfold pssl_body in E. destruct (p_hs s) eqn:H.
    + rewrite (HB eq_refl) in E. rewrite exec_passthrough in E by auto. inversion E.
    + destruct (p_base s) eqn:B; [|simpl in E; inversion E].
      specialize (HL eq_refl eq_refl). pose proof (pssl_hello_len_range (p_compat s)) as NN.
      rewrite exec_read in E. rewrite w64_small' in E by (unfold W64; lia).
      set (d := takeZ (pssl_hello_len (p_compat s) - p_hlen s) kb) in *.
      assert (Ld : 0 <= lenZ d <= pssl_hello_len (p_compat s) - p_hlen s) by (unfold d; rewrite lenZ_takeZ; lia).
      unfold pssl_hello_k in E. destruct (lenZ d =? 0); [simpl in E; inversion E|].
      rewrite mwrite_some in E by lia.
      match type of E with context [pssl_valid ?c ?hb ?l] =>
        destruct (pssl_valid_some c hb l) as (bb & hb' & V & _);
        [rewrite !lenZ_app, lenZ_takeZ, lenZ_dropZ; lia | rewrite V in E] end.
      destruct (_ <? _); [simpl in E; inversion E|].
      destruct bb; [rewrite exec_flush_queue in E|]; simpl in E; inversion E.
Qed.

Theorem pssl_no_fault s cs : pinv s ->
  ~ In EFault (snd (run pssl_body (alive s) cs)) /\ ~ In ELive (snd (run pssl_body (alive s) cs)).
Proof.
  intros I.
  destruct (run_ok pssl_body pinv (fun _ => True) pssl_call_ok cs (alive s)
              (fun _ => I) ltac:(discriminate) ltac:(discriminate)) as (A & B & _); auto.
  apply Forall_forall. auto.
Qed.
