(** Executable model of the TCP send queue: socket/tcp-bsd.c socket_send_message(s) and socket/socket.c
    nice_socket_queue_send_with_callback / nice_socket_flush_send_queue_to_socket (+ nice_socket_queue_send,
    used by the proxy layers).  The kernel is an input: a script of results, one per write attempt
    ([KAcc n]: min(n, len) bytes accepted; [KWould]: EWOULDBLOCK; [KFail]: G_IO_ERROR_FAILED;
    [KErr]: any other error); an exhausted script accepts everything.  [G] is the value of
    uninitialised heap bytes (the queued element is allocated with g_malloc and then filled by the copy loop).  No proofs in this file. *)
From Coq Require Import ZArith List Bool.
From Nice Require Import Stream.StreamBase.
Import ListNotations.
Local Open Scope Z_scope.

Inductive kres := KAcc (n : Z) | KWould | KFail | KErr.

Inductive qev :=
| QK (d : list Z)            (* K<hex>: bytes the kernel accepted in one write *)
| QKe (k : kres)             (* Kw / Kf / Kx *)
| QS (r : Z)                 (* S<ret> *)
| QW | QZ                    (* W, Z markers *)
| QC (b : bool).             (* C<0|1> *)

Inductive qop := QSend (reliable : bool) (bufs : list (list Z)) | QWritable | QCanSend | QDrain.

Record qst := { queue : list (list Z); script : list kres }.

Fixpoint sumlen (bufs : list (list Z)) : Z := match bufs with [] => 0 | b :: t => lenZ b + sumlen t end.

(** the copy loop of nice_socket_queue_send_with_callback: bytes written into tbs->buf.  Buffers that lie wholly
    inside message_offset are skipped; the offset is used up by the first buffer copied from. *)
Fixpoint qcopy (bufs : list (list Z)) (moff room : Z) : list Z :=
  match bufs with
  | [] => []
  | b :: t =>
      if lenZ b <=? moff then qcopy t (moff - lenZ b) room
      else
        let len := Z.min room (lenZ b - moff) in
        takeZ len (dropZ moff b) ++ qcopy t 0 (room - len)
  end.

(** the queued element (None when message_offset >= message_len: nothing is queued) *)
Definition qelem (G : Z) (bufs : list (list Z)) (moff mlen : Z) : option (list Z) :=
  if mlen <=? moff then None
  else let tl := mlen - moff in
       let c := qcopy bufs moff tl in
       Some (c ++ repZ G (Z.to_nat (tl - lenZ c))).

Definition push_tail (q : list (list Z)) (o : option (list Z)) := match o with Some x => q ++ [x] | None => q end.
Definition push_head (q : list (list Z)) (o : option (list Z)) := match o with Some x => x :: q | None => q end.

Definition next_k (sc : list kres) : kres * list kres :=
  match sc with [] => (KAcc W64, []) | k :: t => (k, t) end.

(** socket_send_message + socket_send_messages(_reliable) for one message *)
Definition q_send (G : Z) (s : qst) (reliable : bool) (bufs : list (list Z)) : qst * list qev :=
  let mlen := sumlen bufs in
  let flat := concat bufs in
  let fin (len : Z) := if reliable then (if len <? 0 then -1 else 1) else (if len <? 0 then -1 else if len =? 0 then 0 else 1) in
  match queue s with
  | [] =>
      let '(k, sc) := next_k (script s) in
      match k with
      | KAcc n =>
          let n' := Z.max 0 (Z.min n mlen) in
          if n' <? mlen then
            ({| queue := push_head [] (qelem G bufs n' mlen); script := sc |},
             [QK (takeZ n' flat); QS (fin mlen)])
          else ({| queue := []; script := sc |}, [QK (takeZ n' flat); QS (fin n')])
      | KWould | KFail =>
          ({| queue := push_tail [] (qelem G bufs 0 mlen); script := sc |}, [QKe k; QS (fin mlen)])
      | KErr => ({| queue := []; script := sc |}, [QKe k; QS (fin (-1))])
      end
  | _ :: _ =>
      if reliable then ({| queue := push_tail (queue s) (qelem G bufs 0 mlen); script := script s |}, [QS (fin mlen)])
      else (s, [QS (fin 0)])
  end.

(** nice_socket_flush_send_queue_to_socket; fuel = number of queued elements *)
Fixpoint q_flush (G : Z) (fuel : nat) (q : list (list Z)) (sc : list kres) : list (list Z) * list kres * list qev :=
  match fuel, q with
  | Datatypes.S f, tbs :: rest =>
      let '(k, sc') := next_k sc in
      match k with
      | KAcc n =>
          let n' := Z.max 0 (Z.min n (lenZ tbs)) in
          if n' <? lenZ tbs then
            (push_head rest (qelem G [dropZ n' tbs] 0 (lenZ tbs - n')), sc', [QK (takeZ n' tbs)])
          else let '(q', sc'', e) := q_flush G f rest sc' in (q', sc'', QK (takeZ n' tbs) :: e)
      | KWould => (push_head rest (qelem G [tbs] 0 (lenZ tbs)), sc', [QKe k])
      | KFail | KErr => let '(q', sc'', e) := q_flush G f rest sc' in (q', sc'', QKe k :: e)
      end
  | _, _ => (q, sc, [])
  end.

Definition q_step (G : Z) (s : qst) (o : qop) : qst * list qev :=
  match o with
  | QSend r bufs => q_send G s r bufs
  | QWritable =>
      match queue s with
      | [] => (s, [QW])         (* no io_source attached: nothing is dispatched *)
      | _ => let '(q, sc, e) := q_flush G (length (queue s)) (queue s) (script s) in ({| queue := q; script := sc |}, QW :: e)
      end
  | QCanSend => (s, [QC (match queue s with [] => true | _ => false end)])
  | QDrain => let '(q, sc, e) := q_flush G (length (queue s)) (queue s) [] in ({| queue := q; script := sc |}, QZ :: e)
  end.

Fixpoint q_run (G : Z) (s : qst) (ops : list qop) : qst * list (qop * list qev) :=
  match ops with
  | [] => (s, [])
  | o :: t => let '(s1, e) := q_step G s o in let '(s2, r) := q_run G s1 t in (s2, (o, e) :: r)
  end.

(** nice_socket_queue_send (queues of the proxy layers): every non-empty message is compacted and appended *)
Definition queue_send (q : list (list Z)) (bufs : list (list Z)) : list (list Z) :=
  if sumlen bufs =? 0 then q else q ++ [concat bufs].
